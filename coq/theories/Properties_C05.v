(* Property C05 - Record-time filters and triggers select exactly the documented calls.
   Only statements; every proof is [exact <lemma>]. *)
From Coq Require Import NArith ZArith List Bool.
Import ListNotations.
Require Import UV.Gen.Consts UV.Mcount.Model UV.Mcount.Forest UV.Mcount.PlainStep UV.Mcount.PlainProofs
  UV.Mcount.Restore UV.Mcount.SelectSpec UV.Mcount.Select UV.Mcount.Embed UV.Mcount.EmbedOver UV.Mcount.EmbedMore UV.Mcount.Check UV.Mcount.SelectSpec2 UV.Mcount.Select2 UV.Mcount.Method UV.Mcount.Finish UV.Mcount.FinishMI.
Local Open Scope N_scope.

(* The filter state after a function returns equals the state before it was called - for EVERY
   configuration (any trigger table: -F/-N/-C, depth=/time=/size=/trace/trace_on/trace_off, any -D/-t,
   any --max-stack incl. overflow) and every call tree, under the always-push shape
   (-finstrument-functions / XRay).  [eqw]: the shadow stack is unchanged up to WRITTEN flags. *)
Theorem C05_state_restored_cyg : forall c, shp c = CYG -> forall k s hk,
  exists s', exec c (flat k) (s, hk) = (s', hk) /\
             fc s' = fc s /\ ridx s' = ridx s /\ eqw (stack s') (stack s).
Proof. exact restored_cyg. Qed.
Print Assumptions C05_state_restored_cyg.

(* The same for the -pg / fentry shape: EVERY configuration as well, since a rejected function whose trigger
   changed the filter state keeps a NORECORD frame like the always-push shape (fix of the defect pg-reject-leak). *)
Theorem C05_state_restored_pg : forall c, shp c = PG -> forall k s hk,
  exists s', exec c (flat k) (s, hk) = (s', hk) /\
             fc s' = fc s /\ ridx s' = ridx s /\ eqw (stack s') (stack s).
Proof. exact restored_pg. Qed.
Print Assumptions C05_state_restored_pg.

(* The code as found left the change behind (legacy semantics [exec_legacy]): the state after a rejected call
   differed from the state before it, the caller vanished from the trace and the result depended on the
   instrumentation method; with the repair both shapes record the same. *)
Theorem C05_pg_leak_legacy_refuted :
  ftime (fc (fst (exec_legacy leak_cfg [Enter 0 100; Enter 1 110; Leave 120] (init, [])))) <>
  ftime (fc (fst (exec_legacy leak_cfg [Enter 0 100] (init, [])))) /\
  out (fst (exec_legacy leak_cfg leak_events (init, []))) = [] /\
  out (fst (exec (cyg_of leak_cfg) leak_events (init, []))) <> [] /\
  out (fst (exec leak_cfg leak_events (init, []))) = out (fst (exec (cyg_of leak_cfg) leak_events (init, []))).
Proof. exact pg_leak_legacy_refuted. Qed.
Print Assumptions C05_pg_leak_legacy_refuted.
Theorem C05_pg_leak2_legacy_refuted :
  let es := [Enter 0 100; Enter 1 110; Leave 120; Enter 2 130; Leave 140; Leave 200] in
  length (out (fst (exec_legacy leak2_cfg es (init, [])))) = 2%nat /\
  length (out (fst (exec leak2_cfg es (init, [])))) = 4%nat /\
  length (out (fst (exec (cyg_of leak2_cfg) es (init, [])))) = 4%nat.
Proof. exact pg_leak2_legacy_refuted. Qed.
Print Assumptions C05_pg_leak2_legacy_refuted.

(* Documented semantics, stage 0 (-t and -D): the recorded trace equals the tree-recursive
   specification [recs] (a call is kept iff it is above the depth limit and ran longer than the
   threshold or has a kept callee), independent of the instrumentation method. *)
Theorem C05_matches_documented_t_D : forall thr gd ms sh f, all_timed f -> heights f <= ms ->
  out (fst (exec (plain thr gd ms sh) (flat_forest f) (init, []))) = flat_map (recs thr gd 0) f.
Proof. exact run_forest. Qed.
Print Assumptions C05_matches_documented_t_D.

Theorem C05_method_independent_t_D : forall thr gd ms f, all_timed f -> heights f <= ms ->
  out (fst (exec (plain thr gd ms PG) (flat_forest f) (init, []))) =
  out (fst (exec (plain thr gd ms CYG) (flat_forest f) (init, []))).
Proof. exact method_independent. Qed.
Print Assumptions C05_method_independent_t_D.

(* Documented semantics, stage 1 (-F / -N / -D / -t together): for every filter table, threshold, both
   instrumentation shapes and every call forest (clock readings non-decreasing inside a call, nesting within
   --max-stack, -D > 0) the recorded trace equals the tree-recursive specification [sel]: a -N function hides
   itself and everything it calls; with -F only the -F functions and what they call are shown; -D counts
   nesting levels from the outermost shown function and afresh inside a -F function; -t hides a selected call
   that did not run longer than the threshold unless one of its callees is shown. *)
Theorem C05_matches_documented_F_N_D_t : forall flt fm gd thr ms sh, 0 < gd -> forall f,
  all_timed f -> heights f <= ms ->
  out (fst (exec (fcfg flt fm gd thr ms sh) (flat_forest f) (init, []))) = flat_map (sel flt gd thr (x0 fm gd) 0) f.
Proof. exact run_forest_sel. Qed.
Print Assumptions C05_matches_documented_F_N_D_t.

(* ... and is properly nested: every recorded call's recorded ancestors are present *)
Theorem C05_nested_output_t_D : forall thr gd ms sh f, all_timed f -> heights f <= ms ->
  scan 0 (out (fst (exec (plain thr gd ms sh) (flat_forest f) (init, [])))) = Some 0.
Proof. exact recorded_stream_nested. Qed.
Print Assumptions C05_nested_output_t_D.

(* Proper nesting for EVERY option set without a trace_on/trace_off trigger (the property's own exception):
   any trigger table (-F/-N/-C/-Z, depth=/time=/size=/trace), any -D/-t, both instrumentation shapes, from the
   initial state, any complete call forest within --max-stack.  The recorded stream is the flattening of a
   forest EMBEDDED in the call history ([emb]: calls may be left out, their callees are promoted; nothing is
   invented, reordered or re-timed) with depth = number of open recorded calls - so every recorded call's
   recorded ancestors are present.   *)
Theorem C05_recorded_is_embedded_subhistory : forall c, no_switch c -> forall f,
  all_ended f -> heights f <= max_stack c ->
  exists g, emb g f /\ out (fst (exec c (flat_forest f) (init, []))) = flat_map (history 0) g.
Proof. exact run_forest_emb. Qed.
Print Assumptions C05_recorded_is_embedded_subhistory.

Theorem C05_nested_any_configuration : forall c, no_switch c -> forall f,
  all_ended f -> heights f <= max_stack c ->
  scan 0 (out (fst (exec c (flat_forest f) (init, [])))) = Some 0.
Proof. exact nested_any_cfg. Qed.
Print Assumptions C05_nested_any_configuration.

(* the executable checker applied to the implementation's streams decides exactly this statement *)
Theorem C05_embedding_checker_exact : forall f l,
  ok_emb f l = true <-> exists g, emb g f /\ l = map ideal (flat_map (history 0) g).
Proof. exact ok_emb_exact. Qed.
Print Assumptions C05_embedding_checker_exact.

(* non-vacuity: an option set with -F, -N, depth=, time=, size= and trace triggers has no switch *)
Theorem C05_no_switch_example :
  no_switch (mkcfg [(1, {| t_filter := Some true; t_depth := Some 2; t_time := None; t_size := None;
                           t_trace_on := false; t_trace_off := false; t_trace := false; t_caller := true; t_loc := None; t_finish := false |});
                    (2, {| t_filter := Some false; t_depth := None; t_time := Some 50; t_size := Some 40;
                           t_trace_on := false; t_trace_off := false; t_trace := true; t_caller := false; t_loc := None; t_finish := false |})]
                   true true 3 10 1024 [] PG).
Proof. exact no_switch_example. Qed.
Print Assumptions C05_no_switch_example.

(* Documented semantics, stage 2: -F / -N / -C / -D / -t / -L together with the trigger actions depth=N, time=T, size=Z and trace
   (alone or combined with filter / notrace / caller on the same function; every function at a source location that -L
   shows, hides or does not name: [sl], [lm]), any trigger table with well-formed values, any threshold, both
   instrumentation shapes, no further hypothesis: the recorded stream equals the tree-recursive specification [sel2]. *)
Theorem C05_matches_documented_filters_depth_time_triggers : forall tg szf fm hc lm gd thr ms sh,
  0 < gd -> wf_tg tg -> forall f, all_timed f -> heights f <= ms ->
  out (fst (exec (fcfg2 tg szf fm hc lm gd thr ms sh) (flat_forest f) (init, []))) =
  flat_map (sel2 tg szf hc lm (x02 fm gd thr) 0) f.
Proof. exact run_forest_sel2. Qed.
Print Assumptions C05_matches_documented_filters_depth_time_triggers.

(* non-vacuity: a table with filter+depth=+time=+size=, notrace, and depth=+time=+trace entries is well formed *)
Theorem C05_trigger_table_example : wf_tg tg_example.
Proof. exact tg_example_ok. Qed.
Print Assumptions C05_trigger_table_example.

(* The location filter at work (non-vacuity of the -L part of [sel2] and of the model): main{ a{ b{ c } } c } where a and
   c lie in a file that -L hides and a is a filter function: a and both c are not shown, b (inside the filter
   function a) is shown at depth 0 - under both instrumentation shapes. *)
Definition loc_tg : N -> strig :=
  assoc notrig2 [(256, {| sf := Some true; sd := None; stm := None; ssz := None; str := false; sc := false; sl := Some false |});
                 (768, {| sf := None; sd := None; stm := None; ssz := None; str := false; sc := false; sl := Some false |})].
Definition loc_forest : list call := [Call 0 10 100 [Call 256 12 60 [Call 512 14 40 [Call 768 16 20 []]]; Call 768 70 80 []]].
Theorem C05_location_filter_example :
  flat_map (sel2 loc_tg (fun _ => 0) false false (x02 true 1024 0) 0) loc_forest =
    [{| r_time := 14; r_type := ENTRY; r_depth := 0; r_addr := 512 |};
     {| r_time := 40; r_type := EXIT; r_depth := 0; r_addr := 512 |}] /\
  out (fst (exec (fcfg2 loc_tg (fun _ => 0) true false false 1024 0 1024 PG) (flat_forest loc_forest) (init, []))) =
    flat_map (sel2 loc_tg (fun _ => 0) false false (x02 true 1024 0) 0) loc_forest /\
  out (fst (exec (fcfg2 loc_tg (fun _ => 0) true false false 1024 0 1024 CYG) (flat_forest loc_forest) (init, []))) =
    flat_map (sel2 loc_tg (fun _ => 0) false false (x02 true 1024 0) 0) loc_forest.
Proof. vm_compute. repeat split; reflexivity. Qed.
Print Assumptions C05_location_filter_example.

(* ... and therefore independent of the instrumentation method in the whole option class *)
Theorem C05_method_independent_filters_triggers : forall tg szf fm hc lm gd thr ms f,
  0 < gd -> wf_tg tg -> all_timed f -> heights f <= ms ->
  out (fst (exec (fcfg2 tg szf fm hc lm gd thr ms PG) (flat_forest f) (init, []))) =
  out (fst (exec (fcfg2 tg szf fm hc lm gd thr ms CYG) (flat_forest f) (init, []))).
Proof. exact method_independent_sel2. Qed.
Print Assumptions C05_method_independent_filters_triggers.

(* Method independence for EVERY configuration: any trigger table (filter, notrace, depth=N also 0, time=, size=, trace,
   trace_on, trace_off, caller, in any combination), any -D / -t / -C / -Z, any call forest that fits into --max-stack,
   no well-formedness hypothesis: the -pg / fentry shape and the -finstrument-functions shape write the same records
   (proved directly, by a simulation between the two runs over call trees; Mcount/Method.v) ... *)
Theorem C05_method_independent_every_configuration : forall c z f, heights f <= max_stack c ->
  out (fst (exec (pg_of c) (flat_forest f) (init_z z, []))) =
  out (fst (exec (cyg_of c) (flat_forest f) (init_z z, []))).
Proof. exact method_independent_all. Qed.
Print Assumptions C05_method_independent_every_configuration.

(* ... and end in the same filter state, trace switch and record index *)
Theorem C05_method_independent_final_state : forall c z f, heights f <= max_stack c ->
  let sp := fst (exec (pg_of c) (flat_forest f) (init_z z, [])) in
  let sc := fst (exec (cyg_of c) (flat_forest f) (init_z z, [])) in
  fc sp = fc sc /\ enabled sp = enabled sc /\ ridx sp = ridx sc.
Proof. exact method_independent_state. Qed.
Print Assumptions C05_method_independent_final_state.

(* non-vacuity: an opt-in filter function with depth=2 and trace, trace_off / trace_on switches, a notrace function
   with a time= trigger: six records, the same under both shapes *)
Theorem C05_method_independent_example :
  heights mi_forest <= max_stack mi_cfg /\
  length (out (fst (exec (pg_of mi_cfg) (flat_forest mi_forest) (init, [])))) = 6%nat /\
  out (fst (exec (pg_of mi_cfg) (flat_forest mi_forest) (init, []))) =
  out (fst (exec (cyg_of mi_cfg) (flat_forest mi_forest) (init, []))).
Proof. exact mi_example. Qed.
Print Assumptions C05_method_independent_example.

(* ... and for call forests of any depth, also beyond --max-stack *)
Theorem C05_nested_any_configuration_any_depth : forall c, no_switch c -> forall f, all_ended f ->
  scan 0 (out (fst (exec c (flat_forest f) (init, [])))) = Some 0.
Proof. exact nested_any_cfg_any_depth. Qed.
Print Assumptions C05_nested_any_configuration_any_depth.

(* Inside the stage-2 option class every call, from every state the class can reach,
   leaves the filter state and the record index as it found them. *)
Theorem C05_state_restored_stage2_class : forall tg szf fm hc lm gd thr ms sh,
  0 < gd -> wf_tg tg -> forall k, timed k -> forall s hk i o dp mx tm zs x,
  fc s = fstate2 i o dp mx tm zs -> Rel2 fm gd thr i o dp mx tm zs x -> enabled s = true -> idx s + height k <= ms ->
  exists s', exec (fcfg2 tg szf fm hc lm gd thr ms sh) (flat k) (s, hk) = (s', hk) /\ fc s' = fc s /\ ridx s' = ridx s.
Proof. exact call_restores_state_sel2. Qed.
Print Assumptions C05_state_restored_stage2_class.

(* ... and with the global size filter -Z gz in force from the start of every thread *)
Theorem C05_matches_documented_with_size_filter_Z : forall tg szf fm hc lm gd thr ms sh gz f,
  0 < gd -> wf_tg tg -> all_timed f -> heights f <= ms ->
  out (fst (exec (fcfg2 tg szf fm hc lm gd thr ms sh) (flat_forest f) (init_z gz, []))) =
  flat_map (sel2 tg szf hc lm (x02z fm gd thr gz) 0) f.
Proof. exact run_forest_sel2_z. Qed.
Print Assumptions C05_matches_documented_with_size_filter_Z.

(* ---------------------------------------------------------------- the finish trigger (-T f@finish) *)
(* Without a finish trigger in the table the run with the trigger modelled ([exec_f]) is the ordinary run: every theorem
   above speaks about it. *)
Theorem C05_finish_absent_same_run : forall c, (forall a, t_finish (trig_of c a) = false) ->
  forall es s hk, exec_f c es (s, hk, false) = (exec c es (s, hk), false).
Proof. exact exec_f_nofinish. Qed.
Print Assumptions C05_finish_absent_same_run.

(* finish truncates the stream: for EVERY configuration, once the trigger fires (events [p] without a firing entry, then
   the entry of a function whose trigger is looked up and has the finish action) the state is the one the finishing
   entry leaves, whatever the program does afterwards ([q]) ... *)
Theorem C05_finish_truncates : forall c p a t q s hk s' hk',
  exec_f c p (s, hk, false) = (s', hk', false) -> finish_fires c s' a = true ->
  exec_f c (p ++ Enter a t :: q) (s, hk, false) = (finish_enter c s' a t, hk', true).
Proof. exact finish_truncates. Qed.
Print Assumptions C05_finish_truncates.

(* ... and the finishing entry itself adds ENTRY records only (the pending ones of the open calls and its own): no EXIT,
   nothing of a call that is not open *)
Theorem C05_finish_writes_entries_only : forall c s0 a t,
  exists recs, out (finish_enter c s0 a t) = out (fst (fst (fst (entry_check c s0 a)))) ++ recs /\
               Forall (fun r => r_type r = ENTRY) recs.
Proof. exact finish_writes_entries_only. Qed.
Print Assumptions C05_finish_writes_entries_only.

(* The code as found carried the trigger out for a rejected function under -finstrument-functions only (`-D 1 -T a@finish`
   recorded the whole program under -pg); repaired (pg-finish-rejected), both shapes stop at the same entry. *)
Theorem C05_finish_legacy_refuted :
  length (out (fst (fst (fold_left (fstep0 (fin_cfg PG)) fin_events (init, [], false))))) = 2%nat /\
  length (out (fst (fst (fold_left (fstep0 (fin_cfg CYG)) fin_events (init, [], false))))) = 1%nat /\
  out (fst (fst (exec_f (fin_cfg PG) fin_events (init, [], false)))) =
  out (fst (fst (exec_f (fin_cfg CYG) fin_events (init, [], false)))) /\
  out (fst (fst (exec_f (fin_cfg PG) fin_events (init, [], false)))) =
    [{| r_time := 100; r_type := ENTRY; r_depth := 0; r_addr := 0 |}].
Proof. exact finish_legacy_refuted. Qed.
Print Assumptions C05_finish_legacy_refuted.

(* Method independence WITH the finish trigger: for EVERY configuration (any trigger table including finish, any -D / -t /
   -C / -Z / -L) and every call forest that fits into --max-stack the run that stops at the first firing entry writes
   the same records under both instrumentation shapes (the two runs are related at every instant, take the same
   decision at every entry and flush the same pending ENTRY records: Mcount/FinishMI.v). *)
Theorem C05_method_independent_with_finish : forall c z f, heights f <= max_stack c ->
  out (fst (fst (exec_f (pg_of c) (flat_forest f) (init_z z, [], false)))) =
  out (fst (fst (exec_f (cyg_of c) (flat_forest f) (init_z z, [], false)))).
Proof. exact finish_method_independent. Qed.
Print Assumptions C05_method_independent_with_finish.
