(* Property C10 - only statements, each closed by [exact]. *)
From Coq Require Import ZArith List Bool.
Import ListNotations.
Require Import UV.Gen.Kernels UV.C10.Model UV.C10.Proofs.
Local Open Scope Z_scope.

Theorem C10_addrfind_range : forall a sa sz, sa + sz < W64 -> 0 <= sa -> 0 <= sz ->
  (addrfind a sa sz = 0 <-> sa <= a < sa + sz).
Proof. exact addrfind_zero_iff. Qed.
Print Assumptions C10_addrfind_range.
