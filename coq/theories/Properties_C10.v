(* Property C10 - only statements, each closed by [exact].
   Model: UV.C10.Model (hand-written) over UV.Gen.Kernels (addrfind, addrsort, is_kernel_address,
   get_kernel_address, guess_kernel_base: translated from /repo's C text on every run). *)
From Coq Require Import ZArith List Bool Sorting.Sorted Sorting.Permutation.
Import ListNotations.
Require Import UV.Gen.Kernels UV.C10.Model UV.C10.Proofs UV.C10.Sessions UV.C10.SymCodec UV.C10.Dlopen UV.C10.Plt UV.C10.ElfSym.
Local Open Scope Z_scope.

(* ---------------------------------------------------------------- range lookup *)
(* the generated comparator: 0 exactly for the bytes of the symbol, first byte and last byte
   included, one-past excluded *)
Theorem C10_addrfind_range : forall a sa sz, sa + sz < W64 -> 0 <= sa -> 0 <= sz ->
  (addrfind a sa sz = 0 <-> sa <= a < sa + sz).
Proof. exact addrfind_zero_iff. Qed.
Print Assumptions C10_addrfind_range.

(* soundness for EVERY table (unsorted, overlapping, duplicates): a symbol that is shown contains
   the address and is not one of the dummy end markers *)
Theorem C10_lookup_sound : forall tab a s, find_sym tab a = Some s ->
  In s tab /\ s_addr s <= a /\ a < (s_addr s + s_size s) mod W64 /\ is_symbol_end (s_name s) = false.
Proof. exact find_sym_sound. Qed.
Print Assumptions C10_lookup_sound.

(* tables sorted by address with pairwise disjoint ranges (adjacent and zero-size entries allowed):
   bsearch+addrfind finds a symbol iff the address lies in it - for all tables and all addresses *)
Theorem C10_lookup : forall tab a s, wf_tab tab = true ->
  (find_sym tab a = Some s <->
   In s tab /\ s_addr s <= a < s_addr s + s_size s /\ is_symbol_end (s_name s) = false).
Proof. exact find_sym_iff. Qed.
Print Assumptions C10_lookup.

(* ... equivalently, it is the linear specification used as run-time checker *)
Theorem C10_lookup_is_spec : forall tab a, wf_tab tab = true -> find_sym tab a = spec_find tab a.
Proof. exact find_sym_wf. Qed.
Print Assumptions C10_lookup_is_spec.

(* gaps and one-past addresses are not resolved (shown as raw addresses) *)
Theorem C10_lookup_gap : forall tab a, wf_tab tab = true ->
  (forall s, In s tab -> ~ (s_addr s <= a < s_addr s + s_size s)) -> find_sym tab a = None.
Proof. exact find_sym_gap. Qed.
Print Assumptions C10_lookup_gap.

(* the disjointness guard is exact for completeness: a nested symbol hides the enclosing one *)
Theorem C10_lookup_overlap_refuted :
  find_sym tab_overlap 50 = None /\ spec_find tab_overlap 50 = Some (mkSym 0 100 84 [65]).
Proof. exact lookup_overlap_refuted. Qed.
Print Assumptions C10_lookup_overlap_refuted.

(* ... and so is the no-wrap guard: a symbol ending exactly at 2^64 is never found *)
Theorem C10_lookup_wrap_refuted : find_sym [mkSym (W64 - 16) 16 84 [65]] (W64 - 8) = None.
Proof. exact lookup_wrap_refuted. Qed.
Print Assumptions C10_lookup_wrap_refuted.

(* ---------------------------------------------------------------- load address / ASLR *)
Theorem C10_aslr_independent : forall si d a, a < kbase si -> a + d < kbase si ->
  find_symtabs (shift_info d si) (a + d) = find_symtabs si a.
Proof. exact find_symtabs_shift. Qed.
Print Assumptions C10_aslr_independent.

(* a user-space address in a mapped module resolves by its offset from the module start *)
Theorem C10_module_relative : forall si a m, a < kbase si -> first_map (maps si) a = Some m ->
  wf_tab (m_tab m) = true -> m_start m <= a -> a - m_start m < W64 ->
  find_symtabs si a = spec_find (m_tab m) (a - m_start m).
Proof. exact find_symtabs_user. Qed.
Print Assumptions C10_module_relative.

Theorem C10_unmapped_is_raw : forall si a, a < kbase si -> first_map (maps si) a = None ->
  find_symtabs si a = None.
Proof. exact find_symtabs_unmapped. Qed.
Print Assumptions C10_unmapped_is_raw.

(* ---------------------------------------------------------------- session by time *)
(* the session tree stays ordered by (pid, start time) under create_session *)
Theorem C10_session_tree_sorted : forall s l, StronglySorted sess_le l -> StronglySorted sess_le (insert_session s l).
Proof. exact insert_session_sorted. Qed.
Print Assumptions C10_session_tree_sorted.

(* find_session: the pid's session with the latest start <= ts *)
Theorem C10_session_by_time_tree : forall l pid ts s, StronglySorted sess_le l ->
  find_session l pid ts = Some s ->
  In s l /\ se_pid s = pid /\ se_start s <= ts /\
  (forall x, In x l -> se_pid x = pid -> se_start x <= ts -> se_start x <= se_start s).
Proof. exact find_session_some. Qed.
Print Assumptions C10_session_by_time_tree.

Theorem C10_session_none : forall l pid ts, find_session l pid ts = None ->
  forall x, In x l -> ~ (se_pid x = pid /\ se_start x <= ts).
Proof. exact find_session_none. Qed.
Print Assumptions C10_session_none.

(* equal start times: the session created last is the one found *)
Theorem C10_session_equal_times : forall l s pid ts, StronglySorted sess_le l ->
  se_pid s = pid -> se_start s <= ts ->
  (forall x, In x l -> se_pid x = pid -> se_start x <= ts -> se_start x <= se_start s) ->
  find_session (insert_session s l) pid ts = Some s.
Proof. exact find_session_latest_of_equal. Qed.
Print Assumptions C10_session_equal_times.

(* a task's references form a chain [t1,t2) [t2,t3) ... [tn, 2^64-1) under add_session_ref *)
Theorem C10_task_refs_chain : forall refs id ts,
  chain_ok refs = true -> (forall r, In r refs -> r_start r <= ts) ->
  chain_ok (close_last refs ts ++ [mkRef ts U64MAX id]) = true.
Proof. exact chain_add. Qed.
Print Assumptions C10_task_refs_chain.

(* on such a chain the reference used for a record at time t is the one with the greatest
   start <= t (the later one for equal starts) *)
Theorem C10_session_by_time : forall refs t, chain_ok refs = true -> 0 <= t < U64MAX ->
  find_ref refs t = spec_ref refs t None.
Proof. exact find_ref_by_time. Qed.
Print Assumptions C10_session_by_time.

Theorem C10_spec_ref_is_latest : forall refs t best r, spec_ref refs t best = Some r ->
  (In r refs \/ best = Some r) /\ (forall x, In x refs -> r_start x <= t -> r_start x <= r_start r).
Proof. exact spec_ref_max. Qed.
Print Assumptions C10_spec_ref_is_latest.

(* no own reference for that time: parent / thread leader is asked *)
Theorem C10_session_fallback : forall fuel ts t time,
  find_ref (t_refs t) time = None ->
  find_task_session_go (S fuel) ts t time =
  (let parent := if t_ppid t =? 0 then t_pid t else t_ppid t in
   if (parent =? 0) || (parent =? t_tid t) then None
   else match find_task ts parent with
        | Some p => find_task_session_go fuel ts p time
        | None => None
        end).
Proof. exact find_task_session_fallback. Qed.
Print Assumptions C10_session_fallback.

(* ---------------------------------------------------------------- dlopen *)
Theorem C10_dlopen_not_before_load : forall s time a,
  (forall d, In d (se_dl s) -> time < d_time d) -> find_dlsym s time a = None.
Proof. exact dlsym_not_before_load. Qed.
Print Assumptions C10_dlopen_not_before_load.

Theorem C10_dlopen_latest_first : forall s l1 d l2 time a x,
  se_dl s = l1 ++ d :: l2 -> d_time d <= time ->
  find_sym (d_tab d) ((a - d_base d) mod W64) = Some x ->
  (forall d', In d' l2 -> dl_hit time a d' = None) ->
  find_dlsym s time a = Some x.
Proof. exact dlsym_latest_first. Qed.
Print Assumptions C10_dlopen_latest_first.

Theorem C10_dlopen_sound : forall s time a x, find_dlsym s time a = Some x ->
  exists d, In d (se_dl s) /\ d_time d <= time /\ find_sym (d_tab d) ((a - d_base d) mod W64) = Some x.
Proof. exact dlsym_sound. Qed.
Print Assumptions C10_dlopen_sound.

Theorem C10_dlopen_list_sorted : forall d l, StronglySorted (fun x y => d_time x <= d_time y) l ->
  StronglySorted (fun x y => d_time x <= d_time y) (insert_dl d l).
Proof. exact insert_dl_sorted. Qed.
Print Assumptions C10_dlopen_list_sorted.

(* ---------------------------------------------------------------- dlopen, record side *)
(* Model of the dlopen() wrapper with its per-thread state (clock, dlopen_depth, dlopen_start) over
   every path: a load (library + dependencies + constructors that may dlopen again), dlopen(NULL)
   (early return), a call that maps nothing (failed, RTLD_NOLOAD, already loaded, thread not traced).
   dlopen_depth is back at its entry value after ANY sequence of such calls ... *)
Theorem C10_dlopen_depth_balanced : forall early fixed l st, w_ok st ->
  w_depth (fst (fst (run_acts early fixed true l st))) = w_depth st.
Proof. exact depth_balanced. Qed.
Print Assumptions C10_dlopen_depth_balanced.

(* "a module's load event precedes all records at its addresses": at ANY dlopen node of a thread's
   history - outermost or issued by a constructor, after any earlier calls - the opened library and
   (since 0c4417a) every dependency mapped with it get a DLOP message whose stamp is earlier than
   every record made while the library is loaded; outside any dlopen the stamp is the call's own
   entry time *)
Theorem C10_load_precedes_ctor_records : forall fixed st base tab deps ctor st' recs dls,
  w_ok st ->
  run_act true fixed true (ADlopen base tab deps ctor) st = (st', recs, dls) ->
  let stamp := dl_stamp fixed st in
  In (mkDl stamp base tab) dls /\
  (fixed = true -> forall d, In d deps -> In (mkDl stamp (fst d) (snd d)) dls) /\
  (forall t a, In (t, a) recs -> stamp < t) /\ stamp <= w_clk st /\
  (w_depth st = 0%nat -> stamp = w_clk st).
Proof. exact load_precedes_ctor_records. Qed.
Print Assumptions C10_load_precedes_ctor_records.

(* from the start of a thread: a load that follows ANY prefix of loads, dlopen(NULL) and empty calls
   is stamped with its own entry time - later than every record made before it (so a library is
   never dated before the records of a library it replaces) and earlier than every record after *)
Theorem C10_load_after_prefix : forall fixed pre base tab deps ctor rest clk s1 r1 d1 st' recs dls,
  run_acts true fixed true pre (w0 clk) = (s1, r1, d1) ->
  run_acts true fixed true (ADlopen base tab deps ctor :: rest) s1 = (st', recs, dls) ->
  In (mkDl (w_clk s1) base tab) dls /\
  (fixed = true -> forall d, In d deps -> In (mkDl (w_clk s1) (fst d) (snd d)) dls) /\
  (forall t a, In (t, a) recs -> w_clk s1 < t) /\
  (forall t a, In (t, a) r1 -> t < w_clk s1).
Proof. exact load_after_prefix. Qed.
Print Assumptions C10_load_after_prefix.

(* the same for the wrapper as built: the three flags are derived from the C text of
   libmcount/wrap.c on every run (clock read before real_dlopen()?  no name filter in the
   callback?  dlopen_depth decremented before the first return after real_dlopen()?) *)
Theorem C10_load_precedes_ctor_records_as_built : forall st base tab deps ctor st' recs dls,
  w_ok st ->
  run_act wrap_dlopen_clock_first wrap_dlopen_reports_all wrap_dlopen_depth_balanced (ADlopen base tab deps ctor) st = (st', recs, dls) ->
  let stamp := if Nat.eqb (w_depth st) 0 then w_clk st else w_start st in
  In (mkDl stamp base tab) dls /\ (forall d, In d deps -> In (mkDl stamp (fst d) (snd d)) dls) /\
  (forall t a, In (t, a) recs -> stamp < t) /\ w_depth st' = w_depth st.
Proof. exact load_precedes_ctor_records_as_built. Qed.
Print Assumptions C10_load_precedes_ctor_records_as_built.

Theorem C10_load_after_prefix_as_built : forall pre base tab deps ctor rest clk s1 r1 d1 st' recs dls,
  run_acts wrap_dlopen_clock_first wrap_dlopen_reports_all wrap_dlopen_depth_balanced pre (w0 clk) = (s1, r1, d1) ->
  run_acts wrap_dlopen_clock_first wrap_dlopen_reports_all wrap_dlopen_depth_balanced (ADlopen base tab deps ctor :: rest) s1 = (st', recs, dls) ->
  In (mkDl (w_clk s1) base tab) dls /\ (forall d, In d deps -> In (mkDl (w_clk s1) (fst d) (snd d)) dls) /\
  (forall t a, In (t, a) recs -> w_clk s1 < t) /\ (forall t a, In (t, a) r1 -> t < w_clk s1).
Proof. exact load_after_prefix_as_built. Qed.
Print Assumptions C10_load_after_prefix_as_built.

(* a library whose load event is not later than the record is searched for it *)
Theorem C10_loaded_library_is_searched : forall d t a, d_time d <= t ->
  dl_hit t a d = find_sym (d_tab d) ((a - d_base d) mod W64).
Proof. exact loaded_library_is_searched. Qed.
Print Assumptions C10_loaded_library_is_searched.

(* wrapper + lookup: a constructor's record inside a symbol of its library, or of a dependency
   mapped by the same call, resolves to that symbol *)
Theorem C10_dlopen_ctor_record_resolves : forall st base tab deps ctor st' recs dls s l1 l2 t a x lb ltab,
  w_ok st ->
  run_act true true true (ADlopen base tab deps ctor) st = (st', recs, dls) -> In (t, a) recs ->
  (lb, ltab) = (base, tab) \/ In (lb, ltab) deps ->
  se_dl s = l1 ++ mkDl (dl_stamp true st) lb ltab :: l2 ->
  find_sym ltab ((a - lb) mod W64) = Some x ->
  (forall d', In d' l2 -> dl_hit t a d' = None) ->
  find_dlsym s t a = Some x.
Proof. exact ctor_record_resolves. Qed.
Print Assumptions C10_dlopen_ctor_record_resolves.

Theorem C10_dlop_messages_kept : forall msgs d, In d (dl_list msgs) <-> In d msgs.
Proof. exact dl_list_In. Qed.
Print Assumptions C10_dlop_messages_kept.

(* the order inside the wrapper is essential: reading the clock after real_dlopen() makes the
   constructor's record predate the DLOP time stamp and the library is skipped for it *)
Theorem C10_late_timestamp_refuted :
  let '(_, recs, dls) := run_act false true true (ADlopen 4096 tab_plugin [] [ARec 4360]) (w0 10) in
  recs = [(11, 4360)] /\ dls = [mkDl 12 4096 tab_plugin] /\
  find_dlsym (sess_of dls) 11 4360 = None /\
  spec_find tab_plugin (4360 - 4096) = Some (mkSym 256 64 84 [105;110;105;116]).
Proof. exact late_timestamp_refuted. Qed.
Print Assumptions C10_late_timestamp_refuted.

(* the code as found before fix 0c4417a (name filter in dlopen_base_callback): a dependency
   mapped by the same dlopen() call got no DLOP message and its records were not resolved *)
Theorem C10_dlopen_dependency_legacy_refuted :
  let '(_, recs, dls) := run_act true false true (ADlopen 4096 tab_plugin [(8192, tab_dep)] [ARec 4360; ARec 8710]) (w0 10) in
  recs = [(11, 4360); (12, 8710)] /\ dls = [mkDl 10 4096 tab_plugin] /\
  find_dlsym (sess_of dls) 12 8710 = None /\
  spec_find tab_dep (8710 - 8192) = Some (mkSym 512 32 84 [100;101;112]).
Proof. exact dependency_legacy_refuted. Qed.
Print Assumptions C10_dlopen_dependency_legacy_refuted.

(* the balance of dlopen_depth is essential: a wrapper that keeps it raised on the dlopen(NULL) path
   dates every later load of the thread by that old call; a library mapped later over the range of
   an unloaded one then takes over the first library's records *)
Theorem C10_dlopen_null_path_leak_refuted :
  let '(st', recs, dls) := run_acts true true false
      [ADlnull; ADlopen 4096 tab_plugin [] []; ARec 4360; ADlopen 4096 tab_other [] []; ARec 4360] (w0 10) in
  w_depth st' = 1%nat /\
  recs = [(12, 4360); (14, 4360)] /\ map d_time dls = [10; 10] /\
  find_dlsym (sess_of dls) 12 4360 = Some (mkSym 256 64 84 [111;116;104;101;114]) /\
  spec_find tab_plugin (4360 - 4096) = Some (mkSym 256 64 84 [105;110;105;116]).
Proof. exact null_path_leak_refuted. Qed.
Print Assumptions C10_dlopen_null_path_leak_refuted.

(* the code as found before fix bcf76bf: closing a library and opening it again sent no second DLOP
   message; with another library mapped over the range in between, the reloaded library's calls
   were attributed to that other library (first line); with the message they are not (second) *)
Theorem C10_dlopen_reload_legacy_refuted :
  let dls := [mkDl 10 4096 tab_plugin; mkDl 14 4096 tab_other] in
  find_dlsym (sess_of dls) 20 4360 = Some (mkSym 256 64 84 [111;116;104;101;114]) /\
  find_dlsym (sess_of (dls ++ [mkDl 18 4096 tab_plugin])) 20 4360 = Some (mkSym 256 64 84 [105;110;105;116]).
Proof. exact reload_unreported_legacy_refuted. Qed.
Print Assumptions C10_dlopen_reload_legacy_refuted.

(* ---------------------------------------------------------------- PLT entries of an ELF file *)
(* load_elf_dynsymtab / load_dyn_symbol (x86_64; the canonical-address test and both address
   expressions are generated from the C text).  For every file whose relocations are named and
   whose canonical PLT addresses (st_value <> 0, SHN_UNDEF) are the addresses of their own PLT
   entries [rels_ok]: with SYMTAB_FL_ADJ_OFFSET (record, analysis) EVERY PLT entry's table address
   is its link-time address minus the first PT_LOAD address = run-time address minus module base;
   PIE (vaddr0 = 0) or non-PIE, with or without .plt.sec, canonical entries anywhere in the list *)
Theorem C10_plt_table_relative : forall e,
  rels_ok e 0 (ep_rels e) ->
  0 <= ep_vaddr0 e <= plt_slot e 0 - PLT_ENTSIZE ->
  plt_slot e (length (ep_rels e)) - ep_vaddr0 e < W64 ->
  map s_addr (load_dyn_syms (plt_offset true 0 e) (plt_prev0 (plt_offset true 0 e) e) (ep_rels e)) =
  map (fun j => plt_slot e j - ep_vaddr0 e) (seq 0 (length (ep_rels e))).
Proof. exact plt_table_relative. Qed.
Print Assumptions C10_plt_table_relative.

(* ... and that list is the final (sorted) table, in relocation order *)
Theorem C10_plt_table_is_sorted : forall e,
  rels_ok e 0 (ep_rels e) ->
  0 <= ep_vaddr0 e <= plt_slot e 0 - PLT_ENTSIZE ->
  plt_slot e (length (ep_rels e)) - ep_vaddr0 e < W64 ->
  load_elf_dynsymtab true 0 e = load_dyn_syms (plt_offset true 0 e) (plt_prev0 (plt_offset true 0 e) e) (ep_rels e).
Proof. exact plt_table_sorted. Qed.
Print Assumptions C10_plt_table_is_sorted.

(* libmcount at run time (no flag, offset = load base): run-time addresses *)
Theorem C10_plt_table_runtime : forall e base,
  rels_ok e 0 (ep_rels e) ->
  0 <= base -> PLT_ENTSIZE <= plt_slot e 0 ->
  plt_slot e (length (ep_rels e)) + base < W64 ->
  map s_addr (load_dyn_syms (plt_offset false base e) (plt_prev0 (plt_offset false base e) e) (ep_rels e)) =
  map (fun j => plt_slot e j + base) (seq 0 (length (ep_rels e))).
Proof. exact plt_table_runtime. Qed.
Print Assumptions C10_plt_table_runtime.

(* entry k carries the name of relocation k, size 16, type 'P' *)
Theorem C10_plt_table_names : forall offset rels prev, (forall r, In r rels -> dr_name r <> []) ->
  map s_name (load_dyn_syms offset prev rels) = map dr_name rels /\
  Forall (fun s => s_size s = PLT_ENTSIZE /\ s_type s = K_ST_PLT_FUNC) (load_dyn_syms offset prev rels).
Proof. exact load_dyn_syms_names. Qed.
Print Assumptions C10_plt_table_names.

(* ---------------------------------------------------------------- symbols of an ELF .symtab *)
(* load_symtab (load_symbol over the file's symbols, sort_symtab) with SYMTAB_FL_ADJ_OFFSET - what
   record turns into <module>.sym for the main executable and the shared libraries.
   Every entry is a defined function/ifunc/object symbol with a size, at st_value - first PT_LOAD
   address (the module-relative address find_symtabs looks up), PIE/shared object or not ... *)
Theorem C10_symtab_relative : forall vaddr0 syms s,
  (forall e, In e syms -> loadable e = true -> 0 <= vaddr0 <= e_value e /\ e_value e < W64) ->
  In s (load_symtab true 0 vaddr0 syms) ->
  exists e, In e syms /\ loadable e = true /\ s_addr s = e_value e - vaddr0.
Proof. exact load_symtab_relative. Qed.
Print Assumptions C10_symtab_relative.

(* ... every such symbol of the file is represented at its address (aliases share one entry) ... *)
Theorem C10_symtab_complete : forall vaddr0 syms e,
  (forall e, In e syms -> loadable e = true -> 0 <= vaddr0 <= e_value e /\ e_value e < W64) ->
  In e syms -> loadable e = true ->
  exists s, In s (load_symtab true 0 vaddr0 syms) /\ s_addr s = e_value e - vaddr0.
Proof. exact load_symtab_complete. Qed.
Print Assumptions C10_symtab_complete.

(* ... also for load_symtab as built (generated flag: prev_sym_value assigned only under
   `if (load_symbol(...))`, i.e. an entry is skipped as an alias only of the last ACCEPTED one) ... *)
Theorem C10_symtab_complete_as_built : forall vaddr0 syms e,
  (forall e, In e syms -> loadable e = true -> 0 <= vaddr0 <= e_value e /\ e_value e < W64) ->
  In e syms -> loadable e = true ->
  exists s, In s (load_symtab_gen symtab_prev_only_accepted true 0 vaddr0 syms) /\ s_addr s = e_value e - vaddr0.
Proof. exact load_symtab_complete_as_built. Qed.
Print Assumptions C10_symtab_complete_as_built.

(* ... the restriction to the last accepted entry is essential: with "previous ELF entry" a function
   that directly follows a label (NOTYPE, size 0) of the same value is lost *)
Theorem C10_symtab_alias_of_rejected_refuted :
  let syms := [mkESym 4198400 0 0 0 14 [108;97;98;101;108]; mkESym 4198400 16 2 0 14 [104;101;108;112;101;114];
               mkESym 4198416 8 2 1 14 [109;97;105;110]] in
  load_symtab_gen false true 0 4194304 syms = [mkSym 4112 8 84 [109;97;105;110]] /\
  load_symtab_gen true true 0 4194304 syms = [mkSym 4096 16 116 [104;101;108;112;101;114]; mkSym 4112 8 84 [109;97;105;110]].
Proof. exact alias_of_rejected_refuted. Qed.
Print Assumptions C10_symtab_alias_of_rejected_refuted.

(* ... and the table holds every address once, in increasing order (what bsearch needs) *)
Theorem C10_symtab_strictly_sorted : forall adj offset0 vaddr0 syms,
  strictly_sorted (load_symtab adj offset0 vaddr0 syms) = true.
Proof. exact load_symtab_strictly_sorted. Qed.
Print Assumptions C10_symtab_strictly_sorted.

(* update_symtab_using_dynsym (names of the merged table taken from defined .dynsym symbols): it
   only renames - every entry keeps address, size and type - and a new name is the name of a dynamic
   symbol whose (st_value + offset) lies inside that very entry ... *)
Theorem C10_dynsym_update_consistent : forall offset dyn tab,
  Forall2 (named_ok offset dyn) tab (fold_left (update_one offset) dyn tab).
Proof. exact update_names_consistent. Qed.
Print Assumptions C10_dynsym_update_consistent.

(* ... in module-relative terms, for every first PT_LOAD address: the renamed entry holds
   st_value - p_vaddr of the symbol it is named after *)
Theorem C10_dynsym_update_relative : forall vaddr0 dyn s s',
  (forall e, In e dyn -> 0 <= vaddr0 <= e_value e /\ e_value e < W64) ->
  named_ok (elf_offset true 0 vaddr0) dyn s s' -> s_name s' <> s_name s ->
  exists e, In e dyn /\ s_name s' = e_name e /\
            s_addr s <= e_value e - vaddr0 /\ e_value e - vaddr0 < (s_addr s + s_size s) mod W64.
Proof. exact update_names_relative. Qed.
Print Assumptions C10_dynsym_update_relative.

(* ... and the offset the function uses as built (generated flag: its local offset is assigned)
   is that adjusted one *)
Theorem C10_dynsym_update_offset_as_built : forall vaddr0,
  (if dynsym_update_offset_adjusted then elf_offset true 0 vaddr0 else 0) = elf_offset true 0 vaddr0.
Proof. exact update_offset_as_built. Qed.
Print Assumptions C10_dynsym_update_offset_as_built.

(* without the adjustment a far function at the offset that equals an exported function's absolute
   address is renamed after it *)
Theorem C10_dynsym_update_unadjusted_refuted :
  fold_left (update_one 0) far_dyn far_tab = [mkSym 4352 32 84 [110;101;97;114]; mkSym 4198400 12288 84 [110;101;97;114]] /\
  fold_left (update_one (elf_offset true 0 4194304)) far_dyn far_tab = far_tab.
Proof. exact update_unadjusted_refuted. Qed.
Print Assumptions C10_dynsym_update_unadjusted_refuted.

(* ---------------------------------------------------------------- .sym files *)
(* what save_module_symbol_file writes is read back by load_module_symbol_file as the same
   symbols, sorted by address - for every table inside the guard [tab_file_ok] (sizes with a
   decimal leading digit in the %08x column, i.e. 0 < size < 0xa0000000; allowed types; names
   without newline/tab; no two consecutive lines with the same address and type), in any
   on-disk order, for every demangler that leaves the (already demangled) names alone *)
Theorem C10_sym_roundtrip_any_order : forall dem tab path bid file,
  tab_file_ok tab = true -> (forall s, In s tab -> dem (s_name s) = s_name s) ->
  no_byte 10 path = true -> no_byte 10 bid = true ->
  save_sym tab path bid = Some file ->
  load_sym dem file = sort_syms tab.
Proof. exact sym_roundtrip_sorted. Qed.
Print Assumptions C10_sym_roundtrip_any_order.

(* ... the identical table when it was address-sorted (which the writer's input is) *)
Theorem C10_sym_roundtrip : forall dem tab path bid file,
  tab_file_ok tab = true -> addr_sorted tab = true ->
  (forall s, In s tab -> dem (s_name s) = s_name s) ->
  no_byte 10 path = true -> no_byte 10 bid = true ->
  save_sym tab path bid = Some file ->
  load_sym dem file = tab.
Proof. exact sym_roundtrip. Qed.
Print Assumptions C10_sym_roundtrip.

(* the loader's sort is a stable permutation sort *)
Theorem C10_sym_sort_perm : forall tab, Permutation (sort_syms tab) tab.
Proof. exact sort_syms_perm. Qed.
Print Assumptions C10_sym_sort_perm.

Theorem C10_sym_sort_sorted : forall tab, addr_sorted (sort_syms tab) = true.
Proof. exact sort_syms_sorted. Qed.
Print Assumptions C10_sym_sort_sorted.

(* the size guard is exact: 0xa0000000 is written as "a0000000", which the reader takes for a
   type character, and the whole line is dropped *)
Theorem C10_sym_size_guard_refuted :
  load_sym dem_plain (unlines [sym_line (mkSym 16 2684354560 84 [102])]) = [].
Proof. exact sym_size_refuted. Qed.
Print Assumptions C10_sym_size_guard_refuted.

(* ... and so is the duplicate guard: the second of two lines with equal address and type is dropped *)
Theorem C10_sym_dup_guard_refuted :
  load_sym dem_plain (unlines (map sym_line [mkSym 16 4 84 [102]; mkSym 16 8 84 [103]])) = [mkSym 16 4 84 [102]].
Proof. exact sym_dup_refuted. Qed.
Print Assumptions C10_sym_dup_guard_refuted.

(* ... and the type guard: an ST_UNKNOWN ('?') symbol is written but not read back *)
Theorem C10_sym_unknown_type_refuted :
  match save_sym [mkSym 16 4 63 [117]; mkSym 32 4 84 [118]] [47;120] [] with
  | Some f => load_sym dem_plain f = [mkSym 32 4 84 [118]]
  | None => False
  end.
Proof. exact sym_unknown_type_refuted. Qed.
Print Assumptions C10_sym_unknown_type_refuted.

(* ---------------------------------------------------------------- sid-*.map files (partial) *)
(* record_proc_maps merges the segments of one file into one map; merging again (what
   read_session_map does with consecutive lines of one path) changes nothing.  The text layer of
   the map files (printf/sscanf) is covered by the differential test only. *)
Theorem C10_map_roundtrip_partial : forall segs, merge_segments (merge_segments segs) = merge_segments segs.
Proof. exact merge_idempotent. Qed.
Print Assumptions C10_map_roundtrip_partial.
