(* C06 - model of `uftrace replay` on user-function records (utils/fstack.c + cmds/replay.c).

   Code modelled (no filters, no kernel/perf/event/extern data; records are ENTRY, EXIT and the
   LOST marker libmcount writes into <tid>.dat after a buffer overflow):
     read_user_stack / get_task_ustack   k-way merge: smallest head time, strict `<` so the
                                         lowest task index wins ties              [merge]
     update_first_timestamp              running minimum used by the `elapsed` field
     fstack_account_time                 func_stack[] start time / duration, first-record
                                         set-up (stack_count from the record's depth,
                                         display depth inherited from the fork()ing parent)
     fstack_update_stack_count           stack_count++ / guarded --
     fstack_entry / fstack_update        display depth, fork_display_depth fix-up
     fstack_skip + print_graph_rstack    leaf folding: the globally next record is the same
                                         task's EXIT with the same depth field
     command_replay                      inverted-time warning, print_remaining_stack
     print_time_unit, -f field list, --column-view, --task-newline, --tid

   Scope (stated as assumptions of the check): nesting depth < hdr.max_stack <= 1024 (so that
   fstack_get never fails and the default -D 1024 never filters), no symbol named exec, setjmp,
   longjmp, no -t/-F/-N/-T options.  This file has NO proofs (it is run by vm_compute).     *)
From Coq Require Import NArith List Bool.
Import ListNotations.
Require Import UV.Gen.TimeUnit.
Local Open Scope N_scope.

(* ------------------------------------------------------------------ records and tasks *)
Inductive rtype := ENTRY | EXIT | LOST.        (* LOST: r_addr = number of lost records *)
Record rec := mkrec { r_time : N; r_type : rtype; r_depth : N; r_addr : N }.
(* r_addr: abstract function id > 0 (the tie maps symbol k to k+1; 0 = "no address", the
   value of a calloc'ed func_stack slot) *)

(* a task as the reader sees it: index of the parent task in handle->tasks (FORK line of
   task.txt resolved by get_task_handle) and the records of <tid>.dat *)
Record task := mktask { k_parent : option nat; k_recs : list rec }.

(* Fix-up classes of fstack_entry (build_fixup_filter: symbols whose name starts with exec, or
   contains setjmp, or contains longjmp):
   the tie numbers the functions so that the class is visible in the id: plain functions have ids
   below 1000000, exec symbols 1000000.., setjmp symbols 2000000.., longjmp symbols 3000000.. (fork-like
   symbols are given as a list, see [cfg]). *)
Definition is_exec_id (a : N) : bool := (1000000 <=? a) && (a <? 2000000).
Definition is_setjmp_id (a : N) : bool := (2000000 <=? a) && (a <? 3000000).
Definition is_longjmp_id (a : N) : bool := (3000000 <=? a) && (a <? 4000000).
Definition plain_id (a : N) : bool := a <? 1000000.

Definition is_exit (r : rec) : bool := match r_type r with EXIT => true | _ => false end.
Definition is_lost (r : rec) : bool := match r_type r with LOST => true | _ => false end.

Definition W64 : N := 18446744073709551616.
Definition sub64 (a b : N) : N := (a + W64 - b) mod W64.       (* uint64_t a - b *)

(* ------------------------------------------------------------------ merge (read_user_stack) *)
(* one scan over handle->tasks: (next_i, next_time), replaced when next_i < 0 or time < next_time *)
Fixpoint pick (qs : list (list rec)) (i : nat) (best : option (nat * N)) : option (nat * N) :=
  match qs with
  | [] => best
  | q :: rest =>
      let best' :=
        match q with
        | [] => best                                  (* get_task_ustack returned NULL *)
        | r :: _ =>
            match best with
            | None => Some (i, r_time r)
            | Some (_, bt) => if r_time r <? bt then Some (i, r_time r) else best
            end
        end in
      pick rest (S i) best'
  end.

(* consume the head of queue i *)
Fixpoint pop (qs : list (list rec)) (i : nat) : option (rec * list (list rec)) :=
  match qs, i with
  | [], _ => None
  | q :: rest, O => match q with [] => None | r :: q' => Some (r, q' :: rest) end
  | q :: rest, S i' => match pop rest i' with Some (r, rest') => Some (r, q :: rest') | None => None end
  end.

Fixpoint merge_fuel (fuel : nat) (qs : list (list rec)) : list (nat * rec) :=
  match fuel with
  | O => []
  | S f =>
      match pick qs 0 None with
      | None => []
      | Some (i, _) =>
          match pop qs i with
          | Some (r, qs') => (i, r) :: merge_fuel f qs'
          | None => []
          end
      end
  end.
Definition total_len (qs : list (list rec)) : nat := fold_right (fun q n => (length q + n)%nat) O qs.
Definition merge (qs : list (list rec)) : list (nat * rec) := merge_fuel (total_len qs) qs.

(* ------------------------------------------------------------------ per-task reader state *)
Record frame := mkframe { f_addr : N; f_time : N (* total_time: start, then duration *); f_valid : bool }.
Definition frame0 := mkframe 0 0 false.

Record tstate := mkts {
  t_set : bool;            (* fstack_set (fork_handled changes at the same moment) *)
  t_sc : N;                (* stack_count *)
  t_dd : N;                (* display_depth (display_depth_set stays true in scope) *)
  t_fork_dd : N;           (* fork_display_depth *)
  t_stack : list frame;    (* func_stack[]; slots beyond the list are zero (xcalloc) *)
  t_ts : N;                (* timestamp *)
  t_ts_last : N;           (* timestamp_last *)
  t_orphan : bool;         (* forked task whose parent reader is not selected (--tid): its first record
                              clears display_depth_set, the display depth then comes from the stack count *)
  t_usc : N;               (* user_stack_count: counts ENTRY/EXIT seen, NOT initialised from the first depth *)
  t_lost : bool;           (* lost_seen (display_depth_set is false exactly while it is set: both are
                              restored while the first record after the marker is handled) *)
  t_ljp : bool;            (* longjmp_pending: the next EXIT not deeper than the longjmp() says which setjmp() it was *)
  t_ljd : N                (* longjmp_depth: depth field of the last longjmp() ENTRY *)
}.
Definition tstate0 := mkts false 0 0 0 [] 0 0 false 0 false false 0.

Definition fget (st : list frame) (i : N) : frame := nth (N.to_nat i) st frame0.
Fixpoint upd (st : list frame) (n : nat) (x : frame) : list frame :=
  match n, st with
  | O, [] => [x]
  | O, _ :: t => x :: t
  | S n', [] => frame0 :: upd [] n' x
  | S n', h :: t => h :: upd t n' x
  end.
Definition fset (st : list frame) (i : N) (x : frame) : list frame := upd st (N.to_nat i) x.

(* "calculate duration from now on": slots 0..n-1 get start time t, valid; addr is kept *)
Fixpoint init_frames (st : list frame) (n : nat) (t : N) : list frame :=
  match n with
  | O => st
  | S n' =>
      match st with
      | [] => mkframe 0 t true :: init_frames [] n' t
      | f :: r => mkframe (f_addr f) t true :: init_frames r n' t
      end
  end.

(* fstack_account_time, !task->fstack_set part; [inh] = parent's fork_display_depth (0 if none) *)
Definition first_setup (inh : N) (ts : tstate) (r : rec) : tstate :=
  if t_set ts then ts
  else
    let sc := match r_type r with EXIT => r_depth r + 1 | _ => r_depth r end in
    mkts true sc (if inh =? 0 then (if t_orphan ts then sc else t_dd ts) else inh) (t_fork_dd ts)
         (init_frames (t_stack ts) (N.to_nat sc) (r_time r)) (t_ts ts) (t_ts_last ts) (t_orphan ts) (t_usc ts) (t_lost ts) (t_ljp ts) (t_ljd ts).

(* fstack_account_time, `if (task->lost_seen)`: the first record after a LOST marker
   re-synchronises stack_count from its depth field and restarts the clocks of the slots
   user_stack_count + 0..depth *)
Fixpoint reset_times (st : list frame) (base : N) (n : nat) (t : N) : list frame :=
  match n with
  | O => st
  | S n' =>
      let st' := reset_times st base n' t in
      let f := fget st' (base + N.of_nat n') in
      fset st' (base + N.of_nat n') (mkframe (f_addr f) t (f_valid f))
  end.
Definition resync (ts : tstate) (r : rec) : tstate :=
  if t_lost ts
  then mkts (t_set ts) (match r_type r with EXIT => r_depth r + 1 | _ => r_depth r end) (t_dd ts) (t_fork_dd ts)
            (reset_times (t_stack ts) (t_usc ts) (S (N.to_nat (r_depth r))) (sub64 (r_time r) 1))
            (t_ts ts) (t_ts_last ts) (t_orphan ts) (t_usc ts) false (t_ljp ts) (t_ljd ts)
  else ts.

(* fstack_account_time, UFTRACE_LOST: the frames stack_count-1 .. user_stack_count are closed;
   [lt] is lost_time (0 = not yet taken from the innermost frame) *)
Fixpoint lost_close (st : list frame) (usc : N) (n : nat) (lt : N) : list frame :=
  match n with
  | O => st
  | S i =>                                   (* frame index i = n - 1 *)
      if N.of_nat i <? usc then st
      else
        let f := fget st (N.of_nat i) in
        let lt' := if lt =? 0 then (f_time f + 1) mod W64 else lt in
        lost_close (fset st (N.of_nat i) (mkframe (f_addr f) (sub64 lt' (f_time f)) (f_valid f))) usc i lt'
  end.

(* fstack_account_time, ENTRY / EXIT / LOST part (after the lost_seen part) *)
Definition account (ts : tstate) (r : rec) : tstate :=
  match r_type r with
  | LOST =>
      mkts (t_set ts) (t_sc ts) (t_dd ts) (t_fork_dd ts)
           (lost_close (t_stack ts) (t_usc ts) (N.to_nat (t_sc ts)) 0)
           (t_ts ts) (t_ts_last ts) (t_orphan ts) (t_usc ts) true (t_ljp ts) (t_ljd ts)
  | ENTRY =>
      mkts (t_set ts) (t_sc ts) (t_dd ts) (t_fork_dd ts)
           (fset (t_stack ts) (t_sc ts) (mkframe (r_addr r) (r_time r) true)) (t_ts ts) (t_ts_last ts) (t_orphan ts) (t_usc ts) (t_lost ts) (t_ljp ts) (t_ljd ts)
  | EXIT =>
      if t_sc ts =? 0 then ts          (* idx = -1: fstack_get returns NULL *)
      else
        let idx := t_sc ts - 1 in
        let f := fget (t_stack ts) idx in
        let delta := if f_valid f then sub64 (r_time r) (f_time f) else 0 in
        mkts (t_set ts) (t_sc ts) (t_dd ts) (t_fork_dd ts)
             (fset (t_stack ts) idx (mkframe (f_addr f) delta false)) (t_ts ts) (t_ts_last ts) (t_orphan ts) (t_usc ts) (t_lost ts) (t_ljp ts) (t_ljd ts)
  end.

(* fstack_update_stack_count.  An EXIT that follows a longjmp() and is not deeper than it belongs to
   the setjmp() the program went back to: stack_count, user_stack_count and display_depth are moved
   by diff = stack_count - 1 - depth (clipped at 0), i.e. stack_count becomes depth + 1 *)
Definition count (ts : tstate) (r : rec) : tstate :=
  match r_type r with
  | ENTRY =>
      mkts (t_set ts) (t_sc ts + 1) (t_dd ts) (t_fork_dd ts) (t_stack ts) (t_ts ts) (t_ts_last ts) (t_orphan ts)
           (t_usc ts + 1) (t_lost ts) (t_ljp ts) (t_ljd ts)
  | EXIT =>
      if t_ljp ts && (r_depth r <=? t_ljd ts)
      then mkts (t_set ts) (r_depth r) ((t_dd ts + r_depth r + 1) - t_sc ts) (t_fork_dd ts) (t_stack ts)
                (t_ts ts) (t_ts_last ts) (t_orphan ts) (N.pred ((t_usc ts + r_depth r + 1) - t_sc ts)) (t_lost ts)
                false (t_ljd ts)
      else mkts (t_set ts) (N.pred (t_sc ts)) (t_dd ts) (t_fork_dd ts) (t_stack ts) (t_ts ts) (t_ts_last ts) (t_orphan ts)
                (N.pred (t_usc ts)) (t_lost ts) (t_ljp ts) (t_ljd ts)
  | LOST => ts
  end.

(* the whole of fstack_account_time + fstack_update_stack_count for one record; a LOST marker
   that follows a LOST marker returns before anything is done *)
Definition consume_task (inh : N) (ts : tstate) (r : rec) : tstate :=
  let ts1 := first_setup inh ts r in
  if t_lost ts1 && is_lost r then ts1
  else count (account (resync ts1 r) r) r.

(* ------------------------------------------------------------------ global state *)
Record gstate := mkg {
  g_tasks : list tstate;
  g_first : N;             (* handle->time_range.first *)
  g_prev : N;              (* prev_time of command_replay *)
  g_sjd : N;               (* setjmp_depth  (static in fstack.c: shared by all tasks) *)
  g_sjc : N                (* setjmp_count *)
}.

Definition tget (g : gstate) (i : nat) : tstate := nth i (g_tasks g) tstate0.
Fixpoint tupd (l : list tstate) (i : nat) (x : tstate) : list tstate :=
  match l, i with
  | [], _ => []
  | _ :: t, O => x :: t
  | h :: t, S i' => h :: tupd t i' x
  end.
Definition tset (g : gstate) (i : nat) (x : tstate) : gstate :=
  mkg (tupd (g_tasks g) i x) (g_first g) (g_prev g) (g_sjd g) (g_sjc g).

(* update_first_timestamp *)
Definition upd_first (first t : N) : N := if (first =? 0) || (t <? first) then t else first.

Definition inherit (tasks : list task) (g : gstate) (i : nat) : N :=
  match k_parent (nth i tasks (mktask None [])) with
  | Some p => t_fork_dd (tget g p)
  | None => 0
  end.

(* __fstack_consume: update_first_timestamp; fstack_account_time; fstack_update_stack_count *)
Definition consume (tasks : list task) (g : gstate) (i : nat) (r : rec) : gstate :=
  let ts := consume_task (inherit tasks g i) (tget g i) r in
  mkg (tupd (g_tasks g) i ts) (upd_first (g_first g) (r_time r)) (g_prev g) (g_sjd g) (g_sjc g).

(* ------------------------------------------------------------------ output lines *)
Inductive kind := KOpen | KLeaf | KClose | KWarn | KBlank | KLost.     (* KLost: l_name = number of lost records *)
Record line := mkline {
  l_kind : kind;
  l_task : nat;        (* index of the task (the tie maps the printed tid back) *)
  l_indent : N;        (* leading blanks / 2 *)
  l_name : N;          (* function named on the line (from the record's address) *)
  l_dur : N;           (* DURATION *)
  l_addr : N;          (* ADDRESS (fstack->addr) *)
  l_time : N;          (* TIMESTAMP *)
  l_delta : N;         (* TIMEDELTA *)
  l_elapsed : N        (* ELAPSED *)
}.

Record cfg := mkcfg {
  c_fold : bool;               (* !opts->no_merge *)
  c_forks : list N             (* ids of the symbols named fork / vfork / daemon *)
}.
Definition is_fork (c : cfg) (a : N) : bool := existsb (N.eqb a) (c_forks c).

Definition stamp (ts : tstate) (t : N) : tstate :=
  mkts (t_set ts) (t_sc ts) (t_dd ts) (t_fork_dd ts) (t_stack ts) t (t_ts ts) (t_orphan ts) (t_usc ts) (t_lost ts) (t_ljp ts) (t_ljd ts).
Definition set_dd (ts : tstate) (dd : N) : tstate :=
  mkts (t_set ts) (t_sc ts) dd (t_fork_dd ts) (t_stack ts) (t_ts ts) (t_ts_last ts) (t_orphan ts) (t_usc ts) (t_lost ts) (t_ljp ts) (t_ljd ts).
Definition set_fork (ts : tstate) (fd : N) : tstate :=
  mkts (t_set ts) (t_sc ts) (t_dd ts) fd (t_stack ts) (t_ts ts) (t_ts_last ts) (t_orphan ts) (t_usc ts) (t_lost ts) (t_ljp ts) (t_ljd ts).

(* the fix-ups of fstack_entry for the matched symbol class, on the task and on the static pair
   (setjmp_depth, setjmp_count); [depth] = display depth of this call *)
Definition fixup_entry (c : cfg) (r : rec) (depth : N) (ts : tstate) (sj : N * N) : tstate * (N * N) :=
  let a := r_addr r in
  if is_exec_id a then (ts, sj)                                     (* FSTACK_FL_EXEC, used by fstack_update below *)
  else if is_setjmp_id a then (ts, (t_dd ts + 1, t_sc ts))          (* setjmp_depth = display_depth + 1; setjmp_count *)
  else if is_longjmp_id a
  then (mkts (t_set ts) (t_sc ts) (t_dd ts) (t_fork_dd ts) (t_stack ts) (t_ts ts) (t_ts_last ts) (t_orphan ts)
             (t_usc ts) (t_lost ts) (t_ljp ts) (r_depth r), sj)     (* FSTACK_FL_LONGJMP; longjmp_depth *)
  else if is_fork c a then (set_fork ts (depth + 1), sj)
  else (ts, sj).

(* fstack_update(UFTRACE_ENTRY): exec* starts the process anew, longjmp() goes back to the latest
   setjmp() (a guess that the next EXIT corrects), every other call is one level deeper *)
Definition update_entry (r : rec) (depth : N) (ts : tstate) (sj : N * N) : tstate :=
  let a := r_addr r in
  if is_exec_id a
  then mkts (t_set ts) 0 0 (t_fork_dd ts) (t_stack ts) (t_ts ts) (t_ts_last ts) (t_orphan ts) 0 (t_lost ts) (t_ljp ts) (t_ljd ts)
  else if is_longjmp_id a
  then mkts (t_set ts) (snd sj) (fst sj) (t_fork_dd ts) (t_stack ts) (t_ts ts) (t_ts_last ts) (t_orphan ts) (snd sj)
            (t_lost ts) true (t_ljd ts)
  else set_dd ts (depth + 1).
Definition no_fold_id (a : N) : bool := is_exec_id a || is_longjmp_id a.     (* fstack_skip returns NULL *)
Definition set_sj (g : gstate) (sj : N * N) : gstate := mkg (g_tasks g) (g_first g) (g_prev g) (fst sj) (snd sj).

Definition delta_of (ts : tstate) : N := if t_ts_last ts =? 0 then 0 else sub64 (t_ts ts) (t_ts_last ts).

Definition mk (k : kind) (i : nat) (ts : tstate) (first : N) (indent name dur addr : N) : line :=
  mkline k i indent name dur addr (t_ts ts) (delta_of ts) (sub64 (t_ts ts) first).

(* command_replay loop body + print_graph_rstack on the merged stream.  The look-ahead of
   fstack_skip (peek_rstack) is the next element of the merged stream. *)
Fixpoint run (c : cfg) (tasks : list task) (l : list (nat * rec)) (g : gstate) : list line * gstate :=
  match l with
  | [] => ([], g)
  | (i, r) :: tl =>
      (* display_depth_set is false iff the task's previous record was a LOST marker *)
      let pend := t_lost (tget g i) in
      let g1 := consume tasks g i r in
      let ts0 := tget g1 i in
      let warn := if negb (r_time r =? 0) && (r_time r <? g_prev g1)
                  then [mkline KWarn 0 (t_dd ts0 + 1) 0 0 0 0 0 0] else [] in
      let g2 := mkg (g_tasks g1) (g_first g1) (if r_time r =? 0 then g_prev g1 else r_time r) (g_sjd g1) (g_sjc g1) in
      let ts1 := stamp ts0 (r_time r) in
      match r_type r with
      | LOST =>
          (* `goto lost` comes before the timestamps are updated: the columns show the previous ones *)
          (* opts->kernel_skip_out (default): no message while user_stack_count is 0 *)
          let ln := if t_usc ts0 =? 0 then [] else [mk KLost i ts0 (g_first g2) (t_dd ts0 + 1) (r_addr r) 0 0] in
          let '(out, g') := run c tasks tl g2 in
          (warn ++ ln ++ out, g')
      | ENTRY =>
          (* fstack_entry: the display depth of this line is the current one, or stack_count - 1 when it
             has to be derived again (after LOST); the fork fix-up records depth + 1 for the children *)
          let depth := if pend then t_sc ts1 - 1 else t_dd ts1 in
          let '(ts2, sj) := fixup_entry c r depth ts1 (g_sjd g2, g_sjc g2) in
          let g2s := set_sj g2 sj in
          let idx := t_sc ts2 - 1 in
          let open_ (_ : unit) :=
            let ln := mk KOpen i ts2 (g_first g2) depth (r_addr r) 0 (f_addr (fget (t_stack ts2) idx)) in
            let '(out, g') := run c tasks tl (tset g2s i (update_entry r depth ts2 sj)) in
            (warn ++ ln :: out, g') in
          match tl with
          | (j, r') :: tl' =>
              if c_fold c && Nat.eqb j i && (r_depth r' =? r_depth r) && is_exit r' && negb (no_fold_id (r_addr r))
              then
                (* leaf: fstack_consume(next); duration from the same func_stack slot *)
                (* fstack_entry has set display_depth (it may have been derived just now) *)
                let g3 := consume tasks (tset g2s i (set_dd ts2 depth)) i r' in
                let ts3 := tget g3 i in
                let f := fget (t_stack ts3) idx in
                let ln := mk KLeaf i ts3 (g_first g3) depth (r_addr r) (f_time f) (f_addr f) in
                let '(out, g') := run c tasks tl' g3 in
                (warn ++ ln :: out, g')
              else open_ tt
          | [] => open_ tt
          end
      | EXIT =>
          let f := fget (t_stack ts1) (t_sc ts1) in
          (* fstack_update(EXIT): display_depth = stack_count + 1 when it has to be derived again *)
          let depth := if pend then t_sc ts1 else N.pred (t_dd ts1) in
          let ts2 := set_dd ts1 depth in
          let ln := mk KClose i ts2 (g_first g2) depth (r_addr r) (f_time f) (f_addr f) in
          let '(out, g') := run c tasks tl (tset g2 i ts2) in
          (warn ++ ln :: out, g')
      end
  end.

(* ------------------------------------------------------------------ print_remaining_stack *)
Fixpoint zero_count (st : list frame) (n : nat) : nat :=
  match n with
  | O => O
  | S n' =>
      match st with
      | [] => S (zero_count [] n')
      | f :: r => if f_addr f =? 0 then S (zero_count r n') else O
      end
  end.

(* lines "[level] name" from stack_count-1 down to zero_count *)
Fixpoint remaining_lines (st : list frame) (zc : nat) (n : nat) : list (N * N) :=
  match n with
  | O => []
  | S n' =>
      if Nat.ltb n' zc then []
      else (N.of_nat (n' - zc), f_addr (nth n' st frame0)) :: remaining_lines st zc n'
  end.

Definition remaining_task (ts : tstate) : list (N * N) :=
  let n := N.to_nat (t_sc ts) in
  let zc := zero_count (t_stack ts) n in
  remaining_lines (t_stack ts) zc n.

Fixpoint remaining_from (l : list tstate) (i : nat) : list (nat * list (N * N)) :=
  match l with
  | [] => []
  | ts :: r =>
      match remaining_task ts with
      | [] => remaining_from r (S i)
      | ls => (i, ls) :: remaining_from r (S i)
      end
  end.
Definition remaining (g : gstate) : list (nat * list (N * N)) := remaining_from (g_tasks g) 0.

(* ------------------------------------------------------------------ --tid and set-up *)
Definition selected (sel : option (list nat)) (i : nat) : bool :=
  match sel with None => true | Some s => existsb (Nat.eqb i) s end.

Fixpoint mask_queues (sel : option (list nat)) (tasks : list task) (i : nat) : list (list rec) :=
  match tasks with
  | [] => []
  | t :: r => (if selected sel i then k_recs t else []) :: mask_queues sel r (S i)
  end.

(* fstack_setup_task: a task that is not selected is read once for the first timestamp *)
Fixpoint first_unselected (sel : option (list nat)) (tasks : list task) (i : nat) (first : N) : N :=
  match tasks with
  | [] => first
  | t :: r =>
      let first' := if selected sel i then first
                    else match k_recs t with [] => first | x :: _ => upd_first first (r_time x) end in
      first_unselected sel r (S i) first'
  end.

(* a forked task whose parent's reader exists but is not selected *)
Definition orphan_of (sel : option (list nat)) (tasks : list task) (t : task) : bool :=
  match k_parent t with
  | Some p => Nat.ltb p (length tasks) && negb (selected sel p)
  | None => false
  end.
Definition tstate_init (orphan : bool) : tstate := mkts false 0 0 0 [] 0 0 orphan 0 false false 0.

Definition init_g (sel : option (list nat)) (tasks : list task) : gstate :=
  mkg (map (fun t => tstate_init (orphan_of sel tasks t)) tasks) (first_unselected sel tasks 0 0) 0 0 0.

Definition replay_raw (c : cfg) (sel : option (list nat)) (tasks : list task) : list line * gstate :=
  run c tasks (merge (mask_queues sel tasks 0)) (init_g sel tasks).

(* ------------------------------------------------------------------ presentation *)
(* print_time_unit: 0 = blank, otherwise unit*10^6 + whole*1000 + fraction *)
Definition time_limits : list N := TIME_UNIT_LIMITS.        (* limit[] of __print_time_unit, generated from utils/debug.c *)
Fixpoint fmt_loop (lims : list N) (idx delta : N) : N * N * N :=
  match lims with
  | [] => (idx, delta, 0)
  | lim :: rest =>
      let small := delta mod lim in
      let d := delta / lim in
      match rest with
      | [] => (idx, d, small)                         (* limit[5] = INT_MAX *)
      | nextlim :: _ => if d <? nextlim then (idx, d, small) else fmt_loop rest (idx + 1) d
      end
  end.
Definition fmt_time (x : N) : N :=
  if x =? 0 then 0
  else
    let a := if x <? 9223372036854775808 then x else W64 - x in     (* llabs((int64_t)x) *)
    let '(u, d, s) := fmt_loop time_limits 0 a in
    let '(d', s') := if 999 <? d then (999, 999) else (d, s) in
    u * 1000000 + d' * 1000 + s'.

Definition fmt_line (l : line) : line :=
  mkline (l_kind l) (l_task l) (l_indent l) (l_name l) (fmt_time (l_dur l)) (l_addr l) (l_time l)
         (fmt_time (l_delta l)) (fmt_time (l_elapsed l)).

(* --column-view: column_index handed out at the first printed line of each task *)
Fixpoint lookup_col (cols : list (nat * N)) (i : nat) : option N :=
  match cols with
  | [] => None
  | (j, c) :: r => if Nat.eqb i j then Some c else lookup_col r i
  end.
Definition shift (l : line) (n : N) : line :=
  mkline (l_kind l) (l_task l) (l_indent l + n) (l_name l) (l_dur l) (l_addr l) (l_time l) (l_delta l) (l_elapsed l).
Fixpoint column_view (offset : N) (cols : list (nat * N)) (next : N) (ls : list line) : list line :=
  match ls with
  | [] => []
  | l :: r =>
      match l_kind l with
      | KWarn | KBlank | KLost => l :: column_view offset cols next r        (* the LOST line is not shifted *)
      | _ =>
          match lookup_col cols (l_task l) with
          | Some c => shift l (c * offset) :: column_view offset cols next r
          | None => shift l (next * offset) :: column_view offset ((l_task l, next) :: cols) (next + 1) r
          end
      end
  end.

(* --task-newline: an empty line when the tid differs from the previously printed one *)
Definition blank : line := mkline KBlank 0 0 0 0 0 0 0 0.
Fixpoint task_newline (prev : option nat) (ls : list line) : list line :=
  match ls with
  | [] => []
  | l :: r =>
      match l_kind l with
      | KWarn | KBlank => l :: task_newline prev r
      | _ =>
          match prev with
          | Some p => if Nat.eqb p (l_task l) then l :: task_newline prev r
                      else blank :: l :: task_newline (Some (l_task l)) r
          | None => l :: task_newline (Some (l_task l)) r
          end
      end
  end.

(* -f: fields that are not displayed read as 0 *)
Record fields := mkfields { fd_dur : bool; fd_tid : bool; fd_addr : bool; fd_time : bool; fd_delta : bool; fd_elapsed : bool }.
Definition fields_default := mkfields true true false false false false.
Definition view_line (f : fields) (l : line) : line :=
  match l_kind l with
  | KWarn | KBlank => l
  | _ =>
      mkline (l_kind l) (if fd_tid f then l_task l else O) (l_indent l) (l_name l)
             (if fd_dur f then l_dur l else 0) (if fd_addr f then l_addr l else 0)
             (if fd_time f then l_time l else 0) (if fd_delta f then l_delta l else 0)
             (if fd_elapsed f then l_elapsed l else 0)
  end.

Record variant := mkvariant {
  v_fold : bool;                      (* false = --no-merge *)
  v_sel : option (list nat);          (* --tid (task indices) *)
  v_fields : fields;                  (* -f *)
  v_column : option N;                (* --column-view with --column-offset *)
  v_newline : bool                    (* --task-newline *)
}.

Definition output := (list line * list (nat * list (N * N)))%type.

Definition replay (forks : list N) (v : variant) (tasks : list task) : output :=
  let '(ls, g) := replay_raw (mkcfg (v_fold v) forks) (v_sel v) tasks in
  let ls1 := map fmt_line ls in
  let ls2 := match v_column v with Some off => column_view off [] 0 ls1 | None => ls1 end in
  let ls3 := if v_newline v then task_newline None ls2 else ls2 in
  (map (view_line (v_fields v)) ls3, remaining g).

(* ------------------------------------------------------------------ equality tests *)
Definition kind_eqb (a b : kind) : bool :=
  match a, b with
  | KOpen, KOpen | KLeaf, KLeaf | KClose, KClose | KWarn, KWarn | KBlank, KBlank | KLost, KLost => true
  | _, _ => false
  end.
Definition line_eqb (a b : line) : bool :=
  kind_eqb (l_kind a) (l_kind b) && Nat.eqb (l_task a) (l_task b) && (l_indent a =? l_indent b) &&
  (l_name a =? l_name b) && (l_dur a =? l_dur b) && (l_addr a =? l_addr b) && (l_time a =? l_time b) &&
  (l_delta a =? l_delta b) && (l_elapsed a =? l_elapsed b).
Fixpoint list_eqb {A} (eq : A -> A -> bool) (a b : list A) : bool :=
  match a, b with
  | [], [] => true
  | x :: a', y :: b' => eq x y && list_eqb eq a' b'
  | _, _ => false
  end.
Definition pair_eqb (a b : N * N) : bool := (fst a =? fst b) && (snd a =? snd b).
Definition rem_eqb (a b : nat * list (N * N)) : bool := Nat.eqb (fst a) (fst b) && list_eqb pair_eqb (snd a) (snd b).
Definition output_eqb (a b : output) : bool :=
  list_eqb line_eqb (fst a) (fst b) && list_eqb rem_eqb (snd a) (snd b).

(* ------------------------------------------------------------------ the property, executable *)
(* An event is what the property speaks about: a call being entered or left. *)
Record event := mkev { e_open : bool; e_task : nat; e_indent : N; e_name : N; e_dur : N (* Close only *); e_time : N }.

(* reference semantics of ONE task: a stack of entry times (no arrays, no look-ahead).
   [stk] holds the entry time of every open call, innermost first. *)
Fixpoint spec_task (i : nat) (dd : N) (stk : list N) (rs : list rec) : list event :=
  match rs with
  | [] => []
  | r :: rest =>
      match r_type r with
      | ENTRY => mkev true i dd (r_addr r) 0 (r_time r) :: spec_task i (dd + 1) (r_time r :: stk) rest
      | EXIT =>
          match stk with
          | t0 :: stk' =>
              mkev false i (N.pred dd) (r_addr r) (r_time r - t0) (r_time r)      (* exit minus entry *)
                :: spec_task i (N.pred dd) stk' rest
          | [] => []            (* more EXITs than open calls: not a well-formed stream *)
          end
      | LOST => []              (* streams with LOST markers: see [spec_lost] *)
      end
  end.

(* frames inherited by a task whose stream does not start at depth 0: they count from the
   first record's time *)
Definition first_depth (r : rec) : N := match r_type r with EXIT => r_depth r + 1 | _ => r_depth r end.
Definition spec_start (rs : list rec) : list N :=
  match rs with
  | [] => []
  | r :: _ => repeat (r_time r) (N.to_nat (first_depth r))
  end.

(* reference semantics of the WHOLE replay on the merged stream: every task has a display
   depth and a stack of entry times; a task's first record sets up the inherited frames and
   takes over the display depth its parent had inside fork() *)
Record sstate := mkss { s_set : bool; s_dd : N; s_fork : N; s_stk : list N;
                        s_orphan : bool (* forked, parent not shown: continues at its inherited stack depth *) }.
Definition sstate0 := mkss false 0 0 [] false.
Fixpoint supd (l : list sstate) (i : nat) (x : sstate) : list sstate :=
  match l, i with
  | [], _ => []
  | _ :: t, O => x :: t
  | h :: t, S i' => h :: supd t i' x
  end.
Definition s_inherit (tasks : list task) (S : list sstate) (i : nat) : N :=
  match k_parent (nth i tasks (mktask None [])) with
  | Some p => s_fork (nth p S sstate0)
  | None => 0
  end.
Definition s_first (inh : N) (ss : sstate) (r : rec) : sstate :=
  if s_set ss then ss
  else mkss true (if inh =? 0 then (if s_orphan ss then first_depth r else s_dd ss) else inh) (s_fork ss)
            (repeat (r_time r) (N.to_nat (first_depth r))) (s_orphan ss).
Fixpoint srun (forks : list N) (tasks : list task) (l : list (nat * rec)) (S : list sstate) : list event :=
  match l with
  | [] => []
  | (i, r) :: tl =>
      let ss := s_first (s_inherit tasks S i) (nth i S sstate0) r in
      match r_type r with
      | ENTRY =>
          let fk := if existsb (N.eqb (r_addr r)) forks then s_dd ss + 1 else s_fork ss in
          mkev true i (s_dd ss) (r_addr r) 0 (r_time r)
            :: srun forks tasks tl (supd S i (mkss true (s_dd ss + 1) fk (r_time r :: s_stk ss) (s_orphan ss)))
      | EXIT =>
          match s_stk ss with
          | t0 :: stk' =>
              mkev false i (N.pred (s_dd ss)) (r_addr r) (r_time r - t0) (r_time r)
                :: srun forks tasks tl (supd S i (mkss true (N.pred (s_dd ss)) (s_fork ss) stk' (s_orphan ss)))
          | [] => []
          end
      | LOST => []              (* the reference semantics is for streams without LOST markers *)
      end
  end.

Definition init_S (sel : option (list nat)) (tasks : list task) : list sstate :=
  map (fun t => mkss false 0 0 [] (orphan_of sel tasks t)) tasks.

(* call forests: the ground truth a task's stream is the trace of *)
Inductive call := Call (a t0 t1 : N) (kids : list call).
Fixpoint flat (d : N) (c : call) : list rec :=
  match c with
  | Call a t0 t1 kids => mkrec t0 ENTRY d a :: flat_map (flat (d + 1)) kids ++ [mkrec t1 EXIT d a]
  end.
Definition flat_forest (d : N) (f : list call) : list rec := flat_map (flat d) f.
(* the calls of a forest as replay must show them: indentation = nesting depth, duration = t1 - t0 *)
Fixpoint render (i : nat) (dd : N) (c : call) : list event :=
  match c with
  | Call a t0 t1 kids =>
      mkev true i dd a 0 t0 :: flat_map (render i (dd + 1)) kids ++ [mkev false i dd a (t1 - t0) t1]
  end.
Definition render_forest (i : nat) (dd : N) (f : list call) : list event := flat_map (render i dd) f.
(* calls still open at the end of the data: the innermost one last *)
Inductive tail := TEnd | TOpen (a t0 : N) (kids : list call) (rest : tail).
Fixpoint flat_tail (d : N) (t : tail) : list rec :=
  match t with
  | TEnd => []
  | TOpen a t0 kids rest => mkrec t0 ENTRY d a :: flat_forest (d + 1) kids ++ flat_tail (d + 1) rest
  end.
Fixpoint render_tail (i : nat) (dd : N) (t : tail) : list event :=
  match t with
  | TEnd => []
  | TOpen a t0 kids rest => mkev true i dd a 0 t0 :: render_forest i (dd + 1) kids ++ render_tail i (dd + 1) rest
  end.

(* well-formed stream: ENTRY/EXIT balanced against the inherited frames, depth fields
   consistent, times non-decreasing *)
Fixpoint wf_stream (d : N) (last : N) (rs : list rec) : bool :=
  match rs with
  | [] => true
  | r :: rest =>
      (last <=? r_time r) && (r_time r <? 9223372036854775808) && plain_id (r_addr r) &&
      match r_type r with
      | ENTRY => (r_depth r =? d) && wf_stream (d + 1) (r_time r) rest
      | EXIT => (0 <? d) && (r_depth r =? d - 1) && wf_stream (d - 1) (r_time r) rest
      | LOST => false
      end
  end.
Definition wf_task (t : task) : bool :=
  match k_recs t with
  | [] => true
  | r :: _ => wf_stream (first_depth r) 0 (k_recs t)
  end.

(* ---- streams with LOST markers ----
   After a LOST marker the nesting restarts at the depth field of the next record: that record
   and everything after it is indented by its depth field (as long as the depth fields stay
   consistent); the durations of calls that were open at the marker, or entered inside the gap,
   are whatever the reader's slots give (not specified here: [None]). *)
Definition DONTCARE : N := W64.
Fixpoint spec_lost (i : nat) (dd : N) (pend : bool) (stk : list (option N)) (rs : list rec) : list event :=
  match rs with
  | [] => []
  | r :: rest =>
      match r_type r with
      | LOST => spec_lost i dd true stk rest
      | ENTRY =>
          let stk0 := if pend then repeat None (N.to_nat (r_depth r)) else stk in
          let d := if pend then r_depth r else dd in
          mkev true i d (r_addr r) 0 (r_time r) :: spec_lost i (d + 1) false (Some (r_time r) :: stk0) rest
      | EXIT =>
          let stk0 := if pend then repeat None (N.to_nat (r_depth r + 1)) else stk in
          let d := if pend then r_depth r else N.pred dd in
          match stk0 with
          | t0 :: stk' =>
              mkev false i d (r_addr r) (match t0 with Some t => r_time r - t | None => DONTCARE end) (r_time r)
                :: spec_lost i d false stk' rest
          | [] => []
          end
      end
  end.

(* well-formed stream with LOST markers: segments between markers are depth-consistent and
   time-ordered; a marker may carry any timestamp (libmcount writes 0) *)
Fixpoint wf_lost (d : option N) (last : N) (rs : list rec) : bool :=
  match rs with
  | [] => true
  | r :: rest =>
      match r_type r with
      | LOST => ((r_time r =? 0) || (last <=? r_time r)) && (r_time r <? 9223372036854775808) &&
                wf_lost None (if r_time r =? 0 then last else r_time r) rest
      | ENTRY =>
          (last <=? r_time r) && (r_time r <? 9223372036854775808) && plain_id (r_addr r) &&
          (match d with Some d0 => r_depth r =? d0 | None => true end) && wf_lost (Some (r_depth r + 1)) (r_time r) rest
      | EXIT =>
          (last <=? r_time r) && (r_time r <? 9223372036854775808) && plain_id (r_addr r) &&
          (match d with Some d0 => (0 <? d0) && (r_depth r =? d0 - 1) | None => true end) &&
          wf_lost (Some (r_depth r)) (r_time r) rest
      end
  end.
Definition wf_task_lost (t : task) : bool :=
  match k_recs t with
  | [] => true
  | r :: _ => wf_lost (match r_type r with LOST => None | _ => Some (first_depth r) end) 0 (k_recs t)
  end.
Definition has_lost (t : task) : bool := existsb is_lost (k_recs t).

(* which records of a merged stream lie in a depth-consistent stretch after a LOST marker of
   their task: the tracker of theorem C06_lost_resync *)
Inductive track := TNone | TPending | TSynced (d : N).
Definition track_step (t : track) (r : rec) : track * bool :=
  match r_type r with
  | LOST => (TPending, false)
  | ENTRY =>
      if no_fold_id (r_addr r) then (TNone, false)          (* exec / longjmp move the depth elsewhere *)
      else
      match t with
      | TPending => (TSynced (r_depth r + 1), true)
      | TSynced d => if r_depth r =? d then (TSynced (d + 1), true) else (TNone, false)
      | TNone => (TNone, false)
      end
  | EXIT =>
      match t with
      | TPending => (TSynced (r_depth r), true)
      | TSynced d => if (0 <? d) && (r_depth r + 1 =? d) then (TSynced (r_depth r), true) else (TNone, false)
      | TNone => (TNone, false)
      end
  end.
Fixpoint tkupd (l : list track) (i : nat) (x : track) : list track :=
  match l, i with
  | [], _ => []
  | _ :: t, O => x :: t
  | h :: t, S i' => h :: tkupd t i' x
  end.
Fixpoint marks (l : list (nat * rec)) (T : list track) : list bool :=
  match l with
  | [] => []
  | (i, r) :: tl => let '(t', m) := track_step (nth i T TNone) r in m :: marks tl (tkupd T i t')
  end.

(* events of an output: a folded leaf is an entry followed by an exit (the exit time of a
   folded leaf is not printed: time 0 = unknown) *)
Definition events_of_line (l : line) : list event :=
  match l_kind l with
  | KOpen => [mkev true (l_task l) (l_indent l) (l_name l) 0 (l_time l)]
  | KClose => [mkev false (l_task l) (l_indent l) (l_name l) (l_dur l) (l_time l)]
  | KLeaf => [mkev true (l_task l) (l_indent l) (l_name l) 0 (l_time l);
              mkev false (l_task l) (l_indent l) (l_name l) (l_dur l) 0]
  | KWarn | KBlank | KLost => []
  end.
Definition events_of (ls : list line) : list event := flat_map events_of_line ls.

(* comparison of an observed event with the reference one: time only when displayed and known *)
Definition ev_match (with_time : bool) (obs ref : event) : bool :=
  Bool.eqb (e_open obs) (e_open ref) && Nat.eqb (e_task obs) (e_task ref) && (e_indent obs =? e_indent ref) &&
  (e_name obs =? e_name ref) && ((e_dur ref =? DONTCARE) || (e_dur obs =? fmt_time (e_dur ref))) &&
  (negb with_time || (e_time obs =? 0) || (e_time obs =? e_time ref)).

Fixpoint sorted_times (last : N) (es : list event) : bool :=
  match es with
  | [] => true
  | e :: r => if e_time e =? 0 then sorted_times last r
              else (last <=? e_time e) && sorted_times (e_time e) r
  end.

(* display depth a forked child starts from: one more than the indentation of the parent's
   latest fork()-like call displayed before the child's first line (0: nothing to inherit) *)
Fixpoint last_fork_indent (forks : list N) (p : nat) (es : list event) (acc : N) : N :=
  match es with
  | [] => acc
  | e :: r =>
      last_fork_indent forks p r
        (if e_open e && Nat.eqb (e_task e) p && existsb (N.eqb (e_name e)) forks then e_indent e + 1 else acc)
  end.
Fixpoint before_task (i : nat) (es : list event) : list event :=
  match es with
  | [] => []
  | e :: r => if Nat.eqb (e_task e) i then [] else e :: before_task i r
  end.

(* C06 on one observed default-format output (duration + tid displayed, optionally time):
   for every task, its lines are exactly its records in order, indentation = nesting depth
   (continuing at the parent's depth after fork), duration = exit - entry; globally the times
   never decrease; nothing of an unselected task is shown. *)
Fixpoint ok_tasks (forks : list N) (sel : option (list nat)) (with_time : bool) (all : list task)
         (es : list event) (tasks : list task) (i : nat) : bool :=
  match tasks with
  | [] => true
  | t :: rest =>
      let mine := filter (fun e => Nat.eqb (e_task e) i) es in
      (if selected sel i
       then
         let inh := match k_parent t with
                    | Some p => if selected sel p then last_fork_indent forks p (before_task i es) 0
                                else match k_recs t with r :: _ => first_depth r | [] => 0 end   (* parent not shown *)
                    | None => 0
                    end in
         list_eqb (ev_match with_time) mine
                  (if has_lost t
                   then spec_lost i inh false (map Some (spec_start (k_recs t))) (k_recs t)
                   else spec_task i inh (spec_start (k_recs t)) (k_recs t))
       else match mine with [] => true | _ => false end)
      && ok_tasks forks sel with_time all es rest (S i)
  end.

Definition ok_output (forks : list N) (sel : option (list nat)) (with_time : bool) (tasks : list task)
           (ls : list line) : bool :=
  let es := events_of ls in
  ok_tasks forks sel with_time tasks es tasks 0 &&
  (negb with_time || sorted_times 0 es) &&
  forallb (fun l => match l_kind l with KWarn => false | _ => true end) ls.

(* presentation options: the events of a variant's output equal those of the reference output on
   the fields both display; indentation up to the per-task column offset *)
Definition ev_same (tid dur : bool) (a b : event) : bool :=
  Bool.eqb (e_open a) (e_open b) && (negb tid || Nat.eqb (e_task a) (e_task b)) && (e_indent a =? e_indent b) &&
  (e_name a =? e_name b) && (negb dur || (e_dur a =? e_dur b)).
Definition same_events (tid dur : bool) (sel : option (list nat)) (ref var : list line) : bool :=
  list_eqb (ev_same tid dur) (events_of var)
           (filter (fun e => selected sel (e_task e)) (events_of ref)).

(* undo --column-view on an observed output (needs the tid field) *)
Fixpoint uncolumn (offset : N) (cols : list (nat * N)) (next : N) (ls : list line) : list line :=
  match ls with
  | [] => []
  | l :: r =>
      match l_kind l with
      | KWarn | KBlank | KLost => l :: uncolumn offset cols next r
      | _ =>
          let unshift c := mkline (l_kind l) (l_task l) (l_indent l - c * offset) (l_name l) (l_dur l) (l_addr l)
                                  (l_time l) (l_delta l) (l_elapsed l) in
          match lookup_col cols (l_task l) with
          | Some c => unshift c :: uncolumn offset cols next r
          | None => unshift next :: uncolumn offset ((l_task l, next) :: cols) (next + 1) r
          end
      end
  end.

(* ------------------------------------------------------------------ the tie (props/c06.py) *)
Inductive chk := ChkSpec (with_time : bool) | ChkSame (tid dur : bool) | ChkNone.
Definition tcase := (list N * list task * list (variant * output * chk))%type.

Definition norm_obs (v : variant) (ls : list line) : list line :=
  match v_column v with Some off => uncolumn off [] 0 ls | None => ls end.

(* model = implementation ? *)
Definition agree_case (c : tcase) : list bool :=
  let '(forks, tasks, vs) := c in
  map (fun x : variant * output * chk => let '(v, obs, _) := x in output_eqb (replay forks v tasks) obs) vs.

(* property checker on the implementation's outputs; the first variant is the default view *)
Definition check_case (c : tcase) : list bool :=
  let '(forks, tasks, vs) := c in
  let ref := match vs with (_, o, _) :: _ => fst o | [] => [] end in
  let wf := forallb wf_task_lost tasks in
  map (fun x : variant * output * chk =>
         let '(v, obs, k) := x in
         if wf then
           match k with
           | ChkSpec wt => ok_output forks (v_sel v) wt tasks (norm_obs v (fst obs))
           | ChkSame tid dur => same_events tid dur (v_sel v) ref (norm_obs v (fst obs))
           | ChkNone => true
           end
         else true) vs.

Fixpoint bad_indices {A} (f : A -> bool) (l : list A) (i : nat) : list nat :=
  match l with
  | [] => []
  | x :: r => if f x then bad_indices f r (S i) else i :: bad_indices f r (S i)
  end.
