(* C06 - the --tid view task by task: in the merged stream of the selected tasks every selected task has exactly its
   own records, in its own order, and an unselected task has none. *)
From Coq Require Import NArith List Bool Arith.
Import ListNotations.
Require Import UV.C06.Model UV.C06.MergeProofs.

Lemma proj_keep S i l : proj i (keep S l) = if S i then proj i l else [].
Proof.
  unfold proj, keep. induction l as [|[j r] l IH]; [destruct (S i); reflexivity|].
  cbn [filter fst]. destruct (S j) eqn:Sj; cbn [filter fst]; destruct (Nat.eqb j i) eqn:E.
  - apply Nat.eqb_eq in E. subst j. rewrite Sj in *. cbn [map snd]. rewrite IH. reflexivity.
  - exact IH.
  - apply Nat.eqb_eq in E. subst j. rewrite Sj in *. exact IH.
  - exact IH.
Qed.

Theorem tid_view_per_task S qs i :
  proj i (merge (mask S qs 0)) = if S i then nth i qs [] else [].
Proof. rewrite merge_mask, proj_keep, merge_preserves_task_order. reflexivity. Qed.
