(* C06 - proofs about the replay model *)
From Coq Require Import NArith List Bool Lia.
Import ListNotations.
Require Import UV.C06.Model.
Local Open Scope N_scope.

Lemma placeholder : True. Proof. exact I. Qed.
