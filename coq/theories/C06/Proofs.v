(* C06 - proofs about the replay model: one record = one line in merge order; the array/stack_count
   automaton of fstack.c refines the reference semantics [srun]; per-task exactness on forests. *)
From Coq Require Import NArith List Bool Lia Arith.
Require Import ZifyBool ZifyN ZifyNat.
Import ListNotations.
Require Import UV.C06.Model UV.C06.MergeProofs.
Local Open Scope N_scope.

(* ------------------------------------------------------------------ arithmetic *)
Lemma sub64_exact a b : b <= a -> a < W64 -> sub64 a b = a - b.
Proof.
  intros H1 H2. unfold sub64, W64 in *.
  replace (a + 18446744073709551616 - b) with ((a - b) + 1 * 18446744073709551616) by lia.
  rewrite N.mod_add by lia. apply N.mod_small. lia.
Qed.

(* ------------------------------------------------------------------ one record without folding *)
Definition warn_of (g1 : gstate) (ts0 : tstate) (r : rec) : list line :=
  if negb (r_time r =? 0) && (r_time r <? g_prev g1) then [mkline KWarn 0 (t_dd ts0 + 1) 0 0 0 0 0 0] else [].

Definition step (c : cfg) (tasks : list task) (g : gstate) (i : nat) (r : rec) : list line * gstate :=
  let pend := t_lost (tget g i) in
  let g1 := consume tasks g i r in
  let ts0 := tget g1 i in
  let warn := warn_of g1 ts0 r in
  let g2 := mkg (g_tasks g1) (g_first g1) (if r_time r =? 0 then g_prev g1 else r_time r) (g_sjd g1) (g_sjc g1) in
  let ts1 := stamp ts0 (r_time r) in
  match r_type r with
  | LOST =>
      (warn ++ (if t_usc ts0 =? 0 then [] else [mk KLost i ts0 (g_first g2) (t_dd ts0 + 1) (r_addr r) 0 0]), g2)
  | ENTRY =>
      let depth := if pend then t_sc ts1 - 1 else t_dd ts1 in
      let '(ts2, sj) := fixup_entry c r depth ts1 (g_sjd g2, g_sjc g2) in
      let idx := t_sc ts2 - 1 in
      (warn ++ [mk KOpen i ts2 (g_first g2) depth (r_addr r) 0 (f_addr (fget (t_stack ts2) idx))],
       tset (set_sj g2 sj) i (update_entry r depth ts2 sj))
  | EXIT =>
      let f := fget (t_stack ts1) (t_sc ts1) in
      let depth := if pend then t_sc ts1 else N.pred (t_dd ts1) in
      let ts2 := set_dd ts1 depth in
      (warn ++ [mk KClose i ts2 (g_first g2) depth (r_addr r) (f_time f) (f_addr f)], tset g2 i ts2)
  end.

Lemma run_nofold_cons c tasks i r tl g : c_fold c = false ->
  run c tasks ((i, r) :: tl) g =
  let '(ls, g') := step c tasks g i r in
  let '(out, g'') := run c tasks tl g' in (ls ++ out, g'').
Proof.
  intros Hf. cbn [run]. unfold step, warn_of. rewrite Hf.
  destruct (r_type r).
  - destruct (fixup_entry c r _ _ _) as [ts2 sj].
    destruct tl as [|[j r'] tl']; cbn [andb];
      match goal with |- context [run c tasks ?l ?g] => destruct (run c tasks l g) as [out g''] end;
      rewrite <- app_assoc; reflexivity.
  - match goal with |- context [run c tasks ?l ?g] => destruct (run c tasks l g) as [out g''] end.
    rewrite <- app_assoc. reflexivity.
  - match goal with |- context [run c tasks ?l ?g] => destruct (run c tasks l g) as [out g''] end.
    rewrite <- app_assoc. reflexivity.
Qed.

(* ------------------------------------------------------------------ lines follow the merge order *)
Definition not_warn (l : line) : bool := match l_kind l with KWarn => false | _ => true end.
Definition tag_of_line (l : line) : nat * N := (l_task l, l_time l).
Definition tag_of_rec (p : nat * rec) : nat * N := (fst p, r_time (snd p)).

Lemma filter_warn_app ws l : Forall (fun w => not_warn w = false) ws -> not_warn l = true ->
  filter not_warn (ws ++ [l]) = [l].
Proof.
  intros Hw Hl. induction Hw as [|w ws Hw1 _ IH]; cbn; [rewrite Hl; reflexivity|]. rewrite Hw1. exact IH.
Qed.

Lemma warn_of_warn g1 ts0 r : Forall (fun w => not_warn w = false) (warn_of g1 ts0 r).
Proof. unfold warn_of. destruct (_ && _); repeat constructor. Qed.

(* the fix-ups touch fork_display_depth, longjmp_depth and the static setjmp pair only *)
Lemma fixup_fields c r d ts sj :
  let ts' := fst (fixup_entry c r d ts sj) in
  t_set ts' = t_set ts /\ t_sc ts' = t_sc ts /\ t_dd ts' = t_dd ts /\ t_stack ts' = t_stack ts /\
  t_ts ts' = t_ts ts /\ t_ts_last ts' = t_ts_last ts /\ t_orphan ts' = t_orphan ts /\ t_usc ts' = t_usc ts /\
  t_lost ts' = t_lost ts /\ t_ljp ts' = t_ljp ts.
Proof.
  unfold fixup_entry.
  destruct (is_exec_id (r_addr r)); [cbn; repeat split|].
  destruct (is_setjmp_id (r_addr r)); [cbn; repeat split|].
  destruct (is_longjmp_id (r_addr r)); [cbn; repeat split|].
  destruct (is_fork c (r_addr r)); cbn; repeat split.
Qed.

Lemma step_tags c tasks g i r : is_lost r = false ->
  map tag_of_line (filter not_warn (fst (step c tasks g i r))) = [(i, r_time r)].
Proof.
  unfold step, is_lost. set (g1 := consume tasks g i r).
  destruct (r_type r); intros Hl; try discriminate.
  - match goal with |- context [fixup_entry c r ?d ?ts ?sj] =>
      pose proof (fixup_fields c r d ts sj) as HF; destruct (fixup_entry c r d ts sj) as [ts2 sj2] end.
    cbn [fst] in *. destruct HF as (_ & _ & _ & _ & Hts & _).
    rewrite filter_warn_app by (auto using warn_of_warn). cbn [map]. unfold tag_of_line, mk. cbn [l_task l_time].
    rewrite Hts. reflexivity.
  - cbn [fst]. rewrite filter_warn_app by (auto using warn_of_warn). reflexivity.
Qed.

Definition no_lost (l : list (nat * rec)) : Prop := Forall (fun p => is_lost (snd p) = false) l.

Lemma run_nofold_tags c tasks : c_fold c = false -> forall l g, no_lost l ->
  map tag_of_line (filter not_warn (fst (run c tasks l g))) = map tag_of_rec l.
Proof.
  intros Hf. induction l as [|[i r] tl IH]; intros g Hnl; [reflexivity|].
  inversion Hnl as [|? ? Hr Hnl']; subst. cbn [snd] in Hr.
  rewrite (run_nofold_cons _ _ _ _ _ _ Hf).
  pose proof (step_tags c tasks g i r Hr) as Hs.
  destruct (step c tasks g i r) as [ls g'].
  specialize (IH g' Hnl'). destruct (run c tasks tl g') as [out g''].
  cbn [fst] in *. rewrite filter_app, map_app, Hs, IH. reflexivity.
Qed.

(* ------------------------------------------------------------------ func_stack[] vs a stack of entry times *)
Definition valid_frames (L : list frame) : Prop := Forall (fun f => f_valid f = true) L.
(* the slots below stack_count hold the entry times of the open calls, outermost first *)
Definition live (st : list frame) (stk : list N) : Prop :=
  exists L rest, st = L ++ rest /\ map f_time L = rev stk /\ valid_frames L.

Lemma live_length st stk L rest : st = L ++ rest -> map f_time L = rev stk -> length L = length stk.
Proof. intros _ H. rewrite <- (map_length f_time), H, rev_length. reflexivity. Qed.

Lemma upd_app : forall (L rest : list frame) x, upd (L ++ rest) (length L) x = L ++ x :: tl rest.
Proof.
  induction L as [|h L IH]; intros rest x; cbn.
  - destruct rest; reflexivity.
  - rewrite IH. reflexivity.
Qed.

Lemma rev_repeat {A} (x : A) n : rev (repeat x n) = repeat x n.
Proof.
  induction n as [|n IH]; [reflexivity|]. cbn [repeat rev]. rewrite IH.
  clear IH. induction n as [|n IH]; [reflexivity|]. cbn. rewrite IH. reflexivity.
Qed.

Lemma init_frames_live : forall k st t, exists L rest,
  init_frames st k t = L ++ rest /\ map f_time L = repeat t k /\ valid_frames L.
Proof.
  induction k as [|k IH]; intros st t.
  - exists [], st. repeat split; constructor.
  - cbn [init_frames]. destruct st as [|f r].
    + destruct (IH [] t) as (L & rest & E & Hm & Hv). rewrite E.
      exists (mkframe 0 t true :: L), rest. repeat split; [cbn; rewrite Hm; reflexivity|constructor; [reflexivity|exact Hv]].
    + destruct (IH r t) as (L & rest & E & Hm & Hv). rewrite E.
      exists (mkframe (f_addr f) t true :: L), rest. repeat split; [cbn; rewrite Hm; reflexivity|constructor; [reflexivity|exact Hv]].
Qed.

Definition rel (ts : tstate) (ss : sstate) : Prop :=
  t_set ts = s_set ss /\ t_dd ts = s_dd ss /\ t_fork_dd ts = s_fork ss /\ t_orphan ts = s_orphan ss /\
  t_lost ts = false /\ t_ljp ts = false /\
  (s_set ss = true -> t_sc ts = N.of_nat (length (s_stk ss)) /\ live (t_stack ts) (s_stk ss)).

Lemma rel_init o : rel (tstate_init o) (mkss false 0 0 [] o).
Proof. repeat split; cbn in *; discriminate. Qed.
Lemma rel0 : rel tstate0 sstate0.
Proof. apply (rel_init false). Qed.

(* fstack_update_stack_count leaves these fields alone *)
Lemma count_fields x r :
  t_set (count x r) = t_set x /\ t_orphan (count x r) = t_orphan x /\ t_lost (count x r) = t_lost x /\
  t_ts (count x r) = t_ts x /\ t_ts_last (count x r) = t_ts_last x /\ t_stack (count x r) = t_stack x /\
  t_fork_dd (count x r) = t_fork_dd x /\ t_ljd (count x r) = t_ljd x.
Proof.
  unfold count. destruct (r_type r); try (repeat split; reflexivity).
  destruct (t_ljp x && (r_depth r <=? t_ljd x)); repeat split; reflexivity.
Qed.

Lemma consume_orphan inh ts r : t_orphan (consume_task inh ts r) = t_orphan ts.
Proof.
  assert (F : t_orphan (first_setup inh ts r) = t_orphan ts) by (unfold first_setup; destruct (t_set ts); reflexivity).
  unfold consume_task. destruct (t_lost (first_setup inh ts r) && is_lost r); [exact F|].
  destruct (count_fields (account (resync (first_setup inh ts r) r) r) r) as (_ & -> & _).
  assert (A : forall x, t_orphan (account x r) = t_orphan x).
  { intros x. unfold account. destruct (r_type r); try reflexivity. destruct (t_sc x =? 0); reflexivity. }
  assert (R : forall x, t_orphan (resync x r) = t_orphan x) by (intros x; unfold resync; destruct (t_lost x); reflexivity).
  rewrite A, R. exact F.
Qed.

Lemma first_setup_lost inh ts r : t_lost (first_setup inh ts r) = t_lost ts.
Proof. unfold first_setup. destruct (t_set ts); reflexivity. Qed.

(* without a pending LOST marker the lost_seen part does nothing *)
Lemma consume_nolost inh ts r : t_lost ts = false ->
  consume_task inh ts r = count (account (first_setup inh ts r) r) r.
Proof.
  intros H. unfold consume_task. rewrite first_setup_lost, H. cbn [andb].
  unfold resync. rewrite first_setup_lost, H. reflexivity.
Qed.

Lemma consume_lost_flag inh ts r : t_lost ts = false -> t_lost (consume_task inh ts r) = is_lost r.
Proof.
  intros H. rewrite consume_nolost by assumption.
  destruct (count_fields (account (first_setup inh ts r) r) r) as (_ & _ & -> & _).
  assert (F : t_lost (first_setup inh ts r) = false) by (rewrite first_setup_lost; exact H).
  unfold account, is_lost. destruct (r_type r); cbn [t_lost]; try exact F; try reflexivity.
  destruct (t_sc (first_setup inh ts r) =? 0); cbn [t_lost]; exact F.
Qed.

Lemma first_setup_ljp inh ts r : t_ljp (first_setup inh ts r) = t_ljp ts.
Proof. unfold first_setup. destruct (t_set ts); reflexivity. Qed.

Lemma s_first_orphan inh ss r : s_orphan (s_first inh ss r) = s_orphan ss.
Proof. unfold s_first. destruct (s_set ss); reflexivity. Qed.

Lemma setup_rel inh ts ss r : rel ts ss ->
  let ts' := first_setup inh ts r in
  let ss' := s_first inh ss r in
  t_set ts' = true /\ s_set ss' = true /\ t_dd ts' = s_dd ss' /\ t_fork_dd ts' = s_fork ss' /\
  t_sc ts' = N.of_nat (length (s_stk ss')) /\ live (t_stack ts') (s_stk ss') /\
  t_ts ts' = t_ts ts /\ t_ts_last ts' = t_ts_last ts.
Proof.
  intros (Hs & Hd & Hf & Ho & _ & _ & Hl). unfold first_setup, s_first. rewrite Hs.
  destruct (s_set ss) eqn:E.
  - destruct (Hl eq_refl) as [Hsc Hlive]. repeat split; auto; congruence.
  - cbn [t_set s_set t_dd s_dd t_fork_dd s_fork t_sc s_stk t_stack t_ts t_ts_last].
    rewrite Hd, Hf, Ho. fold (first_depth r).
    repeat split; auto.
    + rewrite repeat_length. lia.
    + destruct (init_frames_live (N.to_nat (first_depth r)) (t_stack ts) (r_time r)) as (L & rest & E1 & Hm & Hv).
      exists L, rest. rewrite rev_repeat. auto.
Qed.

Lemma entry_rel inh ts ss r : rel ts ss -> r_type r = ENTRY ->
  let ts' := consume_task inh ts r in
  let ss' := s_first inh ss r in
  t_set ts' = true /\ t_dd ts' = s_dd ss' /\ t_fork_dd ts' = s_fork ss' /\
  t_sc ts' = N.of_nat (length (r_time r :: s_stk ss')) /\ live (t_stack ts') (r_time r :: s_stk ss').
Proof.
  intros Hrel Hty. destruct (setup_rel inh ts ss r Hrel) as (H1 & H2 & H3 & H4 & H5 & H6 & _).
  rewrite consume_nolost by (destruct Hrel as (_ & _ & _ & _ & Hlo & _); exact Hlo).
  unfold count, account. rewrite Hty.
  set (ts1 := first_setup inh ts r) in *. set (ss1 := s_first inh ss r) in *.
  cbn [t_set t_dd t_fork_dd t_sc t_stack].
  repeat split; auto.
  - rewrite H5. cbn [length]. lia.
  - destruct H6 as (L & rest & E & Hm & Hv).
    pose proof (live_length _ _ _ _ E Hm) as HL.
    unfold fset. rewrite H5, Nat2N.id, <- HL, E, upd_app.
    exists (L ++ [mkframe (r_addr r) (r_time r) true]), (tl rest).
    split; [rewrite <- app_assoc; reflexivity|]. split.
    + rewrite map_app, Hm. reflexivity.
    + apply Forall_app. split; [exact Hv|constructor; [reflexivity|constructor]].
Qed.

Lemma exit_rel inh ts ss r t0 stk' : rel ts ss -> r_type r = EXIT -> s_stk (s_first inh ss r) = t0 :: stk' ->
  let ts' := consume_task inh ts r in
  let ss' := s_first inh ss r in
  t_set ts' = true /\ t_dd ts' = s_dd ss' /\ t_fork_dd ts' = s_fork ss' /\
  t_sc ts' = N.of_nat (length stk') /\ live (t_stack ts') stk' /\
  f_time (fget (t_stack ts') (t_sc ts')) = sub64 (r_time r) t0.
Proof.
  intros Hrel Hty Hstk. destruct (setup_rel inh ts ss r Hrel) as (H1 & H2 & H3 & H4 & H5 & H6 & _).
  rewrite consume_nolost by (destruct Hrel as (_ & _ & _ & _ & Hlo & _); exact Hlo).
  assert (Hlj : t_ljp (first_setup inh ts r) = false).
  { rewrite first_setup_ljp. destruct Hrel as (_ & _ & _ & _ & _ & Hj & _). exact Hj. }
  unfold count, account. rewrite Hty.
  set (ts1 := first_setup inh ts r) in *. set (ss1 := s_first inh ss r) in *.
  rewrite Hstk in *. cbn [length] in H5.
  destruct (t_sc ts1 =? 0) eqn:Ez; [lia|].
  cbn [t_ljp t_ljd]. rewrite Hlj. cbn [andb].
  cbn [t_set t_dd t_fork_dd t_sc t_stack].
  destruct H6 as (L & rest & E & Hm & Hv).
  cbn [rev] in Hm. apply map_eq_app in Hm. destruct Hm as (L0 & Lf & EL & Hm0 & Hmf).
  destruct Lf as [|f [|f2 Lf]]; cbn in Hmf; try discriminate. inversion Hmf as [Hft]. subst L.
  assert (HL0 : length L0 = length stk') by (rewrite <- (map_length f_time), Hm0, rev_length; reflexivity).
  assert (Hidx : N.to_nat (t_sc ts1 - 1) = length L0) by lia.
  apply Forall_app in Hv. destruct Hv as [Hv0 Hvf]. inversion Hvf as [|? ? Hfv _]; subst.
  assert (Hget : fget (t_stack ts1) (t_sc ts1 - 1) = f).
  { unfold fget. rewrite Hidx, E, <- app_assoc. cbn [app]. apply nth_middle. }
  rewrite Hget, Hfv.
  assert (Hset : fset (t_stack ts1) (t_sc ts1 - 1) (mkframe (f_addr f) (sub64 (r_time r) (f_time f)) false)
                 = L0 ++ mkframe (f_addr f) (sub64 (r_time r) (f_time f)) false :: rest).
  { unfold fset. rewrite Hidx, E, <- app_assoc. cbn [app]. rewrite upd_app. reflexivity. }
  rewrite Hset.
  repeat split; auto.
  - lia.
  - exists L0, (mkframe (f_addr f) (sub64 (r_time r) (f_time f)) false :: rest). auto.
  - unfold fget. replace (N.to_nat (N.pred (t_sc ts1))) with (length L0) by lia.
    rewrite nth_middle. reflexivity.
Qed.

(* ------------------------------------------------------------------ task tables *)
Lemma nth_tupd : forall l i x j d, (i < length l)%nat ->
  nth j (tupd l i x) d = if Nat.eqb j i then x else nth j l d.
Proof.
  induction l as [|h t IH]; intros i x j d Hi; cbn in Hi; [lia|].
  destruct i as [|i]; destruct j as [|j]; cbn; try reflexivity. apply IH. lia.
Qed.
Lemma length_tupd : forall l i x, length (tupd l i x) = length l.
Proof. induction l as [|h t IH]; intros [|i] x; cbn; auto. Qed.
Lemma nth_supd : forall l i x j d, (i < length l)%nat ->
  nth j (supd l i x) d = if Nat.eqb j i then x else nth j l d.
Proof.
  induction l as [|h t IH]; intros i x j d Hi; cbn in Hi; [lia|].
  destruct i as [|i]; destruct j as [|j]; cbn; try reflexivity. apply IH. lia.
Qed.
Lemma length_supd : forall l i x, length (supd l i x) = length l.
Proof. induction l as [|h t IH]; intros [|i] x; cbn; auto. Qed.

Definition Rel (g : gstate) (S : list sstate) : Prop :=
  length (g_tasks g) = length S /\ forall i, rel (tget g i) (nth i S sstate0).

Definition BOUND : N := 9223372036854775808.
(* what is still to come for a task is well-formed with respect to its reference state *)
Definition wfrem (ss : sstate) (rs : list rec) : Prop :=
  if s_set ss
  then exists last, wf_stream (N.of_nat (length (s_stk ss))) last rs = true /\
                    Forall (fun t => t <= last) (s_stk ss)
  else match rs with [] => True | r :: _ => wf_stream (first_depth r) 0 rs = true end.

Lemma inherit_rel tasks g S i : Rel g S -> inherit tasks g i = s_inherit tasks S i.
Proof.
  intros [_ H]. unfold inherit, s_inherit. destruct (k_parent _) as [p|]; [|reflexivity].
  destruct (H p) as (_ & _ & Hf & _). exact Hf.
Qed.

Lemma Forall_le_repeat t k last : t <= last -> Forall (fun x => x <= last) (repeat t k).
Proof. intros. induction k; cbn; constructor; auto. Qed.

(* the reference state after the first-record set-up satisfies the "set" form of wfrem *)
Lemma wfrem_first inh ss r rest : wfrem ss (r :: rest) ->
  exists last, wf_stream (N.of_nat (length (s_stk (s_first inh ss r)))) last (r :: rest) = true /\
               Forall (fun t => t <= last) (s_stk (s_first inh ss r)) /\
               (last <= r_time r /\ r_time r < BOUND).
Proof.
  unfold wfrem, s_first. destruct (s_set ss) eqn:E.
  - intros (last & Hwf & Hall). exists last. repeat split; auto;
      cbn [wf_stream] in Hwf; unfold BOUND; lia.
  - intros Hwf. cbn [s_stk]. rewrite repeat_length, N2Nat.id.
    exists (r_time r). cbn [wf_stream] in *. unfold BOUND.
    repeat split; try lia.
    apply Forall_le_repeat. lia.
Qed.

Definition is_forkb (forks : list N) (a : N) : bool := existsb (N.eqb a) forks.

Lemma events_warn_app ws l : Forall (fun w => not_warn w = false) ws -> events_of (ws ++ [l]) = events_of_line l.
Proof.
  intros H. unfold events_of. rewrite flat_map_app. cbn [flat_map]. rewrite app_nil_r.
  assert (E : flat_map events_of_line ws = []).
  { induction H as [|w ws Hw _ IH]; [reflexivity|]. cbn [flat_map]. rewrite IH.
    unfold not_warn in Hw. unfold events_of_line. destruct (l_kind w); try discriminate. reflexivity. }
  rewrite E. reflexivity.
Qed.

Lemma plain_not_special a : plain_id a = true ->
  is_exec_id a = false /\ is_setjmp_id a = false /\ is_longjmp_id a = false.
Proof. unfold plain_id, is_exec_id, is_setjmp_id, is_longjmp_id. intros H. repeat split; lia. Qed.

Lemma fixup_plain c r d ts sj : plain_id (r_addr r) = true ->
  fixup_entry c r d ts sj = (if is_fork c (r_addr r) then set_fork ts (d + 1) else ts, sj).
Proof.
  intros H. destruct (plain_not_special _ H) as (A & B & C). unfold fixup_entry. rewrite A, B, C.
  destruct (is_fork c (r_addr r)); reflexivity.
Qed.

Lemma update_plain r d ts sj : plain_id (r_addr r) = true -> update_entry r d ts sj = set_dd ts (d + 1).
Proof. intros H. destruct (plain_not_special _ H) as (A & B & C). unfold update_entry. rewrite A, C. reflexivity. Qed.

Lemma consume_ljp_false inh ts r : t_ljp ts = false -> t_ljp (consume_task inh ts r) = false.
Proof.
  intros H. unfold consume_task.
  assert (F : t_ljp (first_setup inh ts r) = false) by (rewrite first_setup_ljp; exact H).
  destruct (t_lost (first_setup inh ts r) && is_lost r); [exact F|].
  assert (R : t_ljp (resync (first_setup inh ts r) r) = false) by (unfold resync; destruct (t_lost _); [exact F|exact F]).
  assert (A : t_ljp (account (resync (first_setup inh ts r) r) r) = false).
  { unfold account. destruct (r_type r); cbn [t_ljp]; try exact R. destruct (t_sc _ =? 0); cbn [t_ljp]; exact R. }
  unfold count. destruct (r_type r); cbn [t_ljp]; try exact A. rewrite A. cbn [andb t_ljp]. rewrite ?A. reflexivity || exact A.
Qed.

(* one record: the automaton of fstack.c/replay.c emits what the reference semantics emits,
   and the states stay related *)
Lemma step_refines forks tasks g S i r rest tl :
  Rel g S -> (i < length S)%nat -> wfrem (nth i S sstate0) (r :: rest) ->
  exists ev S',
    srun forks tasks ((i, r) :: tl) S = ev :: srun forks tasks tl S' /\
    events_of (fst (step (mkcfg false forks) tasks g i r)) = [ev] /\
    Rel (snd (step (mkcfg false forks) tasks g i r)) S' /\
    wfrem (nth i S' sstate0) rest /\
    length S' = length S /\
    (forall j, j <> i -> nth j S' sstate0 = nth j S sstate0).
Proof.
  intros HR Hi Hwf.
  pose proof HR as [Hlen Hall].
  pose proof (inherit_rel tasks g S i HR) as Hinh.
  destruct (wfrem_first (s_inherit tasks S i) _ _ _ Hwf) as (last & Hwf1 & Hle & Hlast & Hbound).
  assert (Hig : (i < length (g_tasks g))%nat) by lia.
  assert (Hpend : t_lost (tget g i) = false) by (destruct (Hall i) as (_ & _ & _ & _ & Hlo & _); exact Hlo).
  cbn [srun]. unfold step. rewrite Hpend.
  set (g1 := consume tasks g i r).
  assert (Hts0 : tget g1 i = consume_task (s_inherit tasks S i) (tget g i) r).
  { unfold g1, consume, tget. cbn [g_tasks]. rewrite nth_tupd by assumption. rewrite Nat.eqb_refl, Hinh. reflexivity. }
  set (ss := s_first (s_inherit tasks S i) (nth i S sstate0) r) in *.
  assert (E0 : t_orphan (tget g1 i) = s_orphan ss).
  { rewrite Hts0, consume_orphan. unfold ss. rewrite s_first_orphan. destruct (Hall i) as (_ & _ & _ & Ho & _). exact Ho. }
  assert (EL : t_lost (tget g1 i) = is_lost r) by (rewrite Hts0; apply consume_lost_flag; exact Hpend).
  unfold is_lost in EL.
  assert (EJ : t_ljp (tget g1 i) = false).
  { rewrite Hts0. apply consume_ljp_false. destruct (Hall i) as (_ & _ & _ & _ & _ & Hj & _). exact Hj. }
  destruct (r_type r) eqn:Hty; [| |cbn [wf_stream] in Hwf1; rewrite Hty in Hwf1; rewrite !andb_false_r in Hwf1; discriminate].
  - (* ENTRY *)
    destruct (entry_rel (s_inherit tasks S i) _ _ r (Hall i) Hty) as (E1 & E2 & E3 & E4 & E5).
    fold ss in E2, E3, E4, E5. rewrite <- Hts0 in E1, E2, E3, E4, E5.
    assert (Hplain : plain_id (r_addr r) = true) by (cbn [wf_stream] in Hwf1; lia).
    rewrite (fixup_plain _ _ _ _ _ Hplain). cbn iota beta. rewrite (update_plain _ _ _ _ Hplain).
    eexists. eexists. split; [reflexivity|].
    cbn [fst snd]. split.
    { rewrite events_warn_app by apply warn_of_warn. unfold events_of_line, mk. cbn [l_kind l_task l_indent l_name l_time].
      unfold is_fork. cbn [c_forks].
      destruct (existsb (N.eqb (r_addr r)) forks); cbn [set_fork stamp t_dd t_ts]; rewrite E2; reflexivity. }
    split.
    { split.
      - unfold tset, set_sj. cbn [g_tasks]. rewrite length_tupd, length_supd. unfold g1, consume. cbn [g_tasks].
        rewrite length_tupd. exact Hlen.
      - intros j. unfold tget, tset, set_sj. cbn [g_tasks].
        assert (Hg1 : (i < length (g_tasks g1))%nat) by (unfold g1, consume; cbn [g_tasks]; rewrite length_tupd; lia).
        rewrite nth_tupd by assumption. rewrite nth_supd by assumption.
        destruct (Nat.eqb j i) eqn:Eji.
        + unfold rel, is_fork. cbn [c_forks].
          destruct (existsb (N.eqb (r_addr r)) forks);
            cbn [set_dd set_fork stamp t_set t_dd t_fork_dd t_sc t_stack t_orphan t_lost t_ljp s_set s_dd s_fork s_stk s_orphan];
            unfold tget in *; rewrite ?E1, ?E2, ?E3, ?E0, ?EL, ?EJ; repeat split; auto.
        + unfold g1, consume. cbn [g_tasks]. rewrite nth_tupd by assumption. rewrite Eji. apply Hall. }
    split.
    { rewrite nth_supd by assumption. rewrite Nat.eqb_refl. unfold wfrem. cbn [s_set s_stk].
      cbn [wf_stream] in Hwf1. rewrite Hty in Hwf1. exists (r_time r). split.
      - cbn [length]. replace (N.of_nat (Datatypes.S (length (s_stk ss)))) with (N.of_nat (length (s_stk ss)) + 1) by lia. lia.
      - constructor; [lia|]. eapply Forall_impl; [|exact Hle]. cbn. intros; lia. }
    split; [apply length_supd|].
    intros j Hj. rewrite nth_supd by assumption. apply Nat.eqb_neq in Hj. rewrite Hj. reflexivity.
  - (* EXIT *)
    cbn [wf_stream] in Hwf1. rewrite Hty in Hwf1.
    destruct (s_stk ss) as [|t0 stk'] eqn:Hstk; [cbn [length] in Hwf1; lia|].
    destruct (exit_rel (s_inherit tasks S i) _ _ r t0 stk' (Hall i) Hty Hstk) as (E1 & E2 & E3 & E4 & E5 & E6).
    fold ss in E2, E3. rewrite <- Hts0 in E1, E2, E3, E4, E5, E6.
    inversion Hle as [|? ? Ht0 Hle']; subst.
    eexists. eexists. split; [reflexivity|].
    cbn [fst snd]. split.
    { rewrite events_warn_app by apply warn_of_warn. unfold events_of_line, mk.
      cbn [l_kind l_task l_indent l_name l_time l_dur stamp set_dd t_dd t_ts t_stack t_sc].
      rewrite E6, E2. rewrite sub64_exact by (unfold BOUND, W64 in *; lia). reflexivity. }
    split.
    { split.
      - unfold tset. cbn [g_tasks]. rewrite length_tupd, length_supd. unfold g1, consume. cbn [g_tasks].
        rewrite length_tupd. exact Hlen.
      - intros j. unfold tget, tset. cbn [g_tasks].
        assert (Hg1 : (i < length (g_tasks g1))%nat) by (unfold g1, consume; cbn [g_tasks]; rewrite length_tupd; lia).
        rewrite nth_tupd by assumption. rewrite nth_supd by assumption.
        destruct (Nat.eqb j i) eqn:Eji.
        + unfold rel. cbn [set_dd stamp t_set t_dd t_fork_dd t_sc t_stack t_orphan t_lost t_ljp s_set s_dd s_fork s_stk s_orphan].
          unfold tget in *. rewrite ?E1, ?E2, ?E3, ?E0, ?EL, ?EJ. repeat split; auto.
        + unfold g1, consume. cbn [g_tasks]. rewrite nth_tupd by assumption. rewrite Eji. apply Hall. }
    split.
    { rewrite nth_supd by assumption. rewrite Nat.eqb_refl. unfold wfrem. cbn [s_set s_stk].
      exists (r_time r). split.
      - cbn [length] in Hwf1. replace (N.of_nat (Datatypes.S (length stk')) - 1) with (N.of_nat (length stk')) in Hwf1 by lia. lia.
      - eapply Forall_impl; [|exact Hle']. cbn. intros; lia. }
    split; [apply length_supd|].
    intros j Hj. rewrite nth_supd by assumption. apply Nat.eqb_neq in Hj. rewrite Hj. reflexivity.
Qed.

Lemma proj_cons_same i r tl : proj i ((i, r) :: tl) = r :: proj i tl.
Proof. unfold proj. cbn [filter fst]. rewrite Nat.eqb_refl. reflexivity. Qed.
Lemma proj_cons_other i j r tl : j <> i -> proj j ((i, r) :: tl) = proj j tl.
Proof. intros H. unfold proj. cbn [filter fst]. apply Nat.eqb_neq in H. rewrite Nat.eqb_sym, H. reflexivity. Qed.

Lemma events_of_app a b : events_of (a ++ b) = events_of a ++ events_of b.
Proof. unfold events_of. apply flat_map_app. Qed.

(* the whole run without folding *)
Lemma run_refines forks tasks : forall l g S,
  Rel g S -> Forall (fun p => (fst p < length S)%nat) l ->
  (forall i, wfrem (nth i S sstate0) (proj i l)) ->
  events_of (fst (run (mkcfg false forks) tasks l g)) = srun forks tasks l S.
Proof.
  induction l as [|[i r] tl IH]; intros g S HR Hb Hwf; [reflexivity|].
  rewrite run_nofold_cons by reflexivity.
  inversion Hb as [|? ? Hi Hb']; subst. cbn [fst] in Hi.
  pose proof (Hwf i) as Hwi. rewrite proj_cons_same in Hwi.
  destruct (step_refines forks tasks g S i r (proj i tl) tl HR Hi Hwi) as (ev & S' & E1 & E2 & HR' & Hw' & HL & Hoth).
  destruct (step (mkcfg false forks) tasks g i r) as [ls g'] eqn:Es. cbn [fst snd] in *.
  specialize (IH g' S' HR').
  destruct (run (mkcfg false forks) tasks tl g') as [out g''] eqn:Er. cbn [fst] in *.
  rewrite events_of_app, E2, E1. cbn [app]. f_equal. apply IH.
  - rewrite HL. exact Hb'.
  - intros j. destruct (Nat.eq_dec j i) as [->|Hne]; [exact Hw'|].
    rewrite (Hoth j Hne). specialize (Hwf j). rewrite proj_cons_other in Hwf by assumption. exact Hwf.
Qed.

Lemma mask_queues_mask sel : forall tasks k, mask_queues sel tasks k = mask (selected sel) (map k_recs tasks) k.
Proof. induction tasks as [|t rest IH]; intros k; cbn; [reflexivity|]. rewrite IH. reflexivity. Qed.

Lemma nth_const {A B} (l : list A) (x : B) i : nth i (map (fun _ => x) l) x = x.
Proof. revert i. induction l as [|h t IH]; intros [|i]; cbn; auto. Qed.

Lemma wf_task_wfrem ss t : s_set ss = false -> wf_task t = true -> wfrem ss (k_recs t).
Proof. intros Hs. unfold wf_task, wfrem. rewrite Hs. destruct (k_recs t); auto. Qed.

Definition S0 (sel : option (list nat)) (tasks : list task) : list sstate := init_S sel tasks.

Lemma orphan_default sel tasks : orphan_of sel tasks (mktask None []) = false.
Proof. reflexivity. Qed.

Lemma nth_S0 sel tasks i :
  nth i (S0 sel tasks) sstate0 = mkss false 0 0 [] (orphan_of sel tasks (nth i tasks (mktask None []))).
Proof.
  unfold S0, init_S.
  change sstate0 with ((fun t => mkss false 0 0 [] (orphan_of sel tasks t)) (mktask None [])).
  apply map_nth.
Qed.

Lemma tget_init sel tasks i :
  tget (init_g sel tasks) i = tstate_init (orphan_of sel tasks (nth i tasks (mktask None []))).
Proof.
  unfold tget, init_g. cbn [g_tasks].
  change tstate0 with ((fun t => tstate_init (orphan_of sel tasks t)) (mktask None [])).
  apply map_nth.
Qed.

Lemma length_S0 sel tasks : length (S0 sel tasks) = length tasks.
Proof. unfold S0, init_S. apply map_length. Qed.

Lemma Rel_init sel tasks : Rel (init_g sel tasks) (S0 sel tasks).
Proof.
  split.
  - rewrite length_S0. unfold init_g. cbn [g_tasks]. apply map_length.
  - intros i. rewrite tget_init, nth_S0. apply rel_init.
Qed.

(* C06, refinement: what `replay --no-merge [--tid ...]` prints is the reference semantics of
   the merged (selected) records, whenever every task's stream is well-formed *)
Theorem replay_refines_spec forks sel tasks : forallb wf_task tasks = true ->
  events_of (fst (replay_raw (mkcfg false forks) sel tasks)) =
  srun forks tasks (merge (mask_queues sel tasks 0)) (S0 sel tasks).
Proof.
  intros Hwf. unfold replay_raw. apply run_refines.
  - apply Rel_init.
  - pose proof (merge_tags_valid (mask_queues sel tasks 0)) as H.
    rewrite mask_queues_mask, length_mask, map_length in H. rewrite length_S0.
    rewrite mask_queues_mask. exact H.
  - intros i. rewrite merge_preserves_task_order. rewrite nth_S0.
    rewrite mask_queues_mask, nth_mask. cbn [Nat.add].
    destruct (selected sel i); [|exact I].
    destruct (Nat.lt_ge_cases i (length tasks)) as [Hlt|Hge].
    + rewrite (nth_indep _ [] (k_recs (mktask None []))) by (rewrite map_length; exact Hlt).
      rewrite map_nth. apply wf_task_wfrem; [reflexivity|].
      rewrite forallb_forall in Hwf. apply Hwf. apply nth_In. exact Hlt.
    + rewrite (nth_overflow (map k_recs tasks)) by (rewrite map_length; exact Hge). exact I.
Qed.

(* ------------------------------------------------------------------ the reference semantics, task by task *)
Definition of_task (i : nat) (e : event) : bool := Nat.eqb (e_task e) i.

(* one step of srun under well-formedness *)
Lemma sstep forks tasks S i r rest tl : (i < length S)%nat -> wfrem (nth i S sstate0) (r :: rest) ->
  let ss := s_first (s_inherit tasks S i) (nth i S sstate0) r in
  exists ev ss',
    srun forks tasks ((i, r) :: tl) S = ev :: srun forks tasks tl (supd S i ss') /\
    wfrem ss' rest /\ s_set ss' = true /\
    spec_task i (s_dd ss) (s_stk ss) (r :: rest) = ev :: spec_task i (s_dd ss') (s_stk ss') rest /\
    e_task ev = i.
Proof.
  intros Hi Hwf ss.
  destruct (wfrem_first (s_inherit tasks S i) _ _ _ Hwf) as (last & Hwf1 & Hle & Hlast & Hbound).
  fold ss in Hwf1, Hle. cbn [srun]. fold ss. cbn [spec_task wf_stream] in *.
  destruct (r_type r) eqn:Hty; [| |rewrite !andb_false_r in Hwf1; discriminate].
  - eexists. eexists. split; [reflexivity|]. split.
    { unfold wfrem. cbn [s_set s_stk]. exists (r_time r). split.
      - cbn [length]. replace (N.of_nat (Datatypes.S (length (s_stk ss)))) with (N.of_nat (length (s_stk ss)) + 1) by lia. lia.
      - constructor; [lia|]. eapply Forall_impl; [|exact Hle]. cbn. intros; lia. }
    cbn [s_set s_dd s_stk e_task]. auto.
  - destruct (s_stk ss) as [|t0 stk'] eqn:Hstk; [cbn [length] in Hwf1; lia|].
    inversion Hle as [|? ? Ht0 Hle']; subst.
    eexists. eexists. split; [reflexivity|]. split.
    { unfold wfrem. cbn [s_set s_stk]. exists (r_time r). split.
      - cbn [length] in Hwf1. replace (N.of_nat (Datatypes.S (length stk')) - 1) with (N.of_nat (length stk')) in Hwf1 by lia. lia.
      - eapply Forall_impl; [|exact Hle']. cbn. intros; lia. }
    cbn [s_set s_dd s_stk e_task]. auto.
Qed.

Definition task_spec (i : nat) (ss : sstate) (rs : list rec) : list event :=
  if s_set ss then spec_task i (s_dd ss) (s_stk ss) rs else spec_task i (s_dd ss) (spec_start rs) rs.

(* the lines of one task depend on that task's own records only (a task without a fork()ing
   parent, or one that has already started) *)
Lemma srun_task forks tasks i : forall l S,
  Forall (fun p => (fst p < length S)%nat) l ->
  (forall j, wfrem (nth j S sstate0) (proj j l)) ->
  (k_parent (nth i tasks (mktask None [])) = None /\ s_orphan (nth i S sstate0) = false) \/
  s_set (nth i S sstate0) = true ->
  filter (of_task i) (srun forks tasks l S) = task_spec i (nth i S sstate0) (proj i l).
Proof.
  induction l as [|[j r] tl IH]; intros S Hb Hwf Hpar.
  - cbn. unfold task_spec. destruct (s_set _); reflexivity.
  - inversion Hb as [|? ? Hj Hb']; subst. cbn [fst] in Hj.
    pose proof (Hwf j) as Hwj. rewrite proj_cons_same in Hwj.
    destruct (sstep forks tasks S j r (proj j tl) tl Hj Hwj) as (ev & ss' & E1 & Hw' & Hset' & Espec & Etask).
    rewrite E1. cbn [filter]. unfold of_task at 1. rewrite Etask. clear Etask.
    assert (Hwf' : forall k, wfrem (nth k (supd S j ss') sstate0) (proj k tl)).
    { intros k. rewrite nth_supd by assumption. destruct (Nat.eqb k j) eqn:Ekj.
      - apply Nat.eqb_eq in Ekj. subst k. exact Hw'.
      - apply Nat.eqb_neq in Ekj. specialize (Hwf k). rewrite proj_cons_other in Hwf by assumption. exact Hwf. }
    assert (Hb2 : Forall (fun p => (fst p < length (supd S j ss'))%nat) tl) by (rewrite length_supd; exact Hb').
    destruct (Nat.eqb j i) eqn:Eji.
    + apply Nat.eqb_eq in Eji. subst j.
      assert (Hn : nth i (supd S i ss') sstate0 = ss').
      { rewrite nth_supd by assumption. rewrite Nat.eqb_refl. reflexivity. }
      rewrite (IH _ Hb2 Hwf') by (right; rewrite Hn; exact Hset').
      rewrite Hn, proj_cons_same.
      unfold task_spec at 1. rewrite Hset'. rewrite <- Espec.
      unfold task_spec, s_first, s_inherit.
      destruct (s_set (nth i S sstate0)) eqn:Eset; [reflexivity|].
      destruct Hpar as [[Hp Ho]|Hp]; [|congruence]. rewrite Hp, Ho. cbn [N.eqb s_dd s_stk spec_start]. reflexivity.
    + apply Nat.eqb_neq in Eji.
      rewrite (IH _ Hb2 Hwf').
      * rewrite nth_supd by assumption. apply Nat.eqb_neq in Eji. rewrite Nat.eqb_sym, Eji.
        apply Nat.eqb_neq in Eji. rewrite proj_cons_other by auto. reflexivity.
      * rewrite nth_supd by assumption. apply Nat.eqb_neq in Eji. rewrite Nat.eqb_sym, Eji. exact Hpar.
Qed.

(* ------------------------------------------------------------------ streams that are traces of call forests *)
Section call_ind.
  Variable P : call -> Prop.
  Hypothesis H : forall a t0 t1 kids, Forall P kids -> P (Call a t0 t1 kids).
  Fixpoint call_ind' (c : call) : P c :=
    match c with
    | Call a t0 t1 kids =>
        H a t0 t1 kids ((fix go (l : list call) : Forall P l :=
                           match l with [] => Forall_nil _ | x :: t => Forall_cons _ (call_ind' x) (go t) end) kids)
    end.
End call_ind.

Lemma spec_forest_gen i : forall f,
  Forall (fun c => forall d dd stk rest,
            spec_task i dd stk (flat d c ++ rest) = render i dd c ++ spec_task i dd stk rest) f ->
  forall d dd stk rest,
    spec_task i dd stk (flat_forest d f ++ rest) = render_forest i dd f ++ spec_task i dd stk rest.
Proof.
  induction 1 as [|c f Hc _ IH]; intros d dd stk rest; [reflexivity|].
  unfold flat_forest, render_forest in *. cbn [flat_map]. rewrite <- !app_assoc. rewrite Hc, IH. reflexivity.
Qed.

Lemma spec_call i : forall c d dd stk rest,
  spec_task i dd stk (flat d c ++ rest) = render i dd c ++ spec_task i dd stk rest.
Proof.
  induction c as [a t0 t1 kids IH] using call_ind'. intros d dd stk rest.
  cbn [flat render]. cbn [app spec_task r_type r_addr r_time]. f_equal.
  rewrite <- !app_assoc.
  change (flat_map (flat (d + 1)) kids) with (flat_forest (d + 1) kids).
  rewrite (spec_forest_gen i kids IH).
  change (flat_map (render i (dd + 1)) kids) with (render_forest i (dd + 1) kids).
  f_equal. cbn [app spec_task r_type r_addr r_time]. rewrite N.pred_succ || replace (N.pred (dd + 1)) with dd by lia.
  reflexivity.
Qed.

(* complete calls: indentation = nesting depth, duration = t1 - t0 *)
Theorem spec_forest i f d dd stk rest :
  spec_task i dd stk (flat_forest d f ++ rest) = render_forest i dd f ++ spec_task i dd stk rest.
Proof. apply spec_forest_gen. apply Forall_forall. intros c _. apply spec_call. Qed.

(* calls still open at the end of the data *)
Theorem spec_tail i : forall t d dd stk,
  spec_task i dd stk (flat_tail d t) = render_tail i dd t.
Proof.
  induction t as [|a t0 kids rest IH]; intros d dd stk; [reflexivity|].
  cbn [flat_tail render_tail spec_task r_type r_addr r_time]. f_equal.
  rewrite spec_forest. f_equal. apply IH.
Qed.

(* ------------------------------------------------------------------ leaf folding is presentation only *)
(* what the property speaks about on a line: entered/left, task, indentation, the function
   entered, the duration; NOT the timestamp columns (a folded leaf has one line and one stamp) *)
Definition core := (bool * nat * N * N * N)%type.
Definition core_of (e : event) : core :=
  (e_open e, e_task e, e_indent e, if e_open e then e_name e else 0, e_dur e).

Lemma in_proj_early i r l : In (i, r) l -> In r (proj i l).
Proof.
  intros H. unfold proj. apply in_map_iff. exists (i, r). split; [reflexivity|].
  apply filter_In. split; [exact H|]. cbn. apply Nat.eqb_refl.
Qed.

(* the reader state without the two timestamp fields *)
Definition strip (ts : tstate) : tstate :=
  mkts (t_set ts) (t_sc ts) (t_dd ts) (t_fork_dd ts) (t_stack ts) 0 0 (t_orphan ts) (t_usc ts) (t_lost ts) (t_ljp ts) (t_ljd ts).
Definition STR (g : gstate) : list tstate := map strip (g_tasks g).
Definition SJ (g : gstate) : N * N := (g_sjd g, g_sjc g).

Definition inh_of (tasks : list task) (T : list tstate) (i : nat) : N :=
  match k_parent (nth i tasks (mktask None [])) with
  | Some p => t_fork_dd (nth p T tstate0)
  | None => 0
  end.

(* one record, on stripped states and the static setjmp pair, producing core events *)
Definition cstep (forks : list N) (i : nat) (inh : N) (sj : N * N) (ts : tstate) (r : rec) : list core * tstate * (N * N) :=
  let pend := t_lost ts in
  let ts0 := consume_task inh ts r in
  match r_type r with
  | LOST => ([], ts0, sj)
  | ENTRY =>
      let depth := if pend then t_sc ts0 - 1 else t_dd ts0 in
      let '(ts2, sj') := fixup_entry (mkcfg false forks) r depth ts0 sj in
      ([(true, i, depth, r_addr r, 0)], update_entry r depth ts2 sj', sj')
  | EXIT =>
      let f := fget (t_stack ts0) (t_sc ts0) in
      let depth := if pend then t_sc ts0 else N.pred (t_dd ts0) in
      ([(false, i, depth, 0, f_time f)], set_dd ts0 depth, sj)
  end.

Fixpoint crun (forks : list N) (tasks : list task) (l : list (nat * rec)) (T : list tstate) (sj : N * N) : list core :=
  match l with
  | [] => []
  | (i, r) :: tl =>
      let '(es, ts', sj') := cstep forks i (inh_of tasks T i) sj (nth i T tstate0) r in
      es ++ crun forks tasks tl (tupd T i ts') sj'
  end.

Lemma strip_idem ts : strip (strip ts) = strip ts.
Proof. reflexivity. Qed.

Lemma strip_first_setup inh ts r : strip (first_setup inh ts r) = first_setup inh (strip ts) r.
Proof. destruct ts as [st sc dd fd stk t tl orp usc lost ljp ljd]. unfold first_setup, strip. cbn. destruct st; reflexivity. Qed.
Lemma strip_resync ts r : strip (resync ts r) = resync (strip ts) r.
Proof. destruct ts as [st sc dd fd stk t tl orp usc lost ljp ljd]. unfold resync, strip. cbn. destruct lost; reflexivity. Qed.
Lemma strip_account ts r : strip (account ts r) = account (strip ts) r.
Proof.
  destruct ts as [st sc dd fd stk t tl orp usc lost ljp ljd]. unfold account, strip. cbn.
  destruct (r_type r); try reflexivity. destruct (sc =? 0); reflexivity.
Qed.
Lemma strip_count ts r : strip (count ts r) = count (strip ts) r.
Proof.
  destruct ts as [st sc dd fd stk t tl orp usc lost ljp ljd]. unfold count, strip. cbn.
  destruct (r_type r); try reflexivity. destruct (ljp && (r_depth r <=? ljd)); reflexivity.
Qed.

Lemma strip_consume inh ts r : strip (consume_task inh ts r) = consume_task inh (strip ts) r.
Proof.
  unfold consume_task. rewrite <- strip_first_setup.
  replace (t_lost (strip (first_setup inh ts r))) with (t_lost (first_setup inh ts r)) by reflexivity.
  destruct (t_lost (first_setup inh ts r) && is_lost r); [reflexivity|].
  rewrite strip_count, strip_account, strip_resync. reflexivity.
Qed.

Lemma ts_first_setup inh ts r : t_ts (first_setup inh ts r) = t_ts ts /\ t_ts_last (first_setup inh ts r) = t_ts_last ts.
Proof. unfold first_setup. destruct (t_set ts); split; reflexivity. Qed.
Lemma ts_resync ts r : t_ts (resync ts r) = t_ts ts /\ t_ts_last (resync ts r) = t_ts_last ts.
Proof. unfold resync. destruct (t_lost ts); split; reflexivity. Qed.
Lemma ts_account ts r : t_ts (account ts r) = t_ts ts /\ t_ts_last (account ts r) = t_ts_last ts.
Proof. unfold account. destruct (r_type r); try (split; reflexivity). destruct (t_sc ts =? 0); split; reflexivity. Qed.

Lemma consume_ts inh ts r : t_ts (consume_task inh ts r) = t_ts ts /\ t_ts_last (consume_task inh ts r) = t_ts_last ts.
Proof.
  unfold consume_task. destruct (t_lost (first_setup inh ts r) && is_lost r); [apply ts_first_setup|].
  destruct (count_fields (account (resync (first_setup inh ts r) r) r) r) as (_ & _ & _ & -> & -> & _).
  destruct (ts_account (resync (first_setup inh ts r) r) r) as [A1 A2].
  destruct (ts_resync (first_setup inh ts r) r) as [B1 B2]. destruct (ts_first_setup inh ts r) as [C1 C2].
  split; congruence.
Qed.

Lemma set_first_setup inh ts r : t_set (first_setup inh ts r) = true.
Proof. unfold first_setup. destruct (t_set ts) eqn:E; [exact E|reflexivity]. Qed.
Lemma set_resync ts r : t_set (resync ts r) = t_set ts.
Proof. unfold resync. destruct (t_lost ts); reflexivity. Qed.
Lemma set_account ts r : t_set (account ts r) = t_set ts.
Proof. unfold account. destruct (r_type r); try reflexivity. destruct (t_sc ts =? 0); reflexivity. Qed.

Lemma consume_set inh ts r : t_set (consume_task inh ts r) = true.
Proof.
  unfold consume_task. destruct (t_lost (first_setup inh ts r) && is_lost r); [apply set_first_setup|].
  destruct (count_fields (account (resync (first_setup inh ts r) r) r) r) as (-> & _).
  rewrite set_account, set_resync. apply set_first_setup.
Qed.

Lemma consume_inh_irrelevant inh inh' ts r : t_set ts = true -> consume_task inh ts r = consume_task inh' ts r.
Proof. intros H. unfold consume_task, first_setup. rewrite H. reflexivity. Qed.

Lemma tupd_tupd : forall l i x y, tupd (tupd l i x) i y = tupd l i y.
Proof. induction l as [|h t IH]; intros [|i] x y; cbn; auto. rewrite IH. reflexivity. Qed.

Lemma map_tupd f : forall l i x, map f (tupd l i x) = tupd (map f l) i (f x).
Proof. induction l as [|h t IH]; intros [|i] x; cbn; auto. rewrite IH. reflexivity. Qed.

Lemma nth_STR g i : nth i (STR g) tstate0 = strip (tget g i).
Proof. unfold STR, tget. change tstate0 with (strip tstate0) at 1. apply map_nth. Qed.

Lemma inherit_STR tasks g i : inherit tasks g i = inh_of tasks (STR g) i.
Proof. unfold inherit, inh_of. destruct (k_parent _); [|reflexivity]. rewrite nth_STR. reflexivity. Qed.

Lemma length_STR g : length (STR g) = length (g_tasks g).
Proof. apply map_length. Qed.

Lemma tget_consume tasks g i r : (i < length (g_tasks g))%nat ->
  tget (consume tasks g i r) i = consume_task (inherit tasks g i) (tget g i) r.
Proof. intros H. unfold consume, tget. cbn [g_tasks]. rewrite nth_tupd by assumption. rewrite Nat.eqb_refl. reflexivity. Qed.

Lemma lost_resync_clear ts r : t_lost (resync ts r) = false.
Proof. unfold resync. destruct (t_lost ts) eqn:E; [reflexivity|exact E]. Qed.
Lemma lost_account ts r : is_lost r = false -> t_lost (account ts r) = t_lost ts.
Proof. unfold account, is_lost. destruct (r_type r); intros H; try discriminate; try reflexivity. destruct (t_sc ts =? 0); reflexivity. Qed.

(* any record that is not a LOST marker ends the "marker pending" state *)
Lemma consume_lost_clear inh ts r : is_lost r = false -> t_lost (consume_task inh ts r) = false.
Proof.
  intros H. unfold consume_task. rewrite H, andb_false_r.
  destruct (count_fields (account (resync (first_setup inh ts r) r) r) r) as (_ & _ & -> & _).
  rewrite lost_account by assumption. apply lost_resync_clear.
Qed.

Lemma events_warn_lost ws ls : Forall (fun w => not_warn w = false) ws ->
  Forall (fun l => l_kind l = KLost) ls -> events_of (ws ++ ls) = [].
Proof.
  intros Hw Hl. unfold events_of. rewrite flat_map_app.
  assert (E1 : flat_map events_of_line ws = []).
  { induction Hw as [|w ws Hw1 _ IH]; [reflexivity|]. cbn [flat_map]. rewrite IH.
    unfold not_warn in Hw1. unfold events_of_line. destruct (l_kind w); try discriminate. reflexivity. }
  assert (E2 : flat_map events_of_line ls = []).
  { induction Hl as [|l ls Hl1 _ IH]; [reflexivity|]. cbn [flat_map]. rewrite IH. unfold events_of_line. rewrite Hl1. reflexivity. }
  rewrite E1, E2. reflexivity.
Qed.


Lemma fixup_forks c c' r d ts sj : c_forks c = c_forks c' -> fixup_entry c r d ts sj = fixup_entry c' r d ts sj.
Proof. intros H. unfold fixup_entry, is_fork. rewrite H. reflexivity. Qed.

Lemma strip_fixup c r d ts sj :
  fixup_entry c r d (strip ts) sj = (strip (fst (fixup_entry c r d ts sj)), snd (fixup_entry c r d ts sj)).
Proof.
  unfold fixup_entry.
  destruct (is_exec_id (r_addr r)); [reflexivity|].
  destruct (is_setjmp_id (r_addr r)); [reflexivity|].
  destruct (is_longjmp_id (r_addr r)); [reflexivity|].
  destruct (is_fork c (r_addr r)); reflexivity.
Qed.

Lemma strip_update r d ts sj : strip (update_entry r d ts sj) = update_entry r d (strip ts) sj.
Proof.
  unfold update_entry. destruct (is_exec_id (r_addr r)); [reflexivity|]. destruct (is_longjmp_id (r_addr r)); reflexivity.
Qed.

Lemma STR_set_sj g sj : STR (set_sj g sj) = STR g. Proof. reflexivity. Qed.
Lemma STR_tset g i x : STR (tset g i x) = tupd (STR g) i (strip x).
Proof. unfold STR, tset. cbn [g_tasks]. apply map_tupd. Qed.
Lemma SJ_tset g i x : SJ (tset g i x) = SJ g. Proof. reflexivity. Qed.
Lemma SJ_consume tasks g i r : SJ (consume tasks g i r) = SJ g. Proof. reflexivity. Qed.

(* a record processed without folding, seen on stripped states *)
Lemma step_core c forks tasks g i r : (i < length (g_tasks g))%nat -> c_forks c = forks ->
  let cs := cstep forks i (inh_of tasks (STR g) i) (SJ g) (nth i (STR g) tstate0) r in
  map core_of (events_of (fst (step c tasks g i r))) = fst (fst cs) /\
  STR (snd (step c tasks g i r)) = tupd (STR g) i (snd (fst cs)) /\
  SJ (snd (step c tasks g i r)) = snd cs.
Proof.
  intros Hi Hfk cs. subst cs. unfold step, cstep.
  rewrite (tget_consume _ _ _ _ Hi).
  rewrite nth_STR, <- inherit_STR, <- strip_consume.
  replace (t_lost (strip (tget g i))) with (t_lost (tget g i)) by reflexivity.
  set (pend := t_lost (tget g i)).
  set (ts0 := consume_task (inherit tasks g i) (tget g i) r).
  destruct (r_type r); cbn [fst snd].
  - (* ENTRY *)
    cbn [g_sjd g_sjc g_first].
    set (depth := if pend then t_sc (stamp ts0 (r_time r)) - 1 else t_dd (stamp ts0 (r_time r))).
    change (if pend then t_sc (strip ts0) - 1 else t_dd (strip ts0)) with depth.
    rewrite (fixup_forks (mkcfg false forks) c) by (cbn [c_forks]; symmetry; exact Hfk).
    rewrite strip_fixup.
    assert (Hstamp : forall sj, strip (fst (fixup_entry c r depth (stamp ts0 (r_time r)) sj)) = strip (fst (fixup_entry c r depth ts0 sj))
                                /\ snd (fixup_entry c r depth (stamp ts0 (r_time r)) sj) = snd (fixup_entry c r depth ts0 sj)).
    { intros sj. unfold fixup_entry.
      destruct (is_exec_id (r_addr r)); [split; reflexivity|].
      destruct (is_setjmp_id (r_addr r)); [split; reflexivity|].
      destruct (is_longjmp_id (r_addr r)); [split; reflexivity|].
      destruct (is_fork c (r_addr r)); split; reflexivity. }
    destruct (Hstamp (g_sjd (consume tasks g i r), g_sjc (consume tasks g i r))) as [Hs1 Hs2].
    destruct (fixup_entry c r depth (stamp ts0 (r_time r)) (g_sjd (consume tasks g i r), g_sjc (consume tasks g i r))) as [ts2 sj2].
    cbn [fst snd] in *. change (SJ g) with (g_sjd (consume tasks g i r), g_sjc (consume tasks g i r)).
    rewrite <- Hs1, <- Hs2. cbn [fst snd].
    split; [|split].
    + rewrite events_warn_app by apply warn_of_warn. unfold events_of_line, mk.
      cbn [l_kind l_task l_indent l_name map core_of e_open e_task e_indent e_name e_dur]. reflexivity.
    + rewrite STR_tset, STR_set_sj. unfold STR, consume. cbn [g_tasks]. rewrite map_tupd, tupd_tupd, strip_update. reflexivity.
    + destruct sj2; reflexivity.
  - (* EXIT *)
    split; [|split].
    + rewrite events_warn_app by apply warn_of_warn. unfold events_of_line, mk.
      cbn [l_kind l_task l_indent l_name l_dur map core_of e_open e_task e_indent e_name e_dur].
      destruct pend; reflexivity.
    + rewrite STR_tset. unfold STR, consume. cbn [g_tasks]. rewrite map_tupd, tupd_tupd. try (f_equal; destruct pend; reflexivity); reflexivity.
    + reflexivity.
  - (* LOST *)
    split; [|split].
    + rewrite events_warn_lost; [reflexivity|apply warn_of_warn|].
      destruct (t_usc ts0 =? 0); repeat constructor.
    + unfold STR, consume. cbn [g_tasks]. rewrite map_tupd. reflexivity.
    + reflexivity.
Qed.

Lemma length_step c tasks g i r : length (g_tasks (snd (step c tasks g i r))) = length (g_tasks g).
Proof.
  unfold step. destruct (r_type r); cbn [snd]; try destruct (fixup_entry _ _ _ _ _) as [ts2 sj2];
    unfold tset, set_sj, consume; cbn [snd g_tasks]; rewrite ?length_tupd; reflexivity.
Qed.

(* unfolding [run] on its branches *)
Definition leaf_cond (c : cfg) (i : nat) (r : rec) (tl : list (nat * rec)) : bool :=
  match r_type r, tl with
  | ENTRY, (j, r') :: _ =>
      c_fold c && Nat.eqb j i && (r_depth r' =? r_depth r) && is_exit r' && negb (no_fold_id (r_addr r))
  | _, _ => false
  end.

Lemma run_cons_step c tasks i r tl g : leaf_cond c i r tl = false ->
  run c tasks ((i, r) :: tl) g =
  let '(ls, g') := step c tasks g i r in
  let '(out, g'') := run c tasks tl g' in (ls ++ out, g'').
Proof.
  intros Hf. cbn [run]. unfold step, warn_of. unfold leaf_cond in Hf.
  destruct (r_type r).
  - destruct (fixup_entry c r _ _ _) as [ts2 sj].
    destruct tl as [|[j r'] tl']; [|rewrite Hf];
      match goal with |- context [run c tasks ?l ?g] => destruct (run c tasks l g) as [out g''] end;
      rewrite <- app_assoc; reflexivity.
  - match goal with |- context [run c tasks ?l ?g] => destruct (run c tasks l g) as [out g''] end.
    rewrite <- app_assoc. reflexivity.
  - match goal with |- context [run c tasks ?l ?g] => destruct (run c tasks l g) as [out g''] end.
    rewrite <- app_assoc. reflexivity.
Qed.

(* the folded branch: state and line *)
Definition leaf_step (c : cfg) (tasks : list task) (g : gstate) (i : nat) (r r' : rec) : list line * gstate :=
  let pend := t_lost (tget g i) in
  let g1 := consume tasks g i r in
  let ts0 := tget g1 i in
  let warn := warn_of g1 ts0 r in
  let g2 := mkg (g_tasks g1) (g_first g1) (if r_time r =? 0 then g_prev g1 else r_time r) (g_sjd g1) (g_sjc g1) in
  let ts1 := stamp ts0 (r_time r) in
  let depth := if pend then t_sc ts1 - 1 else t_dd ts1 in
  let '(ts2, sj) := fixup_entry c r depth ts1 (g_sjd g2, g_sjc g2) in
  let g3 := consume tasks (tset (set_sj g2 sj) i (set_dd ts2 depth)) i r' in
  let ts3 := tget g3 i in
  let f := fget (t_stack ts3) (t_sc ts2 - 1) in
  (warn ++ [mk KLeaf i ts3 (g_first g3) depth (r_addr r) (f_time f) (f_addr f)], g3).

Lemma run_cons_leaf c tasks i r j r' tl' g : leaf_cond c i r ((j, r') :: tl') = true ->
  run c tasks ((i, r) :: (j, r') :: tl') g =
  let '(ls, g') := leaf_step c tasks g i r r' in
  let '(out, g'') := run c tasks tl' g' in (ls ++ out, g'').
Proof.
  intros Hf. cbn [run]. unfold leaf_step, warn_of. unfold leaf_cond in Hf.
  destruct (r_type r); try discriminate.
  destruct (fixup_entry c r _ _ _) as [ts2 sj]. rewrite Hf.
  match goal with |- context [run c tasks ?l ?g] => destruct (run c tasks l g) as [out g''] end.
  rewrite <- app_assoc. reflexivity.
Qed.

(* consuming a record does not look at the display depth (task set up, no longjmp pending) *)
Lemma account_set_dd x r d : account (set_dd x d) r = set_dd (account x r) d.
Proof. unfold account, set_dd. cbn [t_set t_sc t_dd t_fork_dd t_stack t_ts t_ts_last t_orphan t_usc t_lost t_ljp t_ljd].
  destruct (r_type r); try reflexivity. destruct (t_sc x =? 0); reflexivity. Qed.
Lemma account_ljp x r : t_ljp (account x r) = t_ljp x.
Proof. unfold account. destruct (r_type r); try reflexivity. destruct (t_sc x =? 0); reflexivity. Qed.
Lemma count_set_dd x r d : t_ljp x = false -> count (set_dd x d) r = set_dd (count x r) d.
Proof.
  intros H. destruct x as [st sc dd fd stk t tl orp usc lost ljp ljd]. cbn [t_ljp] in H. subst ljp.
  unfold count, set_dd. cbn. destruct (r_type r); reflexivity.
Qed.
Lemma consume_set_dd inh x r d : t_set x = true -> t_lost x = false -> t_ljp x = false ->
  consume_task inh (set_dd x d) r = set_dd (consume_task inh x r) d.
Proof.
  intros Hs Hl Hj. rewrite !consume_nolost by (try exact Hl; cbn [set_dd t_lost]; exact Hl).
  unfold first_setup. cbn [set_dd t_set]. rewrite Hs. rewrite account_set_dd, count_set_dd; [reflexivity|].
  rewrite account_ljp. exact Hj.
Qed.

Lemma consume_exit_dd r' : r_type r' = EXIT -> forall (x : tstate) (d : N),
  t_set x = true -> t_lost x = false -> t_ljp x = false ->
  consume_task 0 (set_dd x (d + 1)) r' = set_dd (consume_task 0 (set_dd x d) r') (d + 1) /\
  t_dd (consume_task 0 (set_dd x d) r') = d /\
  t_sc (consume_task 0 (set_dd x d) r') = N.pred (t_sc x) /\
  t_lost (consume_task 0 (set_dd x d) r') = false.
Proof.
  intros Hty x d Hs Hl Hj. rewrite !consume_set_dd by assumption. repeat split; try reflexivity.
  - cbn [set_dd t_sc]. rewrite consume_nolost by assumption. unfold first_setup. rewrite Hs.
    unfold count. rewrite Hty, account_ljp, Hj. cbn [andb t_sc]. unfold account. rewrite Hty.
    destruct (t_sc x =? 0); reflexivity.
  - cbn [set_dd t_lost]. apply consume_lost_clear. unfold is_lost. rewrite Hty. reflexivity.
Qed.

(* no longjmp() in the stream: longjmp_pending is never set *)
Definition no_longjmp (l : list (nat * rec)) : Prop := Forall (fun p => is_longjmp_id (r_addr (snd p)) = false) l.
Definition ljp_clear (T : list tstate) : Prop := Forall (fun ts => t_ljp ts = false) T.

Lemma ljp_clear_nth T i : ljp_clear T -> t_ljp (nth i T tstate0) = false.
Proof.
  intros H. destruct (Nat.lt_ge_cases i (length T)) as [Hlt|Hge].
  - unfold ljp_clear in H. rewrite Forall_forall in H. apply H. apply nth_In. exact Hlt.
  - rewrite nth_overflow by exact Hge. reflexivity.
Qed.
Lemma ljp_clear_tupd T i x : ljp_clear T -> t_ljp x = false -> ljp_clear (tupd T i x).
Proof.
  intros H Hx. revert i. induction H as [|h t Hh Ht IH]; intros [|i]; cbn [tupd]; try constructor; auto.
  apply IH.
Qed.

Lemma fixup_ljp c r d ts sj : t_ljp (fst (fixup_entry c r d ts sj)) = t_ljp ts.
Proof. destruct (fixup_fields c r d ts sj) as (_ & _ & _ & _ & _ & _ & _ & _ & _ & H). exact H. Qed.

Lemma update_ljp r d ts sj : is_longjmp_id (r_addr r) = false -> t_ljp (update_entry r d ts sj) = t_ljp ts.
Proof. intros H. unfold update_entry. rewrite H. destruct (is_exec_id (r_addr r)); reflexivity. Qed.

(* cstep keeps longjmp_pending clear when the record is no longjmp() *)
Lemma cstep_ljp forks i inh sj ts r : is_longjmp_id (r_addr r) = false -> t_ljp ts = false ->
  t_ljp (snd (fst (cstep forks i inh sj ts r))) = false.
Proof.
  intros Hn Hj. unfold cstep. pose proof (consume_ljp_false inh ts r Hj) as H0.
  destruct (r_type r); cbn [fst snd].
  - match goal with |- context [fixup_entry ?c r ?d ?t ?s] =>
      pose proof (fixup_ljp c r d t s) as HF; destruct (fixup_entry c r d t s) as [ts2 sj2] end.
    cbn [fst snd] in *. rewrite update_ljp by exact Hn. rewrite HF. exact H0.
  - cbn [set_dd t_ljp]. exact H0.
  - exact H0.
Qed.

(* the folded line is the Open and the Close of the two unfolded steps *)
Lemma leaf_core c forks tasks g i r r' : (i < length (g_tasks g))%nat -> c_forks c = forks ->
  r_type r = ENTRY -> r_type r' = EXIT -> no_fold_id (r_addr r) = false -> t_ljp (tget g i) = false ->
  let T := STR g in
  let '(e1, ta, sj1) := cstep forks i (inh_of tasks T i) (SJ g) (nth i T tstate0) r in
  let T1 := tupd T i ta in
  let '(e2, tb, sj2) := cstep forks i (inh_of tasks T1 i) sj1 (nth i T1 tstate0) r' in
  map core_of (events_of (fst (leaf_step c tasks g i r r'))) = e1 ++ e2 /\
  STR (snd (leaf_step c tasks g i r r')) = tupd T1 i tb /\
  SJ (snd (leaf_step c tasks g i r r')) = sj2.
Proof.
  intros Hi Hfk Hty Hty' Hnf Hlj0. cbn zeta. unfold leaf_step, cstep. rewrite Hty, Hty'.
  rewrite (tget_consume _ _ _ _ Hi).
  rewrite nth_STR, <- inherit_STR, <- strip_consume.
  replace (t_lost (strip (tget g i))) with (t_lost (tget g i)) by reflexivity.
  set (pend := t_lost (tget g i)).
  set (ts0 := consume_task (inherit tasks g i) (tget g i) r).
  set (ts1 := stamp ts0 (r_time r)).
  set (depth := if pend then t_sc ts1 - 1 else t_dd ts1).
  change (if pend then t_sc (strip ts0) - 1 else t_dd (strip ts0)) with depth.
  rewrite (fixup_forks (mkcfg false forks) c) by (cbn [c_forks]; symmetry; exact Hfk).
  rewrite strip_fixup.
  assert (Hstamp : forall sj, strip (fst (fixup_entry c r depth ts1 sj)) = strip (fst (fixup_entry c r depth ts0 sj))
                              /\ snd (fixup_entry c r depth ts1 sj) = snd (fixup_entry c r depth ts0 sj)).
  { intros sj. unfold fixup_entry, ts1.
    destruct (is_exec_id (r_addr r)); [split; reflexivity|].
    destruct (is_setjmp_id (r_addr r)); [split; reflexivity|].
    destruct (is_longjmp_id (r_addr r)); [split; reflexivity|].
    destruct (is_fork c (r_addr r)); split; reflexivity. }
  cbn [g_sjd g_sjc g_first].
  set (sj0 := (g_sjd (consume tasks g i r), g_sjc (consume tasks g i r))).
  change (SJ g) with sj0.
  destruct (Hstamp sj0) as [Hs1 Hs2].
  pose proof (fixup_fields c r depth ts1 sj0) as HF.
  destruct (fixup_entry c r depth ts1 sj0) as [ts2 sj2] eqn:Efx.
  cbn [fst snd] in *. rewrite <- Hs1, <- Hs2. cbn [fst snd].
  destruct HF as (F1 & F2 & F3 & F4 & F5 & F6 & F7 & F8 & F9 & F10).
  assert (Hlen : (i < length (STR g))%nat) by (rewrite length_STR; exact Hi).
  rewrite nth_tupd by assumption. rewrite Nat.eqb_refl.
  (* the unfolded first step ends with update_entry = set_dd (no exec, no longjmp) *)
  assert (Hupd : forall x, update_entry r depth x sj2 = set_dd x (depth + 1)).
  { intros x. unfold update_entry. unfold no_fold_id in Hnf. apply orb_false_iff in Hnf. destruct Hnf as [A B].
    rewrite A, B. reflexivity. }
  rewrite Hupd.
  set (sa := strip ts2).
  set (ta := set_dd sa (depth + 1)).
  (* the state in which r' is consumed *)
  set (g2 := tset (set_sj (mkg (g_tasks (consume tasks g i r)) (g_first (consume tasks g i r))
                               (if r_time r =? 0 then g_prev (consume tasks g i r) else r_time r)
                               (g_sjd (consume tasks g i r)) (g_sjc (consume tasks g i r))) sj2) i (set_dd ts2 depth)).
  assert (Hi2 : (i < length (g_tasks g2))%nat).
  { unfold g2, tset, set_sj, consume. cbn [g_tasks]. rewrite !length_tupd. exact Hi. }
  rewrite (tget_consume _ _ _ _ Hi2).
  assert (Hget2 : tget g2 i = set_dd ts2 depth).
  { unfold g2, tset, set_sj, tget, consume. cbn [g_tasks]. rewrite nth_tupd by (rewrite length_tupd; exact Hi).
    rewrite Nat.eqb_refl. reflexivity. }
  rewrite Hget2.
  assert (Hset0 : t_set ts0 = true) by apply consume_set.
  assert (Hlost0 : t_lost ts0 = false) by (apply consume_lost_clear; unfold is_lost; rewrite Hty; reflexivity).
  assert (Hljp0 : t_ljp ts0 = false) by (apply consume_ljp_false; exact Hlj0).
  assert (Hset2 : t_set ts2 = true) by (rewrite F1; exact Hset0).
  assert (Hlost2 : t_lost ts2 = false) by (rewrite F9; exact Hlost0).
  assert (Hljp2 : t_ljp ts2 = false) by (rewrite F10; exact Hljp0).
  assert (Hsc : t_sc sa = t_sc ts2) by reflexivity.
  assert (Hseta : t_set sa = true) by exact Hset2.
  assert (Hlosta : t_lost sa = false) by exact Hlost2.
  assert (Hljpa : t_ljp sa = false) by exact Hljp2.
  replace (t_lost ta) with false by (unfold ta; cbn [set_dd t_lost]; symmetry; exact Hlosta).
  assert (Hseta' : t_set ta = true) by (unfold ta; cbn [set_dd t_set]; exact Hseta).
  assert (Hset2' : t_set (set_dd ts2 depth) = true) by (cbn [set_dd t_set]; exact Hset2).
  rewrite (consume_inh_irrelevant (inh_of tasks (tupd (STR g) i ta) i) 0 ta r' Hseta').
  rewrite (consume_inh_irrelevant (inherit tasks g2 i) 0 (set_dd ts2 depth) r' Hset2').
  destruct (consume_exit_dd r' Hty' sa depth Hseta Hlosta Hljpa) as (C1 & C2 & C3 & C4).
  fold ta in C1.
  pose proof (strip_consume 0 (set_dd ts2 depth) r') as Hs3.
  replace (strip (set_dd ts2 depth)) with (set_dd sa depth) in Hs3 by reflexivity.
  set (ts3 := consume_task 0 (set_dd ts2 depth) r') in *.
  set (sb := consume_task 0 (set_dd sa depth) r') in *.
  rewrite C1. cbn [set_dd t_dd t_stack t_sc fst snd].
  rewrite (N.add_1_r depth), N.pred_succ.
  split; [|split].
  - rewrite events_warn_app by apply warn_of_warn. unfold events_of_line, mk.
    cbn [l_kind l_task l_indent l_name l_dur map core_of e_open e_task e_indent e_name e_dur app].
    f_equal. f_equal. f_equal. f_equal.
    replace (t_stack ts3) with (t_stack sb) by (rewrite <- Hs3; reflexivity).
    replace (t_sc ts2 - 1) with (t_sc sb); [reflexivity|].
    rewrite C3, Hsc. clear. generalize (t_sc ts2). intros n. lia.
  - unfold STR at 1. unfold consume. cbn [g_tasks]. rewrite map_tupd. fold (STR g2).
    assert (HS2 : STR g2 = tupd (STR g) i (set_dd sa depth)).
    { unfold g2. rewrite STR_tset, STR_set_sj. unfold STR, consume. cbn [g_tasks]. rewrite map_tupd, tupd_tupd. reflexivity. }
    rewrite HS2, !tupd_tupd. f_equal.
    rewrite Hget2, (consume_inh_irrelevant (inherit tasks g2 i) 0 (set_dd ts2 depth) r' Hset2'). fold ts3. rewrite Hs3.
    destruct sb as [st3 sc3 dd3 fd3 stk3 t3 tl3 or3 us3 lo3 lp3 ld3]. cbn [t_dd] in C2. subst dd3. reflexivity.
  - destruct sj2; reflexivity.
Qed.

Lemma length_leaf_step c tasks g i r r' : length (g_tasks (snd (leaf_step c tasks g i r r'))) = length (g_tasks g).
Proof.
  unfold leaf_step. destruct (fixup_entry c r _ _ _) as [ts2 sj]. cbn [snd].
  unfold consume, tset, set_sj. cbn [g_tasks]. rewrite !length_tupd. reflexivity.
Qed.

Lemma leaf_cond_true c i r tl : leaf_cond c i r tl = true ->
  r_type r = ENTRY /\ no_fold_id (r_addr r) = false /\ exists r' tl', tl = (i, r') :: tl' /\ r_type r' = EXIT.
Proof.
  unfold leaf_cond. destruct (r_type r); try discriminate.
  destruct tl as [|[j r'] tl']; [discriminate|]. intros H.
  apply andb_true_iff in H. destruct H as [H H5]. apply andb_true_iff in H. destruct H as [H H4].
  apply andb_true_iff in H. destruct H as [H H3].
  apply andb_true_iff in H. destruct H as [H1 H2]. apply Nat.eqb_eq in H2. subst j.
  split; [reflexivity|]. split; [apply negb_true_iff in H5; exact H5|]. exists r', tl'. split; [reflexivity|].
  unfold is_exit in H4. destruct (r_type r'); try discriminate; reflexivity.
Qed.

(* with or without folding, the core events are those of the unfolded run on stripped states
   (for streams without longjmp(): a pending longjmp correction would move the depth between the
   two halves of a folded leaf) *)
Lemma run_core c forks tasks : c_forks c = forks -> forall n l g,
  (length l <= n)%nat -> Forall (fun p => (fst p < length (g_tasks g))%nat) l ->
  no_longjmp l -> ljp_clear (STR g) ->
  map core_of (events_of (fst (run c tasks l g))) = crun forks tasks l (STR g) (SJ g).
Proof.
  intros Hfk. induction n as [|n IH]; intros l g Hn Hb Hnl Hclr.
  - destruct l; [reflexivity|cbn in Hn; lia].
  - destruct l as [|[i r] tl]; [reflexivity|].
    inversion Hb as [|? ? Hi Hb']; subst. cbn [fst] in Hi. cbn [length] in Hn.
    inversion Hnl as [|? ? Hr Hnl']; subst. cbn [snd] in Hr.
    assert (Hlj0 : t_ljp (tget g i) = false).
    { pose proof (ljp_clear_nth _ i Hclr) as H. rewrite nth_STR in H. exact H. }
    destruct (leaf_cond c i r tl) eqn:Hlc.
    + destruct (leaf_cond_true _ _ _ _ Hlc) as (Hty & Hnf & r' & tl' & -> & Hty').
      rewrite (run_cons_leaf _ _ _ _ _ _ _ _ Hlc).
      pose proof (leaf_core c (c_forks c) tasks g i r r' Hi eq_refl Hty Hty' Hnf Hlj0) as HL. cbn zeta in HL.
      cbn [crun].
      inversion Hnl' as [|? ? Hr' Hnl'']; subst. cbn [snd] in Hr'.
      pose proof (cstep_ljp (c_forks c) i (inh_of tasks (STR g) i) (SJ g) (nth i (STR g) tstate0) r Hr
                            (ljp_clear_nth _ i Hclr)) as Hj1.
      destruct (cstep (c_forks c) i (inh_of tasks (STR g) i) (SJ g) (nth i (STR g) tstate0) r) as [[e1 ta] sj1].
      cbn [fst snd] in Hj1.
      assert (Hclr1 : ljp_clear (tupd (STR g) i ta)) by (apply ljp_clear_tupd; assumption).
      pose proof (cstep_ljp (c_forks c) i (inh_of tasks (tupd (STR g) i ta) i) sj1 (nth i (tupd (STR g) i ta) tstate0) r' Hr'
                            (ljp_clear_nth _ i Hclr1)) as Hj2.
      destruct (cstep (c_forks c) i (inh_of tasks (tupd (STR g) i ta) i) sj1 (nth i (tupd (STR g) i ta) tstate0) r') as [[e2 tb] sj2].
      cbn [fst snd] in Hj2.
      destruct HL as (HL1 & HL2 & HL3).
      pose proof (length_leaf_step c tasks g i r r') as Hlen.
      destruct (leaf_step c tasks g i r r') as [ls g'] eqn:Els. cbn [fst snd] in *.
      inversion Hb' as [|? ? _ Hb'']; subst.
      specialize (IH tl' g'). destruct (run c tasks tl' g') as [out g''] eqn:Er. cbn [fst] in *.
      rewrite events_of_app, map_app, HL1, IH, HL2, ?HL3, <- app_assoc; [reflexivity|cbn [length] in Hn; lia| | |].
      * rewrite Hlen. exact Hb''.
      * exact Hnl''.
      * rewrite HL2. apply ljp_clear_tupd; assumption.
    + rewrite (run_cons_step _ _ _ _ _ _ Hlc).
      pose proof (step_core c (c_forks c) tasks g i r Hi eq_refl) as HS. cbn zeta in HS.
      pose proof (length_step c tasks g i r) as Hlen.
      cbn [crun].
      pose proof (cstep_ljp (c_forks c) i (inh_of tasks (STR g) i) (SJ g) (nth i (STR g) tstate0) r Hr
                            (ljp_clear_nth _ i Hclr)) as Hj1.
      destruct (cstep (c_forks c) i (inh_of tasks (STR g) i) (SJ g) (nth i (STR g) tstate0) r) as [[e1 ta] sj1].
      cbn [fst snd] in *. destruct HS as (HS1 & HS2 & HS3).
      destruct (step c tasks g i r) as [ls g'] eqn:Es. cbn [fst snd] in *.
      specialize (IH tl g'). destruct (run c tasks tl g') as [out g''] eqn:Er. cbn [fst] in *.
      rewrite events_of_app, map_app, HS1, IH, HS2, ?HS3; [reflexivity|lia| | |].
      * rewrite Hlen. exact Hb'.
      * exact Hnl'.
      * rewrite HS2. apply ljp_clear_tupd; assumption.
Qed.

Definition no_longjmp_tasks (tasks : list task) : bool :=
  forallb (fun t => forallb (fun r => negb (is_longjmp_id (r_addr r))) (k_recs t)) tasks.

(* C06: folding a leaf call into one line never changes the calls shown *)
Theorem fold_is_presentation forks sel tasks : no_longjmp_tasks tasks = true ->
  map core_of (events_of (fst (replay_raw (mkcfg true forks) sel tasks))) =
  map core_of (events_of (fst (replay_raw (mkcfg false forks) sel tasks))).
Proof.
  intros Hnl. unfold replay_raw.
  assert (Hb : Forall (fun p => (fst p < length (g_tasks (init_g sel tasks)))%nat) (merge (mask_queues sel tasks 0))).
  { pose proof (merge_tags_valid (mask_queues sel tasks 0)) as H.
    rewrite mask_queues_mask, length_mask, map_length in H. unfold init_g. cbn [g_tasks]. rewrite map_length.
    rewrite mask_queues_mask. exact H. }
  assert (Hn : no_longjmp (merge (mask_queues sel tasks 0))).
  { apply Forall_forall. intros [i r] Hin. cbn [snd].
    apply in_proj_early in Hin. rewrite merge_preserves_task_order, mask_queues_mask, nth_mask in Hin. cbn [Nat.add] in Hin.
    destruct (selected sel i); [|destruct Hin].
    destruct (Nat.lt_ge_cases i (length tasks)) as [Hlt|Hge].
    - rewrite (nth_indep _ [] (k_recs (mktask None []))) in Hin by (rewrite map_length; exact Hlt).
      rewrite map_nth in Hin. unfold no_longjmp_tasks in Hnl. rewrite forallb_forall in Hnl.
      specialize (Hnl _ (nth_In tasks (mktask None []) Hlt)). rewrite forallb_forall in Hnl.
      apply negb_true_iff. apply Hnl. exact Hin.
    - rewrite nth_overflow in Hin by (rewrite map_length; exact Hge). destruct Hin. }
  assert (Hc : ljp_clear (STR (init_g sel tasks))).
  { unfold ljp_clear, STR, init_g. cbn [g_tasks]. rewrite map_map. apply Forall_forall. intros x Hx.
    apply in_map_iff in Hx. destruct Hx as (t & <- & _). reflexivity. }
  rewrite (run_core (mkcfg true forks) forks tasks eq_refl _ _ _ (le_n _) Hb Hn Hc).
  rewrite (run_core (mkcfg false forks) forks tasks eq_refl _ _ _ (le_n _) Hb Hn Hc).
  reflexivity.
Qed.

(* ------------------------------------------------------------------ putting it together *)
Lemma merged_bounds sel tasks :
  Forall (fun p => (fst p < length (S0 sel tasks))%nat) (merge (mask_queues sel tasks 0)).
Proof.
  pose proof (merge_tags_valid (mask_queues sel tasks 0)) as H.
  rewrite mask_queues_mask, length_mask, map_length in H. rewrite length_S0.
  rewrite mask_queues_mask. exact H.
Qed.

Lemma nth_recs tasks i : nth i (map k_recs tasks) [] = k_recs (nth i tasks (mktask None [])).
Proof. change (@nil rec) with (k_recs (mktask None [])). apply map_nth. Qed.

Lemma proj_merged sel tasks i :
  proj i (merge (mask_queues sel tasks 0)) = if selected sel i then k_recs (nth i tasks (mktask None [])) else [].
Proof. rewrite merge_preserves_task_order, mask_queues_mask, nth_mask. cbn [Nat.add]. rewrite nth_recs. reflexivity. Qed.

Lemma merged_wfrem sel tasks : forallb wf_task tasks = true ->
  forall i, wfrem (nth i (S0 sel tasks) sstate0) (proj i (merge (mask_queues sel tasks 0))).
Proof.
  intros Hwf i. rewrite proj_merged. rewrite nth_S0.
  destruct (selected sel i); [|exact I].
  destruct (Nat.lt_ge_cases i (length tasks)) as [Hlt|Hge].
  - apply wf_task_wfrem; [reflexivity|]. rewrite forallb_forall in Hwf. apply Hwf. apply nth_In. exact Hlt.
  - rewrite nth_overflow by exact Hge. exact I.
Qed.

(* C06, calls exact: a selected task without a fork()ing parent whose stream is the trace of a
   call forest followed by still-open calls is shown, within the lines of that task, as exactly
   those calls: indentation = nesting depth, duration = exit - entry, open calls without `}` *)
Theorem task_calls_exact forks sel tasks i d f t :
  forallb wf_task tasks = true -> selected sel i = true ->
  k_parent (nth i tasks (mktask None [])) = None ->
  k_recs (nth i tasks (mktask None [])) = flat_forest d f ++ flat_tail d t ->
  filter (of_task i) (events_of (fst (replay_raw (mkcfg false forks) sel tasks))) =
  render_forest i 0 f ++ render_tail i 0 t.
Proof.
  intros Hwf Hsel Hpar Hrecs.
  rewrite (replay_refines_spec forks sel tasks Hwf).
  assert (Ho : s_orphan (nth i (S0 sel tasks) sstate0) = false).
  { rewrite nth_S0. cbn [s_orphan]. unfold orphan_of. rewrite Hpar. reflexivity. }
  rewrite (srun_task forks tasks i _ _ (merged_bounds sel tasks) (merged_wfrem sel tasks Hwf) (or_introl (conj Hpar Ho))).
  rewrite proj_merged, Hsel, Hrecs. rewrite nth_S0. unfold task_spec. cbn [s_set s_dd].
  rewrite spec_forest, spec_tail. reflexivity.
Qed.

Lemma wf_stream_no_longjmp : forall rs d last, wf_stream d last rs = true ->
  forallb (fun r => negb (is_longjmp_id (r_addr r))) rs = true.
Proof.
  induction rs as [|r rs IH]; intros d last H; [reflexivity|]. cbn [wf_stream forallb] in *.
  apply andb_true_iff in H. destruct H as [H1 H2]. apply andb_true_iff in H1. destruct H1 as [_ Hp].
  destruct (plain_not_special _ Hp) as (_ & _ & C). rewrite C. cbn [negb andb].
  destruct (r_type r); try discriminate.
  - apply andb_true_iff in H2. destruct H2 as [_ H2]. exact (IH _ _ H2).
  - apply andb_true_iff in H2. destruct H2 as [_ H2]. exact (IH _ _ H2).
Qed.

Lemma wf_no_longjmp tasks : forallb wf_task tasks = true -> no_longjmp_tasks tasks = true.
Proof.
  intros H. unfold no_longjmp_tasks. apply forallb_forall. intros t Ht. rewrite forallb_forall in H. specialize (H t Ht).
  unfold wf_task in H. destruct (k_recs t) as [|r rs] eqn:E; [reflexivity|]. exact (wf_stream_no_longjmp _ _ _ H).
Qed.

(* the same through the folded (default) view, on the core of the events *)
Theorem task_calls_exact_folded forks sel tasks i d f t :
  forallb wf_task tasks = true -> selected sel i = true ->
  k_parent (nth i tasks (mktask None [])) = None ->
  k_recs (nth i tasks (mktask None [])) = flat_forest d f ++ flat_tail d t ->
  filter (fun c : core => Nat.eqb (snd (fst (fst (fst c)))) i)
         (map core_of (events_of (fst (replay_raw (mkcfg true forks) sel tasks)))) =
  map core_of (render_forest i 0 f ++ render_tail i 0 t).
Proof.
  intros Hwf Hsel Hpar Hrecs. rewrite (fold_is_presentation _ _ _ (wf_no_longjmp _ Hwf)).
  rewrite <- (task_calls_exact forks sel tasks i d f t Hwf Hsel Hpar Hrecs).
  generalize (events_of (fst (replay_raw (mkcfg false forks) sel tasks))).
  induction l as [|e l IH]; [reflexivity|]. cbn [map filter]. unfold of_task at 1. unfold core_of at 1. cbn [fst snd].
  destruct (Nat.eqb (e_task e) i); cbn [map]; rewrite IH; reflexivity.
Qed.

(* a forked child: its first record takes over the display depth the parent had inside fork() *)
Theorem fork_child_continues forks tasks S i r tl p :
  k_parent (nth i tasks (mktask None [])) = Some p ->
  s_set (nth i S sstate0) = false -> s_fork (nth p S sstate0) <> 0 ->
  exists rest, srun forks tasks ((i, r) :: tl) S =
    match r_type r with
    | ENTRY => mkev true i (s_fork (nth p S sstate0)) (r_addr r) 0 (r_time r) :: rest
    | EXIT => match N.to_nat (first_depth r) with
              | O => []
              | _ => mkev false i (N.pred (s_fork (nth p S sstate0))) (r_addr r) 0 (r_time r) :: rest
              end
    | LOST => []
    end.
Proof.
  intros Hp Hset Hfk. cbn [srun]. unfold s_inherit, s_first. rewrite Hp, Hset.
  apply N.eqb_neq in Hfk. rewrite Hfk. cbn [s_dd s_stk s_fork].
  destruct (r_type r); [eexists; reflexivity| |exists []; reflexivity].
  destruct (N.to_nat (first_depth r)); cbn [repeat]; [exists []; reflexivity|].
  rewrite N.sub_diag. eexists; reflexivity.
Qed.

(* timestamps of the printed lines never decrease when every task's own times do not *)
Lemma StronglySorted_map {A B} (f : A -> B) (R : B -> B -> Prop) l :
  Sorted.StronglySorted (fun a b => R (f a) (f b)) l -> Sorted.StronglySorted R (map f l).
Proof.
  induction 1 as [|a l Hs IH Ha]; cbn; constructor; [exact IH|].
  apply Forall_forall. intros b Hb. apply in_map_iff in Hb. destruct Hb as (x & <- & Hx).
  rewrite Forall_forall in Ha. apply Ha. exact Hx.
Qed.

Lemma in_proj i r l : In (i, r) l -> In r (proj i l).
Proof.
  intros H. unfold proj. apply in_map_iff. exists (i, r). split; [reflexivity|].
  apply filter_In. split; [exact H|]. cbn. apply Nat.eqb_refl.
Qed.

Definition lost_free (tasks : list task) : bool := forallb (fun t => negb (has_lost t)) tasks.

Lemma no_lost_merged sel tasks : lost_free tasks = true -> no_lost (merge (mask_queues sel tasks 0)).
Proof.
  intros H. apply Forall_forall. intros [i r] Hin. cbn [snd].
  apply in_proj in Hin. rewrite proj_merged in Hin.
  destruct (selected sel i); [|destruct Hin].
  destruct (Nat.lt_ge_cases i (length tasks)) as [Hlt|Hge].
  - unfold lost_free in H. rewrite forallb_forall in H. specialize (H _ (nth_In tasks (mktask None []) Hlt)).
    apply negb_true_iff in H. unfold has_lost in H.
    destruct (is_lost r) eqn:E; [|reflexivity].
    assert (existsb is_lost (k_recs (nth i tasks (mktask None []))) = true) by (apply existsb_exists; exists r; auto).
    congruence.
  - rewrite nth_overflow in Hin by exact Hge. destruct Hin.
Qed.

Theorem lines_in_time_order forks sel tasks :
  lost_free tasks = true ->
  Forall time_sorted (map k_recs tasks) ->
  let ls := filter not_warn (fst (replay_raw (mkcfg false forks) sel tasks)) in
  map tag_of_line ls = map tag_of_rec (merge (mask_queues sel tasks 0)) /\
  Sorted.StronglySorted N.le (map l_time ls).
Proof.
  intros Hnl Hs ls. unfold ls, replay_raw.
  pose proof (run_nofold_tags (mkcfg false forks) tasks eq_refl (merge (mask_queues sel tasks 0)) (init_g sel tasks)
                              (no_lost_merged sel tasks Hnl)) as Ht.
  split; [exact Ht|].
  replace (map l_time (filter not_warn (fst (run (mkcfg false forks) tasks (merge (mask_queues sel tasks 0)) (init_g sel tasks)))))
    with (map snd (map tag_of_line (filter not_warn (fst (run (mkcfg false forks) tasks (merge (mask_queues sel tasks 0)) (init_g sel tasks))))))
    by (rewrite map_map; reflexivity).
  rewrite Ht, map_map. apply StronglySorted_map. cbn [tag_of_rec snd].
  apply merge_times_nondecreasing.
  rewrite mask_queues_mask. clear -Hs. generalize O. induction Hs as [|q rest Hq _ IH]; intros k; cbn [mask]; constructor.
  - destruct (selected sel k); [exact Hq|constructor].
  - apply IH.
Qed.

(* ------------------------------------------------------------------ --tid *)
Lemma mask_all : forall qs k, mask (fun _ => true) qs k = qs.
Proof. induction qs as [|q rest IH]; intros k; cbn; [reflexivity|]. rewrite IH. reflexivity. Qed.

Lemma mask_queues_none tasks : mask_queues None tasks 0 = map k_recs tasks.
Proof. rewrite mask_queues_mask. apply mask_all. Qed.

(* selection closed under "parent of a selected forked child" *)
Definition parent_closed (Sel : nat -> bool) (tasks : list task) : Prop :=
  forall i p, Sel i = true -> k_parent (nth i tasks (mktask None [])) = Some p -> Sel p = true.

Definition s_after (forks : list N) (ss : sstate) (r : rec) : sstate :=
  match r_type r with
  | ENTRY => mkss true (s_dd ss + 1) (if existsb (N.eqb (r_addr r)) forks then s_dd ss + 1 else s_fork ss)
                  (r_time r :: s_stk ss) (s_orphan ss)
  | EXIT => mkss true (N.pred (s_dd ss)) (s_fork ss) (tl (s_stk ss)) (s_orphan ss)
  | LOST => ss
  end.

Lemma sstep_explicit forks tasks S i r rest tl : wfrem (nth i S sstate0) (r :: rest) ->
  let ss := s_first (s_inherit tasks S i) (nth i S sstate0) r in
  exists ev,
    srun forks tasks ((i, r) :: tl) S = ev :: srun forks tasks tl (supd S i (s_after forks ss r)) /\
    wfrem (s_after forks ss r) rest /\ e_task ev = i.
Proof.
  intros Hwf ss.
  destruct (wfrem_first (s_inherit tasks S i) _ _ _ Hwf) as (last & Hwf1 & Hle & Hlast & Hbound).
  fold ss in Hwf1, Hle. cbn [srun]. fold ss. unfold s_after. cbn [wf_stream] in *.
  destruct (r_type r) eqn:Hty; [| |rewrite !andb_false_r in Hwf1; discriminate].
  - eexists. split; [reflexivity|]. split; [|reflexivity].
    unfold wfrem. cbn [s_set s_stk]. exists (r_time r). split.
    + cbn [length]. replace (N.of_nat (Datatypes.S (length (s_stk ss)))) with (N.of_nat (length (s_stk ss)) + 1) by lia. lia.
    + constructor; [lia|]. eapply Forall_impl; [|exact Hle]. cbn. intros; lia.
  - destruct (s_stk ss) as [|t0 stk'] eqn:Hstk; [cbn [length] in Hwf1; lia|].
    inversion Hle as [|? ? Ht0 Hle']; subst.
    eexists. split; [reflexivity|]. split; [|reflexivity].
    unfold wfrem. cbn [s_set s_stk List.tl]. exists (r_time r). split.
    + cbn [length] in Hwf1. replace (N.of_nat (Datatypes.S (length stk')) - 1) with (N.of_nat (length stk')) in Hwf1 by lia. lia.
    + eapply Forall_impl; [|exact Hle']. cbn. intros; lia.
Qed.

(* the calls of the selected tasks are shown exactly as in the full view *)
Lemma srun_keep forks tasks Sel : parent_closed Sel tasks -> forall l St St',
  length St = length St' ->
  Forall (fun p => (fst p < length St)%nat) l ->
  (forall j, wfrem (nth j St sstate0) (proj j l)) ->
  (forall i, Sel i = true -> nth i St sstate0 = nth i St' sstate0) ->
  filter (fun e => Sel (e_task e)) (srun forks tasks l St) = srun forks tasks (keep Sel l) St'.
Proof.
  intros Hpc. induction l as [|[j r] tl IH]; intros St St' Hlen Hb Hwf Hag; [reflexivity|].
  inversion Hb as [|? ? Hj Hb']; subst. cbn [fst] in Hj.
  pose proof (Hwf j) as Hwj. rewrite proj_cons_same in Hwj.
  destruct (sstep_explicit forks tasks St j r (proj j tl) tl Hwj) as (ev & E1 & Hw' & Etask).
  set (ss := s_first (s_inherit tasks St j) (nth j St sstate0) r) in *.
  assert (Hwf' : forall k, wfrem (nth k (supd St j (s_after forks ss r)) sstate0) (proj k tl)).
  { intros k. rewrite nth_supd by assumption. destruct (Nat.eqb k j) eqn:Ekj.
    - apply Nat.eqb_eq in Ekj. subst k. exact Hw'.
    - apply Nat.eqb_neq in Ekj. specialize (Hwf k). rewrite proj_cons_other in Hwf by assumption. exact Hwf. }
  rewrite E1. cbn [filter]. rewrite Etask.
  unfold keep. cbn [filter fst]. fold (keep Sel tl).
  destruct (Sel j) eqn:Esj.
  - (* a selected task: both runs make the same step *)
    assert (Hinh : s_inherit tasks St j = s_inherit tasks St' j).
    { unfold s_inherit. destruct (k_parent (nth j tasks (mktask None []))) as [p|] eqn:Ep; [|reflexivity].
      rewrite (Hag p (Hpc j p Esj Ep)). reflexivity. }
    assert (Hwj' : wfrem (nth j St' sstate0) (r :: proj j tl)) by (rewrite <- (Hag j Esj); exact Hwj).
    destruct (sstep_explicit forks tasks St' j r (proj j tl) (keep Sel tl) Hwj') as (ev' & E1' & _ & _).
    rewrite <- Hinh, <- (Hag j Esj) in E1'. fold ss in E1'.
    rewrite E1'.
    assert (ev = ev').
    { cbn [srun] in E1, E1'. rewrite <- ?Hinh, <- ?(Hag j Esj) in E1'. fold ss in E1, E1'.
      destruct (r_type r); [inversion E1; inversion E1'; congruence| |discriminate].
      destruct (s_stk ss); [discriminate|inversion E1; inversion E1'; congruence]. }
    subst ev'. f_equal. apply IH.
    + rewrite !length_supd. exact Hlen.
    + rewrite length_supd. exact Hb'.
    + exact Hwf'.
    + intros i Hi. assert (Hj' : (j < length St')%nat) by lia.
      rewrite !nth_supd by assumption. destruct (Nat.eqb i j); [reflexivity|apply Hag; exact Hi].
  - (* an unselected task: its line disappears, nobody else is affected *)
    apply IH.
    + rewrite length_supd. exact Hlen.
    + rewrite length_supd. exact Hb'.
    + exact Hwf'.
    + intros i Hi. rewrite nth_supd by assumption.
      destruct (Nat.eqb i j) eqn:Eij; [apply Nat.eqb_eq in Eij; congruence|apply Hag; exact Hi].
Qed.

(* C06, --tid: with a parent-closed selection of well-formed tasks, `replay --tid S` shows exactly
   the sub-sequence of the full view that belongs to the selected tasks - same lines, same
   indentation, same durations, same timestamps *)
Lemma orphan_none tasks t : orphan_of None tasks t = false.
Proof. unfold orphan_of. destruct (k_parent t); [|reflexivity]. cbn [selected negb]. apply andb_false_r. Qed.

Theorem tid_selects forks sel tasks :
  forallb wf_task tasks = true -> parent_closed (selected sel) tasks ->
  events_of (fst (replay_raw (mkcfg false forks) sel tasks)) =
  filter (fun e => selected sel (e_task e)) (events_of (fst (replay_raw (mkcfg false forks) None tasks))).
Proof.
  intros Hwf Hpc.
  rewrite (replay_refines_spec forks sel tasks Hwf), (replay_refines_spec forks None tasks Hwf).
  assert (Hag : forall i, selected sel i = true -> nth i (S0 None tasks) sstate0 = nth i (S0 sel tasks) sstate0).
  { intros i Hi. rewrite !nth_S0, orphan_none. f_equal. unfold orphan_of.
    destruct (k_parent (nth i tasks (mktask None []))) as [p|] eqn:Ep; [|reflexivity].
    rewrite (Hpc i p Hi Ep). cbn [negb]. symmetry. apply andb_false_r. }
  rewrite (srun_keep forks tasks (selected sel) Hpc _ (S0 None tasks) (S0 sel tasks)
             (eq_trans (length_S0 None tasks) (eq_sym (length_S0 sel tasks)))
             (merged_bounds None tasks) (merged_wfrem None tasks Hwf) Hag).
  rewrite mask_queues_none, mask_queues_mask, merge_mask. reflexivity.
Qed.

(* ... and a guard is still needed.  A forked child selected without its parent continues at its
   inherited STACK depth (fstack_account_time clears display_depth_set when the parent reader is
   not selected); in the full view it continues at its parent's DISPLAY depth.  The two differ when
   the parent itself is displayed with an offset (its stream starts at depth 2 here). *)
Definition tid_witness_tasks : list task :=
  [ mktask None [mkrec 1000 ENTRY 0 1; mkrec 1100 ENTRY 1 2; mkrec 1200 ENTRY 2 4; mkrec 1300 EXIT 2 4;
                 mkrec 1400 EXIT 1 2; mkrec 1500 EXIT 0 1];
    mktask (Some 0%nat) [mkrec 1250 EXIT 2 4; mkrec 1260 ENTRY 2 3; mkrec 1270 EXIT 2 3; mkrec 1280 EXIT 1 2] ].
Definition tid_witness_offset : list task :=
  [ mktask None [mkrec 1000 ENTRY 2 1; mkrec 1200 ENTRY 3 4; mkrec 1300 EXIT 3 4; mkrec 1500 EXIT 2 1];
    mktask (Some 0%nat) [mkrec 1250 EXIT 3 4; mkrec 1260 ENTRY 3 3; mkrec 1270 EXIT 3 3; mkrec 1280 EXIT 2 1] ].

Lemma tid_child_only_refuted :
  forallb wf_task tid_witness_offset = true /\
  events_of (fst (replay_raw (mkcfg false [4]) (Some [1%nat]) tid_witness_offset)) <>
  filter (fun e => selected (Some [1%nat]) (e_task e))
         (events_of (fst (replay_raw (mkcfg false [4]) None tid_witness_offset))).
Proof. split; [vm_compute; reflexivity|]. vm_compute. intros H. discriminate H. Qed.

(* the common case: the parent is displayed from depth 0, then the child alone is shown exactly as
   in the full view (the witness of the former defect tid-child-without-parent) *)
Example tid_child_alone_agrees :
  events_of (fst (replay_raw (mkcfg false [4]) (Some [1%nat]) tid_witness_tasks)) =
  filter (fun e => selected (Some [1%nat]) (e_task e))
         (events_of (fst (replay_raw (mkcfg false [4]) None tid_witness_tasks))).
Proof. vm_compute. reflexivity. Qed.

(* ------------------------------------------------------------------ presentation passes *)
(* print_time_unit is exact (and the identity on our encoding) below one millisecond *)
Theorem fmt_time_exact d : d < 1000000 -> fmt_time d = d.
Proof.
  intros H. unfold fmt_time. destruct (d =? 0) eqn:E0; [lia|].
  replace (d <? 9223372036854775808) with true by lia.
  unfold time_limits, UV.Gen.TimeUnit.TIME_UNIT_LIMITS. cbn [fmt_loop].
  assert (Hd : d / 1000 < 1000) by (apply N.div_lt_upper_bound; lia).
  replace (d / 1000 <? 1000) with true by lia.
  replace (999 <? d / 1000) with false by lia.
  pose proof (N.div_mod d 1000). lia.
Qed.

Definition fmt_ev (e : event) : event :=
  mkev (e_open e) (e_task e) (e_indent e) (e_name e) (fmt_time (e_dur e)) (e_time e).

Lemma fmt_time_0 : fmt_time 0 = 0. Proof. reflexivity. Qed.

Theorem events_fmt ls : events_of (map fmt_line ls) = map fmt_ev (events_of ls).
Proof.
  unfold events_of. induction ls as [|l ls IH]; [reflexivity|]. cbn [map flat_map]. rewrite IH, map_app. f_equal.
  unfold events_of_line, fmt_line. cbn [l_kind l_task l_indent l_name l_dur l_time].
  destruct (l_kind l); reflexivity.
Qed.

(* --task-newline only inserts blank lines *)
Definition not_blank (l : line) : bool := match l_kind l with KBlank => false | _ => true end.

Theorem task_newline_only_blanks : forall ls prev,
  forallb not_blank ls = true -> filter not_blank (task_newline prev ls) = ls.
Proof.
  induction ls as [|l ls IH]; intros prev H; [reflexivity|].
  cbn [forallb] in H. apply andb_true_iff in H. destruct H as [Hl Hr].
  cbn [task_newline]. unfold not_blank in Hl.
  destruct (l_kind l) eqn:Ek; try discriminate;
    try (cbn [filter]; unfold not_blank at 1; rewrite Ek; rewrite IH by assumption; reflexivity);
    (destruct prev as [p|]; [destruct (Nat.eqb p (l_task l))|]; cbn [filter]; unfold not_blank at 1; cbn [blank l_kind];
     try (unfold not_blank at 1); rewrite ?Ek; rewrite IH by assumption; reflexivity).
Qed.

Theorem task_newline_events : forall ls prev, events_of (task_newline prev ls) = events_of ls.
Proof.
  unfold events_of. induction ls as [|l ls IH]; intros prev; [reflexivity|].
  cbn [task_newline].
  destruct (l_kind l) eqn:Ek;
    try (cbn [flat_map]; rewrite IH; reflexivity);
    (destruct prev as [p|]; [destruct (Nat.eqb p (l_task l))|]; cbn [flat_map]; rewrite IH; reflexivity).
Qed.

(* -f: a field list only blanks out columns; kind, indentation and name are never affected *)
Definition ev_view (f : fields) (e : event) : event :=
  mkev (e_open e) (if fd_tid f then e_task e else O) (e_indent e) (e_name e)
       (if fd_dur f then e_dur e else 0) (if fd_time f then e_time e else 0).

Theorem fields_only_mask f ls : events_of (map (view_line f) ls) = map (ev_view f) (events_of ls).
Proof.
  unfold events_of. induction ls as [|l ls IH]; [reflexivity|]. cbn [map flat_map]. rewrite IH, map_app. f_equal.
  unfold events_of_line, view_line.
  destruct (l_kind l) eqn:Ek; cbn [l_kind l_task l_indent l_name l_dur l_time]; rewrite ?Ek; cbn [map]; unfold ev_view; cbn [e_open e_task e_indent e_name e_dur e_time];
    try reflexivity; destruct (fd_dur f), (fd_time f); reflexivity.
Qed.

(* --column-view only adds a per-task offset: the checker's inverse recovers every line *)
Lemma lookup_shift cols l n : lookup_col cols (l_task (shift l n)) = lookup_col cols (l_task l).
Proof. reflexivity. Qed.

Definition call_line (l : line) : bool := match l_kind l with KOpen | KLeaf | KClose => true | _ => false end.
Lemma uncolumn_shift off cols next l n rest :
  call_line l = true ->
  uncolumn off cols next (shift l n :: rest) =
  match lookup_col cols (l_task l) with
  | Some c => mkline (l_kind l) (l_task l) (l_indent l + n - c * off) (l_name l) (l_dur l) (l_addr l) (l_time l) (l_delta l) (l_elapsed l)
                :: uncolumn off cols next rest
  | None => mkline (l_kind l) (l_task l) (l_indent l + n - next * off) (l_name l) (l_dur l) (l_addr l) (l_time l) (l_delta l) (l_elapsed l)
                :: uncolumn off ((l_task l, next) :: cols) (next + 1) rest
  end.
Proof.
  unfold call_line. intros H1. cbn [uncolumn]. unfold shift. cbn [l_kind l_task l_indent l_name l_dur l_addr l_time l_delta l_elapsed].
  destruct (l_kind l); try discriminate; reflexivity.
Qed.

Theorem column_view_roundtrip off : forall ls cols next,
  uncolumn off cols next (column_view off cols next ls) = ls.
Proof.
  induction ls as [|l ls IH]; intros cols next; [reflexivity|].
  cbn [column_view].
  destruct (l_kind l) eqn:Ek;
    try (cbn [uncolumn]; rewrite Ek; rewrite IH; reflexivity);
    (destruct (lookup_col cols (l_task l)) as [c|] eqn:El;
     rewrite uncolumn_shift by (unfold call_line; rewrite Ek; reflexivity);
     rewrite El, IH; f_equal; destruct l; cbn in *; f_equal; lia).
Qed.

(* ------------------------------------------------------------------ non-vacuity *)
Definition witness_forest : list call := [Call 1 1000 1500 [Call 2 1100 1400 [Call 4 1200 1300 []]]].

Example calls_exact_hypotheses_hold :
  forallb wf_task tid_witness_tasks = true /\ selected None 0 = true /\
  k_parent (nth 0 tid_witness_tasks (mktask None [])) = None /\
  k_recs (nth 0 tid_witness_tasks (mktask None [])) = flat_forest 0 witness_forest ++ flat_tail 0 TEnd /\
  Forall time_sorted (map k_recs tid_witness_tasks).
Proof.
  repeat split; try (vm_compute; reflexivity).
  repeat constructor; vm_compute; discriminate.
Qed.

Example tid_selects_hypotheses_hold :
  forallb wf_task tid_witness_tasks = true /\ parent_closed (selected (Some [0%nat])) tid_witness_tasks.
Proof.
  split; [vm_compute; reflexivity|]. intros i p Hs Hp. cbn in Hs.
  destruct i as [|[|i]]; cbn in Hs, Hp; discriminate.
Qed.

Example fork_child_example :
  map core_of (events_of (fst (replay_raw (mkcfg true [4]) None tid_witness_tasks))) =
  [ (true, 0%nat, 0, 1, 0); (true, 0%nat, 1, 2, 0); (true, 0%nat, 2, 4, 0);
    (false, 1%nat, 2, 0, 0);                       (* the child leaves fork() at its parent's depth *)
    (true, 1%nat, 2, 3, 0); (false, 1%nat, 2, 0, 10); (false, 1%nat, 1, 0, 30);
    (false, 0%nat, 2, 0, 100); (false, 0%nat, 1, 0, 300); (false, 0%nat, 0, 0, 500) ].
Proof. vm_compute. reflexivity. Qed.

(* regression (fix ea8f61a): task 1 is selected without its parent 0 and starts with the ENTRY of
   vfork(); its own child 2 continues at the depth that vfork() line is displayed at *)
Definition orphan_fork_tasks : list task :=
  [ mktask None [mkrec 1000 ENTRY 0 1; mkrec 1010 ENTRY 1 2; mkrec 1020 ENTRY 2 4; mkrec 1030 EXIT 2 4;
                 mkrec 1090 EXIT 1 2; mkrec 1100 EXIT 0 1];
    mktask (Some 0%nat) [mkrec 1025 ENTRY 3 5; mkrec 1040 EXIT 3 5; mkrec 1050 EXIT 2 4; mkrec 1060 EXIT 1 2];
    mktask (Some 1%nat) [mkrec 1035 EXIT 3 5; mkrec 1045 ENTRY 3 3; mkrec 1046 EXIT 3 3; mkrec 1055 EXIT 2 4] ].
Example orphan_fork_child_continues :
  map core_of (events_of (fst (replay_raw (mkcfg false [4; 5]) (Some [1%nat; 2%nat]) orphan_fork_tasks))) =
  [ (true, 1%nat, 3, 5, 0);                      (* vfork() { at the inherited stack depth 3 *)
    (false, 2%nat, 3, 0, 0);                     (* the grandchild leaves vfork() at depth 3 *)
    (false, 1%nat, 3, 0, 15); (true, 2%nat, 3, 3, 0); (false, 2%nat, 3, 0, 1);
    (false, 1%nat, 2, 0, 25); (false, 2%nat, 2, 0, 20); (false, 1%nat, 1, 0, 35) ].
Proof. vm_compute. reflexivity. Qed.

(* ------------------------------------------------------------------ LOST markers: nesting restarts at the depth field *)
Lemma consume_lost_set inh ts r : is_lost r = true -> t_lost (consume_task inh ts r) = true.
Proof.
  intros H. unfold consume_task. rewrite H, andb_true_r.
  destruct (t_lost (first_setup inh ts r)) eqn:E; [exact E|].
  unfold count. cbn [t_lost]. unfold account, is_lost in *. destruct (r_type r); try discriminate. reflexivity.
Qed.

Lemma consume_entry_fields inh ts r : t_set ts = true -> r_type r = ENTRY ->
  t_sc (consume_task inh ts r) = (if t_lost ts then r_depth r else t_sc ts) + 1 /\
  t_dd (consume_task inh ts r) = t_dd ts.
Proof.
  intros Hs Hty. destruct ts as [st sc dd fd stk t tl orp usc lost ljp ljd]. cbn [t_set] in Hs. subst st.
  unfold consume_task, first_setup, is_lost. rewrite Hty. cbn [t_set t_lost]. rewrite andb_false_r.
  unfold count, account, resync. rewrite Hty. cbn [t_lost]. destruct lost; cbn [t_sc t_dd]; split; reflexivity.
Qed.

Lemma consume_exit_fields inh ts r : t_set ts = true -> r_type r = EXIT ->
  (if t_lost ts then r_depth r + 1 else t_sc ts) = r_depth r + 1 ->
  t_sc (consume_task inh ts r) = r_depth r /\ t_dd (consume_task inh ts r) = t_dd ts.
Proof.
  intros Hs Hty Hb. destruct ts as [st sc dd fd stk t tl orp usc lost ljp ljd]. cbn [t_set t_lost t_sc] in Hs, Hb. subst st.
  unfold consume_task, first_setup, is_lost. rewrite Hty. cbn [t_set t_lost]. rewrite andb_false_r.
  unfold count, account, resync. rewrite Hty. cbn [t_lost t_sc].
  destruct lost; cbn [t_sc t_dd t_ljp t_ljd t_lost].
  - destruct (r_depth r + 1 =? 0) eqn:E0; [lia|]. cbn [t_sc t_dd t_ljp t_ljd].
    destruct (ljp && (r_depth r <=? ljd)); cbn [t_sc t_dd]; split; lia.
  - destruct (sc =? 0) eqn:E0; [lia|]. cbn [t_sc t_dd t_ljp t_ljd].
    destruct (ljp && (r_depth r <=? ljd)); cbn [t_sc t_dd]; split; lia.
Qed.

(* tracker state of a task vs. its reader state *)
Definition trk_ok (ts : tstate) (t : track) : Prop :=
  match t with
  | TNone => True
  | TPending => t_set ts = true /\ t_lost ts = true
  | TSynced d => t_set ts = true /\ t_lost ts = false /\ t_sc ts = d /\ t_dd ts = d
  end.
Definition TRel (g : gstate) (T : list track) : Prop :=
  length (g_tasks g) = length T /\ forall i, trk_ok (tget g i) (nth i T TNone).

Lemma nth_tkupd : forall l i x j, (i < length l)%nat ->
  nth j (tkupd l i x) TNone = if Nat.eqb j i then x else nth j l TNone.
Proof.
  induction l as [|h t IH]; intros i x j Hi; cbn in Hi; [lia|].
  destruct i as [|i]; destruct j as [|j]; cbn; try reflexivity. apply IH. lia.
Qed.
Lemma length_tkupd : forall l i x, length (tkupd l i x) = length l.
Proof. induction l as [|h t IH]; intros [|i] x; cbn; auto. Qed.

(* what a record that is not a LOST marker shows, in terms of the record *)
Definition shows (i : nat) (r : rec) (m : bool) (e : event) : Prop :=
  e_task e = i /\ e_open e = negb (is_exit r) /\ e_name e = r_addr r /\ e_time e = r_time r /\
  (m = true -> e_indent e = r_depth r).

Fixpoint aligned (l : list (nat * rec)) (ms : list bool) (es : list event) : Prop :=
  match l, ms with
  | [], _ => es = []
  | (i, r) :: tl, m :: ms' =>
      if is_lost r then aligned tl ms' es
      else match es with
           | e :: es' => shows i r m e /\ aligned tl ms' es'
           | [] => False
           end
  | _ :: _, [] => False
  end.

Lemma step_track forks tasks g T i r : TRel g T -> (i < length T)%nat ->
  let c := mkcfg false forks in
  let tm := track_step (nth i T TNone) r in
  TRel (snd (step c tasks g i r)) (tkupd T i (fst tm)) /\
  (if is_lost r then events_of (fst (step c tasks g i r)) = []
   else exists e, events_of (fst (step c tasks g i r)) = [e] /\ shows i r (snd tm) e).
Proof.
  intros [Hlen Hall] Hi c tm.
  assert (Hig : (i < length (g_tasks g))%nat) by lia.
  pose proof (Hall i) as Hti.
  assert (Hother : forall g' x t, g_tasks g' = tupd (g_tasks g) i x -> trk_ok x t -> TRel g' (tkupd T i t)).
  { intros g' x t Hg Hx. split; [rewrite Hg, length_tupd, length_tkupd; exact Hlen|].
    intros j. unfold tget. rewrite Hg, nth_tupd by assumption. rewrite nth_tkupd by assumption.
    destruct (Nat.eqb j i); [exact Hx|apply Hall]. }
  unfold step, is_lost, shows, is_exit. subst tm. unfold track_step.
  rewrite (tget_consume _ _ _ _ Hig).
  set (inh := inherit tasks g i). set (ts := tget g i) in *.
  destruct (r_type r) eqn:Hty; cbn [fst snd].
  - (* ENTRY *)
    cbn [g_sjd g_sjc g_first].
    set (ts1 := stamp (consume_task inh ts r) (r_time r)).
    set (depth := if t_lost ts then t_sc ts1 - 1 else t_dd ts1).
    pose proof (fixup_fields c r depth ts1 (g_sjd (consume tasks g i r), g_sjc (consume tasks g i r))) as HF.
    destruct (fixup_entry c r depth ts1 (g_sjd (consume tasks g i r), g_sjc (consume tasks g i r))) as [ts2 sj2].
    cbn [fst snd] in *. destruct HF as (F1 & F2 & F3 & F4 & F5 & F6 & F7 & F8 & F9 & F10).
    assert (Hset1 : t_set ts1 = true) by apply consume_set.
    assert (Hlost1 : t_lost ts1 = false) by (apply consume_lost_clear; unfold is_lost; rewrite Hty; reflexivity).
    split.
    + eapply Hother.
      * unfold tset, set_sj, consume. cbn [g_tasks]. rewrite tupd_tupd. reflexivity.
      * destruct (no_fold_id (r_addr r)) eqn:Enf; [exact I|].
        assert (Hupd : update_entry r depth ts2 sj2 = set_dd ts2 (depth + 1)).
        { unfold update_entry. unfold no_fold_id in Enf. apply orb_false_iff in Enf. destruct Enf as [A B]. rewrite A, B. reflexivity. }
        rewrite Hupd.
        destruct (nth i T TNone) as [| |d]; cbn [trk_ok fst] in *; [exact I| |].
        -- destruct Hti as [Hs Hl]. destruct (consume_entry_fields inh ts r Hs Hty) as [Fsc Fdd].
           cbn [set_dd t_set t_lost t_sc t_dd]. rewrite F1, F9, F2.
           unfold depth. rewrite Hl in *. unfold ts1. cbn [stamp t_sc]. rewrite Fsc.
           repeat split; try assumption; lia.
        -- destruct Hti as (Hs & Hl & Hsc & Hdd). destruct (consume_entry_fields inh ts r Hs Hty) as [Fsc Fdd].
           destruct (r_depth r =? d) eqn:Ed; cbn [trk_ok fst]; [|exact I].
           cbn [set_dd t_set t_lost t_sc t_dd]. rewrite F1, F9, F2.
           unfold depth. rewrite Hl in *. unfold ts1. cbn [stamp t_sc t_dd]. rewrite Fsc, Fdd.
           repeat split; try assumption; lia.
    + eexists. split.
      * rewrite events_warn_app by apply warn_of_warn. unfold events_of_line, mk. cbn [l_kind]. reflexivity.
      * cbn [l_task l_indent l_name l_time e_task e_open e_name e_time e_indent negb].
        repeat split; try reflexivity.
        -- rewrite F5. reflexivity.
        -- intros Hm. destruct (no_fold_id (r_addr r)) eqn:Enf; [cbn [snd] in Hm; discriminate|].
           destruct (nth i T TNone) as [| |d]; cbn [trk_ok snd] in *; [discriminate| |].
           ++ destruct Hti as [Hs Hl]. destruct (consume_entry_fields inh ts r Hs Hty) as [Fsc Fdd].
              unfold depth. rewrite Hl. unfold ts1. cbn [stamp t_sc]. rewrite Fsc, Hl. lia.
           ++ destruct Hti as (Hs & Hl & Hsc & Hdd). destruct (consume_entry_fields inh ts r Hs Hty) as [Fsc Fdd].
              destruct (r_depth r =? d) eqn:Ed; cbn [snd] in Hm; [|discriminate].
              unfold depth. rewrite Hl. unfold ts1. cbn [stamp t_dd]. rewrite Fdd. lia.
  - (* EXIT *)
    split.
    + eapply Hother.
      * unfold tset, consume. cbn [g_tasks]. rewrite tupd_tupd. reflexivity.
      * destruct (nth i T TNone) as [| |d]; cbn [trk_ok fst] in *; [exact I| |].
        -- destruct Hti as [Hs Hl].
           destruct (consume_exit_fields inh ts r Hs Hty) as [Fsc Fdd]; [rewrite Hl; reflexivity|]. rewrite Hl in *.
           cbn [set_dd stamp t_set t_lost t_sc t_dd].
           rewrite consume_set, consume_lost_clear by (unfold is_lost; rewrite Hty; reflexivity).
           repeat split; try assumption; rewrite Fsc; lia.
        -- destruct Hti as (Hs & Hl & Hsc & Hdd).
           destruct ((0 <? d) && (r_depth r + 1 =? d)) eqn:Ed; cbn [trk_ok fst]; [|exact I].
           destruct (consume_exit_fields inh ts r Hs Hty) as [Fsc Fdd]; [rewrite Hl; lia|]. rewrite Hl in *.
           cbn [set_dd stamp t_set t_lost t_sc t_dd].
           rewrite consume_set, consume_lost_clear by (unfold is_lost; rewrite Hty; reflexivity).
           repeat split; try assumption; rewrite ?Fsc, ?Fdd; lia.
    + eexists. split.
      * rewrite events_warn_app by apply warn_of_warn. unfold events_of_line, mk. cbn [l_kind]. reflexivity.
      * cbn [l_task l_indent l_name l_time e_task e_open e_name e_time e_indent negb]. repeat split; try reflexivity.
        intros Hm. destruct (nth i T TNone) as [| |d]; cbn [trk_ok snd] in *; [discriminate| |].
        -- destruct Hti as [Hs Hl].
           destruct (consume_exit_fields inh ts r Hs Hty) as [Fsc Fdd]; [rewrite Hl; reflexivity|]. rewrite Hl in *.
           cbn [stamp t_sc]. rewrite Fsc. lia.
        -- destruct Hti as (Hs & Hl & Hsc & Hdd).
           destruct ((0 <? d) && (r_depth r + 1 =? d)) eqn:Ed; cbn [snd] in Hm; [|discriminate].
           destruct (consume_exit_fields inh ts r Hs Hty) as [Fsc Fdd]; [rewrite Hl; lia|]. rewrite Hl in *.
           cbn [stamp t_dd]. rewrite Fdd. lia.
  - (* LOST *)
    split.
    + eapply Hother.
      * unfold consume. cbn [g_tasks]. reflexivity.
      * cbn [trk_ok fst]. split; [apply consume_set|apply consume_lost_set; unfold is_lost; rewrite Hty; reflexivity].
    + apply events_warn_lost; [apply warn_of_warn|].
      destruct (t_usc _ =? 0); repeat constructor.
Qed.

(* C06 with LOST markers: in the --no-merge view every ENTRY/EXIT record is shown (its task, name,
   timestamp), LOST markers show no call, and every record in a depth-consistent stretch after a
   LOST marker of its task is indented by its own depth field *)
Theorem lost_resync forks tasks : forall l g T, TRel g T ->
  Forall (fun p => (fst p < length T)%nat) l ->
  aligned l (marks l T) (events_of (fst (run (mkcfg false forks) tasks l g))).
Proof.
  induction l as [|[i r] tl IH]; intros g T HR Hb; [reflexivity|].
  inversion Hb as [|? ? Hi Hb']; subst. cbn [fst] in Hi.
  rewrite run_nofold_cons by reflexivity. cbn [marks aligned].
  destruct (step_track forks tasks g T i r HR Hi) as [HR' Hev]. cbn zeta in HR', Hev.
  destruct (track_step (nth i T TNone) r) as [t' m] eqn:Etk. cbn [fst snd] in *.
  destruct (step (mkcfg false forks) tasks g i r) as [ls g'] eqn:Es. cbn [fst snd] in *.
  specialize (IH g' (tkupd T i t') HR').
  destruct (run (mkcfg false forks) tasks tl g') as [out g''] eqn:Er. cbn [fst] in *.
  rewrite events_of_app.
  assert (Hb2 : Forall (fun p => (fst p < length (tkupd T i t'))%nat) tl) by (rewrite length_tkupd; exact Hb').
  destruct (is_lost r).
  - rewrite Hev. cbn [app]. apply IH. exact Hb2.
  - destruct Hev as (e & -> & Hsh). cbn [app]. split; [exact Hsh|apply IH; exact Hb2].
Qed.

Definition T0 (tasks : list task) : list track := map (fun _ => TNone) tasks.

Theorem replay_lost_resync forks sel tasks :
  aligned (merge (mask_queues sel tasks 0)) (marks (merge (mask_queues sel tasks 0)) (T0 tasks))
          (events_of (fst (replay_raw (mkcfg false forks) sel tasks))).
Proof.
  unfold replay_raw. apply lost_resync.
  - split; [unfold init_g, T0; cbn [g_tasks]; rewrite !map_length; reflexivity|].
    intros i. unfold T0. rewrite (nth_const tasks TNone i). exact I.
  - pose proof (merge_tags_valid (mask_queues sel tasks 0)) as H.
    rewrite mask_queues_mask, length_mask, map_length in H. unfold T0. rewrite map_length.
    rewrite mask_queues_mask. exact H.
Qed.

(* non-vacuity: main { foo { bar { qux {  LOST  baz() at depth 1, } of main at depth 0 *)
Definition lost_witness : list task :=
  [ mktask None [mkrec 1000 ENTRY 0 1; mkrec 1010 ENTRY 1 2; mkrec 1020 ENTRY 2 3; mkrec 1030 ENTRY 3 4;
                 mkrec 0 LOST 0 12; mkrec 1100 ENTRY 1 5; mkrec 1110 EXIT 1 5; mkrec 1200 EXIT 0 1] ].
Example lost_witness_marks :
  marks (merge (mask_queues None lost_witness 0)) (T0 lost_witness) = [false; false; false; false; false; true; true; true] /\
  map core_of (events_of (fst (replay_raw (mkcfg true []) None lost_witness))) =
  [ (true, 0%nat, 0, 1, 0); (true, 0%nat, 1, 2, 0); (true, 0%nat, 2, 3, 0); (true, 0%nat, 3, 4, 0);
    (true, 0%nat, 1, 5, 0); (false, 0%nat, 1, 0, 10); (false, 0%nat, 0, 0, 200) ].
Proof. split; vm_compute; reflexivity. Qed.
