(* C06 - perf context-switch events: which tie rule keeps the user calls' durations and nesting.
   Witnesses (vm_compute) for the three rules of __read_rstack on equal timestamps. *)
From Coq Require Import NArith List Bool Lia Arith.
Import ListNotations.
Require Import UV.C06.Model UV.C06.Proofs UV.C06.Sched.
Local Open Scope N_scope.

Definition F3 := mkfields true true false true false false.           (* -f duration,tid,time *)
(* main { alpha } with the task switched out 3000..5000 *)
Definition w_out_at_exit : list task := [mktask None [mkrec 1000 ENTRY 0 1; mkrec 2000 ENTRY 1 2; mkrec 3000 EXIT 1 2; mkrec 6000 EXIT 0 1]].
Definition w_in_at_exit : list task := [mktask None [mkrec 1000 ENTRY 0 1; mkrec 2000 ENTRY 1 2; mkrec 5000 EXIT 1 2; mkrec 6000 EXIT 0 1]].
Definition w_in_at_entry : list task :=
  [mktask None [mkrec 1000 ENTRY 0 1; mkrec 2000 ENTRY 1 2; mkrec 3000 EXIT 1 2; mkrec 5000 ENTRY 1 3; mkrec 5500 EXIT 1 3; mkrec 6000 EXIT 0 1]].
Definition w_cpus : list (list pev) := [[mkpev 3000 0 2; mkpev 5000 0 1]].
Definition ok_with (wins : pev -> bool) (tasks : list task) : bool :=
  ok_sched [] None F3 tasks (replay_x wins [] None F3 tasks w_cpus).

(* the rule of the fixed code (a sched-in first, a sched-out last among records of the same time): all three ties are right *)
Theorem sched_in_first_ok :
  ok_with tie_sched_in_first w_out_at_exit = true /\ ok_with tie_sched_in_first w_in_at_exit = true /\
  ok_with tie_sched_in_first w_in_at_entry = true.
Proof. vm_compute. auto. Qed.

(* `perf->time <= min_timestamp` (every event first): a sched-out at the time of EXIT alpha lands inside alpha, the EXIT
   pops the schedule frame: alpha is shown with duration 0 *)
Theorem perf_first_refuted : ok_with tie_perf_first w_out_at_exit = false.
Proof. vm_compute. reflexivity. Qed.

(* the code as found (the user record always first): a sched-in at the time of an EXIT / ENTRY of its task is mis-nested *)
Theorem user_first_legacy_refuted :
  ok_with tie_user_first w_in_at_exit = false /\ ok_with tie_user_first w_in_at_entry = false /\
  ok_with tie_user_first w_out_at_exit = true.
Proof. vm_compute. auto. Qed.

(* what the fixed code shows for the sched-in/EXIT tie: alpha 3.000 us, the schedule 2.000 us *)
Example in_at_exit_output :
  replay_x tie_sched_in_first [] None F3 w_in_at_exit w_cpus =
  [XL (mkline KOpen 0 0 1 0 0 1000 0 0); XL (mkline KOpen 0 1 2 0 0 2000 0 0); XE 0 2 2 0 3000; XE 0 2 1 (fmt_time 2000) 5000;
   XL (mkline KClose 0 1 2 (fmt_time 3000) 0 5000 0 0); XL (mkline KClose 0 0 1 (fmt_time 5000) 0 6000 0 0)].
Proof. vm_compute. reflexivity. Qed.

(* ------------------------------------------------------------------ the extension is conservative *)
Definition iu (p : nat * rec) : item := IU (fst p) (snd p).

Lemma merge_x_no_perf wins : forall fuel qs, merge_x wins fuel qs [] = map iu (merge_fuel fuel qs).
Proof.
  induction fuel as [|f IH]; intros qs; [reflexivity|].
  cbn [merge_x merge_fuel pickp]. destruct (pick qs 0 None) as [[i t]|]; [|reflexivity].
  destruct (pop qs i) as [[r qs']|]; [|reflexivity]. cbn [map iu fst snd]. rewrite IH. reflexivity.
Qed.

Lemma run_single c tasks i r g : c_fold c = false -> run c tasks [(i, r)] g = step c tasks g i r.
Proof.
  intros Hf. rewrite run_nofold_cons by exact Hf. destruct (step c tasks g i r) as [ls g']. cbn [run]. rewrite app_nil_r. reflexivity.
Qed.

Lemma run_x_users forks tasks : forall l g,
  run_x forks tasks (map iu l) g =
  (map XL (fst (run (mkcfg false forks) tasks l g)), snd (run (mkcfg false forks) tasks l g)).
Proof.
  induction l as [|[i r] tl IH]; intros g; [reflexivity|].
  cbn [map iu fst snd run_x]. rewrite run_single by reflexivity.
  rewrite (run_nofold_cons (mkcfg false forks) tasks i r tl g) by reflexivity.
  destruct (step (mkcfg false forks) tasks g i r) as [ls g1]. rewrite IH.
  destruct (run (mkcfg false forks) tasks tl g1) as [out g2]. cbn [fst snd]. rewrite map_app. reflexivity.
Qed.

(* the extension is conservative: without perf events replay_x is the --no-merge view of the base model, whatever the tie rule *)
Theorem replay_x_no_perf : forall wins forks sel f tasks,
  replay_x wins forks sel f tasks [] = map XL (fst (replay forks (mkvariant false sel f None false) tasks)).
Proof.
  intros. unfold replay_x, replay, replay_raw. cbn [mask_cpus map total_plen fold_right v_fold v_sel v_column v_newline v_fields].
  rewrite Nat.add_0_r. rewrite merge_x_no_perf. fold (merge (mask_queues sel tasks 0)).
  rewrite run_x_users. cbn [fst].
  destruct (run (mkcfg false forks) tasks (merge (mask_queues sel tasks 0)) (init_g sel tasks)) as [ls g]. cbn [fst].
  rewrite !map_map. reflexivity.
Qed.

(* ------------------------------------------------------------------ a sched-out / sched-in pair on one task *)
Lemma nth_upd_same : forall st n x, nth n (upd st n x) frame0 = x.
Proof. intros st n; revert st; induction n as [|n IH]; intros [|h t] x; cbn; auto. Qed.
Lemma nth_upd_other : forall st n m x, n <> m -> nth m (upd st n x) frame0 = nth m st frame0.
Proof.
  intros st n; revert st; induction n as [|n IH]; intros [|h t] m x Hnm; destruct m as [|m]; cbn; try congruence; auto.
  - destruct m; reflexivity.
  - rewrite IH by congruence. destruct m; reflexivity.
Qed.
Lemma fget_fset_same st i x : fget (fset st i x) i = x.
Proof. unfold fget, fset. apply nth_upd_same. Qed.
Lemma fget_fset_other st i j x : i <> j -> fget (fset st i x) j = fget st j.
Proof. intros H. unfold fget, fset. apply nth_upd_other. intros E. apply H. apply N2Nat.inj. exact E. Qed.

Lemma consume_p_out inh ts i a k : t_set ts = true -> t_lost ts = false -> k <> 1 ->
  consume_p inh ts (dummy (mkpev a i k)) =
  mkts true (t_sc ts + 1) (t_dd ts) (t_fork_dd ts) (fset (t_stack ts) (t_sc ts) (mkframe k a true))
       (t_ts ts) (t_ts_last ts) (t_orphan ts) (t_usc ts) false (t_ljp ts) (t_ljd ts).
Proof.
  intros Hset Hlost Hk. assert (Ek : (k =? 1) = false) by (apply N.eqb_neq; exact Hk).
  destruct ts as [tset sc dd fdd st tts tl orp usc lost ljp ljd]. cbn [t_set t_lost] in Hset, Hlost. subst tset lost.
  unfold consume_p, dummy, p_out. cbn [p_kind p_time]. rewrite Ek. cbn [negb].
  unfold first_setup. cbn [t_set]. unfold resync. cbn [t_lost]. unfold account. cbn [r_type]. unfold count_p. cbn [r_type].
  cbn [r_time r_addr t_set t_sc t_dd t_fork_dd t_stack t_ts t_ts_last t_orphan t_usc t_lost t_ljp t_ljd]. reflexivity.
Qed.

Lemma consume_p_in inh ts i b : t_set ts = true -> t_lost ts = false -> t_sc ts <> 0 ->
  consume_p inh ts (dummy (mkpev b i 1)) =
  let f := fget (t_stack ts) (t_sc ts - 1) in
  mkts true (N.pred (t_sc ts)) (t_dd ts) (t_fork_dd ts)
       (fset (t_stack ts) (t_sc ts - 1) (mkframe (f_addr f) (if f_valid f then sub64 b (f_time f) else 0) false))
       (t_ts ts) (t_ts_last ts) (t_orphan ts) (t_usc ts) false false (t_ljd ts).
Proof.
  intros Hset Hlost Hsc. assert (E0 : (t_sc ts =? 0) = false) by (apply N.eqb_neq; exact Hsc).
  destruct ts as [tset sc dd fdd st tts tl orp usc lost ljp ljd]. cbn [t_set t_lost t_sc] in Hset, Hlost, E0. subst tset lost.
  unfold consume_p, dummy, p_out. cbn [p_kind p_time]. change (1 =? 1) with true. cbn [negb].
  unfold first_setup. cbn [t_set]. unfold resync. cbn [t_lost]. unfold account. cbn [r_type t_sc]. rewrite E0.
  unfold count_p. cbn [r_type].
  cbn [r_time r_addr t_set t_sc t_dd t_fork_dd t_stack t_ts t_ts_last t_orphan t_usc t_lost t_ljp t_ljd]. reflexivity.
Qed.

(* A task that is set up and not waiting for a re-synchronisation is switched out at [a] and in at [b]: afterwards its
   stack count, display depth and user stack count are what they were, every frame below the top is untouched (the open
   calls keep their start times: their durations are not affected), and the slot above the top - the one the sched-in
   line shows - holds b - a. *)
Theorem sched_pair_neutral : forall inh ts i a b k,
  t_set ts = true -> t_lost ts = false -> k <> 1 -> a <= b -> b < W64 ->
  let ts1 := consume_p inh ts (dummy (mkpev a i k)) in
  let ts2 := consume_p inh ts1 (dummy (mkpev b i 1)) in
  t_sc ts2 = t_sc ts /\ t_dd ts2 = t_dd ts /\ t_usc ts2 = t_usc ts /\ t_set ts2 = true /\ t_lost ts2 = false /\
  (forall j, j < t_sc ts -> fget (t_stack ts2) j = fget (t_stack ts) j) /\
  f_time (fget (t_stack ts2) (t_sc ts2)) = b - a.
Proof.
  intros inh ts i a b k Hset Hlost Hk Hab Hb. cbv zeta.
  rewrite (consume_p_out inh ts i a k Hset Hlost Hk).
  rewrite consume_p_in by (cbn [t_set t_lost t_sc]; try reflexivity; apply N.neq_0_lt_0; apply N.add_pos_r; reflexivity).
  cbn [t_set t_sc t_dd t_fork_dd t_stack t_ts t_ts_last t_orphan t_usc t_lost t_ljp t_ljd]. cbv zeta.
  rewrite N.add_sub, N.add_1_r, N.pred_succ.
  rewrite fget_fset_same. cbn [f_valid f_time f_addr t_set t_sc t_dd t_fork_dd t_stack t_ts t_ts_last t_orphan t_usc t_lost t_ljp t_ljd].
  split; [reflexivity|]. split; [reflexivity|]. split; [reflexivity|]. split; [reflexivity|]. split; [reflexivity|]. split.
  - intros j Hj. rewrite !fget_fset_other by (intros E; subst j; apply (N.lt_irrefl _ Hj)). reflexivity.
  - rewrite fget_fset_same. cbn [f_time]. apply sub64_exact; assumption.
Qed.
