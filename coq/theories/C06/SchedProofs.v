(* C06 - perf context-switch events: which tie rule keeps the user calls' durations and nesting.
   Witnesses (vm_compute) for the three rules of __read_rstack on equal timestamps. *)
From Coq Require Import NArith List Bool Lia Arith.
Import ListNotations.
Require Import UV.C06.Model UV.C06.Sched.
Local Open Scope N_scope.

Definition F3 := mkfields true true false true false false.           (* -f duration,tid,time *)
(* main { alpha } with the task switched out 3000..5000 *)
Definition w_out_at_exit : list task := [mktask None [mkrec 1000 ENTRY 0 1; mkrec 2000 ENTRY 1 2; mkrec 3000 EXIT 1 2; mkrec 6000 EXIT 0 1]].
Definition w_in_at_exit : list task := [mktask None [mkrec 1000 ENTRY 0 1; mkrec 2000 ENTRY 1 2; mkrec 5000 EXIT 1 2; mkrec 6000 EXIT 0 1]].
Definition w_in_at_entry : list task :=
  [mktask None [mkrec 1000 ENTRY 0 1; mkrec 2000 ENTRY 1 2; mkrec 3000 EXIT 1 2; mkrec 5000 ENTRY 1 3; mkrec 5500 EXIT 1 3; mkrec 6000 EXIT 0 1]].
Definition w_cpus : list (list pev) := [[mkpev 3000 0 2; mkpev 5000 0 1]].
Definition ok_with (wins : pev -> bool) (tasks : list task) : bool :=
  ok_sched [] None F3 tasks (replay_x wins [] None F3 tasks w_cpus).

(* the rule of the fixed code (a sched-in first, a sched-out last among records of the same time): all three ties are right *)
Theorem sched_in_first_ok :
  ok_with tie_sched_in_first w_out_at_exit = true /\ ok_with tie_sched_in_first w_in_at_exit = true /\
  ok_with tie_sched_in_first w_in_at_entry = true.
Proof. vm_compute. auto. Qed.

(* `perf->time <= min_timestamp` (every event first): a sched-out at the time of EXIT alpha lands inside alpha, the EXIT
   pops the schedule frame: alpha is shown with duration 0 *)
Theorem perf_first_refuted : ok_with tie_perf_first w_out_at_exit = false.
Proof. vm_compute. reflexivity. Qed.

(* the code as found (the user record always first): a sched-in at the time of an EXIT / ENTRY of its task is mis-nested *)
Theorem user_first_legacy_refuted :
  ok_with tie_user_first w_in_at_exit = false /\ ok_with tie_user_first w_in_at_entry = false /\
  ok_with tie_user_first w_out_at_exit = true.
Proof. vm_compute. auto. Qed.

(* what the fixed code shows for the sched-in/EXIT tie: alpha 3.000 us, the schedule 2.000 us *)
Example in_at_exit_output :
  replay_x tie_sched_in_first [] None F3 w_in_at_exit w_cpus =
  [XL (mkline KOpen 0 0 1 0 0 1000 0 0); XL (mkline KOpen 0 1 2 0 0 2000 0 0); XE 0 2 2 0 3000; XE 0 2 1 (fmt_time 2000) 5000;
   XL (mkline KClose 0 1 2 (fmt_time 3000) 0 5000 0 0); XL (mkline KClose 0 0 1 (fmt_time 5000) 0 6000 0 0)].
Proof. vm_compute. reflexivity. Qed.
