(* C06 - the k-way merge of read_user_stack: order-preserving, complete, sorted with ties
   broken by the task index. *)
From Coq Require Import NArith List Bool Lia Arith Sorting.Sorted.
Require Import ZifyBool ZifyN ZifyNat.
Import ListNotations.
Require Import UV.C06.Model.
Local Open Scope N_scope.

(* ------------------------------------------------------------------ vocabulary *)
Definition head_ge (t : N) (q : list rec) : Prop := match q with [] => True | r :: _ => t <= r_time r end.
Definition head_gt (t : N) (q : list rec) : Prop := match q with [] => True | r :: _ => t < r_time r end.
Definition heads_ge (qs : list (list rec)) (t : N) : Prop := Forall (head_ge t) qs.
Definition heads_gt (qs : list (list rec)) (t : N) : Prop := Forall (head_gt t) qs.

(* records of task i in a tagged stream *)
Definition proj (i : nat) (l : list (nat * rec)) : list rec :=
  map snd (filter (fun p => Nat.eqb (fst p) i) l).

(* replace the i-th queue *)
Fixpoint replace (qs : list (list rec)) (i : nat) (q : list rec) : list (list rec) :=
  match qs, i with
  | [], _ => []
  | _ :: rest, O => q :: rest
  | h :: rest, S i' => h :: replace rest i' q
  end.

Lemma nth_replace qs i q j : (i < length qs)%nat ->
  nth j (replace qs i q) [] = if Nat.eqb j i then q else nth j qs [].
Proof.
  revert i j. induction qs as [|h rest IH]; intros i j Hi; cbn in Hi; [lia|].
  destruct i as [|i]; destruct j as [|j]; cbn; try reflexivity.
  apply IH. lia.
Qed.

Lemma length_replace qs i q : length (replace qs i q) = length qs.
Proof. revert i. induction qs as [|h rest IH]; intros [|i]; cbn; auto. Qed.

(* ------------------------------------------------------------------ pick *)
Lemma pick_inv : forall qs k best,
  match pick qs k best with
  | None => best = None /\ Forall (fun q => q = []) qs
  | Some (i, t) =>
      (best = Some (i, t) /\ heads_ge qs t)
      \/ ((k <= i)%nat /\ (exists r q', nth (i - k) qs [] = r :: q' /\ r_time r = t) /\
          heads_gt (firstn (i - k) qs) t /\ heads_ge qs t /\
          match best with Some (_, bt) => t < bt | None => True end)
  end.
Proof.
  induction qs as [|q rest IH]; intros k best; cbn [pick].
  - destruct best as [[i t]|]; [left; split; [reflexivity|constructor] | split; [reflexivity|constructor]].
  - destruct q as [|r q'].
    + specialize (IH (S k) best).
      destruct (pick rest (S k) best) as [[i t]|].
      * destruct IH as [[Hb Hg]|(Hk & (r & q' & Hn & Ht) & Hgt & Hge & Hb)].
        -- left. split; [exact Hb|]. constructor; [exact I|exact Hg].
        -- right. replace (i - k)%nat with (S (i - S k)) by lia. cbn [nth firstn].
           split; [lia|]. split; [exists r, q'; auto|]. split; [constructor; [exact I|exact Hgt]|].
           split; [constructor; [exact I|exact Hge]|exact Hb].
      * destruct IH as [Hb Hall]. split; [exact Hb|]. constructor; [reflexivity|exact Hall].
    + destruct best as [[b bt]|].
      * destruct (r_time r <? bt) eqn:Hlt.
        -- specialize (IH (S k) (Some (k, r_time r))).
           destruct (pick rest (S k) (Some (k, r_time r))) as [[i t]|].
           ++ destruct IH as [[Hb Hg]|(Hk & (r1 & q1 & Hn & Ht) & Hgt & Hge & Hb)].
              ** inversion Hb; subst. right. rewrite Nat.sub_diag. cbn [nth firstn].
                 split; [lia|]. split; [exists r, q'; auto|]. split; [constructor|].
                 split; [constructor; [cbn; lia|exact Hg]|lia].
              ** right. replace (i - k)%nat with (S (i - S k)) by lia. cbn [nth firstn].
                 split; [lia|]. split; [exists r1, q1; auto|].
                 split; [constructor; [cbn; lia|exact Hgt]|].
                 split; [constructor; [cbn; lia|exact Hge]|lia].
           ++ destruct IH as [Hb _]. discriminate.
        -- specialize (IH (S k) (Some (b, bt))).
           destruct (pick rest (S k) (Some (b, bt))) as [[i t]|].
           ++ destruct IH as [[Hb Hg]|(Hk & (r1 & q1 & Hn & Ht) & Hgt & Hge & Hb)].
              ** inversion Hb; subst. left. split; [reflexivity|]. constructor; [cbn; lia|exact Hg].
              ** right. replace (i - k)%nat with (S (i - S k)) by lia. cbn [nth firstn].
                 split; [lia|]. split; [exists r1, q1; auto|].
                 split; [constructor; [cbn; lia|exact Hgt]|].
                 split; [constructor; [cbn; lia|exact Hge]|lia].
           ++ destruct IH as [Hb _]. discriminate.
      * specialize (IH (S k) (Some (k, r_time r))).
        destruct (pick rest (S k) (Some (k, r_time r))) as [[i t]|].
        -- destruct IH as [[Hb Hg]|(Hk & (r1 & q1 & Hn & Ht) & Hgt & Hge & Hb)].
           ** inversion Hb; subst. right. rewrite Nat.sub_diag. cbn [nth firstn].
              split; [lia|]. split; [exists r, q'; auto|]. split; [constructor|].
              split; [constructor; [cbn; lia|exact Hg]|exact I].
           ** right. replace (i - k)%nat with (S (i - S k)) by lia. cbn [nth firstn].
              split; [lia|]. split; [exists r1, q1; auto|].
              split; [constructor; [cbn; lia|exact Hgt]|].
              split; [constructor; [cbn; lia|exact Hge]|exact I].
        -- destruct IH as [Hb _]. discriminate.
Qed.

(* what the scan of read_user_stack returns *)
Lemma pick_spec qs :
  match pick qs 0 None with
  | None => Forall (fun q => q = []) qs
  | Some (i, t) =>
      (exists r q', nth i qs [] = r :: q' /\ r_time r = t) /\ heads_gt (firstn i qs) t /\ heads_ge qs t
  end.
Proof.
  pose proof (pick_inv qs 0 None) as H.
  destruct (pick qs 0 None) as [[i t]|].
  - destruct H as [[Hb _]|(_ & Hn & Hgt & Hge & _)]; [discriminate|].
    rewrite Nat.sub_0_r in *. auto.
  - apply H.
Qed.

Lemma pop_spec : forall qs i r q', nth i qs [] = r :: q' -> pop qs i = Some (r, replace qs i q').
Proof.
  induction qs as [|q rest IH]; intros i r q' Hn.
  - destruct i; discriminate.
  - destruct i as [|i]; cbn in *.
    + subst. reflexivity.
    + rewrite (IH _ _ _ Hn). reflexivity.
Qed.

Lemma nth_some_lt {A} (l : list (list A)) i x q : nth i l [] = x :: q -> (i < length l)%nat.
Proof.
  intros H. destruct (Nat.lt_ge_cases i (length l)) as [|Hge]; [assumption|].
  rewrite nth_overflow in H by lia. discriminate.
Qed.

Lemma total_len_cons q rest : total_len (q :: rest) = (length q + total_len rest)%nat.
Proof. reflexivity. Qed.

Lemma total_len_replace : forall qs i r q', nth i qs [] = r :: q' ->
  total_len qs = S (total_len (replace qs i q')).
Proof.
  induction qs as [|q rest IH]; intros i r q' Hn.
  - destruct i; discriminate.
  - destruct i as [|i]; cbn [nth replace] in *.
    + subst. rewrite !total_len_cons. cbn [length]. lia.
    + rewrite !total_len_cons. rewrite (IH _ _ _ Hn). lia.
Qed.

Lemma all_empty_nth qs i : Forall (fun q : list rec => q = []) qs -> nth i qs [] = [].
Proof.
  intros H. revert i. induction H as [|q rest Hq _ IH]; intros [|i]; cbn; auto.
Qed.

Lemma all_empty_total qs : Forall (fun q : list rec => q = []) qs -> total_len qs = O.
Proof. induction 1 as [|q rest Hq _ IH]; [reflexivity|]. subst. rewrite total_len_cons. cbn [length]. exact IH. Qed.

(* ------------------------------------------------------------------ order preservation *)
Lemma proj_merge_fuel : forall f qs i, (total_len qs <= f)%nat -> proj i (merge_fuel f qs) = nth i qs [].
Proof.
  induction f as [|f IH]; intros qs i Hf.
  - cbn. assert (Hall : Forall (fun q => q = []) qs).
    { clear i. induction qs as [|q rest IHq]; [constructor|]. rewrite total_len_cons in Hf.
      destruct q; [|cbn [length] in Hf; lia]. constructor; [reflexivity|]. apply IHq. cbn [length] in Hf. lia. }
    symmetry. apply all_empty_nth. exact Hall.
  - cbn [merge_fuel]. pose proof (pick_spec qs) as Hp.
    destruct (pick qs 0 None) as [[j t]|].
    + destruct Hp as ((r & q' & Hn & Ht) & _ & _).
      rewrite (pop_spec _ _ _ _ Hn).
      pose proof (total_len_replace _ _ _ _ Hn) as Hlen.
      pose proof (nth_some_lt _ _ _ _ Hn) as Hj.
      unfold proj. cbn [filter fst].
      destruct (Nat.eqb j i) eqn:Hji.
      * apply Nat.eqb_eq in Hji. subst j. cbn [map snd]. fold (proj i (merge_fuel f (replace qs i q'))).
        rewrite IH by lia. rewrite nth_replace by assumption. rewrite Nat.eqb_refl. symmetry. exact Hn.
      * fold (proj i (merge_fuel f (replace qs j q'))). rewrite IH by lia.
        rewrite nth_replace by assumption. rewrite Nat.eqb_sym, Hji. reflexivity.
    + cbn. symmetry. apply all_empty_nth. exact Hp.
Qed.

Theorem merge_preserves_task_order : forall qs i, proj i (merge qs) = nth i qs [].
Proof. intros. unfold merge. apply proj_merge_fuel. lia. Qed.

Lemma length_merge_fuel : forall f qs, (total_len qs <= f)%nat -> length (merge_fuel f qs) = total_len qs.
Proof.
  induction f as [|f IH]; intros qs Hf.
  - cbn. lia.
  - cbn [merge_fuel]. pose proof (pick_spec qs) as Hp.
    destruct (pick qs 0 None) as [[j t]|].
    + destruct Hp as ((r & q' & Hn & Ht) & _ & _).
      rewrite (pop_spec _ _ _ _ Hn). pose proof (total_len_replace _ _ _ _ Hn) as Hlen.
      cbn [length]. rewrite IH by lia. lia.
    + cbn. symmetry. apply all_empty_total. exact Hp.
Qed.

Theorem merge_complete : forall qs, length (merge qs) = total_len qs.
Proof. intros. apply length_merge_fuel. unfold merge. lia. Qed.

Lemma tags_merge_fuel : forall f qs, Forall (fun p => (fst p < length qs)%nat) (merge_fuel f qs).
Proof.
  induction f as [|f IH]; intros qs; cbn [merge_fuel]; [constructor|].
  pose proof (pick_spec qs) as Hp.
  destruct (pick qs 0 None) as [[j t]|]; [|constructor].
  destruct Hp as ((r & q' & Hn & Ht) & _ & _).
  rewrite (pop_spec _ _ _ _ Hn). constructor.
  - cbn. eapply nth_some_lt; eauto.
  - specialize (IH (replace qs j q')). rewrite length_replace in IH. exact IH.
Qed.

Theorem merge_tags_valid : forall qs, Forall (fun p => (fst p < length qs)%nat) (merge qs).
Proof. intros. apply tags_merge_fuel. Qed.

(* ------------------------------------------------------------------ sortedness *)
Definition time_sorted (q : list rec) : Prop := StronglySorted (fun a b => r_time a <= r_time b) q.

(* (time, task index) lexicographic order: what "oldest first, lowest index wins ties" means *)
Definition lex_le (a b : nat * rec) : Prop :=
  r_time (snd a) < r_time (snd b) \/ (r_time (snd a) = r_time (snd b) /\ (fst a <= fst b)%nat).

Lemma heads_ge_nth qs t j s q : heads_ge qs t -> nth j qs [] = s :: q -> t <= r_time s.
Proof.
  intros H. revert j. induction H as [|h rest Hh _ IH]; intros [|j] Hn; cbn in Hn; try discriminate.
  - subst. exact Hh.
  - eapply IH; eauto.
Qed.

Lemma heads_gt_firstn_nth qs t i j s q : heads_gt (firstn i qs) t -> (j < i)%nat -> nth j qs [] = s :: q -> t < r_time s.
Proof.
  revert i j. induction qs as [|h rest IH]; intros i j H Hj Hn.
  - destruct j; discriminate.
  - destruct i as [|i]; [lia|]. cbn [firstn] in H. inversion H as [|? ? Hh Hr]; subst.
    destruct j as [|j]; cbn in Hn.
    + subst. exact Hh.
    + eapply IH; eauto. lia.
Qed.

Lemma sorted_replace qs i r q' : Forall time_sorted qs -> nth i qs [] = r :: q' ->
  Forall time_sorted (replace qs i q') /\ head_ge (r_time r) q'.
Proof.
  intros H. revert i. induction H as [|h rest Hh Hr IH]; intros i Hn.
  - destruct i; discriminate.
  - destruct i as [|i]; cbn in *.
    + subst. inversion Hh as [|? ? Hs Hall]; subst. split; [constructor; assumption|].
      destruct q'; cbn; [exact I|]. inversion Hall; subst. assumption.
    + destruct (IH _ Hn) as [H1 H2]. split; [constructor; assumption|assumption].
Qed.

Lemma merge_fuel_sorted : forall f qs, Forall time_sorted qs -> Sorted lex_le (merge_fuel f qs).
Proof.
  induction f as [|f IH]; intros qs Hs; cbn [merge_fuel]; [constructor|].
  pose proof (pick_spec qs) as Hp.
  destruct (pick qs 0 None) as [[i t]|]; [|constructor].
  destruct Hp as ((r & q' & Hn & Ht) & Hgt & Hge).
  rewrite (pop_spec _ _ _ _ Hn).
  destruct (sorted_replace _ _ _ _ Hs Hn) as [Hs' Hhd].
  pose proof (nth_some_lt _ _ _ _ Hn) as Hi.
  constructor; [apply IH; exact Hs'|].
  (* the next element chosen is not smaller *)
  destruct f as [|f']; cbn [merge_fuel]; [constructor|].
  pose proof (pick_spec (replace qs i q')) as Hp'.
  destruct (pick (replace qs i q') 0 None) as [[j t']|]; [|constructor].
  destruct Hp' as ((s & q2 & Hn' & Ht') & _ & _).
  rewrite (pop_spec _ _ _ _ Hn'). constructor. unfold lex_le. cbn [fst snd].
  rewrite nth_replace in Hn' by assumption.
  destruct (Nat.eqb j i) eqn:Hji.
  - apply Nat.eqb_eq in Hji. subst j q'. cbn in Hhd. lia.
  - apply Nat.eqb_neq in Hji.
    pose proof (heads_ge_nth _ _ _ _ _ Hge Hn') as H1.
    destruct (Nat.lt_ge_cases j i) as [Hlt|Hge'].
    + pose proof (heads_gt_firstn_nth _ _ _ _ _ _ Hgt Hlt Hn') as H2. lia.
    + lia.
Qed.

Theorem merge_sorted : forall qs, Forall time_sorted qs -> Sorted lex_le (merge qs).
Proof. intros. apply merge_fuel_sorted. assumption. Qed.

Lemma lex_le_trans a b c : lex_le a b -> lex_le b c -> lex_le a c.
Proof. unfold lex_le. intros [H1|[H1 H1']] [H2|[H2 H2']]; [left|left|left|right]; lia. Qed.

Theorem merge_strongly_sorted : forall qs, Forall time_sorted qs -> StronglySorted lex_le (merge qs).
Proof.
  intros. apply Sorted_StronglySorted; [|apply merge_sorted; assumption].
  intros a b c. apply lex_le_trans.
Qed.

(* in particular the timestamps never decrease *)
Theorem merge_times_nondecreasing : forall qs, Forall time_sorted qs ->
  StronglySorted (fun a b => r_time (snd a) <= r_time (snd b)) (merge qs).
Proof.
  intros qs H. pose proof (merge_strongly_sorted qs H) as S.
  induction S as [|a l Sl IH Ha]; constructor; [exact IH|].
  eapply Forall_impl; [|exact Ha]. unfold lex_le. intros b Hb. lia.
Qed.

(* ------------------------------------------------------------------ --tid: removing tasks *)
(* The records of the remaining tasks come out in the same relative order when other tasks'
   queues are emptied (proved for arbitrary, also unsorted, queues). *)
Definition keep (S : nat -> bool) (l : list (nat * rec)) : list (nat * rec) := filter (fun p => S (fst p)) l.
Fixpoint mask (S : nat -> bool) (qs : list (list rec)) (i : nat) : list (list rec) :=
  match qs with
  | [] => []
  | q :: rest => (if S i then q else []) :: mask S rest (Datatypes.S i)
  end.

Lemma nth_mask S : forall qs k j, nth j (mask S qs k) [] = if S (k + j)%nat then nth j qs [] else [].
Proof.
  induction qs as [|q rest IH]; intros k j; cbn [mask].
  - destruct j; cbn; destruct (S _); reflexivity.
  - destruct j as [|j]; cbn [nth].
    + rewrite Nat.add_0_r. reflexivity.
    + rewrite IH. replace (Datatypes.S k + j)%nat with (k + Datatypes.S j)%nat by lia. reflexivity.
Qed.

Lemma length_mask S : forall qs k, length (mask S qs k) = length qs.
Proof. induction qs as [|q rest IH]; intros k; cbn; auto. Qed.

Lemma firstn_mask S : forall qs k i, firstn i (mask S qs k) = mask S (firstn i qs) k.
Proof.
  induction qs as [|q rest IH]; intros k i; destruct i; cbn; auto. rewrite IH. reflexivity.
Qed.

Lemma heads_ge_mask S t : forall qs k, heads_ge qs t -> heads_ge (mask S qs k) t.
Proof.
  induction qs as [|q rest IH]; intros k H; cbn; [constructor|].
  inversion H; subst. constructor; [destruct (S k); [assumption|exact I]|apply IH; assumption].
Qed.

Lemma heads_gt_mask S t : forall qs k, heads_gt qs t -> heads_gt (mask S qs k) t.
Proof.
  induction qs as [|q rest IH]; intros k H; cbn; [constructor|].
  inversion H; subst. constructor; [destruct (S k); [assumption|exact I]|apply IH; assumption].
Qed.

Lemma mask_replace_out S : forall qs k i q, S (k + i)%nat = false -> mask S (replace qs i q) k = mask S qs k.
Proof.
  induction qs as [|h rest IH]; intros k i q Hs; destruct i as [|i]; cbn; auto.
  - rewrite Nat.add_0_r in Hs. rewrite Hs. reflexivity.
  - rewrite IH; [reflexivity|]. replace (Datatypes.S k + i)%nat with (k + Datatypes.S i)%nat by lia. exact Hs.
Qed.

Lemma mask_replace_in S : forall qs k i q, S (k + i)%nat = true -> mask S (replace qs i q) k = replace (mask S qs k) i q.
Proof.
  induction qs as [|h rest IH]; intros k i q Hs; destruct i as [|i]; cbn; auto.
  - rewrite Nat.add_0_r in Hs. rewrite Hs. reflexivity.
  - rewrite IH; [reflexivity|]. replace (Datatypes.S k + i)%nat with (k + Datatypes.S i)%nat by lia. exact Hs.
Qed.

(* the characterisation of pick_spec determines the result *)
Lemma pick_unique qs i t r q' :
  nth i qs [] = r :: q' -> r_time r = t -> heads_gt (firstn i qs) t -> heads_ge qs t ->
  pick qs 0 None = Some (i, t).
Proof.
  intros Hn Ht Hgt Hge. pose proof (pick_spec qs) as Hp.
  destruct (pick qs 0 None) as [[j u]|].
  - destruct Hp as ((s & q2 & Hn2 & Hu) & Hgt2 & Hge2).
    pose proof (heads_ge_nth _ _ _ _ _ Hge Hn2) as H1.
    pose proof (heads_ge_nth _ _ _ _ _ Hge2 Hn) as H2.
    assert (u = t) by lia. subst u.
    destruct (Nat.lt_trichotomy j i) as [Hlt|[Heq|Hlt]].
    + pose proof (heads_gt_firstn_nth _ _ _ _ _ _ Hgt Hlt Hn2). lia.
    + subst j. congruence.
    + pose proof (heads_gt_firstn_nth _ _ _ _ _ _ Hgt2 Hlt Hn). lia.
  - rewrite (all_empty_nth _ i Hp) in Hn. discriminate.
Qed.

Lemma pick_all_empty qs : Forall (fun q : list rec => q = []) qs -> pick qs 0 None = None.
Proof.
  intros H. pose proof (pick_spec qs) as Hp. destruct (pick qs 0 None) as [[j u]|]; [|reflexivity].
  destruct Hp as ((s & q2 & Hn2 & _) & _). rewrite (all_empty_nth _ j H) in Hn2. discriminate.
Qed.

Lemma total_len_zero qs : total_len qs = O -> Forall (fun q : list rec => q = []) qs.
Proof.
  induction qs as [|q rest IH]; intros H; [constructor|]. rewrite total_len_cons in H.
  destruct q; [|cbn [length] in H; lia]. constructor; [reflexivity|]. apply IH. cbn [length] in H. lia.
Qed.

Lemma merge_fuel_irrelevant : forall f f' qs, (total_len qs <= f)%nat -> (total_len qs <= f')%nat ->
  merge_fuel f qs = merge_fuel f' qs.
Proof.
  induction f as [|f IH]; intros f' qs Hf Hf'.
  - assert (He : Forall (fun q => q = []) qs) by (apply total_len_zero; lia).
    destruct f'; cbn [merge_fuel]; [reflexivity|]. rewrite (pick_all_empty _ He). reflexivity.
  - destruct f' as [|f'].
    + assert (He : Forall (fun q => q = []) qs) by (apply total_len_zero; lia).
      cbn [merge_fuel]. rewrite (pick_all_empty _ He). reflexivity.
    + cbn [merge_fuel]. pose proof (pick_spec qs) as Hp.
      destruct (pick qs 0 None) as [[j t]|]; [|reflexivity].
      destruct Hp as ((r & q' & Hn & _) & _). rewrite (pop_spec _ _ _ _ Hn).
      pose proof (total_len_replace _ _ _ _ Hn). f_equal. apply IH; lia.
Qed.

Lemma merge_mask_fuel S : forall f qs, (total_len qs <= f)%nat ->
  merge_fuel f (mask S qs 0) = keep S (merge_fuel f qs).
Proof.
  induction f as [|f IH]; intros qs Hf; [reflexivity|].
  cbn [merge_fuel]. pose proof (pick_spec qs) as Hp.
  destruct (pick qs 0 None) as [[i t]|].
  - destruct Hp as ((r & q' & Hn & Ht) & Hgt & Hge).
    rewrite (pop_spec _ _ _ _ Hn). pose proof (total_len_replace _ _ _ _ Hn) as Hlen.
    unfold keep. cbn [filter fst]. fold (keep S (merge_fuel f (replace qs i q'))).
    destruct (S i) eqn:Hsi.
    + assert (Hn' : nth i (mask S qs 0) [] = r :: q') by (rewrite nth_mask; cbn; rewrite Hsi; exact Hn).
      rewrite (pick_unique (mask S qs 0) i t r q' Hn' Ht).
      * rewrite (pop_spec _ _ _ _ Hn'). rewrite <- mask_replace_in by (cbn; exact Hsi).
        rewrite IH by lia. reflexivity.
      * rewrite firstn_mask. apply heads_gt_mask. exact Hgt.
      * apply heads_ge_mask. exact Hge.
    + rewrite <- IH by lia. rewrite mask_replace_out by (cbn; exact Hsi).
      (* one unit of fuel more than needed *)
      change (match pick (mask S qs 0) 0 None with
              | Some (i0, _) => match pop (mask S qs 0) i0 with
                                | Some (r0, qs') => (i0, r0) :: merge_fuel f qs'
                                | None => []
                                end
              | None => []
              end) with (merge_fuel (Datatypes.S f) (mask S qs 0)).
      apply merge_fuel_irrelevant.
      * assert (total_len (mask S qs 0) = total_len (mask S (replace qs i q') 0)) as E
          by (rewrite mask_replace_out by (cbn; exact Hsi); reflexivity).
        assert (forall Q k, (total_len (mask S Q k) <= total_len Q)%nat) as Hle.
        { induction Q as [|h rest IHQ]; intros k; [cbn; lia|]. cbn [mask]. rewrite !total_len_cons.
          specialize (IHQ (Datatypes.S k)). destruct (S k); cbn [length]; lia. }
        specialize (Hle (replace qs i q') O). lia.
      * assert (forall Q k, (total_len (mask S Q k) <= total_len Q)%nat) as Hle.
        { induction Q as [|h rest IHQ]; intros k; [cbn; lia|]. cbn [mask]. rewrite !total_len_cons.
          specialize (IHQ (Datatypes.S k)). destruct (S k); cbn [length]; lia. }
        assert (total_len (mask S qs 0) = total_len (mask S (replace qs i q') 0)) as E
          by (rewrite mask_replace_out by (cbn; exact Hsi); reflexivity).
        specialize (Hle (replace qs i q') O). lia.
  - assert (He : Forall (fun q => q = []) (mask S qs 0)).
    { clear -Hp. generalize O. induction Hp as [|q rest Hq _ IHp]; intros k; cbn; constructor.
      - subst. destruct (S k); reflexivity.
      - apply IHp. }
    rewrite (pick_all_empty _ He). reflexivity.
Qed.

Lemma total_len_mask_le S : forall Q k, (total_len (mask S Q k) <= total_len Q)%nat.
Proof.
  induction Q as [|h rest IHQ]; intros k; [cbn; lia|]. cbn [mask]. rewrite !total_len_cons.
  specialize (IHQ (Datatypes.S k)). destruct (S k); cbn [length]; lia.
Qed.

(* --tid on the merge: exactly the sub-sequence of the selected tasks *)
Theorem merge_mask : forall S qs, merge (mask S qs 0) = keep S (merge qs).
Proof.
  intros. unfold merge at 2. rewrite <- merge_mask_fuel by lia.
  unfold merge. apply merge_fuel_irrelevant; [lia|apply total_len_mask_le].
Qed.
