From Coq Require Import NArith List Bool Lia Arith.
Require Import ZifyBool ZifyN ZifyNat.
Import ListNotations.
Require Import UV.C06.Model.
Local Open Scope N_scope.

(* what a printed time means: the smallest duration that prints like this, and the resolution *)
Definition fmt_lo (c : N) : N :=
  let u := c / 1000000 in let w := (c / 1000) mod 1000 in let f := c mod 1000 in
  match u with
  | 0 => w * 1000 + f                                   (* us . ns *)
  | 1 => w * 1000000 + f * 1000                         (* ms . us *)
  | 2 => w * 1000000000 + f * 1000000                   (* s . ms *)
  | 3 => w * 60000000000 + f * 1000000000               (* m . s  (the fraction counts seconds) *)
  | _ => w * 3600000000000 + f * 60000000000            (* h . m  (the fraction counts minutes) *)
  end.
Definition fmt_step (c : N) : N :=
  match c / 1000000 with 0 => 1 | 1 => 1000 | 2 => 1000000 | 3 => 1000000000 | _ => 60000000000 end.

Lemma decode u w f : w < 1000 -> f < 1000 ->
  (u * 1000000 + w * 1000 + f) / 1000000 = u /\ ((u * 1000000 + w * 1000 + f) / 1000) mod 1000 = w /\
  (u * 1000000 + w * 1000 + f) mod 1000 = f.
Proof.
  intros Hw Hf. set (c := u * 1000000 + w * 1000 + f).
  assert (A : c / 1000 = u * 1000 + w).
  { symmetry. apply (N.div_unique c 1000 (u * 1000 + w) f); [exact Hf|unfold c; lia]. }
  assert (B : c mod 1000 = f).
  { symmetry. apply (N.mod_unique c 1000 (u * 1000 + w) f); [exact Hf|unfold c; lia]. }
  repeat split.
  - symmetry. apply (N.div_unique c 1000000 u (w * 1000 + f)); [lia|unfold c; lia].
  - rewrite A. symmetry. apply (N.mod_unique (u * 1000 + w) 1000 u w); [exact Hw|lia].
  - exact B.
Qed.

Theorem fmt_time_truncates d : 0 < d -> d < 3600000000000000 ->
  fmt_lo (fmt_time d) <= d /\ d < fmt_lo (fmt_time d) + fmt_step (fmt_time d).
Proof.
  intros H0 H1. unfold fmt_time.
  replace (d =? 0) with false by lia.
  replace (d <? 9223372036854775808) with true by lia.
  unfold time_limits, UV.Gen.TimeUnit.TIME_UNIT_LIMITS. cbn [fmt_loop].
  pose proof (N.div_mod d 1000 ltac:(lia)) as E0. pose proof (N.mod_lt d 1000 ltac:(lia)) as L0.
  set (q0 := d / 1000) in *. set (r0 := d mod 1000) in *.
  destruct (q0 <? 1000) eqn:T0.
  { replace (999 <? q0) with false by lia. unfold fmt_lo, fmt_step.
    destruct (decode 0 q0 r0 ltac:(lia) L0) as (A & B & C). rewrite A, B, C. lia. }
  pose proof (N.div_mod q0 1000 ltac:(lia)) as E1. pose proof (N.mod_lt q0 1000 ltac:(lia)) as L1.
  set (q1 := q0 / 1000) in *. set (r1 := q0 mod 1000) in *.
  replace (0 + 1) with 1 by lia.
  destruct (q1 <? 1000) eqn:T1.
  { replace (999 <? q1) with false by lia. unfold fmt_lo, fmt_step.
    destruct (decode 1 q1 r1 ltac:(lia) L1) as (A & B & C). rewrite A, B, C. lia. }
  pose proof (N.div_mod q1 1000 ltac:(lia)) as E2. pose proof (N.mod_lt q1 1000 ltac:(lia)) as L2.
  set (q2 := q1 / 1000) in *. set (r2 := q1 mod 1000) in *.
  replace (1 + 1) with 2 by lia.
  destruct (q2 <? 60) eqn:T2.
  { replace (999 <? q2) with false by lia. unfold fmt_lo, fmt_step.
    destruct (decode 2 q2 r2 ltac:(lia) L2) as (A & B & C). rewrite A, B, C. lia. }
  pose proof (N.div_mod q2 60 ltac:(lia)) as E3. pose proof (N.mod_lt q2 60 ltac:(lia)) as L3.
  set (q3 := q2 / 60) in *. set (r3 := q2 mod 60) in *.
  replace (2 + 1) with 3 by lia.
  destruct (q3 <? 60) eqn:T3.
  { replace (999 <? q3) with false by lia. unfold fmt_lo, fmt_step.
    destruct (decode 3 q3 r3 ltac:(lia) ltac:(lia)) as (A & B & C). rewrite A, B, C. lia. }
  pose proof (N.div_mod q3 60 ltac:(lia)) as E4. pose proof (N.mod_lt q3 60 ltac:(lia)) as L4.
  set (q4 := q3 / 60) in *. set (r4 := q3 mod 60) in *.
  replace (3 + 1) with 4 by lia.
  assert (q4 < 1000) by lia.
  replace (999 <? q4) with false by lia. unfold fmt_lo, fmt_step.
  destruct (decode 4 q4 r4 ltac:(lia) ltac:(lia)) as (A & B & C). rewrite A, B, C. lia.
Qed.

(* non-vacuity / what the units mean: 1 min 30 s is printed "1.030 m", 2 h 5 min "2.005 h" *)
Example fmt_examples :
  fmt_time 90000000000 = 3001030 /\ fmt_lo 3001030 = 90000000000 /\
  fmt_time 7500000000000 = 4002005 /\ fmt_lo 4002005 = 7500000000000 /\ fmt_step 4002005 = 60000000000.
Proof. vm_compute. repeat split; reflexivity. Qed.
