(* C06 - the perf source of the reader: context-switch events (perf-cpuN.dat) merged with the user records
   (utils/fstack.c __read_rstack, utils/perf.c read_perf_data) and the virtual schedule call they become
   (convert_perf_event: sched-out = ENTRY, sched-in = EXIT, acting on the top of func_stack by position only).
   An extension of UV.C06.Model for the --no-merge view; the base model is used unchanged for user records.
   No proofs here (run by vm_compute). *)
From Coq Require Import NArith List Bool.
Import ListNotations.
Require Import UV.C06.Model.
Local Open Scope N_scope.

(* p_kind: the event id shown: 1 = linux:sched-in, 2 = linux:sched-out, 3 = linux:sched-out-preempt *)
Record pev := mkpev { p_time : N; p_task : nat; p_kind : N }.
Definition p_out (e : pev) : bool := negb (p_kind e =? 1).
Inductive item := IU (i : nat) (r : rec) | IP (e : pev).

(* read_perf_data: the oldest head among the cpus, replaced when strictly older, or - fixed code - when of the same time and
   preferred ([wins]: a sched-in) while the candidate is not *)
Fixpoint pickp (wins : pev -> bool) (cpus : list (list pev)) (c : nat) (best : option (nat * pev)) : option (nat * pev) :=
  match cpus with
  | [] => best
  | q :: rest =>
      let best' :=
        match q with
        | [] => best
        | e :: _ => match best with
                    | None => Some (c, e)
                    | Some (_, b) => if (p_time e <? p_time b) || ((p_time e =? p_time b) && wins e && negb (wins b))
                                     then Some (c, e) else best
                    end
        end in
      pickp wins rest (S c) best'
  end.
Fixpoint popp (cpus : list (list pev)) (c : nat) : list (list pev) :=
  match cpus, c with
  | [], _ => []
  | q :: rest, O => tl q :: rest
  | q :: rest, S c' => q :: popp rest c'
  end.

(* __read_rstack: the user record is the candidate first; the perf event replaces it when it is strictly older, or -
   [wins e] - on equal timestamps.  Code as found: never; the fixed code: a sched-in; the refuted variant `<=`: always *)
(* tie_perf_first only changes __read_rstack: read_perf_data stays strict because wins e && negb (wins b) is never true *)
Definition tie_user_first (e : pev) : bool := false.
Definition tie_sched_in_first (e : pev) : bool := negb (p_out e).
Definition tie_perf_first (e : pev) : bool := true.

Fixpoint merge_x (wins : pev -> bool) (fuel : nat) (qs : list (list rec)) (cpus : list (list pev)) : list item :=
  match fuel with
  | O => []
  | S f =>
      let user (i : nat) :=
        match pop qs i with Some (r, qs') => IU i r :: merge_x wins f qs' cpus | None => [] end in
      let perf (c : nat) (e : pev) := IP e :: merge_x wins f qs (popp cpus c) in
      match pick qs 0 None, pickp wins cpus 0 None with
      | None, None => []
      | Some (i, _), None => user i
      | None, Some (c, e) => perf c e
      | Some (i, ut), Some (c, e) =>
          if (p_time e <? ut) || ((p_time e =? ut) && wins e) then perf c e else user i
      end
  end.
Definition total_plen (cpus : list (list pev)) : nat := fold_right (fun q n => (length q + n)%nat) O cpus.

(* read_perf_event skips the events of tasks that are not read (--tid) *)
Definition mask_cpus (sel : option (list nat)) (cpus : list (list pev)) : list (list pev) :=
  map (filter (fun e => selected sel (p_task e))) cpus.

(* the virtual record of convert_perf_event: depth 0, address = event id *)
Definition dummy (e : pev) : rec := mkrec (p_time e) (if p_out e then ENTRY else EXIT) 0 (p_kind e).
(* fstack_update_stack_count for it: ctx is FSTACK_CTX_UNKNOWN, so user_stack_count stays; an EXIT clears longjmp_pending *)
Definition count_p (ts : tstate) (d : rec) : tstate :=
  match r_type d with
  | ENTRY => mkts (t_set ts) (t_sc ts + 1) (t_dd ts) (t_fork_dd ts) (t_stack ts) (t_ts ts) (t_ts_last ts) (t_orphan ts)
                  (t_usc ts) (t_lost ts) (t_ljp ts) (t_ljd ts)
  | EXIT => mkts (t_set ts) (N.pred (t_sc ts)) (t_dd ts) (t_fork_dd ts) (t_stack ts) (t_ts ts) (t_ts_last ts) (t_orphan ts)
                 (t_usc ts) (t_lost ts) false (t_ljd ts)
  | LOST => ts
  end.
Definition consume_p (inh : N) (ts : tstate) (d : rec) : tstate :=
  count_p (account (resync (first_setup inh ts d) d) d) d.

(* lines: those of the base model, and event comments (task, indent, event id, duration, time) *)
Inductive xline := XL (l : line) | XE (i : nat) (indent ev dur time : N).

(* print_graph_rstack, UFTRACE_EVENT (--no-merge: no look-ahead): the comment stands at the display depth; a sched-in shows
   total_time of the slot just left (func_stack[stack_count]) when that is not 0 *)
Definition sched_step (tasks : list task) (g : gstate) (e : pev) : xline * gstate :=
  let i := p_task e in
  let d := dummy e in
  let ts := consume_p (inherit tasks g i) (tget g i) d in
  let dur := if p_out e then 0 else f_time (fget (t_stack ts) (t_sc ts)) in
  (XE i (t_dd ts) (p_kind e) dur (p_time e),
   mkg (tupd (g_tasks g) i ts) (upd_first (g_first g) (p_time e)) (if p_time e =? 0 then g_prev g else p_time e) (g_sjd g) (g_sjc g)).

Fixpoint run_x (forks : list N) (tasks : list task) (l : list item) (g : gstate) : list xline * gstate :=
  match l with
  | [] => ([], g)
  | IU i r :: tl =>
      let '(ls, g1) := run (mkcfg false forks) tasks [(i, r)] g in
      let '(out, g') := run_x forks tasks tl g1 in
      (map XL ls ++ out, g')
  | IP e :: tl =>
      let '(ln, g1) := sched_step tasks g e in
      let '(out, g') := run_x forks tasks tl g1 in
      (* fstack_check_opts, opts->event_skip_out (default): an event outside of the user functions is read but not shown *)
      ((if t_usc (tget g1 (p_task e)) =? 0 then [] else [ln]) ++ out, g')
  end.

Definition view_x (f : fields) (x : xline) : xline :=
  match x with
  | XL l => XL (view_line f (fmt_line l))
  | XE i ind ev dur t => XE (if fd_tid f then i else O) ind ev (if fd_dur f then fmt_time dur else 0) (if fd_time f then t else 0)
  end.

(* `uftrace replay --no-merge [--tid sel] -f fields` on user records + perf events *)
Definition replay_x (wins : pev -> bool) (forks : list N) (sel : option (list nat)) (f : fields)
                    (tasks : list task) (cpus : list (list pev)) : list xline :=
  let qs := mask_queues sel tasks 0 in
  let cs := mask_cpus sel cpus in
  map (view_x f) (fst (run_x forks tasks (merge_x wins (total_len qs + total_plen cs) qs cs) (init_g sel tasks))).

Definition users (xs : list xline) : list line := flat_map (fun x => match x with XL l => [l] | _ => [] end) xs.

(* ------------------------------------------------------------------ executable checks *)
Definition xline_eqb (a b : xline) : bool :=
  match a, b with
  | XL l, XL l' => line_eqb l l'
  | XE i n e d t, XE i' n' e' d' t' => Nat.eqb i i' && (n =? n') && (e =? e') && (d =? d') && (t =? t')
  | _, _ => false
  end.

(* the schedule durations of an observed output (fields duration, tid, time shown): a sched-in of task i shows the time since
   the task's last sched-out (print_time_unit code), blank when there was none *)
Fixpoint lookup_out (outs : list (nat * N)) (i : nat) : option N :=
  match outs with [] => None | (j, t) :: r => if Nat.eqb i j then Some t else lookup_out r i end.
Fixpoint sched_durs (outs : list (nat * N)) (xs : list xline) : bool :=
  match xs with
  | [] => true
  | XL _ :: r => sched_durs outs r
  | XE i _ ev dur t :: r =>
      if ev =? 1
      then (match lookup_out outs i with Some t0 => dur =? fmt_time (t - t0) | None => dur =? 0 end) && sched_durs outs r
      else (dur =? 0) && sched_durs ((i, t) :: outs) r
  end.

(* the property on an observed --no-merge output of data with sched events: the user calls' lines are exactly those of the same
   data without the perf source (whose durations and nesting are exact: C06_calls_exact, C06_forest_exact), and every
   sched-in shows the time its task was switched out *)
Definition ok_sched (forks : list N) (sel : option (list nat)) (f : fields) (tasks : list task) (obs : list xline) : bool :=
  list_eqb line_eqb (users obs) (fst (replay forks (mkvariant false sel f None false) tasks)) &&
  (if fd_dur f && fd_tid f && fd_time f then sched_durs [] obs else true).

Definition xcase := (list N * list task * list (list pev) * list (option (list nat) * fields * list xline))%type.
Definition agree_xcase (wins : pev -> bool) (c : xcase) : list bool :=
  let '(forks, tasks, cpus, vs) := c in
  map (fun x : option (list nat) * fields * list xline =>
         let '(sel, f, obs) := x in list_eqb xline_eqb (replay_x wins forks sel f tasks cpus) obs) vs.
Definition check_xcase (c : xcase) : list bool :=
  let '(forks, tasks, cpus, vs) := c in
  map (fun x : option (list nat) * fields * list xline =>
         let '(sel, f, obs) := x in ok_sched forks sel f tasks obs) vs.
