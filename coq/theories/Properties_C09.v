(* Property C09 - only statements, each closed by [exact]. *)
From Coq Require Import NArith ZArith List Bool.
Import ListNotations.
Require Import UV.Gen.Consts UV.C09.Model UV.C09.Proofs.
Local Open Scope N_scope.

(* Framing: for EVERY spec list (any formats, sizes, register/stack/struct addressing) and every input,
   if save_to_argbuf accepts the data (payload = Some p), read_task_args - which recomputes each length from
   the stream - consumes exactly p and the writer's padding to 8 bytes, and hands back the bytes behind it.
   (wf_spec: a string spec has a non-zero size, as parse_argspec always produces.) *)
Theorem C09_framing : forall fill inp is_ret specs bg p rest,
  Forall wf_spec specs ->
  m_unmodelled (run fill inp is_ret specs) = false ->
  payload (run fill inp is_ret specs) = Some p ->
  read_args is_ret specs (fit (ALIGN (lenN p) 8) bg p ++ rest) = Some (p, rest).
Proof. exact framing. Qed.
Print Assumptions C09_framing.

(* Resync: whatever the payload size, the record is decoded to itself and decoding continues exactly at
   the record that follows (writer's ALIGN(size,8) = reader's 8 - len mod 8). *)
Theorem C09_stream_resync : forall k specs_of bg fill inp t ty depth addr pl rest,
  t < 2 ^ 64 -> ty < 4 -> depth < 1024 -> addr < 2 ^ 48 ->
  Forall wf_spec (specs_of addr) ->
  m_unmodelled (run fill inp (ty =? UFTRACE_EXIT) (specs_of addr)) = false ->
  (pl = None \/ pl = payload (run fill inp (ty =? UFTRACE_EXIT) (specs_of addr))) ->
  decode_stream (S k) specs_of (enc_rec bg t ty depth addr pl ++ rest) =
  {| d_time := t; d_type := ty; d_depth := depth; d_addr := addr; d_args := pl |} :: decode_stream k specs_of rest.
Proof. exact stream_resync. Qed.
Print Assumptions C09_stream_resync.

(* The string copy loop of save_to_argbuf, in closed form. *)
Theorem C09_string_short_intact : forall s junk bound,
  nz s -> lenN s < ARG_STR_MAX -> lenN s < bound ->
  copy_loop (s ++ 0 :: junk) 0 bound [] 0 = (s ++ [0], lenN s).
Proof. exact copy_loop_short. Qed.
Print Assumptions C09_string_short_intact.

Theorem C09_string_long_truncated : forall s1 c junk bound,
  nz s1 -> lenN s1 = ARG_STR_MAX -> ARG_STR_MAX < bound ->
  copy_loop (s1 ++ c :: junk) 0 bound [] 0 = (takeN (ARG_STR_MAX - 3) s1 ++ [46; 46; 46; 0], ARG_STR_MAX).
Proof. exact copy_loop_long. Qed.
Print Assumptions C09_string_long_truncated.

(* Fetch: an integer-class spec (size 1/2/4/8) captures the low bytes of the word the SysV ABI assigns:
   argN -> rdi,rsi,rdx,rcx,r8,r9 (N <= 6) or stack word N-6 (7 <= N <= 100); %reg / %stack+k directly. *)
Theorem C09_fetch : forall inp s val w,
  arg_word inp s = Some w -> lenN val = VAL_SIZE ->
  s_size s = 1 \/ s_size s = 2 \/ s_size s = 4 \/ s_size s = 8 ->
  takeN (ALIGN (s_size s) 4) (get_arg inp s val) = takeN (ALIGN (s_size s) 4) (le_bytes 8 w).
Proof. exact fetch_word. Qed.
Print Assumptions C09_fetch.

(* ... but arg101..arg108 are taken for xmm0..xmm7 (register numbers alias) *)
Theorem C09_fetch_arg101_refuted :
  let inp := {| regs := [0; 0; 0; 0; 0; 0]; xmm := [0xdeadbeef]; stk := repeat 7 120; rets := []; strs := []; wrds := [] |} in
  takeN 8 (get_arg inp (Sp 101 FAuto 8 TIndex 0) val0) = le_bytes 8 0xdeadbeef /\
  takeN 8 (get_arg inp (Sp 100 FAuto 8 TIndex 0) val0) = le_bytes 8 7.
Proof. exact arg101_reads_xmm0_refuted. Qed.
Print Assumptions C09_fetch_arg101_refuted.

(* Stores stay inside the per-frame buffer?  Refuted, with the exact extent proved: *)
Theorem C09_within_argbuf_success_refuted :
  let specs := [ {| s_idx := 30; s_fmt := FStruct; s_size := 1016; s_type := TStack; s_u := 1%Z; s_regs := []; s_name := [] |};
                 spec_str 1 ] in
  let st := run 0 (inp1 4096 [(4096, [97; 98])]) false specs in
  result st = Some 1020 /\ m_hi st = ARGBUF_SIZE + 1.
Proof. exact overflow_success_refuted. Qed.
Print Assumptions C09_within_argbuf_success_refuted.

Theorem C09_within_argbuf_scalars_refuted :
  let st := run 0 (inp1 0 []) false (many_specs 100 ++ map (fun i => Sp 1 FHex 8 TStack (N.of_nat i)) (seq 1 40)) in
  result st = None /\ m_hi st = ARGBUF_SIZE + 100.
Proof. exact overflow_scalars_refuted. Qed.
Print Assumptions C09_within_argbuf_scalars_refuted.

(* without struct specs every store ends at most one byte behind the data accepted so far ... *)
Theorem C09_store_extent : forall fill inp is_ret specs,
  Forall no_struct specs -> m_hi (run fill inp is_ret specs) <= 4 + m_total (run fill inp is_ret specs) + 1.
Proof. exact store_extent. Qed.
Print Assumptions C09_store_extent.

(* ... hence at most one byte past the buffer whenever the data is accepted *)
Theorem C09_store_bound_success : forall fill inp is_ret specs n,
  Forall no_struct specs -> result (run fill inp is_ret specs) = Some n ->
  m_hi (run fill inp is_ret specs) <= ARGBUF_SIZE + 1.
Proof. exact store_bound_success. Qed.
Print Assumptions C09_store_bound_success.

(* a string of exactly ARG_STR_MAX characters is recorded as 95 characters + "..." although it fits *)
Theorem C09_len98_refuted :
  let st := run 0 (inp1 4096 [(4096, s98)]) false [spec_str 1] in
  payload st = Some (le_bytes 2 98 ++ repeat 65 95 ++ [46; 46; 46]) /\
  ok_args [(spec_str 1, AStr s98)] (show_args [] [spec_str 1] (payload st)) = false.
Proof. exact len98_refuted. Qed.
Print Assumptions C09_len98_refuted.

(* `arg1/c64,arg2/i32`: get_argspec_string steps over 4 of the 8 bytes, arg2 is shown from arg1's upper half *)
Theorem C09_char64_refuted :
  let specs := [Sp 1 FChar 8 TIndex 0; Sp 2 FSint 4 TIndex 0] in
  let inp := {| regs := [0x1122334455667741; 7; 0; 0; 0; 0]; xmm := []; stk := []; rets := []; strs := []; wrds := [] |} in
  let st := run 0 inp false specs in
  show_args [] specs (payload st) = [40; 39; 65; 39; 44; 32] ++ dec 0x11223344 ++ [41] /\
  ok_args [(Sp 1 FChar 8 TIndex 0, AInt 0x1122334455667741); (Sp 2 FSint 4 TIndex 0, AInt 7)]
          (show_args [] specs (payload st)) = false.
Proof. exact c64_refuted. Qed.
Print Assumptions C09_char64_refuted.

(* a stack struct of 18 bytes loses its last two bytes (mcount_memcpy4 copies len/4 words) *)
Theorem C09_struct_tail_refuted :
  let sp := {| s_idx := 1; s_fmt := FStruct; s_size := 18; s_type := TStack; s_u := 1%Z; s_regs := []; s_name := [] |} in
  let inp := {| regs := []; xmm := []; stk := [0x0807060504030201; 0x100f0e0d0c0b0a09; 0x1817161514131211]; rets := []; strs := []; wrds := [] |} in
  payload (run 0xA5 inp false [sp]) =
  Some [1; 2; 3; 4; 5; 6; 7; 8; 9; 10; 11; 12; 13; 14; 15; 16; 0xA5; 0xA5; 0xA5; 0xA5].
Proof. exact struct18_tail_lost_refuted. Qed.
Print Assumptions C09_struct_tail_refuted.

(* an argument without format ('long int' by the manual) whose value is 4294967295 is shown as "(-1)" *)
Theorem C09_auto_neg32_refuted :
  let sp := Sp 1 FAuto 8 TIndex 0 in
  let inp := {| regs := [0xffffffff; 0; 0; 0; 0; 0]; xmm := []; stk := []; rets := []; strs := []; wrds := [] |} in
  show_args [] [sp] (payload (run 0 inp false [sp])) = [40; 45; 49; 41] /\
  ok_args [(sp, AInt 0xffffffff)] (show_args [] [sp] (payload (run 0 inp false [sp]))) = false.
Proof. exact auto_neg32_refuted. Qed.
Print Assumptions C09_auto_neg32_refuted.
