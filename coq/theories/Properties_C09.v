(* Property C09 - only statements, each closed by [exact]. *)
From Coq Require Import NArith ZArith List Bool.
Import ListNotations.
Require Import UV.Gen.Consts UV.C09.Model UV.C09.Proofs.
Local Open Scope N_scope.

(* Framing: for EVERY spec list (any formats, sizes, register/stack/struct addressing) and every input,
   if save_to_argbuf accepts the data (payload = Some p), read_task_args - which recomputes each length from
   the stream - consumes exactly p and the writer's padding to 8 bytes, and hands back the bytes behind it.
   (wf_spec: a string spec has a non-zero size, as parse_argspec always produces.) *)
Theorem C09_framing : forall fill inp is_ret specs bg p rest,
  Forall wf_spec specs ->
  m_unmodelled (run fill inp is_ret specs) = false ->
  payload (run fill inp is_ret specs) = Some p ->
  read_args is_ret specs (fit (ALIGN (lenN p) 8) bg p ++ rest) = Some (p, rest).
Proof. exact framing. Qed.
Print Assumptions C09_framing.

(* Resync: whatever the payload size, the record is decoded to itself and decoding continues exactly at
   the record that follows (writer's ALIGN(size,8) = reader's 8 - len mod 8). *)
Theorem C09_stream_resync : forall k specs_of bg fill inp t ty depth addr pl rest,
  t < 2 ^ 64 -> ty < 4 -> depth < 1024 -> addr < 2 ^ 48 ->
  Forall wf_spec (specs_of addr) ->
  m_unmodelled (run fill inp (ty =? UFTRACE_EXIT) (specs_of addr)) = false ->
  (pl = None \/ pl = payload (run fill inp (ty =? UFTRACE_EXIT) (specs_of addr))) ->
  decode_stream (S k) specs_of (enc_rec bg t ty depth addr pl ++ rest) =
  {| d_time := t; d_type := ty; d_depth := depth; d_addr := addr; d_args := pl |} :: decode_stream k specs_of rest.
Proof. exact stream_resync. Qed.
Print Assumptions C09_stream_resync.

(* The string copy loop of save_to_argbuf, in closed form. *)
Theorem C09_string_short_intact : forall s junk bound,
  nz s -> lenN s < ARG_STR_MAX -> lenN s < bound ->
  copy_loop (s ++ 0 :: junk) 0 bound [] 0 = (s ++ [0], lenN s).
Proof. exact copy_loop_short. Qed.
Print Assumptions C09_string_short_intact.

Theorem C09_string_long_truncated : forall s1 c junk bound,
  nz s1 -> lenN s1 = ARG_STR_MAX -> ARG_STR_MAX < bound ->
  copy_loop (s1 ++ c :: junk) 0 bound [] 0 = (takeN (ARG_STR_MAX - 3) s1 ++ [46; 46; 46; 0], ARG_STR_MAX).
Proof. exact copy_loop_long. Qed.
Print Assumptions C09_string_long_truncated.
