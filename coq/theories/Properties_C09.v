(* Property C09 - only statements, each closed by [exact].
   UV.C09.Model describes the code as it is now (after the fix: commits for len98 / overflow / c64);
   UV.C09.Legacy describes it as it was before them and is used only in the ..._legacy_refuted theorems. *)
From Coq Require Import NArith ZArith List Bool.
Import ListNotations.
Require Import UV.Gen.Consts UV.C09.Model UV.C09.Proofs.
Require UV.C09.Legacy UV.C09.LegacyProofs.
Local Open Scope N_scope.

(* ---------------------------------------------------------------- framing and resync *)
(* For EVERY spec list (any formats, sizes, register/stack/struct addressing) and every input, if save_to_argbuf
   accepts the data (payload = Some p), read_task_args - which recomputes each length from the stream - consumes
   exactly p and the writer's padding to 8 bytes, and hands back the bytes behind it.
   (wf_spec: a string spec has a non-zero size, as parse_argspec always produces.) *)
Theorem C09_framing : forall fill inp is_ret specs bg p rest,
  Forall wf_spec specs ->
  m_unmodelled (run fill inp is_ret specs) = false ->
  payload (run fill inp is_ret specs) = Some p ->
  read_args is_ret specs (fit (ALIGN (lenN p) 8) bg p ++ rest) = Some (p, rest).
Proof. exact framing. Qed.
Print Assumptions C09_framing.

(* Whatever the payload size, the record is decoded to itself and decoding continues exactly at the record
   that follows (writer's ALIGN(size,8) = reader's 8 - len mod 8). *)
Theorem C09_stream_resync : forall k specs_of bg fill inp t ty depth addr pl rest,
  t < 2 ^ 64 -> ty < 4 -> depth < 1024 -> addr < 2 ^ 48 ->
  Forall wf_spec (specs_of addr) ->
  m_unmodelled (run fill inp (ty =? UFTRACE_EXIT) (specs_of addr)) = false ->
  (pl = None \/ pl = payload (run fill inp (ty =? UFTRACE_EXIT) (specs_of addr))) ->
  decode_stream (S k) specs_of (enc_rec bg t ty depth addr pl ++ rest) =
  {| d_time := t; d_type := ty; d_depth := depth; d_addr := addr; d_args := pl |} :: decode_stream k specs_of rest.
Proof. exact stream_resync. Qed.
Print Assumptions C09_stream_resync.

(* ---------------------------------------------------------------- inside the per-frame buffer *)
(* Without struct specs NO store of save_to_argbuf goes past the frame's 1024-byte argument buffer - for every
   spec list and every input, accepted or refused. *)
Theorem C09_within_argbuf : forall fill inp is_ret specs,
  Forall no_struct specs -> m_hi (run fill inp is_ret specs) <= ARGBUF_SIZE.
Proof. exact within_argbuf. Qed.
Print Assumptions C09_within_argbuf.

(* a struct given with registers is still copied without looking at the room (8 bytes per register, plus
   spec->size bytes from the stack because reg_idx and stack_ofs share a union) *)
Theorem C09_within_argbuf_struct_regs_refuted :
  let specs := [ {| s_idx := 30; s_fmt := FStruct; s_size := 1016; s_type := TStack; s_u := 1%Z; s_regs := []; s_name := [] |};
                 {| s_idx := 1; s_fmt := FStruct; s_size := 4; s_type := TReg; s_u := 2%Z; s_regs := [1%Z; 2%Z]; s_name := [] |} ] in
  let st := run 0 (inp1 7 []) false specs in
  result st = Some 1020 /\ m_hi st = ARGBUF_SIZE + 16.
Proof. exact struct_regs_overflow_refuted. Qed.
Print Assumptions C09_within_argbuf_struct_regs_refuted.

(* before the fix: one byte past the buffer on the success path, unbounded with many scalars *)
Theorem C09_within_argbuf_legacy_refuted :
  (let specs := [ {| Legacy.s_idx := 30; Legacy.s_fmt := Legacy.FStruct; Legacy.s_size := 1016; Legacy.s_type := Legacy.TStack;
                     Legacy.s_u := 1%Z; Legacy.s_regs := []; Legacy.s_name := [] |}; LegacyProofs.spec_str 1 ] in
   let st := Legacy.run 0 (LegacyProofs.inp1 4096 [(4096, [97; 98])]) false specs in
   Legacy.result st = Some 1020 /\ Legacy.m_hi st = ARGBUF_SIZE + 1) /\
  (let st := Legacy.run 0 (LegacyProofs.inp1 0 []) false
               (LegacyProofs.many_specs 100 ++ map (fun i => Legacy.Sp 1 Legacy.FHex 8 Legacy.TStack (N.of_nat i)) (seq 1 40)) in
   Legacy.result st = None /\ Legacy.m_hi st = ARGBUF_SIZE + 100).
Proof. exact (conj LegacyProofs.overflow_success_refuted LegacyProofs.overflow_scalars_refuted). Qed.
Print Assumptions C09_within_argbuf_legacy_refuted.

(* ---------------------------------------------------------------- fetch *)
(* An integer-class spec (size 1/2/4/8) captures the low bytes of the word the SysV ABI assigns:
   argN -> rdi,rsi,rdx,rcx,r8,r9 (N <= 6) or stack word N-6 (7 <= N <= 100); %reg / %stack+k directly. *)
Theorem C09_fetch : forall inp s val w,
  arg_word inp s = Some w -> lenN val = VAL_SIZE ->
  s_size s = 1 \/ s_size s = 2 \/ s_size s = 4 \/ s_size s = 8 ->
  takeN (ALIGN (s_size s) 4) (get_arg inp s val) = takeN (ALIGN (s_size s) 4) (le_bytes 8 w).
Proof. exact fetch_word. Qed.
Print Assumptions C09_fetch.

(* ... but arg101..arg108 are taken for xmm0..xmm7 (register numbers alias) *)
Theorem C09_fetch_arg101_refuted :
  let inp := {| regs := [0; 0; 0; 0; 0; 0]; xmm := [0xdeadbeef]; stk := repeat 7 120; rets := []; strs := []; wrds := [] |} in
  takeN 8 (get_arg inp (Sp 101 FAuto 8 TIndex 0) val0) = le_bytes 8 0xdeadbeef /\
  takeN 8 (get_arg inp (Sp 100 FAuto 8 TIndex 0) val0) = le_bytes 8 7.
Proof. exact arg101_reads_xmm0_refuted. Qed.
Print Assumptions C09_fetch_arg101_refuted.

(* ---------------------------------------------------------------- values: from the registers to replay's text *)
(* An integer or character argument at any position of any call (the loop not left, room for it): the bytes
   appended are the low bytes of the word the ABI assigns and replay renders them as an accepted rendering of
   exactly that value (signed/unsigned decimal, hex or octal; 'c'), stepping over exactly these bytes. *)
Theorem C09_int_arg_roundtrip : forall syms fill inp st s w,
  m_stop st = false -> is_arg s -> lenN (m_val st) = VAL_SIZE ->
  arg_word inp s = Some w ->
  m_total st + ALIGN (s_size s) 4 <= MAX_SIZE ->
  (int_fmt (s_fmt s) /\ (s_size s = 1 \/ s_size s = 2 \/ s_size s = 4 \/ s_size s = 8) /\ ~ neg32_class s w) \/
  (s_fmt s = FChar /\ (s_size s = 1 \/ s_size s = 2 \/ s_size s = 4 \/ s_size s = 8)) ->
  exists chunk,
    m_done (step fill inp false st s) = m_done st ++ chunk /\
    lenN chunk = ALIGN (s_size s) 4 /\
    m_total (step fill inp false st s) = m_total st + lenN chunk /\
    forall later, In (fst (show_one syms s (chunk ++ later))) (accept s (AInt w)) /\
                  snd (show_one syms s (chunk ++ later)) = lenN chunk.
Proof. exact int_arg_roundtrip. Qed.
Print Assumptions C09_int_arg_roundtrip.

(* the guard ~neg32_class is exact: an argument without format ('long int' by the manual) whose value is
   4294967295 is shown as "(-1)"  (listed defect auto-neg32) *)
Theorem C09_auto_neg32_refuted :
  let sp := Sp 1 FAuto 8 TIndex 0 in
  let inp := {| regs := [0xffffffff; 0; 0; 0; 0; 0]; xmm := []; stk := []; rets := []; strs := []; wrds := [] |} in
  show_args [] [sp] (payload (run 0 inp false [sp])) = [40; 45; 49; 41] /\
  ok_args [(sp, AInt 0xffffffff)] (show_args [] [sp] (payload (run 0 inp false [sp]))) = false.
Proof. exact auto_neg32_refuted. Qed.
Print Assumptions C09_auto_neg32_refuted.

(* before the fix `argN/c64` made replay step over 4 of the 8 bytes *)
Theorem C09_char64_legacy_refuted :
  let specs := [Legacy.Sp 1 Legacy.FChar 8 Legacy.TIndex 0; Legacy.Sp 2 Legacy.FSint 4 Legacy.TIndex 0] in
  let inp := {| Legacy.regs := [0x1122334455667741; 7; 0; 0; 0; 0]; Legacy.xmm := []; Legacy.stk := []; Legacy.rets := [];
                Legacy.strs := []; Legacy.wrds := [] |} in
  let st := Legacy.run 0 inp false specs in
  Legacy.show_args [] specs (Legacy.payload st) = [40; 39; 65; 39; 44; 32] ++ Legacy.dec 0x11223344 ++ [41] /\
  Legacy.ok_args [(Legacy.Sp 1 Legacy.FChar 8 Legacy.TIndex 0, Legacy.AInt 0x1122334455667741);
                  (Legacy.Sp 2 Legacy.FSint 4 Legacy.TIndex 0, Legacy.AInt 7)]
                 (Legacy.show_args [] specs (Legacy.payload st)) = false.
Proof. exact LegacyProofs.c64_refuted. Qed.
Print Assumptions C09_char64_legacy_refuted.

(* A readable NUL-terminated string argument at any position of any call whose encoding has room: shown as
   itself (up to ARG_STR_MAX characters) or as its first ARG_STR_MAX-3 characters and "..." (longer), quoted,
   raw or with print_escaped_char's escapes; every length 0, 1, 2, ... and every byte value 1..255. *)
Theorem C09_str_arg_roundtrip : forall syms fill inp st s p c,
  m_stop st = false -> is_arg s -> s_fmt s = FStr -> s_size s = 8 -> lenN (m_val st) = VAL_SIZE ->
  arg_word inp s = Some p -> p < 2 ^ 64 -> p <> 0 -> lookup_str (strs inp) p = Some c ->
  nz c -> c <> [255; 255; 255; 255] ->
  m_total st + need s (AStr c) <= MAX_SIZE ->
  exists chunk,
    m_done (step fill inp false st s) = m_done st ++ chunk /\
    lenN chunk = need s (AStr c) /\
    m_total (step fill inp false st s) = m_total st + lenN chunk /\
    forall later, In (fst (show_one syms s (chunk ++ later))) (accept s (AStr c)) /\
                  snd (show_one syms s (chunk ++ later)) = lenN chunk.
Proof. exact str_arg_roundtrip. Qed.
Print Assumptions C09_str_arg_roundtrip.

(* the guard c <> "\xff\xff\xff\xff" is exact: that string is shown as NULL (the readers' marker for NULL) *)
Theorem C09_ffff_string_refuted :
  let st := run 0 (inp1 4096 [(4096, [255; 255; 255; 255])]) false [spec_str 1] in
  show_args [] [spec_str 1] (payload st) = [40] ++ null_str ++ [41].
Proof. exact ffff_refuted. Qed.
Print Assumptions C09_ffff_string_refuted.

(* the string copy loop in closed form *)
Theorem C09_string_copy_intact : forall s junk bound,
  nz s -> lenN s <= ARG_STR_MAX -> lenN s < bound ->
  copy_loop (s ++ 0 :: junk) 0 bound [] 0 = (s ++ [0], lenN s).
Proof. exact copy_loop_short. Qed.
Print Assumptions C09_string_copy_intact.

Theorem C09_string_copy_truncated : forall s1 c junk bound,
  nz s1 -> lenN s1 = ARG_STR_MAX -> c <> 0 -> ARG_STR_MAX < bound ->
  copy_loop (s1 ++ c :: junk) 0 bound [] 0 = (takeN (ARG_STR_MAX - 3) s1 ++ [46; 46; 46; 0], ARG_STR_MAX).
Proof. exact copy_loop_long. Qed.
Print Assumptions C09_string_copy_truncated.

(* before the fix a string of exactly ARG_STR_MAX characters was recorded as 95 characters + "..." *)
Theorem C09_len98_legacy_refuted :
  let st := Legacy.run 0 (LegacyProofs.inp1 4096 [(4096, LegacyProofs.s98)]) false [LegacyProofs.spec_str 1] in
  Legacy.payload st = Some (Legacy.le_bytes 2 98 ++ repeat 65 95 ++ [46; 46; 46]) /\
  Legacy.ok_args [(LegacyProofs.spec_str 1, Legacy.AStr LegacyProofs.s98)]
                 (Legacy.show_args [] [LegacyProofs.spec_str 1] (Legacy.payload st)) = false.
Proof. exact LegacyProofs.len98_refuted. Qed.
Print Assumptions C09_len98_legacy_refuted.

(* a stack struct of 18 bytes loses its last two bytes (mcount_memcpy4 copies len/4 words) *)
Theorem C09_struct_tail_refuted :
  let sp := {| s_idx := 1; s_fmt := FStruct; s_size := 18; s_type := TStack; s_u := 1%Z; s_regs := []; s_name := [] |} in
  let inp := {| regs := []; xmm := []; stk := [0x0807060504030201; 0x100f0e0d0c0b0a09; 0x1817161514131211]; rets := []; strs := []; wrds := [] |} in
  payload (run 0xA5 inp false [sp]) =
  Some [1; 2; 3; 4; 5; 6; 7; 8; 9; 10; 11; 12; 13; 14; 15; 16; 0xA5; 0xA5; 0xA5; 0xA5].
Proof. exact struct18_tail_lost_refuted. Qed.
Print Assumptions C09_struct_tail_refuted.

(* An unreadable string pointer: the stored bytes depend on the pointer VALUE only (the model performs no
   load through it) and replay shows "<0x...>" with that value *)
Theorem C09_unreadable_pointer : forall syms fill inp st s p,
  m_stop st = false -> is_arg s -> s_fmt s = FStr -> s_size s = 8 -> lenN (m_val st) = VAL_SIZE ->
  arg_word inp s = Some p -> p < 2 ^ 64 -> p <> 0 -> readable inp p = false ->
  m_total st + need s (ABad p) <= MAX_SIZE ->
  exists chunk,
    m_done (step fill inp false st s) = m_done st ++ chunk /\
    lenN chunk = need s (ABad p) /\
    m_total (step fill inp false st s) = m_total st + lenN chunk /\
    forall later, In (fst (show_one syms s (chunk ++ later))) (accept s (ABad p)) /\
                  snd (show_one syms s (chunk ++ later)) = lenN chunk.
Proof. exact bad_ptr_arg_roundtrip. Qed.
Print Assumptions C09_unreadable_pointer.

Theorem C09_null_pointer : forall syms fill inp st s,
  m_stop st = false -> is_arg s -> s_fmt s = FStr -> s_size s = 8 -> lenN (m_val st) = VAL_SIZE ->
  arg_word inp s = Some 0 ->
  m_total st + need s ANull <= MAX_SIZE ->
  exists chunk,
    m_done (step fill inp false st s) = m_done st ++ chunk /\
    lenN chunk = need s ANull /\
    m_total (step fill inp false st s) = m_total st + lenN chunk /\
    forall later, In (fst (show_one syms s (chunk ++ later))) (accept s ANull) /\
                  snd (show_one syms s (chunk ++ later)) = lenN chunk.
Proof. exact null_arg_roundtrip. Qed.
Print Assumptions C09_null_pointer.

(* ---------------------------------------------------------------- whole calls *)
(* C09 roundtrip.  `covered inp s a` = spec s names (by index 1..100, %reg or %stack+1..100) a word of the call
   that is: an integer/char of size 1/2/4/8 in format d i u x o c (outside the listed auto-neg32 class), or the
   address of a NUL-free string (any length >= 0, any bytes 1..255, not "\xff\xff\xff\xff"), or an unreadable
   pointer, or NULL.  For every such argument list, in any number and order, whose encoding fits the 1020 bytes:
   the text get_argspec_string produces from the bytes save_to_argbuf recorded passes the property checker
   ok_args against the values passed (the same checker the tie applies to the real `uftrace replay` output). *)
Theorem C09_roundtrip : forall syms fill inp l,
  l <> [] ->
  Forall (fun p => is_arg (fst p) /\ covered inp (fst p) (snd p)) l ->
  fits l = true ->
  ok_args l (show_args syms (map fst l) (payload (run fill inp false (map fst l)))) = true.
Proof. exact call_roundtrip. Qed.
Print Assumptions C09_roundtrip.

(* its hypotheses are satisfiable: f(-5, "hi", <unreadable>, NULL) is shown as (-5, "hi", "<0x2000>", "NULL") *)
Theorem C09_roundtrip_nonvacuous :
  ex_call <> [] /\ Forall (fun p => is_arg (fst p) /\ covered ex_inp (fst p) (snd p)) ex_call /\ fits ex_call = true.
Proof. exact ex_call_covered. Qed.
Print Assumptions C09_roundtrip_nonvacuous.

(* ---------------------------------------------------------------- several specs on one function *)
(* Several -A / -R options can match one function; add_arg_spec merges only specs of the same class, so e.g. an
   integer-class and a float-class return value spec coexist.  The writer records ALL of them, and the reader has to
   consume all of them.  C09_framing / C09_stream_resync quantify over arbitrary spec lists (the return value side is
   a list like the argument side); here they are restated without the technical "modelled" hypothesis: every spec
   list except one containing an x87 long double return value. *)
Theorem C09_framing_any_specs : forall fill inp is_ret specs bg p rest,
  Forall wf_spec specs -> Forall not_x87_ret specs ->
  payload (run fill inp is_ret specs) = Some p ->
  read_args is_ret specs (fit (ALIGN (lenN p) 8) bg p ++ rest) = Some (p, rest).
Proof. exact framing_all. Qed.
Print Assumptions C09_framing_any_specs.

Theorem C09_stream_resync_any_specs : forall k specs_of bg fill inp t ty depth addr pl rest,
  t < 2 ^ 64 -> ty < 4 -> depth < 1024 -> addr < 2 ^ 48 ->
  Forall wf_spec (specs_of addr) -> Forall not_x87_ret (specs_of addr) ->
  (pl = None \/ pl = payload (run fill inp (ty =? UFTRACE_EXIT) (specs_of addr))) ->
  decode_stream (S k) specs_of (enc_rec bg t ty depth addr pl ++ rest) =
  {| d_time := t; d_type := ty; d_depth := depth; d_addr := addr; d_args := pl |} :: decode_stream k specs_of rest.
Proof. exact stream_resync_all. Qed.
Print Assumptions C09_stream_resync_any_specs.

(* `-R f@retval/f -R '^f$@retval'`: both values are recorded (16 bytes), both are consumed, the record behind the
   payload is decoded *)
Theorem C09_two_retvals_recorded_and_consumed :
  payload (run 0 two_rets_inp true two_rets) = Some (le_bytes 8 0x4004000000000000 ++ le_bytes 8 42) /\
  read_args true two_rets (le_bytes 8 0x4004000000000000 ++ le_bytes 8 42 ++ next_rec) =
    Some (le_bytes 8 0x4004000000000000 ++ le_bytes 8 42, next_rec) /\
  decode_stream 2 (fun _ => two_rets)
    (enc_rec 0 1000 UFTRACE_EXIT 1 0x401000 (payload (run 0 two_rets_inp true two_rets)) ++ next_rec) =
  [ {| d_time := 1000; d_type := UFTRACE_EXIT; d_depth := 1; d_addr := 0x401000;
       d_args := Some (le_bytes 8 0x4004000000000000 ++ le_bytes 8 42) |};
    {| d_time := 2000; d_type := UFTRACE_ENTRY; d_depth := 1; d_addr := 0x401000; d_args := None |} ].
Proof. exact two_rets_recorded. Qed.
Print Assumptions C09_two_retvals_recorded_and_consumed.

(* a reader that stops after the first return value spec (get_argspec_string may, read_task_args may not) leaves
   the second value in the stream and the next record header is read 8 bytes early: its magic check fails *)
Theorem C09_first_retval_only_reader_refuted :
  let p := le_bytes 8 0x4004000000000000 ++ le_bytes 8 42 in
  read_args_loop_first two_rets [] (p ++ next_rec) = Some (le_bytes 8 0x4004000000000000, le_bytes 8 42 ++ next_rec) /\
  (of_le (takeN 8 (dropN 8 (le_bytes 8 42 ++ next_rec))) / 8) mod 8 <> RECORD_MAGIC.
Proof. exact first_retval_reader_refuted. Qed.
Print Assumptions C09_first_retval_only_reader_refuted.

(* ---------------------------------------------------------------- scripts: a second decoder of the same bytes *)
(* utils/script-python.c / script-luajit.c setup_argument_context (model: script_one / script_loop, as the code is after the
   fix: commits for the octal and the char format) decode task->args.data - at record time the frame's argument buffer -
   on their own.  They step over every spec exactly like get_argspec_string ... *)
Theorem C09_script_same_step : forall syms s data, snd (script_one s data) = snd (show_one syms s data).
Proof. exact script_same_step. Qed.
Print Assumptions C09_script_same_step.

(* ... hence for EVERY spec list and EVERY payload both decoders read each value from the same bytes *)
Theorem C09_script_same_positions : forall syms is_ret specs data,
  positions (fun s d => snd (script_one s d)) is_ret specs data =
  positions (fun s d => snd (show_one syms s d)) is_ret specs data.
Proof. exact script_same_positions. Qed.
Print Assumptions C09_script_same_positions.

(* from the bytes stored for an integer-class spec (the chunk of C09_int_arg_roundtrip) a Python script receives an int
   congruent to the word that was passed modulo 2^(8*size) *)
Theorem C09_script_int : forall s w later,
  script_int_fmt (s_fmt s) -> s_size s = 1 \/ s_size s = 2 \/ s_size s = 4 \/ s_size s = 8 ->
  ok_sitem Py s (AInt w) (conv Py (fst (script_one s (takeN (ALIGN (s_size s) 4) (le_bytes 8 w) ++ later)))) = true.
Proof. exact script_int_py. Qed.
Print Assumptions C09_script_int.

(* from the bytes of a stored string (the chunk of C09_str_arg_roundtrip) Lua receives exactly these bytes, Python these
   bytes if they are valid UTF-8 and "<invalid value>" otherwise *)
Theorem C09_script_string : forall l s fill body tl ahead later,
  s_fmt s = FStr -> nz body -> lenN body < 65536 -> body <> [255; 255; 255; 255] ->
  conv l (fst (script_one s (fit (ALIGN (lenN body + 2) 4) fill (over (le_bytes 2 (lenN body) ++ body ++ tl) ahead) ++ later)))
  = match l with Py => if utf8_valid body then OStr body else OInvalid | Lua => OStr body end.
Proof. exact script_str. Qed.
Print Assumptions C09_script_string.

(* ---------------------------------------------------------------- the text inside replay's 1 KiB buffer *)
(* get_argspec_string writes into char args[1024] piece by piece (print_args / print_char, after the fix: commits
   618ee80 / 0cdad2d: a piece that does not fit is dropped whole, nothing more is taken; the loop stops when fewer than
   2 characters are left).  Model: show_pieces / put / show_loop_b / show_args_b / show_ret_b.
   Whatever the arguments, the text stays inside the buffer ... *)
Theorem C09_text_within_buffer : forall syms specs data,
  lenN (show_args_b syms specs data) <= TEXT_SIZE - 1 /\ lenN (show_ret_b syms specs data) <= TEXT_SIZE - 1.
Proof. exact text_within_buffer. Qed.
Print Assumptions C09_text_within_buffer.

(* ... and when the whole text fits the 1023 characters replay prints exactly the unbounded text of the round-trip
   theorems *)
Theorem C09_text_fits : forall syms specs data,
  lenN (show_args syms specs data) <= TEXT_SIZE - 1 -> show_args_b syms specs data = show_args syms specs data.
Proof. exact show_args_b_fits. Qed.
Print Assumptions C09_text_fits.

(* so C09_roundtrip holds for what replay really prints *)
Theorem C09_roundtrip_in_buffer : forall syms fill inp l,
  l <> [] ->
  Forall (fun p => is_arg (fst p) /\ covered inp (fst p) (snd p)) l ->
  fits l = true ->
  lenN (show_args syms (map fst l) (payload (run fill inp false (map fst l)))) <= TEXT_SIZE - 1 ->
  ok_args l (show_args_b syms (map fst l) (payload (run fill inp false (map fst l)))) = true.
Proof. exact call_roundtrip_bounded. Qed.
Print Assumptions C09_roundtrip_in_buffer.

(* the hypothesis is needed: 10 strings of 97 newlines (1980 characters with the escapes) are cut to 1022 at a whole escape; the
   checker accepts the cut text because every value it shows is right *)
Theorem C09_text_cut_example :
  let p := payload (run 0 long_inp false long_specs) in
  lenN (show_args [] long_specs p) = 1980 /\
  lenN (show_args_b [] long_specs p) = 1022 /\
  ok_args (map (fun s => (s, AStr (repeat 10 97))) long_specs) (show_args_b [] long_specs p) = true.
Proof. exact long_text_cut. Qed.
Print Assumptions C09_text_cut_example.

(* ---------------------------------------------------------------- structs in SSE registers *)
Theorem C09_struct_sse_whole :
  let sp := {| s_idx := 1; s_fmt := FStruct; s_size := 16; s_type := TReg; s_u := 102%Z; s_regs := [101%Z; 102%Z]; s_name := [] |} in
  let inp := {| regs := []; xmm := [0x3ff8000000000001; 0x4002000000000002]; stk := []; rets := []; strs := []; wrds := [] |} in
  payload (run 0 inp false [sp]) = Some (le_bytes 8 0x3ff8000000000001 ++ le_bytes 8 0x4002000000000002).
Proof. exact struct_sse_whole. Qed.
Print Assumptions C09_struct_sse_whole.

Theorem C09_struct_sse_legacy_refuted :
  let sp := {| Legacy.s_idx := 1; Legacy.s_fmt := Legacy.FStruct; Legacy.s_size := 16; Legacy.s_type := Legacy.TReg;
               Legacy.s_u := 102%Z; Legacy.s_regs := [101%Z; 102%Z]; Legacy.s_name := [] |} in
  let inp := {| Legacy.regs := []; Legacy.xmm := [0x3ff8000000000001; 0x4002000000000002]; Legacy.stk := []; Legacy.rets := [];
                Legacy.strs := []; Legacy.wrds := [] |} in
  Legacy.payload (Legacy.run 0 inp false [sp]) = Some [1; 0; 0; 0; 0; 0; 0; 0; 2; 0; 0; 0; 0; 0; 0; 0].
Proof. exact LegacyProofs.struct_sse_refuted. Qed.
Print Assumptions C09_struct_sse_legacy_refuted.

(* ---------------------------------------------------------------- only vetted pointers are dereferenced *)
(* check_mem_region / find_mem_region: readable memory is a set of half-open ranges [start, end) (model: lookup_str over
   the declared objects).  Whatever the specs and the register / stack contents, every pointer save_to_argbuf
   dereferences (run_derefs: str[0] of a string argument, the std::string object) lies inside such a range ... *)
Theorem C09_derefs_readable : forall fill inp is_ret specs,
  Forall (fun a => readable inp a = true) (run_derefs fill inp is_ret specs).
Proof. exact derefs_readable. Qed.
Print Assumptions C09_derefs_readable.

(* ... where first byte and last byte of a range are inside and its end address (one past the last byte) and the byte in
   front of it are not *)
Theorem C09_region_half_open : forall a c,
  lookup_str [(a, c)] a = Some c /\
  lookup_str [(a, c)] (a + lenN c) = Some [] /\
  lookup_str [(a, c)] (a + lenN c + 1) = None /\
  (0 < a -> lookup_str [(a, c)] (a - 1) = None).
Proof. exact lookup_half_open. Qed.
Print Assumptions C09_region_half_open.

(* a string pointer equal to the END of a readable range is not dereferenced and is shown as "<0x...>" (C09_unreadable_pointer
   is the general statement); one byte earlier it is the string's NUL: dereferenced, shown as "" *)
Theorem C09_end_of_range_not_dereferenced :
  let inp := {| regs := [4096 + 4; 0; 0; 0; 0; 0]; xmm := []; stk := []; rets := []; strs := [(4096, [69; 69; 69])]; wrds := [] |} in
  run_derefs 0 inp false [spec_str 1] = [] /\
  show_args_b [] [spec_str 1] (payload (run 0 inp false [spec_str 1])) = [40; 34] ++ bad_ptr_text 4100 ++ [34; 41] /\
  let inp' := {| regs := [4096 + 3; 0; 0; 0; 0; 0]; xmm := []; stk := []; rets := []; strs := [(4096, [69; 69; 69])]; wrds := [] |} in
  run_derefs 0 inp' false [spec_str 1] = [4099] /\
  show_args_b [] [spec_str 1] (payload (run 0 inp' false [spec_str 1])) = [40; 34; 34; 41].
Proof. exact end_of_range_not_dereferenced. Qed.
Print Assumptions C09_end_of_range_not_dereferenced.

(* ---------------------------------------------------------------- the writer's spec list is the readers' spec list *)
(* Model of the per-function spec list (utils/filter.c add_arg_spec / update_trigger / update_filter's "ignore auto-args
   if it already has argspec"): writer_entry = libmcount's order (explicit -A, explicit -R, automatic args, automatic
   retval), reader_entry = open_data_file's reconstruction from the info file.  For EVERY combination of explicit and
   automatic specs both are the same list ... *)
Theorem C09_reader_spec_list_eq_writer : forall o, reader_entry o = writer_entry o.
Proof. exact reader_entry_eq_writer. Qed.
Print Assumptions C09_reader_spec_list_eq_writer.

(* ... in which an explicit spec hides the automatic specs of its direction as a whole *)
Theorem C09_explicit_hides_auto : forall o,
  o_ea o <> [] -> o_er o <> [] ->
  e_specs (writer_entry o) = fold_left add_arg_spec (o_er o) (fold_left add_arg_spec (o_ea o) []).
Proof. exact explicit_hides_auto. Qed.
Print Assumptions C09_explicit_hides_auto.

(* the order is load-bearing: with the automatic specs applied first (`record -a -A 'strtol@arg3/i32'`) the reader
   expects three argument values where one was written and cannot frame the payload *)
Theorem C09_reader_auto_first_refuted :
  e_specs (writer_entry strtol_opts) = [Sp 3 FSint 4 TIndex 0; Sp 0 FAuto 8 TIndex 0] /\
  e_specs (reader_entry strtol_opts) = e_specs (writer_entry strtol_opts) /\
  e_specs (reader_entry_auto_first strtol_opts) =
    [Sp 1 FStr 8 TIndex 0; Sp 2 FPtr 8 TIndex 0; Sp 3 FSint 4 TIndex 0; Sp 0 FAuto 8 TIndex 0] /\
  let inp := {| regs := [4096; 0; 10; 0; 0; 0]; xmm := []; stk := []; rets := []; strs := [(4096, [49; 50])]; wrds := [] |} in
  payload (run 0 inp false (e_specs (writer_entry strtol_opts))) = Some [10; 0; 0; 0] /\
  read_args false (e_specs (writer_entry strtol_opts)) ([10; 0; 0; 0; 0; 0; 0; 0] ++ next_rec) = Some ([10; 0; 0; 0], next_rec) /\
  read_args false (e_specs (reader_entry_auto_first strtol_opts)) ([10; 0; 0; 0; 0; 0; 0; 0] ++ next_rec) <>
    Some ([10; 0; 0; 0], next_rec).
Proof. exact auto_first_reader_refuted. Qed.
Print Assumptions C09_reader_auto_first_refuted.

(* a call that is closed without a return value (exception unwinding, pthread_exit, --estimate-return): the `more`
   bit of the EXIT record is set iff a return value was actually captured *)
Theorem C09_exit_more_iff_captured : forall bg fill inp specs has_ret captured t depth addr,
  depth < 1024 -> addr < 2 ^ 48 ->
  let w := of_le (takeN 8 (dropN 8 (exit_rec bg fill inp specs has_ret captured t depth addr))) in
  (w / 4) mod 2 = 1 <-> (has_ret = true /\ captured = true /\ payload (run fill inp true specs) <> None).
Proof. exact exit_more_iff_captured. Qed.
Print Assumptions C09_exit_more_iff_captured.

(* such a call is decoded without a return value, and the record behind it is found where it starts *)
Theorem C09_abandoned_exit_decodes : forall k specs_of bg fill inp has_ret t depth addr rest,
  t < 2 ^ 64 -> depth < 1024 -> addr < 2 ^ 48 ->
  decode_stream (S k) specs_of (exit_rec bg fill inp (specs_of addr) has_ret false t depth addr ++ rest) =
  {| d_time := t; d_type := UFTRACE_EXIT; d_depth := depth; d_addr := addr; d_args := None |}
    :: decode_stream k specs_of rest.
Proof. exact abandoned_exit_decodes. Qed.
Print Assumptions C09_abandoned_exit_decodes.

(* a writer that keeps the return value flag on such a frame sends the stale argument buffer: the throwing
   `check(3, 100)` is shown as ` = 3;` and the next record is lost *)
Theorem C09_stale_retval_refuted :
  let stale := payload (run 0 chk_inp false chk_specs) in
  stale = Some (le_bytes 8 3 ++ le_bytes 8 100) /\
  decode_stream 2 (fun _ => chk_specs) (exit_rec 0 0 chk_inp chk_specs true false 1000 1 0x401000 ++ next_rec) =
    [ {| d_time := 1000; d_type := UFTRACE_EXIT; d_depth := 1; d_addr := 0x401000; d_args := None |};
      {| d_time := 2000; d_type := UFTRACE_ENTRY; d_depth := 1; d_addr := 0x401000; d_args := None |} ] /\
  decode_stream 2 (fun _ => chk_specs) (enc_rec 0 1000 UFTRACE_EXIT 1 0x401000 stale ++ next_rec) =
    [ {| d_time := 1000; d_type := UFTRACE_EXIT; d_depth := 1; d_addr := 0x401000; d_args := Some (le_bytes 8 3) |} ] /\
  show_ret [] chk_specs (Some (le_bytes 8 3)) = [32; 61; 32; 51; 59].
Proof. exact stale_retval_refuted. Qed.
Print Assumptions C09_stale_retval_refuted.

(* specs of one function given partly by -T (trigger actions, argument and return value specs mixed) and partly by
   -A / -R: for every such split the specs of each direction - what lays out the payload - are the same list, in the
   same order, in the writer (libmcount: -T, -A, -R) and in the readers (info file: argument specs of -T, -A; return
   value specs of -T, -R).  `separated`: no argument spec and return value spec name the same register / stack slot. *)
Theorem C09_trigger_split_order : forall x d,
  separated (pool (writer_opts x)) ->
  Forall (fun o => Forall (fun s => is_ret s = false) (snd o)) (x_a x) ->
  Forall (fun o => Forall (fun s => is_ret s = true) (snd o)) (x_r x) ->
  dir_specs d (reader_opts x) = dir_specs d (writer_opts x).
Proof. exact trigger_split_order. Qed.
Print Assumptions C09_trigger_split_order.

(* the order is load-bearing: `-T 'lookup@arg1/i32' -A 'lookup@arg2/s,arg3/i64'` with the options ahead of the trigger
   specs in the info file cannot frame the payload of lookup(7, "seven", -3) *)
Theorem C09_reader_options_first_refuted :
  let w := merge_opts (writer_opts lookup_x) in
  w = [Sp 1 FSint 4 TIndex 0; Sp 2 FStr 8 TIndex 0; Sp 3 FSint 8 TIndex 0] /\
  merge_opts (reader_opts lookup_x) = w /\
  merge_opts (reader_opts_options_first lookup_x) = [Sp 2 FStr 8 TIndex 0; Sp 3 FSint 8 TIndex 0; Sp 1 FSint 4 TIndex 0] /\
  payload (run 0 lookup_inp false w) = Some lookup_payload /\
  read_args false w (fit 24 0 lookup_payload ++ next_rec) = Some (lookup_payload, next_rec) /\
  show_args [] w (Some lookup_payload) = [40; 55; 44; 32; 34; 115; 101; 118; 101; 110; 34; 44; 32; 45; 51; 41] /\
  read_args false (merge_opts (reader_opts_options_first lookup_x)) (fit 24 0 lookup_payload ++ next_rec) <>
    Some (lookup_payload, next_rec).
Proof. exact options_first_reader_refuted. Qed.
Print Assumptions C09_reader_options_first_refuted.

(* repaired in /repo: extract_trigger_args reduced the return value spec of a trigger action to a plain `retval`;
   `-T 'name@retval/s'` showed name() = 0x6e657665730005 for "seven", a longer string lost the following record *)
Theorem C09_trigger_retval_format_legacy_refuted :
  let w := merge_opts (writer_opts name_x) in
  w = [Sp 0 FStr 8 TIndex 0] /\ merge_opts (reader_opts name_x) = w /\
  merge_opts (reader_opts_legacy name_x) = [Sp 0 FAuto 8 TIndex 0] /\
  payload (run 0 (name_inp [115; 101; 118; 101; 110]) true w) = Some seven_payload /\
  show_ret [] w (Some seven_payload) = [32; 61; 32; 34; 115; 101; 118; 101; 110; 34; 59] /\
  show_ret [] (merge_opts (reader_opts_legacy name_x)) (Some seven_payload) =
    [32; 61; 32; 48; 120; 54; 101; 54; 53; 55; 54; 54; 53; 55; 51; 48; 48; 48; 53; 59] /\
  payload (run 0 (name_inp (repeat 65 20)) true w) = Some a20_payload /\
  read_args true w (a20_payload ++ next_rec) = Some (a20_payload, next_rec) /\
  read_args true (merge_opts (reader_opts_legacy name_x)) (a20_payload ++ next_rec) <> Some (a20_payload, next_rec).
Proof. exact trigger_retval_format_legacy_refuted. Qed.
Print Assumptions C09_trigger_retval_format_legacy_refuted.

(* format e:<enum> (convert_enum_val: replay, dump): for EVERY enumerator table and EVERY recorded value the names
   shown are enumerators of the table and the display - a name, names joined by | plus a hex remainder, or a number -
   stands for the value: equal to it modulo 2^64 (the arithmetic of a C long), or, for a value 2^31 .. 2^32-1, the
   enumerator equal to the int in its low half (a negative enumerator of an int-sized enum) *)
Theorem C09_enum_display_denotes : forall t v,
  let d := conv_enum t v in
  (forall e, In e (names_of d) -> In e t) /\
  (eqm64 (denote d) v \/ (int_range v = true /\ denote d = v - 2 ^ 32)%Z).
Proof. exact enum_display_denotes. Qed.
Print Assumptions C09_enum_display_denotes.

(* a display that cuts the recorded value to an int first: M_SYNC = 0x80000000 becomes 0xffffffff80000000,
   SPAN_4G = 2^32 becomes SPAN_NONE *)
Theorem C09_enum_int_cast_refuted :
  enum_text (conv_enum mode_t 0x80000000) = [77; 95; 83; 89; 78; 67] /\
  enum_text (conv_enum mode_t 0x80000002) = [77; 95; 83; 89; 78; 67; 124; 77; 95; 87; 82; 73; 84; 69] /\
  enum_text (conv_enum span_t 0x100000000) = [83; 80; 65; 78; 95; 52; 71] /\
  enum_text (conv_enum_int mode_t 0x80000000) = [48; 120; 102; 102; 102; 102; 102; 102; 102; 102; 56; 48; 48; 48; 48; 48; 48; 48] /\
  denote (conv_enum_int mode_t 0x80000002) <> 0x80000002%Z /\
  enum_text (conv_enum_int span_t 0x100000000) = [83; 80; 65; 78; 95; 78; 79; 78; 69] /\
  denote (conv_enum_int span_t 0x100000000) <> 0x100000000%Z.
Proof. exact enum_int_cast_refuted. Qed.
Print Assumptions C09_enum_int_cast_refuted.

(* repaired in /repo: the int -3 passed in edi was shown as POS|NEG+0xfffffffb *)
Theorem C09_enum_negative_legacy_refuted :
  enum_text (conv_enum sgn_t 0xfffffffd) = [78; 69; 71] /\ denote (conv_enum sgn_t 0xfffffffd) = (-3)%Z /\
  enum_text (conv_enum_legacy sgn_t 0xfffffffd) =
    [80; 79; 83; 124; 78; 69; 71; 43; 48; 120; 102; 102; 102; 102; 102; 102; 102; 98] /\
  names_of (conv_enum_legacy sgn_t 0xfffffffd) = sgn_t.
Proof. exact enum_negative_legacy_refuted. Qed.
Print Assumptions C09_enum_negative_legacy_refuted.
