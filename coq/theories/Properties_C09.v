(* Property C09 - only statements, each closed by [exact]. *)
From Coq Require Import NArith ZArith List Bool.
Import ListNotations.
Require Import UV.Gen.Consts UV.C09.Model UV.C09.Proofs.
Local Open Scope N_scope.

Theorem C09_placeholder : forall a, ALIGN 0 a = ((a - 1) / a) * a.
Proof. exact ALIGN_0. Qed.
Print Assumptions C09_placeholder.
