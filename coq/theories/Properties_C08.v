(* Property C08 - only statements, each closed by [exact]. *)
From Coq Require Import NArith List Bool.
Import ListNotations.
Require Import UV.C08.Model UV.C08.Proofs.
Local Open Scope N_scope.

Theorem C08_placeholder : add64 0 0 = 0.
Proof. exact placeholder. Qed.
Print Assumptions C08_placeholder.
