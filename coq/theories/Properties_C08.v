(* Property C08 - only statements, each closed by [exact]. *)
From Coq Require Import NArith ZArith List Bool Floats Sorting.Sorted Permutation.
Import ListNotations.
Require Import UV.C08.Model UV.C08.Proofs UV.C08.Figures UV.C08.Open UV.C08.Order UV.C08.Checker UV.C08.OpenSpec UV.C08.SortChecker UV.C08.Merge UV.C08.Lost UV.C08.LostSpec UV.C08.Inherit UV.C08.SelfDiff UV.C08.Stdv UV.C08.StdvFacts UV.C08.TaskMode UV.C08.DiffSort UV.C08.DiffSortProofs.
Local Open Scope N_scope.

(* The accumulation automaton of fstack_account_time + report_update_node (uint64 arithmetic, clamp
   included), run over the records of a complete call from any LOST-free state with enough free stack
   slots, adds the call's duration to the parent's child time and emits exactly the rows of the
   recursion on the call tree - for every tree, every depth, every stack below it. *)
Theorem C08_automaton_is_tree_recursion : forall c d stk dead usc l lx out, (height c <= length dead)%nat ->
  exists dead', length dead' = length dead /\
    run (mid stk dead usc l lx) out (flat d c)
    = (mid (bump stk (dur64 c)) dead' usc (c_t1 c) (c_t1 c), out ++ rows64 (map s_addr stk) c).
Proof. exact run_call. Qed.
Print Assumptions C08_automaton_is_tree_recursion.

(* For well-timed trees (t0 <= callees in sequence <= t1 < 2^64) those rows are what the property says:
   total = t1 - t0, self = total - durations of the direct callees, recursive = same address open above. *)
Theorem C08_total_self : forall c anc, wt c -> rows64 anc c = spec_rows anc c.
Proof. exact rows64_spec. Qed.
Print Assumptions C08_total_self.

(* The Self times of all invocations inside a call add up to the call's duration (telescoping). *)
Theorem C08_conservation : forall c anc, wt c -> sum_self (spec_rows anc c) = dur c.
Proof. exact conservation. Qed.
Print Assumptions C08_conservation.

(* Each function has exactly one node (names strictly increasing) and it is the accumulation of exactly
   the rows bearing its name, in any table reached from a sorted table. *)
Theorem C08_one_node_per_function : forall nms rows tbl, names_sorted tbl ->
  names_sorted (fold_left (tbl_add nms) rows tbl)
  /\ forall nm, find_node (fold_left (tbl_add nms) rows tbl) nm = fold_left (acc nms nm) rows (find_node tbl nm).
Proof. exact table_lookup. Qed.
Print Assumptions C08_one_node_per_function.

(* Calls, Total (sum of the non-recursive invocations, recursive ones kept apart), Self, min, max and avg of
   a function's row are exactly those figures of the rows bearing its name (sums below 2^64 ns). *)
Theorem C08_calls_total_self_min_max_avg : forall nms rows nm,
  let l := mine nms nm rows in
  l <> [] -> sumN (map w_total l) < M64 -> sumN (map w_self l) < M64 ->
  exists n, find_node (table_of_rows nms rows) nm = Some n /\ n_name n = nm /\ figures n l.
Proof. exact report_figures. Qed.
Print Assumptions C08_calls_total_self_min_max_avg.

(* avg lies between min and max, for the Total and the Self column. *)
Theorem C08_avg_between_min_max : forall n l, l <> [] -> figures n l ->
  Forall (fun v => v < M64) (map w_total l) -> Forall (fun v => v < M64) (map w_self l) ->
  smin (n_total n) <= avg (n_total n) <= smax (n_total n)
  /\ smin (n_self n) <= avg (n_self n) <= smax (n_self n).
Proof. exact avg_between_min_max. Qed.
Print Assumptions C08_avg_between_min_max.

(* Whole task, calls still open at the end included (add_remaining_fstack): completed top-level calls
   followed by a chain of open frames (innermost first: ros), nesting below max_stack: the counted rows
   are the tree rows of the completed calls, then one row per open call lasting until the task's last
   record, self = that minus its completed callees minus the next inner open call. *)
Theorem C08_open_calls : forall max_stack done ros,
  let tt := mktt done (rev ros) in
  let last := last_time tt in
  (task_height tt <= N.to_nat max_stack)%nat -> last < M64 -> fits last 0 ros ->
  task_rows max_stack (trace_recs tt)
  = concat (map (rows64 []) done) ++ okids_rows [] (rev ros) ++ open_rows last 0 ros.
Proof. exact task_rows_open. Qed.
Print Assumptions C08_open_calls.

(* A task of completed well-timed calls: the counted rows are exactly the specification's rows. *)
Theorem C08_task_rows_closed : forall max_stack done,
  (heights done <= N.to_nat max_stack)%nat -> Forall wt done ->
  task_rows max_stack (concat (map (flat 0) done)) = concat (map (spec_rows []) done).
Proof. exact task_rows_closed. Qed.
Print Assumptions C08_task_rows_closed.

(* The table does not depend on the order in which rows are counted (the time-ordered merge of tasks). *)
Theorem C08_table_order_irrelevant : forall nms rows rows',
  Permutation rows rows' -> table_of_rows nms rows = table_of_rows nms rows'.
Proof. exact table_perm. Qed.
Print Assumptions C08_table_order_irrelevant.

(* Several tasks: the read loop over the records of n tasks merged in ANY order (the code merges by time),
   one state per task, then add_remaining_fstack task by task, gives the same report as handling the tasks
   one after the other (what [report] does). *)
Theorem C08_merge_irrelevant : forall max_stack nms n ms, (forall p, In p ms -> (fst p < n)%nat) ->
  table_of_rows nms (merged_rows max_stack n ms)
  = report (mkcase max_stack nms (map (fun i => proj i ms) (seq 0 n))).
Proof. exact merge_irrelevant. Qed.
Print Assumptions C08_merge_irrelevant.

(* The Self column of the whole table adds up to the Self times of all counted rows. *)
Theorem C08_self_partition : forall nms rows, sumN (map w_self rows) < M64 ->
  tself (table_of_rows nms rows) = sumN (map w_self rows).
Proof. exact self_partition. Qed.
Print Assumptions C08_self_partition.

(* Per task, calls still open at the end included: the Self times of all counted rows add up to the summed
   duration of the task's top-level calls (an open top-level call lasting until the task's last record). *)
Theorem C08_conservation_task : forall max_stack tt, good_task max_stack tt ->
  sum_self (spec_task tt) = top_time tt
  /\ Permutation (task_rows max_stack (trace_recs tt)) (spec_task tt).
Proof. exact (fun m tt H => conj (top_time_good m tt H) (task_rows_good m tt H)). Qed.
Print Assumptions C08_conservation_task.

(* THE PROPERTY ON THE MODEL: for every set of tasks, each a sequence of completed well-timed calls followed by
   a chain of calls still open at the end, nested below max_stack, with a grand total below 2^64 ns, the
   executable checker that is applied to the implementation's table on every run (each function once; Calls,
   Total, Self, min, max, avg exact; Self column = summed duration of the top-level calls) accepts the
   model's report. *)
Theorem C08_checker_accepts_model : forall max_stack nms tts,
  Forall (good_task max_stack) tts ->
  sumN (map w_total (concat (map spec_task tts))) < M64 ->
  ok_table nms tts (report (mkcase max_stack nms (map trace_recs tts))) = true.
Proof. exact checker_accepts_model. Qed.
Print Assumptions C08_checker_accepts_model.

(* report_sort_nodes: a permutation of the table in which no row stands before a larger one under the
   key list, rows equal under all keys in name order - for every key list. *)
Theorem C08_sorted : forall ks tbl, names_sorted tbl ->
  StronglySorted (before ks) (sort_nodes ks tbl) /\ Permutation tbl (sort_nodes ks tbl).
Proof. exact sort_nodes_sorted. Qed.
Print Assumptions C08_sorted.

(* ... and the run-time checker for the row order (descending under the keys, ties in name order, same set of
   rows) accepts the model's order, for every key list and every report. *)
Theorem C08_sort_checker_accepts_model : forall ks c,
  ok_sorted ks (report c) (map n_name (sort_nodes ks (report c))) = true.
Proof. exact (fun ks c => sort_checker_accepts_model ks (report c) (report_names_sorted c)). Qed.
Print Assumptions C08_sort_checker_accepts_model.

(* --diff of a table against itself pairs every row with itself and all differences are zero. *)
Theorem C08_self_diff_zero : forall c,
  diff_pairs (report c) (report c) = map (fun n => (n, n)) (report c)
  /\ forallb diff_is_zero (map diff_cols (diff_pairs (report c) (report c))) = true.
Proof. exact (fun c => diff_self_zero (report c) (report_names_sorted c)). Qed.
Print Assumptions C08_self_diff_zero.

(* ... as printed: `uftrace report --diff DIR` with DIR the data set itself lists every function once and every
   difference cell is the zero cell ("0 us", "+0"). *)
Theorem C08_self_diff_stdout : forall c,
  Permutation (map fst (diff_stdout (report c) (report c))) (map n_name (report c))
  /\ Forall (fun l => snd l = [None; None; None]) (diff_stdout (report c) (report c)).
Proof. exact (fun c => diff_stdout_self (report c) (report_names_sorted c)). Qed.
Print Assumptions C08_self_diff_stdout.

(* report --diff OTHER: rows follow the requested key.  For every diff policy (abs / no-abs, percent / no-percent),
   every --sort-column (0 base, 1 other, 2 difference) and every key list, the rows are a permutation of the
   paired rows (functions of both data sets, each once) in which no row stands before a row that is larger under
   the key list, and the run-time order checker accepts the model's order. *)
Theorem C08_diff_rows_follow_key : forall pol col ks base pair,
  StronglySorted (notlt (cmp_d pol col ks)) (diff_order pol col ks base pair)
  /\ Permutation (diff_pairs base pair) (diff_order pol col ks base pair)
  /\ sorted_by (cmp_d pol col ks) (diff_order pol col ks base pair) = true.
Proof. exact diff_order_sorted. Qed.
Print Assumptions C08_diff_rows_follow_key.

(* The printed time is the value truncated to its unit (us, ms, s, m = 60 s, h = 60 m) for every value below
   1000 hours (exact below 1 ms). *)
Theorem C08_printed_time : forall ns, ns < 3600000000000000 -> ok_cell ns (fmt_time ns) = true.
Proof. exact fmt_time_ok. Qed.
Print Assumptions C08_printed_time.

(* What `uftrace report` prints, for every --avg-total/--avg-self mode, every -s key list and every -f field
   selection (report_keys / report_fields): rows in key order, every printed cell denotes the node's figure -
   the stdout checker applied to the implementation on every run accepts the model's stdout (figures < 1000 h). *)
Theorem C08_stdout_checker_accepts_model : forall m s f c, small_figures (report c) ->
  ok_stdout (report_keys m s f) (report_fields m f) (report c)
            (stdout_model (report_keys m s f) (report_fields m f) (report c)) = true.
Proof. exact (fun m s f c H => stdout_checker_accepts_model _ _ (report c) (report_names_sorted c) H). Qed.
Print Assumptions C08_stdout_checker_accepts_model.

(* report --task: for a good task (inherited frames included, see C08_inherited_task) the task's line shows the summed
   duration of its top-level calls (Total = Self) and the number of counted calls. *)
Theorem C08_task_line : forall max_stack tt,
  good_task max_stack tt ->
  sumN (map w_self (spec_task tt)) < M64 ->
  task_line max_stack (trace_recs tt) = (top_time tt, N.of_nat (length (spec_task tt))).
Proof. exact task_line_good. Qed.
Print Assumptions C08_task_line.

(* LOST markers.  Any record list whose depth fields agree with the nesting (walk: ENTRY at depth n, EXIT at
   n-1, nesting below max_stack; markers anywhere, any number in a row, also first - i.e. the dropped records
   were complete calls), first record with depth field 0, last record not a marker: the counted rows are exactly
   those of the list without the markers. *)
Theorem C08_lost_markers_transparent : forall max_stack rs m,
  walk (N.to_nat max_stack) 0 rs = Some m -> head_ok rs -> final_pend false rs = false ->
  task_rows max_stack rs = task_rows max_stack (erase rs).
Proof. exact lost_markers_transparent. Qed.
Print Assumptions C08_lost_markers_transparent.

(* ... hence for the data of a good task (completed calls, then calls open at the end) with markers inserted,
   the rows are the specification's rows of that task, *)
Theorem C08_lost_markers_task : forall max_stack tt rs, good_task max_stack tt -> marked tt rs ->
  task_rows max_stack rs = task_rows max_stack (trace_recs tt)
  /\ Permutation (task_rows max_stack rs) (spec_task tt).
Proof. exact marked_task_rows. Qed.
Print Assumptions C08_lost_markers_task.

(* ... and the run-time checker accepts the model's report of any set of such tasks. *)
Theorem C08_checker_accepts_model_lost : forall max_stack nms tts rss,
  Forall (good_task max_stack) tts -> Forall2 marked tts rss ->
  sumN (map w_total (concat (map spec_task tts))) < M64 ->
  report (mkcase max_stack nms rss) = report (mkcase max_stack nms (map trace_recs tts))
  /\ ok_table nms tts (report (mkcase max_stack nms rss)) = true.
Proof. exact checker_accepts_model_lost. Qed.
Print Assumptions C08_checker_accepts_model_lost.

(* Data that starts at depth k > 0 (a forked child; a thread whose first buffers were not recorded), no LOST
   markers: the counted rows are exactly those of the same data preceded by k ENTRY records of unknown address
   (0) at the time of the first record - the frames open when recording began are calls entered then. *)
Theorem C08_inherited_start : forall max_stack r0 rest k,
  Forall (fun r => is_lost r = false) (r0 :: rest) ->
  N.of_nat k = r_depth r0 + (if is_exit r0 then 1 else 0) -> (k <= N.to_nat max_stack)%nat ->
  task_rows max_stack (r0 :: rest) = task_rows max_stack (zeros k (r_time r0) ++ r0 :: rest).
Proof. exact inherited_start. Qed.
Print Assumptions C08_inherited_start.

(* ... hence the rows are the specification's rows of the task in which those frames are calls with entry
   address 0 (never recursive, named by their EXIT record, <0> when they never exit), *)
Theorem C08_inherited_task : forall max_stack tt rs, good_task max_stack tt -> inherits max_stack tt rs ->
  task_rows max_stack rs = task_rows max_stack (trace_recs tt)
  /\ Permutation (task_rows max_stack rs) (spec_task tt).
Proof. exact inherited_task_rows. Qed.
Print Assumptions C08_inherited_task.

(* ... and the run-time checker accepts the model's report of any set of such tasks (parent and children). *)
Theorem C08_checker_accepts_model_inherited : forall max_stack nms tts rss,
  Forall (good_task max_stack) tts -> Forall2 (inherits max_stack) tts rss ->
  sumN (map w_total (concat (map spec_task tts))) < M64 ->
  report (mkcase max_stack nms rss) = report (mkcase max_stack nms (map trace_recs tts))
  /\ ok_table nms tts (report (mkcase max_stack nms rss)) = true.
Proof. exact checker_accepts_model_inherited. Qed.
Print Assumptions C08_checker_accepts_model_inherited.

(* ------------------------------------------------------------------------------------------------
   The code before the five fixes (legacy variants of the model), each next to the behaviour now.  *)

(* hours were minutes / 24: 35 min was printed "1.011 h"; now "35.000 m" *)
Theorem C08_printed_time_hours_legacy_refuted :
  let ns := 35 * 60 * 1000000000 in
  fmt_time_legacy ns = Some (1, 11, 4) /\ ok_cell ns (fmt_time_legacy ns) = false
  /\ fmt_time ns = Some (35, 0, 3).
Proof. exact fmt_time_hours_legacy_refuted. Qed.
Print Assumptions C08_printed_time_hours_legacy_refuted.

(* inherited frames (fork child): an outermost invocation was classified recursive (Total 0 < Self 1000);
   now its Total is 1000 *)
Theorem C08_inherited_frames_legacy_refuted :
  (exists n, find_node (report_gen true child_case) 2 = Some n
             /\ n_call n = 1 /\ sum (n_total n) = 0 /\ recs (n_total n) = 1000 /\ sum (n_self n) = 1000)
  /\ (exists n, find_node (report child_case) 2 = Some n
              /\ n_call n = 1 /\ sum (n_total n) = 1000 /\ recs (n_total n) = 0 /\ sum (n_self n) = 1000).
Proof. exact inherited_frames_legacy_refuted. Qed.
Print Assumptions C08_inherited_frames_legacy_refuted.

(* report --task: calls open at the end lasted until the last EXIT only (200 ns instead of 8000 ns) and a
   task without any EXIT had no line; now the line is the sum of the Self times *)
Theorem C08_task_mode_open_legacy_refuted :
  let killed := [mkrec ENTRY 0 10 1000; mkrec ENTRY 1 30 1100; mkrec EXIT 1 30 1200; mkrec ENTRY 1 20 1300;
                 mkrec ENTRY 2 30 9000] in
  let noexit := [mkrec ENTRY 0 10 1000; mkrec ENTRY 1 20 5000] in
  task_line_legacy 1024 killed = (200, 2) /\ task_line_legacy 1024 noexit = (0, 0)
  /\ sumN (map w_self (task_rows 1024 killed)) = 8000
  /\ task_line 1024 killed = (8000, 4) /\ task_line 1024 noexit = (4000, 2).
Proof. exact task_mode_open_legacy_refuted. Qed.
Print Assumptions C08_task_mode_open_legacy_refuted.

(* ... and the frames a forked child inherits and never returns from were skipped (fix 4ec4e50) *)
Theorem C08_task_mode_inherited_legacy_refuted :
  let child := [mkrec EXIT 1 30 1310; mkrec ENTRY 1 20 1400; mkrec EXIT 1 20 1500; mkrec ENTRY 1 20 1600;
                mkrec EXIT 1 20 1650] in
  task_line_legacy 1024 child = (150, 3) /\ task_line 1024 child = (340, 4)
  /\ sumN (map w_self (task_rows 1024 child)) = 340.
Proof. exact task_mode_inherited_legacy_refuted. Qed.
Print Assumptions C08_task_mode_inherited_legacy_refuted.

(* report --diff (no colours): the sign of a time difference was inverted; now "-" means a decrease *)
Theorem C08_diff_sign_legacy_refuted :
  show_dtime_legacy 100 300 = Some (true, 0, 200, 0) /\ show_dtime_legacy 300 100 = Some (false, 0, 200, 0)
  /\ show_dtime 100 300 = Some (false, 0, 200, 0) /\ show_dtime 300 100 = Some (true, 0, 200, 0).
Proof. exact diff_sign_legacy_refuted. Qed.
Print Assumptions C08_diff_sign_legacy_refuted.

(* report --diff: --sort-column 1 was sorted by the base figures (fix 29f6519) *)
Theorem C08_diff_column1_legacy_refuted :
  names_of (sort_by (cmp_d_legacy (mkdp true false) 1 [K_total]) (diff_pairs ex_base ex_pair)) = [5; 2; 1; 4; 3]%N
  /\ names_of (diff_order (mkdp true false) 1 [K_total] ex_base ex_pair) = [5; 1; 4; 3; 2]%N.
Proof. exact diff_column1_legacy_refuted. Qed.
Print Assumptions C08_diff_column1_legacy_refuted.

(* report --diff, abs policy: +x and -x compared as "less" in both directions - not an order (fix 434cc50) *)
Theorem C08_diff_abs_tie_legacy_refuted :
  let pol := mkdp true true in
  cmp_d_legacy pol 2 [K_total] (tn 1 10000, tn 1 18000) (tn 2 20000, tn 2 4000) = Lt
  /\ cmp_d_legacy pol 2 [K_total] (tn 2 20000, tn 2 4000) (tn 1 10000, tn 1 18000) = Lt
  /\ cmp_d pol 2 [K_total] (tn 1 10000, tn 1 18000) (tn 2 20000, tn 2 4000) = Eq
  /\ names_of (sort_by (cmp_d_legacy pol 2 [K_total]) (diff_pairs ex_base ex_pair)) = [2; 1; 4; 5; 3]%N
  /\ names_of (diff_order pol 2 [K_total] ex_base ex_pair) = [1; 2; 4; 5; 3]%N.
Proof. exact diff_abs_tie_legacy_refuted. Qed.
Print Assumptions C08_diff_abs_tie_legacy_refuted.

(* LOST markers (fix c76be09): before, every marker took 1 ns from the Self time of the innermost open call
   (Self 799 of a call of 800 ns without callees); now the figures are exact *)
Theorem C08_lost_marker_legacy_refuted :
  map (fun n => (n_name n, sum (n_total n), sum (n_self n))) (report_gen true lost_1ns_case) = [(1, 1000, 200); (2, 800, 799)]
  /\ map (fun n => (n_name n, sum (n_total n), sum (n_self n))) (report lost_1ns_case) = [(1, 1000, 200); (2, 800, 800)].
Proof. exact lost_marker_legacy_refuted. Qed.
Print Assumptions C08_lost_marker_legacy_refuted.

(* ... and after data starting at depth > 0 a marker wrapped a duration (2^64 - 1499 ns); now 1 ns *)
Theorem C08_lost_after_inherited_legacy_refuted :
  (exists n, find_node (report_gen true lost_case) 2 = Some n /\ smax (n_total n) = M64 - 1499)
  /\ (exists n, find_node (report lost_case) 2 = Some n /\ smax (n_total n) = 1).
Proof. exact lost_after_inherited_legacy_refuted. Qed.
Print Assumptions C08_lost_after_inherited_legacy_refuted.

(* The stdv column (model: Stdv.v, the machine's binary64 arithmetic).  Before the fixes 5fe3294, b241d75, a863f9f:
   sigma/sqrt(calls)/mean instead of the documented sigma/mean (35.36 % for calls of 100 and 300 ns; now 50.00 %), *)
Theorem C08_stdv_formula_legacy_refuted :
  hundredths (stdv_legacy (100 * 100 + 300 * 300) 0 200 2) = Some 3536%Z
  /\ hundredths (stdv_of (sq 100 + sq 300) 0 400 2) = Some 5000%Z
  /\ ok_stdv 5000 [100; 300]%N = true /\ ok_stdv 3536 [100; 300]%N = false.
Proof. exact stdv_formula_legacy_refuted. Qed.
Print Assumptions C08_stdv_formula_legacy_refuted.

(* squares wrapping at 2^64 from 4.29 s on (NaN for calls of 5 s and 6 s; now 9.09 %), *)
Theorem C08_stdv_overflow_legacy_refuted :
  let a := 5000000000%N in let b := 6000000000%N in
  is_nan (stdv_legacy (add64 ((a * a) mod M64) ((b * b) mod M64)) 0 5500000000 2) = true
  /\ hundredths (stdv_of (sq a + sq b) 0 (a + b) 2) = Some 909%Z
  /\ ok_stdv 909 [a; b] = true.
Proof. exact stdv_overflow_legacy_refuted. Qed.
Print Assumptions C08_stdv_overflow_legacy_refuted.

(* and 0/0 = NaN for a function whose calls all took 0 ns (now 0.00 %). *)
Theorem C08_stdv_zero_mean_legacy_refuted :
  is_nan (stdv_legacy 0 0 0 3) = true /\ hundredths (stdv_of 0 0 0 3) = Some 0%Z /\ ok_stdv 0 [0; 0; 0]%N = true.
Proof. exact stdv_zero_mean_legacy_refuted. Qed.
Print Assumptions C08_stdv_zero_mean_legacy_refuted.

(* ------------------------------------------------------------------------------------------------
   Still present in the code (known finding lost-in-inherited-data): outside the guards of C08_lost_markers_*
   (data starts at depth 0) and C08_inherited_* (no LOST marker): a marker in the data of a forked child counts
   the innermost open call twice (leaf: Calls 2, Total 2 ns instead of 1 and 300 ns) *)
Theorem C08_lost_in_inherited_refuted :
  map (fun n => (n_name n, n_call n, sum (n_total n), sum (n_self n))) (report lost_inherited_case)
  = [(1, 1, 690, 190); (2, 1, 500, 498); (3, 2, 2, 2); (4, 1, 0, 0)].
Proof. exact lost_in_inherited_refuted. Qed.
Print Assumptions C08_lost_in_inherited_refuted.
