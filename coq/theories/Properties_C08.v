(* Property C08 - only statements, each closed by [exact]. *)
From Coq Require Import NArith List Bool Sorting.Sorted Permutation.
Import ListNotations.
Require Import UV.C08.Model UV.C08.Proofs.
Local Open Scope N_scope.

(* The accumulation automaton of fstack_account_time + report_update_node (uint64 arithmetic, clamp
   included), run over the records of a complete call from any LOST-free state with enough free stack
   slots, adds the call's duration to the parent's child time and emits exactly the rows of the
   recursion on the call tree - for every tree, every depth, every stack below it. *)
Theorem C08_automaton_is_tree_recursion : forall c d stk dead usc l lx out, (height c <= length dead)%nat ->
  exists dead', length dead' = length dead /\
    run (mid stk dead usc l lx) out (flat d c)
    = (mid (bump stk (dur64 c)) dead' usc (c_t1 c) (c_t1 c), out ++ rows64 (map s_addr stk) c).
Proof. exact run_call. Qed.
Print Assumptions C08_automaton_is_tree_recursion.

(* For well-timed trees (t0 <= callees in sequence <= t1 < 2^64) those rows are what the property says:
   total = t1 - t0, self = total - durations of the direct callees, recursive = same address open above. *)
Theorem C08_total_self : forall c anc, wt c -> rows64 anc c = spec_rows anc c.
Proof. exact rows64_spec. Qed.
Print Assumptions C08_total_self.

(* The Self times of all invocations inside a call add up to the call's duration (telescoping). *)
Theorem C08_conservation : forall c anc, wt c -> sum_self (spec_rows anc c) = dur c.
Proof. exact conservation. Qed.
Print Assumptions C08_conservation.

(* Each function has exactly one node (names strictly increasing) and it is the accumulation of exactly
   the rows bearing its name, in any table reached from a sorted table. *)
Theorem C08_one_node_per_function : forall nms rows tbl, names_sorted tbl ->
  names_sorted (fold_left (tbl_add nms) rows tbl)
  /\ forall nm, find_node (fold_left (tbl_add nms) rows tbl) nm = fold_left (acc nms nm) rows (find_node tbl nm).
Proof. exact table_lookup. Qed.
Print Assumptions C08_one_node_per_function.

(* report_sort_nodes: a permutation of the table in which no row stands before a larger one under the
   key list, rows equal under all keys in name order - for every key list. *)
Theorem C08_sorted : forall ks tbl, names_sorted tbl ->
  StronglySorted (before ks) (sort_nodes ks tbl) /\ Permutation tbl (sort_nodes ks tbl).
Proof. exact sort_nodes_sorted. Qed.
Print Assumptions C08_sorted.

(* --diff of a table against itself pairs every row with itself and all differences are zero. *)
Theorem C08_self_diff_zero : forall c,
  diff_pairs (report c) (report c) = map (fun n => (n, n)) (report c)
  /\ forallb diff_is_zero (map diff_cols (diff_pairs (report c) (report c))) = true.
Proof. exact (fun c => diff_self_zero (report c) (report_names_sorted c)). Qed.
Print Assumptions C08_self_diff_zero.

(* The printed time is the value truncated to its unit for every value below 24 minutes (exact below 1 ms). *)
Theorem C08_printed_time : forall ns, ns < 1440000000000 -> ok_cell ns (fmt_time ns) = true.
Proof. exact fmt_time_ok. Qed.
Print Assumptions C08_printed_time.

(* From 24 minutes on it is not: __print_time_unit divides minutes by 24 (35 min is printed "1.011 h"). *)
Theorem C08_printed_time_hours_refuted :
  let ns := 35 * 60 * 1000000000 in fmt_time ns = Some (1, 11, 4) /\ ok_cell ns (fmt_time ns) = false.
Proof. exact fmt_time_hours_refuted. Qed.
Print Assumptions C08_printed_time_hours_refuted.
