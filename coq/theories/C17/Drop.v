(* C17: events are dropped together with a call that is filtered out - watch events included.
   Plain base configuration (-t, -D, --max-stack), ANY read= triggers and watch points, any observations:
   a complete call that is not recorded (time filter / depth limit; none of its callees recorded either)
   leaves the thread's stream AND the pending-event queue exactly as it found them: whatever its hooks
   queued is removed by the invalidation at its exit.  Induction over the call tree. *)
From Coq Require Import NArith ZArith List Bool Lia.
Import ListNotations.
Require Import UV.Gen.Consts UV.Gen.C17Consts UV.Mcount.Model UV.Mcount.Forest UV.Mcount.PlainStep
  UV.Mcount.PlainProofs UV.C17.Model UV.C17.Erase UV.C17.Read.
Local Open Scope N_scope.

(* ---------------------------------------------------------------- save_watchpoint only appends, with the frame's index *)
Lemma x_watch_appends C f pos o X :
  exists app, pend (x_watch C f pos o X) = pend X ++ app /\ Forall (fun a => a_idx a = pos) app /\
              xs (x_watch C f pos o X) = xs X /\ xout (x_watch C f pos o X) = xout X.
Proof.
  unfold x_watch. destruct (negb (wp_cpu C || wp_var C)).
  - exists []. rewrite app_nil_r. auto.
  - cbn [pend xs xout].
    match goal with |- context [if ?c1 then pend X ++ [?e1] else pend X] => destruct c1; set (E1 := e1) end.
    + match goal with |- context [if ?c2 then (pend X ++ [E1]) ++ [?e2] else _] => destruct c2; set (E2 := e2) end.
      * exists [E1; E2]. rewrite <- app_assoc. cbn [app]. repeat split; repeat constructor.
      * exists [E1]. repeat split; repeat constructor.
    + match goal with |- context [if ?c2 then pend X ++ [?e2] else _] => destruct c2; set (E2 := e2) end.
      * exists [E2]. repeat split; repeat constructor.
      * exists []. rewrite app_nil_r. repeat split; constructor.
Qed.

(* ---------------------------------------------------------------- the invalidation *)
Lemma last_keep_ge m : forall l i k, Forall (fun a => m <= a_idx a) l -> last_keep m l i k = k.
Proof.
  induction l as [|a r IH]; intros i k H; [reflexivity|]. inversion H; subst. cbn [last_keep].
  assert (E : (a_idx a <? m) = false) by (apply N.ltb_ge; assumption). rewrite E. apply IH. assumption.
Qed.

Lemma last_keep_lt m : forall l1 l2 i k, Forall (fun a => a_idx a < m) l1 -> Forall (fun a => m <= a_idx a) l2 ->
  last_keep m (l1 ++ l2) i k = match l1 with [] => k | _ => (i + length l1)%nat end.
Proof.
  induction l1 as [|a r IH]; intros l2 i k H1 H2.
  - cbn [app]. apply last_keep_ge. exact H2.
  - inversion H1; subst. cbn [app last_keep].
    assert (E : (a_idx a <? m) = true) by (apply N.ltb_lt; assumption). rewrite E.
    rewrite IH by assumption. destruct r; cbn [length]; lia.
Qed.

Lemma invalidate_own n before app : Forall (fun a => a_idx a < n) before -> Forall (fun a => n <= a_idx a) app ->
  invalidate n (before ++ app) = before.
Proof.
  intros H1 H2. unfold invalidate. rewrite (last_keep_lt n before app 0 0 H1 H2).
  destruct before as [|a r]; [reflexivity|]. cbn [Nat.add].
  rewrite firstn_app. replace (length (a :: r) - length (a :: r))%nat with 0%nat by lia.
  rewrite firstn_all. cbn [firstn]. apply app_nil_r.
Qed.

Section drop.
  Variables thr gd ms : N.
  Variable sh : shape.
  Variable rd : N -> N.
  Variables pm wc wv : bool.
  Let C := xplainw thr gd ms sh rd pm wc wv.
  Let c := plain thr gd ms sh.

  (* what is preserved *)
  Definition same3 (X X' : xpart) : Prop := pend X' = pend X /\ xout X' = xout X /\ xs X' = xs X.

  Lemma first_same X o : same3 X (x_first C X o).
  Proof. unfold x_first, same3. destruct (v_copy X); [auto|]. destruct (wp_var C); auto. Qed.

  Lemma idx_entry_check s a : idx s < ms ->
    let '(s1, _, _, _) := entry_check c s a in idx s1 = idx s.
  Proof.
    intro Hi. pose proof (entry_check_frame c s a) as EF.
    destruct (entry_check c s a) as [[[s1 v] tr] sv]. destruct EF as (_ & Es & _).
    unfold idx. rewrite Es, (check_rstack_ok c s Hi). reflexivity.
  Qed.

  Lemma d_enter_in s X d a t o : fc s = fcd d -> enabled s = true -> d < gd -> idx s < ms ->
    exists x, x_enter C s X a t o = push (x_watch C (newframe sh a t (ridx s) d) (idx s) o (x_first C X o)) x.
  Proof.
    intros Hfc Hen Hd Hi. unfold x_enter. change (xb C) with c.
    pose proof (idx_entry_check s a Hi) as IE.
    destruct (verdict_in thr gd ms sh s d a Hfc Hd Hi) as (s1 & tr & sv & EC). fold c in EC. rewrite EC in *.
    rewrite (x_check_rstack_ok thr gd ms sh s _ Hi).
    pose proof (enter_in thr gd ms sh s d a t Hfc Hen Hd Hi) as EI. fold c in EI. rewrite EI. cbn [stack].
    assert (Hn : norecord (f_flags (newframe sh a t (ridx s) d)) = false) by reflexivity.
    assert (Hdi : disabled (f_flags (newframe sh a t (ridx s) d)) = false) by reflexivity.
    rewrite Hn, Hdi, IE.
    destruct (shp c); eexists; reflexivity.
  Qed.

  Lemma d_enter_out_pg s X d a t o : sh = PG -> fc s = fcd d -> gd <= d -> idx s < ms ->
    x_enter C s X a t o = x_first C X o.
  Proof.
    intros Hs Hfc Hd Hi. unfold x_enter. change (xb C) with c.
    destruct (verdict_out thr gd ms sh s d a Hfc Hd Hi) as (s1 & tr & sv & EC & ST). fold c in EC. rewrite EC.
    rewrite (x_check_rstack_ok thr gd ms sh s _ Hi).
    subst c. cbn [plain shp]. rewrite Hs, ST. reflexivity.
  Qed.

  Lemma d_enter_out_cyg s X d a t o : sh = CYG -> fc s = fcd d -> gd <= d -> idx s < ms ->
    x_enter C s X a t o = push (x_first C X o) fx0.
  Proof.
    intros Hs Hfc Hd Hi. unfold x_enter. change (xb C) with c.
    destruct (verdict_out thr gd ms sh s d a Hfc Hd Hi) as (s1 & tr & sv & EC & _). fold c in EC. rewrite EC.
    rewrite (x_check_rstack_ok thr gd ms sh s _ Hi).
    destruct (enter_out_cyg thr gd ms sh s d a t Hs Hfc Hd Hi) as [Een _]. fold c in Een. rewrite Een.
    cbn [stack]. assert (Hsh : shp c = CYG) by (subst c; cbn [plain shp]; exact Hs). rewrite Hsh.
    reflexivity.
  Qed.

  Lemma d_leave_out s X a r d t o anc : sh = CYG -> stack s = outframe a r d :: anc ->
    x_leave C s X t o = set_xs X (tl (xs X)).
  Proof.
    intros Hs Hst. unfold x_leave. change (xb C) with c. rewrite Hst. cbn [outframe f_ghost].
    assert (Hsh : shp c = CYG) by (subst c; cbn [plain shp]; exact Hs). rewrite Hsh.
    reflexivity.
  Qed.

  (* exit of a frame that is not recorded: watch at the exit hook, then the invalidation *)
  Lemma d_leave_filtered s X a t0 r d t1 o1 anc dd :
    stack s = nf sh false a t0 r d :: anc -> fc s = fcd dd -> enabled s = true ->
    t0 <= t1 -> t1 < 18446744073709551616 -> (thr <=? t1 - t0) = false ->
    x_leave C s X t1 o1 =
    let X1 := x_watch C (set_end (nf sh false a t0 r d) t1) (N.of_nat (length anc)) o1 (set_xs X (tl (xs X))) in
    set_pend X1 (invalidate (N.of_nat (length anc)) (pend X1)).
  Proof.
    intros Hst Hfc Hen Ht Hlt Hthr. unfold x_leave. change (xb C) with c. rewrite Hst.
    assert (Hg : f_ghost (nf sh false a t0 r d) = false) by reflexivity. rewrite Hg.
    assert (Hnr : norecord (f_flags (nf sh false a t0 r d)) = false) by reflexivity.
    assert (Htop : match shp c with
                   | PG => set_end (nf sh false a t0 r d) t1
                   | CYG => if norecord (f_flags (nf sh false a t0 r d)) then nf sh false a t0 r d
                            else set_end (nf sh false a t0 r d) t1
                   end = set_end (nf sh false a t0 r d) t1) by (rewrite Hnr; destruct (shp c); reflexivity).
    rewrite Htop.
    assert (Hnr' : norecord (f_flags (set_end (nf sh false a t0 r d) t1)) = false) by exact Hnr. rewrite Hnr'.
    rewrite Hen. cbn [negb].
    pose proof (exit_cond_plain thr gd ms sh s false a t0 r d t1 dd Hfc Ht Hlt) as EC. fold c in EC. rewrite EC.
    rewrite Hthr. cbn [orb].
    assert (Hi : idx s - 1 = N.of_nat (length anc)).
    { unfold idx. rewrite Hst. cbn [length]. lia. }
    rewrite Hi. reflexivity.
  Qed.

  (* ---------------------------------------------------------------- the induction *)
  Definition drop_ok (k : xcall) : Prop :=
    timed (strip k) -> forall s hk X d, recs thr gd d (strip k) = [] ->
    fc s = fcd d -> enabled s = true -> ridx s = d -> idx s + height (strip k) <= ms ->
    Forall (fun a => a_idx a < idx s) (pend X) ->
    exists s' X', xexec C (xflat k) (((s, hk) : dstate), X) = (((s', hk) : dstate), X') /\
                  after s s' d [] /\ same3 X X'.

  Lemma flat_map_nil {A B} (f : A -> list B) l : flat_map f l = [] -> Forall (fun x => f x = []) l.
  Proof.
    induction l as [|x r IH]; intro H; constructor; cbn [flat_map] in H; apply app_eq_nil in H; tauto.
  Qed.

  Lemma drop_kids (ks : list xcall) : Forall drop_ok ks -> all_timed (map strip ks) ->
    forall s hk X d, flat_map (recs thr gd d) (map strip ks) = [] ->
    fc s = fcd d -> enabled s = true -> ridx s = d -> idx s + heights (map strip ks) <= ms ->
    Forall (fun a => a_idx a < idx s) (pend X) ->
    exists s' X', xexec C (flat_map xflat ks) (((s, hk) : dstate), X) = (((s', hk) : dstate), X') /\
                  after s s' d [] /\ same3 X X'.
  Proof.
    induction 1 as [|k r Hk _ IH]; intros HT s hk X d HR Hfc Hen Hr Hh Hp.
    - exists s, X. split; [reflexivity|]. split; [apply after_nil; assumption|]. unfold same3. auto.
    - destruct HT as [Tk Tr]. cbn [map heights fold_right] in Hh. fold (heights (map strip r)) in Hh.
      cbn [map flat_map] in HR. apply app_eq_nil in HR. destruct HR as [HRk HRr].
      destruct (Hk Tk s hk X d HRk Hfc Hen Hr) as (s1 & X1 & E1 & A1 & (P1 & O1 & S1)); [lia|exact Hp|].
      pose proof (after_idx _ _ _ _ A1) as I1.
      pose proof A1 as A1'. destruct A1' as (F1 & En1 & C1 & R1 & _ & _).
      destruct (IH Tr s1 hk X1 d HRr F1 En1 R1) as (s2 & X2 & E2 & A2 & (P2 & O2 & S2)); [lia|rewrite P1, I1; exact Hp|].
      exists s2, X2. split; [|split].
      + cbn [flat_map]. unfold xexec in *. rewrite fold_left_app, E1. exact E2.
      + change (@nil rec) with (@nil rec ++ @nil rec). eapply after_trans; [exact A1|exact A2].
      + unfold same3. repeat split; congruence.
  Qed.

  Lemma timed_kids' a t0 t1 kids : timed (Call a t0 t1 kids) -> all_timed kids.
  Proof. cbn. intros (_ & _ & _ & H). induction kids; cbn in *; tauto. Qed.

  Theorem drop_call : forall k, drop_ok k.
  Proof.
    induction k as [a t0 o0 t1 o1 kids IH] using xcall_ind'. intros HT s hk X d HR Hfc Hen Hr Hh Hp.
    cbn [strip] in HT. pose proof (drop_kids kids IH (timed_kids' _ _ _ _ HT)) as RK. clear IH.
    destruct HT as (Ht01 & Ht1 & Hpos & _).
    cbn [strip height] in Hh. fold (heights (map strip kids)) in Hh.
    cbn [xflat]. unfold xexec. cbn [fold_left]. rewrite fold_left_app. cbn [fold_left].
    cbn [xdstep bev dstep]. change (xb C) with c.
    destruct (N.le_gt_cases gd d) as [Hout|Hin].
    - (* beyond the -D limit: no hook reaches save_watchpoint *)
      assert (KB : flat_map (recs thr gd d) (map strip kids) = []) by (apply recs_beyond_list; exact Hout).
      assert (Hsh : sh = PG \/ sh = CYG) by (destruct sh; auto). destruct Hsh as [Esh|Esh].
      + destruct (enter_out_pg thr gd ms sh s d a t0 Esh Hfc Hout) as [Een Hhk]; [lia|].
        fold c in Een, Hhk. rewrite Een, Hhk.
        rewrite (d_enter_out_pg s X d a t0 o0 Esh Hfc Hout) by lia.
        destruct (first_same X o0) as (FP & FO & FS).
        destruct (RK {| fc := fc s; enabled := enabled s; cached := cached s; stack := stack s; ridx := ridx s;
                        out := out s; warned := false |} (false :: hk) (x_first C X o0) d KB Hfc Hen Hr)
          as (s2 & X2 & E2 & A2 & (P2 & O2 & S2)).
        { unfold idx in *. cbn [stack]. lia. }
        { rewrite FP. unfold idx in *. cbn [stack]. exact Hp. }
        unfold xexec in E2. rewrite E2. cbn [xdstep bev dstep].
        exists s2, X2. split; [reflexivity|]. split.
        * destruct A2 as (F2 & En2 & C2 & R2 & S2' & O2'). cbn [is_nil stack out cached] in *.
          unfold after. cbn [is_nil]. auto 10.
        * unfold same3. repeat split; congruence.
      + destruct (enter_out_cyg thr gd ms sh s d a t0 Esh Hfc Hout) as [Een Hhk]; [lia|].
        fold c in Een, Hhk. rewrite Een, Hhk.
        rewrite (d_enter_out_cyg s X d a t0 o0 Esh Hfc Hout) by lia.
        destruct (first_same X o0) as (FP & FO & FS).
        destruct (RK {| fc := fc s; enabled := enabled s; cached := cached s;
                        stack := outframe a (ridx s) d :: stack s; ridx := ridx s;
                        out := out s; warned := false |} (true :: hk) (push (x_first C X o0) fx0) d KB Hfc Hen Hr)
          as (s2 & X2 & E2 & A2 & (P2 & O2 & S2)).
        { unfold idx in *. cbn [stack length]. lia. }
        { cbn [push set_xs pend]. rewrite FP. unfold idx in *. cbn [stack length].
          eapply Forall_impl; [|exact Hp]. cbn. intros; lia. }
        unfold xexec in E2. rewrite E2. cbn [xdstep bev dstep].
        destruct A2 as (F2 & En2 & C2 & R2 & S2' & O2'). cbn [is_nil stack out cached app] in *.
        rewrite app_nil_r in O2'.
        pose proof (leave_out thr gd ms sh s2 a (ridx s) d t1 (stack s) Esh S2') as LO. fold c in LO.
        change (xb C) with c. rewrite LO.
        rewrite (d_leave_out s2 X2 a (ridx s) d t1 o1 (stack s) Esh S2').
        eexists. eexists. split; [reflexivity|]. split.
        * unfold after. cbn [fc enabled cached ridx stack out is_nil app].
          rewrite F2. cbn [fcd in_count out_count]. rewrite app_nil_r. auto 10.
        * unfold same3. cbn [set_xs pend xout xs]. cbn [push set_xs pend xout xs] in P2, O2, S2.
          rewrite S2. cbn [tl]. repeat split; congruence.
    - (* within the limit: the frame is pushed, nothing below it is recorded, it is itself too short *)
      assert (Hi : idx s < ms) by lia.
      cbn [strip recs] in HR. assert (EL : (gd <=? d) = false) by (apply N.leb_gt; exact Hin). rewrite EL in HR.
      set (Rk := flat_map (recs thr gd (d + 1)) (map strip kids)) in *.
      destruct ((thr <=? t1 - t0) || negb (is_nil Rk)) eqn:Dec; [discriminate|].
      apply orb_false_iff in Dec. destruct Dec as [Dthr Dn]. apply negb_false_iff in Dn.
      assert (KB : Rk = []) by (destruct Rk; [reflexivity|discriminate]).
      pose proof (enter_in thr gd ms sh s d a t0 Hfc Hen Hin Hi) as EI. fold c in EI. rewrite EI.
      pose proof (hooked_in thr gd ms sh s d a Hfc Hin Hi) as HI. fold c in HI. rewrite HI.
      destruct (d_enter_in s X d a t0 o0 Hfc Hen Hin Hi) as (x & XE). rewrite XE.
      destruct (first_same X o0) as (FP & FO & FS).
      destruct (x_watch_appends C (newframe sh a t0 (ridx s) d) (idx s) o0 (x_first C X o0))
        as (app0 & WP & WA & WS & WO).
      set (X1 := push (x_watch C (newframe sh a t0 (ridx s) d) (idx s) o0 (x_first C X o0)) x) in *.
      set (s1 := {| fc := fcd (d + 1); enabled := true; cached := cached s;
                    stack := newframe sh a t0 (ridx s) d :: stack s; ridx := ridx s + 1; out := out s;
                    warned := false |}).
      destruct (RK s1 (true :: hk) X1 (d + 1) KB) as (s2 & X2 & E2 & A2 & (P2 & O2 & S2)); try reflexivity.
      { subst s1. cbn [ridx]. lia. }
      { subst s1. unfold idx in *. cbn [stack length]. lia. }
      { subst X1 s1. cbn [push set_xs pend]. rewrite WP, FP. unfold idx in *. cbn [stack length].
        apply Forall_app. split.
        - eapply Forall_impl; [|exact Hp]. cbn. intros; lia.
        - eapply Forall_impl; [|exact WA]. cbn. intros a0 H0. rewrite H0. lia. }
      unfold xexec in E2. rewrite E2. cbn [xdstep bev dstep].
      destruct A2 as (F2 & En2 & C2 & R2 & S2' & O2').
      subst s1. cbn [stack out cached is_nil app] in S2', O2', C2. rewrite app_nil_r in O2'.
      change (newframe sh a t0 (ridx s) d) with (nf sh false a t0 (ridx s) d) in S2'.
      assert (LI := leave_in thr gd ms sh s2 false a t0 (ridx s) d t1 _ (d + 1) S2' F2 En2).
      fold c in LI. change (xb C) with c. rewrite LI by (try assumption; lia).
      rewrite Dthr. cbn [orb].
      rewrite (d_leave_filtered s2 X2 a t0 (ridx s) d t1 o1 (stack s) (d + 1) S2' F2 En2 Ht01 Ht1 Dthr).
      destruct (x_watch_appends C (set_end (nf sh false a t0 (ridx s) d) t1) (N.of_nat (length (stack s))) o1
                  (set_xs X2 (tl (xs X2)))) as (app1 & VP & VA & VS & VO).
      cbn zeta.
      eexists. eexists. split; [reflexivity|]. split.
      + unfold after. cbn [fc enabled cached ridx stack out is_nil app]. rewrite app_nil_r.
        repeat split; try assumption; congruence.
      + unfold same3. cbn [set_pend pend xout xs]. rewrite VP, VO, VS. cbn [set_xs pend xout xs].
        rewrite P2, O2, S2. subst X1. cbn [push set_xs pend xout xs tl]. rewrite WP, WO, WS, FP, FO, FS.
        split; [|auto].
        rewrite <- app_assoc. apply invalidate_own.
        * exact Hp.
        * apply Forall_app. split.
          -- eapply Forall_impl; [|exact WA]. cbn. intros a0 H0. rewrite H0. unfold idx. lia.
          -- eapply Forall_impl; [|exact VA]. cbn. intros a0 H0. rewrite H0. lia.
  Qed.
End drop.

(* from any state the plain machine can be in between two top-level calls *)
Theorem dropped_with_call thr gd ms sh rd pm wc wv : forall k, timed (strip k) -> forall s hk X d,
  recs thr gd d (strip k) = [] ->
  fc s = fcd d -> enabled s = true -> ridx s = d -> idx s + height (strip k) <= ms ->
  Forall (fun a => a_idx a < idx s) (pend X) ->
  exists s' X', xexec (xplainw thr gd ms sh rd pm wc wv) (xflat k) (((s, hk) : dstate), X) = (((s', hk) : dstate), X') /\
                pend X' = pend X /\ xout X' = xout X /\ xs X' = xs X /\ stack s' = stack s /\ out s' = out s.
Proof.
  intros k HT s hk X d HR Hfc Hen Hr Hh Hp.
  destruct (drop_call thr gd ms sh rd pm wc wv k HT s hk X d HR Hfc Hen Hr Hh Hp) as (s' & X' & E & A & (P & O & S)).
  exists s', X'. destruct A as (_ & _ & _ & _ & St & Ou). cbn [is_nil app] in St, Ou. rewrite app_nil_r in Ou.
  auto 10.
Qed.
