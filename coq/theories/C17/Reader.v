(* C17, reader side: with a depth limit given at analysis time (-D N, depth=N triggers) the events shown are
   exactly the events of the functions shown, each under its own function. *)
From Coq Require Import NArith ZArith List Bool Lia.
Import ListNotations.
Require Import UV.C17.Model.
Local Open Scope Z_scope.

Lemma rrun_app l c : forall rs1 rs2 s,
  rrun l c (rs1 ++ rs2) s =
  let '(s1, o1) := rrun l c rs1 s in let '(s2, o2) := rrun l c rs2 s1 in (s2, o1 ++ o2).
Proof.
  induction rs1 as [|r rest IH]; intros rs2 s; cbn [app rrun].
  - destruct (rrun l c rs2 s). reflexivity.
  - destruct (rstep l c s r) as [s1 o1]. rewrite IH.
    destruct (rrun l c rest s1) as [s2 o2]. destruct (rrun l c rs2 s2) as [s3 o3]. rewrite app_assoc. reflexivity.
Qed.

(* is the innermost open function shown? *)
Definition top_shown (s : rst) : bool :=
  match snd s with (nr, _) :: _ => negb nr | [] => (0 <? fst s) end.

Theorem reader_depth c : forall t b stk,
  rrun false c (rflat t) (b, stk) = ((b, stk), rvis c (top_shown (b, stk)) b t).
Proof.
  induction t as [fn kids IH|e] using rtree_ind'; intros b stk.
  - cbn [rflat rrun rstep rvis].
    set (b1 := match rdepth_of c fn with Some d => d | None => b end).
    assert (K : forall s sp bb, top_shown s = sp -> fst s = bb ->
                rrun false c (flat_map rflat kids) s = (s, flat_map (rvis c sp bb) kids)).
    { intros s sp bb Hs Hb. destruct s as [fd st]. cbn [fst] in Hb. subst bb.
      induction IH as [|k r Hk _ IHr]; [reflexivity|]. cbn [flat_map]. rewrite rrun_app, Hk, IHr, Hs. reflexivity. }
    destruct (b1 <=? 0) eqn:E.
    + rewrite rrun_app, (K _ false b1) by reflexivity. cbn [rrun rstep app]. rewrite app_nil_r. reflexivity.
    + rewrite rrun_app, (K _ true (b1 - 1)) by reflexivity. cbn [rrun rstep app]. reflexivity.
  - cbn [rflat rrun rstep rvis]. unfold top_shown. cbn [fst snd]. destruct stk as [|[nr o] r]; rewrite app_nil_r; reflexivity.
Qed.

(* a whole recording (top level: no open function) *)
Corollary reader_depth_top c ts :
  snd (rrun false c (flat_map rflat ts) (rgdepth c, [])) = flat_map (rvis c (0 <? rgdepth c) (rgdepth c)) ts.
Proof.
  assert (K : forall s, rrun false c (flat_map rflat ts) s = (s, flat_map (rvis c (top_shown s) (fst s)) ts)).
  { intros [fd st]. induction ts as [|k r IH]; [reflexivity|]. cbn [flat_map]. rewrite rrun_app, reader_depth, IH. reflexivity. }
  rewrite K. reflexivity.
Qed.

(* non-vacuity and the old behaviour: main { alpha { e1; beta { e2 }; e3 } } with -D 2 *)
Definition rd_tree : rtree := RC 0 [RC 1 [RV 1; RC 2 [RV 2]; RV 3]].
Definition rd_cfg : rcfg := {| rgdepth := 2; rdepth_of := fun _ => None |}.
Lemma reader_depth_example :
  snd (rrun false rd_cfg (rflat rd_tree) (2, [])) = [RE 0; RE 1; REV 1; REV 3; RX 1; RX 0].
Proof. reflexivity. Qed.
(* LEGACY (before 9a6dfe6): the deepest function shown lost its events *)
Lemma reader_depth_legacy_refuted :
  snd (rrun true rd_cfg (rflat rd_tree) (2, [])) = [RE 0; RE 1; RX 1; RX 0].
Proof. reflexivity. Qed.
