(* C17: read / diff events under the plain configuration (-t, -D, --max-stack; no filter options),
   any set of read= triggers, no watch points: the stream of a complete call tree equals the
   tree-recursive specification [xrecs] - induction over the call tree (mirrors Mcount/PlainProofs). *)
From Coq Require Import NArith ZArith List Bool Lia.
Import ListNotations.
Require Import UV.Gen.Consts UV.Gen.C17Consts UV.Mcount.Model UV.Mcount.Forest UV.Mcount.PlainStep
  UV.Mcount.PlainProofs UV.C17.Model UV.C17.Erase.
Local Open Scope N_scope.

(* ---------------------------------------------------------------- save_trigger_read = reads / diffs *)
Definition avail (pm : bool) (k : kind) : bool := negb (is_pmu k) || pm.
Definition mkread (t : N) (o : oval) (k : kind) : fev := {| e_time := t; e_id := id_read k; e_data := values o k |}.
Definition mkdiff (t : N) (o0 o1 : oval) (k : kind) : fev :=
  {| e_time := t; e_id := id_diff k; e_data := map2 sub64 (values o1 k) (values o0 k) |}.

Lemma table_eq : table = [K_STATM; K_PF; K_CYCLE; K_CACHE; K_BRANCH].
Proof. reflexivity. Qed.

Section str.
  Variable C : xcfg.
  Variable sel : kind -> bool.

  Lemma str_read o t :
    str_go C (filter sel table) o t false [] = map (mkread t o) (filter (avail (pmu_ok C)) (filter sel table)).
  Proof.
    rewrite table_eq. unfold avail. destruct C as [b r wc wv pmm]. cbn [pmu_ok filter].
    destruct pmm; destruct (sel K_STATM), (sel K_PF), (sel K_CYCLE), (sel K_CACHE), (sel K_BRANCH); reflexivity.
  Qed.

  Lemma str_diff o0 o1 t0 t1 :
    str_go C (filter sel table) o1 t1 true (map (mkread t0 o0) (filter (avail (pmu_ok C)) (filter sel table))) =
    map (mkread t0 o0) (filter (avail (pmu_ok C)) (filter sel table)) ++
    map (mkdiff t1 o0 o1) (filter (avail (pmu_ok C)) (filter sel table)).
  Proof.
    rewrite table_eq. unfold avail. destruct C as [b r wc wv pmm]. cbn [pmu_ok filter].
    destruct pmm; destruct (sel K_STATM), (sel K_PF), (sel K_CYCLE), (sel K_CACHE), (sel K_BRANCH); reflexivity.
  Qed.
End str.

Lemma reads_eq C a t o : reads C a t o = map (mkread t o) (ekinds C a).
Proof. reflexivity. Qed.
Lemma diffs_eq C a t o0 o1 : diffs C a t o0 o1 = map (mkdiff t o0 o1) (ekinds C a).
Proof. reflexivity. Qed.
Lemma ekinds_eq C a :
  ekinds C a = filter (avail (pmu_ok C)) (filter (fun k => negb (N.land (read_of C a) (kind_bit k) =? 0)) table).
Proof. reflexivity. Qed.

Lemma take_eq_prefix t0 o0 ks l2 : (forall e, hd_error l2 = Some e -> e_time e <> t0) ->
  take_eq t0 (map (mkread t0 o0) ks ++ l2) = map (mkread t0 o0) ks.
Proof.
  intro H. induction ks as [|k r IH]; cbn [map app take_eq].
  - destruct l2 as [|e l]; [reflexivity|]. cbn [take_eq].
    assert (E : (e_time e =? t0) = false) by (apply N.eqb_neq; apply H; reflexivity). rewrite E. reflexivity.
  - cbn [mkread e_time]. rewrite N.eqb_refl. f_equal. exact IH.
Qed.

Lemma take_eq_all t o ks : take_eq t (map (mkread t o) ks) = map (mkread t o) ks.
Proof.
  induction ks as [|k r IH]; [reflexivity|]. cbn [map take_eq mkread e_time]. rewrite N.eqb_refl. f_equal. exact IH.
Qed.

Lemma take_eq_reads t0 t1 o0 o1 ks : t0 <> t1 ->
  take_eq t0 (map (mkread t0 o0) ks ++ map (mkdiff t1 o0 o1) ks) = map (mkread t0 o0) ks.
Proof.
  intro H. apply take_eq_prefix. intros e He. destruct ks as [|k r]; [discriminate|].
  cbn [map hd_error] in He. inversion He. cbn [mkdiff e_time]. congruence.
Qed.

Lemma filter_diffs t0 t1 o0 o1 ks ks' : t0 <> t1 ->
  filter (fun e => e_time e =? t1) (map (mkread t0 o0) ks ++ map (mkdiff t1 o0 o1) ks') = map (mkdiff t1 o0 o1) ks'.
Proof.
  intro H. rewrite filter_app.
  assert (A : filter (fun e => e_time e =? t1) (map (mkread t0 o0) ks) = []).
  { induction ks as [|k r IH]; [reflexivity|]. cbn [map filter mkread e_time].
    assert (E : (t0 =? t1) = false) by (apply N.eqb_neq; exact H). rewrite E. exact IH. }
  rewrite A. cbn [app].
  induction ks' as [|k r IH]; [reflexivity|]. cbn [map filter mkdiff e_time]. rewrite N.eqb_refl. f_equal. exact IH.
Qed.

Lemma filter_same t o0 o1 ks :
  filter (fun e => e_time e =? t) (map (mkdiff t o0 o1) ks) = map (mkdiff t o0 o1) ks.
Proof. induction ks as [|k r IH]; [reflexivity|]. cbn [map filter mkdiff e_time]. rewrite N.eqb_refl. f_equal. exact IH. Qed.

(* ---------------------------------------------------------------- the guard never fires while there is room *)
Definition ksize (ks : list kind) : N := fold_right (fun k n => EVTBUF_HDR + dsz k + n) 0 ks.
Definition abytes (a : option N) : N := match a with Some n => 4 + n | None => 0 end.
(* the argument data leaves room for every event a frame can get: 2 x (all five kinds) *)
Definition asz_ok (a : option N) : Prop := match a with Some n => n <= 684 | None => True end.

Lemma asz_ok_room a : asz_ok a -> abytes a + 2 * ksize table <= C17_ARGBUF_SIZE.
Proof. destruct a as [n|]; cbn [asz_ok abytes]; intro H; vm_compute ksize; unfold C17_ARGBUF_SIZE; lia. Qed.

Lemma used_app evs e : used (evs ++ [e]) = used evs + esize e.
Proof. unfold used. induction evs as [|x r IH]; cbn [app fold_right]; [lia|]. rewrite IH. lia. Qed.

Lemma esize_new C o ts diff evs k e : new_event C o ts diff evs k = Some e -> esize e = EVTBUF_HDR + dsz k.
Proof.
  unfold new_event. destruct (reading C o k); [|discriminate].
  destruct diff; [destruct (find_old evs (id_read k))|]; intro H; inversion H; subst; destruct k; reflexivity.
Qed.

Lemma str_go_g_room C a o ts diff : forall ks evs, abytes a + used evs + ksize ks <= C17_ARGBUF_SIZE ->
  str_go_g C a ks o ts diff evs = str_go C ks o ts diff evs.
Proof.
  induction ks as [|k r IH]; intros evs H; [reflexivity|]. cbn [str_go_g str_go]. cbn [ksize fold_right] in H.
  fold (ksize r) in H.
  assert (F : fits a evs k = true).
  { unfold fits. fold (abytes a). apply andb_true_iff. split; apply N.leb_le; lia. }
  rewrite F. destruct (new_event C o ts diff evs k) as [e|] eqn:E.
  - apply IH. rewrite used_app, (esize_new _ _ _ _ _ _ _ E). lia.
  - apply IH. lia.
Qed.

Lemma ksize_filter f ks : ksize (filter f ks) <= ksize ks.
Proof.
  induction ks as [|k r IH]; cbn [filter]; [lia|]. destruct (f k); cbn [ksize fold_right]; fold (ksize r);
    fold (ksize (filter f r)); lia.
Qed.

Lemma used_reads t o ks : used (map (mkread t o) ks) = ksize ks.
Proof.
  induction ks as [|k r IH]; [reflexivity|]. cbn [map used fold_right ksize]. fold (used (map (mkread t o) r)).
  fold (ksize r). rewrite IH. destruct k; reflexivity.
Qed.

(* ---------------------------------------------------------------- facts on the flush with an empty queue *)
Lemma pop_lt_nil ts : pop_lt ts [] = ([], []).
Proof. reflexivity. Qed.

Lemma xflush_anc_nopend anc : forall axs, snd (xflush_anc anc axs []) = [].
Proof.
  induction anc as [|f rest IH]; intro axs; [reflexivity|].
  cbn [xflush_anc]. destruct (written (f_flags f)); [reflexivity|].
  specialize (IH (tl axs)). destruct (xflush_anc rest (tl axs) []) as [its p1]. cbn [snd] in IH. subst p1.
  destruct (skip f); [reflexivity|]. unfold x_entry. rewrite pop_lt_nil. reflexivity.
Qed.

Lemma xflush_anc_flushed stk : forall axs p, xflush_anc (fst (flush_anc stk)) axs p = ([], p).
Proof.
  induction stk as [|f rest IH]; intros axs p; [reflexivity|]. cbn [flush_anc].
  destruct (written (f_flags f)) eqn:W.
  - cbn [fst xflush_anc]. rewrite W. reflexivity.
  - destruct (flush_anc rest) as [rest' recs] eqn:E. cbn [fst] in IH.
    destruct (skip f) eqn:S; cbn [fst xflush_anc].
    + rewrite W, IH, S. reflexivity.
    + cbn [set_written f_flags written]. reflexivity.
Qed.

Section xplain_run.
  Variables thr gd ms : N.
  Variable sh : shape.
  Variable rd : N -> N.
  Variable pm : bool.
  Let C := xplain thr gd ms sh rd pm.
  Let c := plain thr gd ms sh.

  Lemma x_watch_off f pos o X : x_watch C f pos o X = X.
  Proof. reflexivity. Qed.

  Lemma x_first_off X o : x_first C X o = X.
  Proof. unfold x_first. destruct (v_copy X); reflexivity. Qed.

  Lemma x_check_rstack_ok s X : idx s < ms -> x_check_rstack c s X = X.
  Proof.
    intro H. unfold x_check_rstack. subst c. cbn [plain max_stack].
    assert (E : (ms <=? idx s) = false) by (apply N.leb_gt; exact H). rewrite E. reflexivity.
  Qed.

  (* the verdict of mcount_entry_filter_check under the plain configuration *)
  Lemma verdict_in s d a : fc s = fcd d -> d < gd -> idx s < ms ->
    exists s1 tr sv, entry_check c s a = (s1, V_IN, tr, sv).
  Proof.
    intros Hfc Hd Hi. unfold entry_check.
    rewrite (check_rstack_ok c s) by exact Hi. cbn [fc enabled cached stack ridx out warned].
    rewrite Hfc. cbn [fcd in_count out_count depth max_depth ftime fsize].
    rewrite N.eqb_refl. cbn [Z.gtb Z.compare].
    subst c. cbn [plain trig_of notrig t_filter t_depth t_time t_size t_trace_on t_trace_off fmode_in gdepth shp andb].
    unfold with_fc. cbn [fcd fc enabled cached stack ridx out warned in_count out_count depth max_depth ftime fsize].
    assert (E : (gd <=? d) = false) by (apply N.leb_gt; exact Hd). rewrite E.
    eexists. eexists. eexists. reflexivity.
  Qed.

  Lemma verdict_out s d a : fc s = fcd d -> gd <= d -> idx s < ms ->
    exists s1 tr sv, entry_check c s a = (s1, V_OUT, tr, sv) /\ state_trig tr = false.
  Proof.
    intros Hfc Hd Hi. unfold entry_check.
    rewrite (check_rstack_ok c s) by exact Hi. cbn [fc enabled cached stack ridx out warned].
    rewrite Hfc. cbn [fcd in_count out_count depth max_depth ftime fsize].
    rewrite N.eqb_refl. cbn [Z.gtb Z.compare].
    subst c. cbn [plain trig_of notrig t_filter t_depth t_time t_size t_trace_on t_trace_off fmode_in gdepth shp andb].
    unfold with_fc. cbn [fcd fc enabled cached stack ridx out warned in_count out_count depth max_depth ftime fsize].
    assert (E : (gd <=? d) = true) by (apply N.leb_le; exact Hd). rewrite E.
    eexists. eexists. eexists. split; reflexivity.
  Qed.

  (* the extension of a freshly pushed recorded frame *)
  Definition fxnew (a t : N) (o : oval) : fx :=
    {| x_read := negb (rd a =? 0); x_evs := reads C a t o;
       x_asz := match sh with PG => o_asz o | CYG => None end; x_nent := length (reads C a t o) |}.

  Lemma kinds_zero : kinds_of 0 = [].
  Proof. reflexivity. Qed.

  Lemma x_enter_in s X d a t o : fc s = fcd d -> enabled s = true -> d < gd -> idx s < ms -> asz_ok (o_asz o) ->
    x_enter C s X a t o = push X (fxnew a t o).
  Proof.
    intros Hfc Hen Hd Hi Hasz. unfold x_enter.
    change (xb C) with c.
    rewrite x_first_off.
    destruct (verdict_in s d a Hfc Hd Hi) as (s1 & tr & sv & EC). rewrite EC.
    rewrite (x_check_rstack_ok s X Hi).
    pose proof (enter_in thr gd ms sh s d a t Hfc Hen Hd Hi) as EI. fold c in EI. rewrite EI. cbn [stack].
    assert (Hn : norecord (f_flags (newframe sh a t (ridx s) d)) = false) by reflexivity.
    assert (Hdi : disabled (f_flags (newframe sh a t (ridx s) d)) = false) by reflexivity.
    assert (Same : (if norecord (f_flags (newframe sh a t (ridx s) d)) then push X fx0
                    else if disabled (f_flags (newframe sh a t (ridx s) d))
                         then if cached s1
                              then let '(its, p') := x_rtd (newframe sh a t (ridx s) d) fx0 (stack s1) (xs X) (pend X) in
                                   push (emit X its p') fx0
                              else push X fx0
                         else push (x_watch C (newframe sh a t (ridx s) d) (idx s1) o X)
                                   (if read_of C a =? 0 then fxa (match shp c with PG => o_asz o | CYG => None end)
                                    else save_trigger_read C (newframe sh a t (ridx s) d) o false
                                           (fxa (match shp c with PG => o_asz o | CYG => None end))))
                   = push X (fxnew a t o)).
    { rewrite Hn, Hdi, x_watch_off. f_equal. unfold fxnew. change (read_of C a) with (rd a).
      change (shp c) with sh.
      destruct (rd a =? 0) eqn:E0.
      - apply N.eqb_eq in E0. cbn [negb]. unfold reads, ekinds. change (read_of C a) with (rd a).
        rewrite E0, kinds_zero. reflexivity.
      - cbn [negb]. unfold save_trigger_read. cbn [x_evs x_asz fxa newframe f_addr].
        assert (Hts : ts_of (newframe sh a t (ridx s) d) = t) by reflexivity. rewrite Hts.
        change (read_of C a) with (rd a). unfold kinds_of.
        rewrite str_go_g_room.
        + rewrite str_read. rewrite reads_eq, ekinds_eq. reflexivity.
        + assert (A : asz_ok (match sh with PG => o_asz o | CYG => None end)).
          { clear - Hasz. destruct (match sh with PG => o_asz o | CYG => None end) eqn:E; [|exact I].
            revert E. generalize sh. intros [] E; [rewrite E in Hasz; exact Hasz|discriminate]. }
          pose proof (asz_ok_room _ A) as R.
          pose proof (ksize_filter (fun k => negb (N.land (rd a) (kind_bit k) =? 0)) table) as K.
          cbn [used fold_right]. lia. }
    revert Same. destruct (shp c); intro Same; exact Same.
  Qed.

  Lemma x_enter_out_pg s X d a t o : sh = PG -> fc s = fcd d -> gd <= d -> idx s < ms ->
    x_enter C s X a t o = X.
  Proof.
    intros Hs Hfc Hd Hi. unfold x_enter.
    change (xb C) with c.
    rewrite x_first_off.
    destruct (verdict_out s d a Hfc Hd Hi) as (s1 & tr & sv & EC & ST). rewrite EC.
    rewrite (x_check_rstack_ok s X Hi).
    subst c. cbn [plain shp]. rewrite Hs, ST. reflexivity.
  Qed.

  Lemma x_enter_out_cyg s X d a t o : sh = CYG -> fc s = fcd d -> gd <= d -> idx s < ms ->
    x_enter C s X a t o = push X fx0.
  Proof.
    intros Hs Hfc Hd Hi. unfold x_enter.
    change (xb C) with c.
    rewrite x_first_off.
    destruct (verdict_out s d a Hfc Hd Hi) as (s1 & tr & sv & EC & _). rewrite EC.
    rewrite (x_check_rstack_ok s X Hi).
    destruct (enter_out_cyg thr gd ms sh s d a t Hs Hfc Hd Hi) as [Een _]. fold c in Een. rewrite Een.
    cbn [stack]. assert (Hsh : shp c = CYG) by (subst c; cbn [plain shp]; exact Hs). rewrite Hsh.
    reflexivity.
  Qed.

  Lemma x_leave_out s X a r d t o anc : sh = CYG -> stack s = outframe a r d :: anc ->
    x_leave C s X t o = set_xs X (tl (xs X)).
  Proof.
    intros Hs Hst. unfold x_leave. change (xb C) with c. rewrite Hst. cbn [outframe f_ghost].
    assert (Hsh : shp c = CYG) by (subst c; cbn [plain shp]; exact Hs). rewrite Hsh.
    reflexivity.
  Qed.

  Lemma exit_cond_plain s w a t0 r d t1 dd : fc s = fcd dd -> t0 <= t1 -> t1 < 18446744073709551616 ->
    exit_cond c s (set_end (nf sh w a t0 r d) t1) = (thr <=? t1 - t0) || w.
  Proof.
    intros Hfc Ht Hlt. unfold exit_cond. rewrite Hfc. cbn [fcd ftime]. rewrite N.eqb_refl.
    assert (Hdur : (f_end (set_end (nf sh w a t0 r d) t1) + 18446744073709551616 - f_start (set_end (nf sh w a t0 r d) t1))
                   mod 18446744073709551616 = t1 - t0).
    { assert (f_end (set_end (nf sh w a t0 r d) t1) = t1) as -> by reflexivity.
      assert (f_start (set_end (nf sh w a t0 r d) t1) = t0) as -> by (destruct w; reflexivity).
      replace (t1 + 18446744073709551616 - t0) with ((t1 - t0) + 1 * 18446744073709551616) by lia.
      rewrite N.mod_add by lia. apply N.mod_small. lia. }
    rewrite Hdur.
    assert (Hfl : f_flags (set_end (nf sh w a t0 r d) t1) = f_flags (nf sh w a t0 r d)) by reflexivity. rewrite Hfl.
    assert (Hft : ftrace (f_flags (nf sh w a t0 r d)) = false) by (destruct w; reflexivity).
    assert (Hw : written (f_flags (nf sh w a t0 r d)) = w) by (destruct w; reflexivity).
    rewrite Hft, Hw. subst c. cbn [plain has_caller threshold negb orb]. rewrite andb_true_r, orb_false_r. reflexivity.
  Qed.

  (* exit of a recorded frame whose extension was made by [fxnew] *)
  Lemma x_leave_in s X w a t0 o0 r d t1 o1 anc axs dd :
    stack s = nf sh w a t0 r d :: anc -> xs X = fxnew a t0 o0 :: axs -> pend X = [] ->
    fc s = fcd dd -> enabled s = true -> t0 <= t1 -> t1 < 18446744073709551616 -> 0 < t1 ->
    asz_ok (o_asz o0) ->
    x_leave C s X t1 o1 =
    if (thr <=? t1 - t0) || w then
      emit (set_xs X axs)
           ((if w then [] else fst (xflush_anc anc axs []) ++
                               [IR {| r_time := t0; r_type := ENTRY; r_depth := r; r_addr := a |}] ++
                               map IE (reads C a t0 o0))
            ++ map IE (diffs C a t1 o0 o1) ++ [IR {| r_time := t1; r_type := EXIT; r_depth := r; r_addr := a |}]) []
    else set_xs X axs.
  Proof.
    intros Hst Hxs Hp Hfc Hen Ht Hlt Hpos Hasz. unfold x_leave. change (xb C) with c. rewrite Hst, Hxs. cbn [hd tl].
    assert (Hg : f_ghost (nf sh w a t0 r d) = false) by (destruct w; reflexivity). rewrite Hg.
    assert (Hnr : norecord (f_flags (nf sh w a t0 r d)) = false) by (destruct w; reflexivity).
    assert (Htop : match shp c with
                   | PG => set_end (nf sh w a t0 r d) t1
                   | CYG => if norecord (f_flags (nf sh w a t0 r d)) then nf sh w a t0 r d
                            else set_end (nf sh w a t0 r d) t1
                   end = set_end (nf sh w a t0 r d) t1) by (rewrite Hnr; destruct (shp c); reflexivity).
    rewrite Htop.
    assert (Hnr' : norecord (f_flags (set_end (nf sh w a t0 r d) t1)) = false) by exact Hnr. rewrite Hnr'.
    rewrite Hen. cbn [negb]. rewrite x_watch_off.
    rewrite (exit_cond_plain s w a t0 r d t1 dd Hfc Ht Hlt).
    destruct ((thr <=? t1 - t0) || w) eqn:Dec.
    2:{ unfold set_pend, set_xs. cbn [pend xs w_inited w_cpu v_copy g_init g_val xout]. rewrite Hp. reflexivity. }
    (* the events of the frame after the diff pass *)
    set (top1 := set_end (nf sh w a t0 r d) t1).
    set (x1 := if x_read (fxnew a t0 o0) then save_trigger_read C top1 o1 true (fxnew a t0 o0) else fxnew a t0 o0).
    assert (Hev : x_evs x1 = reads C a t0 o0 ++ diffs C a t1 o0 o1).
    { subst x1. unfold fxnew at 1. cbn [x_read]. destruct (rd a =? 0) eqn:E0; cbn [negb].
      - apply N.eqb_eq in E0. cbn [fxnew x_evs]. unfold reads, diffs, ekinds. change (read_of C a) with (rd a).
        rewrite E0, kinds_zero. reflexivity.
      - unfold save_trigger_read. cbn [x_evs x_asz fxnew].
        assert (Hts : ts_of top1 = t1).
        { subst top1. unfold ts_of. cbn [set_end f_end]. assert (E : (t1 =? 0) = false) by (apply N.eqb_neq; lia).
          rewrite E. reflexivity. }
        rewrite Hts.
        assert (Ha : f_addr top1 = a) by (subst top1; destruct w; reflexivity). rewrite Ha.
        change (read_of C a) with (rd a). unfold kinds_of.
        rewrite str_go_g_room.
        + rewrite reads_eq, diffs_eq, ekinds_eq. change (read_of C a) with (rd a). apply str_diff.
        + assert (A : asz_ok (match sh with PG => o_asz o0 | CYG => None end)).
          { clear - Hasz. destruct (match sh with PG => o_asz o0 | CYG => None end) eqn:E; [|exact I].
            revert E. generalize sh. intros [] E; [rewrite E in Hasz; exact Hasz|discriminate]. }
          pose proof (asz_ok_room _ A) as R.
          pose proof (ksize_filter (fun k => negb (N.land (rd a) (kind_bit k) =? 0)) table) as K.
          rewrite reads_eq, used_reads, ekinds_eq. change (read_of C a) with (rd a).
          pose proof (ksize_filter (avail (pmu_ok C)) (filter (fun k => negb (N.land (rd a) (kind_bit k) =? 0)) table)) as K2.
          lia. }
    assert (Hn : x_nent x1 = length (reads C a t0 o0)).
    { subst x1. destruct (x_read (fxnew a t0 o0)); reflexivity. }
    assert (Htake : take_eq t0 (firstn (x_nent x1) (x_evs x1)) = reads C a t0 o0 /\
                    filter (fun e => e_time e =? t1) (skipn (x_nent x1) (x_evs x1)) = diffs C a t1 o0 o1).
    { rewrite Hev, Hn, firstn_app, skipn_app, Nat.sub_diag, firstn_all, skipn_all. cbn [firstn skipn app].
      rewrite app_nil_r, reads_eq, diffs_eq. split; [apply take_eq_all|apply filter_same]. }
    destruct Htake as [Htk Hfl].
    assert (Hpx : pend (set_xs X axs) = []) by exact Hp. rewrite Hpx.
    unfold x_rtd.
    assert (Hw : written (f_flags top1) = w) by (subst top1; destruct w; reflexivity). rewrite Hw.
    assert (Hsk : skip top1 = false) by (subst top1; destruct w; reflexivity). rewrite Hsk.
    assert (Hend : (f_end top1 =? 0) = false) by (subst top1; cbn [set_end f_end]; apply N.eqb_neq; lia). rewrite Hend.
    assert (Hs0 : f_start top1 = t0) by (subst top1; destruct w; reflexivity).
    assert (He1 : f_end top1 = t1) by reflexivity.
    assert (Hent : entry_rec top1 = {| r_time := t0; r_type := ENTRY; r_depth := r; r_addr := a |})
      by (subst top1; destruct w; reflexivity).
    assert (Hext : exit_rec top1 = {| r_time := t1; r_type := EXIT; r_depth := r; r_addr := a |})
      by (subst top1; destruct w; reflexivity).
    destruct w; cbn [orb].
    - unfold x_exit. rewrite He1, pop_lt_nil, Hfl, Hext. cbn [map app]. reflexivity.
    - pose proof (xflush_anc_nopend anc axs) as Hnp.
      destruct (xflush_anc anc axs []) as [i1 p1]. cbn [snd] in Hnp. subst p1. cbn [fst].
      unfold x_entry, x_exit. rewrite Hs0, He1, !pop_lt_nil, Htk, Hfl, Hent, Hext. cbn [map app].
      rewrite <- !app_assoc. reflexivity.
  Qed.

  (* ---------------------------------------------------------------- the induction *)
  Fixpoint xtimed (k : xcall) : Prop :=
    match k with
    | XCall a t0 o0 t1 _ kids =>
        t0 <= t1 /\ t1 < 18446744073709551616 /\ 0 < t1 /\ asz_ok (o_asz o0) /\
        (fix all (l : list xcall) : Prop := match l with [] => True | k :: r => xtimed k /\ all r end) kids
    end.
  Fixpoint all_xtimed (l : list xcall) : Prop :=
    match l with [] => True | k :: r => xtimed k /\ all_xtimed r end.

  Lemma xtimed_kids a t0 o0 t1 o1 kids : xtimed (XCall a t0 o0 t1 o1 kids) -> all_xtimed kids.
  Proof. cbn. intros (_ & _ & _ & _ & H). induction kids; cbn in *; tauto. Qed.

  Lemma erase_xrecs : forall k d, erase (xrecs C thr gd d k) = recs thr gd d (strip k).
  Proof.
    induction k as [a t0 o0 t1 o1 kids IH] using xcall_ind'. intro d. cbn [xrecs strip recs].
    destruct (gd <=? d); [reflexivity|].
    assert (K : forall d', erase (flat_map (xrecs C thr gd d') kids) = flat_map (recs thr gd d') (map strip kids)).
    { intro d'. induction IH as [|k r Hk _ IHr]; [reflexivity|]. cbn [flat_map map].
      rewrite erase_app, Hk, IHr. reflexivity. }
    assert (N0 : is_nil (flat_map (xrecs C thr gd (d + 1)) kids) = is_nil (flat_map (recs thr gd (d + 1)) (map strip kids))).
    { rewrite <- K. destruct (flat_map (xrecs C thr gd (d + 1)) kids) as [|i l] eqn:E; [reflexivity|].
      clear - IH E.
      (* a non-empty xrecs stream of the kids starts with an ENTRY record *)
      assert (S : forall ks dd i l, flat_map (xrecs C thr gd dd) ks = i :: l -> exists r, i = IR r).
      { induction ks as [|k r IHk]; intros dd i0 l0 E0; [discriminate|]. cbn [flat_map] in E0.
        destruct k as [a t0 o0 t1 o1 kk]. cbn [xrecs] in E0.
        destruct (gd <=? dd); [apply (IHk dd i0 l0 E0)|].
        destruct ((thr <=? t1 - t0) || negb (is_nil (flat_map (xrecs C thr gd (dd + 1)) kk))).
        - cbn [app] in E0. inversion E0. eexists. reflexivity.
        - apply (IHk dd i0 l0 E0). }
      destruct (S kids (d + 1) i l E) as [r0 ->]. reflexivity. }
    rewrite N0.
    destruct ((thr <=? t1 - t0) || negb (is_nil (flat_map (recs thr gd (d + 1)) (map strip kids)))); [|reflexivity].
    cbn [erase flat_map app]. fold (erase (map IE (reads C a t0 o0) ++ flat_map (xrecs C thr gd (d + 1)) kids ++
                                           map IE (diffs C a t1 o0 o1) ++
                                           [IR {| r_time := t1; r_type := EXIT; r_depth := d; r_addr := a |}])).
    rewrite !erase_app, !erase_IE, K. reflexivity.
  Qed.

  Lemma is_nil_xrecs_list ks d :
    is_nil (flat_map (xrecs C thr gd d) ks) = is_nil (flat_map (recs thr gd d) (map strip ks)).
  Proof.
    assert (K : erase (flat_map (xrecs C thr gd d) ks) = flat_map (recs thr gd d) (map strip ks)).
    { induction ks as [|k r IH]; [reflexivity|]. cbn [flat_map map]. rewrite erase_app, erase_xrecs, IH. reflexivity. }
    rewrite <- K. destruct (flat_map (xrecs C thr gd d) ks) as [|i l] eqn:E; [reflexivity|].
    assert (S : forall ks dd i l, flat_map (xrecs C thr gd dd) ks = i :: l -> exists r, i = IR r).
    { clear. induction ks as [|k r IHk]; intros dd i0 l0 E0; [discriminate|]. cbn [flat_map] in E0.
      destruct k as [a t0 o0 t1 o1 kk]. cbn [xrecs] in E0.
      destruct (gd <=? dd); [apply (IHk dd i0 l0 E0)|].
      destruct ((thr <=? t1 - t0) || negb (is_nil (flat_map (xrecs C thr gd (dd + 1)) kk))).
      - cbn [app] in E0. inversion E0. eexists. reflexivity.
      - apply (IHk dd i0 l0 E0). }
    destruct (S ks d i l E) as [r0 ->]. reflexivity.
  Qed.

  Lemma strip_height k : height (strip k) = height (strip k).
  Proof. reflexivity. Qed.

  (* post-condition on the extension after a complete list of calls *)
  Definition xafter (stk : list frame) (X X' : xpart) (R : list item) : Prop :=
    xs X' = xs X /\ pend X' = [] /\
    xout X' = xout X ++ (if is_nil R then [] else fst (xflush_anc stk (xs X) [])) ++ R.

  Lemma xafter_nil stk X : pend X = [] -> xafter stk X X [].
  Proof. intro H. unfold xafter. cbn. rewrite app_nil_r. auto. Qed.

  Lemma is_nil_app' {A} (l1 l2 : list A) : is_nil (l1 ++ l2) = is_nil l1 && is_nil l2.
  Proof. destruct l1; reflexivity. Qed.

  Lemma xafter_trans stk X X1 X2 R1 R2 :
    xafter stk X X1 R1 -> xafter (if is_nil R1 then stk else fst (flush_anc stk)) X1 X2 R2 ->
    xafter stk X X2 (R1 ++ R2).
  Proof.
    intros (S1 & P1 & O1) (S2 & P2 & O2). unfold xafter. repeat split; try congruence.
    rewrite O2, O1, S1. destruct R1 as [|x R1]; cbn [is_nil app].
    - rewrite app_nil_r. reflexivity.
    - destruct R2 as [|y R2]; cbn [is_nil].
      + rewrite !app_nil_r. cbn [app]. reflexivity.
      + rewrite xflush_anc_flushed. cbn [fst app]. rewrite <- !app_assoc. cbn [app]. reflexivity.
  Qed.

  Definition kid_ok (k : xcall) : Prop :=
    xtimed k -> forall s hk X d, fc s = fcd d -> enabled s = true -> ridx s = d ->
    idx s + height (strip k) <= ms -> pend X = [] ->
    exists s' X', xexec C (xflat k) (((s, hk) : dstate), X) = (((s', hk) : dstate), X') /\
                  after s s' d (recs thr gd d (strip k)) /\ xafter (stack s) X X' (xrecs C thr gd d k).

  Lemma xrun_kids (ks : list xcall) : Forall kid_ok ks ->
    all_xtimed ks -> forall s hk X d, fc s = fcd d -> enabled s = true -> ridx s = d ->
    idx s + heights (map strip ks) <= ms -> pend X = [] ->
    exists s' X', xexec C (flat_map xflat ks) (((s, hk) : dstate), X) = (((s', hk) : dstate), X') /\
                  after s s' d (flat_map (recs thr gd d) (map strip ks)) /\
                  xafter (stack s) X X' (flat_map (xrecs C thr gd d) ks).
  Proof.
    induction 1 as [|k r Hk _ IH]; intros HT s hk X d Hfc Hen Hr Hh Hp.
    - exists s, X. split; [reflexivity|]. split; [apply after_nil; assumption|apply xafter_nil; assumption].
    - destruct HT as [Tk Tr]. cbn [map heights fold_right] in Hh. fold (heights (map strip r)) in Hh.
      destruct (Hk Tk s hk X d Hfc Hen Hr) as (s1 & X1 & E1 & A1 & XA1); [lia|exact Hp|].
      pose proof (after_idx _ _ _ _ A1) as I1.
      pose proof A1 as A1'. destruct A1' as (F1 & En1 & C1 & R1 & S1 & O1).
      pose proof XA1 as XA1'. destruct XA1' as (XS1 & XP1 & XO1).
      destruct (IH Tr s1 hk X1 d F1 En1 R1) as (s2 & X2 & E2 & A2 & XA2); [lia|exact XP1|].
      exists s2, X2. split; [|split].
      + cbn [flat_map]. unfold xexec in *. rewrite fold_left_app, E1. exact E2.
      + cbn [flat_map map]. eapply after_trans; [exact A1|exact A2].
      + cbn [flat_map]. eapply xafter_trans; [exact XA1|].
        rewrite S1 in XA2.
        assert (NN : is_nil (xrecs C thr gd d k) = is_nil (recs thr gd d (strip k))).
        { pose proof (is_nil_xrecs_list [k] d) as Q. cbn [flat_map map] in Q. rewrite !app_nil_r in Q. exact Q. }
        rewrite NN. exact XA2.
  Qed.

  Theorem xrun_call : forall k, kid_ok k.
  Proof.
    induction k as [a t0 o0 t1 o1 kids IH] using xcall_ind'. intros HT s hk X d Hfc Hen Hr Hh Hp.
    pose proof (xrun_kids kids IH (xtimed_kids _ _ _ _ _ _ HT)) as RK. clear IH.
    destruct HT as (Ht01 & Ht1 & Hpos & Hasz & _).
    cbn [strip height] in Hh. fold (heights (map strip kids)) in Hh.
    cbn [xflat]. unfold xexec. cbn [fold_left]. rewrite fold_left_app. cbn [fold_left].
    cbn [xdstep bev dstep].
    destruct (N.le_gt_cases gd d) as [Hout|Hin].
    - (* beyond the -D limit *)
      assert (RB : recs thr gd d (strip (XCall a t0 o0 t1 o1 kids)) = [])
        by (apply recs_beyond; exact Hout).
      assert (XB : xrecs C thr gd d (XCall a t0 o0 t1 o1 kids) = []).
      { cbn [xrecs]. assert (E : (gd <=? d) = true) by (apply N.leb_le; exact Hout). rewrite E. reflexivity. }
      rewrite RB, XB.
      assert (KB : flat_map (recs thr gd d) (map strip kids) = []) by (apply recs_beyond_list; exact Hout).
      assert (XKB : flat_map (xrecs C thr gd d) kids = []).
      { clear - Hout. induction kids as [|k r IHk]; [reflexivity|]. cbn [flat_map]. rewrite IHk.
        destruct k as [a t0 o0 t1 o1 kk]. cbn [xrecs].
        assert (E : (gd <=? d) = true) by (apply N.leb_le; exact Hout). rewrite E. reflexivity. }
      assert (Hsh : sh = PG \/ sh = CYG) by (destruct sh; auto). destruct Hsh as [Esh|Esh].
      + destruct (enter_out_pg thr gd ms sh s d a t0 Esh Hfc Hout) as [Een Hhk]; [lia|].
        fold c in Een, Hhk. change (xb C) with c. rewrite Een, Hhk.
        rewrite (x_enter_out_pg s X d a t0 o0 Esh Hfc Hout) by lia.
        destruct (RK {| fc := fc s; enabled := enabled s; cached := cached s; stack := stack s; ridx := ridx s;
                        out := out s; warned := false |} (false :: hk) X d Hfc Hen Hr) as (s2 & X2 & E2 & A2 & XA2).
        { unfold idx in *. cbn [stack]. lia. }
        { exact Hp. }
        unfold xexec in E2. rewrite E2. cbn [xdstep bev dstep].
        exists s2, X2. split; [reflexivity|].
        rewrite KB in A2. rewrite XKB in XA2. cbn [stack] in XA2. split; [|exact XA2].
        destruct A2 as (F2 & En2 & C2 & R2 & S2 & O2). cbn [is_nil stack out cached] in *.
        unfold after. cbn [is_nil]. auto 10.
      + destruct (enter_out_cyg thr gd ms sh s d a t0 Esh Hfc Hout) as [Een Hhk]; [lia|].
        fold c in Een, Hhk. change (xb C) with c. rewrite Een, Hhk.
        rewrite (x_enter_out_cyg s X d a t0 o0 Esh Hfc Hout) by lia.
        destruct (RK {| fc := fc s; enabled := enabled s; cached := cached s;
                        stack := outframe a (ridx s) d :: stack s; ridx := ridx s;
                        out := out s; warned := false |} (true :: hk) (push X fx0) d Hfc Hen Hr)
          as (s2 & X2 & E2 & A2 & XA2).
        { unfold idx in *. cbn [stack length]. lia. }
        { exact Hp. }
        unfold xexec in E2. rewrite E2. cbn [xdstep bev dstep].
        rewrite KB in A2. rewrite XKB in XA2.
        destruct A2 as (F2 & En2 & C2 & R2 & S2 & O2). cbn [is_nil stack out cached app] in *.
        rewrite app_nil_r in O2.
        destruct XA2 as (XS2 & XP2 & XO2). cbn [is_nil app push set_xs xs xout] in XS2, XO2. rewrite app_nil_r in XO2.
        pose proof (leave_out thr gd ms sh s2 a (ridx s) d t1 (stack s) Esh S2) as LO. fold c in LO.
        change (xb C) with c. rewrite LO.
        rewrite (x_leave_out s2 X2 a (ridx s) d t1 o1 (stack s) Esh S2).
        eexists. eexists. split; [reflexivity|]. split.
        * unfold after. cbn [fc enabled cached ridx stack out is_nil app].
          rewrite F2. cbn [fcd in_count out_count]. rewrite app_nil_r. auto 10.
        * unfold xafter. cbn [set_xs xs pend xout is_nil app]. rewrite XS2, app_nil_r. cbn [tl]. auto.
    - (* within the limit: a frame is pushed *)
      assert (Hi : idx s < ms) by lia.
      change (xb C) with c.
      pose proof (enter_in thr gd ms sh s d a t0 Hfc Hen Hin Hi) as EI. fold c in EI. rewrite EI.
      pose proof (hooked_in thr gd ms sh s d a Hfc Hin Hi) as HI. fold c in HI. rewrite HI.
      rewrite (x_enter_in s X d a t0 o0 Hfc Hen Hin Hi Hasz).
      set (s1 := {| fc := fcd (d + 1); enabled := true; cached := cached s;
                    stack := newframe sh a t0 (ridx s) d :: stack s; ridx := ridx s + 1; out := out s;
                    warned := false |}).
      destruct (RK s1 (true :: hk) (push X (fxnew a t0 o0)) (d + 1)) as (s2 & X2 & E2 & A2 & XA2); try reflexivity.
      { subst s1. cbn [ridx]. lia. }
      { subst s1. unfold idx in *. cbn [stack length]. lia. }
      { exact Hp. }
      unfold xexec in E2. rewrite E2. cbn [xdstep bev dstep].
      destruct A2 as (F2 & En2 & C2 & R2 & S2 & O2).
      destruct XA2 as (XS2 & XP2 & XO2).
      subst s1. cbn [stack out cached] in S2, O2, C2, XO2. cbn [push set_xs xs xout] in XS2, XO2.
      set (Rk := flat_map (recs thr gd (d + 1)) (map strip kids)) in *.
      set (XRk := flat_map (xrecs C thr gd (d + 1)) kids) in *.
      assert (NN : is_nil XRk = is_nil Rk) by apply is_nil_xrecs_list.
      change (newframe sh a t0 (ridx s) d) with (nf sh false a t0 (ridx s) d) in S2, O2, XO2.
      rewrite flush_anc_nf in S2, O2. cbn [fst snd] in S2, O2.
      assert (S2' : stack s2 = nf sh (negb (is_nil Rk)) a t0 (ridx s) d ::
                               (if is_nil Rk then stack s else fst (flush_anc (stack s)))).
      { rewrite S2. destruct (is_nil Rk); reflexivity. }
      assert (LI := leave_in thr gd ms sh s2 (negb (is_nil Rk)) a t0 (ridx s) d t1 _ (d + 1) S2' F2 En2).
      fold c in LI. change (xb C) with c. rewrite LI by (try assumption; lia).
      rewrite (x_leave_in s2 X2 (negb (is_nil Rk)) a t0 o0 (ridx s) d t1 o1 _ (xs X) (d + 1) S2' XS2 XP2 F2 En2)
        by (try assumption; lia).
      cbn [strip recs xrecs]. assert (EL : (gd <=? d) = false) by (apply N.leb_gt; exact Hin). rewrite EL.
      fold Rk. fold XRk. rewrite NN.
      (* the flush of the new frame's ancestors, as seen from the kids *)
      assert (XF : fst (xflush_anc (nf sh false a t0 (ridx s) d :: stack s) (fxnew a t0 o0 :: xs X) []) =
                   fst (xflush_anc (stack s) (xs X) []) ++
                   [IR {| r_time := t0; r_type := ENTRY; r_depth := ridx s; r_addr := a |}] ++ map IE (reads C a t0 o0)).
      { cbn [xflush_anc nf hd tl].
        assert (Hwr : written (f_flags (newframe sh a t0 (ridx s) d)) = false) by reflexivity. rewrite Hwr.
        assert (Hsk : skip (newframe sh a t0 (ridx s) d) = false) by reflexivity. rewrite Hsk.
        pose proof (xflush_anc_nopend (stack s) (xs X)) as Hnp.
        destruct (xflush_anc (stack s) (xs X) []) as [its p1]. cbn [snd] in Hnp. subst p1.
        unfold x_entry. rewrite pop_lt_nil. cbn [fst fxnew x_evs x_nent map app]. rewrite firstn_all.
        change (f_start (newframe sh a t0 (ridx s) d)) with t0.
        assert (TK : take_eq t0 (reads C a t0 o0) = reads C a t0 o0) by (rewrite reads_eq; apply take_eq_all).
        rewrite TK. reflexivity. }
      destruct ((thr <=? t1 - t0) || negb (is_nil Rk)) eqn:Dec.
      + eexists. eexists. split; [reflexivity|]. split.
        * unfold after. cbn [fc enabled cached ridx stack out is_nil].
          repeat split; try assumption; try congruence.
          -- destruct (is_nil Rk); reflexivity.
          -- rewrite O2. unfold entry_rec. cbn [newframe f_start f_depth f_addr]. rewrite Hr.
             destruct (is_nil Rk) eqn:EN; cbn [negb].
             ++ destruct Rk; [|discriminate]. cbn [app]. rewrite <- !app_assoc. cbn [app]. reflexivity.
             ++ cbn [app]. rewrite <- !app_assoc. cbn [app]. reflexivity.
        * unfold xafter. cbn [emit set_xs xs pend xout is_nil]. split; [reflexivity|]. split; [reflexivity|].
          rewrite XO2. destruct (is_nil Rk) eqn:EN; cbn [negb].
          -- rewrite NN in *. destruct XRk; [|discriminate]. cbn [app is_nil]. rewrite !app_nil_r, Hr.
             cbn [app]. rewrite <- !app_assoc. reflexivity.
          -- rewrite NN. rewrite XF, Hr. cbn [app]. rewrite <- !app_assoc. cbn [app]. reflexivity.
      + eexists. eexists. split; [reflexivity|].
        apply orb_false_iff in Dec. destruct Dec as [_ Dn]. apply negb_false_iff in Dn.
        split.
        * unfold after. cbn [fc enabled cached ridx stack out is_nil].
          rewrite Dn in *. destruct Rk; [|discriminate]. cbn [app] in O2. rewrite app_nil_r in *.
          repeat split; try assumption; congruence.
        * unfold xafter. cbn [set_xs xs pend xout is_nil app]. rewrite Dn in NN.
          rewrite XO2, NN. destruct XRk; [|discriminate]. cbn [app]. rewrite !app_nil_r. auto.
  Qed.
End xplain_run.

(* ---------------------------------------------------------------- whole runs *)
Theorem xrun_forest thr gd ms sh rd pm : forall f, all_xtimed f -> heights (map strip f) <= ms ->
  xout (snd (xexec (xplain thr gd ms sh rd pm) (flat_map xflat f) xstart)) =
  flat_map (xrecs (xplain thr gd ms sh rd pm) thr gd 0) f.
Proof.
  intros f HT Hh.
  destruct (xrun_kids thr gd ms sh rd pm f) with (s := init) (hk := @nil bool) (X := xinit) (d := 0)
    as (s' & X' & E & A & XA); try reflexivity.
  - clear. induction f as [|k r IH]; constructor; [|exact IH]. apply xrun_call.
  - exact HT.
  - cbn. lia.
  - change xstart with (((init, @nil bool) : dstate), xinit). rewrite E. cbn [snd].
    destruct XA as (_ & _ & O). rewrite O. cbn [xinit xout init stack xflush_anc fst app].
    destruct (is_nil _); reflexivity.
Qed.
