(* C17: the decisions of save_watchpoint - an event exactly when the observed value differs from the
   thread's previous observation (cpu: proved; var: proved under the exact guard, refuted without),
   the MAX_EVENT limit, the +-1 ns time-stamp rule. *)
From Coq Require Import NArith ZArith List Bool Lia.
Import ListNotations.
Require Import UV.Gen.Consts UV.Gen.C17Consts UV.Mcount.Model UV.Mcount.Forest UV.C17.Model.
Local Open Scope N_scope.

Lemma cpu_values_app l1 l2 : cpu_values (l1 ++ l2) = cpu_values l1 ++ cpu_values l2.
Proof. unfold cpu_values. apply flat_map_app. Qed.
Lemma var_values_app l1 l2 : var_values (l1 ++ l2) = var_values l1 ++ var_values l2.
Proof. unfold var_values. apply flat_map_app. Qed.

Definition prev_cpu (X : xpart) : option Z := if w_inited X then Some (w_cpu X) else None.

(* one call of save_watchpoint with an empty queue: what is generated, and the new watch state *)
Lemma x_watch_empty C f pos o X : pend X = [] -> (wp_cpu C || wp_var C) = true ->
  let X' := x_watch C f pos o X in
  let copy := match v_copy X with Some y => y | None => o_var o end in
  let differs := wp_var C && negb (o_var o =? copy) in
  let hit := differs && negb (g_init X && (o_var o =? g_val X)) in
  w_inited X' = true /\ v_copy X' = (if differs then Some (o_var o) else v_copy X) /\
  (wp_cpu C = true -> w_cpu X' = o_cpu o) /\
  cpu_values (map a_ev (pend X')) =
    (if wp_cpu C && (negb (w_cpu X =? o_cpu o)%Z || negb (w_inited X)) then [cpu_word (o_cpu o)] else []) /\
  var_values (map a_ev (pend X')) = (if hit then [o_var o] else []) /\
  g_init X' = (if hit then true else g_init X) /\ g_val X' = (if hit then o_var o else g_val X).
Proof.
  intros Hp Hw. unfold x_watch. rewrite Hw, Hp. cbn [negb].
  unfold full, cpu_values, var_values.
  destruct (wp_cpu C) eqn:Ec; destruct (wp_var C) eqn:Ev; try discriminate;
    destruct (w_inited X); destruct (w_cpu X =? o_cpu o)%Z eqn:EZ;
    destruct (v_copy X) as [y|]; rewrite ?N.eqb_refl;
    try destruct (o_var o =? y); destruct (g_init X); destruct (o_var o =? g_val X);
    cbn -[N.modulo W64 N.add N.sub]; repeat split; intros; try reflexivity; try discriminate;
    try (apply Z.eqb_eq in EZ; exact EZ).
Qed.

(* ---------------------------------------------------------------- cpu: event iff changed *)
Theorem cpu_run C : wp_cpu C = true -> forall l X, pend X = [] ->
  cpu_values (wrun C l X) = map cpu_word (changes_from (prev_cpu X) (map (fun p => o_cpu (snd p)) l)).
Proof.
  intros Hc. induction l as [|[t o] r IH]; intros X Hp; [reflexivity|].
  cbn [wrun map snd changes_from].
  assert (Hw : (wp_cpu C || wp_var C) = true) by (rewrite Hc; reflexivity).
  destruct (x_watch_empty C (dummy_frame t) 0 o X Hp Hw) as (Hi & _ & Hcpu & Hv & _).
  rewrite cpu_values_app, Hv, map_app. f_equal.
  - rewrite Hc. cbn [andb]. unfold prev_cpu. destruct (w_inited X); cbn [negb].
    + rewrite orb_false_r. destruct (w_cpu X =? o_cpu o)%Z; reflexivity.
    + rewrite orb_true_r. reflexivity.
  - rewrite IH by reflexivity. unfold prev_cpu. cbn [set_pend w_inited w_cpu]. rewrite Hi, (Hcpu Hc). reflexivity.
Qed.

(* ---------------------------------------------------------------- var *)
(* -W var, one thread: for EVERY sequence of values an event exactly when the value differs from the
   thread's previous observation (v0: the copy made at the thread's first hook) *)
Theorem var_run C : wp_var C = true -> forall l X v0, pend X = [] -> v_copy X = Some v0 ->
  (g_init X = true -> g_val X = v0) ->
  var_values (wrun C l X) = nchanges_from v0 (map (fun p => o_var (snd p)) l).
Proof.
  intros Hv. induction l as [|[t o] r IH]; intros X v0 Hp Hc Hg; [reflexivity|].
  cbn [wrun map snd nchanges_from].
  assert (Hw : (wp_cpu C || wp_var C) = true) by (rewrite Hv; apply orb_true_r).
  destruct (x_watch_empty C (dummy_frame t) 0 o X Hp Hw) as (_ & Hcp & _ & _ & Hvv & Hgi & Hgv).
  rewrite Hc, Hv in Hcp. rewrite Hc, Hv in Hvv, Hgi, Hgv. cbn [andb] in Hcp, Hvv, Hgi, Hgv.
  rewrite var_values_app, Hvv.
  destruct (o_var o =? v0) eqn:E.
  - apply N.eqb_eq in E. rewrite E in *. rewrite N.eqb_refl. cbn [negb andb app] in *.
    apply IH; cbn [set_pend pend v_copy g_init g_val]; try reflexivity.
    + exact Hcp.
    + rewrite Hgi, Hgv. exact Hg.
  - rewrite (N.eqb_sym v0 (o_var o)), E. cbn [negb andb] in *.
    assert (G : (g_init X && (o_var o =? g_val X)) = false).
    { destruct (g_init X) eqn:GI; [|reflexivity]. cbn [andb]. rewrite (Hg eq_refl). exact E. }
    rewrite G in *. cbn [negb] in *. f_equal.
    apply IH; cbn [set_pend pend v_copy g_init g_val]; try reflexivity.
    + exact Hcp.
    + intros _. exact Hgv.
Qed.

Definition var_cfg : xcfg :=
  {| xb := plain 0 1024 1024 PG; read_of := fun _ => 0; wp_cpu := false; wp_var := true; pmu_ok := false |}.
Definition ov (v : N) : oval :=
  {| o_statm := []; o_pf := []; o_cycle := []; o_cache := []; o_branch := []; o_cpu := 0%Z; o_var := v; o_asz := None |}.
Definition var_x0 : xpart :=
  {| xs := []; pend := []; w_inited := false; w_cpu := (-1)%Z; v_copy := Some 3; g_init := false; g_val := 0;
     xout := [] |}.
Example var_watch_example :
  var_values (wrun var_cfg [(100, ov 3); (110, ov 4); (120, ov 3)] var_x0) = [4; 3].
Proof. reflexivity. Qed.

(* the global item's "inited" flag matters: before anything was reported its data is the zero fill, which is not
   a reported value - a first change TO zero (3 -> 0) is reported (first line); a machine that took the zero fill
   for "0 was reported already" (g_init forced to true) would swallow it (second line) *)
Definition var_x0_zero_reported : xpart :=
  {| xs := []; pend := []; w_inited := false; w_cpu := (-1)%Z; v_copy := Some 3; g_init := true; g_val := 0;
     xout := [] |}.
Lemma var_first_change_to_zero :
  var_values (wrun var_cfg [(100, ov 3); (110, ov 0)] var_x0) = [0] /\
  var_values (wrun var_cfg [(100, ov 3); (110, ov 0)] var_x0_zero_reported) = [].
Proof. split; reflexivity. Qed.

(* LEGACY (before aa8baff): the thread's copy was never updated, so a change back to the value the
   variable had at the thread's first hook was not reported (3 -> 4 -> 3: one event) *)
Lemma var_watch_legacy_refuted :
  var_values (wrun_legacy var_cfg [(100, ov 3); (110, ov 4); (120, ov 3)] var_x0) = [4] /\
  nchanges_from 3 [3; 4; 3] = [4; 3].
Proof. split; reflexivity. Qed.

(* ---------------------------------------------------------------- the MAX_EVENT limit *)
(* with MAX_EVENT events pending the hook observes nothing: nothing is queued and the watch state keeps the
   old observations (cpu number, copy of the variable, global item), so the next hook that finds a free
   slot reports the change *)
Lemma watch_limit C f pos o X : full (pend X) = true -> w_inited X = true ->
  pend (x_watch C f pos o X) = pend X /\ w_cpu (x_watch C f pos o X) = w_cpu X /\
  v_copy (x_watch C f pos o X) = v_copy X /\ g_init (x_watch C f pos o X) = g_init X /\
  g_val (x_watch C f pos o X) = g_val X.
Proof.
  intros Hf Hi. unfold x_watch. destruct (negb (wp_cpu C || wp_var C)); [auto|].
  rewrite Hf. cbn [negb andb]. rewrite !andb_false_r. cbn [andb pend w_cpu v_copy g_init g_val].
  rewrite Hf. cbn [negb]. rewrite !andb_false_r. cbn [andb]. auto.
Qed.

(* LEGACY: the cpu number was remembered although no event could be stored: the change was lost *)
Definition full_x (c : Z) : xpart :=
  let e := {| a_ev := {| e_time := 0; e_id := 0; e_data := [] |}; a_idx := 0 |} in
  {| xs := []; pend := [e; e; e; e]; w_inited := true; w_cpu := c; v_copy := None; g_init := false; g_val := 0;
     xout := [] |}.
Definition cpu_cfg : xcfg :=
  {| xb := plain 0 1024 1024 PG; read_of := fun _ => 0; wp_cpu := true; wp_var := false; pmu_ok := false |}.
Definition ocpu' (c : Z) : oval :=
  {| o_statm := []; o_pf := []; o_cycle := []; o_cache := []; o_branch := []; o_cpu := c; o_var := 0; o_asz := None |}.
Lemma watch_limit_legacy_refuted :
  (* the queue is full, the cpu changes 1 -> 2; then the queue is drained and the next hook still sees 2 *)
  let X1 := x_watch cpu_cfg (dummy_frame 100) 0 (ocpu' 2) (full_x 1) in
  let L1 := x_watch_cpu_legacy cpu_cfg (dummy_frame 100) 0 (ocpu' 2) (full_x 1) in
  cpu_values (map a_ev (pend (x_watch cpu_cfg (dummy_frame 110) 0 (ocpu' 2) (set_pend X1 [])))) = [2] /\
  cpu_values (map a_ev (pend (x_watch cpu_cfg (dummy_frame 110) 0 (ocpu' 2) (set_pend L1 [])))) = [].
Proof. split; reflexivity. Qed.

(* with room, a cpu event is queued exactly when the value differs from the previous observation
   (or this is the first observation) *)
Lemma watch_room_cpu C f pos o X : full (pend X) = false -> wp_cpu C = true -> wp_var C = false ->
  pend (x_watch C f pos o X) =
    pend X ++ (if negb (w_cpu X =? o_cpu o)%Z || negb (w_inited X)
               then [{| a_ev := {| e_time := ((if negb (w_inited X) then (ts_of f + 2) mod W64 else ts_of f) + (W64 - 1)) mod W64;
                                   e_id := C17_EVENT_ID_WATCH_CPU; e_data := [cpu_word (o_cpu o)] |}; a_idx := pos |}]
               else []).
Proof.
  intros Hf Hc Hv. unfold x_watch. rewrite Hc, Hv. cbn [orb negb andb]. rewrite Hf. cbn [negb andb].
  rewrite andb_true_r. destruct (negb (w_cpu X =? o_cpu o)%Z || negb (w_inited X)); cbn [pend];
    [reflexivity|rewrite app_nil_r; reflexivity].
Qed.

(* the +-1 ns rule: a watch event is stamped 1 ns before the hook's record, the thread's first one 1 ns after *)
Lemma watch_stamp ts : 1 <= ts -> ts + 2 < W64 ->
  (ts + (W64 - 1)) mod W64 = ts - 1 /\ ((ts + 2) mod W64 + (W64 - 1)) mod W64 = ts + 1.
Proof.
  unfold W64. intros H1 H2. split.
  - replace (ts + (18446744073709551616 - 1)) with ((ts - 1) + 1 * 18446744073709551616) by lia.
    rewrite N.mod_add by lia. apply N.mod_small. lia.
  - rewrite (N.mod_small (ts + 2)) by lia.
    replace (ts + 2 + (18446744073709551616 - 1)) with ((ts + 1) + 1 * 18446744073709551616) by lia.
    rewrite N.mod_add by lia. apply N.mod_small. lia.
Qed.
