(* C17: events and captured arguments share the per-frame buffer.
   For EVERY configuration, history and observation sequence (argument data of any size save_argument can
   store), in every reachable state, for every open frame: the bytes of the argument data (size word
   included) and the bytes of the stored events do not overlap - the guard of save_trigger_read at the
   level of the whole machine.  Plus: what the guard costs when the arguments fill the buffer (refuted
   forms), and the return value written at the exit stays below the event area. *)
From Coq Require Import NArith ZArith List Bool Lia.
Import ListNotations.
Require Import UV.Gen.Consts UV.Gen.C17Consts UV.Mcount.Model UV.Mcount.Forest UV.Mcount.PlainStep
  UV.C17.Model UV.C17.Erase UV.C17.Read UV.C17.Drop UV.C17.Watch.
Local Open Scope N_scope.

(* argument bytes [0, abytes) and event bytes [ARGBUF_SIZE - used, ARGBUF_SIZE) of one frame are disjoint *)
Definition fok (x : fx) : Prop := abytes (x_asz x) + used (x_evs x) <= C17_ARGBUF_SIZE.
Definition xok (X : xpart) : Prop := Forall fok (xs X).
(* save_argument stores at most ARGBUF_SIZE - 4 bytes (save_to_argbuf: max_size) *)
Definition aok (e : xev) : Prop :=
  match e with
  | XEnter _ _ o => match o_asz o with Some n => n <= C17_ARGBUF_SIZE - 4 | None => True end
  | XLeave _ _ => True
  end.

Lemma str_go_g_ok C a o ts diff : forall ks evs, abytes a + used evs <= C17_ARGBUF_SIZE ->
  abytes a + used (str_go_g C a ks o ts diff evs) <= C17_ARGBUF_SIZE.
Proof.
  induction ks as [|k r IH]; intros evs H; [exact H|]. cbn [str_go_g].
  destruct (fits a evs k) eqn:F; [|apply IH; exact H].
  destruct (new_event C o ts diff evs k) as [e|] eqn:E; [|apply IH; exact H].
  apply IH. rewrite used_app, (esize_new _ _ _ _ _ _ _ E).
  unfold fits in F. fold (abytes a) in F. apply andb_true_iff in F. destruct F as [F1 F2].
  apply N.leb_le in F1. apply N.leb_le in F2. lia.
Qed.

Lemma save_trigger_read_ok C f o diff x : fok x -> fok (save_trigger_read C f o diff x).
Proof. unfold fok, save_trigger_read. cbn [x_asz x_evs]. apply str_go_g_ok. Qed.

Lemma fok_fxa a : abytes a <= C17_ARGBUF_SIZE -> fok (fxa a).
Proof. unfold fok, fxa. cbn [x_asz x_evs used fold_right]. lia. Qed.

Lemma fok_fx0 : fok fx0.
Proof. apply fok_fxa. cbn. unfold C17_ARGBUF_SIZE. lia. Qed.

Lemma xs_emit X its p : xs (emit X its p) = xs X.
Proof. reflexivity. Qed.
Lemma xs_first C X o : xs (x_first C X o) = xs X.
Proof. unfold x_first. destruct (v_copy X); [reflexivity|]. destruct (wp_var C); reflexivity. Qed.
Lemma xs_check_rstack c s X : xs (x_check_rstack c s X) = xs X.
Proof.
  unfold x_check_rstack. destruct ((max_stack c <=? idx s) && negb (warned s)); [|reflexivity].
  destruct (skipn _ (stack s)) as [|top anc]; [reflexivity|].
  destruct (x_rtd top _ anc _ (pend X)) as [its p']. reflexivity.
Qed.
Lemma xs_watch C f pos o X : xs (x_watch C f pos o X) = xs X.
Proof. destruct (x_watch_appends C f pos o X) as (app & _ & _ & H & _). exact H. Qed.

Lemma xok_push X x : xok X -> fok x -> xok (push X x).
Proof. intros H F. unfold xok, push. cbn [set_xs xs]. constructor; assumption. Qed.

Lemma x_enter_ok C s X a t o : aok (XEnter a t o) -> xok X -> xok (x_enter C s X a t o).
Proof.
  intros Ha H. unfold x_enter.
  assert (H1 : xok (x_check_rstack (xb C) s (x_first C X o))).
  { unfold xok. rewrite xs_check_rstack, xs_first. exact H. }
  set (X1 := x_check_rstack (xb C) s (x_first C X o)) in *.
  destruct (entry_check (xb C) s a) as [[[s1 v] tr] sv].
  assert (Body : xok (match stack (do_enter (xb C) s a t) with
                      | [] => X1
                      | top :: _ =>
                          if norecord (f_flags top) then push X1 fx0
                          else if disabled (f_flags top) then
                            if cached s1 then
                              let '(its, p') := x_rtd top fx0 (stack s1) (xs X1) (pend X1) in push (emit X1 its p') fx0
                            else push X1 fx0
                          else
                            let x0 := fxa (match shp (xb C) with PG => o_asz o | CYG => None end) in
                            let x := if read_of C a =? 0 then x0 else save_trigger_read C top o false x0 in
                            push (x_watch C top (idx s1) o X1) x
                      end)).
  { destruct (stack (do_enter (xb C) s a t)) as [|top rest]; [exact H1|].
    destruct (norecord (f_flags top)); [apply xok_push; [exact H1|exact fok_fx0]|].
    destruct (disabled (f_flags top)).
    - destruct (cached s1); [|apply xok_push; [exact H1|exact fok_fx0]].
      destruct (x_rtd top fx0 (stack s1) (xs X1) (pend X1)) as [its p'].
      apply xok_push; [exact H1|exact fok_fx0].
    - cbn zeta.
      assert (F0 : fok (fxa (match shp (xb C) with PG => o_asz o | CYG => None end))).
      { apply fok_fxa. cbn [aok] in Ha. destruct (shp (xb C)); [|cbn; unfold C17_ARGBUF_SIZE; lia].
        destruct (o_asz o) as [n|]; cbn [abytes]; [|unfold C17_ARGBUF_SIZE; lia].
        unfold C17_ARGBUF_SIZE in *. lia. }
      apply xok_push.
      + unfold xok. rewrite xs_watch. exact H1.
      + destruct (read_of C a =? 0); [exact F0|]. apply save_trigger_read_ok. exact F0. }
  destruct (shp (xb C)); destruct v; try exact Body; try exact H1.
  - destruct (state_trig tr); [apply xok_push; [exact H1|exact fok_fx0]|exact H1].
  - apply xok_push; [exact H1|exact fok_fx0].
Qed.

Lemma xok_tl X : xok X -> xok (set_xs X (tl (xs X))).
Proof. unfold xok. cbn [set_xs xs]. intro H. destruct (xs X); [constructor|inversion H; assumption]. Qed.

Lemma fok_hd X : xok X -> fok (hd fx0 (xs X)).
Proof. unfold xok. intro H. destruct (xs X); [exact fok_fx0|inversion H; assumption]. Qed.

Lemma x_leave_ok C s X t o : xok X -> xok (x_leave C s X t o).
Proof.
  intro H. unfold x_leave. destruct (stack s) as [|top anc]; [exact H|].
  pose proof (xok_tl X H) as HT.
  destruct (f_ghost top); [exact HT|].
  match goal with |- context [norecord (f_flags ?t1)] => destruct (norecord (f_flags t1)); [exact HT|] end.
  destruct (negb (enabled s)); [exact HT|].
  match goal with |- context [exit_cond ?c ?s0 ?t1] => destruct (exit_cond c s0 t1) end.
  - match goal with |- context [x_rtd ?a ?b ?c0 ?d ?e] => destruct (x_rtd a b c0 d e) as [its p'] end.
    unfold xok. rewrite xs_emit, xs_watch. exact HT.
  - unfold xok. cbn [set_pend xs]. rewrite xs_watch. exact HT.
Qed.

Lemma xdstep_ok C D e : aok e -> xok (snd D) -> xok (snd (xdstep C D e)).
Proof.
  destruct D as [[s hk] X]. cbn [snd]. intros Ha H. destruct e as [a t o|t o]; cbn [xdstep snd].
  - apply x_enter_ok; assumption.
  - destruct hk as [|h r]; [exact H|]. destruct h; [apply x_leave_ok; exact H|exact H].
Qed.

Theorem frames_disjoint C : forall es D, Forall aok es -> xok (snd D) -> xok (snd (xexec C es D)).
Proof.
  induction es as [|e r IH]; intros D Ha H; [exact H|].
  inversion Ha; subst. cbn [xexec fold_left]. fold (xexec C r (xdstep C D e)).
  apply IH; [assumption|]. apply xdstep_ok; assumption.
Qed.

Theorem frames_disjoint_run C es : Forall aok es -> xok (snd (xexec C es xstart)).
Proof. intro H. apply frames_disjoint; [exact H|]. constructor. Qed.

(* ---------------------------------------------------------------- what the guard costs (refuted forms) *)
Definition o_pfa (mn : N) (a : option N) : oval :=
  {| o_statm := [1; 2; 3]; o_pf := [0; mn]; o_cycle := [5; 6]; o_cache := [7; 8]; o_branch := [9; 10];
     o_cpu := 0%Z; o_var := 0; o_asz := a |}.
Definition all5 : N := 31.
Definition big_cfg : xcfg := xplain 0 1024 1024 PG (fun a => if a =? 0 then all5 else 0) true.
Definition ids (l : list item) : list (N * N) :=
  map (fun i => match i with IR r => (0, r_time r) | IE e => (e_id e, e_time e) end) l.

(* 1000 bytes of captured arguments: the function with read= gets no event at all *)
Lemma read_diff_no_room_refuted :
  ids (xout (snd (xexec big_cfg [XEnter 0 100 (o_pfa 9 (Some 1000)); XLeave 200 (o_pfa 12 None)] xstart))) =
  [(0, 100); (0, 200)].
Proof. vm_compute. reflexivity. Qed.

(* 920 bytes: the first two read events fit, the other three and every diff event are refused:
   read events without their diff events *)
Lemma read_without_diff_refuted :
  ids (xout (snd (xexec big_cfg [XEnter 0 100 (o_pfa 9 (Some 920)); XLeave 200 (o_pfa 12 None)] xstart))) =
  [(0, 100); (EVENT_ID_READ_PROC_STATM, 100); (EVENT_ID_READ_PAGE_FAULT, 100); (0, 200)].
Proof. vm_compute. reflexivity. Qed.

(* the guard [asz_ok] of the read/diff theorem is exact: 684 bytes leave room for all ten events, 688 do not *)
Lemma asz_bound_exact :
  length (xout (snd (xexec big_cfg [XEnter 0 100 (o_pfa 9 (Some 684)); XLeave 200 (o_pfa 12 None)] xstart))) = 12%nat /\
  length (xout (snd (xexec big_cfg [XEnter 0 100 (o_pfa 9 (Some 688)); XLeave 200 (o_pfa 12 None)] xstart))) = 11%nat.
Proof. vm_compute. split; reflexivity. Qed.

(* ---------------------------------------------------------------- the return value written at the exit
   save_retval runs after the diff events are stored; it writes the size word, and for a string the 2-byte
   length and at most ARG_STR_MAX + 1 bytes (scalars: at most 16 bytes; a struct return value is not copied
   at all).  Even with all ten events in the frame this stays below the event area. *)
Lemma retval_below_events : 4 + 2 + ARG_STR_MAX + 1 <= C17_ARGBUF_SIZE - 2 * ksize table.
Proof. vm_compute. discriminate. Qed.

(* ---------------------------------------------------------------- whatever is stored is a true difference
   Also when the arguments leave room for only some of the events: every event the exit pass stores for a
   kind k is DIFF_k carrying (exit reading - entry reading) - it never happens that the exit pass finds no
   read event of k and stores the absolute reading (space only shrinks between the two passes). *)
Lemma fits_mono a e1 e2 k : used e1 <= used e2 -> fits a e2 k = true -> fits a e1 k = true.
Proof.
  unfold fits. intros H F. apply andb_true_iff in F. destruct F as [F1 F2].
  apply N.leb_le in F1. apply N.leb_le in F2. apply andb_true_iff. split; apply N.leb_le; lia.
Qed.

Lemma used_app_list l1 l2 : used (l1 ++ l2) = used l1 + used l2.
Proof. unfold used. induction l1 as [|x r IH]; cbn [app fold_right]; [lia|]. rewrite IH. lia. Qed.

Lemma str_go_g_extends C a o ts diff : forall ks evs, exists l, str_go_g C a ks o ts diff evs = evs ++ l.
Proof.
  induction ks as [|k r IH]; intro evs; [exists []; rewrite app_nil_r; reflexivity|]. cbn [str_go_g].
  destruct (fits a evs k); [|apply IH].
  destruct (new_event C o ts diff evs k) as [e|]; [|apply IH].
  destruct (IH (evs ++ [e])) as [l E]. exists (e :: l). rewrite E, <- app_assoc. reflexivity.
Qed.

Lemma reading_values C o k d : reading C o k = Some d -> d = values o k.
Proof. destruct k; cbn [reading values]; try destruct (pmu_ok C); intro H; inversion H; reflexivity. Qed.

(* read pass: a kind that still fits at the end and can be read has its read event stored *)
Lemma read_pass_has C a o t : forall ks evs k, In k ks ->
  fits a (str_go_g C a ks o t false evs) k = true -> reading C o k <> None ->
  In (mkread t o k) (str_go_g C a ks o t false evs).
Proof.
  induction ks as [|k0 r IH]; intros evs k Hin Hf Hr; [destruct Hin|]. cbn [str_go_g] in *.
  destruct Hin as [->|Hin].
  - assert (F : fits a evs k = true).
    { eapply fits_mono; [|exact Hf].
      destruct (fits a evs k); [|destruct (str_go_g_extends C a o t false r evs) as [l ->]; rewrite used_app_list; lia].
      destruct (new_event C o t false evs k) as [e|].
      - destruct (str_go_g_extends C a o t false r (evs ++ [e])) as [l ->]. rewrite !used_app_list. lia.
      - destruct (str_go_g_extends C a o t false r evs) as [l ->]. rewrite used_app_list. lia. }
    rewrite F in *. unfold new_event in *. destruct (reading C o k) as [d|] eqn:Rd; [|congruence].
    rewrite (reading_values _ _ _ _ Rd).
    destruct (str_go_g_extends C a o t false r (evs ++ [{| e_time := t; e_id := id_read k; e_data := values o k |}])) as [l E].
    rewrite E. apply in_or_app. left. apply in_or_app. right. left. reflexivity.
  - destruct (fits a evs k0); [|apply IH; assumption].
    destruct (new_event C o t false evs k0); apply IH; assumption.
Qed.

(* read pass from an empty area: only read events *)
Lemma read_pass_only C a o t : forall ks evs, Forall (fun e => exists k, e = mkread t o k) evs ->
  Forall (fun e => exists k, e = mkread t o k) (str_go_g C a ks o t false evs).
Proof.
  induction ks as [|k0 r IH]; intros evs H; [exact H|]. cbn [str_go_g].
  destruct (fits a evs k0); [|apply IH; exact H].
  unfold new_event. destruct (reading C o k0) as [d|] eqn:Rd; [|apply IH; exact H].
  apply IH. apply Forall_app. split; [exact H|]. constructor; [|constructor].
  exists k0. rewrite (reading_values _ _ _ _ Rd). reflexivity.
Qed.

Definition is_diff_of (t : N) (o0 o1 : oval) (e : fev) : Prop := exists k, e = mkdiff t o0 o1 k.

Lemma id_read_inj k k' : id_read k = id_read k' -> k = k'.
Proof. destruct k, k'; cbn; intro H; try reflexivity; discriminate. Qed.
Lemma id_read_diff k k' : id_diff k <> id_read k'.
Proof. destruct k, k'; cbn; discriminate. Qed.

(* looking for the read event of k in (read events ++ diff events) finds mkread k if it is there *)
Lemma find_old_read t0 t1 o0 o1 R acc k :
  Forall (fun e => exists k', e = mkread t0 o0 k') R -> Forall (is_diff_of t1 o0 o1) acc ->
  In (mkread t0 o0 k) R -> find_old (R ++ acc) (id_read k) = Some (mkread t0 o0 k).
Proof.
  intros HR HA Hin. unfold find_old.
  destruct (find (fun e => e_id e =? id_read k) (rev (R ++ acc))) as [e|] eqn:F.
  - apply find_some in F. destruct F as [Fin Fid]. apply N.eqb_eq in Fid.
    apply in_rev in Fin. apply in_app_or in Fin. destruct Fin as [Fin|Fin].
    + rewrite Forall_forall in HR. destruct (HR e Fin) as [k' ->]. cbn [mkread e_id] in Fid.
      apply id_read_inj in Fid. subst. reflexivity.
    + rewrite Forall_forall in HA. destruct (HA e Fin) as [k' ->]. cbn [mkdiff e_id] in Fid.
      exfalso. exact (id_read_diff _ _ Fid).
  - exfalso. assert (Q := find_none _ _ F (mkread t0 o0 k)). cbn [mkread e_id] in Q. rewrite N.eqb_refl in Q.
    assert (Hin' : In (mkread t0 o0 k) (rev (R ++ acc))) by (apply -> in_rev; apply in_or_app; left; exact Hin).
    specialize (Q Hin'). discriminate.
Qed.

Lemma diff_pass_true C a t0 t1 o0 o1 R : Forall (fun e => exists k', e = mkread t0 o0 k') R ->
  forall ks acc,
  (forall k, In k ks -> fits a R k = true -> reading C o0 k <> None -> In (mkread t0 o0 k) R) ->
  (forall k, reading C o1 k <> None -> reading C o0 k <> None) ->
  Forall (is_diff_of t1 o0 o1) acc ->
  exists acc', str_go_g C a ks o1 t1 true (R ++ acc) = R ++ acc' /\ Forall (is_diff_of t1 o0 o1) acc'.
Proof.
  intros HR. induction ks as [|k r IH]; intros acc Hhas Hav HA; [exists acc; split; [reflexivity|exact HA]|].
  cbn [str_go_g].
  assert (Hhas' : forall k0, In k0 r -> fits a R k0 = true -> reading C o0 k0 <> None -> In (mkread t0 o0 k0) R)
    by (intros k0 Hi; apply Hhas; right; exact Hi).
  destruct (fits a (R ++ acc) k) eqn:F; [|apply IH; assumption].
  unfold new_event. destruct (reading C o1 k) as [d|] eqn:Rd; [|apply IH; assumption].
  assert (FR : fits a R k = true) by (eapply fits_mono; [|exact F]; rewrite used_app_list; lia).
  assert (Hin : In (mkread t0 o0 k) R).
  { apply Hhas; [left; reflexivity|exact FR|]. apply Hav. congruence. }
  rewrite (find_old_read t0 t1 o0 o1 R acc k HR HA Hin). cbn [mkread e_data].
  rewrite (reading_values _ _ _ _ Rd). rewrite <- app_assoc.
  apply IH; try assumption. apply Forall_app. split; [exact HA|]. constructor; [|constructor].
  exists k. reflexivity.
Qed.

(* both passes of one call, any argument size, any kinds *)
Theorem stored_diffs_are_differences C a ks t0 t1 o0 o1 :
  exists D, str_go_g C a ks o1 t1 true (str_go_g C a ks o0 t0 false []) = str_go_g C a ks o0 t0 false [] ++ D /\
            Forall (is_diff_of t1 o0 o1) D /\
            Forall (fun e => exists k, e = mkread t0 o0 k) (str_go_g C a ks o0 t0 false []).
Proof.
  set (R := str_go_g C a ks o0 t0 false []).
  assert (HR : Forall (fun e => exists k, e = mkread t0 o0 k) R) by (apply read_pass_only; constructor).
  destruct (diff_pass_true C a t0 t1 o0 o1 R HR ks []) as (D & E & HD).
  - intros k Hin Hf Hr. apply read_pass_has; assumption.
  - intros k. destruct k; cbn [reading]; try destruct (pmu_ok C); congruence.
  - constructor.
  - rewrite app_nil_r in E. exists D. auto.
Qed.

(* ---------------------------------------------------------------- -W var and several threads
   "that thread's previous observation" does not hold across threads: the global watch item makes a value
   reported once per process.  Threads 0 and 1 both observe 3 at their entry hooks and 4 at their exit hooks:
   thread 0 reports the change, thread 1 - whose own previous observation was 3 - stays silent. *)
Definition mt_run : list (nat * xev) :=
  [(0%nat, XEnter 0 100 (ov 3)); (1%nat, XEnter 0 105 (ov 3));
   (0%nat, XLeave 200 (ov 4)); (1%nat, XLeave 205 (ov 4))].
Lemma watch_var_threads_refuted :
  map (fun D => ids (xout (snd D))) (fst (xexec_mt var_cfg mt_run [] false 0)) =
  [[(0, 100); (C17_EVENT_ID_WATCH_VAR, 199); (0, 200)]; [(0, 105); (0, 205)]].
Proof. vm_compute. reflexivity. Qed.
