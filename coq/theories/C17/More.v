(* C17: corollaries (nesting kept, events of unrecorded calls vanish, time stamps of read/diff events),
   the refutations of the statements that are false of the faithful model, the overlap guard. *)
From Coq Require Import NArith ZArith List Bool Lia.
Import ListNotations.
Require Import UV.Gen.Consts UV.Gen.C17Consts UV.Mcount.Model UV.Mcount.Forest UV.Mcount.PlainStep
  UV.Mcount.PlainProofs UV.C17.Model UV.C17.Erase UV.C17.Read UV.C17.Watch.
Local Open Scope N_scope.

(* ---------------------------------------------------------------- nesting kept, any watch configuration *)
Lemma bev_xflat : forall k, map bev (xflat k) = flat (strip k).
Proof.
  induction k as [a t0 o0 t1 o1 kids IH] using xcall_ind'. cbn [xflat strip flat map bev].
  f_equal. rewrite map_app. cbn [map bev]. f_equal.
  induction IH as [|k r Hk _ IHr]; [reflexivity|]. cbn [flat_map map]. rewrite map_app, Hk, IHr. reflexivity.
Qed.

Lemma bev_forest f : map bev (flat_map xflat f) = flat_forest (map strip f).
Proof.
  unfold flat_forest. induction f as [|k r IH]; [reflexivity|]. cbn [flat_map map].
  rewrite map_app, bev_xflat, IH. reflexivity.
Qed.

(* plain base configuration, ANY read triggers and watch points: the records of the stream (events
   erased) are exactly the C02/C05 specification, hence properly nested *)
Theorem nesting_kept C thr gd ms sh f : xb C = plain thr gd ms sh ->
  all_timed (map strip f) -> heights (map strip f) <= ms ->
  erase (xout (snd (xexec C (flat_map xflat f) xstart))) = flat_map (recs thr gd 0) (map strip f) /\
  scan 0 (erase (xout (snd (xexec C (flat_map xflat f) xstart)))) = Some 0.
Proof.
  intros Hb HT Hh. destruct (erase_run C (flat_map xflat f)) as [E _].
  rewrite E, bev_forest, Hb.
  split; [apply run_forest; assumption|].
  apply recorded_stream_nested; assumption.
Qed.

(* ---------------------------------------------------------------- dropped with the call (read / diff) *)
(* a call that is not recorded (time filter, depth limit) contributes nothing to the stream: its read
   and diff events vanish with it *)
Theorem read_events_dropped_with_call thr gd ms sh rd pm k d :
  recs thr gd d (strip k) = [] -> xrecs (xplain thr gd ms sh rd pm) thr gd d k = [].
Proof.
  intro H. pose proof (is_nil_xrecs_list thr gd ms sh rd pm [k] d) as Q.
  cbn [flat_map map] in Q. rewrite !app_nil_r, H in Q. cbn [is_nil] in Q.
  destruct (xrecs _ thr gd d k); [reflexivity|discriminate].
Qed.

(* ---------------------------------------------------------------- time stamps of read / diff events *)
Section times.
  Variable C : xcfg.
  Variables thr gd : N.

  Fixpoint ordered (k : xcall) : Prop :=
    match k with
    | XCall _ t0 _ t1 _ kids =>
        t0 <= t1 /\ (fix all (l : list xcall) : Prop := match l with [] => True | k :: r => ordered k /\ all r end) kids
    end.
  Fixpoint all_ordered (l : list xcall) : Prop :=
    match l with [] => True | k :: r => ordered k /\ all_ordered r end.

  Lemma ordered_kids a t0 o0 t1 o1 kids : ordered (XCall a t0 o0 t1 o1 kids) -> all_ordered kids.
  Proof. cbn. intros (_ & H). induction kids; cbn in *; tauto. Qed.

  Lemma times_events t0 m t stk evs rest : t0 <= t -> (forall e, In e evs -> e_time e = t) ->
    ok_times_go ((t0, m) :: stk) (map oideal (map IE evs) ++ rest) =
    ok_times_go ((t0, if is_nil evs then m else N.max m t) :: stk) rest.
  Proof.
    intros Ht. revert m. induction evs as [|e r IH]; intros m Hall; [reflexivity|].
    cbn [map app oideal ok_times_go is_nil].
    assert (Et : e_time e = t) by (apply Hall; left; reflexivity). rewrite Et.
    assert (E : (t0 <=? t) = true) by (apply N.leb_le; exact Ht). rewrite E. cbn [andb].
    rewrite IH by (intros e' He'; apply Hall; right; exact He').
    destruct r; cbn [is_nil]; [reflexivity|].
    replace (N.max (N.max m t) t) with (N.max m t) by lia. reflexivity.
  Qed.

  Lemma times_call : forall k, ordered k -> forall d stk rest,
    ok_times_go stk (map oideal (xrecs C thr gd d k) ++ rest) = ok_times_go stk rest.
  Proof.
    induction k as [a t0 o0 t1 o1 kids IH] using xcall_ind'. intros HO d stk rest.
    pose proof (ordered_kids _ _ _ _ _ _ HO) as HK. destruct HO as [Ht _].
    cbn [xrecs]. destruct (gd <=? d); [reflexivity|].
    assert (K : forall d' stk' rest', ok_times_go stk' (map oideal (flat_map (xrecs C thr gd d') kids) ++ rest') =
                                      ok_times_go stk' rest').
    { intros d' stk' rest'. clear Ht. induction IH as [|k r Hk _ IHr]; [reflexivity|].
      destruct HK as [Ok Or]. cbn [flat_map]. rewrite map_app, <- app_assoc, Hk by exact Ok. apply IHr. exact Or. }
    destruct ((thr <=? t1 - t0) || negb (is_nil (flat_map (xrecs C thr gd (d + 1)) kids))); [|reflexivity].
    cbn [map app oideal ok_times_go type_code r_type r_time].
    assert (E0 : (UFTRACE_ENTRY =? UFTRACE_ENTRY) = true) by reflexivity. rewrite E0.
    rewrite !map_app, <- !app_assoc.
    rewrite (times_events t0 t0 t0) by (try lia; unfold reads; intros e He; apply in_map_iff in He;
                                         destruct He as (k0 & <- & _); reflexivity).
    rewrite K.
    rewrite (times_events t0 _ t1) by (try lia; unfold diffs; intros e He; apply in_map_iff in He;
                                        destruct He as (k0 & <- & _); reflexivity).
    cbn [map app oideal ok_times_go type_code r_type r_time].
    assert (E1 : (UFTRACE_EXIT =? UFTRACE_ENTRY) = false) by reflexivity. rewrite E1.
    match goal with |- context [(?m <=? t1)] => assert (Em : (m <=? t1) = true) end.
    { apply N.leb_le. destruct (is_nil (reads C a t0 o0)), (is_nil (diffs C a t1 o0 o1)); lia. }
    rewrite Em. reflexivity.
  Qed.

  (* every read / diff event of the specification lies in the closed interval of its call *)
  Theorem read_event_times f : all_ordered f -> ok_times (map oideal (flat_map (xrecs C thr gd 0) f)) = true.
  Proof.
    unfold ok_times. intro HO. induction f as [|k r IH]; [reflexivity|].
    destruct HO as [Ok Or]. cbn [flat_map]. rewrite map_app, times_call by exact Ok. apply IH. exact Or.
  Qed.
End times.

(* ---------------------------------------------------------------- refutations (faithful model) *)
Definition o_cpu_only (c : Z) : oval :=
  {| o_statm := [0; 0; 0]; o_pf := [0; 0]; o_cycle := [0; 0]; o_cache := [0; 0]; o_branch := [0; 0];
     o_cpu := c; o_var := 0; o_asz := None |}.
Definition o_pf_only (mn : N) : oval :=
  {| o_statm := [0; 0; 0]; o_pf := [0; mn]; o_cycle := [0; 0]; o_cache := [0; 0]; o_branch := [0; 0];
     o_cpu := 0%Z; o_var := 0; o_asz := None |}.

(* (1) watch events of a call that the time filter drops are dropped with it: f1 (10 ns, threshold 50 ns)
   and the two cpu changes observed at its entry and exit are absent; the thread's first event stays *)
Definition drop_cfg : xcfg :=
  {| xb := plain 50 1024 1024 PG; read_of := fun _ => 0; wp_cpu := true; wp_var := false; pmu_ok := false |}.
Definition drop_run : list xev :=
  [XEnter 0 100 (o_cpu_only 3); XEnter 256 110 (o_cpu_only 4); XLeave 120 (o_cpu_only 5);
   XEnter 512 130 (o_cpu_only 5); XLeave 190 (o_cpu_only 5); XLeave 200 (o_cpu_only 5)].
Definition wcpu (t : N) (c : N) : item := IE {| e_time := t; e_id := C17_EVENT_ID_WATCH_CPU; e_data := [c] |}.
Example watch_dropped_with_call_example :
  xout (snd (xexec drop_cfg drop_run xstart)) =
  [IR {| r_time := 100; r_type := ENTRY; r_depth := 0; r_addr := 0 |}; wcpu 101 3;
   IR {| r_time := 130; r_type := ENTRY; r_depth := 1; r_addr := 512 |};
   IR {| r_time := 190; r_type := EXIT; r_depth := 1; r_addr := 512 |};
   IR {| r_time := 200; r_type := EXIT; r_depth := 0; r_addr := 0 |}].
Proof. vm_compute. reflexivity. Qed.

(* LEGACY (before 35535f9): the invalidation was called with mtdp->idx, one above the exiting frame's own
   index n: the frame's own events always passed the test and were written with the next record *)
Lemma invalidate_legacy_keeps_own e n :
  invalidate (n + 1) [{| a_ev := e; a_idx := n |}] = [{| a_ev := e; a_idx := n |}] /\
  invalidate n [{| a_ev := e; a_idx := n |}] = [].
Proof.
  assert (E : (n <? n + 1) = true) by (apply N.ltb_lt; lia).
  assert (E' : (n <? n) = false) by (apply N.ltb_ge; lia).
  unfold invalidate. cbn [last_keep a_idx]. rewrite E, E'. split; reflexivity.
Qed.

(* in general: on a queue ordered by frame index (events are queued in hook order, deeper frames later)
   the invalidation keeps exactly the events of the frames below the given index *)
Fixpoint sorted_idx (p : list aev) : Prop :=
  match p with
  | a :: r => match r with b :: _ => a_idx a <= a_idx b | [] => True end /\ sorted_idx r
  | [] => True
  end.

Lemma sorted_ge m a r : sorted_idx (a :: r) -> m <= a_idx a -> filter (fun x => a_idx x <? m) r = [].
Proof.
  revert a. induction r as [|b r IH]; intros a Hs Hm; [reflexivity|].
  cbn [sorted_idx] in Hs. destruct Hs as [Hab Hs]. cbn [filter].
  assert (E : (a_idx b <? m) = false) by (apply N.ltb_ge; lia). rewrite E.
  apply (IH b); [exact Hs|lia].
Qed.

Lemma last_keep_sorted m : forall p i k, sorted_idx p ->
  last_keep m p i k = match filter (fun x => a_idx x <? m) p with
                      | [] => k
                      | l => (i + length l)%nat
                      end.
Proof.
  induction p as [|a r IH]; intros i k Hs; [reflexivity|].
  cbn [last_keep filter]. destruct (a_idx a <? m) eqn:E.
  - rewrite IH by (cbn [sorted_idx] in Hs; tauto).
    destruct (filter (fun x => a_idx x <? m) r); cbn [length]; lia.
  - apply N.ltb_ge in E. rewrite (sorted_ge m a r Hs E).
    rewrite IH by (cbn [sorted_idx] in Hs; tauto). rewrite (sorted_ge m a r Hs E). reflexivity.
Qed.

Lemma firstn_filter_sorted m : forall p, sorted_idx p ->
  firstn (length (filter (fun x => a_idx x <? m) p)) p = filter (fun x => a_idx x <? m) p.
Proof.
  induction p as [|a r IH]; intro Hs; [reflexivity|]. cbn [filter].
  destruct (a_idx a <? m) eqn:E.
  - cbn [length firstn]. f_equal. apply IH. cbn [sorted_idx] in Hs. tauto.
  - apply N.ltb_ge in E. rewrite (sorted_ge m a r Hs E). reflexivity.
Qed.

Theorem invalidate_sorted m p : sorted_idx p -> invalidate m p = filter (fun x => a_idx x <? m) p.
Proof.
  intro Hs. unfold invalidate. rewrite last_keep_sorted by exact Hs.
  pose proof (firstn_filter_sorted m p Hs) as F.
  destruct (filter (fun x => a_idx x <? m) p) as [|b l] eqn:E; [reflexivity|].
  cbn [Nat.add]. exact F.
Qed.

(* (2) a recorded call of zero duration (ENTRY and EXIT time coincide; always recorded since the threshold test
   is >=): each pass of record_ret_stack emits only the events its own hook stored (491a61f), so every event
   appears once.  Selecting by time stamp alone, as before, both passes emitted every event of the frame. *)
Definition zero_cfg : xcfg :=
  xplain 0 1024 1024 PG (fun a => if a =? 0 then TRIGGER_READ_PAGE_FAULT else 0) false.
Lemma zero_duration_read_once :
  map (fun i => match i with IR r => (0, r_time r) | IE e => (e_id e, e_time e) end)
      (xout (snd (xexec zero_cfg [XEnter 0 100 (o_pf_only 5); XLeave 100 (o_pf_only 9)] xstart))) =
  [(0, 100); (EVENT_ID_READ_PAGE_FAULT, 100); (EVENT_ID_DIFF_PAGE_FAULT, 100); (0, 100)].
Proof. vm_compute. reflexivity. Qed.
Lemma take_eq_same t l : Forall (fun e => e_time e = t) l -> take_eq t l = l.
Proof. induction 1 as [|e r He _ IH]; [reflexivity|]. cbn [take_eq]. rewrite He, N.eqb_refl, IH. reflexivity. Qed.
Lemma filter_time_same t l : Forall (fun e => e_time e = t) l -> filter (fun e => e_time e =? t) l = l.
Proof. induction 1 as [|e r He _ IH]; [reflexivity|]. cbn [filter]. rewrite He, N.eqb_refl, IH. reflexivity. Qed.
Lemma zero_duration_legacy_refuted C a t o0 o1 :
  let evs := reads C a t o0 ++ diffs C a t o0 o1 in
  legacy_entry_events t evs = evs /\ legacy_exit_events t evs = evs.
Proof.
  cbn zeta. assert (F : Forall (fun e => e_time e = t) (reads C a t o0 ++ diffs C a t o0 o1)).
  { rewrite reads_eq, diffs_eq. apply Forall_app. split; apply Forall_forall; intros e He;
      apply in_map_iff in He; destruct He as (k & <- & _); reflexivity. }
  split; [apply take_eq_same|apply filter_time_same]; exact F.
Qed.

(* non-vacuity of the read/diff theorem: a concrete run with a negative difference (wraps mod 2^64) *)
Definition ex_cfg : xcfg :=
  xplain 0 1024 1024 PG (fun a => if a =? 0 then TRIGGER_READ_PAGE_FAULT else 0) false.
Example read_diff_example :
  xout (snd (xexec ex_cfg [XEnter 0 100 (o_pf_only 9); XLeave 200 (o_pf_only 5)] xstart)) =
  [IR {| r_time := 100; r_type := ENTRY; r_depth := 0; r_addr := 0 |};
   IE {| e_time := 100; e_id := EVENT_ID_READ_PAGE_FAULT; e_data := [0; 9] |};
   IE {| e_time := 200; e_id := EVENT_ID_DIFF_PAGE_FAULT; e_data := [0; 18446744073709551612] |};
   IR {| r_time := 200; r_type := EXIT; r_depth := 0; r_addr := 0 |}].
Proof. vm_compute. reflexivity. Qed.

(* (3) the +-1 ns rule needs hooks at least 2 ns apart: with 1 ns between the thread's first hook and the
   next one the queue is no longer ordered (first event stamped t+1, next one (t+1)-1 = t), the head blocks
   the flush, and the second event is written inside the callee although it is stamped before its ENTRY *)
Definition gap_cfg : xcfg :=
  {| xb := plain 0 1024 1024 PG; read_of := fun _ => 0; wp_cpu := true; wp_var := false; pmu_ok := false |}.
Definition gap_run (g : N) : list xev :=
  [XEnter 0 100 (o_cpu_only 1); XEnter 256 (100 + g) (o_cpu_only 2); XLeave (100 + 2 * g) (o_cpu_only 3);
   XLeave 200 (o_cpu_only 4)].
Lemma watch_times_gap1_refuted :
  map oideal (xout (snd (xexec gap_cfg (gap_run 1) xstart))) =
  [OR (100, 0, 5, 0, 0); OR (101, 0, 5, 1, 256); OE 101 C17_EVENT_ID_WATCH_CPU [1]; OE 100 C17_EVENT_ID_WATCH_CPU [2];
   OE 101 C17_EVENT_ID_WATCH_CPU [3]; OR (102, 1, 5, 1, 256); OE 199 C17_EVENT_ID_WATCH_CPU [4]; OR (200, 1, 5, 0, 0)] /\
  ok_times (map oideal (xout (snd (xexec gap_cfg (gap_run 1) xstart)))) = false.
Proof. vm_compute. split; reflexivity. Qed.
(* with 2 ns every watch event sits in front of its hook's record (the first one behind it) *)
Example watch_times_gap2 :
  map oideal (xout (snd (xexec gap_cfg (gap_run 2) xstart))) =
  [OR (100, 0, 5, 0, 0); OE 101 C17_EVENT_ID_WATCH_CPU [1]; OE 101 C17_EVENT_ID_WATCH_CPU [2]; OR (102, 0, 5, 1, 256);
   OE 103 C17_EVENT_ID_WATCH_CPU [3]; OR (104, 1, 5, 1, 256); OE 199 C17_EVENT_ID_WATCH_CPU [4]; OR (200, 1, 5, 0, 0)] /\
  ok_times (map oideal (xout (snd (xexec gap_cfg (gap_run 2) xstart)))) = true.
Proof. vm_compute. split; reflexivity. Qed.

(* ---------------------------------------------------------------- the overlap guard of save_trigger_read *)
(* the guard stores an event exactly when it fits above the argument bytes (size word included); a stored
   event and the argument bytes never overlap *)
Theorem guard_exact b dsz : guard_stores b dsz = room_for b dsz.
Proof.
  unfold guard_stores, room_for. destruct (has_args b); cbn [negb orb]; [reflexivity|].
  assert (E : (0 <=? event_idx b - (EVTBUF_HDR + dsz)) = true) by (apply N.leb_le; lia). rewrite E. reflexivity.
Qed.

Theorem event_area_disjoint b dsz : guard_stores b dsz = true -> disjoint_after b dsz = true.
Proof.
  unfold guard_stores, disjoint_after. intro H. destruct (has_args b); [|reflexivity]. cbn [negb orb].
  apply andb_true_iff in H. destruct H as [_ H]. exact H.
Qed.

(* LEGACY (before 7cf042b): the size word was read through the EVENT pointer.  (a) entry hook, no event
   stored yet: the first word of the NEXT frame's buffer (stale or never written, here 0): a 1000-byte
   argument area and a page-fault event overlap although the guard lets the event through *)
Lemma event_area_disjoint_legacy_refuted :
  let b := {| has_args := true; asz := 1000; event_idx := C17_ARGBUF_SIZE; w_at_ptr := 0 |} in
  guard_stores_legacy b SIZEOF_PAGE_FAULT = true /\ disjoint_after b SIZEOF_PAGE_FAULT = false /\
  guard_stores b SIZEOF_PAGE_FAULT = false.
Proof. vm_compute. repeat split; reflexivity. Qed.

(* (b) exit hook, the read event is stored at the event pointer: the word is the low half of its time
   stamp (here 5000): the diff event was rejected although 8 bytes of arguments leave plenty of room *)
Lemma diff_event_lost_with_args_legacy_refuted :
  let b := {| has_args := true; asz := 8; event_idx := C17_ARGBUF_SIZE - (EVTBUF_HDR + SIZEOF_PAGE_FAULT);
              w_at_ptr := 5000 |} in
  room_for b SIZEOF_PAGE_FAULT = true /\ guard_stores_legacy b SIZEOF_PAGE_FAULT = false /\
  guard_stores b SIZEOF_PAGE_FAULT = true.
Proof. vm_compute. repeat split; reflexivity. Qed.

(* all events of one frame (5 kinds, read + diff) fit: the event area never reaches the buffer start *)
Lemma all_events_fit :
  2 * ((EVTBUF_HDR + SIZEOF_PROC_STATM) + (EVTBUF_HDR + SIZEOF_PAGE_FAULT) + (EVTBUF_HDR + SIZEOF_PMU_CYCLE) +
       (EVTBUF_HDR + SIZEOF_PMU_CACHE) + (EVTBUF_HDR + SIZEOF_PMU_BRANCH)) <= C17_ARGBUF_SIZE.
Proof. vm_compute. discriminate. Qed.
