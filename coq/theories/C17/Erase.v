(* C17: erasing the EVENT items from the extended machine's output gives exactly the base machine's
   output (for EVERY configuration and history), and the base state is the base machine's state. *)
From Coq Require Import NArith ZArith List Bool Lia.
Import ListNotations.
Require Import UV.Gen.Consts UV.Gen.C17Consts UV.Mcount.Model UV.Mcount.Forest UV.C17.Model.
Local Open Scope N_scope.

Lemma erase_app l1 l2 : erase (l1 ++ l2) = erase l1 ++ erase l2.
Proof. unfold erase. apply flat_map_app. Qed.

Lemma erase_IE l : erase (map IE l) = [].
Proof. induction l as [|e r IH]; [reflexivity|]. cbn. exact IH. Qed.

Lemma erase_x_entry f x p : erase (fst (x_entry f x p)) = [entry_rec f].
Proof.
  unfold x_entry. destruct (pop_lt (f_start f) p) as [fl p']. cbn [fst].
  rewrite !erase_app, !erase_IE. reflexivity.
Qed.

Lemma erase_x_exit f x p : erase (fst (x_exit f x p)) = [exit_rec f].
Proof.
  unfold x_exit. destruct (pop_lt (f_end f) p) as [fl p']. cbn [fst].
  rewrite !erase_app, !erase_IE. reflexivity.
Qed.

Lemma erase_xflush_anc anc : forall axs p, erase (fst (xflush_anc anc axs p)) = snd (flush_anc anc).
Proof.
  induction anc as [|f rest IH]; intros axs p; [reflexivity|].
  cbn [xflush_anc flush_anc]. destruct (written (f_flags f)); [reflexivity|].
  specialize (IH (tl axs) p).
  destruct (xflush_anc rest (tl axs) p) as [its p1]. destruct (flush_anc rest) as [rest' recs].
  cbn [fst snd] in IH.
  destruct (skip f); cbn [fst snd]; [exact IH|].
  pose proof (erase_x_entry f (hd fx0 axs) p1) as E.
  destruct (x_entry f (hd fx0 axs) p1) as [it2 p2]. cbn [fst] in *.
  rewrite erase_app, IH, E. reflexivity.
Qed.

Definition rtd_recs (top : frame) (anc : list frame) : list rec :=
  let '(_, _, r) := record_trace_data top anc in r.

Lemma exit_rec_set_written f : exit_rec (set_written f) = exit_rec f.
Proof. reflexivity. Qed.

Lemma erase_x_rtd top x anc axs p : erase (fst (x_rtd top x anc axs p)) = rtd_recs top anc.
Proof.
  unfold x_rtd, rtd_recs, record_trace_data.
  destruct (written (f_flags top)) eqn:W.
  - cbn [orb].
    destruct (f_end top =? 0) eqn:E0; cbn [fst app erase flat_map]; [reflexivity|].
    pose proof (erase_x_exit top x p) as E. destruct (x_exit top x p) as [i3 p3]. cbn [fst] in *.
    cbn [app]. exact E.
  - pose proof (erase_xflush_anc anc axs p) as EA.
    destruct (xflush_anc anc axs p) as [i1 p1]. destruct (flush_anc anc) as [anc' pre]. cbn [fst snd] in EA.
    cbn [orb].
    destruct (skip top) eqn:S.
    + destruct (f_end top =? 0) eqn:E0; cbn [fst].
      * rewrite !app_nil_r. exact EA.
      * pose proof (erase_x_exit top x p1) as E. destruct (x_exit top x p1) as [i3 p3]. cbn [fst] in *.
        rewrite !erase_app, EA, E. reflexivity.
    + pose proof (erase_x_entry top x p1) as E2. destruct (x_entry top x p1) as [i2 p2]. cbn [fst] in E2.
      assert (Hend : f_end (set_written top) = f_end top) by reflexivity. rewrite Hend.
      destruct (f_end top =? 0) eqn:E0; cbn [fst].
      * rewrite !erase_app, EA, E2. reflexivity.
      * pose proof (erase_x_exit top x p2) as E. destruct (x_exit top x p2) as [i3 p3]. cbn [fst] in *.
        rewrite !erase_app, EA, E2, E, exit_rec_set_written. reflexivity.
Qed.

(* ---------------------------------------------------------------- pieces of the base machine *)
Lemma xout_set_xs X l : xout (set_xs X l) = xout X.
Proof. reflexivity. Qed.
Lemma xout_set_pend X p : xout (set_pend X p) = xout X.
Proof. reflexivity. Qed.
Lemma xout_emit X its p : xout (emit X its p) = xout X ++ its.
Proof. reflexivity. Qed.
Lemma xout_push X x : xout (push X x) = xout X.
Proof. reflexivity. Qed.
Lemma xout_watch C f pos o X : xout (x_watch C f pos o X) = xout X.
Proof. unfold x_watch. destruct (negb (wp_cpu C || wp_var C)); reflexivity. Qed.

Lemma check_rstack_out c s X : erase (xout X) = out s ->
  erase (xout (x_check_rstack c s X)) = out (fst (check_rstack c s)).
Proof.
  intro H. unfold x_check_rstack, check_rstack.
  destruct (max_stack c <=? idx s) eqn:E; cbn [andb]; [|exact H].
  destruct (warned s) eqn:Wn; cbn [negb fst]; [exact H|].
  destruct (skipn (length (stack s) - N.to_nat (max_stack c)) (stack s)) as [|top anc] eqn:SK; cbn [fst out]; [exact H|].
  pose proof (erase_x_rtd top (hd fx0 (skipn (length (stack s) - N.to_nat (max_stack c)) (xs X))) anc
                (tl (skipn (length (stack s) - N.to_nat (max_stack c)) (xs X))) (pend X)) as ER.
  destruct (x_rtd top _ anc _ (pend X)) as [its p']. cbn [fst] in ER.
  unfold rtd_recs in ER. destruct (record_trace_data top anc) as [[top' anc'] recs]. cbn [fst out].
  rewrite xout_emit, erase_app, H, ER. reflexivity.
Qed.

(* entry_check changes [out] / [stack] / [cached] only through check_rstack *)
Lemma entry_check_frame c s a :
  let '(s1, _, _, _) := entry_check c s a in
  out s1 = out (fst (check_rstack c s)) /\ stack s1 = stack (fst (check_rstack c s)) /\
  cached s1 = cached (fst (check_rstack c s)).
Proof.
  unfold entry_check. destruct (check_rstack c s) as [s0 over]. cbn [fst].
  destruct over; [auto|].
  destruct (out_count (fc s0) >? 0)%Z; [auto|].
  destruct (match t_filter (trig_of c a) with
            | Some _ => false
            | None => fmode_in c && (in_count (fc s0) =? 0)%Z
            end); [cbn; auto|].
  destruct (loc_out c (trig_of c a)); [cbn; auto|].
  match goal with |- context [if ?b then _ else _] => destruct b end; cbn; auto.
Qed.

Lemma cached_check_rstack c s : cached (fst (check_rstack c s)) = cached s.
Proof.
  unfold check_rstack. destruct (max_stack c <=? idx s); [|reflexivity].
  destruct (warned s); [reflexivity|].
  destruct (skipn _ (stack s)) as [|top anc]; [reflexivity|].
  destruct (record_trace_data top anc) as [[t' a'] r]. reflexivity.
Qed.

(* the three outcomes of mcount_entry_filter_record *)
Lemma entry_record_cases c s fr tr sv :
  exists top rest, stack (entry_record c s fr tr sv) = top :: rest /\
    ((norecord (f_flags top) = true /\ out (entry_record c s fr tr sv) = out s) \/
     (norecord (f_flags top) = false /\ disabled (f_flags top) = false /\ out (entry_record c s fr tr sv) = out s) \/
     (norecord (f_flags top) = false /\ disabled (f_flags top) = true /\ written (f_flags top) = false /\
      f_end top = 0 /\
      out (entry_record c s fr tr sv) = out s ++ (if cached s then snd (flush_anc (stack s)) else []))).
Proof.
  unfold entry_record. destruct sv as [[[d m] t] z].
  match goal with |- context [if ?b then _ else _] => destruct b eqn:NR end.
  - eexists. eexists. split; [reflexivity|]. left. cbn. auto.
  - destruct (enabled s) eqn:En.
    + eexists. eexists. split; [reflexivity|]. right. left. cbn. auto.
    + destruct (cached s) eqn:Ca.
      * unfold record_trace_data. cbn [f_flags written norecord disabled orb skip f_end].
        unfold skip. cbn [f_flags norecord disabled orb].
        destruct (flush_anc (stack s)) as [anc' pre]. cbn [N.eqb app snd].
        eexists. eexists. split; [reflexivity|]. right. right. cbn. rewrite app_nil_r. auto.
      * eexists. eexists. split; [reflexivity|]. right. right. cbn. rewrite app_nil_r. auto.
Qed.

Lemma erase_entry_record C c s1 X1 fr tr sv (a : N) o pos (sh0 : shape) :
  erase (xout X1) = out s1 ->
  erase (xout (match stack (entry_record c s1 fr tr sv) with
               | [] => X1
               | top :: _ =>
                   if norecord (f_flags top) then push X1 fx0
                   else if disabled (f_flags top) then
                     if cached s1 then
                       let '(its, p') := x_rtd top fx0 (stack s1) (xs X1) (pend X1) in
                       push (emit X1 its p') fx0
                     else push X1 fx0
                   else
                     let x0 := fxa (match sh0 with PG => o_asz o | CYG => None end) in
                     let x := if read_of C a =? 0 then x0 else save_trigger_read C top o false x0 in
                     push (x_watch C top pos o X1) x
               end)) = out (entry_record c s1 fr tr sv).
Proof.
  intro H. destruct (entry_record_cases c s1 fr tr sv) as (top & rest & St & Cases). rewrite St.
  destruct Cases as [(NR & O)|[(NR & Di & O)|(NR & Di & Wr & En & O)]]; rewrite NR.
  - rewrite xout_push, O. exact H.
  - rewrite Di, xout_push, xout_watch, O. exact H.
  - rewrite Di, O. destruct (cached s1).
    + pose proof (erase_x_rtd top fx0 (stack s1) (xs X1) (pend X1)) as ER.
      destruct (x_rtd top fx0 (stack s1) (xs X1) (pend X1)) as [its p']. cbn [fst] in ER.
      rewrite xout_push, xout_emit, erase_app, H, ER.
      unfold rtd_recs, record_trace_data. rewrite Wr. unfold skip. rewrite Di, orb_true_r.
      destruct (flush_anc (stack s1)) as [anc' pre]. cbn [orb snd]. rewrite En. cbn. rewrite app_nil_r. reflexivity.
    + rewrite xout_push, app_nil_r. exact H.
Qed.

Lemma erase_enter C s X a t o : erase (xout X) = out s ->
  erase (xout (x_enter C s X a t o)) = out (do_enter (xb C) s a t).
Proof.
  intro H. unfold x_enter.
  set (X0 := x_first C X o).
  assert (H0 : erase (xout X0) = out s).
  { subst X0. unfold x_first. destruct (v_copy X); [exact H|]. destruct (wp_var C); exact H. }
  clearbody X0.
  pose proof (entry_check_frame (xb C) s a) as EF.
  pose proof (check_rstack_out (xb C) s X0 H0) as CR.
  unfold do_enter.
  destruct (entry_check (xb C) s a) as [[[s1 v] tr] sv] eqn:EC.
  destruct EF as (Eo & Es & Ec).
  assert (H1 : erase (xout (x_check_rstack (xb C) s X0)) = out s1) by (rewrite Eo; exact CR).
  set (X1 := x_check_rstack (xb C) s X0) in *.
  destruct (shp (xb C)) eqn:SH; destruct v.
  - (* PG, V_IN *)
    apply (erase_entry_record C (xb C) s1 X1 _ tr sv a o (idx s1) PG H1).
  - destruct (state_trig tr); [|exact H1].
    rewrite xout_push. unfold entry_record. destruct sv as [[[d m] t'] z]. cbn [f_flags norecord orb out]. exact H1.
  - exact H1.
  - apply (erase_entry_record C (xb C) s1 X1 _ tr sv a o (idx s1) CYG H1).
  - apply (erase_entry_record C (xb C) s1 X1 _ tr sv a o (idx s1) CYG H1).
  - rewrite xout_push. cbn [out]. exact H1.
Qed.

Lemma erase_leave C s X t o : erase (xout X) = out s ->
  erase (xout (x_leave C s X t o)) = out (do_leave (xb C) s t).
Proof.
  intro H. unfold x_leave, do_leave.
  destruct (stack s) as [|top anc] eqn:St; [exact H|].
  destruct (f_ghost top); [cbn [out]; rewrite xout_set_xs; exact H|].
  set (top1 := match shp (xb C) with
               | PG => set_end top t
               | CYG => if norecord (f_flags top) then top else set_end top t
               end).
  assert (Hex : match shp (xb C) with
                | PG => exit_record (xb C) s (set_end top t) anc
                | CYG => exit_record (xb C) s (if norecord (f_flags top) then top else set_end top t) anc
                end = exit_record (xb C) s top1 anc) by (subst top1; destruct (shp (xb C)); reflexivity).
  rewrite Hex. clearbody top1. clear Hex.
  unfold exit_record.
  destruct (norecord (f_flags top1)); [cbn [out]; rewrite xout_set_xs; exact H|].
  destruct (enabled s); cbn [negb]; [|cbn [out]; rewrite xout_set_xs; exact H].
  fold (exit_cond (xb C) s top1).
  destruct (exit_cond (xb C) s top1).
  - set (x1 := if x_read (hd fx0 (xs X)) then _ else hd fx0 (xs X)).
    set (X1 := x_watch C top1 (N.of_nat (length anc)) o (set_xs X (tl (xs X)))).
    pose proof (erase_x_rtd top1 x1 anc (tl (xs X)) (pend X1)) as ER.
    destruct (x_rtd top1 x1 anc (tl (xs X)) (pend X1)) as [its p']. cbn [fst] in ER.
    unfold rtd_recs in ER. destruct (record_trace_data top1 anc) as [[t' a'] recs]. cbn [out].
    rewrite xout_emit, erase_app, ER. subst X1. rewrite xout_watch, xout_set_xs, H. reflexivity.
  - cbn [out]. rewrite xout_set_pend, xout_watch, xout_set_xs. exact H.
Qed.

Definition xinv (D : xdstate) : Prop := erase (xout (snd D)) = out (fst (fst D)).

Lemma xdstep_base C D e : fst (xdstep C D e) = dstep (xb C) (fst D) (bev e).
Proof. destruct D as [[s hk] X]. reflexivity. Qed.

Lemma xdstep_inv C D e : xinv D -> xinv (xdstep C D e).
Proof.
  destruct D as [[s hk] X]. unfold xinv. cbn [fst snd]. intro H.
  destruct e as [a t o|t o]; cbn [xdstep bev dstep fst snd].
  - apply erase_enter. exact H.
  - destruct hk as [|h r]; cbn [fst snd]; [exact H|].
    destruct h; cbn [fst]; [apply erase_leave; exact H|exact H].
Qed.

Theorem erase_exec C : forall es D, xinv D ->
  xinv (xexec C es D) /\ fst (xexec C es D) = exec (xb C) (map bev es) (fst D).
Proof.
  induction es as [|e r IH]; intros D H; [split; [exact H|reflexivity]|].
  cbn [xexec fold_left map exec]. fold (xexec C r (xdstep C D e)).
  destruct (IH (xdstep C D e) (xdstep_inv C D e H)) as [I E]. split; [exact I|].
  rewrite E, xdstep_base. reflexivity.
Qed.

(* from the initial state *)
Theorem erase_run C es :
  erase (xout (snd (xexec C es xstart))) = out (fst (exec (xb C) (map bev es) (init, []))) /\
  fst (xexec C es xstart) = exec (xb C) (map bev es) (init, []).
Proof.
  destruct (erase_exec C es xstart) as [I E]; [reflexivity|].
  split; [|exact E]. unfold xinv in I. rewrite I, E. reflexivity.
Qed.
