(* C17: bounded exhaustive theorem for -W cpu in the stream.  For EVERY history of at most 4 calls (all
   1 + 2 + 5 + 14 balanced Enter/Leave words; -pg and -finstrument-functions shape with hooks 2 ns apart, -pg
   with 3 ns), the chains of 5 and 6 nested calls (the histories in which MAX_EVENT events are pending), and
   EVERY change pattern of the observed cpu number (the machine only compares a value with the previous
   observation, so two values exhibit every behaviour): the stream equals the hook-by-hook specification
   [wspec] (event iff changed, first always, MAX_EVENT limit, -1 ns / first +1 ns stamps, written in front
   of the hook's record / behind the first ENTRY) and every event lies in the closed interval of the
   enclosing recorded call.  Finite domains, bounds in the statement, decided by vm_compute. *)
From Coq Require Import NArith ZArith List Bool.
Import ListNotations.
Require Import UV.Gen.Consts UV.Gen.C17Consts UV.Mcount.Model UV.Mcount.Forest UV.C17.Model.
Local Open Scope N_scope.

Lemma watch_stream_small :
  forallb small_ok [1; 2; 3; 4]%nat && chain_ok 5 PG 2 && chain_ok 6 CYG 2 = true.
Proof. vm_compute. reflexivity. Qed.

(* the domains are not empty: 1, 2, 5, 14 histories of 1..4 calls with 4, 16, 64, 256 change patterns each;
   in the chain of 5 with a change at every hook the limit takes effect: 10 changes, 8 events *)
Lemma small_domain :
  map (fun n => length (filter (fun d => balanced d 0) (bitlists (2 * n)))) [1; 2; 3; 4]%nat = [1; 2; 5; 14]%nat /\
  balanced (chain 5) 0 = true /\
  length (filter (fun i => match i with OE _ _ _ => true | _ => false end)
                 (wspec (hooks_of (chain 5) [true; false; true; false; true; false; true; false; true; false] 100 2 0))) = 8%nat.
Proof. vm_compute. repeat split; reflexivity. Qed.
