(* C17: the whole stream, hook by hook (unbounded): plain configuration without threshold, any read= triggers,
   -W cpu and/or -W var, hooks at least 2 ns apart: the stream equals [hspec]. *)
From Coq Require Import NArith ZArith List Bool Lia.
Import ListNotations.
Require Import UV.Gen.Consts UV.Gen.C17Consts UV.Mcount.Model UV.Mcount.Forest UV.Mcount.PlainStep
  UV.Mcount.PlainProofs UV.C17.Model UV.C17.Erase UV.C17.Read UV.C17.Drop UV.C17.Watch.
Local Open Scope N_scope.

(* ---------------------------------------------------------------- save_watchpoint depends on the frame through its time only *)
Lemma x_watch_ts C f f' pos o X : ts_of f = ts_of f' -> x_watch C f pos o X = x_watch C f' pos o X.
Proof. intro H. unfold x_watch. rewrite H. reflexivity. Qed.

(* the watch part of the extension state *)
Definition wpart (X : xpart) := (pend X, w_inited X, w_cpu X, v_copy X, g_init X, g_val X).

Lemma x_watch_wpart C f pos o X W : wpart X = wpart W ->
  wpart (x_watch C f pos o X) = wpart (x_watch C f pos o W).
Proof.
  unfold wpart. intro H. assert (H' := H). injection H' as Hp Hi Hc Hv Hg Hgv.
  unfold x_watch. destruct (negb (wp_cpu C || wp_var C)); [exact H|].
  cbn [pend w_inited w_cpu v_copy g_init g_val]. rewrite Hp, Hi, Hc, Hv, Hg, Hgv. reflexivity.
Qed.

Lemma x_first_wpart C o X W : wpart X = wpart W -> wpart (x_first C X o) = wpart (x_first C W o).
Proof.
  intro H. destruct X as [xs1 p1 i1 c1 v1 g1 gv1 o1], W as [xs2 p2 i2 c2 v2 g2 gv2 o2].
  unfold wpart in *. cbn [pend w_inited w_cpu v_copy g_init g_val] in H.
  injection H as -> -> -> -> -> ->. unfold x_first. cbn [v_copy].
  destruct v2; [reflexivity|]. destruct (wp_var C); reflexivity.
Qed.

(* ---------------------------------------------------------------- the queue and the flush *)
Definition atime (a : aev) : N := e_time (a_ev a).

Lemma pop_lt_all ts : forall p, Forall (fun a => atime a < ts) p -> pop_lt ts p = (map a_ev p, []).
Proof.
  induction p as [|a r IH]; intro H; [reflexivity|]. inversion H; subst. cbn [pop_lt map].
  assert (E : (e_time (a_ev a) <? ts) = true) by (apply N.ltb_lt; assumption). rewrite E, IH by assumption. reflexivity.
Qed.

Lemma pop_lt_app ts q : Forall (fun a => ts <= atime a) q -> forall p,
  pop_lt ts (p ++ q) = (fst (pop_lt ts p), snd (pop_lt ts p) ++ q).
Proof.
  intro Hq. induction p as [|a r IH]; cbn [app pop_lt].
  - destruct q as [|b q']; [reflexivity|]. inversion Hq; subst. cbn [pop_lt].
    assert (E : (e_time (a_ev b) <? ts) = false) by (apply N.ltb_ge; assumption). rewrite E. reflexivity.
  - destruct (e_time (a_ev a) <? ts); [|reflexivity].
    rewrite IH. destruct (pop_lt ts r) as [fl r']. reflexivity.
Qed.

(* frames that the flush may write: those above the first written one *)
Fixpoint starts_le (T : N) (anc : list frame) : Prop :=
  match anc with
  | [] => True
  | f :: r => written (f_flags f) = true \/ (f_start f <= T /\ starts_le T r)
  end.

Lemma xflush_anc_app T q : Forall (fun a => T <= atime a) q -> forall anc axs p, starts_le T anc ->
  xflush_anc anc axs (p ++ q) = (fst (xflush_anc anc axs p), snd (xflush_anc anc axs p) ++ q).
Proof.
  intro Hq. induction anc as [|f r IH]; intros axs p Hs; [reflexivity|]. cbn [xflush_anc].
  destruct (written (f_flags f)) eqn:W; [reflexivity|].
  cbn [starts_le] in Hs. destruct Hs as [Hs|[Hf Hs]]; [congruence|].
  rewrite (IH (tl axs) p Hs). destruct (xflush_anc r (tl axs) p) as [its p1]. cbn [fst snd].
  destruct (skip f); [reflexivity|].
  unfold x_entry. rewrite pop_lt_app.
  - destruct (pop_lt (f_start f) p1) as [fl p']. reflexivity.
  - eapply Forall_impl; [|exact Hq]. cbn. intros; lia.
Qed.

Lemma Forall_pop_lt Q ts : forall p, Forall Q p -> Forall Q (snd (pop_lt ts p)).
Proof.
  induction p as [|a r IH]; intro H; [constructor|]. cbn [pop_lt].
  destruct (e_time (a_ev a) <? ts); [|exact H]. inversion H; subst.
  specialize (IH H3). destruct (pop_lt ts r) as [fl r']. exact IH.
Qed.

Lemma Forall_xflush Q : forall anc axs p, Forall Q p -> Forall Q (snd (xflush_anc anc axs p)).
Proof.
  induction anc as [|f r IH]; intros axs p H; [exact H|]. cbn [xflush_anc].
  destruct (written (f_flags f)); [exact H|].
  specialize (IH (tl axs) p H). destruct (xflush_anc r (tl axs) p) as [its p1]. cbn [snd] in IH.
  destruct (skip f); [exact IH|]. unfold x_entry.
  pose proof (Forall_pop_lt Q (f_start f) p1 IH) as HP. destruct (pop_lt (f_start f) p1) as [fl p']. exact HP.
Qed.

(* ---------------------------------------------------------------- the two passes of a frame, any configuration *)
Definition fxof (C : xcfg) (sh : shape) (a t : N) (o : oval) : fx :=
  {| x_nent := length (reads C a t o); x_read := negb (read_of C a =? 0); x_evs := reads C a t o;
     x_asz := match sh with PG => o_asz o | CYG => None end |}.

Lemma asz_ok_sh sh o : asz_ok (o_asz o) -> asz_ok (match sh with PG => o_asz o | CYG => None end).
Proof. destruct sh; [auto|intros _; exact I]. Qed.

Lemma entry_pass C sh top a t o : ts_of top = t -> f_addr top = a -> asz_ok (o_asz o) ->
  (if read_of C a =? 0 then fxa (match sh with PG => o_asz o | CYG => None end)
   else save_trigger_read C top o false (fxa (match sh with PG => o_asz o | CYG => None end))) = fxof C sh a t o.
Proof.
  intros Hts Ha Hasz. unfold fxof. destruct (read_of C a =? 0) eqn:E0.
  - apply N.eqb_eq in E0. cbn [negb]. unfold reads, ekinds. rewrite E0. reflexivity.
  - cbn [negb]. unfold save_trigger_read. cbn [x_evs x_asz fxa]. rewrite Hts, Ha. unfold kinds_of.
    rewrite str_go_g_room.
    + rewrite str_read. rewrite reads_eq, ekinds_eq. reflexivity.
    + pose proof (asz_ok_room _ (asz_ok_sh sh o Hasz)) as R.
      pose proof (ksize_filter (fun k => negb (N.land (read_of C a) (kind_bit k) =? 0)) table) as K.
      cbn [used fold_right]. lia.
Qed.

Lemma exit_pass C sh top1 a t0 t1 o0 o1 : ts_of top1 = t1 -> f_addr top1 = a -> asz_ok (o_asz o0) ->
  x_evs (if x_read (fxof C sh a t0 o0) then save_trigger_read C top1 o1 true (fxof C sh a t0 o0) else fxof C sh a t0 o0)
  = reads C a t0 o0 ++ diffs C a t1 o0 o1.
Proof.
  intros Hts Ha Hasz. unfold fxof at 1. cbn [x_read]. destruct (read_of C a =? 0) eqn:E0; cbn [negb].
  - apply N.eqb_eq in E0. cbn [fxof x_evs]. unfold reads, diffs, ekinds. rewrite E0. reflexivity.
  - unfold save_trigger_read. cbn [x_evs x_asz fxof]. rewrite Hts, Ha. unfold kinds_of.
    rewrite str_go_g_room.
    + rewrite reads_eq, diffs_eq, ekinds_eq. apply str_diff.
    + pose proof (asz_ok_room _ (asz_ok_sh sh o0 Hasz)) as R.
      pose proof (ksize_filter (fun k => negb (N.land (read_of C a) (kind_bit k) =? 0)) table) as K.
      rewrite reads_eq, used_reads, ekinds_eq.
      pose proof (ksize_filter (avail (pmu_ok C)) (filter (fun k => negb (N.land (read_of C a) (kind_bit k) =? 0)) table)) as K2.
      lia.
Qed.

Section stream.
  Variables gd ms : N.
  Variable sh : shape.
  Variable rd : N -> N.
  Variables pm wc wv : bool.
  Let C := xplainw 0 gd ms sh rd pm wc wv.
  Let c := plain 0 gd ms sh.

  Lemma s_enter_in s X d a t o : fc s = fcd d -> enabled s = true -> d < gd -> idx s < ms -> asz_ok (o_asz o) ->
    x_enter C s X a t o = push (x_watch C (newframe sh a t (ridx s) d) (idx s) o (x_first C X o)) (fxof C sh a t o).
  Proof.
    intros Hfc Hen Hd Hi Hasz. unfold x_enter. change (xb C) with c.
    pose proof (idx_entry_check 0 gd ms sh s a Hi) as IE. fold c in IE.
    destruct (verdict_in 0 gd ms sh s d a Hfc Hd Hi) as (s1 & tr & sv & EC). fold c in EC. rewrite EC in *.
    rewrite (x_check_rstack_ok 0 gd ms sh s _ Hi).
    pose proof (enter_in 0 gd ms sh s d a t Hfc Hen Hd Hi) as EI. fold c in EI. rewrite EI. cbn [stack].
    assert (Hn : norecord (f_flags (newframe sh a t (ridx s) d)) = false) by reflexivity.
    assert (Hdi : disabled (f_flags (newframe sh a t (ridx s) d)) = false) by reflexivity.
    rewrite Hn, Hdi, IE. cbn zeta.
    assert (Same : push (x_watch C (newframe sh a t (ridx s) d) (idx s) o (x_first C X o))
                     (if read_of C a =? 0 then fxa (match shp c with PG => o_asz o | CYG => None end)
                      else save_trigger_read C (newframe sh a t (ridx s) d) o false
                             (fxa (match shp c with PG => o_asz o | CYG => None end)))
                   = push (x_watch C (newframe sh a t (ridx s) d) (idx s) o (x_first C X o)) (fxof C sh a t o)).
    { f_equal. change (shp c) with sh. apply entry_pass; [reflexivity|reflexivity|exact Hasz]. }
    revert Same. destruct (shp c); intro Same; exact Same.
  Qed.

  Lemma s_leave_rec s X w a t0 o0 r d t1 o1 anc axs dd :
    stack s = nf sh w a t0 r d :: anc -> xs X = fxof C sh a t0 o0 :: axs ->
    fc s = fcd dd -> enabled s = true -> t0 < t1 -> t1 < 18446744073709551616 -> asz_ok (o_asz o0) ->
    exists x1, (x_evs x1 = reads C a t0 o0 ++ diffs C a t1 o0 o1 /\ x_nent x1 = length (reads C a t0 o0)) /\
      x_leave C s X t1 o1 =
      (let X1 := x_watch C (set_end (nf sh w a t0 r d) t1) (N.of_nat (length anc)) o1 (set_xs X axs) in
       let '(its, p') := x_rtd (set_end (nf sh w a t0 r d) t1) x1 anc axs (pend X1) in emit X1 its p').
  Proof.
    intros Hst Hxs Hfc Hen Ht Hlt Hasz.
    set (top1 := set_end (nf sh w a t0 r d) t1).
    exists (if x_read (fxof C sh a t0 o0) then save_trigger_read C top1 o1 true (fxof C sh a t0 o0) else fxof C sh a t0 o0).
    split.
    - split; [|destruct (x_read (fxof C sh a t0 o0)); reflexivity].
      apply exit_pass; [|subst top1; destruct w; reflexivity|exact Hasz].
      subst top1. unfold ts_of. cbn [set_end f_end]. assert (E : (t1 =? 0) = false) by (apply N.eqb_neq; lia).
      rewrite E. reflexivity.
    - unfold x_leave. change (xb C) with c. rewrite Hst, Hxs. cbn [hd tl].
      assert (Hg : f_ghost (nf sh w a t0 r d) = false) by (destruct w; reflexivity). rewrite Hg.
      assert (Hnr : norecord (f_flags (nf sh w a t0 r d)) = false) by (destruct w; reflexivity).
      assert (Htop : match shp c with
                     | PG => set_end (nf sh w a t0 r d) t1
                     | CYG => if norecord (f_flags (nf sh w a t0 r d)) then nf sh w a t0 r d
                              else set_end (nf sh w a t0 r d) t1
                     end = top1) by (rewrite Hnr; destruct (shp c); reflexivity).
      rewrite Htop.
      assert (Hnr' : norecord (f_flags top1) = false) by exact Hnr. rewrite Hnr'.
      rewrite Hen. cbn [negb].
      pose proof (exit_cond_plain 0 gd ms sh s w a t0 r d t1 dd Hfc) as EC. fold c in EC. fold top1 in EC.
      rewrite EC by lia.
      assert (E0 : (0 <=? t1 - t0) = true) by (apply N.leb_le; lia). rewrite E0. cbn [orb]. reflexivity.
  Qed.
  Lemma take_eq_pass t0 t1 rs ds : Forall (fun e => e_time e = t0) rs -> Forall (fun e => e_time e = t1) ds ->
    take_eq t0 (firstn (length rs) (rs ++ ds)) = rs /\
    filter (fun e => e_time e =? t1) (skipn (length rs) (rs ++ ds)) = ds.
  Proof.
    intros Hr Hd. rewrite firstn_app, skipn_app, Nat.sub_diag, firstn_all, skipn_all. cbn [firstn skipn app].
    rewrite app_nil_r. split.
    - induction Hr as [|e r He _ IH]; [reflexivity|]. cbn [take_eq]. rewrite He, N.eqb_refl, IH. reflexivity.
    - induction Hd as [|e d He _ IH]; [reflexivity|]. cbn [filter]. rewrite He, N.eqb_refl, IH. reflexivity.
  Qed.

  Lemma x_rtd_rec w a t0 r d t1 x1 rs ds anc axs P :
    t0 < t1 -> x_evs x1 = rs ++ ds /\ x_nent x1 = length rs ->
    Forall (fun e => e_time e = t0) rs -> Forall (fun e => e_time e = t1) ds ->
    Forall (fun a => atime a < t1) P ->
    x_rtd (set_end (nf sh w a t0 r d) t1) x1 anc axs P =
    if w then (map IE (map a_ev P) ++ map IE ds ++ [IR {| r_time := t1; r_type := EXIT; r_depth := r; r_addr := a |}], [])
    else let '(its, p1) := xflush_anc anc axs P in
         let '(fl, p2) := pop_lt t0 p1 in
         (its ++ map IE fl ++ [IR {| r_time := t0; r_type := ENTRY; r_depth := r; r_addr := a |}] ++ map IE rs ++
          map IE (map a_ev p2) ++ map IE ds ++ [IR {| r_time := t1; r_type := EXIT; r_depth := r; r_addr := a |}], []).
  Proof.
    intros Ht [Hev Hn] Hr Hd HP.
    destruct (take_eq_pass t0 t1 rs ds) as [Htk Hfl]; [exact Hr|exact Hd|].
    set (top1 := set_end (nf sh w a t0 r d) t1).
    unfold x_rtd.
    assert (Hw : written (f_flags top1) = w) by (subst top1; destruct w; reflexivity). rewrite Hw.
    assert (Hsk : skip top1 = false) by (subst top1; destruct w; reflexivity). rewrite Hsk.
    assert (Hend : (f_end top1 =? 0) = false) by (subst top1; cbn [set_end f_end]; apply N.eqb_neq; lia). rewrite Hend.
    assert (Hs0 : f_start top1 = t0) by (subst top1; destruct w; reflexivity).
    assert (He1 : f_end top1 = t1) by reflexivity.
    assert (Hent : entry_rec top1 = {| r_time := t0; r_type := ENTRY; r_depth := r; r_addr := a |})
      by (subst top1; destruct w; reflexivity).
    assert (Hext : exit_rec top1 = {| r_time := t1; r_type := EXIT; r_depth := r; r_addr := a |})
      by (subst top1; destruct w; reflexivity).
    destruct w; cbn [orb].
    - unfold x_exit. rewrite He1, (pop_lt_all t1 P HP), Hn, Hev, Hfl, Hext. cbn [app]. reflexivity.
    - pose proof (Forall_xflush _ anc axs P HP) as HP1.
      destruct (xflush_anc anc axs P) as [its p1]. cbn [snd] in HP1.
      unfold x_entry. rewrite Hs0.
      pose proof (Forall_pop_lt _ t0 p1 HP1) as HP2.
      destruct (pop_lt t0 p1) as [fl p2]. cbn [snd] in HP2.
      unfold x_exit. rewrite He1, (pop_lt_all t1 p2 HP2), Hn, Hev, Htk, Hfl, Hent, Hext.
      rewrite <- !app_assoc. reflexivity.
  Qed.

  (* ---------------------------------------------------------------- the invariant *)
  Notation ocall := (N * N * oval)%type.
  Fixpoint mkstack (stk : list ocall) (k : nat) : list frame :=
    match stk with
    | [] => []
    | (a, t, o) :: r => nf sh (Nat.eqb k 0) a t (N.of_nat (length r)) (N.of_nat (length r)) :: mkstack r (pred k)
    end.
  Definition mkxs (stk : list ocall) : list fx := map (fun q : ocall => let '(a, t, o) := q in fxof C sh a t o) stk.

  Lemma mkstack_length stk : forall k, length (mkstack stk k) = length stk.
  Proof. induction stk as [|[[a t] o] r IH]; intro k; [reflexivity|]. cbn [mkstack length]. rewrite IH. reflexivity. Qed.

  Lemma flush_mkstack stk : forall k, fst (flush_anc (mkstack stk k)) = mkstack stk 0.
  Proof.
    induction stk as [|[[a t] o] r IH]; intro k; [reflexivity|]. cbn [mkstack flush_anc].
    destruct k as [|k]; cbn [Nat.eqb pred].
    - assert (W : written (f_flags (nf sh true a t (N.of_nat (length r)) (N.of_nat (length r)))) = true) by reflexivity.
      rewrite W. reflexivity.
    - assert (W : written (f_flags (nf sh false a t (N.of_nat (length r)) (N.of_nat (length r)))) = false) by reflexivity.
      rewrite W. specialize (IH k). destruct (flush_anc (mkstack r k)) as [rest' recs]. cbn [fst] in *.
      assert (S : skip (nf sh false a t (N.of_nat (length r)) (N.of_nat (length r))) = false) by reflexivity.
      rewrite S. cbn [fst]. rewrite IH. reflexivity.
  Qed.

  Lemma xflush_mkstack0 stk axs p : xflush_anc (mkstack stk 0) axs p = ([], p).
  Proof. destruct stk as [|[[a t] o] r]; reflexivity. Qed.

  Lemma starts_mkstack T stk : Forall (fun q : ocall => let '(a, t, o) := q in t <= T) stk -> forall k, starts_le T (mkstack stk k).
  Proof.
    induction 1 as [|[[a t] o] r Hq _ IH]; intro k; [exact I|]. cbn [mkstack starts_le]. right. split; [|apply IH].
    destruct (Nat.eqb k 0); exact Hq.
  Qed.

  Record Inv (s : st) (X : xpart) (stk : list ocall) (k : nat) (tl : N) : Prop := {
    i_fc : fc s = fcd (N.of_nat (length stk));
    i_en : enabled s = true;
    i_ridx : ridx s = N.of_nat (length stk);
    i_stack : stack s = mkstack stk k;
    i_xs : xs X = mkxs stk;
    i_times : Forall (fun a => atime a <= tl + 1) (pend X);
    i_starts : Forall (fun q : ocall => let '(a, t, o) := q in t <= tl) stk;
    i_asz : Forall (fun q : ocall => let '(a, t, o) := q in asz_ok (o_asz o)) stk;
    i_init : stk <> [] -> (wc || wv) = true -> w_inited X = true;
    i_k : (k <= length stk)%nat;
    i_pend0 : k = 0%nat -> pend X = []
  }.

  Definition wev (a : aev) : oitem := oideal (IE (a_ev a)).
  Definition virt (s : st) (X : xpart) : list oitem :=
    map oideal (xout X) ++ map oideal (fst (xflush_anc (stack s) (xs X) (pend X)))
    ++ map wev (snd (xflush_anc (stack s) (xs X) (pend X))).

  (* well-formed hook sequences: nesting, limits, hooks at least 2 ns apart *)
  Fixpoint wf (es : list xev) (n : nat) (tl : N) : Prop :=
    match es with
    | [] => True
    | XEnter a t o :: r => tl + 2 <= t /\ t + 2 < W64 /\ N.of_nat n < gd /\ N.of_nat n < ms /\ asz_ok (o_asz o) /\ wf r (S n) t
    | XLeave t o :: r => match n with
                         | O => False
                         | S m => tl + 2 <= t /\ t + 2 < W64 /\ wf r m t
                         end
    end.

  (* what save_watchpoint appends, with its stamp *)
  Definition stamp (inited : bool) (t : N) : N := ((if inited then t else (t + 2) mod W64) + (W64 - 1)) mod W64.
  Lemma x_watch_new f pos o X :
    exists app, pend (x_watch C f pos o X) = pend X ++ app /\
                Forall (fun a => atime a = stamp (w_inited X) (ts_of f)) app /\
                xs (x_watch C f pos o X) = xs X /\ xout (x_watch C f pos o X) = xout X /\
                ((wc || wv) = true -> w_inited (x_watch C f pos o X) = true) /\
                ((wc || wv) = false -> x_watch C f pos o X = X).
  Proof.
    unfold x_watch. change (wp_cpu C) with wc. change (wp_var C) with wv.
    destruct (wc || wv) eqn:EW; cbn [negb].
    2:{ exists []. rewrite app_nil_r. repeat split; try constructor; try reflexivity. discriminate. }
    cbn [pend xs xout w_inited]. unfold stamp, atime.
    match goal with |- context [if ?c1 then pend X ++ [?e1] else pend X] => destruct c1; set (E1 := e1) end.
    - match goal with |- context [if ?c2 then (pend X ++ [E1]) ++ [?e2] else _] => destruct c2; set (E2 := e2) end.
      + exists [E1; E2]. rewrite <- app_assoc. cbn [app].
        destruct (w_inited X); cbn [negb]; repeat split; repeat constructor; discriminate.
      + exists [E1]. destruct (w_inited X); cbn [negb]; repeat split; repeat constructor; discriminate.
    - match goal with |- context [if ?c2 then pend X ++ [?e2] else _] => destruct c2; set (E2 := e2) end.
      + exists [E2]. destruct (w_inited X); cbn [negb]; repeat split; repeat constructor; discriminate.
      + exists []. rewrite app_nil_r. repeat split; try constructor; discriminate.
  Qed.

  Lemma stamp_inited t : 1 <= t -> t + 2 < W64 -> stamp true t = t - 1.
  Proof. intros H1 H2. unfold stamp. apply (proj1 (watch_stamp t H1 H2)). Qed.
  Lemma stamp_first t : 1 <= t -> t + 2 < W64 -> stamp false t = t + 1.
  Proof. intros H1 H2. unfold stamp. apply (proj2 (watch_stamp t H1 H2)). Qed.

  Lemma of_nat_S n : N.of_nat (S n) = N.of_nat n + 1.
  Proof. lia. Qed.

  Definition chunk_enter (X : xpart) (n : nat) (a t : N) (o : oval) : list oitem :=
    let W0 := x_first C X o in
    let W1 := x_watch C (dummy_frame t) (N.of_nat n) o W0 in
    let new := map (fun e => hitem (IE (a_ev e))) (skipn (length (pend W0)) (pend W1)) in
    let rc := OR (t, UFTRACE_ENTRY, RECORD_MAGIC, N.of_nat n, a) in
    let rd := map (fun e => hitem (IE e)) (reads C a t o) in
    if w_inited W0 then new ++ [rc] ++ rd else [rc] ++ rd ++ new.

  Lemma skipn_app_exact {A} (l1 l2 : list A) : skipn (length l1) (l1 ++ l2) = l2.
  Proof. induction l1; [reflexivity|]. cbn. assumption. Qed.

  Lemma step_enter s hk0 X stk k tl a t o :
    Inv s X stk k tl -> tl + 2 <= t -> t + 2 < W64 -> N.of_nat (length stk) < gd -> N.of_nat (length stk) < ms ->
    asz_ok (o_asz o) ->
    exists s' X',
      xdstep C (((s, repeat true (length stk) ++ hk0) : dstate), X) (XEnter a t o)
        = (((s', repeat true (S (length stk)) ++ hk0) : dstate), X') /\
      Inv s' X' ((a, t, o) :: stk) (S k) t /\
      wpart X' = wpart (x_watch C (dummy_frame t) (N.of_nat (length stk)) o (x_first C X o)) /\
      virt s' X' = virt s X ++ chunk_enter X (length stk) a t o.
  Proof.
    intros [Ifc Ien Iri Ist Ixs Iti Ista Iasz Iini Ik Ip0] Ht Hlt Hgd Hms Hasz.
    set (n := length stk) in *. set (d := N.of_nat n) in *.
    assert (Hidx : idx s = d) by (unfold idx; rewrite Ist, mkstack_length; reflexivity).
    assert (Hi : idx s < ms) by (rewrite Hidx; exact Hms).
    cbn [xdstep bev dstep]. change (xb C) with c.
    pose proof (enter_in 0 gd ms sh s d a t Ifc Ien Hgd Hi) as EI. fold c in EI. rewrite EI.
    pose proof (hooked_in 0 gd ms sh s d a Ifc Hgd Hi) as HI. fold c in HI. rewrite HI.
    rewrite (s_enter_in s X d a t o Ifc Ien Hgd Hi Hasz).
    destruct (first_same 0 gd ms sh rd pm wc wv X o) as (FP & FO & FS). fold C in FP, FO, FS.
    set (X0 := x_first C X o) in *.
    assert (Hts : ts_of (newframe sh a t (ridx s) d) = ts_of (dummy_frame t)) by reflexivity.
    rewrite (x_watch_ts C _ _ (idx s) o X0 Hts), Hidx.
    destruct (x_watch_new (dummy_frame t) d o X0) as (nw & Hp & Hta & Hxs & Hxo & Hin & Hoff).
    assert (T : ts_of (dummy_frame t) = t) by reflexivity. rewrite T in Hta. clear T.
    set (X1 := x_watch C (dummy_frame t) d o X0) in *.
    eexists. eexists. split; [reflexivity|]. split; [|split].
    - (* the invariant *)
      constructor; cbn [fc enabled ridx stack push set_xs xs pend w_inited length].
      + rewrite of_nat_S. reflexivity.
      + reflexivity.
      + rewrite Iri, of_nat_S. reflexivity.
      + cbn [mkstack Nat.eqb pred]. rewrite Iri, Ist. reflexivity.
      + rewrite Hxs, FS, Ixs. reflexivity.
      + rewrite Hp, FP. apply Forall_app. split.
        * eapply Forall_impl; [|exact Iti]. cbn. intros; lia.
        * eapply Forall_impl; [|exact Hta]. cbn beta. intros a0 H0. rewrite H0.
          destruct (w_inited X0); [rewrite stamp_inited by lia|rewrite stamp_first by lia]; lia.
      + constructor; [lia|]. eapply Forall_impl; [|exact Ista]. intros [[a0 t0] o0]. lia.
      + constructor; [exact Hasz|exact Iasz].
      + intros _ Hw. apply Hin. exact Hw.
      + fold n. lia.
      + discriminate.
    - reflexivity.
    - (* the virtual output grows by this hook's chunk *)
      unfold virt. cbn [stack xs pend xout push set_xs].
      rewrite Hxo, FO, Hxs, FS, Hp, FP.
      change (newframe sh a t (ridx s) d) with (nf sh false a t (ridx s) d).
      cbn [xflush_anc hd List.tl].
      assert (Hwr : written (f_flags (nf sh false a t (ridx s) d)) = false) by reflexivity. rewrite Hwr.
      assert (Hsk : skip (nf sh false a t (ridx s) d) = false) by reflexivity. rewrite Hsk.
      assert (Hge : Forall (fun a0 => tl <= atime a0) nw).
      { eapply Forall_impl; [|exact Hta]. cbn beta. intros a0 H0. rewrite H0.
        destruct (w_inited X0); [rewrite stamp_inited by lia|rewrite stamp_first by lia]; lia. }
      rewrite (xflush_anc_app tl nw Hge (stack s) (xs X) (pend X)) by (rewrite Ist; apply starts_mkstack; exact Ista).
      pose proof (Forall_xflush _ (stack s) (xs X) (pend X) Iti) as HP1.
      destruct (xflush_anc (stack s) (xs X) (pend X)) as [its0 p10]. cbn [fst snd] in *.
      unfold x_entry.
      assert (Hs0 : f_start (nf sh false a t (ridx s) d) = t) by reflexivity. rewrite Hs0.
      assert (TK : take_eq t (firstn (x_nent (fxof C sh a t o)) (x_evs (fxof C sh a t o))) = reads C a t o)
        by (cbn [fxof x_evs x_nent]; rewrite firstn_all, reads_eq; apply take_eq_all).
      rewrite TK.
      assert (Hlt10 : Forall (fun a0 => atime a0 < t) p10)
        by (eapply Forall_impl; [|exact HP1]; cbn; intros; lia).
      unfold chunk_enter. fold X0. fold d. fold X1. rewrite Hp, skipn_app_exact.
      assert (Hent : oideal (IR (entry_rec (nf sh false a t (ridx s) d))) = OR (t, UFTRACE_ENTRY, RECORD_MAGIC, d, a))
        by (rewrite Iri; reflexivity).
      destruct (w_inited X0) eqn:EI0.
      + (* not the first hook: the new events are stamped t - 1 and go in front of the record *)
        rewrite stamp_inited in Hta by lia.
        assert (Hall : Forall (fun a0 => atime a0 < t) (p10 ++ nw)).
        { apply Forall_app. split; [exact Hlt10|]. eapply Forall_impl; [|exact Hta]. cbn. intros a0 H0. rewrite H0. lia. }
        rewrite (pop_lt_all t (p10 ++ nw) Hall). cbn [fst snd map app].
        rewrite !map_app, !map_map. cbn [map]. rewrite Hent. unfold wev, hitem.
        rewrite <- !app_assoc. cbn [app]. rewrite ?app_nil_r, ?map_map. reflexivity.
      + (* the thread's first hook: stamped t + 1, behind the record and its read events *)
        rewrite stamp_first in Hta by lia.
        assert (Hge2 : Forall (fun a0 => t <= atime a0) nw).
        { eapply Forall_impl; [|exact Hta]. cbn. intros a0 H0. rewrite H0. lia. }
        rewrite (pop_lt_app t nw Hge2 p10), (pop_lt_all t p10 Hlt10). cbn [fst snd map app].
        rewrite !map_app, !map_map. cbn [map]. rewrite Hent. unfold wev, hitem.
        rewrite <- !app_assoc. cbn [app]. rewrite ?app_nil_r, ?map_map. reflexivity.
  Qed.

  Definition chunk_leave (X : xpart) (n' : nat) (a : N) (o0 : oval) (t : N) (o : oval) : list oitem :=
    let W1 := x_watch C (dummy_frame t) (N.of_nat n') o X in
    let new := map (fun e => hitem (IE (a_ev e))) (skipn (length (pend X)) (pend W1)) in
    new ++ map (fun e => hitem (IE e)) (diffs C a t o0 o) ++ [OR (t, UFTRACE_EXIT, RECORD_MAGIC, N.of_nat n', a)].

  Lemma reads_time a t o : Forall (fun e => e_time e = t) (reads C a t o).
  Proof. unfold reads. induction (ekinds C a); constructor; [reflexivity|assumption]. Qed.
  Lemma diffs_time a t o0 o1 : Forall (fun e => e_time e = t) (diffs C a t o0 o1).
  Proof. unfold diffs. induction (ekinds C a); constructor; [reflexivity|assumption]. Qed.

  Lemma step_leave s hk0 X a t0 o0 stk k tl t o :
    Inv s X ((a, t0, o0) :: stk) k tl -> tl + 2 <= t -> t + 2 < W64 ->
    exists s' X',
      xdstep C (((s, repeat true (S (length stk)) ++ hk0) : dstate), X) (XLeave t o)
        = (((s', repeat true (length stk) ++ hk0) : dstate), X') /\
      Inv s' X' stk 0 t /\
      wpart X' = wpart (set_pend (x_watch C (dummy_frame t) (N.of_nat (length stk)) o X) []) /\
      virt s' X' = virt s X ++ chunk_leave X (length stk) a o0 t o.
  Proof.
    intros [Ifc Ien Iri Ist Ixs Iti Ista Iasz Iini Ik Ip0] Ht Hlt.
    set (n := length stk) in *. set (d := N.of_nat n) in *.
    cbn [length] in Ifc, Iri. cbn [mkstack] in Ist. cbn [mkxs map] in Ixs. fold (mkxs stk) in Ixs.
    fold n in Ist. fold d in Ist.
    set (w := Nat.eqb k 0) in *. set (anc := mkstack stk (pred k)) in *.
    inversion Ista as [|q l Ht0 Ista']; subst q l. inversion Iasz as [|q l Hasz Iasz']; subst q l.
    assert (Hlen : length anc = n) by (subst anc; apply mkstack_length).
    assert (Hlt' : t < 18446744073709551616) by (unfold W64 in Hlt; lia).
    cbn [xdstep bev dstep repeat app]. change (xb C) with c.
    assert (Hr : ridx s = d + 1) by (rewrite Iri, of_nat_S; reflexivity).
    pose proof (leave_in 0 gd ms sh s w a t0 d d t anc (N.of_nat (S n)) Ist Ifc Ien Hr) as LI. fold c in LI.
    rewrite LI by lia. clear LI.
    assert (E0 : (0 <=? t - t0) = true) by (apply N.leb_le; lia). rewrite E0. cbn [orb].
    destruct (s_leave_rec s X w a t0 o0 d d t o anc (mkxs stk) (N.of_nat (S n)) Ist Ixs Ifc Ien) as (x1 & Hev & XL);
      [lia|lia|exact Hasz|].
    rewrite XL. clear XL. rewrite Hlen. fold d.
    assert (Hts : ts_of (set_end (nf sh w a t0 d d) t) = ts_of (dummy_frame t)).
    { unfold ts_of. cbn [set_end f_end dummy_frame]. assert (E : (t =? 0) = false) by (apply N.eqb_neq; lia).
      rewrite E. reflexivity. }
    rewrite (x_watch_ts C _ _ d o (set_xs X (mkxs stk)) Hts).
    destruct (x_watch_new (dummy_frame t) d o (set_xs X (mkxs stk))) as (nw & Hp & Hta & Hxs & Hxo & Hin & Hoff).
    assert (T : ts_of (dummy_frame t) = t) by reflexivity. rewrite T in Hta. clear T.
    cbn [set_xs pend xs xout w_inited] in Hp, Hta, Hxs, Hxo.
    assert (Hpe : pend (x_watch C (dummy_frame t) d o X) = pend (x_watch C (dummy_frame t) d o (set_xs X (mkxs stk)))).
    { assert (Wp : wpart X = wpart (set_xs X (mkxs stk))) by reflexivity.
      pose proof (x_watch_wpart C (dummy_frame t) d o _ _ Wp) as Q. unfold wpart in Q. injection Q as Q _ _ _ _ _. exact Q. }
    set (X1 := x_watch C (dummy_frame t) d o (set_xs X (mkxs stk))) in *.
    assert (Hnw : Forall (fun a0 => atime a0 = t - 1) nw).
    { destruct (wc || wv) eqn:EW.
      - rewrite (Iini ltac:(discriminate) eq_refl) in Hta. rewrite stamp_inited in Hta by lia. exact Hta.
      - assert (Q : pend X1 = pend X) by (rewrite (Hoff eq_refl); reflexivity).
        rewrite Q in Hp. rewrite <- (app_nil_r (pend X)) in Hp at 1. apply app_inv_head in Hp. subst nw. constructor. }
    assert (HP : Forall (fun a0 => atime a0 < t) (pend X1)).
    { rewrite Hp. apply Forall_app. split.
      - eapply Forall_impl; [|exact Iti]. cbn beta. intros; lia.
      - eapply Forall_impl; [|exact Hnw]. cbn beta. intros a0 H0. rewrite H0. lia. }
    cbn zeta. rewrite (x_rtd_rec w a t0 d d t x1 (reads C a t0 o0) (diffs C a t o0 o) anc (mkxs stk) (pend X1)
               ltac:(lia) Hev (reads_time a t0 o0) (diffs_time a t o0 o) HP).
    assert (Hge : Forall (fun a0 => tl <= atime a0) nw).
    { eapply Forall_impl; [|exact Hnw]. cbn beta. intros a0 H0. rewrite H0. lia. }
    assert (Hge0 : Forall (fun a0 => t0 <= atime a0) nw).
    { eapply Forall_impl; [|exact Hnw]. cbn beta. intros a0 H0. rewrite H0. lia. }
    assert (Hstack' : (if w then anc else fst (flush_anc anc)) = mkstack stk 0).
    { subst w anc. destruct k as [|k']; cbn [Nat.eqb pred]; [reflexivity|apply flush_mkstack]. }
    unfold chunk_leave. fold d. rewrite Hpe, Hp, skipn_app_exact.
    assert (Hanc : starts_le tl anc) by (subst anc; apply starts_mkstack; exact Ista').
    clearbody w anc.
    destruct w.
    - (* the frame's ENTRY is in the stream already *)
      eexists. eexists. split; [reflexivity|]. split; [|split].
      + constructor; cbn [fc enabled ridx stack emit xs pend w_inited].
        * reflexivity.
        * reflexivity.
        * reflexivity.
        * exact Hstack'.
        * rewrite Hxs. reflexivity.
        * constructor.
        * eapply Forall_impl; [|exact Ista']. intros [[a1 t1] o1]. lia.
        * exact Iasz'.
        * intros _ Hw. apply Hin. exact Hw.
        * lia.
        * reflexivity.
      + unfold wpart. cbn [emit set_pend pend w_inited w_cpu v_copy g_init g_val].
        assert (Wp : wpart X = wpart (set_xs X (mkxs stk))) by reflexivity.
        pose proof (x_watch_wpart C (dummy_frame t) d o _ _ Wp) as Q. fold X1 in Q. unfold wpart in Q.
        injection Q as _ Q1 Q2 Q3 Q4 Q5. rewrite Q1, Q2, Q3, Q4, Q5. reflexivity.
      + unfold virt. cbn [stack emit xs pend xout]. rewrite Hstack', xflush_mkstack0. cbn [fst snd map app].
        rewrite Ist, Ixs. subst d n. cbn [xflush_anc].
        repeat match goal with |- context [written (f_flags ?f)] => change (written (f_flags f)) with true end.
        cbn [fst snd map].
        rewrite Hxo, ?Hp. rewrite !map_app, !map_map. cbn [map]. unfold wev, hitem.
        rewrite <- !app_assoc. cbn [app]. rewrite ?app_nil_r, ?map_map. reflexivity.
    - (* the frame (and maybe its ancestors) is written now *)
      rewrite ?Hp.
      rewrite (xflush_anc_app tl nw Hge anc (mkxs stk) (pend X)) by exact Hanc.
      pose proof (Forall_xflush _ anc (mkxs stk) (pend X) Iti) as HP1.
      destruct (xflush_anc anc (mkxs stk) (pend X)) as [its0 p10] eqn:EF. cbn [fst snd] in *.
      rewrite (pop_lt_app t0 nw Hge0 p10).
      destruct (pop_lt t0 p10) as [fl0 p20] eqn:EP. cbn [fst snd].
      eexists. eexists. split; [reflexivity|]. split; [|split].
      + constructor; cbn [fc enabled ridx stack emit xs pend w_inited].
        * reflexivity.
        * reflexivity.
        * reflexivity.
        * exact Hstack'.
        * rewrite Hxs. reflexivity.
        * constructor.
        * eapply Forall_impl; [|exact Ista']. intros [[a1 t1] o1]. lia.
        * exact Iasz'.
        * intros _ Hw. apply Hin. exact Hw.
        * lia.
        * reflexivity.
      + unfold wpart. cbn [emit set_pend pend w_inited w_cpu v_copy g_init g_val].
        assert (Wp : wpart X = wpart (set_xs X (mkxs stk))) by reflexivity.
        pose proof (x_watch_wpart C (dummy_frame t) d o _ _ Wp) as Q. fold X1 in Q. unfold wpart in Q.
        injection Q as _ Q1 Q2 Q3 Q4 Q5. rewrite Q1, Q2, Q3, Q4, Q5. reflexivity.
      + unfold virt. cbn [stack emit xs pend xout]. rewrite Hstack', xflush_mkstack0. cbn [fst snd map app].
        rewrite Ist, Ixs. subst d n. cbn [xflush_anc hd List.tl].
        repeat match goal with |- context [written (f_flags ?f)] => change (written (f_flags f)) with false end.
        repeat match goal with |- context [skip ?f] => change (skip f) with false end.
        cbn iota. rewrite EF. unfold x_entry.
        repeat match goal with |- context [f_start ?f] => change (f_start f) with t0 end.
        rewrite EP. cbn [fst snd].
        assert (TK : take_eq t0 (firstn (x_nent (fxof C sh a t0 o0)) (x_evs (fxof C sh a t0 o0))) = reads C a t0 o0)
          by (cbn [fxof x_evs x_nent]; rewrite firstn_all, reads_eq; apply take_eq_all).
        rewrite TK, Hxo. rewrite !map_app, !map_map. cbn [map]. unfold wev, hitem.
        rewrite <- !app_assoc. cbn [app]. rewrite ?app_nil_r, ?map_app, ?map_map. cbn [map app].
        rewrite ?map_app, ?map_map. reflexivity.
  Qed.

  (* the specification depends on the watch part of its state only *)
  Lemma hspec_wpart : forall es W W' stk, wpart W = wpart W' -> hspec_go C es W stk = hspec_go C es W' stk.
  Proof.
    induction es as [|e r IH]; intros W W' stk H; [reflexivity|]. destruct e as [a t o|t o]; cbn [hspec_go].
    - pose proof (x_first_wpart C o W W' H) as H0.
      pose proof (x_watch_wpart C (dummy_frame t) (N.of_nat (length stk)) o _ _ H0) as H1.
      rewrite (IH _ _ _ H1). unfold wpart in H0, H1.
      injection H0 as P0 I0 _ _ _ _. injection H1 as P1 _ _ _ _ _. rewrite P0, I0, P1. reflexivity.
    - destruct stk as [|[[a t0] o0] stk']; [reflexivity|].
      pose proof (x_watch_wpart C (dummy_frame t) (N.of_nat (length stk')) o _ _ H) as H1.
      assert (H2 : wpart (set_pend (x_watch C (dummy_frame t) (N.of_nat (length stk')) o W) []) =
                   wpart (set_pend (x_watch C (dummy_frame t) (N.of_nat (length stk')) o W') [])).
      { unfold wpart in *. cbn [set_pend pend w_inited w_cpu v_copy g_init g_val].
        injection H1 as _ Q1 Q2 Q3 Q4 Q5. rewrite Q1, Q2, Q3, Q4, Q5. reflexivity. }
      rewrite (IH _ _ _ H2). unfold wpart in H, H1. injection H as P _ _ _ _ _. injection H1 as P1 _ _ _ _ _.
      rewrite P, P1. reflexivity.
  Qed.

  Fixpoint endn (es : list xev) (n : nat) : nat :=
    match es with
    | [] => n
    | XEnter _ _ _ :: r => endn r (S n)
    | XLeave _ _ :: r => endn r (pred n)
    end.

  Lemma stream_go : forall es s hk0 X stk k tl, Inv s X stk k tl -> wf es (length stk) tl ->
    exists s' X' stk' k' tl',
      xexec C es (((s, repeat true (length stk) ++ hk0) : dstate), X)
        = (((s', repeat true (length stk') ++ hk0) : dstate), X') /\
      Inv s' X' stk' k' tl' /\ length stk' = endn es (length stk) /\
      virt s' X' = virt s X ++ hspec_go C es X stk.
  Proof.
    induction es as [|e r IH]; intros s hk0 X stk k tl HI Hwf.
    - exists s, X, stk, k, tl. cbn [hspec_go endn]. rewrite app_nil_r. auto.
    - destruct e as [a t o|t o]; cbn [wf] in Hwf.
      + destruct Hwf as (Ht & Hlt & Hgd & Hms & Hasz & Hwf).
        destruct (step_enter s hk0 X stk k tl a t o HI Ht Hlt Hgd Hms Hasz) as (s1 & X1 & E1 & I1 & W1 & V1).
        destruct (IH s1 hk0 X1 ((a, t, o) :: stk) (S k) t I1 Hwf) as (s2 & X2 & stk2 & k2 & tl2 & E2 & I2 & L2 & V2).
        exists s2, X2, stk2, k2, tl2. split; [|split; [exact I2|split; [exact L2|]]].
        * cbn [xexec fold_left]. fold (xexec C r). rewrite E1. exact E2.
        * rewrite V2, V1, <- app_assoc. f_equal. cbn [hspec_go]. unfold chunk_enter.
          rewrite (hspec_wpart r X1 _ ((a, t, o) :: stk) W1). cbn zeta. reflexivity.
      + destruct stk as [|[[a t0] o0] stk']; [destruct Hwf|]. cbn [length] in Hwf. destruct Hwf as (Ht & Hlt & Hwf).
        destruct (step_leave s hk0 X a t0 o0 stk' k tl t o HI Ht Hlt) as (s1 & X1 & E1 & I1 & W1 & V1).
        destruct (IH s1 hk0 X1 stk' 0%nat t I1 Hwf) as (s2 & X2 & stk2 & k2 & tl2 & E2 & I2 & L2 & V2).
        exists s2, X2, stk2, k2, tl2. split; [|split; [exact I2|split; [exact L2|]]].
        * cbn [xexec fold_left length]. fold (xexec C r). rewrite E1. exact E2.
        * rewrite V2, V1, <- app_assoc. f_equal. cbn [hspec_go]. unfold chunk_leave.
          rewrite (hspec_wpart r X1 _ stk' W1). cbn zeta. rewrite <- !app_assoc. reflexivity.
  Qed.

  Lemma inv_init : Inv init xinit [] 0 0.
  Proof.
    constructor; try reflexivity; try constructor.
    - intro H. exfalso. apply H. reflexivity.
  Qed.

  (* the stream of a complete history (every call returned) *)
  Theorem stream_spec es : wf es 0 0 -> endn es 0 = 0%nat ->
    map oideal (xout (snd (xexec C es xstart))) = hspec C es.
  Proof.
    intros Hwf Hend.
    destruct (stream_go es init [] xinit [] 0%nat 0 inv_init Hwf) as (s' & X' & stk' & k' & tl' & E & I & L & V).
    cbn [length repeat app] in E, L. change xstart with (((init, @nil bool) : dstate), xinit). rewrite E. cbn [snd].
    rewrite Hend in L. destruct stk'; [|discriminate].
    destruct I as [_ _ _ Ist Ixs _ _ _ _ Ik Ip0]. cbn [length] in Ik. assert (k' = 0%nat) by lia. subst k'.
    unfold virt in V. rewrite Ist, Ixs, (Ip0 eq_refl) in V. cbn in V. rewrite !app_nil_r in V. exact V.
  Qed.
End stream.

(* non-vacuity: read= on f0, -W cpu and -W var, a nested call, hooks 2 ns apart *)
Definition sx_cfg : xcfg := xplainw 0 16 16 PG (fun a => if a =? 0 then TRIGGER_READ_PAGE_FAULT else 0) false true true.
Definition sx_o (pf : N) (cpu : Z) (v : N) : oval :=
  {| o_statm := [0; 0; 0]; o_pf := [0; pf]; o_cycle := [0; 0]; o_cache := [0; 0]; o_branch := [0; 0];
     o_cpu := cpu; o_var := v; o_asz := None |}.
Definition sx_run : list xev :=
  [XEnter 0 100 (sx_o 5 1 7); XEnter 256 102 (sx_o 6 2 7); XLeave 104 (sx_o 7 2 8); XLeave 200 (sx_o 9 3 7)].
Example stream_spec_example :
  wf 16 16 sx_run 0 0 /\ endn sx_run 0 = 0%nat /\
  hspec sx_cfg sx_run =
  [OR (100, 0, 5, 0, 0); OE 100 EVENT_ID_READ_PAGE_FAULT [0; 5]; OE 101 C17_EVENT_ID_WATCH_CPU [1];
   OE 101 C17_EVENT_ID_WATCH_CPU [2]; OR (102, 0, 5, 1, 256);
   OE 103 C17_EVENT_ID_WATCH_VAR [8]; OR (104, 1, 5, 1, 256);
   OE 199 C17_EVENT_ID_WATCH_CPU [3]; OE 199 C17_EVENT_ID_WATCH_VAR [7]; OE 200 EVENT_ID_DIFF_PAGE_FAULT [0; 4];
   OR (200, 1, 5, 0, 0)].
Proof.
  split; [|split; [reflexivity|vm_compute; reflexivity]].
  cbn [wf sx_run sx_o o_asz asz_ok length]. unfold W64. repeat split; lia.
Qed.
