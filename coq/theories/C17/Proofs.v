(* C17 proofs, collected: Drop (events vanish with a call that is not recorded), Erase (events never break the record stream, all configurations),
   Read (read/diff tree theorem for plain configurations), Watch (watch decisions), More (corollaries,
   refutations of the statements that are false of the faithful model, the overlap guard). *)
From Coq Require Import NArith ZArith List Bool Lia.
Import ListNotations.
Require Import UV.Gen.Consts UV.Gen.C17Consts UV.Mcount.Model UV.Mcount.Forest UV.C17.Model.
Require Export UV.C17.Erase UV.C17.Read UV.C17.Watch UV.C17.Drop UV.C17.More UV.C17.Small UV.C17.Room UV.C17.Stream UV.C17.Reader.
Local Open Scope N_scope.

(* the model's payload word counts are the sizes of the structs in utils/event.h, the table order and
   the ids are those of the current source (breaks when the source changes) *)
Lemma layout_sanity :
  table = [K_STATM; K_PF; K_CYCLE; K_CACHE; K_BRANCH] /\
  SIZEOF_PROC_STATM = 24 /\ SIZEOF_PAGE_FAULT = 16 /\ SIZEOF_PMU_CYCLE = 16 /\ SIZEOF_PMU_CACHE = 16 /\
  SIZEOF_PMU_BRANCH = 16 /\ EVTBUF_HDR = 16 /\ C17_MAX_EVENT = MAX_EVENT /\ C17_ARGBUF_SIZE = ARGBUF_SIZE /\
  NoDup (map id_read all_kinds ++ map id_diff all_kinds ++ [C17_EVENT_ID_WATCH_CPU; C17_EVENT_ID_WATCH_VAR]).
Proof.
  repeat split; try reflexivity.
  repeat (constructor; [cbn; intuition discriminate|]). constructor.
Qed.
