From Coq Require Import NArith ZArith List Bool Lia.
Import ListNotations.
Require Import UV.Gen.Consts UV.Gen.C17Consts UV.Mcount.Model UV.Mcount.Forest UV.C17.Model.
Local Open Scope N_scope.
Lemma table_is_all : table = [K_STATM; K_PF; K_CYCLE; K_CACHE; K_BRANCH].
Proof. reflexivity. Qed.
