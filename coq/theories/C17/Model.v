(* C17 - read-trigger and watchpoint events: extension of the libmcount hook automaton
   (UV.Mcount.Model) with

     the per-frame event area            save_trigger_read (read at entry, diff at exit, 5 kinds)
     the per-thread pending events       save_watchpoint   (cpu / var, <= MAX_EVENT pending, +-1 ns)
     the emission order                  record_event / record_ret_stack / record_trace_data
     dropping with a filtered call       mcount_exit_filter_record ("invalidate sync events")

   of libmcount/record.c and libmcount/mcount.c, AS THE CODE IS.  (Four defects found with this model were
   repaired in /repo: 7cf042b overlap guard, aa8baff thread's copy of a watched variable, 35535f9
   invalidation index, 197b449 allocation of the watch item.  The main definitions describe the repaired
   code; the [_legacy] definitions at the end keep the old behaviour for the [_legacy_refuted] theorems
   only - the tie never uses them.)

   Construction: the base machine [dstep] runs unchanged on the base state; the extension state
   [xpart] (one [fx] per shadow-stack frame, the pending queue, the watch state, the output with
   events) is computed next to it from the same pre-state.  Executable model and executable
   checkers only - no proofs in this file.

   Argument capture in the same frame: the SIZE of the argument data is an input of the entry hook
   ([o_asz]); save_trigger_read stores an event only where it stays above these bytes ([fits]).
   Not modelled: asynchronous (SDT) events (ASYNC_IDX), the argument/return-value bytes themselves (C09),
   threads sharing the global watch item, shmem buffer exhaustion.                                        *)
From Coq Require Import NArith ZArith List Bool.
Import ListNotations.
Require Import UV.Gen.Consts UV.Gen.C17Consts UV.Mcount.Model UV.Mcount.Forest UV.Mcount.Check.
Local Open Scope N_scope.

Definition W64 : N := 18446744073709551616.
(* uint64_t subtraction *)
Definition sub64 (a b : N) : N := (a + (W64 - b mod W64)) mod W64.

(* ---------------------------------------------------------------- read kinds (read_events[]) *)
Inductive kind := K_STATM | K_PF | K_CYCLE | K_CACHE | K_BRANCH.
Definition kind_eqb (a b : kind) : bool :=
  match a, b with
  | K_STATM, K_STATM | K_PF, K_PF | K_CYCLE, K_CYCLE | K_CACHE, K_CACHE | K_BRANCH, K_BRANCH => true
  | _, _ => false
  end.
Definition all_kinds : list kind := [K_STATM; K_PF; K_CYCLE; K_CACHE; K_BRANCH].
Definition kind_bit (k : kind) : N :=
  match k with
  | K_STATM => TRIGGER_READ_PROC_STATM | K_PF => TRIGGER_READ_PAGE_FAULT | K_CYCLE => TRIGGER_READ_PMU_CYCLE
  | K_CACHE => TRIGGER_READ_PMU_CACHE | K_BRANCH => TRIGGER_READ_PMU_BRANCH
  end.
Definition id_read (k : kind) : N :=
  match k with
  | K_STATM => EVENT_ID_READ_PROC_STATM | K_PF => EVENT_ID_READ_PAGE_FAULT | K_CYCLE => EVENT_ID_READ_PMU_CYCLE
  | K_CACHE => EVENT_ID_READ_PMU_CACHE | K_BRANCH => EVENT_ID_READ_PMU_BRANCH
  end.
Definition id_diff (k : kind) : N :=
  match k with
  | K_STATM => EVENT_ID_DIFF_PROC_STATM | K_PF => EVENT_ID_DIFF_PAGE_FAULT | K_CYCLE => EVENT_ID_DIFF_PMU_CYCLE
  | K_CACHE => EVENT_ID_DIFF_PMU_CACHE | K_BRANCH => EVENT_ID_DIFF_PMU_BRANCH
  end.
Definition is_pmu (k : kind) : bool := match k with K_STATM | K_PF => false | _ => true end.

(* the table in the order of read_events[] (generated from record.c) *)
Definition table : list kind :=
  flat_map (fun b => filter (fun k => kind_bit k =? b) all_kinds) READ_TABLE_ORDER.
(* kinds selected by a trigger's read mask, in table order:  if (!(type & red->type)) continue; *)
Definition kinds_of (mask : N) : list kind :=
  filter (fun k => negb (N.land mask (kind_bit k) =? 0)) table.

(* ---------------------------------------------------------------- what a hook observes *)
(* readings of the value sources at one hook: statm (vmsize, vmrss, shared - already in KB),
   page faults (major, minor), the three perf groups (two counters each), cpu number, watched variable *)
Record oval := { o_statm : list N; o_pf : list N; o_cycle : list N; o_cache : list N; o_branch : list N;
                o_cpu : Z; o_var : N;
                o_asz : option N }.   (* entry hooks: size of the argument data save_argument stores for this call
                                         (Some = MCOUNT_FL_ARGUMENT set; the data follows a 4-byte size word) *)

(* ---------------------------------------------------------------- configuration *)
Record xcfg := {
  xb : cfg;                       (* the base configuration *)
  read_of : N -> N;               (* tr->read of the function's trigger (0 = no TRIGGER_FL_READ) *)
  wp_cpu : bool; wp_var : bool;   (* mcount_watchpoints *)
  pmu_ok : bool                   (* perf_event_open works (else read_pmu_event fails: event skipped) *)
}.

(* red->save(): None = failure (the event is skipped) *)
Definition reading (C : xcfg) (o : oval) (k : kind) : option (list N) :=
  match k with
  | K_STATM => Some (o_statm o)
  | K_PF => Some (o_pf o)
  | K_CYCLE => if pmu_ok C then Some (o_cycle o) else None
  | K_CACHE => if pmu_ok C then Some (o_cache o) else None
  | K_BRANCH => if pmu_ok C then Some (o_branch o) else None
  end.

(* ---------------------------------------------------------------- events *)
(* data: the payload as 64-bit words (cpu: one word holding the 32-bit value; var: the value, the
   address word is canonicalised away by the driver) *)
Record fev := { e_time : N; e_id : N; e_data : list N }.
Record aev := { a_ev : fev; a_idx : N }.                 (* pending event + rstack index it belongs to *)

Inductive item := IR (r : rec) | IE (e : fev).
Definition erase (l : list item) : list rec :=
  flat_map (fun i => match i with IR r => [r] | IE _ => [] end) l.

(* per-frame extension: MCOUNT_FL_READ and the event area (oldest first = highest address first) *)
Record fx := { x_read : bool; x_evs : list fev;
               x_asz : option N;              (* MCOUNT_FL_ARGUMENT and the size word at the start of the frame buffer *)
               x_nent : nat }.                (* how many of the events the ENTRY pass stored (event->idx = 0); the
                                                 rest was stored by the exit pass (event->idx = 1) *)
Definition fxa (a : option N) : fx := {| x_read := false; x_evs := []; x_asz := a; x_nent := 0 |}.
Definition fx0 : fx := fxa None.

Record xpart := {
  xs : list fx;                   (* parallel to [stack] of the base state, top first *)
  pend : list aev;                (* mtdp->event[0 .. nr_events-1] *)
  w_inited : bool;                (* mtdp->watch.inited *)
  w_cpu : Z;                      (* mtdp->watch.cpu *)
  v_copy : option N;              (* the thread's copy of the watched variable (made by mcount_watch_setup at the
                                     thread's first hook, then the last value this thread has seen) *)
  g_init : bool; g_val : N;       (* the global watch item: inited, data (mcount_watch_update) *)
  xout : list item
}.
Definition xinit : xpart :=
  {| xs := []; pend := []; w_inited := false; w_cpu := (-1)%Z; v_copy := None; g_init := false; g_val := 0;
     xout := [] |}.

Definition set_xs (X : xpart) (l : list fx) : xpart :=
  {| xs := l; pend := pend X; w_inited := w_inited X; w_cpu := w_cpu X; v_copy := v_copy X;
     g_init := g_init X; g_val := g_val X; xout := xout X |}.
Definition emit (X : xpart) (its : list item) (p : list aev) : xpart :=
  {| xs := xs X; pend := p; w_inited := w_inited X; w_cpu := w_cpu X; v_copy := v_copy X;
     g_init := g_init X; g_val := g_val X; xout := xout X ++ its |}.
Definition set_pend (X : xpart) (p : list aev) : xpart :=
  {| xs := xs X; pend := p; w_inited := w_inited X; w_cpu := w_cpu X; v_copy := v_copy X;
     g_init := g_init X; g_val := g_val X; xout := xout X |}.

(* ---------------------------------------------------------------- save_trigger_read *)
Fixpoint map2 {A} (f : A -> A -> A) (l1 l2 : list A) : list A :=
  match l1, l2 with
  | a :: r1, b :: r2 => f a b :: map2 f r1 r2
  | _, _ => l1                     (* sizes always agree: both are struct uftrace_<kind> *)
  end.

(* get_event_pointer(ptr, 0..nr-1) walks from the lowest address = most recently added event *)
Definition find_old (evs : list fev) (id : N) : option fev := find (fun e => e_id e =? id) (rev evs).

Definition new_event (C : xcfg) (o : oval) (ts : N) (diff : bool) (evs : list fev) (k : kind) : option fev :=
  match reading C o k with
  | None => None
  | Some d =>
      if diff then
        match find_old evs (id_read k) with
        | Some old => Some {| e_time := ts; e_id := id_diff k; e_data := map2 sub64 d (e_data old) |}
        | None => Some {| e_time := ts; e_id := id_read k; e_data := d |}
        end
      else Some {| e_time := ts; e_id := id_read k; e_data := d |}
  end.

Fixpoint str_go (C : xcfg) (ks : list kind) (o : oval) (ts : N) (diff : bool) (evs : list fev) : list fev :=
  match ks with
  | [] => evs
  | k :: r => match new_event C o ts diff evs k with
              | None => str_go C r o ts diff evs
              | Some e => str_go C r o ts diff (evs ++ [e])
              end
  end.

(* rstack->end_time ?: rstack->start_time *)
Definition ts_of (f : frame) : N := if f_end f =? 0 then f_start f else f_end f.

(* ---- the frame buffer shared with the argument data: events grow down from ARGBUF_SIZE; before an event
   is stored (and before its source is read) the guard checks that it stays above the argument bytes:
       arg_data = argbuf;  if (flags & MCOUNT_FL_ARGUMENT) arg_data += 4 + <size word at argbuf>;
       event = ptr - evsize;  if (event < arg_data) continue;                                          *)
Definition dsz (k : kind) : N :=
  match k with
  | K_STATM => SIZEOF_PROC_STATM | K_PF => SIZEOF_PAGE_FAULT | K_CYCLE => SIZEOF_PMU_CYCLE
  | K_CACHE => SIZEOF_PMU_CACHE | K_BRANCH => SIZEOF_PMU_BRANCH
  end.
Definition esize (e : fev) : N :=
  EVTBUF_HDR + (if (e_id e =? EVENT_ID_READ_PROC_STATM) || (e_id e =? EVENT_ID_DIFF_PROC_STATM)
                then SIZEOF_PROC_STATM else SIZEOF_PAGE_FAULT).
Definition used (evs : list fev) : N := fold_right (fun e n => esize e + n) 0 evs.
Definition fits (asz : option N) (evs : list fev) (k : kind) : bool :=
  let evsize := EVTBUF_HDR + dsz k in
  let event_idx := C17_ARGBUF_SIZE - used evs in
  let arg_data := match asz with Some a => 4 + a | None => 0 end in
  (evsize <=? event_idx) && (arg_data <=? event_idx - evsize).

Fixpoint str_go_g (C : xcfg) (asz : option N) (ks : list kind) (o : oval) (ts : N) (diff : bool) (evs : list fev)
  : list fev :=
  match ks with
  | [] => evs
  | k :: r => if fits asz evs k then
                match new_event C o ts diff evs k with
                | None => str_go_g C asz r o ts diff evs
                | Some e => str_go_g C asz r o ts diff (evs ++ [e])
                end
              else str_go_g C asz r o ts diff evs
  end.

Definition save_trigger_read (C : xcfg) (f : frame) (o : oval) (diff : bool) (x : fx) : fx :=
  let evs := str_go_g C (x_asz x) (kinds_of (read_of C (f_addr f))) o (ts_of f) diff (x_evs x) in
  {| x_read := true; x_evs := evs; x_asz := x_asz x;
     x_nent := if diff then x_nent x else length evs |}.

(* ---------------------------------------------------------------- save_watchpoint *)
Definition cpu_word (c : Z) : N := Z.to_N (c mod 4294967296).
Definition full (p : list aev) : bool := C17_MAX_EVENT <=? N.of_nat (length p).

Definition x_watch (C : xcfg) (f : frame) (pos : N) (o : oval) (X : xpart) : xpart :=
  if negb (wp_cpu C || wp_var C) then X else
  let init := negb (w_inited X) in
  let ts1 := if init then (ts_of f + 2) mod W64 else ts_of f in
  let ts := (ts1 + (W64 - 1)) mod W64 in                       (* timestamp -= 1 *)
  let c := o_cpu o in
  (* without a free slot the old observation is kept: the next hook with room reports the change *)
  let store := wp_cpu C && (negb (w_cpu X =? c)%Z || init) && negb (full (pend X)) in
  let p1 := if store
            then pend X ++ [{| a_ev := {| e_time := ts; e_id := C17_EVENT_ID_WATCH_CPU; e_data := [cpu_word c] |};
                               a_idx := pos |}]
            else pend X in
  let wc := if store then c else w_cpu X in
  let v := o_var o in
  let copy := match v_copy X with Some y => y | None => v end in
  let differs := wp_var C && negb (full p1) && negb (v =? copy) in          (* memcmp with the thread's copy *)
  let hit := differs && negb (g_init X && (v =? g_val X)) in               (* mcount_watch_update *)
  let p2 := if hit
            then p1 ++ [{| a_ev := {| e_time := ts; e_id := C17_EVENT_ID_WATCH_VAR; e_data := [v] |};
                           a_idx := pos |}]
            else p1 in
  {| xs := xs X; pend := p2; w_inited := true; w_cpu := wc;
     v_copy := if differs then Some v else v_copy X;      (* remember what this thread has seen *)
     g_init := if hit then true else g_init X; g_val := if hit then v else g_val X; xout := xout X |}.

(* ---------------------------------------------------------------- record_ret_stack with events *)
(* while (mtdp->nr_events && mtdp->event[0].time < timestamp) record_event(&mtdp->event[0]) ... *)
Fixpoint pop_lt (ts : N) (p : list aev) : list fev * list aev :=
  match p with
  | [] => ([], [])
  | a :: r => if e_time (a_ev a) <? ts
              then let '(fl, r') := pop_lt ts r in (a_ev a :: fl, r')
              else ([], p)
  end.
(* ENTRY: events of the frame stored by the entry pass, oldest first, up to the first whose time is not the ENTRY
   time (break) *)
Fixpoint take_eq (ts : N) (evs : list fev) : list fev :=
  match evs with
  | [] => []
  | e :: r => if e_time e =? ts then e :: take_eq ts r else []
  end.
Definition x_entry (f : frame) (x : fx) (p : list aev) : list item * list aev :=
  let ts := f_start f in
  let '(fl, p') := pop_lt ts p in
  (map IE fl ++ [IR (entry_rec f)] ++ map IE (take_eq ts (firstn (x_nent x) (x_evs x))), p').
(* EXIT: every event of the frame stored by the exit pass whose time is the EXIT time (continue), before the record *)
Definition x_exit (f : frame) (x : fx) (p : list aev) : list item * list aev :=
  let ts := f_end f in
  let '(fl, p') := pop_lt ts p in
  (map IE fl ++ map IE (filter (fun e => e_time e =? ts) (skipn (x_nent x) (x_evs x))) ++ [IR (exit_rec f)], p').

(* ancestors (nearest first) with their extensions: mirrors [flush_anc] *)
Fixpoint xflush_anc (anc : list frame) (axs : list fx) (p : list aev) : list item * list aev :=
  match anc with
  | [] => ([], p)
  | f :: rest =>
      if written (f_flags f) then ([], p)
      else let '(its, p1) := xflush_anc rest (tl axs) p in
           if skip f then (its, p1)
           else let '(it2, p2) := x_entry f (hd fx0 axs) p1 in (its ++ it2, p2)
  end.

(* record_trace_data(mtdp, top, NULL): mirrors [record_trace_data] *)
Definition x_rtd (top : frame) (x : fx) (anc : list frame) (axs : list fx) (p : list aev)
  : list item * list aev :=
  let '(i1, p1) := if written (f_flags top) then ([], p) else xflush_anc anc axs p in
  let '(i2, p2) := if written (f_flags top) || skip top then ([], p1) else x_entry top x p1 in
  let '(i3, p3) := if f_end top =? 0 then ([], p2) else x_exit top x p2 in
  (i1 ++ i2 ++ i3, p3).

(* ---------------------------------------------------------------- entry *)
(* the flush inside mcount_check_rstack *)
Definition x_check_rstack (c : cfg) (s : st) (X : xpart) : xpart :=
  if (max_stack c <=? idx s) && negb (warned s) then
    let k := (length (stack s) - N.to_nat (max_stack c))%nat in
    match skipn k (stack s) with
    | [] => X
    | top :: anc =>
        let xk := skipn k (xs X) in
        let '(its, p') := x_rtd top (hd fx0 xk) anc (tl xk) (pend X) in
        emit X its p'
    end
  else X.

Definition push (X : xpart) (x : fx) : xpart := set_xs X (x :: xs X).

(* mcount_prepare -> mcount_watch_setup at the thread's first hook: the thread's copy of the variable *)
Definition x_first (C : xcfg) (X : xpart) (o : oval) : xpart :=
  match v_copy X with
  | None => if wp_var C then
              {| xs := xs X; pend := pend X; w_inited := w_inited X; w_cpu := w_cpu X;
                 v_copy := Some (o_var o); g_init := g_init X; g_val := g_val X; xout := xout X |}
            else X
  | Some _ => X
  end.

Definition x_enter (C : xcfg) (s : st) (X : xpart) (a t : N) (o : oval) : xpart :=
  let c := xb C in
  let X0 := x_first C X o in
  let '(s1, v, tr, _) := entry_check c s a in
  let X1 := x_check_rstack c s X0 in
  match shp c, v with
  | PG, V_IN | CYG, V_IN | CYG, V_OUT =>
      match stack (do_enter c s a t) with
      | [] => X1
      | top :: _ =>
          if norecord (f_flags top) then push X1 fx0
          else if disabled (f_flags top) then
            (* tracing is off: flush the existing rstack once (enable_cached) *)
            if cached s1 then
              let '(its, p') := x_rtd top fx0 (stack s1) (xs X1) (pend X1) in
              push (emit X1 its p') fx0
            else push X1 fx0
          else
            (* save_argument ran before (not under cygprof: it clears TRIGGER_FL_ARGUMENT) *)
            let x0 := fxa (match shp c with PG => o_asz o | CYG => None end) in
            let x := if read_of C a =? 0 then x0 else save_trigger_read C top o false x0 in
            push (x_watch C top (idx s1) o X1) x
      end
  | PG, V_OUT => if state_trig tr then push X1 fx0 else X1   (* a NORECORD frame keeps the changed filter state *)
  | PG, _ => X1
  | CYG, V_RSTACK => push X1 fx0
  end.

(* ---------------------------------------------------------------- exit *)
(* the recording condition of mcount_exit_filter_record (same expression as in [exit_record]) *)
Definition exit_cond (c : cfg) (s : st) (top : frame) : bool :=
  let f := fc s in
  let g := f_flags top in
  let time_filter := if ftime f =? NO_TIME then threshold c else ftime f in
  let dur := (f_end top + 18446744073709551616 - f_start top) mod 18446744073709551616 in
  ((time_filter <=? dur) && (negb (has_caller c) || fcaller g)) || written g || ftrace g.

(* for (i = 0, k = 0; i < nr_events; i++) if (event[i].idx < mtdp->idx - 1) k = i + 1;  nr_events = k;
   (mtdp->idx still counts the exiting function: midx below is its own index) *)
Fixpoint last_keep (midx : N) (p : list aev) (i k : nat) : nat :=
  match p with
  | [] => k
  | a :: r => last_keep midx r (S i) (if a_idx a <? midx then S i else k)
  end.
Definition invalidate (midx : N) (p : list aev) : list aev := firstn (last_keep midx p 0 0) p.

Definition x_leave (C : xcfg) (s : st) (X : xpart) (t : N) (o : oval) : xpart :=
  let c := xb C in
  match stack s with
  | [] => X
  | top :: anc =>
      let x := hd fx0 (xs X) in
      let axs := tl (xs X) in
      let Xp := set_xs X axs in
      if f_ghost top then Xp else
      let top1 := match shp c with
                  | PG => set_end top t
                  | CYG => if norecord (f_flags top) then top else set_end top t
                  end in
      if norecord (f_flags top1) then Xp
      else if negb (enabled s) then Xp
      else
        let x1 := if x_read x then save_trigger_read C top1 o true x else x in
        let X1 := x_watch C top1 (N.of_nat (length anc)) o Xp in
        if exit_cond c s top1 then
          let '(its, p') := x_rtd top1 x1 anc axs (pend X1) in emit X1 its p'
        else set_pend X1 (invalidate (idx s - 1) (pend X1))
  end.

(* ---------------------------------------------------------------- driver *)
Inductive xev := XEnter (a t : N) (o : oval) | XLeave (t : N) (o : oval).
Definition bev (e : xev) : ev := match e with XEnter a t _ => Enter a t | XLeave t _ => Leave t end.

Definition xdstate := (dstate * xpart)%type.
Definition xdstep (C : xcfg) (D : xdstate) (e : xev) : xdstate :=
  let '((s, hk), X) := D in
  (dstep (xb C) (s, hk) (bev e),
   match e with
   | XEnter a t o => x_enter C s X a t o
   | XLeave t o => match hk with
                   | h :: _ => if h then x_leave C s X t o else X
                   | [] => X
                   end
   end).
Definition xexec (C : xcfg) (es : list xev) (D : xdstate) : xdstate := fold_left (xdstep C) es D.
Definition xstart : xdstate := ((init, []), xinit).

(* ---------------------------------------------------------------- call trees with observations *)
Inductive xcall := XCall (a : N) (t0 : N) (o0 : oval) (t1 : N) (o1 : oval) (kids : list xcall).

Section xcall_ind.
  Variable P : xcall -> Prop.
  Hypothesis H : forall a t0 o0 t1 o1 kids, Forall P kids -> P (XCall a t0 o0 t1 o1 kids).
  Fixpoint xcall_ind' (c : xcall) : P c :=
    match c with
    | XCall a t0 o0 t1 o1 kids =>
        H a t0 o0 t1 o1 kids ((fix go (l : list xcall) : Forall P l :=
                                 match l with
                                 | [] => Forall_nil _
                                 | x :: t => Forall_cons _ (xcall_ind' x) (go t)
                                 end) kids)
    end.
End xcall_ind.

Fixpoint xflat (c : xcall) : list xev :=
  match c with
  | XCall a t0 o0 t1 o1 kids => XEnter a t0 o0 :: flat_map xflat kids ++ [XLeave t1 o1]
  end.
Fixpoint strip (c : xcall) : call :=
  match c with XCall a t0 _ t1 _ kids => Call a t0 t1 (map strip kids) end.

(* ---------------------------------------------------------------- specification: read / diff events
   A call of a function with read=k1,..,kn that is recorded appears as
       ENTRY f; READ_k1 v1 .. READ_kn vn; <callees>; DIFF_k1 (w1 - v1) .. DIFF_kn (wn - vn); EXIT f
   with vi / wi the readings at the entry / exit hook, subtraction mod 2^64 per field; a call that is
   not recorded (time filter / depth limit) contributes nothing - its events vanish with it. *)
Definition ekinds (C : xcfg) (a : N) : list kind :=
  filter (fun k => negb (is_pmu k) || pmu_ok C) (kinds_of (read_of C a)).
Definition values (o : oval) (k : kind) : list N :=
  match k with
  | K_STATM => o_statm o | K_PF => o_pf o | K_CYCLE => o_cycle o | K_CACHE => o_cache o | K_BRANCH => o_branch o
  end.
Definition reads (C : xcfg) (a t : N) (o : oval) : list fev :=
  map (fun k => {| e_time := t; e_id := id_read k; e_data := values o k |}) (ekinds C a).
Definition diffs (C : xcfg) (a t : N) (o0 o1 : oval) : list fev :=
  map (fun k => {| e_time := t; e_id := id_diff k; e_data := map2 sub64 (values o1 k) (values o0 k) |}) (ekinds C a).

Fixpoint xrecs (C : xcfg) (thr lim d : N) (k : xcall) : list item :=
  match k with
  | XCall a t0 o0 t1 o1 kids =>
      if lim <=? d then []
      else
        let ks := flat_map (xrecs C thr lim (d + 1)) kids in
        if (thr <=? t1 - t0) || negb (is_nil ks)
        then IR {| r_time := t0; r_type := ENTRY; r_depth := d; r_addr := a |} :: map IE (reads C a t0 o0)
             ++ ks ++ map IE (diffs C a t1 o0 o1)
             ++ [IR {| r_time := t1; r_type := EXIT; r_depth := d; r_addr := a |}]
        else []
  end.

(* plain base configuration (no -F/-N/-T filter options) + read triggers, no watch points *)
Definition xplain (thr gd ms : N) (sh : shape) (rd : N -> N) (pm : bool) : xcfg :=
  {| xb := plain thr gd ms sh; read_of := rd; wp_cpu := false; wp_var := false; pmu_ok := pm |}.
(* the same with watch points *)
Definition xplainw (thr gd ms : N) (sh : shape) (rd : N -> N) (pm wc wv : bool) : xcfg :=
  {| xb := plain thr gd ms sh; read_of := rd; wp_cpu := wc; wp_var := wv; pmu_ok := pm |}.

(* ---------------------------------------------------------------- specification: watch decisions
   The sequence of observations a thread makes (one per hook that reaches save_watchpoint) against
   the events it generates, with an idealised consumer (the pending queue never full). *)
Fixpoint changes_from (prev : option Z) (l : list Z) : list Z :=
  match l with
  | [] => []
  | c :: r => (match prev with
               | None => [c]
               | Some p => if (p =? c)%Z then [] else [c]
               end) ++ changes_from (Some c) r
  end.
Fixpoint nchanges_from (prev : N) (l : list N) : list N :=
  match l with
  | [] => []
  | v :: r => (if prev =? v then [] else [v]) ++ nchanges_from v r
  end.

(* iterate save_watchpoint over observations, draining the queue after every call *)
Definition dummy_frame (t : N) : frame :=
  {| f_addr := 0; f_start := t; f_end := 0; f_flags := noflags; f_depth := 0;
     sv_depth := 0; sv_max := 0; sv_time := 0; sv_size := 0; f_ghost := false |}.
Fixpoint wrun (C : xcfg) (l : list (N * oval)) (X : xpart) : list fev :=
  match l with
  | [] => []
  | (t, o) :: r => let X1 := x_watch C (dummy_frame t) 0 o X in
                   map a_ev (pend X1) ++ wrun C r (set_pend X1 [])
  end.
Definition cpu_values (l : list fev) : list N :=
  flat_map (fun e => if e_id e =? C17_EVENT_ID_WATCH_CPU then e_data e else []) l.
Definition var_values (l : list fev) : list N :=
  flat_map (fun e => if e_id e =? C17_EVENT_ID_WATCH_VAR then e_data e else []) l.

(* ---------------------------------------------------------------- observed streams (the tie) *)
Inductive oitem := OR (r : seen5) | OE (t id : N) (d : list N).
Definition oseen (i : item) : oitem :=
  match i with IR r => OR (seen r) | IE e => OE (e_time e) (e_id e) (e_data e) end.
Definition oideal (i : item) : oitem :=
  match i with
  | IR r => OR (r_time r, type_code (r_type r), RECORD_MAGIC, r_depth r, r_addr r)
  | IE e => OE (e_time e) (e_id e) (e_data e)
  end.
Definition oitem_eqb (a b : oitem) : bool :=
  match a, b with
  | OR x, OR y => seen_eqb x y
  | OE t i d, OE t' i' d' => (t =? t') && (i =? i') && list_eqb N.eqb d d'
  | _, _ => false
  end.
Definition oerase (l : list oitem) : list seen5 :=
  flat_map (fun i => match i with OR r => [r] | OE _ _ _ => [] end) l.

(* observation after each hook: the base observation + (nr_events, watch.inited, watch.cpu) *)
Definition xobs := (obs * (N * bool * Z))%type.
Definition xobs_of (D : xdstate) : xobs :=
  let '((s, _), X) := D in (obs_of s, (N.of_nat (length (pend X)), w_inited X, w_cpu X)).
Definition xo_eqb (a b : xobs) : bool :=
  let '(oa, (na, ia, ca)) := a in let '(ob, (nb, ib, cb)) := b in
  obs_eqb oa ob && (na =? nb) && Bool.eqb ia ib && (ca =? cb)%Z.
Fixpoint xtrace (C : xcfg) (es : list xev) (D : xdstate) : list (xobs) * xdstate :=
  match es with
  | [] => ([], D)
  | e :: r => let D' := xdstep C D e in
              let '(l, Dl) := xtrace C r D' in (xobs_of D' :: l, Dl)
  end.

(* one correspondence case: model vs. (state after every hook, the thread's stream) *)
Definition agree_x (C : xcfg) (es : list xev) (ostates : list (xobs)) (oitems : list oitem)
  : bool :=
  let '(l, (_, X)) := xtrace C es xstart in
  list_eqb xo_eqb l ostates && list_eqb oitem_eqb (map oseen (xout X)) oitems.

(* ---------------------------------------------------------------- specification: the whole stream, hook by hook
   Plain configuration without threshold (every call is recorded), any read= triggers, -W cpu and/or -W var,
   hooks at least 2 ns apart.  Every hook contributes one chunk, in hook order:
       entry hook of f :   <watch events of this hook>  ENTRY f  READ_k ..        (k: the read kinds of f)
       exit hook of f  :   <watch events of this hook>  DIFF_k ..  EXIT f
   - only the thread's first hook has its watch events (stamped +1 ns) BEHIND "ENTRY f READ_k ..".
   Which watch events a hook generates is save_watchpoint's decision ([x_watch]: C17_watch_cpu_iff_changed,
   C17_watch_var_iff_changed, the MAX_EVENT limit counted since the last exit hook); this specification says
   WHERE they appear in the stream, with which stamp, and what else the stream contains. *)
Definition hitem (i : item) : oitem := oideal i.
Fixpoint hspec_go (C : xcfg) (es : list xev) (W : xpart) (stk : list (N * N * oval)) : list oitem :=
  match es with
  | [] => []
  | XEnter a t o :: r =>
      let W0 := x_first C W o in
      let W1 := x_watch C (dummy_frame t) (N.of_nat (length stk)) o W0 in
      let new := map (fun e => hitem (IE (a_ev e))) (skipn (length (pend W0)) (pend W1)) in
      let rc := OR (t, UFTRACE_ENTRY, RECORD_MAGIC, N.of_nat (length stk), a) in
      let rd := map (fun e => hitem (IE e)) (reads C a t o) in
      (if w_inited W0 then new ++ [rc] ++ rd else [rc] ++ rd ++ new)
      ++ hspec_go C r W1 ((a, t, o) :: stk)
  | XLeave t o :: r =>
      match stk with
      | [] => []
      | (a, t0, o0) :: stk' =>
          let W1 := x_watch C (dummy_frame t) (N.of_nat (length stk')) o W in
          let new := map (fun e => hitem (IE (a_ev e))) (skipn (length (pend W)) (pend W1)) in
          new ++ map (fun e => hitem (IE e)) (diffs C a t o0 o)
          ++ [OR (t, UFTRACE_EXIT, RECORD_MAGIC, N.of_nat (length stk'), a)]
          ++ hspec_go C r (set_pend W1 []) stk'
      end
  end.
Definition hspec (C : xcfg) (es : list xev) : list oitem := hspec_go C es xinit [].

(* ---------------------------------------------------------------- several threads of one process
   Every thread has its own machine (shadow stack, filter state, pending events, cpu observation, copy of the
   watched variable); the global watch item of -W var (mcount_watch_update: inited, data) is shared: a thread
   that notices a change asks the global item and stays silent when another thread reported that value already.
   (mcount_enabled is process-wide too: histories with trace_on / trace_off are not run through this.) *)
Definition with_g (gi : bool) (gv : N) (X : xpart) : xpart :=
  {| xs := xs X; pend := pend X; w_inited := w_inited X; w_cpu := w_cpu X; v_copy := v_copy X;
     g_init := gi; g_val := gv; xout := xout X |}.
Fixpoint set_nth {A} (n : nat) (x : A) (d : A) (l : list A) : list A :=
  match n, l with
  | O, _ :: r => x :: r
  | O, [] => [x]
  | S m, y :: r => y :: set_nth m x d r
  | S m, [] => d :: set_nth m x d []
  end.
Fixpoint xexec_mt (C : xcfg) (es : list (nat * xev)) (ds : list xdstate) (gi : bool) (gv : N)
  : list xdstate * list (nat * xobs) :=
  match es with
  | [] => (ds, [])
  | (tid, e) :: r =>
      let D := nth tid ds xstart in
      let D' := xdstep C (fst D, with_g gi gv (snd D)) e in
      let '(dl, ol) := xexec_mt C r (set_nth tid D' xstart ds) (g_init (snd D')) (g_val (snd D')) in
      (dl, (tid, xobs_of D') :: ol)
  end.
(* one multi-thread case: the state after every hook (in the order the hooks ran) and every thread's stream *)
Definition agree_mt (C : xcfg) (es : list (nat * xev)) (ostates : list (nat * xobs)) (oitems : list (list oitem)) : bool :=
  let '(ds, ol) := xexec_mt C es [] false 0 in
  list_eqb (fun a b => Nat.eqb (fst a) (fst b) && xo_eqb (snd a) (snd b)) ol ostates &&
  list_eqb (list_eqb oitem_eqb) (map (fun D => map oseen (xout (snd D))) ds) oitems.

(* table-driven configuration *)
Definition mkxcfg (b : cfg) (rd : list (N * N)) (wc wv pm : bool) : xcfg :=
  {| xb := b; read_of := assoc 0 rd; wp_cpu := wc; wp_var := wv; pmu_ok := pm |}.

(* ---------------------------------------------------------------- executable property checkers,
   applied to IMPLEMENTATION streams *)
(* (a) erasing the events leaves a properly nested stream *)
Definition ok_nested_x (l : list oitem) : bool := ok_nested (oerase l).

(* (b) read/diff specification for a plain configuration and a complete forest *)
Definition ok_read_spec (C : xcfg) (thr lim : N) (f : list xcall) (l : list oitem) : bool :=
  list_eqb oitem_eqb l (map oideal (flat_map (xrecs C thr lim 0) f)).

(* (c) every event lies in the closed interval of the innermost enclosing recorded call:
   scan with the stack of open ENTRY times; an event must not be earlier than the enclosing ENTRY,
   and the enclosing EXIT must not be earlier than any event seen inside *)
Fixpoint ok_times_go (stk : list (N * N)) (l : list oitem) : bool :=     (* (entry time, max event time) *)
  match l with
  | [] => true
  | OR (t, ty, _, _, _) :: r =>
      if ty =? UFTRACE_ENTRY then ok_times_go ((t, t) :: stk) r
      else match stk with
           | (t0, m) :: rest => (m <=? t) && ok_times_go rest r
           | [] => false
           end
  | OE t _ _ :: r =>
      match stk with
      | (t0, m) :: rest => (t0 <=? t) && ok_times_go ((t0, N.max m t) :: rest) r
      | [] => ok_times_go stk r
      end
  end.
Definition ok_times (l : list oitem) : bool := ok_times_go [] l.

(* (d) read event immediately after ENTRY / diff event immediately before EXIT for functions with a
   read trigger whose kinds all succeed: after ENTRY f exactly |kinds| READ events with the ENTRY time,
   before EXIT f exactly |kinds| DIFF events with the EXIT time, ids in table order *)
(* [dif] = false: READ ids (after ENTRY), true: DIFF ids (before EXIT); in a call of zero duration the reads are
   followed by the differences at the same time stamp *)
Definition is_rd_id (dif : bool) (i : N) : bool :=
  existsb (fun k => if dif then i =? id_diff k else i =? id_read k) all_kinds.
Fixpoint starts_with (dif : bool) (ids : list N) (t : N) (l : list oitem) : bool :=
  match ids with
  | [] => match l with
          | OE t' i _ :: _ => negb ((t' =? t) && is_rd_id dif i)    (* no further read (resp. diff) event *)
          | _ => true
          end
  | i :: ri => match l with
               | OE t' i' _ :: r => (t' =? t) && (i' =? i) && starts_with dif ri t r
               | _ => false
               end
  end.
Fixpoint ok_adj_go (C : xcfg) (prev_rev : list oitem) (l : list oitem) : bool :=
  match l with
  | [] => true
  | OR (t, ty, mg, dp, ad) :: r =>
      let ks := ekinds C ad in
      (if ty =? UFTRACE_ENTRY then starts_with false (map id_read ks) t r
       else starts_with true (rev (map id_diff ks)) t prev_rev)
      && ok_adj_go C (OR (t, ty, mg, dp, ad) :: prev_rev) r
  | e :: r => ok_adj_go C (e :: prev_rev) r
  end.
Definition ok_adjacent (C : xcfg) (l : list oitem) : bool := ok_adj_go C [] l.

(* (e) watch decisions: the cpu / var values carried by the watch events of the stream are exactly the
   changes of the observed sequence (first cpu observation always; var relative to the copy made at
   the thread's first hook) *)
Definition ocpu_values (l : list oitem) : list N :=
  flat_map (fun i => match i with OE _ id d => if id =? C17_EVENT_ID_WATCH_CPU then d else [] | _ => [] end) l.
Definition ovar_values (l : list oitem) : list N :=
  flat_map (fun i => match i with OE _ id d => if id =? C17_EVENT_ID_WATCH_VAR then d else [] | _ => [] end) l.
Definition ok_watch_cpu (seq : list Z) (l : list oitem) : bool :=
  list_eqb N.eqb (ocpu_values l) (map cpu_word (changes_from None seq)).
Definition ok_watch_var (v0 : N) (seq : list N) (l : list oitem) : bool :=
  list_eqb N.eqb (ovar_values l) (nchanges_from v0 seq).

(* ---------------------------------------------------------------- specification: -W cpu in the stream
   Plain configuration without threshold, every call recorded, hooks >= 2 ns apart.  Hook by hook:
     a cpu event is generated iff the value differs from the last value reported or confirmed (first hook:
     always) and fewer than MAX_EVENT events were generated since the last EXIT was written - a change that
     finds the queue full is not forgotten, the next hook with a free slot reports it;
     it is stamped 1 ns before the hook and written right in front of the hook's record - the thread's
     first event is stamped 1 ns after and written right behind the first ENTRY. *)
Fixpoint wspec_go (es : list xev) (inited : bool) (prev : Z) (np : N) (stk : list N) : list oitem :=
  match es with
  | [] => []
  | XEnter a t o :: r =>
      let c := o_cpu o in
      let gen := (negb inited || negb (prev =? c)%Z) && (np <? C17_MAX_EVENT) in
      let w := OE (if inited then t - 1 else t + 1) C17_EVENT_ID_WATCH_CPU [cpu_word c] in
      let rc := OR (t, UFTRACE_ENTRY, RECORD_MAGIC, N.of_nat (length stk), a) in
      (if gen then (if inited then [w; rc] else [rc; w]) else [rc])
      ++ wspec_go r true (if gen || (prev =? c)%Z then c else prev) (if gen then np + 1 else np) (a :: stk)
  | XLeave t o :: r =>
      match stk with
      | [] => []
      | a :: stk' =>
          let c := o_cpu o in
          let gen := (negb inited || negb (prev =? c)%Z) && (np <? C17_MAX_EVENT) in
          let w := OE (t - 1) C17_EVENT_ID_WATCH_CPU [cpu_word c] in
          (if gen then [w] else []) ++ [OR (t, UFTRACE_EXIT, RECORD_MAGIC, N.of_nat (length stk'), a)]
          ++ wspec_go r true (if gen || (prev =? c)%Z then c else prev) 0 stk'
      end
  end.
Definition wspec (es : list xev) : list oitem := wspec_go es false 0%Z 0 [].

(* all histories of n calls (balanced words over Enter/Leave), canonical times 100, 100+gap, ..., function
   numbers cycling over three functions, cpu observations from a second bit word *)
Fixpoint bitlists (n : nat) : list (list bool) :=
  match n with
  | O => [[]]
  | S m => flat_map (fun l => [true :: l; false :: l]) (bitlists m)
  end.
Fixpoint balanced (d : list bool) (open : nat) : bool :=
  match d with
  | [] => Nat.eqb open 0
  | true :: r => balanced r (S open)
  | false :: r => match open with O => false | S k => balanced r k end
  end.
Definition ocpu (b : bool) : oval :=
  {| o_statm := [0; 0; 0]; o_pf := [0; 0]; o_cycle := [0; 0]; o_cache := [0; 0]; o_branch := [0; 0];
     o_cpu := if b then 1%Z else 0%Z; o_var := 0; o_asz := None |}.
Fixpoint hooks_of (d c : list bool) (t gap i : N) : list xev :=
  match d, c with
  | e :: dr, b :: cr =>
      (if e then XEnter (256 * (i mod 3)) t (ocpu b) else XLeave t (ocpu b)) :: hooks_of dr cr (t + gap) gap (i + 1)
  | _, _ => []
  end.
Definition wcfg_small (sh : shape) : xcfg :=
  {| xb := plain 0 1024 1024 sh; read_of := fun _ => 0; wp_cpu := true; wp_var := false; pmu_ok := false |}.
Definition small_case (sh : shape) (gap : N) (d c : list bool) : bool :=
  let es := hooks_of d c 100 gap 0 in
  let l := map oideal (xout (snd (xexec (wcfg_small sh) es xstart))) in
  list_eqb oitem_eqb l (wspec es) && ok_times l.
(* every history of exactly n calls, every change pattern of the cpu value, both shapes, gaps 2 and 3 *)
Definition small_ok (n : nat) : bool :=
  forallb (fun d => if balanced d 0
                    then forallb (fun c => if small_case PG 2 d c then
                                             if small_case CYG 2 d c then small_case PG 3 d c else false
                                           else false)
                                 (bitlists (2 * n))
                    else true)
          (bitlists (2 * n)).
(* the same for one shape and gap *)
Definition small_ok1 (n : nat) (sh : shape) (gap : N) : bool :=
  forallb (fun d => if balanced d 0 then forallb (fun c => small_case sh gap d c) (bitlists (2 * n)) else true)
          (bitlists (2 * n)).
(* the chain of n nested calls (the only history in which more than MAX_EVENT events are pending) *)
Definition chain (n : nat) : list bool := repeat true n ++ repeat false n.
Definition chain_ok (n : nat) (sh : shape) (gap : N) : bool :=
  forallb (fun c => small_case sh gap (chain n) c) (bitlists (2 * n)).

(* ---------------------------------------------------------------- buffer-level model of the overlap
   guard of save_trigger_read (arguments and events share the 1024-byte frame buffer).
   The frame buffer: bytes [0, 4 + asz) hold the argument size word and the argument data when
   MCOUNT_FL_ARGUMENT is set; events occupy [event_idx, ARGBUF_SIZE).  The guard:
       arg_data = argbuf;  if (flags & MCOUNT_FL_ARGUMENT) arg_data += 4 + <the size word at arg_data>;
       event = ptr - evsize;  if (event < arg_data) continue;                                            *)
Record gbuf := { has_args : bool; asz : N; event_idx : N; w_at_ptr : N }.
(* does save_trigger_read store an event of payload size [dsz]? *)
Definition guard_stores (b : gbuf) (dsz : N) : bool :=
  let evsize := EVTBUF_HDR + dsz in
  let arg_data := if has_args b then 4 + asz b else 0 in
  (evsize <=? event_idx b) && (arg_data <=? event_idx b - evsize).
(* the argument bytes and the new event do not overlap *)
Definition disjoint_after (b : gbuf) (dsz : N) : bool :=
  negb (has_args b) || (4 + asz b <=? event_idx b - (EVTBUF_HDR + dsz)).
(* the event fits above the argument bytes *)
Definition room_for (b : gbuf) (dsz : N) : bool :=
  (EVTBUF_HDR + dsz <=? event_idx b) && (negb (has_args b) || (4 + asz b <=? event_idx b - (EVTBUF_HDR + dsz))).

(* ================================================================ LEGACY variants (before the fix: commits),
   used by the [_legacy_refuted] theorems only *)
(* 7cf042b: the guard added the 32-bit word found AT THE EVENT POINTER (argbuf + event_idx) to the buffer
   start - [w_at_ptr]: the first word of the NEXT frame's buffer when no event is stored yet, the low half
   of the lowest event's time stamp otherwise *)
Definition guard_stores_legacy (b : gbuf) (dsz : N) : bool :=
  let evsize := EVTBUF_HDR + dsz in
  let arg_data := if has_args b then w_at_ptr b else 0 in
  (evsize <=? event_idx b) && (arg_data <=? event_idx b - evsize).
(* aa8baff: save_watchpoint never updated the thread's copy *)
Definition x_watch_legacy (C : xcfg) (f : frame) (pos : N) (o : oval) (X : xpart) : xpart :=
  let X' := x_watch C f pos o X in
  {| xs := xs X'; pend := pend X'; w_inited := w_inited X'; w_cpu := w_cpu X'; v_copy := v_copy X;
     g_init := g_init X'; g_val := g_val X'; xout := xout X' |}.
Fixpoint wrun_legacy (C : xcfg) (l : list (N * oval)) (X : xpart) : list fev :=
  match l with
  | [] => []
  | (t, o) :: r => let X1 := x_watch_legacy C (dummy_frame t) 0 o X in
                   map a_ev (pend X1) ++ wrun_legacy C r (set_pend X1 [])
  end.
(* 491a61f: both passes of record_ret_stack selected a frame's events by time stamp alone *)
Definition legacy_entry_events (ts : N) (evs : list fev) : list fev := take_eq ts evs.
Definition legacy_exit_events (ts : N) (evs : list fev) : list fev := filter (fun e => e_time e =? ts) evs.
(* (cpu, before the fix of this round): the new cpu number was remembered even when the queue was full and no
   event could be stored - that change was never reported *)
Definition x_watch_cpu_legacy (C : xcfg) (f : frame) (pos : N) (o : oval) (X : xpart) : xpart :=
  let X' := x_watch C f pos o X in
  {| xs := xs X'; pend := pend X'; w_inited := w_inited X';
     w_cpu := if negb (wp_cpu C || wp_var C) then w_cpu X else if wp_cpu C then o_cpu o else w_cpu X;
     v_copy := v_copy X'; g_init := g_init X'; g_val := g_val X'; xout := xout X' |}.
(* 35535f9: the invalidation was called with mtdp->idx (one above the exiting frame's index):
   [invalidate (n + 1)] at the exit of frame n *)

(* ================================================================ READER SIDE: the depth filter of the analysis
   commands (utils/fstack.c: fstack_entry / fstack_exit / fstack_check_filter, EVENT branch) for a stream with
   events.  Options: -D N ([rgdepth]) and depth=N triggers given at analysis time ([rdepth_of]).
       fstack_entry:  orig_depth = filter.depth;  depth= trigger: filter.depth = N;
                      filter.depth <= 0: FSTACK_FL_NORECORD, not shown;  else filter.depth--, shown
       fstack_exit:   filter.depth = orig_depth
       EVENT:         shown iff the innermost open function is shown (no open function: iff filter.depth > 0)
   [legacy = true] is the test before 9a6dfe6: shown iff filter.depth > 0. *)
Inductive rtree := RC (fn : N) (kids : list rtree) | RV (e : N).
Inductive rrec := RE (fn : N) | RX (fn : N) | REV (e : N).

Section rtree_ind.
  Variable P : rtree -> Prop.
  Hypothesis Hc : forall fn kids, Forall P kids -> P (RC fn kids).
  Hypothesis Hv : forall e, P (RV e).
  Fixpoint rtree_ind' (t : rtree) : P t :=
    match t with
    | RC fn kids => Hc fn kids ((fix go (l : list rtree) : Forall P l :=
                                   match l with
                                   | [] => Forall_nil _
                                   | x :: r => Forall_cons _ (rtree_ind' x) (go r)
                                   end) kids)
    | RV e => Hv e
    end.
End rtree_ind.

Fixpoint rflat (t : rtree) : list rrec :=
  match t with
  | RC fn kids => RE fn :: flat_map rflat kids ++ [RX fn]
  | RV e => [REV e]
  end.

Record rcfg := { rgdepth : Z; rdepth_of : N -> option Z }.
Definition rst := (Z * list (bool * Z))%type.          (* filter.depth, open functions (NORECORD, orig_depth) top first *)

Definition rstep (legacy : bool) (c : rcfg) (s : rst) (r : rrec) : rst * list rrec :=
  let '(fd, stk) := s in
  match r with
  | RE fn =>
      let fd1 := match rdepth_of c fn with Some d => d | None => fd end in
      if (fd1 <=? 0)%Z then ((fd1, (true, fd) :: stk), []) else (((fd1 - 1)%Z, (false, fd) :: stk), [RE fn])
  | RX fn =>
      match stk with
      | (nr, orig) :: rest => ((orig, rest), if nr then [] else [RX fn])
      | [] => (s, [])
      end
  | REV e =>
      let shown := if legacy then (0 <? fd)%Z
                   else match stk with (nr, _) :: _ => negb nr | [] => (0 <? fd)%Z end in
      (s, if shown then [REV e] else [])
  end.
Fixpoint rrun (legacy : bool) (c : rcfg) (rs : list rrec) (s : rst) : rst * list rrec :=
  match rs with
  | [] => (s, [])
  | r :: rest => let '(s1, o1) := rstep legacy c s r in
                 let '(s2, o2) := rrun legacy c rest s1 in (s2, o1 ++ o2)
  end.
(* per record: is it shown?  (what the tie compares with `uftrace dump -D N` / replay) *)
Fixpoint rflags (legacy : bool) (c : rcfg) (rs : list rrec) (s : rst) : list bool :=
  match rs with
  | [] => []
  | r :: rest => let '(s1, o1) := rstep legacy c s r in
                 negb (is_nil o1) :: rflags legacy c rest s1
  end.

(* specification: a function is shown iff the depth budget lets it; an event is shown iff the function it belongs
   to (the innermost function around it) is shown - under that function; functions and events beyond the limit
   vanish together (a depth= trigger deeper down opens a new budget) *)
Fixpoint rvis (c : rcfg) (shown_parent : bool) (b : Z) (t : rtree) : list rrec :=
  match t with
  | RV e => if shown_parent then [REV e] else []
  | RC fn kids =>
      let b1 := match rdepth_of c fn with Some d => d | None => b end in
      if (b1 <=? 0)%Z then flat_map (rvis c false b1) kids
      else RE fn :: flat_map (rvis c true (b1 - 1)%Z) kids ++ [RX fn]
  end.
