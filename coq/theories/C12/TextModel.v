(* C12 - model of the line parsers of the task list reader (utils/data-file.c read_task_txt_file) and of the
   sscanf() conversions it and the map reader (utils/session.c read_session_map) are built from.

   sscanf is modelled for the directives these readers use: ordinary characters, white space, %lu/%d (decimal,
   optional sign), %*[^c] and %s.  [scan fmt input] returns the converted values in order; it stops at the first
   directive that fails (C: the return value of sscanf is the length of this list).

   read_task_txt_file, as it is (fix 17db0a1): [parse_line true].  A line without newline ends the reading (the
   entries of the complete lines stand); TASK / FORK / SESS lines are scanned with the formats below and rejected
   (the whole reading fails, EINVAL) when a conversion is missing; other lines are skipped.  [parse_line false] is
   the reader before that fix (legacy), which also took an unterminated last line - kept for the `_legacy_`
   statements only (its one unfaithful corner: for an unterminated 4-byte line "TASK" the C code scanned the stale
   bytes behind the terminator, the model scans nothing).  DLOP lines are not modelled.

   No proofs in this file. *)
From Coq Require Import NArith List Bool Arith String Ascii.
Import ListNotations.
Require Import UV.C12.Model.
Local Open Scope N_scope.

Fixpoint bytes_of_string (s : string) : bytes :=
  match s with EmptyString => [] | String a r => N_of_ascii a :: bytes_of_string r end.
Notation "'B' s" := (bytes_of_string s) (at level 9, only parsing).

Definition is_ws (b : N) : bool := (b =? 32) || ((9 <=? b) && (b <=? 13)).      (* isspace in the C locale *)
Definition is_digit (b : N) : bool := (48 <=? b) && (b <=? 57).

Fixpoint span (p : N -> bool) (f : bytes) : bytes * bytes :=
  match f with
  | b :: r => if p b then let '(x, y) := span p r in (b :: x, y) else ([], f)
  | [] => ([], [])
  end.
Definition skip_ws (f : bytes) : bytes := snd (span is_ws f).
Definition dec (ds : bytes) : N := fold_left (fun acc d => acc * 10 + (d - 48)) ds 0.

Inductive dir :=
| DLit (c : N)        (* an ordinary (non white space) character of the format *)
| DWs                 (* white space in the format: any amount of white space, also none *)
| DNum                (* %lu %d *)
| DSkipNot (c : N)    (* %*[^c] *)
| DStr.               (* %s *)
Inductive sval := SNum (neg : bool) (n : N) | SStr (s : bytes).

Definition scan_num (f : bytes) : option (sval * bytes) :=
  let f1 := skip_ws f in
  let '(neg, f2) := match f1 with
                    | b :: r => if b =? 45 then (true, r) else if b =? 43 then (false, r) else (false, f1)
                    | [] => (false, f1)
                    end in
  let '(ds, rest) := span is_digit f2 in
  match ds with [] => None | _ => Some (SNum neg (dec ds), rest) end.

Fixpoint scan (fmt : list dir) (f : bytes) : list sval :=
  match fmt with
  | [] => []
  | DLit c :: r => match f with b :: f' => if b =? c then scan r f' else [] | [] => [] end
  | DWs :: r => scan r (skip_ws f)
  | DNum :: r => match scan_num f with Some (v, f') => v :: scan r f' | None => [] end
  | DSkipNot c :: r => let '(x, y) := span (fun b => negb (b =? c)) f in
                       match x with [] => [] | _ => scan r y end
  | DStr :: r => let '(x, y) := span (fun b => negb (is_ws b)) (skip_ws f) in
                 match x with [] => [] | _ => SStr x :: scan r y end
  end.

(* the writer's side of a scanned text: one piece of text per directive, and what a scan of the first k bytes of
   their concatenation converts (proved equal to [scan] in Scan.v) *)
Definition seg := (dir * bytes)%type.
Definition nonempty (s : bytes) : bool := match s with [] => false | _ => true end.
Definition seg_ok (sg : seg) : bool :=
  match sg with
  | (DLit c, s) => bytes_eqb s [c]
  | (DWs, s) => forallb is_ws s
  | (DNum, s) => nonempty s && forallb is_digit s
  | (DSkipNot c, s) => nonempty s && forallb (fun b => negb (b =? c)) s
  | (DStr, s) => nonempty s && forallb (fun b => negb (is_ws b)) s
  end.
(* the byte that follows the piece must end the conversion *)
Definition head_ok (d : dir) (rest : bytes) : bool :=
  match rest with
  | [] => true
  | b :: _ => match d with
              | DLit _ => true
              | DWs => negb (is_ws b)
              | DNum => negb (is_digit b)
              | DSkipNot c => b =? c
              | DStr => is_ws b
              end
  end.
Fixpoint wf_segs (l : list seg) : bool :=
  match l with
  | [] => true
  | (d, s) :: r => seg_ok (d, s) && head_ok d (List.concat (map snd r)) && wf_segs r
  end.
Definition seg_val (sg : seg) : list sval :=
  match sg with (DNum, s) => [SNum false (dec s)] | (DStr, s) => [SStr s] | _ => [] end.
Fixpoint prefix_vals (l : list seg) (k : nat) : list sval :=
  match l with
  | [] => []
  | (d, s) :: r =>
      if (List.length s <=? k)%nat then seg_val (d, s) ++ prefix_vals r (k - List.length s)
      else match d with
           | DNum => if (0 <? k)%nat then [SNum false (dec (firstn k s))] else []
           | DStr => if (0 <? k)%nat then [SStr (firstn k s)] else []
           | _ => []
           end
  end.

Definition lit (s : string) : list dir := map DLit (B s).

(* "timestamp=%lu.%lu tid=%d pid=%d"  /  "timestamp=%lu.%lu pid=%d ppid=%d"  /
   "timestamp=%lu.%lu %*[^i]id=%d sid=%s" *)
Definition task_fmt : list dir :=
  lit "timestamp=" ++ [DNum; DLit 46; DNum; DWs] ++ lit "tid=" ++ [DNum; DWs] ++ lit "pid=" ++ [DNum].
Definition fork_fmt : list dir :=
  lit "timestamp=" ++ [DNum; DLit 46; DNum; DWs] ++ lit "pid=" ++ [DNum; DWs] ++ lit "ppid=" ++ [DNum].
Definition sess_fmt : list dir :=
  lit "timestamp=" ++ [DNum; DLit 46; DNum; DWs; DSkipNot 105] ++ lit "id=" ++ [DNum; DWs] ++ lit "sid=" ++ [DStr].

Inductive entry :=
| ETask (time tid pid : N)
| EFork (time pid ppid : N)
| ESess (time pid : N) (sid exename : bytes).
Inductive lres := LEntry (e : entry) | LIgnore | LReject | LStop | LNotModelled.

Fixpoint starts_with (p l : bytes) : bool :=
  match p, l with
  | [], _ => true
  | a :: p', b :: l' => (a =? b) && starts_with p' l'
  | _, [] => false
  end.
(* strstr: the text behind the first occurrence of [p] *)
Fixpoint after_first (p l : bytes) : option bytes :=
  match l with
  | [] => if starts_with p [] then Some [] else None
  | b :: r => if starts_with p l then Some (skipn (List.length p) l) else after_first p r
  end.
(* strrchr(s, QUOTE): cut at the last double quote, if any *)
Fixpoint cut_last_quote (s : bytes) : option bytes :=
  match s with
  | [] => None
  | b :: r => match cut_last_quote r with
              | Some x => Some (b :: x)
              | None => if b =? 34 then Some [] else None
              end
  end.
Definition nsec (s ns : N) : N := s * 1000000000 + ns.
Definition has_nl (l : bytes) : bool := existsb (N.eqb NL) l.

Definition parse_line (fixed : bool) (l : bytes) : lres :=
  if fixed && negb (has_nl l) then LStop
  else if starts_with (B "TASK") l then
    match scan task_fmt (skipn 5 l) with
    | [SNum _ s; SNum _ ns; SNum _ t; SNum _ p] => LEntry (ETask (nsec s ns) t p)
    | _ => LReject
    end
  else if starts_with (B "FORK") l then
    match scan fork_fmt (skipn 5 l) with
    | [SNum _ s; SNum _ ns; SNum _ p; SNum _ pp] => LEntry (EFork (nsec s ns) p pp)
    | _ => LReject
    end
  else if starts_with (B "SESS") l then
    match scan sess_fmt (skipn 5 l) with
    | [SNum _ s; SNum _ ns; SNum _ p; SStr sid] =>
        match after_first (B "exename=") l with
        | Some (34 :: e) => LEntry (ESess (nsec s ns) p sid (match cut_last_quote e with Some x => x | None => e end))
        | _ => LReject
        end
    | _ => LReject
    end
  else if starts_with (B "DLOP") l then LNotModelled
  else LIgnore.

(* the getline loop: entries so far and how the reading ended (true: 0 returned, false: -1 / EINVAL) *)
Fixpoint read_lines (fixed : bool) (ls : list bytes) : list entry * bool :=
  match ls with
  | [] => ([], true)
  | l :: r => match parse_line fixed l with
              | LEntry e => let '(es, ok) := read_lines fixed r in (e :: es, ok)
              | LIgnore | LNotModelled => read_lines fixed r
              | LReject => ([], false)
              | LStop => ([], true)
              end
  end.
Definition read_task_txt (fixed : bool) (f : bytes) : list entry * bool := read_lines fixed (getlines f).

(* what the entries amount to: the tasks (first entry of a tid wins; in tid order) and the sessions *)
Definition task_row (e : entry) : option (N * N * N * N) :=       (* tid, pid, ppid, time *)
  match e with
  | ETask t tid pid => Some (tid, pid, 0, t)
  | EFork t pid ppid => Some (pid, pid, ppid, t)
  | ESess _ _ _ _ => None
  end.
Fixpoint insert_row (r : N * N * N * N) (l : list (N * N * N * N)) : list (N * N * N * N) :=
  match l with
  | [] => [r]
  | x :: t => let tid := fst (fst (fst r)) in let xt := fst (fst (fst x)) in
              if tid <? xt then r :: l else if tid =? xt then l else x :: insert_row r t
  end.
Definition tasks_of (es : list entry) : list (N * N * N * N) :=
  fold_left (fun acc e => match task_row e with Some r => insert_row r acc | None => acc end) es [].
Definition sessions_of (es : list entry) : list (N * N * bytes * bytes) :=
  flat_map (fun e => match e with ESess t p sid ex => [(t, p, sid, ex)] | _ => [] end) es.

(* the writer's side (write_task_info, write_fork_info, write_session_info) *)
Fixpoint digits_fuel (fuel : nat) (n : N) (acc : bytes) : bytes :=
  match fuel with
  | O => acc
  | S k => let acc' := (48 + n mod 10) :: acc in if n <? 10 then acc' else digits_fuel k (n / 10) acc'
  end.
Definition digits (n : N) : bytes := digits_fuel 80 n [].
Fixpoint pad9 (ds : bytes) (n : nat) : bytes := match n with O => ds | S k => if (List.length ds <? 9)%nat then pad9 (48 :: ds) k else ds end.
Definition stamp (t : N) : bytes := digits (t / 1000000000) ++ [46] ++ pad9 (digits (t mod 1000000000)) 9.
Definition render (e : entry) : bytes :=
  match e with
  | ETask t tid pid => B "TASK timestamp=" ++ stamp t ++ B " tid=" ++ digits tid ++ B " pid=" ++ digits pid
  | EFork t pid ppid => B "FORK timestamp=" ++ stamp t ++ B " pid=" ++ digits pid ++ B " ppid=" ++ digits ppid
  | ESess t pid sid ex => B "SESS timestamp=" ++ stamp t ++ B " pid=" ++ digits pid ++ B " sid=" ++ sid ++
                          B " exename=" ++ [34] ++ ex ++ [34]
  end.

(* tie: one cut of a generated task.txt and what the real read_task_txt_file made of it *)
Fixpoint rows_eqb (x y : list (N * N * N * N)) : bool :=
  match x, y with
  | [], [] => true
  | (a, b, c, d) :: x', (a', b', c', d') :: y' => (a =? a') && (b =? b') && (c =? c') && (d =? d') && rows_eqb x' y'
  | _, _ => false
  end.
Fixpoint sess_eqb (x y : list (N * N * bytes * bytes)) : bool :=
  match x, y with
  | [], [] => true
  | (a, b, c, d) :: x', (a', b', c', d') :: y' => (a =? a') && (b =? b') && bytes_eqb c c' && bytes_eqb d d' && sess_eqb x' y'
  | _, _ => false
  end.
Record ttcut := { tt_n : nat; tt_ok : bool; tt_tasks : list (N * N * N * N); tt_sess : list (N * N * bytes * bytes) }.
Definition tt_agrees (fixed : bool) (file : bytes) (c : ttcut) : bool :=
  let '(es, ok) := read_task_txt fixed (firstn (tt_n c) file) in
  Bool.eqb ok (tt_ok c) && (negb ok || (rows_eqb (tasks_of es) (tt_tasks c) && sess_eqb (sessions_of es) (tt_sess c))).
(* the property on a cut of a task.txt whose lines are [ls]: what was read is what the complete lines say *)
Definition tt_ok_cut (ls : list bytes) (c : ttcut) : bool :=
  let '(es, ok) := read_task_txt true (text_of (fst (cut_lines ls (tt_n c)))) in
  Bool.eqb ok (tt_ok c) && (negb ok || (rows_eqb (tasks_of es) (tt_tasks c) && sess_eqb (sessions_of es) (tt_sess c))).

(* any line-by-line reader: what its line parser says of one line *)
Inductive step (E : Type) := SEntry (e : E) | SSkip | SFail | SStop.
Arguments SEntry {E} e.
Arguments SSkip {E}.
Arguments SFail {E}.
Arguments SStop {E}.
Fixpoint run_lines {E} (parse : bytes -> step E) (ls : list bytes) : list E * bool :=
  match ls with
  | [] => ([], true)
  | l :: r => match parse l with
              | SEntry e => let '(es, ok) := run_lines parse r in (e :: es, ok)
              | SSkip => run_lines parse r
              | SFail => ([], false)
              | SStop => ([], true)
              end
  end.
Definition run_text {E} (parse : bytes -> step E) (f : bytes) : list E * bool := run_lines parse (getlines f).
