(* C12 - read_task_arg / read_task_args over a complete and over a truncated argument payload *)
From Coq Require Import NArith ZArith List Bool Arith Lia.
Require Import ZifyBool ZifyN ZifyNat.
Import ListNotations.
Require Import UV.Gen.Consts UV.Gen.C12Consts UV.C12.Model UV.C12.Codec.
Ltac Zify.zify_post_hook ::= Z.div_mod_to_equations.

Lemma ast_eq p l1 l2 (d1 d2 : bytes) :
  l1 = l2 -> d1 = d2 -> {| a_args := p; a_len := l1; a_data := d1 |} = {| a_args := p; a_len := l2; a_data := d2 |}.
Proof. intros; subst; reflexivity. Qed.

Lemma ast_eta a : a = {| a_args := a_args a; a_len := a_len a; a_data := a_data a |}.
Proof. destruct a; reflexivity. Qed.

(* a non-empty well-formed payload has bytes, and its spec has a non-zero declared size *)
Lemma vals_match_nonempty sps : forall vals len, vals_match sps vals = true -> vals <> [] ->
  0 < length (enc_vals vals len) /\ 0 < sum_sizes sps.
Proof.
  destruct sps as [|sp sps]; intros [|v vals] len Hm Hne; cbn [vals_match] in Hm; try discriminate; try congruence; try (destruct sp; discriminate).
  destruct sp as [|sz], v as [s|v']; try discriminate; try rename v' into v.
  - cbn [enc_vals sum_sizes fold_right spec_size]. rewrite app_length, le_enc_length. lia.
  - apply andb_prop in Hm as [Hm _]. apply andb_prop in Hm as [H0 Hl].
    apply Nat.ltb_lt in H0. apply Nat.eqb_eq in Hl.
    cbn [enc_vals sum_sizes fold_right spec_size]. rewrite !app_length. lia.
Qed.

(* ------------------------------------------------------------------ complete payload *)
Lemma read_args_full sps : forall vals a rest, vals_match sps vals = true ->
  read_args sps a (enc_vals vals (a_len a) ++ rest) =
  (ROk, {| a_args := a_args a; a_len := a_len a + length (enc_vals vals (a_len a));
           a_data := a_data a ++ enc_vals vals (a_len a) |}, rest).
Proof.
  induction sps as [|sp sps IH]; intros [|v vals] a rest Hm; cbn [vals_match] in Hm; try discriminate; try (destruct sp; discriminate).
  - cbn. do 2 f_equal. rewrite (ast_eta a) at 1. apply ast_eq; [lia | now rewrite app_nil_r].
  - destruct sp as [|sz], v as [s|v']; try discriminate; try rename v' into v.
    + (* string *)
      apply andb_prop in Hm as [Hs Hm]. apply N.ltb_lt in Hs.
      cbn [enc_vals read_args read_arg].
      rewrite <- !app_assoc. rewrite (fread_app 2) by apply le_enc_length.
      rewrite le_dec_enc2 by exact Hs. cbn [a_len a_data a_args].
      rewrite (app_assoc s). rewrite (fread_app (length s + pad_to 4 (a_len a + 2 + length s)))
        by (rewrite app_length, zeros_length; reflexivity).
      rewrite IH by exact Hm. cbn [a_len a_data a_args].
      do 2 f_equal. apply ast_eq.
      * rewrite !app_length, le_enc_length, zeros_length. lia.
      * rewrite <- !app_assoc. reflexivity.
    + (* fixed size *)
      apply andb_prop in Hm as [Hm Hr]. apply andb_prop in Hm as [H0 Hl].
      apply Nat.ltb_lt in H0. apply Nat.eqb_eq in Hl.
      destruct sz as [|sz']; [lia|].
      cbn [enc_vals read_args read_arg].
      rewrite <- !app_assoc. rewrite (app_assoc v).
      rewrite <- Hl.
      rewrite (fread_app (length v + pad_to 4 (a_len a + length v)))
        by (rewrite app_length, zeros_length; reflexivity).
      rewrite IH by exact Hr. cbn [a_len a_data a_args].
      do 2 f_equal. apply ast_eq.
      * rewrite !app_length, zeros_length. lia.
      * rewrite <- !app_assoc. reflexivity.
Qed.

(* ------------------------------------------------------------------ truncated payload *)
Lemma read_args_cut sps : forall vals a m, vals_match sps vals = true ->
  m < length (enc_vals vals (a_len a)) ->
  read_args sps a (firstn m (enc_vals vals (a_len a))) =
  (RShort, {| a_args := a_args a; a_len := a_len a + cut_len vals (a_len a) m;
              a_data := a_data a ++ firstn (cut_len vals (a_len a) m) (enc_vals vals (a_len a)) |}, []).
Proof.
  induction sps as [|sp sps IH]; intros [|v vals] a m Hm Hlt; cbn [vals_match] in Hm; try discriminate; try (destruct sp; discriminate).
  - cbn in Hlt. lia.
  - destruct sp as [|sz], v as [s|v']; try discriminate; try rename v' into v.
    + (* string *)
      apply andb_prop in Hm as [Hs Hm]. apply N.ltb_lt in Hs.
      cbn [enc_vals] in Hlt |- *. cbn [cut_len].
      set (size := length s + pad_to 4 (a_len a + 2 + length s)) in *.
      set (L2 := le_enc 2 (N.of_nat (length s))) in *.
      set (B := s ++ zeros (pad_to 4 (a_len a + 2 + length s))) in *.
      set (E' := enc_vals vals (a_len a + 2 + size)) in *.
      assert (HL2 : length L2 = 2) by apply le_enc_length.
      assert (HB : length B = size) by (unfold B, size; rewrite app_length, zeros_length; reflexivity).
      rewrite !app_length, HL2, HB in Hlt.
      destruct (m <? 2) eqn:E2.
      * apply Nat.ltb_lt in E2. cbn [read_args read_arg].
        rewrite fread_short by (rewrite firstn_length; lia).
        do 2 f_equal. rewrite (ast_eta a) at 1. apply ast_eq; [lia | cbn; now rewrite app_nil_r].
      * apply Nat.ltb_ge in E2.
        rewrite (firstn_app_ge m L2) by lia. rewrite HL2.
        cbn [read_args read_arg]. rewrite (fread_app 2) by exact HL2.
        assert (Hdec : N.to_nat (le_dec L2) = length s) by (unfold L2; apply le_dec_enc2; exact Hs).
        rewrite !Hdec. cbn [a_len a_data a_args]. fold size.
        destruct (m - 2 <? size) eqn:E3.
        -- apply Nat.ltb_lt in E3.
           rewrite fread_short by (rewrite firstn_length; lia).
           do 2 f_equal;
             try (apply ast_eq; [reflexivity|]; f_equal; rewrite (firstn_app_le 2) by lia; symmetry; apply firstn_all2; lia).
        -- apply Nat.ltb_ge in E3.
           rewrite (firstn_app_ge (m - 2) B) by lia. rewrite HB.
           rewrite (fread_app size) by exact HB.
           assert (Hm' : m - 2 - size < length E') by lia.
           specialize (IH vals {| a_args := a_args a; a_len := a_len a + 2 + size; a_data := (a_data a ++ L2) ++ B |}
                         (m - 2 - size) Hm).
           cbn [a_len a_data a_args] in IH. fold E' in IH. rewrite IH by exact Hm'.
           do 2 f_equal. apply ast_eq; [lia|].
           rewrite <- !app_assoc. do 2 f_equal.
           rewrite (firstn_app_ge _ L2) by lia. f_equal. rewrite HL2.
           rewrite (firstn_app_ge _ B) by lia. f_equal. rewrite HB. f_equal. lia.
    + (* fixed size *)
      apply andb_prop in Hm as [Hm Hr]. apply andb_prop in Hm as [H0 Hl].
      apply Nat.ltb_lt in H0. apply Nat.eqb_eq in Hl.
      destruct sz as [|sz']; [lia|].
      cbn [enc_vals] in Hlt |- *. cbn [cut_len].
      set (size := length v + pad_to 4 (a_len a + length v)) in *.
      set (B := v ++ zeros (pad_to 4 (a_len a + length v))) in *.
      set (E' := enc_vals vals (a_len a + size)) in *.
      assert (HB : length B = size) by (unfold B, size; rewrite app_length, zeros_length; reflexivity).
      rewrite !app_length, HB in Hlt.
      cbn [read_args read_arg]. rewrite <- Hl. fold size.
      destruct (m <? size) eqn:E3.
      * apply Nat.ltb_lt in E3.
        rewrite fread_short by (rewrite firstn_length; lia).
        do 2 f_equal. rewrite (ast_eta a) at 1. apply ast_eq; [lia | cbn; now rewrite app_nil_r].
      * apply Nat.ltb_ge in E3.
        rewrite (firstn_app_ge m B) by lia. rewrite HB.
        rewrite (fread_app size) by exact HB.
        assert (Hm' : m - size < length E') by lia.
        specialize (IH vals {| a_args := a_args a; a_len := a_len a + size; a_data := a_data a ++ B |}
                      (m - size) Hr).
        cbn [a_len a_data a_args] in IH. fold E' in IH. rewrite IH by exact Hm'.
        do 2 f_equal. apply ast_eq; [lia|].
        rewrite <- !app_assoc. f_equal.
        rewrite (firstn_app_ge _ B) by lia. f_equal. rewrite HB. f_equal. lia.
Qed.

Lemma cut_len_le vals : forall len m, cut_len vals len m <= m.
Proof.
  induction vals as [|v vals IH]; intros len m; cbn [cut_len]; [lia|].
  destruct v.
  - destruct (m <? 2) eqn:E2; [lia|]. apply Nat.ltb_ge in E2.
    destruct (m - 2 <? _) eqn:E3; [lia|]. apply Nat.ltb_ge in E3.
    specialize (IH (len + 2 + (length s + pad_to 4 (len + 2 + length s))) (m - 2 - (length s + pad_to 4 (len + 2 + length s)))). lia.
  - destruct (m <? _) eqn:E3; [lia|]. apply Nat.ltb_ge in E3.
    specialize (IH (len + (length v + pad_to 4 (len + length v))) (m - (length v + pad_to 4 (len + length v)))). lia.
Qed.

(* every argument of a completely read payload lies inside the bytes that were read *)
Lemma fits_full sps : forall vals off pre, vals_match sps vals = true -> length pre = off ->
  fits sps off (off + length (enc_vals vals off)) (pre ++ enc_vals vals off) = true.
Proof.
  induction sps as [|sp sps IH]; intros [|v vals] off pre Hm Hp; cbn [vals_match] in Hm; try discriminate; try (destruct sp; discriminate); [reflexivity|].
  destruct sp as [|sz], v as [s|v']; try discriminate; try rename v' into v.
  - apply andb_prop in Hm as [Hs Hm]. apply N.ltb_lt in Hs.
    cbn [enc_vals fits].
    set (size := length s + pad_to 4 (off + 2 + length s)).
    rewrite skipn_app, skipn_all2 by lia. replace (off - length pre) with 0 by lia. cbn [skipn app].
    rewrite (firstn_app_le 2) by (rewrite le_enc_length; lia).
    rewrite firstn_all2 by (rewrite le_enc_length; lia).
    rewrite le_dec_enc2 by exact Hs. fold size.
    rewrite !app_length, le_enc_length, zeros_length. fold size.
    apply andb_true_intro; split; [apply Nat.leb_le; lia|].
    apply andb_true_intro; split; [apply Nat.leb_le; lia|].
    specialize (IH vals (off + 2 + size) (pre ++ le_enc 2 (N.of_nat (length s)) ++ s ++ zeros (pad_to 4 (off + 2 + length s))) Hm).
    repeat rewrite <- app_assoc in IH. repeat rewrite <- app_assoc.
    match goal with |- fits _ _ ?L _ = true =>
      replace L with (off + 2 + size + length (enc_vals vals (off + 2 + size))) by lia end.
    apply IH. rewrite !app_length, le_enc_length, zeros_length. unfold size. lia.
  - apply andb_prop in Hm as [Hm Hr]. apply andb_prop in Hm as [H0 Hl].
    apply Nat.ltb_lt in H0. apply Nat.eqb_eq in Hl.
    destruct sz as [|sz']; [lia|].
    cbn [enc_vals fits]. rewrite <- Hl.
    set (size := length v + pad_to 4 (off + length v)).
    rewrite !app_length, zeros_length. fold size.
    apply andb_true_intro; split; [apply Nat.leb_le; lia|].
    specialize (IH vals (off + size) (pre ++ v ++ zeros (pad_to 4 (off + length v))) Hr).
    repeat rewrite <- app_assoc in IH. repeat rewrite <- app_assoc.
    match goal with |- fits _ _ ?L _ = true =>
      replace L with (off + size + length (enc_vals vals (off + size))) by lia end.
    apply IH. rewrite !app_length, zeros_length. unfold size. lia.
Qed.
