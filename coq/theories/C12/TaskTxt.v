(* C12 - the task list reader on every prefix of a task.txt *)
From Coq Require Import NArith List Bool Arith Lia.
Import ListNotations.
Require Import UV.C12.Model UV.C12.Codec UV.C12.Lines UV.C12.TextModel.

Lemma has_nl_no_nl l : has_nl l = negb (no_nl l).
Proof.
  unfold has_nl, no_nl. induction l as [|b l IH]; [reflexivity|]. cbn [existsb forallb].
  rewrite IH, N.eqb_sym. destruct (b =? NL)%N; reflexivity.
Qed.

Lemma cut_lines_no_nl : forall ls n, forallb no_nl ls = true ->
  forallb no_nl (fst (cut_lines ls n)) = true /\ no_nl (snd (cut_lines ls n)) = true.
Proof.
  induction ls as [|l r IH]; intros n H; cbn [cut_lines]; [split; reflexivity|].
  cbn [forallb] in H. apply andb_prop in H as [Hl Hr].
  destruct (n <=? length l).
  - cbn [fst snd forallb]. split; [reflexivity | apply no_nl_firstn; exact Hl].
  - destruct (cut_lines r (n - S (length l))) as [c p] eqn:E.
    specialize (IH (n - S (length l)) Hr). rewrite E in IH. cbn [fst snd] in *. destruct IH as [I1 I2].
    split; [cbn [forallb]; now rewrite Hl | exact I2].
Qed.

Lemma getlines_text : forall ls, forallb no_nl ls = true -> getlines (text_of ls) = map addnl ls.
Proof.
  induction ls as [|l r IH]; intros H; [reflexivity|].
  cbn [forallb] in H. apply andb_prop in H as [Hl Hr].
  change (text_of (l :: r)) with (addnl l ++ text_of r). unfold addnl at 1. rewrite <- app_assoc. cbn [app].
  rewrite getlines_line by exact Hl. cbn [map]. now rewrite IH.
Qed.

(* an unterminated rest ends the reading without changing what was read *)
Lemma read_lines_stop : forall xs p, has_nl p = false -> read_lines true (xs ++ [p]) = read_lines true xs.
Proof.
  induction xs as [|x xs IH]; intros p Hp.
  - cbn [app read_lines]. unfold parse_line. rewrite Hp. reflexivity.
  - cbn [app read_lines]. rewrite IH by exact Hp. reflexivity.
Qed.

(* MAIN (task list): the result on the first n bytes is the result on the copy cut at the last whole line *)
Lemma task_txt_prefix ls n : forallb no_nl ls = true ->
  read_task_txt true (firstn n (text_of ls)) = read_task_txt true (text_of (fst (cut_lines ls n))).
Proof.
  intros H. unfold read_task_txt. rewrite getlines_prefix by exact H. unfold expected_lines.
  destruct (cut_lines_no_nl ls n H) as [Hc Hp].
  destruct (cut_lines ls n) as [c p]. cbn [fst snd] in *.
  rewrite getlines_text by exact Hc.
  destruct p as [|b p]; [now rewrite app_nil_r|].
  apply read_lines_stop. rewrite has_nl_no_nl, Hp. reflexivity.
Qed.

(* the complete lines are an initial segment of the file's lines (C12_text_cut_structure) - restated for the entries:
   nothing is read that a later line says *)
Lemma task_txt_prefix_lines ls n : forallb no_nl ls = true ->
  exists k, read_task_txt true (firstn n (text_of ls)) = read_lines true (map addnl (firstn k ls)).
Proof.
  intros H. rewrite task_txt_prefix by exact H.
  destruct (cut_lines ls n) as [c p] eqn:E. destruct (cut_lines_structure _ _ _ _ E) as [Hc _].
  exists (length c). cbn [fst]. unfold read_task_txt.
  destruct (cut_lines_no_nl ls n H) as [Hn _]. rewrite E in Hn. cbn [fst] in Hn.
  rewrite getlines_text by exact Hn. now rewrite <- Hc.
Qed.

(* ------------------------------------------------------------------ legacy reader: the refuted form *)
From Coq Require Import String.
Local Open Scope N_scope.
Local Open Scope string_scope.
Definition w_entries : list entry :=
  [ESess 100 100 (B "a1b2c3d4e5f60718") (B "/fake/prog"); ETask 200 100 100; EFork 1200 101 100].
Definition w_lines : list bytes := map render w_entries.
Definition w_tcut : nat := 162.       (* FORK ... pid=101 ppid=10|0 *)

Lemma task_txt_legacy_refuted :
  forallb no_nl w_lines = true /\ (w_tcut < List.length (text_of w_lines))%nat /\
  read_task_txt false (firstn w_tcut (text_of w_lines)) =
    ([ESess 100 100 (B "a1b2c3d4e5f60718") (B "/fake/prog"); ETask 200 100 100; EFork 1200 101 10], true) /\
  read_task_txt false (text_of (fst (cut_lines w_lines w_tcut))) =
    ([ESess 100 100 (B "a1b2c3d4e5f60718") (B "/fake/prog"); ETask 200 100 100], true) /\
  read_task_txt true (firstn w_tcut (text_of w_lines)) =
    ([ESess 100 100 (B "a1b2c3d4e5f60718") (B "/fake/prog"); ETask 200 100 100], true).
Proof. vm_compute. repeat split; try reflexivity. lia. Qed.

(* non-vacuity / round trip on the witness file *)
Lemma task_txt_roundtrip_example : read_task_txt true (text_of w_lines) = (w_entries, true).
Proof. vm_compute. reflexivity. Qed.

(* ------------------------------------------------------------------ any reader that stops at an unterminated line *)
(* (the task list reader and, since afd718d, the .dbg loader utils/dwarf.c load_debug_file are of this kind; the
   per-line parser is arbitrary) *)
Lemma run_lines_stop {E} (parse : bytes -> step E) : forall xs p, parse p = SStop ->
  run_lines parse (xs ++ [p]) = run_lines parse xs.
Proof.
  induction xs as [|x xs IH]; intros p Hp.
  - cbn [app run_lines]. rewrite Hp. reflexivity.
  - cbn [app run_lines]. rewrite IH by exact Hp. reflexivity.
Qed.

Lemma stop_reader_prefix {E} (parse : bytes -> step E) ls n :
  (forall p, has_nl p = false -> parse p = SStop) -> forallb no_nl ls = true ->
  run_text parse (firstn n (text_of ls)) = run_text parse (text_of (fst (cut_lines ls n))).
Proof.
  intros Hstop H. unfold run_text. rewrite getlines_prefix by exact H. unfold expected_lines.
  destruct (cut_lines_no_nl ls n H) as [Hc Hp].
  destruct (cut_lines ls n) as [c p]. cbn [fst snd] in *.
  rewrite getlines_text by exact Hc.
  destruct p as [|b p]; [now rewrite app_nil_r|].
  apply run_lines_stop. apply Hstop. rewrite has_nl_no_nl, Hp. reflexivity.
Qed.
