(* C12 - sscanf on every prefix of a text it was written for *)
From Coq Require Import NArith List Bool Arith Lia.
Import ListNotations.
Require Import UV.C12.Model UV.C12.Codec UV.C12.TextModel.

Lemma bytes_eqb_eq : forall x y, bytes_eqb x y = true -> x = y.
Proof.
  induction x as [|a x IH]; intros [|b y] H; cbn in H; try discriminate; [reflexivity|].
  apply andb_prop in H as [H1 H2]. apply N.eqb_eq in H1. subst. f_equal. apply IH. exact H2.
Qed.

Definition head_stops (p : N -> bool) (rest : bytes) : Prop :=
  match rest with [] => True | b :: _ => p b = false end.

Lemma span_all p : forall s rest, forallb p s = true -> head_stops p rest -> span p (s ++ rest) = (s, rest).
Proof.
  induction s as [|b s IH]; intros rest Hs Hr.
  - cbn [app]. destruct rest as [|c rest]; [reflexivity|]. cbn in Hr |- *. now rewrite Hr.
  - cbn [forallb] in Hs. apply andb_prop in Hs as [Hb Hs]. cbn [app span]. rewrite Hb.
    rewrite IH by assumption. reflexivity.
Qed.

Lemma span_all_nil p s : forallb p s = true -> span p s = (s, []).
Proof. intros H. rewrite <- (app_nil_r s) at 1. apply span_all; [exact H | exact I]. Qed.

Lemma forallb_firstn {A} (p : A -> bool) : forall k s, forallb p s = true -> forallb p (firstn k s) = true.
Proof.
  induction k as [|k IH]; intros [|b s] H; cbn in *; try reflexivity.
  apply andb_prop in H as [H1 H2]. rewrite H1. now apply IH.
Qed.

Lemma scan_nil : forall fmt, scan fmt [] = [].
Proof. induction fmt as [|d r IH]; [reflexivity|]. destruct d; cbn; try reflexivity; exact IH. Qed.

Lemma head_stops_firstn p j rest : head_stops p rest -> head_stops p (firstn j rest).
Proof. destruct j, rest; cbn; auto. Qed.

Lemma digit_not_ws b : is_digit b = true -> is_ws b = false.
Proof.
  unfold is_digit, is_ws. intros H. apply andb_prop in H as [H1 H2]. apply N.leb_le in H1. apply N.leb_le in H2.
  destruct (b =? 32)%N eqn:E; [apply N.eqb_eq in E; lia|].
  destruct (9 <=? b)%N eqn:E1, (b <=? 13)%N eqn:E2; try reflexivity. apply N.leb_le in E2. lia.
Qed.

Lemma digit_not_sign b : is_digit b = true -> (b =? 45)%N = false /\ (b =? 43)%N = false.
Proof.
  unfold is_digit. intros H. apply andb_prop in H as [H1 _]. apply N.leb_le in H1.
  split; apply N.eqb_neq; lia.
Qed.

Lemma skip_ws_nonws b f : is_ws b = false -> skip_ws (b :: f) = b :: f.
Proof. intros H. unfold skip_ws. cbn [span]. now rewrite H. Qed.

(* one complete piece followed by text that ends its conversion *)
Lemma scan_num_full s rest : nonempty s = true -> forallb is_digit s = true -> head_stops is_digit rest ->
  scan_num (s ++ rest) = Some (SNum false (dec s), rest).
Proof.
  intros Hn Hd Hr. destruct s as [|b s]; [discriminate|]. cbn [forallb] in Hd.
  pose proof Hd as Hd'. apply andb_prop in Hd' as [Hb _].
  unfold scan_num. cbn [app]. rewrite skip_ws_nonws by (apply digit_not_ws; exact Hb).
  destruct (digit_not_sign b Hb) as [E1 E2]. rewrite E1, E2.
  change (b :: s ++ rest) with ((b :: s) ++ rest). rewrite span_all by assumption. reflexivity.
Qed.

Lemma head_ok_firstn d j rest : head_ok d rest = true -> head_ok d (firstn j rest) = true.
Proof. destruct j, rest; cbn; auto. Qed.

Lemma negb_false_iff' (x : bool) : negb x = true -> x = false.
Proof. destruct x; [discriminate|reflexivity]. Qed.

(* MAIN: what sscanf converts from the first k bytes of a text written piece by piece for its format *)
Lemma scan_prefix : forall segs k, wf_segs segs = true ->
  scan (map fst segs) (firstn k (List.concat (map snd segs))) = prefix_vals segs k.
Proof.
  induction segs as [|[d s] r IH]; intros k Hw.
  - reflexivity.
  - cbn [wf_segs] in Hw. apply andb_prop in Hw as [Hw Hr]. apply andb_prop in Hw as [Hs Hh].
    cbn [map fst snd List.concat prefix_vals].
    set (R := List.concat (map snd r)) in *.
    destruct (length s <=? k) eqn:Ek.
    + (* the piece is complete *)
      apply Nat.leb_le in Ek. rewrite firstn_app_ge by exact Ek.
      set (R' := firstn (k - length s) R).
      assert (Hh' : head_ok d R' = true) by (apply head_ok_firstn; exact Hh).
      specialize (IH (k - length s) Hr). fold R in IH. fold R' in IH.
      destruct d; cbn [seg_ok] in Hs; cbn [seg_val app].
      * apply bytes_eqb_eq in Hs. subst s. cbn [app scan]. rewrite N.eqb_refl. exact IH.
      * cbn [scan]. unfold skip_ws. rewrite span_all; [exact IH | exact Hs |].
        destruct R'; [exact I|]. cbn in Hh' |- *. apply negb_false_iff'. exact Hh'.
      * apply andb_prop in Hs as [Hn Hd]. cbn [scan]. rewrite scan_num_full; [now rewrite IH | exact Hn | exact Hd |].
        destruct R'; [exact I|]. cbn in Hh' |- *. apply negb_false_iff'. exact Hh'.
      * apply andb_prop in Hs as [Hn Hd]. cbn [scan]. rewrite span_all; [| exact Hd |].
        -- destruct s; [discriminate | exact IH].
        -- destruct R'; [exact I|]. cbn in Hh' |- *. now rewrite Hh'.
      * apply andb_prop in Hs as [Hn Hd]. cbn [scan].
        destruct s as [|b s]; [discriminate|]. cbn [forallb] in Hd. pose proof Hd as Hd'.
        apply andb_prop in Hd' as [Hb _]. apply negb_false_iff' in Hb.
        cbn [app]. rewrite skip_ws_nonws by exact Hb.
        change (b :: s ++ R') with ((b :: s) ++ R'). rewrite span_all; [now rewrite IH | exact Hd |].
        destruct R'; [exact I|]. cbn in Hh' |- *. now rewrite Hh'.
    + (* the cut is inside the piece *)
      apply Nat.leb_gt in Ek. rewrite firstn_app_le by lia.
      destruct d; cbn [seg_ok] in Hs.
      * apply bytes_eqb_eq in Hs. subst s. cbn in Ek. replace k with 0 by lia. reflexivity.
      * cbn [scan]. unfold skip_ws. rewrite span_all_nil by (apply forallb_firstn; exact Hs). cbn [snd]. apply scan_nil.
      * apply andb_prop in Hs as [Hn Hd]. cbn [scan].
        destruct k as [|k]; [cbn; reflexivity|].
        replace (0 <? S k) with true by reflexivity.
        pose proof (scan_num_full (firstn (S k) s) [] ) as F. rewrite app_nil_r in F.
        rewrite F; [now rewrite scan_nil | | apply forallb_firstn; exact Hd | exact I].
        destruct s; [discriminate | reflexivity].
      * apply andb_prop in Hs as [Hn Hd]. cbn [scan].
        rewrite span_all_nil by (apply forallb_firstn; exact Hd).
        destruct (firstn k s); [reflexivity | apply scan_nil].
      * apply andb_prop in Hs as [Hn Hd]. cbn [scan].
        destruct k as [|k]; [cbn; reflexivity|].
        replace (0 <? S k) with true by reflexivity.
        destruct s as [|b s]; [discriminate|]. cbn [firstn]. cbn [forallb] in Hd. pose proof Hd as Hd'.
        apply andb_prop in Hd' as [Hb Hd2]. apply negb_false_iff' in Hb.
        rewrite skip_ws_nonws by exact Hb.
        change (b :: firstn k s) with (firstn (S k) (b :: s)).
        rewrite span_all_nil by (apply forallb_firstn; cbn [forallb]; exact Hd).
        cbn [firstn]. now rewrite scan_nil.
Qed.

(* the complete text: every conversion *)
Lemma prefix_vals_all : forall l k, length (List.concat (map snd l)) <= k -> prefix_vals l k = flat_map seg_val l.
Proof.
  induction l as [|[d s] r IH]; intros j Hj; [reflexivity|].
  cbn [map snd List.concat] in Hj. rewrite app_length in Hj. cbn [prefix_vals flat_map].
  replace (length s <=? j) with true by (symmetry; apply Nat.leb_le; lia).
  f_equal. apply IH. lia.
Qed.

Lemma scan_full segs : wf_segs segs = true ->
  scan (map fst segs) (List.concat (map snd segs)) = flat_map seg_val segs.
Proof.
  intros Hw. pose proof (scan_prefix segs (length (List.concat (map snd segs))) Hw) as H.
  rewrite firstn_all in H. rewrite H. apply prefix_vals_all. apply Nat.le_refl.
Qed.

(* the number of conversions (the return value of sscanf) never exceeds that of the complete text, and a cut
   before the last converting piece loses at least one: such a line is rejected by a reader that counts them *)
Lemma prefix_vals_length : forall l k, length (prefix_vals l k) <= length (flat_map seg_val l).
Proof.
  induction l as [|[d s] r IH]; intros k; [cbn; lia|]. cbn [prefix_vals flat_map]. rewrite app_length.
  destruct (length s <=? k).
  - rewrite app_length. specialize (IH (k - length s)). lia.
  - destruct d; cbn [seg_val length]; try lia; destruct (0 <? k); cbn [length]; lia.
Qed.

From Coq Require Import String.
(* example: the TASK line format on its own text, whole and cut inside the last number *)
Definition ex_segs : list seg :=
  map (fun c => (DLit c, [c])) (B "timestamp=") ++ [(DNum, B "12"); (DLit 46, [46%N]); (DNum, B "000000345"); (DWs, [32%N])] ++
  map (fun c => (DLit c, [c])) (B "tid=") ++ [(DNum, B "100"); (DWs, [32%N])] ++
  map (fun c => (DLit c, [c])) (B "pid=") ++ [(DNum, B "4711")].
Lemma scan_prefix_example :
  wf_segs ex_segs = true /\ map fst ex_segs = task_fmt /\
  prefix_vals ex_segs 39 = [SNum false 12; SNum false 345; SNum false 100; SNum false 4711] /\
  prefix_vals ex_segs 37 = [SNum false 12; SNum false 345; SNum false 100; SNum false 47] /\
  prefix_vals ex_segs 35 = [SNum false 12; SNum false 345; SNum false 100].
Proof. vm_compute. repeat split; reflexivity. Qed.
