(* C12 - the statements claimed in Properties_C12.v *)
From Coq Require Import NArith ZArith List Bool Arith Lia.
Require Import ZifyBool ZifyN ZifyNat.
Import ListNotations.
Require Import UV.Gen.Consts UV.Gen.C12Consts UV.C12.Model UV.C12.Codec UV.C12.Args UV.C12.Stream.
Ltac Zify.zify_post_hook ::= Z.div_mod_to_equations.

Section Claims.
  Variable env : N -> option (list aspec * list aspec).
  Variable evs : N -> option nat.
  Variable wv : N -> bool.

  (* ---------------------------------------------------------------- read_file = expected *)
  Lemma read_file_expected fixed rs n : wf_recs env evs rs = true ->
    read_file fixed env evs wv (firstn n (enc rs)) = expected fixed env a0 rs n.
  Proof.
    intros Hw. unfold read_file. apply read_expected; [exact Hw | left; reflexivity |].
    pose proof HDR_16. lia.
  Qed.

  (* ---------------------------------------------------------------- repaired reader: no guard *)
  Lemma expected_fixed : forall rs a n, expected true env a rs n = (map full_item (whole_prefix rs n), EEof).
  Proof.
    induction rs as [|r rest IH]; intros a n; cbn [expected whole_prefix map]; [reflexivity|].
    pose proof HDR_16.
    destruct (n <? HDR) eqn:En.
    - apply Nat.ltb_lt in En. replace (n <? HDR + plen r) with true by (symmetry; apply Nat.ltb_lt; lia). reflexivity.
    - apply Nat.ltb_ge in En. destruct (n - HDR <? plen r) eqn:Em.
      + apply Nat.ltb_lt in Em. replace (n <? HDR + plen r) with true by (symmetry; apply Nat.ltb_lt; lia). reflexivity.
      + apply Nat.ltb_ge in Em. replace (n <? HDR + plen r) with false by (symmetry; apply Nat.ltb_ge; lia).
        rewrite IH. reflexivity.
  Qed.

  Lemma stream_prefix_fixed rs n : wf_recs env evs rs = true ->
    read_file true env evs wv (firstn n (enc rs)) = (map full_item (whole_prefix rs n), EEof).
  Proof. intros Hw. rewrite read_file_expected by exact Hw. apply expected_fixed. Qed.

  (* the copy cut at the last whole record *)
  Lemma whole_prefix_wf : forall rs n, wf_recs env evs rs = true -> wf_recs env evs (whole_prefix rs n) = true.
  Proof.
    induction rs as [|r rest IH]; intros n Hw; cbn [whole_prefix]; [reflexivity|].
    cbn [wf_recs forallb] in Hw. apply andb_prop in Hw as [Hr Hrest].
    destruct (n <? HDR + plen r); [reflexivity|]. cbn [wf_recs forallb]. rewrite Hr. apply IH. exact Hrest.
  Qed.

  (* the completely present records are an initial segment of the written records *)
  Lemma whole_prefix_initial : forall rs n, exists k, whole_prefix rs n = firstn k rs.
  Proof.
    induction rs as [|r rest IH]; intros n; cbn [whole_prefix]; [exists 0; reflexivity|].
    destruct (n <? HDR + plen r); [exists 0; reflexivity|].
    destruct (IH (n - reclen r)) as [k Hk]. exists (S k). cbn [firstn]. now rewrite Hk.
  Qed.

  Lemma enc_length_cons r rest : length (enc (r :: rest)) = reclen r + length (enc rest).
  Proof. change (enc (r :: rest)) with (enc_rec r ++ enc rest). rewrite app_length, (enc_rec_length r). reflexivity. Qed.

  Lemma whole_prefix_all : forall rs n, length (enc rs) <= n -> whole_prefix rs n = rs.
  Proof.
    induction rs as [|r rest IH]; intros n Hn; cbn [whole_prefix]; [reflexivity|].
    rewrite enc_length_cons in Hn. unfold reclen in *.
    replace (n <? HDR + plen r) with false by (symmetry; apply Nat.ltb_ge; lia).
    f_equal. apply IH. lia.
  Qed.

  Lemma stream_prefix_fixed_copy rs n : wf_recs env evs rs = true ->
    read_file true env evs wv (firstn n (enc rs)) = read_file true env evs wv (enc (whole_prefix rs n)).
  Proof.
    intros Hw. rewrite stream_prefix_fixed by exact Hw.
    pose proof (stream_prefix_fixed (whole_prefix rs n) (length (enc (whole_prefix rs n)))
                  (whole_prefix_wf rs n Hw)) as H.
    rewrite firstn_all in H. rewrite (whole_prefix_all (whole_prefix rs n) (length (enc (whole_prefix rs n)))) in H by lia. symmetry. exact H.
  Qed.

  (* ---------------------------------------------------------------- the reader as it is: exact guard *)
  Lemma state_after_live r a : wf_rec env evs r = true -> r_pl r <> PlNone -> live_state (state_after a env r) = true.
  Proof.
    intros Hw Hne. pose proof (live_after env evs r a0 Hw (or_introl eq_refl)) as Hg.
    unfold good, state_after, live_state in *. cbn [a0 a_args a_len] in Hg.
    apply wf_unpack in Hw as (_ & _ & Hp).
    destruct (r_pl r) as [|vals|d]; [congruence| |].
    - destruct Hp as (_ & _ & _ & args & rets & He & _). rewrite He in *. cbn [a_args a_len] in *.
      destruct Hg as [Hg|Hg]; [discriminate|exact Hg].
    - cbn [a_args a_len] in *. destruct Hg as [Hg|Hg]; [discriminate|exact Hg].
  Qed.

  Lemma expected_legacy_safe : forall rs a n, wf_recs env evs rs = true ->
    defect_cut (live_state a) rs n = false ->
    fst (expected false env a rs n) = map full_item (whole_prefix rs n) /\
    (snd (expected false env a rs n) = EEof \/ snd (expected false env a rs n) = EMissingArg).
  Proof.
    pose proof HDR_16 as H16.
    induction rs as [|r rest IH]; intros a n Hw Hd; cbn [expected whole_prefix map defect_cut] in *; [auto|].
    cbn [wf_recs forallb] in Hw. apply andb_prop in Hw as [Hr Hrest].
    destruct (n <? HDR) eqn:En.
    { apply Nat.ltb_lt in En. replace (n <? HDR + plen r) with true by (symmetry; apply Nat.ltb_lt; lia). auto. }
    apply Nat.ltb_ge in En.
    pose proof (state_after_live r a Hr) as Hlive.
    unfold state_after in *.
    destruct (n - HDR <? plen r) eqn:Em.
    - apply Nat.ltb_lt in Em. replace (n <? HDR + plen r) with true by (symmetry; apply Nat.ltb_lt; lia).
      destruct (r_pl r) as [|vals|d]; cbn [fst snd]; [auto| |].
      + destruct (cut_len vals 0 (n - HDR) =? 0); [auto|discriminate].
      + rewrite Hd. auto.
    - apply Nat.ltb_ge in Em. replace (n <? HDR + plen r) with false by (symmetry; apply Nat.ltb_ge; lia).
      cbn [cons_item fst snd map].
      destruct (r_pl r) as [|vals|d] eqn:Epl.
      + destruct (IH a (n - reclen r) Hrest Hd) as [I1 I2]. rewrite I1. auto.
      + specialize (Hlive ltac:(discriminate)).
        set (a' := {| a_args := _; a_len := plen r; a_data := _ |}) in *.
        rewrite <- Hlive in Hd.
        destruct (IH a' (n - reclen r) Hrest Hd) as [I1 I2]. rewrite I1. auto.
      + specialize (Hlive ltac:(discriminate)).
        set (a' := {| a_args := Some PEvent; a_len := _; a_data := _ |}) in *.
        rewrite <- Hlive in Hd.
        destruct (IH a' (n - reclen r) Hrest Hd) as [I1 I2]. rewrite I1. auto.
  Qed.

  Lemma expected_legacy_defect : forall rs a n, wf_recs env evs rs = true ->
    defect_cut (live_state a) rs n = true ->
    length (fst (expected false env a rs n)) = S (length (whole_prefix rs n)).
  Proof.
    pose proof HDR_16 as H16.
    induction rs as [|r rest IH]; intros a n Hw Hd; cbn [expected whole_prefix map defect_cut] in *; [discriminate|].
    cbn [wf_recs forallb] in Hw. apply andb_prop in Hw as [Hr Hrest].
    destruct (n <? HDR) eqn:En; [discriminate|].
    apply Nat.ltb_ge in En.
    pose proof (state_after_live r a Hr) as Hlive.
    unfold state_after in *.
    destruct (n - HDR <? plen r) eqn:Em.
    - apply Nat.ltb_lt in Em. replace (n <? HDR + plen r) with true by (symmetry; apply Nat.ltb_lt; lia).
      destruct (r_pl r) as [|vals|d] eqn:Epl; cbn [fst snd].
      + unfold plen in Em. rewrite Epl in Em. cbn in Em. lia.
      + destruct (cut_len vals 0 (n - HDR) =? 0); [discriminate|reflexivity].
      + rewrite Hd. reflexivity.
    - apply Nat.ltb_ge in Em. replace (n <? HDR + plen r) with false by (symmetry; apply Nat.ltb_ge; lia).
      cbn [cons_item fst snd map length]. f_equal.
      destruct (r_pl r) as [|vals|d] eqn:Epl.
      + apply IH; assumption.
      + specialize (Hlive ltac:(discriminate)).
        set (a' := {| a_args := _; a_len := plen r; a_data := _ |}) in *.
        apply IH; [assumption|]. rewrite Hlive. exact Hd.
      + specialize (Hlive ltac:(discriminate)).
        set (a' := {| a_args := Some PEvent; a_len := _; a_data := _ |}) in *.
        apply IH; [assumption|]. rewrite Hlive. exact Hd.
  Qed.

  Lemma items_eqb_length : forall x y, items_eqb x y = true -> length x = length y.
  Proof.
    induction x as [|p x IH]; intros [|q y] H; cbn in *; try discriminate; [reflexivity|].
    apply andb_prop in H as [_ H]. f_equal. apply IH. exact H.
  Qed.

  Lemma bytes_eqb_refl x : bytes_eqb x x = true.
  Proof. induction x as [|b x IH]; cbn; [reflexivity|]. now rewrite N.eqb_refl. Qed.
  Lemma item_eqb_refl x : item_eqb x x = true.
  Proof.
    unfold item_eqb, hdr_eqb. rewrite !N.eqb_refl. cbn.
    destruct (it_pl x) as [[l d]|]; [|reflexivity]. now rewrite Nat.eqb_refl, bytes_eqb_refl.
  Qed.
  Lemma items_eqb_refl x : items_eqb x x = true.
  Proof. induction x as [|p x IH]; cbn; [reflexivity|]. now rewrite item_eqb_refl. Qed.

  (* main statement for /repo as it is, under the exact guard *)
  Lemma stream_prefix_legacy rs n : wf_recs env evs rs = true -> defect_cut false rs n = false ->
    let res := read_file false env evs wv (firstn n (enc rs)) in
    fst res = map full_item (whole_prefix rs n) /\ (snd res = EEof \/ snd res = EMissingArg).
  Proof.
    intros Hw Hd. cbv zeta. rewrite read_file_expected by exact Hw.
    apply expected_legacy_safe; assumption.
  Qed.

  Lemma stream_prefix_legacy_ok rs n : wf_recs env evs rs = true -> defect_cut false rs n = false ->
    ok_cut rs n (read_file false env evs wv (firstn n (enc rs))) = true.
  Proof.
    intros Hw Hd. destruct (stream_prefix_legacy rs n Hw Hd) as [H1 H2]. unfold ok_cut.
    rewrite H1, items_eqb_refl. destruct H2 as [H2|H2]; rewrite H2; reflexivity.
  Qed.

  (* the guard is exact: on every excluded cut the reader reports something that is not in the file *)
  Lemma guard_exact rs n : wf_recs env evs rs = true -> defect_cut false rs n = true ->
    ok_cut rs n (read_file false env evs wv (firstn n (enc rs))) = false.
  Proof.
    intros Hw Hd. rewrite read_file_expected by exact Hw. unfold ok_cut.
    pose proof (expected_legacy_defect rs a0 n Hw Hd) as HL.
    destruct (items_eqb _ _) eqn:E; [|reflexivity].
    apply items_eqb_length in E. rewrite map_length in E. lia.
  Qed.

  Lemma legacy_defect_exact rs n : wf_recs env evs rs = true ->
    ok_cut rs n (read_file false env evs wv (firstn n (enc rs))) = negb (defect_cut false rs n).
  Proof.
    intros Hw. destruct (defect_cut false rs n) eqn:E.
    - exact (guard_exact rs n Hw E).
    - exact (stream_prefix_legacy_ok rs n Hw E).
  Qed.

  Lemma stream_prefix_fixed_ok rs n : wf_recs env evs rs = true ->
    ok_cut rs n (read_file true env evs wv (firstn n (enc rs))) = true.
  Proof. intros Hw. rewrite stream_prefix_fixed by exact Hw. unfold ok_cut. cbn [fst snd]. now rewrite items_eqb_refl. Qed.

  (* ---------------------------------------------------------------- what is reported lies inside what was read *)
  Lemma full_item_in_bounds r : wf_rec env evs r = true -> item_in_bounds env evs (full_item r) = true.
  Proof.
    intros Hw. apply wf_unpack in Hw as (_ & _ & Hp). unfold item_in_bounds, full_item. cbn [it_pl it_hdr].
    destruct (r_pl r) as [|vals|d]; [reflexivity| |].
    - destruct Hp as (_ & Hty & _ & args & rets & He & Hm). rewrite Nat.eqb_refl. cbn [andb].
      replace (h_type (r_hdr r) =? UFTRACE_EVENT)%N with false
        by (destruct Hty as [Hty|Hty]; rewrite Hty; reflexivity).
      rewrite He. exact (fits_full _ vals 0 [] Hm eq_refl).
    - destruct Hp as (_ & Hty & _ & _ & He). rewrite Nat.eqb_refl, Hty. change (UFTRACE_EVENT =? UFTRACE_EVENT)%N with true.
      cbn [andb]. rewrite He. apply Nat.leb_refl.
  Qed.

  Lemma whole_prefix_incl : forall rs n r, In r (whole_prefix rs n) -> In r rs.
  Proof.
    induction rs as [|x rest IH]; intros n r H; cbn [whole_prefix] in H; [contradiction|].
    destruct (n <? HDR + plen x); [contradiction|]. destruct H as [H|H]; [left; exact H|right; eapply IH; exact H].
  Qed.

  Lemma reported_in_bounds_fixed rs n : wf_recs env evs rs = true ->
    forallb (item_in_bounds env evs) (fst (read_file true env evs wv (firstn n (enc rs)))) = true.
  Proof.
    intros Hw. rewrite stream_prefix_fixed by exact Hw. cbn [fst].
    apply forallb_forall. intros it Hin. apply in_map_iff in Hin as (r & <- & Hr).
    apply full_item_in_bounds. apply whole_prefix_incl in Hr.
    unfold wf_recs in Hw. rewrite forallb_forall in Hw. apply Hw. exact Hr.
  Qed.

  Lemma reported_in_bounds_legacy rs n : wf_recs env evs rs = true -> defect_cut false rs n = false ->
    forallb (item_in_bounds env evs) (fst (read_file false env evs wv (firstn n (enc rs)))) = true.
  Proof.
    intros Hw Hd. destruct (stream_prefix_legacy rs n Hw Hd) as [H1 _]. rewrite H1.
    apply forallb_forall. intros it Hin. apply in_map_iff in Hin as (r & <- & Hr).
    apply full_item_in_bounds. apply whole_prefix_incl in Hr.
    unfold wf_recs in Hw. rewrite forallb_forall in Hw. apply Hw. exact Hr.
  Qed.

  (* ---------------------------------------------------------------- termination on arbitrary bytes *)
  Lemma terminates fixed (f : bytes) a k : length f < HDR * k ->
    read_stream fixed env evs wv k a f = read_stream fixed env evs wv (S (length f)) a f /\
    snd (read_stream fixed env evs wv k a f) <> EFuel.
  Proof.
    intros Hk. pose proof HDR_16. split.
    - apply read_stream_fuel; lia.
    - apply read_stream_no_fuel. exact Hk.
  Qed.
End Claims.

(* ------------------------------------------------------------------ the legacy defect, concretely (DESIGN section 9 #6, repaired by ec00259) *)
Definition w_envl : list (N * N * (list aspec * list aspec)) := [(4198656%N, 128%N, ([AStr; AStr; AFix 4], [AFix 4]))].
Definition w_hdr t ty mo d a := {| h_time := t; h_type := ty; h_more := mo; h_magic := RECORD_MAGIC; h_depth := d; h_addr := a |}.
Definition w_rs : list rec :=
  [ {| r_hdr := w_hdr 1000 0 0 0 4198400; r_pl := PlNone |};
    {| r_hdr := w_hdr 1100 0 1 1 4198656;
       r_pl := PlArgs [VStr [104; 105]%N; VStr [115; 101; 99; 111; 110; 100]%N; VFix [7; 0; 0; 0]%N] |} ].
Definition w_cut : nat := 40.      (* inside the second string *)

Lemma partial_args_refuted :
  wf_recs (lookup_range w_envl) evsize_repo w_rs = true /\ w_cut <= length (enc w_rs) /\
  let res := read_file false (lookup_range w_envl) evsize_repo watchvar_repo (firstn w_cut (enc w_rs)) in
  ok_cut w_rs w_cut res = false /\
  forallb (item_in_bounds (lookup_range w_envl) evsize_repo) (fst res) = false /\
  length (fst res) = 2 /\ length (whole_prefix w_rs w_cut) = 1.
Proof. vm_compute. repeat split; try reflexivity. lia. Qed.

(* non-vacuity of the guarded statement: safe cuts exist inside payloads and in the filler *)
Lemma guard_non_vacuous :
  defect_cut false w_rs 33 = false /\ defect_cut false w_rs 16 = false /\ defect_cut false w_rs 48 = false /\
  defect_cut false w_rs 40 = true /\ length (enc w_rs) = 48.
Proof. vm_compute. repeat split; reflexivity. Qed.
