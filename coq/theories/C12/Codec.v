(* C12 - basic lemmas: little-endian codec, the 16-byte record header round trip, FILE primitives,
   prefix algebra of lists. *)
From Coq Require Import NArith ZArith List Bool Arith Lia.
Require Import ZifyBool ZifyN ZifyNat.
Import ListNotations.
Require Import UV.Gen.Consts UV.Gen.C12Consts UV.C12.Model.
Ltac Zify.zify_post_hook ::= Z.div_mod_to_equations.

(* ------------------------------------------------------------------ lists *)
Lemma firstn_app_ge {A} (m : nat) (x y : list A) :
  length x <= m -> firstn m (x ++ y) = x ++ firstn (m - length x) y.
Proof. intros H. rewrite firstn_app. f_equal. apply firstn_all2. exact H. Qed.

Lemma firstn_app_le {A} (m : nat) (x y : list A) :
  m <= length x -> firstn m (x ++ y) = firstn m x.
Proof.
  intros H. rewrite firstn_app. replace (m - length x) with 0 by lia. cbn. apply app_nil_r.
Qed.

Lemma skipn_firstn_app {A} (k j : nat) (z x : list A) :
  length z = k -> skipn k (firstn j (z ++ x)) = firstn (j - k) x.
Proof.
  intros H. rewrite skipn_firstn_comm. f_equal. rewrite skipn_app.
  rewrite skipn_all2 by lia. replace (k - length z) with 0 by lia. reflexivity.
Qed.

Lemma zeros_length n : length (zeros n) = n.
Proof. apply repeat_length. Qed.

(* ------------------------------------------------------------------ little endian *)
Lemma le_enc_length n v : length (le_enc n v) = n.
Proof. revert v. induction n; intros; cbn; [reflexivity | now rewrite IHn]. Qed.

Lemma le_dec_enc n v : le_dec (le_enc n v) = (v mod 256 ^ N.of_nat n)%N.
Proof.
  revert v. induction n; intros v.
  - cbn. now rewrite N.mod_1_r.
  - cbn [le_enc le_dec]. rewrite IHn. rewrite Nat2N.inj_succ, N.pow_succ_r'.
    rewrite N.mod_mul_r; [reflexivity | lia | apply N.pow_nonzero; lia].
Qed.

Lemma le_dec_enc2 (k : nat) : (N.of_nat k < 65536)%N -> N.to_nat (le_dec (le_enc 2 (N.of_nat k))) = k.
Proof.
  intros H. rewrite le_dec_enc. change (256 ^ N.of_nat 2)%N with 65536%N.
  rewrite N.mod_small by exact H. apply Nat2N.id.
Qed.

(* ------------------------------------------------------------------ record header *)
Lemma HDR_16 : HDR = 16.
Proof. reflexivity. Qed.

Lemma encode_hdr_length h : length (encode_hdr h) = HDR.
Proof. unfold encode_hdr. rewrite app_length, !le_enc_length. reflexivity. Qed.

Lemma decode_encode_hdr h : hdr_in_range h = true -> decode_hdr (encode_hdr h) = h.
Proof.
  destruct h as [t ty mo mg dp ad]. unfold hdr_in_range. cbn [h_time h_type h_more h_magic h_depth h_addr].
  intros H. unfold decode_hdr, encode_hdr.
  rewrite (firstn_app_le 8) by (rewrite le_enc_length; lia).
  rewrite (firstn_all2 (n := 8)) by (rewrite le_enc_length; lia).
  rewrite skipn_app, le_enc_length. replace (8 - 8) with 0 by lia.
  rewrite skipn_all2 by (rewrite le_enc_length; lia). cbn [app skipn].
  rewrite (firstn_all2 (n := 8)) by (rewrite le_enc_length; lia).
  rewrite !le_dec_enc. change (256 ^ N.of_nat 8)%N with 18446744073709551616%N.
  unfold field, pack_word. cbn [h_time h_type h_more h_magic h_depth h_addr].
  unfold REC_TYPE_SHIFT, REC_TYPE_WIDTH, REC_MORE_SHIFT, REC_MORE_WIDTH, REC_MAGIC_SHIFT, REC_MAGIC_WIDTH,
    REC_DEPTH_SHIFT, REC_DEPTH_WIDTH, REC_ADDR_SHIFT, REC_ADDR_WIDTH in *.
  repeat match goal with
         | |- context [(2 ^ ?k)%N] => let v := eval vm_compute in (2 ^ k)%N in change (2 ^ k)%N with v
         | H : context [(2 ^ ?k)%N] |- _ => let v := eval vm_compute in (2 ^ k)%N in change (2 ^ k)%N with v in H
         end.
  f_equal; lia.
Qed.

(* ------------------------------------------------------------------ fread *)
Lemma fread_app k (x y : bytes) : length x = k -> fread k (x ++ y) = (true, x, y).
Proof.
  intros H. unfold fread. rewrite app_length.
  destruct (length x + length y <? k) eqn:E; [apply Nat.ltb_lt in E; lia|].
  rewrite firstn_app_le by lia. rewrite firstn_all2 by lia.
  rewrite skipn_app, skipn_all2 by lia. replace (k - length x) with 0 by lia. reflexivity.
Qed.

Lemma fread_short k (f : bytes) : length f < k -> fread k f = (false, f, []).
Proof. intros H. unfold fread. destruct (length f <? k) eqn:E; [reflexivity | apply Nat.ltb_ge in E; lia]. Qed.

Lemma fread_rest_length k f : length (snd (fread k f)) <= length f - (if fst (fst (fread k f)) then k else 0).
Proof.
  unfold fread. destruct (length f <? k) eqn:E; cbn; [lia|]. rewrite skipn_length. lia.
Qed.

Lemma fread_rest_le k f ok got r : fread k f = (ok, got, r) -> length r <= length f.
Proof.
  unfold fread. destruct (length f <? k); intros H; inversion H; subst; cbn; [lia|]. rewrite skipn_length. lia.
Qed.

Lemma fread_ok_le k f got r : fread k f = (true, got, r) -> length r + k <= length f.
Proof.
  unfold fread. destruct (length f <? k) eqn:E; intros H; inversion H; subst.
  apply Nat.ltb_ge in E. rewrite skipn_length. lia.
Qed.

Lemma pad_to_lt m n : 0 < m -> pad_to m n < m.
Proof. intros H. unfold pad_to. apply Nat.mod_upper_bound. lia. Qed.
