(* C12 - model of the byte-level readers the analysis commands use on a data directory.

   Part 1 (first part of this file): the per-task record stream reader of utils/fstack.c
     read_task_ustack -> __read_task_ustack (16-byte record, magic check, EOF latch)
                      -> read_task_args / read_task_arg (argument payload, 2-byte string length,
                         4-byte rounding of every argument, 8-byte alignment skip)
                      -> read_task_event / read_task_event_size / save_task_event
   over a FILE modelled as the list of bytes not yet consumed (fread of k bytes either delivers
   k bytes or - short file - delivers nothing, consumes the rest and sets EOF; fseek may pass EOF).

   Part 2 (end of this file): the getline()/fgets() loop of the text readers (task.txt, info, .map,
   .sym): split into '\n'-terminated lines plus an unterminated last line.

   The model describes the code AS IT IS: `read_stream true` is read_task_ustack of the current tree, in which a
   payload read that hits end-of-file ends the task's data (fix ec00259).  `read_stream false` is the reader
   before that repair (legacy): it ignored the result of read_task_args/read_task_event (DESIGN section 9 #6);
   it is kept only for the `_legacy_` statements (refutation and exact characterisation of the old behaviour).

   No proofs in this file. *)
From Coq Require Import NArith List Bool Arith.
Import ListNotations.
Require Import UV.Gen.Consts UV.Gen.C12Consts.

Definition bytes := list N.

(* ------------------------------------------------------------------ little endian *)
Fixpoint le_dec (l : bytes) : N :=
  match l with [] => 0%N | b :: r => (b + 256 * le_dec r)%N end.
Fixpoint le_enc (n : nat) (v : N) : bytes :=
  match n with O => [] | S k => (v mod 256)%N :: le_enc k (v / 256)%N end.

(* ------------------------------------------------------------------ struct uftrace_record *)
Record hdr := { h_time : N; h_type : N; h_more : N; h_magic : N; h_depth : N; h_addr : N }.

Definition field (w sh wd : N) : N := ((w / 2 ^ sh) mod 2 ^ wd)%N.
(* layout measured on the compiled struct by gen_consts.py (REC_*_SHIFT / _WIDTH) *)
Definition decode_hdr (b : bytes) : hdr :=
  let t := le_dec (firstn 8 b) in
  let w := le_dec (firstn 8 (skipn 8 b)) in
  {| h_time := t;
     h_type := field w REC_TYPE_SHIFT REC_TYPE_WIDTH;
     h_more := field w REC_MORE_SHIFT REC_MORE_WIDTH;
     h_magic := field w REC_MAGIC_SHIFT REC_MAGIC_WIDTH;
     h_depth := field w REC_DEPTH_SHIFT REC_DEPTH_WIDTH;
     h_addr := field w REC_ADDR_SHIFT REC_ADDR_WIDTH |}.
Definition pack_word (h : hdr) : N :=
  (h_type h * 2 ^ REC_TYPE_SHIFT + h_more h * 2 ^ REC_MORE_SHIFT + h_magic h * 2 ^ REC_MAGIC_SHIFT
   + h_depth h * 2 ^ REC_DEPTH_SHIFT + h_addr h * 2 ^ REC_ADDR_SHIFT)%N.
Definition encode_hdr (h : hdr) : bytes := le_enc 8 (h_time h) ++ le_enc 8 (pack_word h).
Definition hdr_in_range (h : hdr) : bool :=
  (h_time h <? 2 ^ 64)%N && (h_type h <? 2 ^ REC_TYPE_WIDTH)%N && (h_more h <? 2 ^ REC_MORE_WIDTH)%N &&
  (h_magic h <? 2 ^ REC_MAGIC_WIDTH)%N && (h_depth h <? 2 ^ REC_DEPTH_WIDTH)%N && (h_addr h <? 2 ^ REC_ADDR_WIDTH)%N.
Definition HDR : nat := N.to_nat sizeof_uftrace_record.      (* 16 *)

(* ------------------------------------------------------------------ FILE *)
(* fread(buf, k, 1, fp): all or nothing; a short file is consumed to its end (EOF set) and the bytes
   that were there are what lands in the buffer *)
Definition fread (k : nat) (f : bytes) : bool * bytes * bytes :=
  if length f <? k then (false, f, []) else (true, firstn k f, skipn k f).
(* rem = n % m; if (rem) skip m - rem *)
Definition pad_to (m n : nat) : nat := (m - n mod m) mod m.
Definition zeros (n : nat) : bytes := repeat 0%N n.

(* ------------------------------------------------------------------ argument specs / task->args *)
Inductive aspec := AStr | AFix (sz : nat).           (* ARG_FMT_STR / STD_STRING ; anything else with spec->size *)
Definition spec_size (s : aspec) : nat := match s with AStr => 8 | AFix n => n end.   (* spec->size *)
Inductive argsptr := PSpec (args rets : list aspec) | PEvent.   (* &fl->args  |  (void * )1 *)
Record ast := { a_args : option argsptr; a_len : nat; a_data : bytes }.   (* valid bytes of args.data *)
Definition a0 : ast := {| a_args := None; a_len := 0; a_data := [] |}.      (* after memset *)

Inductive rres := ROk | RShort | RNoSpec | RUnknownEvent | RAssert | RNotModelled.

Definition read_arg (sp : aspec) (a : ast) (f : bytes) : rres * ast * bytes :=
  match sp with
  | AFix O => (ROk, a, f)
  | AFix sz =>
      let size := sz + pad_to 4 (a_len a + sz) in
      let '(ok, got, f1) := fread size f in
      if ok then (ROk, {| a_args := a_args a; a_len := a_len a + size; a_data := a_data a ++ got |}, f1)
      else (RShort, a, f1)
  | AStr =>
      let '(ok, got, f1) := fread 2 f in
      if ok then
        let slen := N.to_nat (le_dec got) in
        let a1 := {| a_args := a_args a; a_len := a_len a + 2; a_data := a_data a ++ got |} in
        let size := slen + pad_to 4 (a_len a1 + slen) in
        let '(ok2, got2, f2) := fread size f1 in
        if ok2 then (ROk, {| a_args := a_args a; a_len := a_len a1 + size; a_data := a_data a1 ++ got2 |}, f2)
        else (RShort, a1, f2)
      else (RShort, a, f1)
  end.

Fixpoint read_args (sps : list aspec) (a : ast) (f : bytes) : rres * ast * bytes :=
  match sps with
  | [] => (ROk, a, f)
  | sp :: r => let '(res, a', f') := read_arg sp a f in
               match res with ROk => read_args r a' f' | _ => (res, a', f') end
  end.

Section Reader.
  Variable fixed : bool.                                        (* true = /repo as it is; false = legacy (before ec00259) *)
  Variable env : N -> option (list aspec * list aspec).         (* session_find_filter + ARGUMENT|RETVAL flag *)
  Variable evsize : N -> option nat.                            (* fixed-size cases of read_task_event *)
  Variable watchvar : N -> bool.                                (* EVENT_ID_WATCH_VAR: not modelled *)

  Definition read_task_args (h : hdr) (is_ret : bool) (a : ast) (f : bytes) : rres * ast * bytes :=
    match env (h_addr h) with
    | None => (RNoSpec, a0, f)
    | Some (args, rets) =>
        let st := {| a_args := Some (PSpec args rets); a_len := 0; a_data := [] |} in
        let '(res, a', f') := read_args (if is_ret then rets else args) st f in
        match res with
        | ROk => (ROk, a', skipn (pad_to 8 (a_len a')) f')
        | _ => (res, a', f')
        end
    end.

  Definition read_task_event (h : hdr) (a : ast) (f : bytes) : rres * ast * bytes :=
    match evsize (h_addr h) with
    | Some sz =>
        let '(ok, got, f1) := fread 2 f in
        if ok then
          if (N.to_nat (le_dec got) =? sz)%nat then
            let '(ok2, got2, f2) := fread sz f1 in
            if ok2 then (ROk, {| a_args := Some PEvent; a_len := sz; a_data := got2 |}, skipn (pad_to 8 (sz + 2)) f2)
            else (RShort, a, f2)                               (* task->args keeps its previous content *)
          else (RAssert, a, f1)
        else (RShort, a, f1)
    | None => if watchvar (h_addr h) then (RNotModelled, a, f) else (RUnknownEvent, a, f)
    end.

  Definition payload_step (h : hdr) (a : ast) (f : bytes) : rres * ast * bytes :=
    if (h_type h =? UFTRACE_ENTRY)%N then read_task_args h false a f
    else if (h_type h =? UFTRACE_EXIT)%N then read_task_args h true a f
    else if (h_type h =? UFTRACE_EVENT)%N then read_task_event h a f
    else (ROk, a, f).

  Record item := { it_hdr : hdr; it_pl : option (nat * bytes) }.     (* Some (args.len, valid args.data) *)
  Inductive ending :=
  | EEof            (* read_task_ustack returned -1: end of this task's data (done latch) *)
  | EBadMagic       (* same, after pr_warn("invalid rstack read") *)
  | EMissingArg     (* pr_err_ns("record missing argument info"): the process exits with a diagnostic *)
  | EUnknownEvent   (* pr_err_ns("unknown event has data") *)
  | EAssert         (* ASSERT(len == buflen) *)
  | ECrash          (* list walk through the (void * )1 marker *)
  | ENotModelled
  | EFuel.
  Definition cons_item (x : item) (r : list item * ending) : list item * ending := (x :: fst r, snd r).

  Definition sum_sizes (l : list aspec) : nat := fold_right (fun s acc => spec_size s + acc) 0 l.
  Definition is_short (r : rres) : bool := match r with RShort => true | _ => false end.

  Fixpoint read_stream (fuel : nat) (a : ast) (f : bytes) : list item * ending :=
    match fuel with
    | O => ([], EFuel)
    | S k =>
      let '(ok, got, f1) := fread HDR f in
      if negb ok then ([], EEof) else
      let h := decode_hdr got in
      if negb (h_magic h =? RECORD_MAGIC)%N then ([], EBadMagic) else
      if (h_more h =? 0)%N then cons_item {| it_hdr := h; it_pl := None |} (read_stream k a f1) else
      let '(r, a', f2) := payload_step h a f1 in
      match r with
      | RUnknownEvent => ([], EUnknownEvent)
      | RAssert => ([], EAssert)
      | RNotModelled => ([], ENotModelled)
      | _ =>
        if fixed && is_short r then ([], EEof) else
        match a_args a' with
        | None => ([], EMissingArg)
        | Some p =>
            if (a_len a' =? 0)%nat then
              match p with
              | PEvent => ([], ECrash)
              | PSpec args rets =>
                  if (sum_sizes (if (h_type h =? UFTRACE_EXIT)%N then rets else args) =? 0)%nat
                  then cons_item {| it_hdr := h; it_pl := Some (0, []) |} (read_stream k a' f2)
                  else ([], EMissingArg)
              end
            else cons_item {| it_hdr := h; it_pl := Some (a_len a', a_data a') |} (read_stream k a' f2)
        end
      end
    end.

  (* the reader started on a freshly opened task file *)
  Definition read_file (f : bytes) : list item * ending := read_stream (S (length f)) a0 f.
End Reader.

(* ------------------------------------------------------------------ the writer's side: records *)
Inductive aval := VStr (s : bytes) | VFix (v : bytes).
Inductive pl := PlNone | PlArgs (vals : list aval) | PlEvent (data : bytes).
Record rec := { r_hdr : hdr; r_pl : pl }.

Fixpoint enc_vals (vals : list aval) (len : nat) : bytes :=
  match vals with
  | [] => []
  | VStr s :: r =>
      let size := length s + pad_to 4 (len + 2 + length s) in
      le_enc 2 (N.of_nat (length s)) ++ (s ++ zeros (pad_to 4 (len + 2 + length s))) ++ enc_vals r (len + 2 + size)
  | VFix v :: r =>
      let size := length v + pad_to 4 (len + length v) in
      (v ++ zeros (pad_to 4 (len + length v))) ++ enc_vals r (len + size)
  end.
Definition enc_payload (p : pl) : bytes :=
  match p with
  | PlNone => []
  | PlArgs vals => enc_vals vals 0
  | PlEvent d => le_enc 2 (N.of_nat (length d)) ++ d
  end.
Definition plen (r : rec) : nat := length (enc_payload (r_pl r)).
Definition reclen (r : rec) : nat := HDR + plen r + pad_to 8 (plen r).
Definition enc_rec (r : rec) : bytes :=
  encode_hdr (r_hdr r) ++ enc_payload (r_pl r) ++ zeros (pad_to 8 (plen r)).
Definition enc (rs : list rec) : bytes := flat_map enc_rec rs.

(* well-formed w.r.t. the argument specs / event table the reader will use *)
Fixpoint vals_match (sps : list aspec) (vals : list aval) : bool :=
  match sps, vals with
  | [], [] => true
  | AStr :: sr, VStr s :: vr => (N.of_nat (length s) <? 65536)%N && vals_match sr vr
  | AFix n :: sr, VFix v :: vr => (0 <? n)%nat && (length v =? n)%nat && vals_match sr vr
  | _, _ => false
  end.
Definition wf_rec (env : N -> option (list aspec * list aspec)) (evsize : N -> option nat) (r : rec) : bool :=
  let h := r_hdr r in
  hdr_in_range h && (h_magic h =? RECORD_MAGIC)%N &&
  match r_pl r with
  | PlNone => (h_more h =? 0)%N
  | PlArgs vals =>
      (h_more h =? 1)%N && ((h_type h =? UFTRACE_ENTRY)%N || (h_type h =? UFTRACE_EXIT)%N) &&
      match vals with [] => false | _ => true end &&
      match env (h_addr h) with
      | Some (args, rets) => vals_match (if (h_type h =? UFTRACE_EXIT)%N then rets else args) vals
      | None => false
      end
  | PlEvent d =>
      (h_more h =? 1)%N && (h_type h =? UFTRACE_EVENT)%N && (0 <? length d)%nat && (N.of_nat (length d) <? 65536)%N &&
      match evsize (h_addr h) with Some sz => (sz =? length d)%nat | None => false end
  end.
Definition wf_recs env evsize (rs : list rec) : bool := forallb (wf_rec env evsize) rs.

(* what the reader must report for a completely present record *)
Definition full_item (r : rec) : item :=
  {| it_hdr := r_hdr r;
     it_pl := match r_pl r with
              | PlNone => None
              | PlArgs vals => Some (length (enc_vals vals 0), enc_vals vals 0)
              | PlEvent d => Some (length d, d)       (* save_task_event: the struct without the length *)
              end |}.

(* the records that are completely present in the first n bytes (header and payload; the alignment
   filler after the payload carries no information) *)
Fixpoint whole_prefix (rs : list rec) (n : nat) : list rec :=
  match rs with
  | [] => []
  | r :: rest => if n <? HDR + plen r then [] else r :: whole_prefix rest (n - reclen r)
  end.

(* number of bytes of completely read pieces (fread units) when only m payload bytes exist *)
Fixpoint cut_len (vals : list aval) (len m : nat) : nat :=
  match vals with
  | [] => 0
  | VStr s :: r =>
      let size := length s + pad_to 4 (len + 2 + length s) in
      if m <? 2 then 0 else if m - 2 <? size then 2 else 2 + size + cut_len r (len + 2 + size) (m - 2 - size)
  | VFix v :: r =>
      let size := length v + pad_to 4 (len + length v) in
      if m <? size then 0 else size + cut_len r (len + size) (m - size)
  end.

(* the cuts on which the LEGACY reader reported something that is not in the file: inside an argument
   payload after its first completely read piece, or inside an event payload when an earlier record
   of the task carried a payload (whose bytes are then shown again).  [live]: task->args is non-empty *)
Fixpoint defect_cut (live : bool) (rs : list rec) (n : nat) : bool :=
  match rs with
  | [] => false
  | r :: rest =>
      if n <? HDR then false else
      let m := n - HDR in
      match r_pl r with
      | PlNone => defect_cut live rest (n - reclen r)
      | PlArgs vals => if m <? plen r then negb (cut_len vals 0 m =? 0)%nat else defect_cut true rest (n - reclen r)
      | PlEvent _ => if m <? plen r then live else defect_cut true rest (n - reclen r)
      end
  end.

(* complete description of the reader's result on the first n bytes of enc rs (proved equal to
   read_stream in Proofs.v); [a] is task->args before the first record *)
Definition live_state (a : ast) : bool :=
  match a_args a with None => false | Some _ => negb (a_len a =? 0)%nat end.
Definition state_after (a : ast) (env : N -> option (list aspec * list aspec)) (r : rec) : ast :=
  match r_pl r with
  | PlNone => a
  | PlArgs _ => {| a_args := match env (h_addr (r_hdr r)) with Some (x, y) => Some (PSpec x y) | None => None end;
                   a_len := plen r; a_data := enc_payload (r_pl r) |}
  | PlEvent d => {| a_args := Some PEvent; a_len := length d; a_data := d |}
  end.
Fixpoint expected (fixed : bool) (env : N -> option (list aspec * list aspec)) (a : ast) (rs : list rec) (n : nat)
  : list item * ending :=
  match rs with
  | [] => ([], EEof)
  | r :: rest =>
      if n <? HDR then ([], EEof) else
      let m := n - HDR in
      if m <? plen r then
        if fixed then ([], EEof) else
        match r_pl r with
        | PlNone => ([], EEof)
        | PlArgs vals =>
            let c := cut_len vals 0 m in
            if (c =? 0)%nat then ([], EMissingArg)
            else ([{| it_hdr := r_hdr r; it_pl := Some (c, firstn c (enc_payload (r_pl r))) |}], EEof)
        | PlEvent _ =>
            if live_state a then ([{| it_hdr := r_hdr r; it_pl := Some (a_len a, a_data a) |}], EEof)
            else ([], EMissingArg)
        end
      else cons_item (full_item r) (expected fixed env (state_after a env r) rest (n - reclen r))
  end.

(* ------------------------------------------------------------------ executable checkers (tie) *)
Fixpoint bytes_eqb (x y : bytes) : bool :=
  match x, y with
  | [], [] => true
  | p :: x', q :: y' => (p =? q)%N && bytes_eqb x' y'
  | _, _ => false
  end.
Definition hdr_eqb (x y : hdr) : bool :=
  (h_time x =? h_time y)%N && (h_type x =? h_type y)%N && (h_more x =? h_more y)%N &&
  (h_magic x =? h_magic y)%N && (h_depth x =? h_depth y)%N && (h_addr x =? h_addr y)%N.
Definition item_eqb (x y : item) : bool :=
  hdr_eqb (it_hdr x) (it_hdr y) &&
  match it_pl x, it_pl y with
  | None, None => true
  | Some (l1, d1), Some (l2, d2) => (l1 =? l2)%nat && bytes_eqb d1 d2
  | _, _ => false
  end.
Fixpoint items_eqb (x y : list item) : bool :=
  match x, y with
  | [], [] => true
  | p :: x', q :: y' => item_eqb p q && items_eqb x' y'
  | _, _ => false
  end.
Definition ending_eqb (x y : ending) : bool :=
  match x, y with
  | EEof, EEof | EBadMagic, EBadMagic | EMissingArg, EMissingArg | EUnknownEvent, EUnknownEvent
  | EAssert, EAssert | ECrash, ECrash | ENotModelled, ENotModelled | EFuel, EFuel => true
  | _, _ => false
  end.
Definition result_eqb (x y : list item * ending) : bool := items_eqb (fst x) (fst y) && ending_eqb (snd x) (snd y).

(* the property on one cut: what is reported is exactly the completely present records, and the
   reader ends with end-of-data or with the diagnostic exit *)
Definition ok_cut (rs : list rec) (n : nat) (res : list item * ending) : bool :=
  items_eqb (fst res) (map full_item (whole_prefix rs n)) &&
  match snd res with EEof | EMissingArg => true | _ => false end.

(* the consumer's view (get_argspec_string / pr_args walk the spec list over args.data): every
   argument of the spec lies inside the [len] valid bytes *)
Fixpoint fits (sps : list aspec) (off : nat) (len : nat) (d : bytes) : bool :=
  match sps with
  | [] => true
  | AFix O :: r => fits r off len d
  | AFix sz :: r => let size := sz + pad_to 4 (off + sz) in (off + size <=? len)%nat && fits r (off + size) len d
  | AStr :: r =>
      (off + 2 <=? len)%nat &&
      let slen := N.to_nat (le_dec (firstn 2 (skipn off d))) in
      let size := slen + pad_to 4 (off + 2 + slen) in
      (off + 2 + size <=? len)%nat && fits r (off + 2 + size) len d
  end.
Definition item_in_bounds (env : N -> option (list aspec * list aspec)) (evsize : N -> option nat) (it : item) : bool :=
  match it_pl it with
  | None => true
  | Some (len, d) =>
      let h := it_hdr it in
      (length d =? len)%nat &&
      if (h_type h =? UFTRACE_EVENT)%N then match evsize (h_addr h) with Some sz => (sz <=? len)%nat | None => true end
      else match env (h_addr h) with
           | Some (args, rets) => fits (if (h_type h =? UFTRACE_EXIT)%N then rets else args) 0 len d
           | None => true
           end
  end.

(* ------------------------------------------------------------------ concrete tables *)
Fixpoint lookup_range (l : list (N * N * (list aspec * list aspec))) (addr : N) : option (list aspec * list aspec) :=
  match l with
  | [] => None
  | (start, size, sp) :: r => if ((start <=? addr) && (addr <? start + size))%N then Some sp else lookup_range r addr
  end.
Fixpoint lookup_ev (l : list (N * N)) (id : N) : option nat :=
  match l with
  | [] => None
  | (i, sz) :: r => if (i =? id)%N then Some (N.to_nat sz) else lookup_ev r id
  end.
Definition evsize_repo : N -> option nat := lookup_ev EVENT_SIZES.
Definition watchvar_repo (id : N) : bool := existsb (N.eqb id) EVENT_WATCH_VAR_IDS.

(* one tie case: the generated records, and for every cut the implementation's result *)
Record cutres := { c_n : nat; c_items : list item; c_end : ending }.
Definition model_on (fixed : bool) envl (file : bytes) (n : nat) : list item * ending :=
  read_file fixed (lookup_range envl) evsize_repo watchvar_repo (firstn n file).
Definition agrees (fixed : bool) envl (file : bytes) (c : cutres) : bool :=
  result_eqb (model_on fixed envl file (c_n c)) (c_items c, c_end c).
Definition okc envl (rs : list rec) (c : cutres) : bool :=
  ok_cut rs (c_n c) (c_items c, c_end c) &&
  forallb (item_in_bounds (lookup_range envl) evsize_repo) (c_items c).
Definition in_defect_class (rs : list rec) (c : cutres) : bool := defect_cut false rs (c_n c).

Fixpoint bad_indices {A} (f : A -> bool) (l : list A) (i : nat) : list nat :=
  match l with
  | [] => []
  | x :: r => if f x then bad_indices f r (S i) else i :: bad_indices f r (S i)
  end.

(* ------------------------------------------------------------------ Part 2: text lines *)
(* getline()/fgets() loop: complete lines (without their '\n') and the unterminated rest *)
Definition NL : N := 10%N.
Fixpoint split_lines (cur : bytes) (f : bytes) : list bytes * bytes :=
  match f with
  | [] => ([], rev cur)
  | b :: r => if (b =? NL)%N then let '(ls, last) := split_lines [] r in (rev cur :: ls, last)
              else split_lines (b :: cur) r
  end.
Definition lines_of (f : bytes) : list bytes * bytes := split_lines [] f.
(* what a getline loop hands to the per-line parser: every complete line (with '\n') and then a
   non-empty unterminated rest (without) *)
Definition getlines (f : bytes) : list bytes :=
  let '(ls, last) := lines_of f in
  map (fun l => l ++ [NL]) ls ++ match last with [] => [] | _ => [last] end.
(* a reader that parses line by line and stops at the first line it rejects *)
Fixpoint parse_lines {E} (parse : bytes -> option E) (ls : list bytes) : list E * bool :=
  match ls with
  | [] => ([], true)
  | l :: r => match parse l with
              | Some e => let '(es, ok) := parse_lines parse r in (e :: es, ok)
              | None => ([], false)
              end
  end.
Definition read_text {E} (parse : bytes -> option E) (f : bytes) : list E * bool := parse_lines parse (getlines f).

(* the writer's side of a text file: lines without '\n' inside, each terminated by '\n' *)
Definition addnl (l : bytes) : bytes := l ++ [NL].
Definition text_of (ls : list bytes) : bytes := flat_map addnl ls.
Definition no_nl (l : bytes) : bool := forallb (fun b => negb (b =? NL)%N) l.
(* complete lines inside the first n bytes, and the unterminated rest (a prefix of the next line) *)
Fixpoint cut_lines (ls : list bytes) (n : nat) : list bytes * bytes :=
  match ls with
  | [] => ([], [])
  | l :: r => if (n <=? length l)%nat then ([], firstn n l)
              else let '(c, p) := cut_lines r (n - S (length l)) in (l :: c, p)
  end.
Definition expected_lines (ls : list bytes) (n : nat) : list bytes :=
  let '(c, p) := cut_lines ls n in map addnl c ++ match p with [] => [] | _ => [p] end.
