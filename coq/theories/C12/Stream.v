(* C12 - the record stream reader on every prefix of a well-formed task file *)
From Coq Require Import NArith ZArith List Bool Arith Lia.
Require Import ZifyBool ZifyN ZifyNat.
Import ListNotations.
Require Import UV.Gen.Consts UV.Gen.C12Consts UV.C12.Model UV.C12.Codec UV.C12.Args.
Ltac Zify.zify_post_hook ::= Z.div_mod_to_equations.

(* ------------------------------------------------------------------ the file only shrinks *)
Lemma read_arg_le sp a f r a' f' : read_arg sp a f = (r, a', f') -> length f' <= length f.
Proof.
  destruct sp as [|[|sz]]; cbn [read_arg].
  - destruct (fread 2 f) as [[ok got] f1] eqn:E1. pose proof (fread_rest_le _ _ _ _ _ E1).
    destruct ok.
    + destruct (fread _ f1) as [[ok2 got2] f2] eqn:E2. pose proof (fread_rest_le _ _ _ _ _ E2).
      destruct ok2; intros H1; inversion H1; subst; lia.
    + intros H1; inversion H1; subst; lia.
  - intros H1; inversion H1; subst; lia.
  - destruct (fread _ f) as [[ok got] f1] eqn:E1. pose proof (fread_rest_le _ _ _ _ _ E1).
    destruct ok; intros H1; inversion H1; subst; lia.
Qed.

Lemma read_args_le sps : forall a f r a' f', read_args sps a f = (r, a', f') -> length f' <= length f.
Proof.
  induction sps as [|sp sps IH]; intros a f r a' f'; cbn [read_args].
  - intros H; inversion H; subst; lia.
  - destruct (read_arg sp a f) as [[r1 a1] f1] eqn:E1. apply read_arg_le in E1.
    destruct r1; try (intros H; inversion H; subst; lia).
    intros H. apply IH in H. lia.
Qed.

Section Reader.
  Variable fixed : bool.
  Variable env : N -> option (list aspec * list aspec).
  Variable evs : N -> option nat.
  Variable wv : N -> bool.

  Lemma read_task_args_le h b a f r a' f' : read_task_args env h b a f = (r, a', f') -> length f' <= length f.
  Proof.
    unfold read_task_args.
    destruct (env (h_addr h)) as [[args rets]|]; [|intros H; inversion H; subst; lia].
    destruct (read_args _ _ f) as [[res a1] f1] eqn:E1. apply read_args_le in E1.
    destruct res; intros H; inversion H; subst; try lia. rewrite skipn_length. lia.
  Qed.

  Lemma payload_step_le h a f r a' f' : payload_step env evs wv h a f = (r, a', f') -> length f' <= length f.
  Proof.
    unfold payload_step, read_task_event.
    pose proof (read_task_args_le h) as Hargs.
    destruct (h_type h =? UFTRACE_ENTRY)%N; [apply Hargs|].
    destruct (h_type h =? UFTRACE_EXIT)%N; [apply Hargs|].
    destruct (h_type h =? UFTRACE_EVENT)%N; [|intros H; inversion H; subst; lia].
    destruct (evs (h_addr h)) as [sz|].
    - destruct (fread 2 f) as [[ok got] f1] eqn:E1. pose proof (fread_rest_le _ _ _ _ _ E1).
      destruct ok; [|intros H1; inversion H1; subst; lia].
      destruct (_ =? sz); [|intros H1; inversion H1; subst; lia].
      destruct (fread sz f1) as [[ok2 got2] f2] eqn:E2. pose proof (fread_rest_le _ _ _ _ _ E2).
      destruct ok2; intros H1; inversion H1; subst; try lia. rewrite skipn_length. lia.
    - destruct (wv (h_addr h)); intros H; inversion H; subst; lia.
  Qed.

  (* ---------------------------------------------------------------- termination: fuel never runs out *)
  Lemma read_stream_fuel : forall k1 k2 a f, length f < HDR * k1 -> length f < HDR * k2 ->
    read_stream fixed env evs wv k1 a f = read_stream fixed env evs wv k2 a f.
  Proof.
    pose proof HDR_16 as H16.
    induction k1 as [|k1 IH]; intros [|k2] a f H1 H2; try lia.
    cbn [read_stream].
    destruct (fread HDR f) as [[ok got] f1] eqn:Ef.
    destruct ok; cbn [negb]; [|reflexivity].
    apply fread_ok_le in Ef.
    destruct (negb (h_magic (decode_hdr got) =? RECORD_MAGIC)%N); [reflexivity|].
    destruct (h_more (decode_hdr got) =? 0)%N.
    - f_equal. apply IH; lia.
    - destruct (payload_step env evs wv (decode_hdr got) a f1) as [[r a'] f2] eqn:Ep.
      apply payload_step_le in Ep.
      assert (Hrec : read_stream fixed env evs wv k1 a' f2 = read_stream fixed env evs wv k2 a' f2) by (apply IH; lia).
      destruct r; try reflexivity;
        (destruct (fixed && _); [reflexivity|]; destruct (a_args a') as [p|]; [|reflexivity];
         destruct (a_len a' =? 0); [destruct p; [|reflexivity]; destruct (_ =? 0); [|reflexivity]|];
         f_equal; exact Hrec).
  Qed.

  Lemma read_stream_no_fuel : forall k a f, length f < HDR * k -> snd (read_stream fixed env evs wv k a f) <> EFuel.
  Proof.
    pose proof HDR_16 as H16.
    induction k as [|k IH]; intros a f H1; try lia.
    cbn [read_stream].
    destruct (fread HDR f) as [[ok got] f1] eqn:Ef.
    destruct ok; cbn [negb]; [|cbn; discriminate].
    apply fread_ok_le in Ef.
    destruct (negb (h_magic (decode_hdr got) =? RECORD_MAGIC)%N); [cbn; discriminate|].
    destruct (h_more (decode_hdr got) =? 0)%N.
    - cbn [cons_item snd]. apply IH; lia.
    - destruct (payload_step env evs wv (decode_hdr got) a f1) as [[r a'] f2] eqn:Ep.
      apply payload_step_le in Ep.
      assert (Hrec : snd (read_stream fixed env evs wv k a' f2) <> EFuel) by (apply IH; lia).
      destruct r; try (cbn; discriminate);
        (destruct (fixed && _); [cbn; discriminate|]; destruct (a_args a') as [p|]; [|cbn; discriminate];
         destruct (a_len a' =? 0); [destruct p; [|cbn; discriminate]; destruct (_ =? 0); [|cbn; discriminate]|];
         cbn [cons_item snd]; exact Hrec).
  Qed.

  (* ---------------------------------------------------------------- one record *)
  Lemma enc_rec_length r : length (enc_rec r) = reclen r.
  Proof. unfold enc_rec, reclen, plen. rewrite !app_length, encode_hdr_length, zeros_length. lia. Qed.

  Lemma read_empty k a : 0 < k -> read_stream fixed env evs wv k a [] = ([], EEof).
  Proof. destruct k; [lia|]. intros _. reflexivity. Qed.

  Definition good (a : ast) : Prop := a_args a = None \/ live_state a = true.

  Lemma wf_unpack r : wf_rec env evs r = true ->
    hdr_in_range (r_hdr r) = true /\ h_magic (r_hdr r) = RECORD_MAGIC /\
    match r_pl r with
    | PlNone => h_more (r_hdr r) = 0%N
    | PlArgs vals =>
        h_more (r_hdr r) = 1%N /\ (h_type (r_hdr r) = UFTRACE_ENTRY \/ h_type (r_hdr r) = UFTRACE_EXIT) /\ vals <> [] /\
        exists args rets, env (h_addr (r_hdr r)) = Some (args, rets) /\
          vals_match (if (h_type (r_hdr r) =? UFTRACE_EXIT)%N then rets else args) vals = true
    | PlEvent d =>
        h_more (r_hdr r) = 1%N /\ h_type (r_hdr r) = UFTRACE_EVENT /\ 0 < length d /\ (N.of_nat (length d) < 65536)%N /\
        evs (h_addr (r_hdr r)) = Some (length d)
    end.
  Proof.
    unfold wf_rec. intros H.
    apply andb_prop in H as [H Hp]. apply andb_prop in H as [Hr Hm]. apply N.eqb_eq in Hm.
    split; [exact Hr|]. split; [exact Hm|].
    destruct (r_pl r) as [|vals|d].
    - now apply N.eqb_eq in Hp.
    - apply andb_prop in Hp as [Hp He]. apply andb_prop in Hp as [Hp Hne]. apply andb_prop in Hp as [Hmo Hty].
      apply N.eqb_eq in Hmo. split; [exact Hmo|].
      split. { apply orb_prop in Hty as [Hty|Hty]; apply N.eqb_eq in Hty; auto. }
      split. { destruct vals; [discriminate|congruence]. }
      destruct (env (h_addr (r_hdr r))) as [[args rets]|]; [|discriminate].
      exists args, rets. split; [reflexivity|exact He].
    - apply andb_prop in Hp as [Hp He]. apply andb_prop in Hp as [Hp Hlt]. apply andb_prop in Hp as [Hp H0].
      apply andb_prop in Hp as [Hmo Hty]. apply N.eqb_eq in Hmo. apply N.eqb_eq in Hty.
      apply Nat.ltb_lt in H0. apply N.ltb_lt in Hlt.
      repeat split; try assumption.
      destruct (evs (h_addr (r_hdr r))) as [sz|]; [|discriminate]. apply Nat.eqb_eq in He. now subst.
  Qed.

  (* argument payload: complete (with whatever follows) and truncated *)
  Lemma args_step_full h vals args rets y :
    (h_type h = UFTRACE_ENTRY \/ h_type h = UFTRACE_EXIT) -> env (h_addr h) = Some (args, rets) ->
    vals_match (if (h_type h =? UFTRACE_EXIT)%N then rets else args) vals = true ->
    forall a, payload_step env evs wv h a (enc_vals vals 0 ++ y) =
      (ROk, {| a_args := Some (PSpec args rets); a_len := length (enc_vals vals 0); a_data := enc_vals vals 0 |},
       skipn (pad_to 8 (length (enc_vals vals 0))) y).
  Proof.
    intros Hty He Hm a. unfold payload_step, read_task_args. rewrite He.
    destruct Hty as [Hty|Hty]; rewrite Hty in *.
    - change (UFTRACE_ENTRY =? UFTRACE_ENTRY)%N with true. change (UFTRACE_ENTRY =? UFTRACE_EXIT)%N with false in Hm.
      cbn iota.
      pose proof (read_args_full args vals {| a_args := Some (PSpec args rets); a_len := 0; a_data := [] |} y Hm) as R.
      cbn [a_len a_data a_args] in R. rewrite R. cbn [a_len app plus]. reflexivity.
    - change (UFTRACE_EXIT =? UFTRACE_ENTRY)%N with false. change (UFTRACE_EXIT =? UFTRACE_EXIT)%N with true in *.
      cbn iota.
      pose proof (read_args_full rets vals {| a_args := Some (PSpec args rets); a_len := 0; a_data := [] |} y Hm) as R.
      cbn [a_len a_data a_args] in R. rewrite R. cbn [a_len app plus]. reflexivity.
  Qed.

  Lemma args_step_cut h vals args rets m :
    (h_type h = UFTRACE_ENTRY \/ h_type h = UFTRACE_EXIT) -> env (h_addr h) = Some (args, rets) ->
    vals_match (if (h_type h =? UFTRACE_EXIT)%N then rets else args) vals = true ->
    m < length (enc_vals vals 0) ->
    forall a, payload_step env evs wv h a (firstn m (enc_vals vals 0)) =
      (RShort, {| a_args := Some (PSpec args rets); a_len := cut_len vals 0 m;
                  a_data := firstn (cut_len vals 0 m) (enc_vals vals 0) |}, []).
  Proof.
    intros Hty He Hm Hlt a. unfold payload_step, read_task_args. rewrite He.
    destruct Hty as [Hty|Hty]; rewrite Hty in *.
    - change (UFTRACE_ENTRY =? UFTRACE_ENTRY)%N with true. change (UFTRACE_ENTRY =? UFTRACE_EXIT)%N with false in Hm.
      cbn iota.
      pose proof (read_args_cut args vals {| a_args := Some (PSpec args rets); a_len := 0; a_data := [] |} m Hm Hlt) as R.
      cbn [a_len a_data a_args] in R. rewrite R. cbn [app plus]. reflexivity.
    - change (UFTRACE_EXIT =? UFTRACE_ENTRY)%N with false. change (UFTRACE_EXIT =? UFTRACE_EXIT)%N with true in *.
      cbn iota.
      pose proof (read_args_cut rets vals {| a_args := Some (PSpec args rets); a_len := 0; a_data := [] |} m Hm Hlt) as R.
      cbn [a_len a_data a_args] in R. rewrite R. cbn [app plus]. reflexivity.
  Qed.

  (* event payload *)
  Lemma event_step_full h d y :
    h_type h = UFTRACE_EVENT -> evs (h_addr h) = Some (length d) -> (N.of_nat (length d) < 65536)%N ->
    forall a, payload_step env evs wv h a ((le_enc 2 (N.of_nat (length d)) ++ d) ++ y) =
      (ROk, {| a_args := Some PEvent; a_len := length d; a_data := d |}, skipn (pad_to 8 (length d + 2)) y).
  Proof.
    intros Hty He Hlt a. unfold payload_step, read_task_event. rewrite Hty, He.
    change (UFTRACE_EVENT =? UFTRACE_ENTRY)%N with false. change (UFTRACE_EVENT =? UFTRACE_EXIT)%N with false.
    change (UFTRACE_EVENT =? UFTRACE_EVENT)%N with true. cbn iota.
    rewrite <- !app_assoc. rewrite (fread_app 2) by apply le_enc_length.
    rewrite le_dec_enc2 by exact Hlt. rewrite Nat.eqb_refl.
    rewrite (fread_app (length d)) by reflexivity. reflexivity.
  Qed.

  Lemma event_step_cut h d m :
    h_type h = UFTRACE_EVENT -> evs (h_addr h) = Some (length d) -> (N.of_nat (length d) < 65536)%N ->
    m < 2 + length d ->
    forall a, payload_step env evs wv h a (firstn m (le_enc 2 (N.of_nat (length d)) ++ d)) = (RShort, a, []).
  Proof.
    intros Hty He Hlt Hm a. unfold payload_step, read_task_event. rewrite Hty, He.
    change (UFTRACE_EVENT =? UFTRACE_ENTRY)%N with false. change (UFTRACE_EVENT =? UFTRACE_EXIT)%N with false.
    change (UFTRACE_EVENT =? UFTRACE_EVENT)%N with true. cbn iota.
    destruct (m <? 2) eqn:E2.
    - apply Nat.ltb_lt in E2. rewrite fread_short by (rewrite firstn_length; lia). reflexivity.
    - apply Nat.ltb_ge in E2.
      rewrite (firstn_app_ge m) by (rewrite le_enc_length; lia). rewrite le_enc_length.
      rewrite (fread_app 2) by apply le_enc_length.
      rewrite le_dec_enc2 by exact Hlt. rewrite Nat.eqb_refl.
      rewrite fread_short by (rewrite firstn_length; lia). reflexivity.
  Qed.

  (* ---------------------------------------------------------------- the whole stream *)
  Lemma live_after r a : wf_rec env evs r = true -> good a -> good (state_after a env r).
  Proof.
    intros Hw Hg. apply wf_unpack in Hw as (_ & _ & Hp). unfold state_after, good, live_state.
    destruct (r_pl r) as [|vals|d] eqn:Epl; [exact Hg| |].
    - destruct Hp as (_ & _ & Hne & args & rets & He & Hm). rewrite He. right. cbn [a_args a_len].
      pose proof (vals_match_nonempty _ vals 0 Hm Hne) as [Hl _]. unfold plen. rewrite Epl. cbn [enc_payload].
      destruct (length _ =? 0) eqn:E; [apply Nat.eqb_eq in E; lia|reflexivity].
    - right. cbn [a_args a_len]. destruct Hp as (_ & _ & H0 & _). destruct (length d =? 0) eqn:E; [apply Nat.eqb_eq in E; lia|reflexivity].
  Qed.

  Lemma read_expected : forall rs k a n, wf_recs env evs rs = true -> good a ->
    length (firstn n (enc rs)) < HDR * k ->
    read_stream fixed env evs wv k a (firstn n (enc rs)) = expected fixed env a rs n.
  Proof.
    pose proof HDR_16 as H16.
    induction rs as [|r rest IH]; intros k a n Hw Hg Hk.
    - cbn [enc flat_map]. rewrite firstn_nil. apply read_empty. cbn in Hk. lia.
    - cbn [wf_recs forallb] in Hw. apply andb_prop in Hw as [Hr Hrest].
      pose proof (live_after r a Hr Hg) as Hg'.
      pose proof (wf_unpack r Hr) as (Hrange & Hmagic & Hp).
      change (enc (r :: rest)) with (enc_rec r ++ enc rest) in *.
      destruct k as [|k]; [lia|].
      cbn [expected].
      destruct (n <? HDR) eqn:En.
      { apply Nat.ltb_lt in En. cbn [read_stream]. rewrite fread_short by (rewrite firstn_length; lia). reflexivity. }
      apply Nat.ltb_ge in En.
      rewrite firstn_length, app_length, enc_rec_length in Hk.
      assert (Hk1 : 0 < k) by (unfold reclen in Hk; lia).
      unfold enc_rec. rewrite <- !app_assoc.
      rewrite (firstn_app_ge n (encode_hdr (r_hdr r))) by (rewrite encode_hdr_length; lia).
      rewrite encode_hdr_length.
      cbn [read_stream]. rewrite (fread_app HDR) by apply encode_hdr_length.
      cbn [negb]. rewrite decode_encode_hdr by exact Hrange.
      rewrite Hmagic, N.eqb_refl. cbn [negb].
      set (m := n - HDR) in *.
      assert (Hrec : forall a', good a' ->
                read_stream fixed env evs wv k a' (firstn (n - reclen r) (enc rest)) =
                expected fixed env a' rest (n - reclen r)).
      { intros a' Ha'. apply IH; [exact Hrest | exact Ha' |]. rewrite firstn_length. unfold reclen in *. lia. }
      unfold state_after in Hg', Hrec |- *. unfold plen in *. unfold full_item.
      destruct (r_pl r) as [|vals|d] eqn:Epl; cbn [enc_payload] in *.
      + (* no payload *)
        rewrite Hp. change (0 =? 0)%N with true. cbn iota. cbn [length app].
        replace (m <? 0) with false by (symmetry; apply Nat.ltb_ge; lia).
        change (pad_to 8 0) with 0. cbn [zeros repeat app].
        f_equal. replace m with (n - reclen r) by (unfold reclen, plen; rewrite Epl; cbn; lia).
        apply Hrec. exact Hg.
      + (* argument payload *)
        destruct Hp as (Hmore & Hty & Hne & args & rets & He & Hm).
        rewrite Hmore. change (1 =? 0)%N with false. cbn iota.
        pose proof (vals_match_nonempty _ vals 0 Hm Hne) as [Hlen Hsum].
        set (Pl := enc_vals vals 0) in *. set (P := length Pl) in *.
        destruct (m <? P) eqn:Em.
        * apply Nat.ltb_lt in Em.
          rewrite (firstn_app_le m Pl) by lia.
          rewrite (args_step_cut _ vals args rets m Hty He Hm Em).
          destruct fixed; cbn [andb is_short]; [reflexivity|].
          cbn [a_args a_len a_data].
          destruct (cut_len vals 0 m =? 0) eqn:Ec.
          -- replace (sum_sizes (if (h_type (r_hdr r) =? UFTRACE_EXIT)%N then rets else args) =? 0) with false
               by (symmetry; apply Nat.eqb_neq; lia). reflexivity.
          -- clear Hrec IH Hk; destruct k; [lia|]; reflexivity.
        * apply Nat.ltb_ge in Em.
          rewrite (firstn_app_ge m Pl) by lia. fold P.
          rewrite (args_step_full _ vals args rets _ Hty He Hm). fold Pl P.
          rewrite andb_false_r. cbn [a_args a_len a_data].
          replace (P =? 0) with false by (symmetry; apply Nat.eqb_neq; lia).
          rewrite He in *.
          f_equal.
          rewrite skipn_firstn_app by apply zeros_length.
          replace (m - P - pad_to 8 P) with (n - reclen r) by (unfold reclen, plen; rewrite Epl; cbn [enc_payload]; fold Pl P; lia).
          apply Hrec. exact Hg'.
      + (* event payload *)
        destruct Hp as (Hmore & Hty & H0 & Hlt & He).
        rewrite Hmore. change (1 =? 0)%N with false. cbn iota.
        rewrite app_length, le_enc_length in *.
        destruct (m <? 2 + length d) eqn:Em.
        * apply Nat.ltb_lt in Em.
          rewrite (firstn_app_le m (le_enc 2 (N.of_nat (length d)) ++ d)) by (rewrite app_length, le_enc_length; lia).
          rewrite (event_step_cut _ d m Hty He Hlt Em).
          destruct fixed; cbn [andb is_short]; [reflexivity|].
          unfold live_state. destruct Hg as [Hg|Hg].
          -- rewrite Hg. reflexivity.
          -- unfold live_state in Hg. destruct (a_args a) as [p|]; [|discriminate].
             rewrite Hg. destruct (a_len a =? 0); [discriminate|].
             clear Hrec IH Hk; destruct k; [lia|]; reflexivity.
        * apply Nat.ltb_ge in Em.
          rewrite (firstn_app_ge m (le_enc 2 (N.of_nat (length d)) ++ d)) by (rewrite app_length, le_enc_length; lia).
          rewrite (event_step_full _ d _ Hty He Hlt).
          rewrite andb_false_r. cbn [a_args a_len a_data].
          replace (length d =? 0) with false by (symmetry; apply Nat.eqb_neq; lia).
          f_equal.
          rewrite app_length, le_enc_length.
          replace (pad_to 8 (length d + 2)) with (pad_to 8 (2 + length d)) by (f_equal; lia).
          rewrite skipn_firstn_app by apply zeros_length.
          replace (m - (2 + length d) - pad_to 8 (2 + length d)) with (n - reclen r)
            by (unfold reclen, plen; rewrite Epl; cbn [enc_payload]; rewrite app_length, le_enc_length; lia).
          apply Hrec. exact Hg'.
  Qed.
End Reader.
