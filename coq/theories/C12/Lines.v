(* C12 - the getline()/fgets() loop of the text readers on every prefix of a text file *)
From Coq Require Import NArith ZArith List Bool Arith Lia.
Import ListNotations.
Require Import UV.C12.Model UV.C12.Codec.

Lemma no_nl_not_in l : no_nl l = true -> ~ In NL l.
Proof.
  unfold no_nl. rewrite forallb_forall. intros H Hin. specialize (H NL Hin).
  rewrite N.eqb_refl in H. discriminate.
Qed.

Lemma in_firstn {A} (x : A) : forall n l, In x (firstn n l) -> In x l.
Proof.
  induction n as [|n IH]; intros [|a l] H; cbn in H; try contradiction.
  destruct H as [H|H]; [left; exact H | right; apply IH; exact H].
Qed.

Lemma no_nl_firstn l n : no_nl l = true -> no_nl (firstn n l) = true.
Proof.
  unfold no_nl. rewrite !forallb_forall. intros H x Hin. apply H. eapply in_firstn. exact Hin.
Qed.

Lemma split_lines_app l : forall cur g, ~ In NL l -> split_lines cur (l ++ g) = split_lines (rev l ++ cur) g.
Proof.
  induction l as [|a l IH]; intros cur g Hn; [reflexivity|].
  cbn [app split_lines]. destruct (a =? NL)%N eqn:E.
  - apply N.eqb_eq in E. subst. exfalso. apply Hn. left. reflexivity.
  - rewrite IH by (intros Hin; apply Hn; right; exact Hin).
    cbn [rev]. rewrite <- app_assoc. reflexivity.
Qed.

Lemma getlines_line l g : no_nl l = true -> getlines (l ++ NL :: g) = addnl l :: getlines g.
Proof.
  intros Hl. unfold getlines, lines_of.
  rewrite split_lines_app by (apply no_nl_not_in; exact Hl).
  cbn [split_lines]. rewrite N.eqb_refl. rewrite app_nil_r, rev_involutive.
  destruct (split_lines [] g) as [ls last]. reflexivity.
Qed.

Lemma getlines_partial p : no_nl p = true -> getlines p = match p with [] => [] | _ => [p] end.
Proof.
  intros Hp. unfold getlines, lines_of.
  rewrite <- (app_nil_r p) at 1. rewrite split_lines_app by (apply no_nl_not_in; exact Hp).
  cbn [split_lines]. rewrite app_nil_r, rev_involutive. reflexivity.
Qed.

Lemma getlines_prefix : forall ls n, forallb no_nl ls = true ->
  getlines (firstn n (text_of ls)) = expected_lines ls n.
Proof.
  induction ls as [|l r IH]; intros n Hw.
  - cbn [text_of flat_map]. rewrite firstn_nil. reflexivity.
  - cbn [forallb] in Hw. apply andb_prop in Hw as [Hl Hr].
    change (text_of (l :: r)) with (addnl l ++ text_of r). unfold addnl at 1. rewrite <- app_assoc. cbn [app].
    unfold expected_lines. cbn [cut_lines].
    destruct (n <=? length l) eqn:E.
    + apply Nat.leb_le in E. rewrite firstn_app_le by exact E. cbn [map app].
      apply getlines_partial. apply no_nl_firstn. exact Hl.
    + apply Nat.leb_gt in E. rewrite firstn_app_ge by lia.
      replace (n - length l) with (S (n - S (length l))) by lia. cbn [firstn].
      rewrite getlines_line by exact Hl. rewrite IH by exact Hr. unfold expected_lines.
      destruct (cut_lines r (n - S (length l))) as [c p]. reflexivity.
Qed.

(* the complete lines are a prefix of the file's lines; the rest is a prefix of the next line *)
Lemma cut_lines_structure : forall ls n c p, cut_lines ls n = (c, p) ->
  c = firstn (length c) ls /\
  (p = [] \/ exists l, nth_error ls (length c) = Some l /\ p = firstn (length p) l).
Proof.
  induction ls as [|l r IH]; intros n c p H; cbn [cut_lines] in H.
  - inversion H; subst. split; [reflexivity | left; reflexivity].
  - destruct (n <=? length l) eqn:E.
    + inversion H; subst. split; [reflexivity|]. right. exists l. split; [reflexivity|].
      apply Nat.leb_le in E. rewrite firstn_length, Nat.min_l by exact E. reflexivity.
    + destruct (cut_lines r (n - S (length l))) as [c' p'] eqn:Ec. inversion H; subst.
      destruct (IH _ _ _ Ec) as [I1 I2]. split.
      * cbn [length firstn]. f_equal. exact I1.
      * destruct I2 as [I2 | (l' & Hn & Hp)]; [left; exact I2|]. right. exists l'. split; [exact Hn | exact Hp].
Qed.

Lemma parse_lines_app {E} (parse : bytes -> option E) : forall xs ys,
  parse_lines parse (xs ++ ys) =
  let '(es, ok) := parse_lines parse xs in
  if ok then let '(es', ok') := parse_lines parse ys in (es ++ es', ok') else (es, false).
Proof.
  induction xs as [|x xs IH]; intros ys; cbn [app parse_lines].
  - destruct (parse_lines parse ys) as [es' ok']. reflexivity.
  - destruct (parse x) as [e|]; [|reflexivity].
    rewrite IH. destruct (parse_lines parse xs) as [es ok].
    destruct ok; [|reflexivity]. destruct (parse_lines parse ys) as [es' ok']. reflexivity.
Qed.

(* a line-by-line reader on the first n bytes: the entries of the complete lines, in order, then - only if all of
   them were accepted - whatever the line parser makes of the unterminated rest *)
Lemma read_text_prefix {E} (parse : bytes -> option E) ls n : forallb no_nl ls = true ->
  read_text parse (firstn n (text_of ls)) =
  let '(c, p) := cut_lines ls n in
  let '(es, ok) := parse_lines parse (map addnl c) in
  if ok then match p with
             | [] => (es, true)
             | _ => match parse p with Some e => (es ++ [e], true) | None => (es, false) end
             end
  else (es, false).
Proof.
  intros Hw. unfold read_text. rewrite getlines_prefix by exact Hw. unfold expected_lines.
  destruct (cut_lines ls n) as [c p]. rewrite parse_lines_app.
  destruct (parse_lines parse (map addnl c)) as [es ok]. destruct ok; [|reflexivity].
  destruct p as [|b p]; cbn [parse_lines].
  - now rewrite app_nil_r.
  - destruct (parse (b :: p)); [reflexivity|]. now rewrite app_nil_r.
Qed.
