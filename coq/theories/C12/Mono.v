(* C12 - monotonicity in the crash point: whatever survives of a longer prefix of a task file extends what survives
   of a shorter one; nothing reported from the shorter file is taken back or changed when more bytes are present. *)
From Coq Require Import NArith List Bool Arith Lia.
Import ListNotations.
Require Import UV.Gen.Consts UV.Gen.C12Consts UV.C12.Model UV.C12.Codec UV.C12.Args UV.C12.Stream UV.C12.Proofs.

Lemma whole_prefix_mono : forall rs n m, n <= m -> exists k, whole_prefix rs n = firstn k (whole_prefix rs m).
Proof.
  induction rs as [|r rest IH]; intros n m Hnm; cbn [whole_prefix]; [exists 0; reflexivity|].
  destruct (n <? HDR + plen r) eqn:En; [exists 0; reflexivity|].
  apply Nat.ltb_ge in En.
  replace (m <? HDR + plen r) with false by (symmetry; apply Nat.ltb_ge; lia).
  destruct (IH (n - reclen r) (m - reclen r)) as [k Hk]; [lia|].
  exists (S k). cbn [firstn]. rewrite Hk. reflexivity.
Qed.

Section Mono.
  Variable env : N -> option (list aspec * list aspec).
  Variable evs : N -> option nat.
  Variable wv : N -> bool.

  Theorem later_crash_extends rs n m : wf_recs env evs rs = true -> n <= m ->
    exists k, fst (read_file true env evs wv (firstn n (enc rs))) =
              firstn k (fst (read_file true env evs wv (firstn m (enc rs)))).
  Proof.
    intros Hw Hnm. rewrite !(stream_prefix_fixed env evs wv) by exact Hw. cbn [fst].
    destruct (whole_prefix_mono rs n m Hnm) as [k Hk]. exists k. rewrite Hk. symmetry. apply firstn_map.
  Qed.
End Mono.
