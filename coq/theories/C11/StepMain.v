(* C11: the in-step theorem for all legal programs *)
From Coq Require Import NArith List Bool Lia.
Import ListNotations.
Require Import UV.Gen.Consts UV.C11.Model UV.C11.StepBase UV.C11.ProofsDepth UV.C11.StepLemmas UV.C11.StepFollow
  UV.C11.StepInv UV.C11.StepOps.
Local Open Scope N_scope.

Ltac split_and H := repeat match type of H with
  | _ && _ = true => let H1 := fresh H in apply andb_prop in H; destruct H as [H H1]
  end.

Lemma forallb_le : forall l fa, forallb (fun x => x <=? fa) l = true -> forall x, In x l -> x <= fa.
Proof. intros l fa H x Hin. rewrite forallb_forall in H. specialize (H x Hin). apply N.leb_le. exact H. Qed.

Theorem step_inv : forall st s o st' e, Inv st s -> rstep st o = Some (st', e) ->
  exists s' ob, lstep s o = Some (s', ob) /\ ok_obs e ob = true /\ Inv st' s'.
Proof.
  intros st s o st' e H Hr. destruct o; cbn [rstep lstep] in *.
  - (* Call *)
    destruct (below_top (frames st) s0 && valid_ra r) eqn:G; [|discriminate]. split_and G.
    destruct (exc st) eqn:He.
    + destruct ((extra st =? 0) && forallb _ (stale st) && below_top (frames st) _) eqn:G2; [|discriminate]. split_and G2.
      inversion Hr; subst. eexists; eexists. split; [reflexivity|]. split; [reflexivity|].
      apply step_Call_exc; auto; [apply N.eqb_eq; assumption|apply forallb_le; assumption].
    + inversion Hr; subst. eexists; eexists. split; [reflexivity|]. split; [reflexivity|]. apply step_Call_plain; auto.
  - (* TCall *)
    destruct (frames st) as [|f rest] eqn:HF; [discriminate|].
    destruct ((f_slot f =? s0) && negb (exc st) && (negb (flight st) || (0 <? extra st))) eqn:G; [|discriminate].
    split_and G. apply N.eqb_eq in G. subst s0. apply negb_true_iff in G1.
    inversion Hr; subst. eexists; eexists. split; [reflexivity|]. split; [reflexivity|]. apply step_TCall; auto.
  - (* UCall *)
    destruct (below_top (frames st) s0 && valid_ra r) eqn:G; [|discriminate]. split_and G.
    inversion Hr; subst. eexists; eexists. split; [reflexivity|]. split; [reflexivity|]. apply step_UCall; auto.
  - (* Plt *)
    destruct (below_top (frames st) s0 && valid_ra r && exc st) eqn:Gx.
    + (* library call from a landing pad *)
      split_and Gx.
      assert (Hk : (kd = KNone \/ kd = KFlush) /\
                   (extra st =? 0) && forallb (fun x => x <=? s0) (stale st) = true /\
                   st' = bump (mk st (fresh st s0 r [true] :: frames st) true false 1 []) /\ e = None).
      { destruct kd; try discriminate;
          (destruct ((extra st =? 0) && forallb (fun x => x <=? s0) (stale st)) eqn:G2; [|discriminate]);
          inversion Hr; subst; auto. }
      destruct Hk as [Hk [G2 [Est Ee]]]. subst st' e. split_and G2. apply N.eqb_eq in G2.
      eexists; eexists. split; [|split; [reflexivity|apply (step_Plt_exc st s kd k s0 r arg); auto; apply forallb_le; assumption]].
      destruct Hk as [Hk|Hk]; subst kd; reflexivity.
    + destruct (below_top (frames st) s0 && valid_ra r && negb (exc st)) eqn:G; [|discriminate]. split_and G.
      apply negb_true_iff in G0.
      destruct kd.
      * inversion Hr; subst. eexists; eexists. split; [reflexivity|]. split; [reflexivity|]. apply step_Plt_plain; auto.
      * destruct (flight st) eqn:Hfl; [discriminate|]. inversion Hr; subst.
        eexists; eexists. split; [reflexivity|]. split; [reflexivity|]. apply step_Setjmp; auto.
      * destruct (flight st) eqn:Hfl; [discriminate|].
        destruct (assoc arg (jbt st)) as [[saved rsj]|] eqn:Ea; [|discriminate].
        destruct (is_suffix saved (frames st)) eqn:Es; [|discriminate]. inversion Hr; subst.
        destruct (step_Longjmp st s k s0 r arg saved rsj H G0 G G1 Ea Es) as [s2 [A [B C]]].
        rewrite A, B. eexists; eexists. split; [reflexivity|]. split; [simpl; rewrite !N.eqb_refl; reflexivity|exact C].
      * inversion Hr; subst. eexists; eexists. split; [reflexivity|]. split; [reflexivity|]. apply step_Plt_plain; auto.
      * discriminate.
  - (* TPlt *)
    destruct (frames st) as [|f rest] eqn:HF; [discriminate|].
    destruct ((f_slot f =? s0) && negb (exc st) && (negb (flight st) || (0 <? extra st))) eqn:G; [|discriminate].
    split_and G. apply N.eqb_eq in G. subst s0. apply negb_true_iff in G1.
    inversion Hr; subst. eexists; eexists. split; [reflexivity|]. split; [reflexivity|]. apply step_TPlt; auto.
  - (* Ret *)
    destruct (frames st) as [|f rest] eqn:HF; [discriminate|].
    destruct ((f_slot f =? s0) && (negb (flight st) || (0 <? extra st))) eqn:G; [|discriminate]. split_and G.
    apply N.eqb_eq in G. subst s0. inversion Hr; subst.
    destruct (step_Ret st s f rest H HF) as [s' [A B]].
    { intros He. pose proof (i_fl _ _ H He) as Hfl. rewrite Hfl in G0. simpl in G0. apply N.ltb_lt in G0. split; [|exact G0].
      pose proof (i_extra _ _ H He) as Hex. rewrite HF in Hex.
      replace (N.to_nat (extra st)) with (S (N.to_nat (extra st - 1))) in Hex by lia. simpl in Hex. inversion Hex; assumption. }
    rewrite A. eexists; eexists. split; [reflexivity|]. split; [simpl; rewrite !N.eqb_refl; reflexivity|exact B].
  - (* Throw *)
    destruct (flight st) eqn:Hfl; [discriminate|]. inversion Hr; subst.
    eexists; eexists. split; [reflexivity|]. split; [reflexivity|]. apply step_Throw; auto.
  - (* Unwind *)
    destruct (frames st) as [|f rest] eqn:HF; [discriminate|].
    destruct (exc st && (extra st =? 0)) eqn:G; [|discriminate]. split_and G. apply N.eqb_eq in G0.
    inversion Hr; subst. eexists; eexists. split; [reflexivity|]. split; [reflexivity|]. apply (step_Unwind st s f rest); auto.
  - (* Resume *)
    destruct (flight st && below_top (frames st) s0 && valid_ra r && (extra st =? 0) && forallb (fun x => x <=? s0) (stale st)) eqn:G; [|discriminate].
    split_and G. apply N.eqb_eq in G1. inversion Hr; subst.
    destruct (step_Resume st s s0 r H G G3 G2 G1 (forallb_le _ _ G0)) as [A B].
    eexists; eexists. split; [reflexivity|]. split; [unfold ok_obs; cbn [o_target o_pops]; rewrite A, N.eqb_refl; reflexivity|exact B].
  - (* Catch *)
    destruct (frames st) as [|f rest] eqn:HF; [discriminate|].
    destruct ((fa + 1 =? f_slot f) && exc st && (extra st =? 0)) eqn:G; [|discriminate]. split_and G.
    apply N.eqb_eq in G. apply N.eqb_eq in G0. inversion Hr; subst.
    eexists; eexists. split; [reflexivity|]. split; [reflexivity|]. rewrite <- HF. eapply step_Catch; eauto.
  - (* Poke *)
    destruct (below_top (frames st) s0) eqn:G; [|discriminate]. inversion Hr; subst.
    eexists; eexists. split; [reflexivity|]. split; [reflexivity|]. apply step_Poke; auto.
Qed.
