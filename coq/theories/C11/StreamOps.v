(* C11: every hook keeps the written record stream faithful *)
From Coq Require Import NArith List Bool Lia Arith.
Import ListNotations.
Require Import UV.Gen.Consts UV.C11.Model UV.C11.StepBase UV.C11.ProofsDepth UV.C11.StepLemmas UV.C11.StepFollow UV.C11.StepInv UV.C11.StreamBase.
Local Open Scope N_scope.

Definition jbt_t := list (N * (N * list ent)).

(* the stream written so far (o) has been accepted by the ground truth, which is now in state g, and the
   shadow stack l (top first) is consistent with g *)
Record P (jb : jbt_t) (l : list ent) (o : list rec) (g : gt) : Prop := {
  p_exec : gt_exec gt0 (stream_of o) = Some (g, map r_depth o);
  p_pend : g_pend g = false;
  p_depth : g_depth g = N.of_nat (wcount l);
  p_dc : dclosed l;
  p_dep : depths_ok l;
  p_nolj : nolj l;
  p_nolk : nolk l;
  p_jb : forall a ri snap, assoc a jb = Some (ri, snap) ->
     match tusj a l with
     | Some h => length snap = S h
     | None => assoc a (g_jb g) = Some (N.of_nat (length snap))
     end
}.
Definition snaps_ok (j : jbt_t) : Prop := Forall (fun b => nolj (snd (snd b)) /\ nolk (snd (snd b))) j.
Definition J (s : lst) (g : gt) : Prop := P (jbs s) (rs s) (out s) g /\ linv s /\ snaps_ok (jbs s).

Lemma J_init : J init gt0.
Proof.
  split; [|split; [apply linv_init|constructor]].
  constructor; simpl; auto; try constructor. intros a ri snap H. discriminate.
Qed.

Lemma set_end_facts : forall e t, e_written (set_end e t) = e_written e /\ e_depth (set_end e t) = e_depth e /\
  e_kind (set_end e t) = e_kind e /\ e_lj (set_end e t) = e_lj e.
Proof. intros. repeat split. Qed.

Lemma tusj_set_end : forall a e t r, tusj a (set_end e t :: r) = tusj a (e :: r).
Proof. intros. reflexivity. Qed.

(* one frame leaves the shadow stack: record_trace_data with end_time set, then the pop *)
Lemma pop_feed : forall jb e r o g, P jb (e :: r) o g ->
  exists t' r' recs g', rtd (set_end e 1) r = (t', r', recs) /\ P jb r' (o ++ recs) g' /\ length r' = length r.
Proof.
  intros jb e r o g H. destruct H.
  assert (Hdc : dclosed (set_end e 1 :: r)) by exact p_dc0.
  assert (Hd : depths_ok (set_end e 1 :: r)) by exact p_dep0.
  assert (Hk : nolk (set_end e 1 :: r)). { inversion p_nolk0; subst. constructor; assumption. }
  assert (Hg : g_depth g = N.of_nat (wcount (set_end e 1 :: r))) by exact p_depth0.
  destruct (rtd_feed (set_end e 1) r g Hdc Hd Hk p_pend0 Hg) as [t' [a' [recs [g' [R1 [R2 [R3 [R4 [R5 [R6 [R7 [R8 R9]]]]]]]]]]]].
  exists t', a', recs, g'. split; [exact R1|]. split; [|exact R6].
  inversion R5 as [|? ? Wt Wa]; subst.
  constructor.
  - rewrite stream_app, map_app. eapply gt_exec_app; [exact p_exec0|exact R2].
  - exact R3.
  - rewrite R4. cbn [set_end e_end]. change (1 =? 0) with false. cbv iota. rewrite (allw_wcount a' Wa), R6. reflexivity.
  - apply allw_dclosed. exact Wa.
  - exact R7.
  - pose proof (rtd_nolj (set_end e 1) r) as Hn. rewrite R1 in Hn. apply Hn. unfold nolj in *. inversion p_nolj0 as [|? ? Hl1 Hl2]; subst. exact Hl2.
  - exact R8.
  - intros a ri snap Ha. rewrite (allw_tusj a a' Wa). rewrite R9. rewrite tusj_set_end.
    specialize (p_jb0 a ri snap Ha). destruct (tusj a (e :: r)) as [h|]; [rewrite p_jb0; reflexivity|exact p_jb0].
Qed.

Lemma J_exit_common : forall b s g s' v, J s g -> exit_common b s = Some (s', v) -> exists g', J s' g'.
Proof.
  intros b s g s' v [HP [Hl Hs]] Hx. pose proof (exit_common_linv b s s' v Hl Hx) as Hl'.
  unfold exit_common in Hx. destruct (rs s) as [|top anc] eqn:E; [discriminate|].
  destruct (b && negb (e_plt top)); [discriminate|].
  destruct (pop_feed (jbs s) top anc (out s) g HP) as [t' [r' [recs [g' [R1 [R2 _]]]]]].
  rewrite R1 in Hx. inversion Hx; subst; clear Hx. exists g'. split; [exact R2|]. split; [exact Hl'|exact Hs].
Qed.

Lemma J_plthook_exit : forall s g s' v, J s g -> plthook_exit s = Some (s', v) -> exists g', J s' g'.
Proof.
  intros s g s' v HJ Hx. unfold plthook_exit in Hx. destruct (rs s) as [|top r] eqn:E; [discriminate|].
  assert (Hlj : e_lj top = false). { destruct HJ as [HP _]. pose proof (p_nolj _ _ _ _ HP) as Hn. rewrite E in Hn. inversion Hn; assumption. }
  rewrite Hlj in Hx. eapply J_exit_common; eauto.
Qed.

Lemma J_follow : forall fuel s g v n s' v' n', J s g -> follow fuel s v n = Some (s', v', n') -> exists g', J s' g'.
Proof.
  induction fuel as [|f IH]; intros s g v n s' v' n' HJ Hf; simpl in Hf.
  - destruct (is_tramp v); [discriminate|]. inversion Hf; subst. eauto.
  - destruct (is_tramp v); [|inversion Hf; subst; eauto].
    destruct (v =? MRET).
    + destruct (mcount_exit s) as [[s1 v1]|] eqn:E; [|discriminate].
      destruct (J_exit_common false s g s1 v1 HJ E) as [g1 H1]. eapply IH; eauto.
    + destruct (plthook_exit s) as [[s1 v1]|] eqn:E; [|discriminate].
      destruct (J_plthook_exit s g s1 v1 HJ E) as [g1 H1]. eapply IH; eauto.
Qed.

(* changes that touch neither the shadow stack, nor the records, nor the jmpbuf list *)
Lemma J_same : forall s s' g, J s g -> rs s' = rs s -> out s' = out s -> jbs s' = jbs s -> ridx s' = ridx s -> J s' g.
Proof.
  intros s s' g [HP [[A [B C]] Hs]] E1 E2 E3 E4. unfold J, linv. rewrite E1, E2, E3, E4.
  split; [exact HP|]. split; [|exact Hs]. split; [exact A|]. split; [exact B|exact C].
Qed.

(* ---------------------------------------------------------------- P only looks at four fields *)
Definition key (e : ent) := (e_written e, e_depth e, e_kind e, e_lj e).
Lemma key_eq : forall e e', key e = key e' ->
  e_written e = e_written e' /\ e_depth e = e_depth e' /\ e_kind e = e_kind e' /\ e_lj e = e_lj e'.
Proof. intros e e' H. unfold key in H. inversion H. auto. Qed.

Lemma cons_inj : forall {A} (x y : A) a b, x :: a = y :: b -> x = y /\ a = b.
Proof. intros A x y a b H. inversion H. auto. Qed.

Lemma Forall_key : forall (Q : ent -> Prop), (forall e e', key e = key e' -> Q e' -> Q e) ->
  forall l' l, map key l' = map key l -> Forall Q l -> Forall Q l'.
Proof.
  intros Q HQ. induction l' as [|x xs IH]; intros l Hk HF; [constructor|].
  destruct l as [|y ys]; [discriminate|]. simpl in Hk. apply cons_inj in Hk. destruct Hk as [Hx Hr]. inversion HF; subst.
  constructor; [eapply HQ; eauto|]. eapply IH; eauto.
Qed.
Lemma allw_key : forall l' l, map key l' = map key l -> allw l -> allw l'.
Proof.
  intros l' l Hk. apply Forall_key; [|exact Hk]. intros e e' He Hq. apply key_eq in He. destruct He as [A _]. rewrite A. exact Hq.
Qed.

Lemma P_ext : forall jb l l' o g, map key l' = map key l -> P jb l o g -> P jb l' o g.
Proof.
  intros jb l l' o g Hk HP.
  assert (Hw : wcount l' = wcount l).
  { clear -Hk. revert l Hk. induction l' as [|x xs IH]; intros l Hk; destruct l as [|y ys]; try discriminate; [reflexivity|].
    simpl in Hk. apply cons_inj in Hk. destruct Hk as [Hx Hr]. apply key_eq in Hx. destruct Hx as [A _]. simpl. rewrite A, (IH ys Hr). reflexivity. }
  assert (Hdc : dclosed l -> dclosed l').
  { clear -Hk. revert l Hk. induction l' as [|x xs IH]; intros l Hk; destruct l as [|y ys]; try discriminate; [auto|].
    simpl in Hk. apply cons_inj in Hk. destruct Hk as [Hx Hr]. apply key_eq in Hx. destruct Hx as [A _]. simpl. intros [D1 D2]. split; [|eauto].
    intros Hw. rewrite A in Hw. specialize (D1 Hw). eapply allw_key; eauto. }
  assert (Hdep : depths_ok l -> depths_ok l').
  { clear -Hk. revert l Hk. induction l' as [|x xs IH]; intros l Hk; destruct l as [|y ys]; try discriminate; [auto|].
    simpl in Hk. apply cons_inj in Hk. destruct Hk as [Hx Hr]. apply key_eq in Hx. destruct Hx as [_ [A _]]. simpl. intros [D1 D2]. split; [|eauto].
    rewrite A, D1. f_equal. rewrite <- (map_length key xs), Hr, map_length. reflexivity. }
  assert (Htu : forall a, tusj a l' = tusj a l).
  { intros a. clear -Hk. revert l Hk. induction l' as [|x xs IH]; intros l Hk; destruct l as [|y ys]; try discriminate; [reflexivity|].
    simpl in Hk. apply cons_inj in Hk. destruct Hk as [Hx Hr]. apply key_eq in Hx. destruct Hx as [A [_ [B _]]]. simpl. unfold is_sj. rewrite A, B.
    rewrite (IH ys Hr). rewrite <- (map_length key xs), Hr, map_length. reflexivity. }
  destruct HP. constructor; auto.
  - rewrite Hw. assumption.
  - unfold nolj. eapply Forall_key; [|exact Hk|exact p_nolj0]. intros e e' He Hq. apply key_eq in He. destruct He as [_ [_ [_ A]]]. rewrite A. exact Hq.
  - unfold nolk. eapply Forall_key; [|exact Hk|exact p_nolk0]. intros e e' He Hq a. apply key_eq in He. destruct He as [_ [_ [A _]]]. rewrite A. apply Hq.
  - intros a ri snap Ha. rewrite Htu. apply p_jb0 with (ri := ri). exact Ha.
Qed.

Lemma fix_chain_bottom_key : forall loc v l, map key (fix_chain_bottom loc v l) = map key l.
Proof.
  intros loc v. induction l as [|e r IH]; [reflexivity|]. destruct r as [|e2 r2]; [reflexivity|].
  rewrite fix_chain_bottom_cons2. destruct (e_loc e2 =? loc); [rewrite map_cons, IH; reflexivity|reflexivity].
Qed.

Lemma pop_unwound_P : forall fuel fa jb l ri o g, P jb l o g ->
  exists g', P jb (fst (fst (pop_unwound fuel fa l ri o))) (snd (pop_unwound fuel fa l ri o)) g'.
Proof.
  induction fuel as [|f IH]; intros fa jb l ri o g HP; cbn [pop_unwound].
  - destruct l; exists g; exact HP.
  - destruct l as [|e r]; [exists g; exact HP|]. destruct (fa <? e_loc e); [exists g; exact HP|].
    destruct (pop_feed jb e r o g HP) as [t' [r' [recs [g' [R1 [R2 _]]]]]]. rewrite R1. apply IH with (g := g'). exact R2.
Qed.

Lemma J_rehook_exception : forall s g fa, J s g -> exists g', J (rehook_exception s fa) g'.
Proof.
  intros s g fa [HP [Hl Hs]]. pose proof (rehook_exception_linv s fa Hl) as Hl'.
  destruct (pop_unwound_P (length (rs s)) fa (jbs s) (rs s) (ridx s) (out s) g HP) as [g' HP'].
  exists g'. unfold rehook_exception in *. destruct (pop_unwound (length (rs s)) fa (rs s) (ridx s) (out s)) as [[l ri] o].
  cbn [fst snd] in HP'. split; [|split; [exact Hl'|exact Hs]]. cbn [rs out jbs].
  destruct l as [|e r]; [exact HP'|]. eapply P_ext; [apply fix_chain_bottom_key|exact HP'].
Qed.

(* ---------------------------------------------------------------- pushes *)
Lemma P_push : forall jb jb' l o g e, P jb l o g -> e_written e = false -> e_depth e = N.of_nat (length l) ->
  e_lj e = false -> (forall a, e_kind e <> SLongjmp a) ->
  (forall a ri snap, assoc a jb' = Some (ri, snap) ->
     if is_sj a e then length snap = S (length l) else assoc a jb = Some (ri, snap)) ->
  P jb' (e :: l) o g.
Proof.
  intros jb jb' l o g e HP Hw Hd Hlj Hk Hjb. destruct HP. constructor; auto.
  - cbn [wcount]. rewrite Hw. exact p_depth0.
  - split; [rewrite Hw; discriminate|exact p_dc0].
  - split; assumption.
  - constructor; assumption.
  - constructor; assumption.
  - intros a ri snap Ha. specialize (Hjb a ri snap Ha). cbn [tusj]. rewrite Hw. cbn [negb andb].
    destruct (is_sj a e); [exact Hjb|]. apply p_jb0 with (ri := ri). exact Hjb.
Qed.

Lemma P_push_normal : forall jb l o g e, P jb l o g -> e_written e = false -> e_depth e = N.of_nat (length l) ->
  e_lj e = false -> e_kind e = SNormal -> P jb (e :: l) o g.
Proof.
  intros jb l o g e HP Hw Hd Hlj Hk. eapply P_push with (jb := jb); eauto.
  - intros a. rewrite Hk. discriminate.
  - intros a ri snap Ha. unfold is_sj. rewrite Hk. exact Ha.
Qed.

(* PLT_FL_FLUSH: record_trace_data on the freshly pushed entry (end_time = 0) *)
Lemma P_flush : forall jb top anc o g, P jb (top :: anc) o g -> e_end top = 0 ->
  exists t' a' recs g', rtd top anc = (t', a', recs) /\ P jb (t' :: a') (o ++ recs) g' /\ allw (t' :: a').
Proof.
  intros jb top anc o g HP He. destruct HP.
  destruct (rtd_feed top anc g p_dc0 p_dep0 p_nolk0 p_pend0 p_depth0) as [t' [a' [recs [g' [R1 [R2 [R3 [R4 [R5 [R6 [R7 [R8 R9]]]]]]]]]]]].
  exists t', a', recs, g'. split; [exact R1|]. split; [|exact R5].
  destruct (rtd_flush top anc) as [t2 [a2 [F1 [F2 [F3 [F4 F5]]]]]]. rewrite R1 in F2. assert (Et : t2 = t') by congruence. assert (Ea : a2 = a') by congruence. subst t2 a2. clear F2.
  constructor.
  - rewrite stream_app, map_app. eapply gt_exec_app; [exact p_exec0|exact R2].
  - exact R3.
  - rewrite R4, He. change (0 =? 0) with true. cbv iota. rewrite (allw_wcount _ R5). cbn [length]. rewrite R6. reflexivity.
  - apply allw_dclosed. exact R5.
  - split; [rewrite F4, R6; destruct p_dep0 as [D _]; exact D|exact R7].
  - pose proof (rtd_nolj top anc) as Hn. pose proof (rtd_top_lj top anc) as Ht. rewrite R1 in Hn, Ht.
    unfold nolj in *. inversion p_nolj0 as [|? ? L1 L2]; subst. constructor; [rewrite Ht; exact L1|apply Hn; exact L2].
  - inversion p_nolk0 as [|? ? K1 K2]; subst. constructor; [intros a; rewrite F5; apply K1|exact R8].
  - intros a ri snap Ha. rewrite (allw_tusj a _ R5). rewrite R9. specialize (p_jb0 a ri snap Ha).
    destruct (tusj a (top :: anc)) as [h|]; [rewrite p_jb0; reflexivity|exact p_jb0].
Qed.

(* ---------------------------------------------------------------- the hooks *)
Lemma J_with_m : forall s g mm, J s g -> J (with_m s mm) g.
Proof. intros. eapply J_same; eauto. Qed.
Lemma J_with_exc : forall s g b, J s g -> J (with_exc s b) g.
Proof. intros. eapply J_same; eauto. Qed.
Lemma J_do_throw : forall s g, J s g -> J (do_throw s) g.
Proof. intros. eapply J_same; eauto. Qed.

Lemma J_linv : forall s g, J s g -> linv s. Proof. intros s g [_ [H _]]. exact H. Qed.

Lemma J_mcount_entry : forall s g k loc fa, J s g -> exists g', J (mcount_entry s k loc fa) g'.
Proof.
  intros s g k loc fa HJ. pose proof (mcount_entry_linv s k loc fa (J_linv _ _ HJ)) as Hl'.
  unfold mcount_entry in *.
  set (s1 := if inexc s then with_exc (rehook_exception s (if fa <? loc then loc - 1 else fa)) false else s) in *.
  assert (H1 : exists g1, J s1 g1).
  { unfold s1. destruct (inexc s); [|eauto]. destruct (J_rehook_exception s g (if fa <? loc then loc - 1 else fa) HJ) as [g1 H1].
    exists g1. apply J_with_exc. exact H1. }
  destruct H1 as [g1 [HP [Hl Hs]]]. exists g1. split; [|split; [exact Hl'|exact Hs]]. cbn [rs out jbs].
  eapply P_push with (jb := jbs s1).
  - exact HP.
  - reflexivity.
  - cbn [new_ent e_depth]. destruct Hl as [A _]. exact A.
  - reflexivity.
  - intros a. cbn [new_ent e_kind]. discriminate.
  - intros a ri snap Ha. unfold is_sj. cbn [new_ent e_kind]. exact Ha.
Qed.

Lemma nolk_kind_of : forall kd arg, kd <> KLongjmp -> forall a, kind_of kd arg <> SLongjmp a.
Proof. intros kd arg H a. destruct kd; simpl; try discriminate. congruence. Qed.

Lemma J_plthook_push : forall s g kd k loc arg, J s g -> kd <> KLongjmp ->
  exists g', J (plthook_push s kd k loc arg) g'.
Proof.
  intros s g kd k loc arg HJ Hkd. pose proof (plthook_push_linv s kd k loc arg (J_linv _ _ HJ)) as Hl'.
  destruct HJ as [HP [Hl Hs]]. unfold plthook_push in *.
  set (e := new_ent s true k loc (kind_of kd arg)) in *.
  assert (He : e_depth e = N.of_nat (length (rs s))) by (destruct Hl as [A _]; exact A).
  (* the pushed entry, before the special handling; for setjmp the snapshot goes into the list *)
  destruct kd; try congruence; cbn [is_flush] in *.
  - (* KNone *)
    exists g. split; [|split; [exact Hl'|exact Hs]]. cbn [rs out jbs]. rewrite app_nil_r.
    apply P_push_normal; auto.
  - (* KSetjmp *)
    exists g. split; [|split; [exact Hl'|]]; cbn [rs out jbs].
    + rewrite app_nil_r. eapply P_push with (jb := jbs s).
      * exact HP.
      * reflexivity.
      * exact He.
      * reflexivity.
      * intros a; discriminate.
      * intros a ri snap Ha. unfold is_sj; cbn [e e_kind new_ent kind_of]. cbn [assoc] in Ha.
        destruct (a =? arg); [inversion Ha; subst; reflexivity|exact Ha].
    + constructor; [|exact Hs]. cbn [snd]. split.
      * constructor; [reflexivity|exact (p_nolj _ _ _ _ HP)].
      * constructor; [intros a; discriminate|exact (p_nolk _ _ _ _ HP)].
  - (* KFlush *)
    assert (HP1 : P (jbs s) (e :: rs s) (out s) g) by (apply P_push_normal; auto).
    destruct (P_flush _ _ _ _ _ HP1 eq_refl) as [t' [a' [recs [g' [R1 [R2 _]]]]]]. rewrite R1 in *.
    exists g'. split; [exact R2|split; [exact Hl'|exact Hs]].
  - (* KExcept *)
    exists g. split; [|split; [exact Hl'|exact Hs]]. cbn [rs out jbs]. rewrite app_nil_r.
    apply P_push_normal; auto.
Qed.

Lemma J_pre_plt : forall s g loc, J s g ->
  exists g', J (if inexc s then with_exc (rehook_exception s loc) false else s) g'.
Proof.
  intros s g loc HJ. destruct (inexc s); [|eauto].
  destruct (J_rehook_exception s g loc HJ) as [g' H']. exists g'. apply J_with_exc. exact H'.
Qed.

Lemma J_plthook_entry : forall s g kd k loc arg, J s g -> kd <> KLongjmp ->
  exists g', J (plthook_entry s kd k loc arg) g'.
Proof.
  intros s g kd k loc arg HJ Hkd. unfold plthook_entry. destruct (J_pre_plt s g loc HJ) as [g1 H1].
  eapply J_plthook_push; eauto.
Qed.

(* ---------------------------------------------------------------- longjmp *)
Lemma allw_map_set_written : forall l, allw (map set_written l).
Proof. induction l; simpl; constructor; auto. Qed.
Lemma key_map_set_written_depths : forall l, depths_ok l -> depths_ok (map set_written l).
Proof. intros l H. destruct (map_set_written_shape l) as [_ H2]. auto. Qed.
Lemma Forall_map_set_written : forall (Q : ent -> Prop), (forall e, Q e -> Q (set_written e)) ->
  forall l, Forall Q l -> Forall Q (map set_written l).
Proof. intros Q HQ. induction l; intros H; simpl; [constructor|]. inversion H; subst. constructor; auto. Qed.
Lemma flush_anc_written : forall l, allw l -> flush_anc l = (l, []).
Proof. intros l H. destruct l as [|p r]; [reflexivity|]. inversion H; subst. simpl. rewrite H2. reflexivity. Qed.

Lemma assoc_In' : forall {A} k (l : list (N * A)) v, assoc k l = Some v -> In (k, v) l.
Proof.
  intros A k. induction l as [|[k' v'] r IH]; intros v H; simpl in H; [discriminate|].
  destruct (k =? k') eqn:E; [apply N.eqb_eq in E; inversion H; subst; left; reflexivity|right; auto].
Qed.

Lemma follow_S : forall f s v n, follow (S f) s v n =
  if is_tramp v then
    match (if v =? MRET then mcount_exit s else plthook_exit s) with
    | None => None
    | Some (s', v') => follow f s' v' (n + 1)
    end
  else Some (s, v, n).
Proof. reflexivity. Qed.

Lemma J_longjmp : forall s g k sl r arg s' ob, J s g -> assoc arg (jpc s) = Some PRET ->
  lstep s (Plt KLongjmp k sl r arg) = Some (s', ob) -> exists g', J s' g'.
Proof.
  intros s g k sl r arg s' ob HJ Hpc Hst. cbn [lstep] in Hst.
  set (s0 := with_m s (upd (m s) sl r)) in *.
  assert (HJ0 : J s0 g) by (apply J_with_m; exact HJ).
  destruct (J_pre_plt s0 g sl HJ0) as [gA HJA].
  set (sA := if inexc s0 then with_exc (rehook_exception s0 sl) false else s0) in *.
  assert (HpcA : assoc arg (jpc sA) = Some PRET).
  { unfold sA. destruct (inexc s0); [|exact Hpc]. unfold rehook_exception. destruct (pop_unwound _ _ _ _ _) as [[? ?] ?]. exact Hpc. }
  change (plthook_entry s0 KLongjmp k sl arg) with (plthook_push sA KLongjmp k sl arg) in Hst.
  clear HJ0. rename HJA into HJ0. clearbody sA. clear s0 Hpc HJ. clear g. rename sA into s0. rename gA into g.
  set (s1 := plthook_push s0 KLongjmp k sl arg) in *.
  assert (Hl1 : linv s1) by (apply plthook_push_linv; exact (J_linv _ _ HJ0)).
  assert (Hjpc : assoc arg (jpc s1) = Some PRET).
  { unfold s1, plthook_push. cbn [is_flush]. destruct (rtd _ _) as [[? ?] ?]. exact HpcA. }
  rewrite Hjpc in Hst.
  destruct (follow (fuel_of s1) s1 PRET 0) as [[[s2' v] n]|] eqn:Ef; [|discriminate]. inversion Hst; subst s' ob. clear Hst.
  unfold fuel_of in Ef. rewrite follow_S in Ef. change (is_tramp PRET) with true in Ef. change (PRET =? MRET) with false in Ef. cbv iota in Ef.
  destruct (plthook_exit s1) as [[s2 v2]|] eqn:Ex; [|discriminate].
  assert (Hl2 : linv s2) by (eapply plthook_exit_linv; eauto).
  (* it suffices to show J for the state after the restoring exit hook *)
  cut (exists g2, J s2 g2). { intros [g2 H2]. eapply J_follow; [exact H2|exact Ef]. }
  clear Ef.
  destruct HJ0 as [HP [Hl Hs]].
  (* the entry hook: flush of the ancestors, then the ENTRY record of longjmp itself *)
  set (e := new_ent s0 true k sl (SLongjmp arg)).
  assert (Hew : e_written e = false) by reflexivity.
  unfold s1, plthook_push in Ex. cbn [is_flush kind_of] in Ex. fold e in Ex.
  unfold rtd in Ex. rewrite Hew in Ex. cbv iota in Ex.
  pose proof (flush_anc_feed (rs s0) g (p_dc _ _ _ _ HP) (p_dep _ _ _ _ HP) (p_nolk _ _ _ _ HP) (p_pend _ _ _ _ HP) (p_depth _ _ _ _ HP))
    as [g1 [E1 [P1 [D1 [W1 J1]]]]].
  pose proof (flush_anc_keep (rs s0)) as [K1 [K2 K3]].
  destruct (flush_anc (rs s0)) as [l' pre] eqn:Efl. cbn [fst snd] in *.
  change (e_end (set_written e) =? 0) with true in Ex. cbv iota in Ex. rewrite app_nil_r in Ex.
  unfold plthook_exit in Ex. cbn [rs e_lj set_end set_lj e_end jbs] in Ex.
  destruct (assoc arg (jbs s0)) as [[ri snap]|] eqn:Ea; [|discriminate].
  (* what is known about the snapshot *)
  assert (Hsn : ri = N.of_nat (length snap) /\ depths_ok snap /\ nolj snap /\ nolk snap).
  { destruct Hl as [_ [_ C]]. pose proof (assoc_In' _ _ _ Ea) as Hin.
    rewrite Forall_forall in C. specialize (C _ Hin). destruct C as [C1 C2].
    unfold snaps_ok in Hs. rewrite Forall_forall in Hs. specialize (Hs _ Hin). destruct Hs as [S1 S2]. auto. }
  destruct Hsn as [Hri [Hsd [Hsl Hsk]]].
  assert (Hbind : forall a ri' snap', assoc a (jbs s0) = Some (ri', snap') -> assoc a (g_jb g1) = Some (N.of_nat (length snap'))).
  { intros a ri' snap' Ha. rewrite J1. pose proof (p_jb _ _ _ _ HP a ri' snap' Ha) as Hb.
    destruct (tusj a (rs s0)) as [h|]; [rewrite Hb; reflexivity|exact Hb]. }
  unfold exit_common in Ex. cbn [rs] in Ex. destruct snap as [|esj rest]; [discriminate|]. cbn [map] in Ex.
  destruct (true && negb (e_plt (set_written esj))); [discriminate|].
  assert (Hrtd : rtd (set_end (set_written esj) 1) (map set_written rest) =
                 (set_end (set_written esj) 1, map set_written rest, [exit_rec (set_end (set_written esj) 1)])).
  { unfold rtd. cbn [e_written set_end set_written]. cbn [e_end]. reflexivity. }
  rewrite Hrtd in Ex. inversion Ex; subst s2 v2. clear Ex.
  destruct Hsd as [Hd1 Hd2]. inversion Hsl as [|? ? Sl1 Sl2]; subst. inversion Hsk as [|? ? Sk1 Sk2]; subst.
  (* the ground truth on the three new pieces of the stream *)
  set (g2 := {| g_depth := N.of_nat (S (length rest)); g_jb := g_jb g1; g_pend := true |}).
  set (g3 := {| g_depth := N.of_nat (length rest); g_jb := g_jb g1; g_pend := false |}).
  assert (S2 : gt_step g1 (SEntry (SLongjmp arg)) = Some (g2, e_depth e)).
  { unfold gt_step. rewrite P1. rewrite (Hbind arg _ _ Ea). cbn [length]. unfold g2. f_equal. f_equal.
    rewrite D1. cbn [e new_ent e_depth]. destruct Hl as [A _]. rewrite A. reflexivity. }
  assert (S3 : gt_step g2 (SExit (e_depth esj)) = Some (g3, e_depth esj)).
  { unfold gt_step, g2, g3. cbn [g_depth g_jb]. rewrite Hd1.
    assert (X1 : (0 <? N.of_nat (S (length rest))) = true) by (apply N.ltb_lt; lia).
    assert (X2 : (N.of_nat (length rest) =? N.of_nat (S (length rest)) - 1) = true) by (apply N.eqb_eq; lia).
    rewrite X1, X2. cbn [andb]. f_equal. f_equal; [f_equal; lia|lia]. }
  exists g3. split; [|split; [exact Hl2|exact Hs]]. cbn [rs out jbs].
  constructor.
  - rewrite !stream_app, !map_app. eapply gt_exec_app; [eapply gt_exec_app; [exact (p_exec _ _ _ _ HP)|]|].
    + eapply gt_exec_app; [exact E1|]. cbn [stream_of map gt_exec]. unfold sev_of. cbn [entry_rec r_ty r_kind r_depth set_written e_kind e_depth].
      change (e_kind e) with (SLongjmp arg). rewrite S2. reflexivity.
    + cbn [stream_of map gt_exec]. unfold sev_of. cbn [exit_rec r_ty r_depth set_end set_written e_depth]. rewrite S3. reflexivity.
  - reflexivity.
  - cbn [g3 g_depth]. rewrite (allw_wcount _ (allw_map_set_written rest)), map_length. reflexivity.
  - apply allw_dclosed. apply allw_map_set_written.
  - apply key_map_set_written_depths. exact Hd2.
  - unfold nolj. apply Forall_map_set_written; [intros x Hx; exact Hx|exact Sl2].
  - unfold nolk. apply Forall_map_set_written; [intros x Hx; exact Hx|exact Sk2].
  - intros a ri' snap' Ha. rewrite (allw_tusj a _ (allw_map_set_written rest)). cbn [g3 g_jb]. eapply Hbind. exact Ha.
Qed.
