(* C11: returning through the trampolines of one real frame (a chain of tail calls) *)
From Coq Require Import NArith List Bool Lia.
Import ListNotations.
Require Import UV.Gen.Consts UV.C11.Model UV.C11.StepBase UV.C11.ProofsDepth UV.C11.StepLemmas.
Local Open Scope N_scope.

Definition nolj (l : list ent) : Prop := Forall (fun e => e_lj e = false) l.

Lemma flush_anc_Forall : forall (P : ent -> Prop), (forall e, P e -> P (set_written e)) ->
  forall anc, Forall P anc -> Forall P (fst (flush_anc anc)).
Proof.
  intros P HP. induction anc as [|p r IH]; intros H; simpl; [constructor|].
  inversion H; subst. destruct (e_written p); [simpl; exact H|].
  destruct (flush_anc r) as [r' recs]. simpl in *. constructor; auto.
Qed.
Lemma rtd_nolj : forall top anc, nolj anc -> let '(_, anc', _) := rtd top anc in nolj anc'.
Proof.
  intros top anc H. unfold rtd. destruct (e_written top); [exact H|].
  pose proof (flush_anc_Forall (fun e => e_lj e = false) (fun e He => He) anc H) as F.
  destruct (flush_anc anc) as [anc' pre]. exact F.
Qed.

Lemma proj_eq : forall e a b c, proj e = (a, b, c) -> e_loc e = a /\ e_ip e = b /\ e_plt e = c.
Proof. intros e a b c H. unfold proj in H. inversion H. auto. Qed.
Lemma map_proj_cons : forall l x xs, map proj l = x :: xs -> exists e r, l = e :: r /\ proj e = x /\ map proj r = xs.
Proof. intros l x xs H. apply map_eq_cons in H. exact H. Qed.

Lemma fix_chain_bottom_cons2 : forall loc v e e2 r, fix_chain_bottom loc v (e :: e2 :: r) =
  if e_loc e2 =? loc then e :: fix_chain_bottom loc v (e2 :: r) else set_ip e v :: e2 :: r.
Proof. reflexivity. Qed.

(* fix_chain_bottom changes nothing when the chain's bottom already holds the value *)
Lemma fix_chain_bottom_noop : forall pend slot ra l restp,
  pend <> [] -> map proj l = chain slot ra pend ++ restp ->
  (match restp with [] => True | y :: _ => p_loc y <> slot end) ->
  map proj (fix_chain_bottom slot ra l) = map proj l /\
  (nolj l -> nolj (fix_chain_bottom slot ra l)).
Proof.
  induction pend as [|k p IH]; intros slot ra l restp Hne Hm Hr; [congruence|].
  simpl in Hm. apply map_proj_cons in Hm. destruct Hm as [e [r [Hl [He Hrest]]]]. subst l.
  apply proj_eq in He. destruct He as [He1 [He2 He3]].
  destruct p as [|k' p'].
  - simpl in Hrest. simpl fix_chain_bottom. destruct r as [|e2 r2].
    + simpl. unfold proj; simpl. rewrite He2. split; [reflexivity|].
      intros H. inversion H; subst. constructor; auto.
    + destruct restp as [|y rp]; [discriminate|]. apply map_proj_cons in Hrest.
      destruct Hrest as [e2' [r2' [Hl [Hy Hrp]]]]. inversion Hl; subst e2' r2'. clear Hl.
      assert (Hl : e_loc e2 =? slot = false).
      { apply N.eqb_neq. rewrite <- Hy in Hr. exact Hr. }
      rewrite Hl. simpl. unfold proj; simpl. rewrite He2. split; [reflexivity|].
      intros H. inversion H; subst. constructor; auto.
  - simpl chain in Hrest. simpl app in Hrest. pose proof Hrest as Hrest0. apply map_proj_cons in Hrest.
    destruct Hrest as [e2 [r2 [Hl [Hy Hrp]]]]. subst r. apply proj_eq in Hy. destruct Hy as [Hy1 _].
    rewrite fix_chain_bottom_cons2. rewrite Hy1, N.eqb_refl.
    destruct (IH slot ra (e2 :: r2) restp) as [I1 I2]; [discriminate|exact Hrest0|exact Hr|].
    split; [rewrite map_cons; rewrite I1; reflexivity|].
    intros H. inversion H; subst. constructor; [assumption|]. apply I2. assumption.
Qed.

(* one exit hook on a stack whose top entry is e *)
Lemma exit_common_top : forall b s e anc, rs s = e :: anc -> (b = true -> e_plt e = true) ->
  exists s', exit_common b s = Some (s', e_ip e) /\
    map proj (rs s') = map proj anc /\ (nolj anc -> nolj (rs s')) /\
    m s' = auto_rehook (inexc s) (e :: anc) (m s) /\ inexc s' = inexc s /\ jbs s' = jbs s /\ jpc s' = jpc s.
Proof.
  intros b s e anc Hrs Hb. unfold exit_common. rewrite Hrs.
  assert (Hc : b && negb (e_plt e) = false). { destruct b; [rewrite Hb by reflexivity|]; reflexivity. }
  rewrite Hc. pose proof (rtd_proj (set_end e 1) anc) as R. pose proof (rtd_nolj (set_end e 1) anc) as Rn.
  destruct (rtd (set_end e 1) anc) as [[t' anc'] recs]. destruct R as [_ R2].
  eexists. split; [reflexivity|]. simpl. repeat split; auto.
Qed.

Lemma follow_chain : forall pend slot ra s Lf L' c fuel,
  pend <> [] -> homog pend -> valid_ra ra = true ->
  rs s = Lf ++ L' -> map proj Lf = chain slot ra pend -> nolj (rs s) -> inexc s = false ->
  (match map proj L' with [] => True | y :: _ => p_loc y <> slot end) ->
  (length pend < fuel)%nat ->
  exists s', follow fuel s (tramp_of (hd false pend)) c = Some (s', ra, c + N.of_nat (length pend)) /\
     map proj (rs s') = map proj L' /\ nolj (rs s') /\
     m s' = (match map proj L' with [] => m s | y :: _ => upd (m s) (p_loc y) (tramp_of (p_plt y)) end) /\
     inexc s' = false /\ jbs s' = jbs s /\ jpc s' = jpc s.
Proof.
  induction pend as [|k p IH]; intros slot ra s Lf L' c fuel Hne Hh Hv Hrs Hm Hnl Hex Hnext Hfuel; [congruence|].
  simpl in Hm. apply map_proj_cons in Hm. destruct Hm as [e [Lf' [HLf [He Hrest]]]]. subst Lf.
  apply proj_eq in He. destruct He as [Hloc [Hip0 Hplt]].
  destruct fuel as [|f]; [simpl in Hfuel; lia|].
  simpl hd. cbn [follow]. rewrite tramp_of_is_tramp. rewrite tramp_of_inj_MRET.
  assert (Hlj : e_lj e = false). { rewrite Hrs in Hnl. inversion Hnl; subst; assumption. }
  assert (Hnl' : nolj (Lf' ++ L')). { rewrite Hrs in Hnl. inversion Hnl; subst; assumption. }
  (* the exit hook that runs *)
  assert (Hexit : exists s1, (if negb k then mcount_exit s else plthook_exit s) = Some (s1, e_ip e) /\
     map proj (rs s1) = map proj (Lf' ++ L') /\ nolj (rs s1) /\
     m s1 = auto_rehook false (e :: Lf' ++ L') (m s) /\ inexc s1 = false /\ jbs s1 = jbs s /\ jpc s1 = jpc s).
  { destruct k; simpl negb; cbv iota.
    - unfold plthook_exit. rewrite Hrs. simpl app. cbv iota. rewrite Hlj.
      destruct (exit_common_top true s e (Lf' ++ L') Hrs (fun _ => Hplt)) as [s1 [A [B [C [D [E [F G]]]]]]].
      exists s1. rewrite Hex in *. repeat split; auto.
    - unfold mcount_exit.
      destruct (exit_common_top false s e (Lf' ++ L') Hrs) as [s1 [A [B [C [D [E [F G]]]]]]]; [discriminate|].
      exists s1. rewrite Hex in *. repeat split; auto. }
  destruct Hexit as [s1 [X1 [X2 [X3 [X4 [X5 [X6 X7]]]]]]]. rewrite X1.
  destruct p as [|k' p'].
  - (* bottom of the chain: the hook returns the real address *)
    simpl in Hrest. apply map_eq_nil in Hrest. subst Lf'. simpl app in *.
    assert (Hip : e_ip e = ra) by exact Hip0.
    rewrite Hip. exists s1. destruct f as [|f']; cbn [follow]; rewrite (valid_ra_not_tramp ra Hv);
      (split; [f_equal; f_equal; simpl; lia|]); (split; [exact X2|]); (split; [exact X3|]);
      (split; [|repeat split; auto]).
    + rewrite X4. destruct L' as [|q L'']; [reflexivity|]. simpl map in *. simpl. 
      assert (Hq : e_loc e =? e_loc q = false). { apply N.eqb_neq. rewrite Hloc. unfold p_loc in Hnext; simpl in Hnext. auto. }
      rewrite Hq. reflexivity.
    + rewrite X4. destruct L' as [|q L'']; [reflexivity|]. simpl map in *. simpl.
      assert (Hq : e_loc e =? e_loc q = false). { apply N.eqb_neq. rewrite Hloc. unfold p_loc in Hnext; simpl in Hnext. auto. }
      rewrite Hq. reflexivity.
  - (* inside the chain: the hook returns the next trampoline, memory untouched *)
    assert (Hip : e_ip e = tramp_of k') by exact Hip0.
    rewrite Hip.
    pose proof X2 as X2'. rewrite map_app in X2'.
    destruct (map_eq_app _ _ _ _ X2') as [Lf1 [L1 [Hs1 [Hp1 Hp2]]]].
    destruct Lf' as [|e2 Lf'']; [discriminate|].
    assert (Hm1 : m s1 = m s).
    { rewrite X4. simpl. assert (Hq : e_loc e =? e_loc e2 = true).
      { apply N.eqb_eq. rewrite Hloc. pose proof Hrest as Hrest'. cbn [chain] in Hrest'. apply map_proj_cons in Hrest'.
        destruct Hrest' as [e2' [r2' [Hl2 [H2 _]]]]. inversion Hl2; subst e2' r2'. apply proj_eq in H2. destruct H2 as [H2 _]. symmetry; exact H2. }
      rewrite Hq. reflexivity. }
    destruct (IH slot ra s1 Lf1 L1 (c + 1) f) as [s' [Y1 [Y2 [Y3 [Y4 [Y5 [Y6 Y7]]]]]]];
      [discriminate|eapply homog_tail; exact Hh|exact Hv|exact Hs1|rewrite Hp1; exact Hrest|exact X3|exact X5
      |rewrite Hp2; exact Hnext|simpl in Hfuel |- *; lia|].
    exists s'. simpl hd in Y1. rewrite Y1. split; [f_equal; f_equal; simpl length; lia|].
    rewrite Hp2 in *. rewrite Hm1 in Y4. rewrite X6 in Y6. rewrite X7 in Y7. repeat split; auto.
Qed.
