(* C11: for every legal program the record stream libmcount writes is a faithful stream, so replay shows
   every record at the depth stored in it *)
From Coq Require Import NArith List Bool Lia Arith.
Import ListNotations.
Require Import UV.Gen.Consts UV.C11.Model UV.C11.StepBase UV.C11.ProofsDepth UV.C11.ProofsReplay UV.C11.StepLemmas
  UV.C11.StepFollow UV.C11.StepInv UV.C11.StepOps UV.C11.StepMain UV.C11.Proofs UV.C11.StreamBase UV.C11.StreamOps.
Local Open Scope N_scope.

Lemma J_lstep : forall s g o s' ob, J s g -> lstep s o = Some (s', ob) ->
  (forall k sl r arg, o = Plt KLongjmp k sl r arg -> assoc arg (jpc s) = Some PRET) -> exists g', J s' g'.
Proof.
  intros s g o s' ob HJ Hs Hlj. destruct o.
  - cbn [lstep] in Hs. inversion Hs; subst. apply J_mcount_entry with (g := g). apply J_with_m. exact HJ.
  - cbn [lstep] in Hs. inversion Hs; subst. apply J_mcount_entry with (g := g). exact HJ.
  - cbn [lstep] in Hs. inversion Hs; subst. exists g. apply J_with_m. exact HJ.
  - destruct kd.
    + cbn [lstep] in Hs. inversion Hs; subst. eapply J_plthook_entry; [apply J_with_m; exact HJ|discriminate].
    + cbn [lstep] in Hs. inversion Hs; subst.
      destruct (J_plthook_entry (with_m s (upd (m s) s0 r)) g KSetjmp k s0 arg) as [g' H']; [apply J_with_m; exact HJ|discriminate|].
      exists g'. eapply J_same; [exact H'| | | |]; reflexivity.
    + eapply J_longjmp; [exact HJ|eapply Hlj; reflexivity|exact Hs].
    + cbn [lstep] in Hs. inversion Hs; subst. eapply J_plthook_entry; [apply J_with_m; exact HJ|discriminate].
    + cbn [lstep] in Hs. inversion Hs; subst. eapply J_plthook_entry; [apply J_with_m; exact HJ|discriminate].
  - cbn [lstep] in Hs. inversion Hs; subst. eapply J_plthook_entry; [exact HJ|discriminate].
  - cbn [lstep] in Hs. destruct (follow _ s _ 0) as [[[s2 v] n]|] eqn:Ef; [|discriminate]. inversion Hs; subst. eapply J_follow; eauto.
  - cbn [lstep] in Hs. inversion Hs; subst. exists g. apply J_do_throw. exact HJ.
  - cbn [lstep] in Hs. inversion Hs; subst. exists g. exact HJ.
  - cbn [lstep] in Hs. inversion Hs; subst. unfold do_resume.
    assert (H0 : J (with_m s (upd (m s) s0 r)) g) by (apply J_with_m; exact HJ).
    destruct (inexc (with_m s (upd (m s) s0 r))).
    + destruct (J_rehook_exception _ g s0 H0) as [g' H']. exists g'. apply J_do_throw. exact H'.
    + exists g. apply J_do_throw. exact H0.
  - cbn [lstep] in Hs. inversion Hs; subst. unfold do_catch. destruct (inexc s); [|eauto].
    destruct (J_rehook_exception s g fa HJ) as [g' H']. exists g'. apply J_with_exc. exact H'.
  - cbn [lstep] in Hs. inversion Hs; subst. exists g. apply J_with_m. exact HJ.
Qed.

Lemma legal_longjmp_jpc : forall st s k sl r arg x, Inv st s -> rstep st (Plt KLongjmp k sl r arg) = Some x ->
  assoc arg (jpc s) = Some PRET.
Proof.
  intros st s k sl r arg x H Hr. cbn [rstep] in Hr.
  destruct (below_top (frames st) sl && valid_ra r && exc st); [discriminate|].
  destruct (below_top (frames st) sl && valid_ra r && negb (exc st)); [|discriminate].
  destruct (flight st); [discriminate|].
  destruct (assoc arg (jbt st)) as [[saved rsj]|] eqn:Ea; [|discriminate].
  destruct (is_suffix saved (frames st)) eqn:Es; [|discriminate].
  destruct (i_jb _ _ H arg saved rsj Ea Es) as [ri [snap [sl0 [_ [J2 _]]]]]. exact J2.
Qed.

Lemma run_stream : forall ops st s g st', Inv st s -> J s g -> rrun st ops = Some st' ->
  exists s' obs g', lrun s ops = Some (s', obs) /\ Inv st' s' /\ J s' g'.
Proof.
  induction ops as [|o r IH]; intros st s g st' H HJ Hr; simpl in Hr.
  - inversion Hr; subst. exists s, [], g. split; [reflexivity|]. split; assumption.
  - destruct (rstep st o) as [[st1 e]|] eqn:E; [|discriminate].
    destruct (step_inv st s o st1 e H E) as [s1 [ob [A [_ C]]]].
    destruct (J_lstep s g o s1 ob HJ A) as [g1 HJ1].
    { intros k sl r0 arg Ho. subst o. eapply legal_longjmp_jpc; eauto. }
    destruct (IH st1 s1 g1 st' C HJ1 Hr) as [s2 [obs [g2 [D [F G]]]]].
    exists s2, (ob :: obs), g2. simpl. rewrite A, D. split; [reflexivity|]. split; assumption.
Qed.

(* T: for every legal program the stream of records libmcount has written is accepted by the ground truth,
   with the depth field of every record as its true depth, and `uftrace replay` (after fix a7444cc) shows
   every record at exactly that depth *)
Theorem replay_shows_recorded_depths : forall ops, legal_prog ops = true ->
  exists s obs, lrun init ops = Some (s, obs) /\
    gt_run gt0 (stream_of (out s)) = Some (map r_depth (out s)) /\
    rp_run rp0 (stream_of (out s)) = map r_depth (out s).
Proof.
  intros ops H. unfold legal_prog in H. destruct (rrun rinit ops) as [st'|] eqn:E; [|discriminate].
  destruct (run_stream ops rinit init gt0 st' Inv_init J_init E) as [s [obs [g [A [_ [HP _]]]]]].
  exists s, obs. split; [exact A|]. pose proof (gt_exec_run _ _ _ _ (p_exec _ _ _ _ HP)) as Hg.
  split; [exact Hg|]. apply replay_depth_all_streams. exact Hg.
Qed.

(* non-vacuity: the sample program (tail call, setjmp, longjmp back over two frames, exception through two
   frames with a traced destructor) writes 19 records, among them a setjmp ENTRY, its two EXITs and a longjmp *)
Example replay_shows_recorded_depths_sample :
  match lrun init sample_prog with
  | Some (s, _) => (map r_depth (out s), rp_run rp0 (stream_of (out s)))
  | None => ([], [])
  end = ([0; 1; 2; 3; 3; 3; 4; 4; 4; 3; 3; 4; 4; 4; 4; 3; 2; 1; 0],
         [0; 1; 2; 3; 3; 3; 4; 4; 4; 3; 3; 4; 4; 4; 4; 3; 2; 1; 0]).
Proof. vm_compute. reflexivity. Qed.
