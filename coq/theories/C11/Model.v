(* C11 - model of libmcount's shadow-stack bookkeeping around non-local control flow, and of the
   replay-side depth fix-ups.

   Part 1 (record side), restating the code AS IT IS on x86_64 (ARCH_CAN_RESTORE_PLTHOOK = 1,
   mcount_auto_recover = 1, no filters/triggers, threshold 0, mcount_estimate_return = false):

     libmcount/mcount.c   __mcount_entry (incl. the in_exception path), __mcount_exit
     libmcount/plthook.c  __plthook_entry (special functions: setjmp / longjmp / flush / except),
                          __plthook_exit (MCOUNT_FL_LONGJMP `again` loop),
                          setup_jmpbuf_rstack, restore_jmpbuf_rstack
     libmcount/misc.c     mcount_rstack_restore, mcount_rstack_rehook, mcount_auto_restore,
                          mcount_auto_rehook
     libmcount/wrap.c     mcount_rstack_rehook_exception; the bodies of the __cxa_throw /
                          __cxa_rethrow / _Unwind_Resume wrappers (in_exception := true; restore all)
                          and of __cxa_begin_catch (rehook_exception; in_exception := false)
     libmcount/record.c   record_trace_data (lazy ENTRY flush, MCOUNT_FL_WRITTEN)

   together with the little bit of "CPU + libc" needed to say where control goes: a return reads the
   return-address slot and follows the two trampolines (mcount_return / plthook_return) until a real
   address comes out; setjmp stores the value of its return slot in the jmp_buf; longjmp jumps there.

   The stack is a map from slot numbers (one per return address; bigger number = older frame) to
   values.  Real return addresses are numbers below 2^32, the two trampolines are MRET and PRET.

   Part 2 (replay side): utils/fstack.c fstack_entry / fstack_update / fstack_update_stack_count for
   the setjmp / longjmp fix-up (one global setjmp_depth / setjmp_count pair, shared by all tasks of a trace).

   Not modelled: filters/triggers (MCOUNT_FL_NORECORD frames), -finstrument-functions frames
   (cygprof_dummy), vfork save area, mtd_dtor, estimate-return, other architectures, threads (the
   jmpbuf list is shared by all threads), the MCOUNT_RSTACK_MAX bound of the snapshot array.      *)
From Coq Require Import NArith List Bool.
Import ListNotations.
Require Import UV.Gen.Consts.
Local Open Scope N_scope.

(* ================================================================ Part 1: record side *)
Definition val := N.
Definition MRET : val := 4294967297.      (* mcount_return_fn  *)
Definition PRET : val := 4294967298.      (* plthook_return    *)
Definition is_tramp (v : val) : bool := (v =? MRET) || (v =? PRET).
Definition tramp_of (plt : bool) : val := if plt then PRET else MRET.

Definition mem := N -> val.
Definition upd (m : mem) (a : N) (v : val) : mem := fun x => if x =? a then v else m x.

(* how replay's fix-up table (utils/fstack.c fixup_syms) will classify a record: by the name of the
   function; the jmp_buf address is ghost information used only by the ground truth of Part 2 *)
Inductive skd := SNormal | SSetjmp (jb : N) | SLongjmp (jb : N).
Inductive sev := SEntry (k : skd) | SExit (d : N).

(* struct mcount_ret_stack, the fields that matter here *)
Record ent := {
  e_loc : N;            (* parent_loc (slot number)                               *)
  e_ip : val;           (* parent_ip                                              *)
  e_plt : bool;         (* dyn_idx != MCOUNT_INVALID_DYNIDX                       *)
  e_child : N;          (* child_ip (function number)                             *)
  e_depth : N;          (* depth = record_idx at entry                            *)
  e_lj : bool;          (* MCOUNT_FL_LONGJMP                                      *)
  e_written : bool;     (* MCOUNT_FL_WRITTEN                                      *)
  e_end : N;            (* end_time: 0 = not set; longjmp stores the jmp_buf address here *)
  e_kind : skd          (* ghost: what kind of function child_ip is, and on which jmp_buf it was called *)
}.
Definition set_written (e : ent) : ent :=
  {| e_loc := e_loc e; e_ip := e_ip e; e_plt := e_plt e; e_child := e_child e; e_depth := e_depth e;
     e_lj := e_lj e; e_written := true; e_end := e_end e; e_kind := e_kind e |}.
Definition set_end (e : ent) (t : N) : ent :=
  {| e_loc := e_loc e; e_ip := e_ip e; e_plt := e_plt e; e_child := e_child e; e_depth := e_depth e;
     e_lj := e_lj e; e_written := e_written e; e_end := t; e_kind := e_kind e |}.
Definition set_lj (e : ent) (b : bool) : ent :=
  {| e_loc := e_loc e; e_ip := e_ip e; e_plt := e_plt e; e_child := e_child e; e_depth := e_depth e;
     e_lj := b; e_written := e_written e; e_end := e_end e; e_kind := e_kind e |}.
Definition set_ip (e : ent) (v : val) : ent :=
  {| e_loc := e_loc e; e_ip := v; e_plt := e_plt e; e_child := e_child e; e_depth := e_depth e;
     e_lj := e_lj e; e_written := e_written e; e_end := e_end e; e_kind := e_kind e |}.

Inductive rty := ENTRY | EXIT.
Record rec := { r_ty : rty; r_depth : N; r_child : N; r_kind : skd }.
Definition entry_rec (e : ent) : rec := {| r_ty := ENTRY; r_depth := e_depth e; r_child := e_child e; r_kind := e_kind e |}.
Definition exit_rec (e : ent) : rec := {| r_ty := EXIT; r_depth := e_depth e; r_child := e_child e; r_kind := e_kind e |}.

(* the per-thread data + the global jmpbuf list + the stack memory + what was written to the buffer.
   rs is the shadow stack, TOP FIRST (rs = rstack[idx-1] :: ... :: rstack[0]). *)
Record lst := {
  rs : list ent;
  ridx : N;                                  (* record_idx *)
  inexc : bool;                              (* in_exception *)
  m : mem;
  jbs : list (N * (N * list ent));           (* jmpbuf_list: addr -> (record_idx, rstack copy top first) *)
  jpc : list (N * val);                      (* libc: jmp_buf addr -> saved program counter *)
  out : list rec
}.
Definition init_mem : mem := fun _ => 0.
Definition init : lst := {| rs := []; ridx := 0; inexc := false; m := init_mem; jbs := []; jpc := []; out := [] |}.

Definition with_m (s : lst) (m' : mem) : lst :=
  {| rs := rs s; ridx := ridx s; inexc := inexc s; m := m'; jbs := jbs s; jpc := jpc s; out := out s |}.
Definition with_exc (s : lst) (b : bool) : lst :=
  {| rs := rs s; ridx := ridx s; inexc := b; m := m s; jbs := jbs s; jpc := jpc s; out := out s |}.

Fixpoint assoc {A} (k : N) (l : list (N * A)) : option A :=
  match l with [] => None | (k', v) :: r => if k =? k' then Some v else assoc k r end.

(* ---------------------------------------------------------------- record_trace_data *)
Fixpoint flush_anc (anc : list ent) : list ent * list rec :=
  match anc with
  | [] => ([], [])
  | p :: rest =>
      if e_written p then (anc, [])
      else let '(rest', recs) := flush_anc rest in (set_written p :: rest', recs ++ [entry_rec p])
  end.
(* record_trace_data(mtdp, top, NULL): ENTRY of the not yet written ancestors (oldest first), own
   ENTRY, EXIT if end_time is set *)
Definition rtd (top : ent) (anc : list ent) : ent * list ent * list rec :=
  let '(anc', pre) := if e_written top then (anc, []) else flush_anc anc in
  let '(top', own) := if e_written top then (top, []) else (set_written top, [entry_rec top]) in
  let ex := if e_end top' =? 0 then [] else [exit_rec top'] in
  (top', anc', pre ++ own ++ ex).

(* mcount_exit_filter_record for a frame without filter flags, threshold 0, clock strictly
   increasing (end - start > 0): record_idx-- ; record_trace_data *)
Definition dec (n : N) : N := if 0 <? n then n - 1 else 0.

(* ---------------------------------------------------------------- misc.c *)
(* mcount_rstack_restore: from the top down, *parent_loc = parent_ip unless parent_ip is a trampoline *)
Fixpoint restore_all (l : list ent) (mm : mem) : mem :=
  match l with
  | [] => mm
  | e :: r => restore_all r (if is_tramp (e_ip e) then mm else upd mm (e_loc e) (e_ip e))
  end.
(* mcount_rstack_rehook (since /repo fix C01-9: oldest entry first): *parent_loc = the trampoline of the
   entry's kind; the entries of a tail-call chain share one slot, which ends up with the NEWEST one's *)
Fixpoint rehook_from (l : list ent) (mm : mem) : mem :=
  match l with
  | [] => mm
  | e :: r => rehook_from r (upd mm (e_loc e) (tramp_of (e_plt e)))
  end.
Definition rehook_all (l : list ent) (mm : mem) : mem := rehook_from (rev l) mm.
(* the walk of mcount_auto_restore: first entry (downwards) whose parent_ip is not a trampoline *)
Fixpoint restore_first (l : list ent) (mm : mem) : mem :=
  match l with
  | [] => mm
  | e :: r => if is_tramp (e_ip e) then restore_first r mm else upd mm (e_loc e) (e_ip e)
  end.
(* mcount_auto_restore, called right after the push (l = new top :: rest) *)
Definition auto_restore (exc : bool) (l : list ent) (mm : mem) : mem :=
  match l with
  | cur :: prev :: rest =>
      if exc then mm
      else if e_loc cur =? e_loc prev then mm
      else restore_first (prev :: rest) mm
  | _ => mm
  end.
(* mcount_auto_rehook, called before the pop (l = top being left :: rest) *)
Definition auto_rehook (exc : bool) (l : list ent) (mm : mem) : mem :=
  match l with
  | cur :: prev :: _ =>
      if exc then mm
      else if e_loc cur =? e_loc prev then mm
      else upd mm (e_loc prev) (tramp_of (e_plt prev))
  | _ => mm
  end.

(* ---------------------------------------------------------------- wrap.c: rehook_exception *)
(* the `while (idx > 0)` walk: parent_ip of the LAST entry of the maximal run (from the top) of
   entries sharing the survivor's parent_loc becomes *parent_loc *)
Fixpoint fix_chain_bottom (loc : N) (v : val) (l : list ent) : list ent :=
  match l with
  | [] => []
  | e :: r =>
      match r with
      | e2 :: _ => if e_loc e2 =? loc then e :: fix_chain_bottom loc v r else set_ip e v :: r
      | [] => [set_ip e v]
      end
  end.
(* pops the entries with parent_loc <= frame_addr, writing their records *)
Fixpoint pop_unwound (fuel : nat) (fa : N) (l : list ent) (ri : N) (o : list rec) : list ent * N * list rec :=
  match fuel, l with
  | S f, e :: r =>
      if fa <? e_loc e then (l, ri, o)
      else let '(_, r', recs) := rtd (set_end e 1) r in
           pop_unwound f fa r' (dec ri) (o ++ recs)
  | _, _ => (l, ri, o)
  end.
Definition rehook_exception (s : lst) (fa : N) : lst :=
  let '(l, ri, o) := pop_unwound (length (rs s)) fa (rs s) (ridx s) (out s) in
  let l' := match l with
            | [] => []
            | e :: _ => fix_chain_bottom (e_loc e) (m s (e_loc e)) l
            end in
  {| rs := l'; ridx := ri; inexc := inexc s; m := rehook_all l' (m s); jbs := jbs s; jpc := jpc s; out := o |}.

(* ---------------------------------------------------------------- hooks *)
Definition new_ent (s : lst) (plt : bool) (child loc : N) (kind : skd) : ent :=
  {| e_loc := loc; e_ip := m s loc; e_plt := plt; e_child := child; e_depth := ridx s;
     e_lj := false; e_written := false; e_end := 0; e_kind := kind |}.

(* __mcount_entry(parent_loc = loc, child); fa = the word parent_loc[-1] *)
Definition mcount_entry (s0 : lst) (child loc fa : N) : lst :=
  let s := if inexc s0
           then with_exc (rehook_exception s0 (if fa <? loc then loc - 1 else fa)) false
           else s0 in
  let e := new_ent s false child loc SNormal in
  let l := e :: rs s in
  {| rs := l; ridx := ridx s + 1; inexc := inexc s;
     m := auto_restore (inexc s) l (upd (m s) loc MRET);
     jbs := jbs s; jpc := jpc s; out := out s |}.

(* the common tail of __mcount_exit / __plthook_exit: returns the state and parent_ip *)
Definition exit_common (need_plt : bool) (s : lst) : option (lst * val) :=
  match rs s with
  | [] => None                                        (* rstack[-1]: undefined behaviour *)
  | top :: anc =>
      if need_plt && negb (e_plt top) then None else   (* plthook_exit: "invalid dynsym idx", exits *)
      let '(_, anc', recs) := rtd (set_end top 1) anc in
      Some ({| rs := anc'; ridx := dec (ridx s); inexc := inexc s;
               m := auto_rehook (inexc s) (rs s) (m s);
               jbs := jbs s; jpc := jpc s; out := out s ++ recs |}, e_ip top)
  end.
Definition mcount_exit (s : lst) : option (lst * val) := exit_common false s.

Inductive skind := KNone | KSetjmp | KLongjmp | KFlush | KExcept.
(* special_flag bits as computed by setup_dynsym_indexes for a representative of each kind
   (foo, setjmp, longjmp, fork, _Unwind_RaiseException) *)
Definition PLT_FL_SKIP := 1. Definition PLT_FL_LONGJMP := 2. Definition PLT_FL_SETJMP := 4.
Definition PLT_FL_VFORK := 8. Definition PLT_FL_FLUSH := 16. Definition PLT_FL_EXCEPT := 32.
Definition PLT_FL_RESOLVE := 64. Definition PLT_FL_DLSYM := 128.
Definition kind_flags (k : skind) : N :=
  match k with
  | KNone => 0 | KSetjmp => PLT_FL_SETJMP | KLongjmp => PLT_FL_LONGJMP + PLT_FL_FLUSH
  | KFlush => PLT_FL_FLUSH | KExcept => PLT_FL_EXCEPT
  end.
Definition is_flush k := match k with KLongjmp | KFlush => true | _ => false end.
Definition kind_of (k : skind) (arg : N) : skd :=
  match k with KSetjmp => SSetjmp arg | KLongjmp => SLongjmp arg | _ => SNormal end.

(* __plthook_entry(ret_addr = loc, child), ARG1 = arg.  Since fix (plthook: landing pads) a call made while
   in_exception is set first drops the entries of the frames unwound so far (parent_loc <= ret_addr),
   exactly as __mcount_entry does.  Since fix 945cdf8/ae9d4a7 the C code does so only for a call whose return
   slot lies above the frame recorded by the last exception wrapper (mtdp->exception_frame): calls from inside the
   unwinder or the C++ runtime (hooked with --nest-libcall only) lie below it.  The programs of this model make no
   such calls (they are untraced code), so the guard is taken as true; it is exercised end to end only. *)
Definition plthook_push (s : lst) (k : skind) (child loc arg : N) : lst :=
  let e := new_ent s true child loc (kind_of k arg) in
  let m1 := auto_restore (inexc s) (e :: rs s) (upd (m s) loc PRET) in
  let ri := ridx s + 1 in
  (* PLT_FL_FLUSH: record_trace_data(mtdp, rstack, NULL) with end_time = 0 *)
  let '(e1, anc1, recs) := if is_flush k then rtd e (rs s) else (e, rs s, []) in
  let o := out s ++ recs in
  match k with
  | KSetjmp =>
      {| rs := e1 :: anc1; ridx := ri; inexc := inexc s; m := m1;
         jbs := (arg, (ri, e1 :: anc1)) :: jbs s; jpc := jpc s; out := o |}
  | KLongjmp =>
      {| rs := set_end (set_lj e1 true) arg :: anc1; ridx := ri; inexc := inexc s; m := m1;
         jbs := jbs s; jpc := jpc s; out := o |}
  | KExcept =>
      {| rs := e1 :: anc1; ridx := ri; inexc := inexc s; m := restore_all (e1 :: anc1) m1;
         jbs := jbs s; jpc := jpc s; out := o |}
  | _ => {| rs := e1 :: anc1; ridx := ri; inexc := inexc s; m := m1; jbs := jbs s; jpc := jpc s; out := o |}
  end.
Definition plthook_entry (s0 : lst) (k : skind) (child loc arg : N) : lst :=
  plthook_push (if inexc s0 then with_exc (rehook_exception s0 loc) false else s0) k child loc arg.

(* __plthook_exit, including the `again` loop for MCOUNT_FL_LONGJMP (restore_jmpbuf_rstack) *)
Definition plthook_exit (s : lst) : option (lst * val) :=
  match rs s with
  | [] => None
  | top :: _ =>
      if e_lj top then
        match assoc (e_end top) (jbs s) with
        | None => None                                 (* ASSERT(!list_no_entry(...)) *)
        | Some (ri, snap) =>
            exit_common true {| rs := map set_written snap; ridx := ri; inexc := inexc s; m := m s;
                           jbs := jbs s; jpc := jpc s; out := out s |}
        end
      else exit_common true s
  end.

(* bodies of the __cxa_throw / __cxa_rethrow wrappers before the real call *)
Definition do_throw (s : lst) : lst :=
  {| rs := rs s; ridx := ridx s; inexc := true; m := restore_all (rs s) (m s);
     jbs := jbs s; jpc := jpc s; out := out s |}.
(* body of the _Unwind_Resume wrapper before the real call (since fix 0bd540c): the entries of the frames
   unwound so far - parent_loc at or below the wrapper's own return-address slot - are dropped first *)
Definition do_resume (s : lst) (slot : N) : lst :=
  do_throw (if inexc s then rehook_exception s slot else s).
(* body of __cxa_begin_catch after the real call (frame_addr already sanity-checked) *)
Definition do_catch (s : lst) (fa : N) : lst :=
  if inexc s then with_exc (rehook_exception s fa) false else s.

(* ---------------------------------------------------------------- CPU: following the trampolines *)
(* control arrives at address v; while v is a trampoline the matching exit hook runs and control
   continues at what it returns.  Result: final address, number of hook runs. *)
Fixpoint follow (fuel : nat) (s : lst) (v : val) (n : N) : option (lst * val * N) :=
  if is_tramp v then
    match fuel with
    | O => None
    | S f =>
        match (if v =? MRET then mcount_exit s else plthook_exit s) with
        | None => None
        | Some (s', v') => follow f s' v' (n + 1)
        end
    end
  else Some (s, v, n).

(* ---------------------------------------------------------------- the program's operations *)
Inductive op :=
| Call (k s r fa : N)            (* call of traced function k: pushes return address r at slot s, its
                                    mcount stub runs (fa = saved frame pointer word below the slot) *)
| TCall (k s fa : N)             (* tail call (jmp) of traced function k: slot s is the caller's *)
| UCall (s r : N)                (* call of a function that is not traced *)
| Plt (kd : skind) (k s r arg : N)   (* call through the PLT; setjmp also saves its return pc;
                                        longjmp jumps to the saved pc of jmp_buf `arg` *)
| TPlt (k s : N)                 (* tail call through the PLT (jmp foo@plt) *)
| Ret (s : N)                    (* the function whose return address is in slot s returns *)
| Throw                          (* __cxa_throw / __cxa_rethrow reached *)
| Unwind                         (* the unwinder drops the newest frame (no libmcount code runs) *)
| Resume (s r : N)               (* a cleanup pad calls _Unwind_Resume: pushes r at slot s *)
| Catch (fa : N)                 (* __cxa_begin_catch in a frame whose frame address is fa *)
| Poke (s v : N).                (* the program (or the unwinder) uses dead stack space *)

(* observation of one step: where control went (0 if not applicable), how many exit hooks ran *)
Record obs := { o_target : val; o_pops : N }.
Definition obs0 := {| o_target := 0; o_pops := 0 |}.

Definition fuel_of (s : lst) : nat :=
  S (S (length (rs s) + fold_right (fun jb acc => length (snd (snd jb)) + acc)%nat O (jbs s))).

Definition lstep (s : lst) (o : op) : option (lst * obs) :=
  match o with
  | Call k sl r fa => Some (mcount_entry (with_m s (upd (m s) sl r)) k sl fa, obs0)
  | TCall k sl fa => Some (mcount_entry s k sl fa, obs0)
  | UCall sl r => Some (with_m s (upd (m s) sl r), obs0)
  | Plt kd k sl r arg =>
      let s1 := plthook_entry (with_m s (upd (m s) sl r)) kd k sl arg in
      match kd with
      | KSetjmp =>
          Some ({| rs := rs s1; ridx := ridx s1; inexc := inexc s1; m := m s1; jbs := jbs s1;
                   jpc := (arg, m s1 sl) :: jpc s1; out := out s1 |}, obs0)
      | KLongjmp =>
          match assoc arg (jpc s1) with
          | None => None                              (* longjmp on a jmp_buf never set *)
          | Some pc =>
              match follow (fuel_of s1) s1 pc 0 with
              | None => None
              | Some (s2, v, n) => Some (s2, {| o_target := v; o_pops := n |})
              end
          end
      | _ => Some (s1, obs0)
      end
  | TPlt k sl => Some (plthook_entry s KNone k sl 0, obs0)
  | Ret sl =>
      match follow (fuel_of s) s (m s sl) 0 with
      | None => None
      | Some (s2, v, n) => Some (s2, {| o_target := v; o_pops := n |})
      end
  | Throw => Some (do_throw s, obs0)
  | Unwind => Some (s, obs0)
  | Resume sl r =>
      let s1 := do_resume (with_m s (upd (m s) sl r)) sl in
      Some (s1, {| o_target := m s1 sl; o_pops := 0 |})
  | Catch fa => Some (do_catch s fa, obs0)
  | Poke sl v => Some (with_m s (upd (m s) sl v), obs0)
  end.

(* ---------------------------------------------------------------- ground truth: the real stack *)
(* a frame of the real stack: its return-address slot, its real return address, and the kinds of
   the hooked functions sharing it (newest first; more than one = tail calls; [] = not traced) *)
Record rframe := { f_id : N; f_slot : N; f_ra : N; f_pend : list bool }.
Record rstk := {
  frames : list rframe;                 (* newest first *)
  next_id : N;
  jbt : list (N * (list rframe * N));   (* jmp_buf -> (frames below the setjmp call, setjmp's return address) *)
  flight : bool;                        (* an exception has been thrown and is not yet caught *)
  exc : bool;                           (* ... and no traced function has been entered since the throw / resume *)
  extra : N;                            (* frames pushed since the throw / last unwind step / resume (they all
                                           return before unwinding goes on) *)
  stale : list N                        (* slots of the traced frames the unwinder has dropped since the last
                                           traced entry: their shadow entries still exist *)
}.
Definition rinit : rstk :=
  {| frames := []; next_id := 1; jbt := []; flight := false; exc := false; extra := 0; stale := [] |}.

Definition below_top (fs : list rframe) (s : N) : bool :=
  match fs with [] => true | f :: _ => s <? f_slot f end.
Definition valid_ra (r : N) : bool := (0 <? r) && (r <? 4294967296).

Definition mk (st : rstk) (fs : list rframe) (fl ex : bool) (n : N) (sl : list N) : rstk :=
  {| frames := fs; next_id := next_id st; jbt := jbt st; flight := fl; exc := ex; extra := n; stale := sl |}.
Definition fresh (st : rstk) (s r : N) (pend : list bool) : rframe :=
  {| f_id := next_id st; f_slot := s; f_ra := r; f_pend := pend |}.
Definition bump (st : rstk) : rstk :=
  {| frames := frames st; next_id := next_id st + 1; jbt := jbt st; flight := flight st; exc := exc st;
     extra := extra st; stale := stale st |}.
(* push a frame; while an exception is in flight it counts as pushed-since *)
Definition push (st : rstk) (s r : N) (pend : list bool) : rstk :=
  bump (mk st (fresh st s r pend :: frames st) (flight st) (exc st)
           (if flight st then extra st + 1 else 0) (stale st)).

Fixpoint bools_eqb (a b : list bool) : bool :=
  match a, b with
  | [], [] => true
  | x :: a', y :: b' => Bool.eqb x y && bools_eqb a' b'
  | _, _ => false
  end.
Definition frame_eqb (x y : rframe) : bool :=
  (f_id x =? f_id y) && (f_slot x =? f_slot y) && (f_ra x =? f_ra y) && bools_eqb (f_pend x) (f_pend y).
Fixpoint frames_eqb (a b : list rframe) : bool :=
  match a, b with
  | [], [] => true
  | x :: a', y :: b' => frame_eqb x y && frames_eqb a' b'
  | _, _ => false
  end.
(* is `saved` a suffix of `cur` (the very same frames: ids are never re-used)? *)
Fixpoint is_suffix (saved cur : list rframe) : bool :=
  frames_eqb saved cur ||
  match cur with [] => false | _ :: c' => is_suffix saved c' end.
Fixpoint mem_N (x : N) (l : list N) : bool :=
  match l with [] => false | y :: r => (x =? y) || mem_N x r end.
Definition all_homogeneous (b : bool) (l : list bool) : bool := forallb (Bool.eqb b) l.

(* what the program expects of a step: Some (target, hooks) for the steps that transfer control *)
Definition expect := option (N * N).

(* rstep returns None when the operation is not a move of a real program in this state, or leaves the
   domain in which the property is claimed (each exclusion is a *_refuted statement or an assumption):
     - a cleanup pad calls _Unwind_Resume at a slot BELOW the return slot of a frame dropped before
       (never the case in compiled code, where a frame makes all its calls at one stack depth);
     - a traced function entered while in_exception hands a frame address that does not separate
       dropped from live frames (e.g. -mfentry: the word below the slot is not a frame pointer);
     - tail calls while in_exception; setjmp / longjmp / nested throw while an exception is in flight;
     - _Unwind_RaiseException called through the PLT of the traced module.                         *)
Definition rstep (st : rstk) (o : op) : option (rstk * expect) :=
  match o with
  | Call k s r fa =>
      if below_top (frames st) s && valid_ra r then
        if exc st then
          let fa' := if fa <? s then s - 1 else fa in
          if (extra st =? 0) && forallb (fun x => x <=? fa') (stale st) && below_top (frames st) fa'
          then Some (bump (mk st (fresh st s r [false] :: frames st) true false 1 []), None)
          else None
        else Some (push st s r [false], None)
      else None
  | UCall s r =>
      if below_top (frames st) s && valid_ra r then Some (push st s r [], None) else None
  | Plt kd k s r arg =>
      if below_top (frames st) s && valid_ra r && exc st then
        (* a library call from a landing pad (e.g. an inlined destructor): like a traced entry, it first drops
           the frames unwound so far, which must lie at or below its own return slot *)
        match kd with
        | KNone | KFlush =>
            if (extra st =? 0) && forallb (fun x => x <=? s) (stale st)
            then Some (bump (mk st (fresh st s r [true] :: frames st) true false 1 []), None)
            else None
        | _ => None
        end
      else
      if below_top (frames st) s && valid_ra r && negb (exc st) then
        match kd with
        | KSetjmp =>
            if flight st then None else
            let st1 := push st s r [true] in
            Some ({| frames := frames st1; next_id := next_id st1;
                     jbt := (arg, (frames st, r)) :: jbt st;
                     flight := false; exc := false; extra := 0; stale := [] |}, None)
        | KLongjmp =>
            if flight st then None else
            match assoc arg (jbt st) with
            | Some (saved, rsj) =>
                if is_suffix saved (frames st)
                then Some (mk st saved false false 0 [], Some (rsj, 1))
                else None
            | None => None
            end
        | KExcept => None
        | _ => Some (push st s r [true], None)
        end
      else None
  | TCall k s fa =>
      match frames st with
      | f :: rest =>
          if (f_slot f =? s) && negb (exc st) && (negb (flight st) || (0 <? extra st))
          then Some (bump (mk st (fresh st s (f_ra f) (false :: f_pend f) :: rest)
                              (flight st) false (extra st) (stale st)), None)
          else None
      | [] => None
      end
  | TPlt k s =>
      match frames st with
      | f :: rest =>
          if (f_slot f =? s) && negb (exc st) && (negb (flight st) || (0 <? extra st))
          then Some (bump (mk st (fresh st s (f_ra f) (true :: f_pend f) :: rest)
                              (flight st) false (extra st) (stale st)), None)
          else None
      | [] => None
      end
  | Ret s =>
      match frames st with
      | f :: rest =>
          if (f_slot f =? s) && (negb (flight st) || (0 <? extra st))
          then Some (mk st rest (flight st) (exc st) (if flight st then extra st - 1 else 0) (stale st),
                     Some (f_ra f, N.of_nat (length (f_pend f))))
          else None
      | [] => None
      end
  | Throw => if flight st then None else Some (mk st (frames st) true true 0 [], None)
  | Unwind =>
      match frames st with
      | f :: rest =>
          if exc st && (extra st =? 0)
          then Some (mk st rest true true 0
                        (match f_pend f with [] => stale st | _ => f_slot f :: stale st end), None)
          else None
      | [] => None
      end
  | Resume s r =>
      (* compiled code calls _Unwind_Resume at the frame's call-site slot: no dropped frame lies above it *)
      if flight st && below_top (frames st) s && valid_ra r && (extra st =? 0)
         && forallb (fun x => x <=? s) (stale st)
      then Some (mk st (frames st) true true 0 [], Some (r, 0)) else None
  | Catch fa =>
      (* the frame address of the catching frame lies just below its return slot *)
      match frames st with
      | f :: _ => if (fa + 1 =? f_slot f) && exc st && (extra st =? 0)
                  then Some (mk st (frames st) false false 0 [], None) else None
      | [] => None
      end
  | Poke s v => if below_top (frames st) s then Some (st, None) else None
  end.

Definition ok_obs (e : expect) (ob : obs) : bool :=
  match e with
  | None => true
  | Some (t, n) => (o_target ob =? t) && (o_pops ob =? n)
  end.

(* runs: the implementation side is represented by the observations it printed *)
Fixpoint lrun (s : lst) (ops : list op) : option (lst * list obs) :=
  match ops with
  | [] => Some (s, [])
  | o :: r =>
      match lstep s o with
      | None => None
      | Some (s1, ob) =>
          match lrun s1 r with None => None | Some (s2, l) => Some (s2, ob :: l) end
      end
  end.

(* index of the first step whose observation the program would not accept (or that is illegal) *)
Fixpoint first_bad (st : rstk) (ops : list op) (obss : list obs) (i : nat) : option nat :=
  match ops, obss with
  | [], _ => None
  | o :: r, ob :: obr =>
      match rstep st o with
      | None => Some i
      | Some (st1, e) => if ok_obs e ob then first_bad st1 r obr (S i) else Some i
      end
  | _ :: _, [] => Some i
  end.
Definition ok_run (ops : list op) (obss : list obs) : bool :=
  match first_bad rinit ops obss 0 with None => true | Some _ => false end.

(* is the whole program legal? *)
Fixpoint rrun (st : rstk) (ops : list op) : option rstk :=
  match ops with
  | [] => Some st
  | o :: r => match rstep st o with None => None | Some (st1, _) => rrun st1 r end
  end.

Definition legal_prog (ops : list op) : bool := match rrun rinit ops with Some _ => true | None => false end.

(* ---------------------------------------------------------------- what the harness prints *)
(* after every operation: idx, record_idx, in_exception and, per shadow-stack entry (bottom first),
   parent_loc, parent_ip, plt?, flags (LONGJMP=2, WRITTEN=64), *parent_loc *)
Definition ent_digest (mm : mem) (e : ent) : N * N * N * N * N :=
  (e_loc e, e_ip e, if e_plt e then 1 else 0,
   (if e_lj e then MCOUNT_FL_LONGJMP else 0) + (if e_written e then MCOUNT_FL_WRITTEN else 0),
   mm (e_loc e)).
Definition digest := (N * N * bool * list (N * N * N * N * N) * N * N)%type.
Definition digest_of (s : lst) (ob : obs) : digest :=
  (N.of_nat (length (rs s)), ridx s, inexc s, rev (map (ent_digest (m s)) (rs s)), o_target ob, o_pops ob).

Fixpoint ltrace (s : lst) (ops : list op) : list digest * option lst :=
  match ops with
  | [] => ([], Some s)
  | o :: r =>
      match lstep s o with
      | None => ([], None)
      | Some (s1, ob) => let '(l, fin) := ltrace s1 r in (digest_of s1 ob :: l, fin)
      end
  end.

Definition d5_eqb (a b : N * N * N * N * N) : bool :=
  let '(a1, a2, a3, a4, a5) := a in let '(b1, b2, b3, b4, b5) := b in
  (a1 =? b1) && (a2 =? b2) && (a3 =? b3) && (a4 =? b4) && (a5 =? b5).
Fixpoint list_eqb {A} (eq : A -> A -> bool) (l1 l2 : list A) : bool :=
  match l1, l2 with
  | [], [] => true
  | x :: r1, y :: r2 => eq x y && list_eqb eq r1 r2
  | _, _ => false
  end.
Definition digest_eqb (a b : digest) : bool :=
  let '(a1, a2, a3, a4, a5, a6) := a in let '(b1, b2, b3, b4, b5, b6) := b in
  (a1 =? b1) && (a2 =? b2) && Bool.eqb a3 b3 && list_eqb d5_eqb a4 b4 && (a5 =? b5) && (a6 =? b6).
Definition rec_code (r : rec) : N * N * N := (match r_ty r with ENTRY => 0 | EXIT => 1 end, r_depth r, r_child r).
Definition c3_eqb (a b : N * N * N) : bool :=
  let '(a1, a2, a3) := a in let '(b1, b2, b3) := b in (a1 =? b1) && (a2 =? b2) && (a3 =? b3).

(* one correspondence case: the model's digests and records against the harness's *)
Definition agree_case (ops : list op) (ds : list digest) (recs : list (N * N * N)) (crashed : bool) : bool :=
  match ltrace init ops with
  | (l, Some s) => negb crashed && list_eqb digest_eqb l ds && list_eqb c3_eqb (map rec_code (out s)) recs
  | (l, None) => crashed && list_eqb digest_eqb l ds     (* libmcount aborts / the CPU would run wild *)
  end.
(* the property checker on the implementation's observations *)
Definition obs_of_digest (d : digest) : obs :=
  let '(_, _, _, _, t, n) := d in {| o_target := t; o_pops := n |}.
Definition ok_case (ops : list op) (ds : list digest) : bool := ok_run ops (map obs_of_digest ds).

(* the depth every ENTRY record must carry: the number of traced functions live on the real stack when
   the call is made.  ENTRY records are written lazily but in call order, so the records written so far
   form a prefix of the calls made. *)
Definition live_hooked (fs : list rframe) : N := N.of_nat (length (flat_map f_pend fs)).
Definition pushes (o : op) : bool :=
  match o with Call _ _ _ _ | TCall _ _ _ | Plt _ _ _ _ _ | TPlt _ _ => true | _ => false end.
Fixpoint expected_depths (st : rstk) (ops : list op) : list N :=
  match ops with
  | [] => []
  | o :: r =>
      match rstep st o with
      | None => []
      | Some (st1, _) => (if pushes o then [live_hooked (frames st)] else []) ++ expected_depths st1 r
      end
  end.
Fixpoint is_prefix (a b : list N) : bool :=
  match a, b with
  | [], _ => true
  | x :: a', y :: b' => (x =? y) && is_prefix a' b'
  | _ :: _, [] => false
  end.
Definition entry_rec_depths (recs : list (N * N * N)) : list N :=
  flat_map (fun r => let '(ty, d, _) := r in if ty =? 0 then [d] else []) recs.
Definition ok_depths (ops : list op) (recs : list (N * N * N)) : bool :=
  is_prefix (entry_rec_depths recs) (expected_depths rinit ops).

(* flat encodings used by the generated case files (cheap to parse):
   digest = idx ridx exc target pops, then idx x (loc ip plt flags mem);  records = ty depth child ... *)
Fixpoint take_ents (n : nat) (l : list N) : list (N * N * N * N * N) * list N :=
  match n with
  | O => ([], l)
  | S n' =>
      match l with
      | a :: b :: c :: d :: e :: r => let '(es, rest) := take_ents n' r in ((a, b, c, d, e) :: es, rest)
      | _ => ([], [])
      end
  end.
Fixpoint decode_digests (fuel : nat) (l : list N) : list digest :=
  match fuel with
  | O => []
  | S f =>
      match l with
      | i :: ri :: ex :: t :: p :: r =>
          let '(es, rest) := take_ents (N.to_nat i) r in
          (i, ri, negb (ex =? 0), es, t, p) :: decode_digests f rest
      | _ => []
      end
  end.
Fixpoint decode_recs (l : list N) : list (N * N * N) :=
  match l with
  | a :: b :: c :: r => (a, b, c) :: decode_recs r
  | _ => []
  end.
Definition fcase := (list op * list N * list N * bool)%type.
Definition fagree (c : fcase) : bool :=
  let '(ops, ds, recs, cr) := c in agree_case ops (decode_digests (S (length ops)) ds) (decode_recs recs) cr.
Definition fok (c : fcase) : bool :=
  let '(ops, ds, recs, cr) := c in
  negb cr && ok_case ops (decode_digests (S (length ops)) ds) && ok_depths ops (decode_recs recs).
Definition flegal (c : fcase) : bool := let '(ops, _, _, _) := c in legal_prog ops.

Fixpoint bad_indices {A} (f : A -> bool) (l : list A) (i : nat) : list nat :=
  match l with
  | [] => []
  | x :: r => if f x then bad_indices f r (S i) else i :: bad_indices f r (S i)
  end.

(* ================================================================ Part 1b: vfork
   libmcount/plthook.c prepare_vfork / setup_vfork / restore_vfork.  vfork is a PLT_FL_FLUSH | PLT_FL_VFORK
   function.  The child runs on the parent's memory and on the parent's shadow stack; it returns from vfork
   through plthook_return (setup_vfork: own tid and trace buffer), makes calls, and finally execs or exits.
   Then the parent resumes at plthook_return as well (libc's vfork keeps its return address in a register)
   and finds whatever the child left: restore_vfork puts idx, record_idx, the saved copy of vfork's own entry
   and the parent's trace buffer back.                                                             *)
Inductive top :=
| TOp (o : op)
| TVfork (k s r : N) (child : list op).       (* vfork at slot s with return address r; what the child does *)

Definition ob_of (v : val) (n : N) : obs := {| o_target := v; o_pops := n |}.
Definition lastn {A} (n : nat) (l : list A) : list A := skipn (length l - n) l.

Definition lstepT (s : lst) (t : top) : option (lst * list obs) :=
  match t with
  | TOp o => match lstep s o with Some (s', ob) => Some (s', [ob]) | None => None end
  | TVfork k sl r child =>
      let s1 := plthook_entry (with_m s (upd (m s) sl r)) KFlush k sl 0 in
      match rs s1 with
      | [] => None
      | vtop :: _ =>
          (* the child returns from vfork *)
          match follow (fuel_of s1) s1 PRET 0 with
          | None => None
          | Some (s2, v2, n2) =>
              match lrun s2 child with
              | None => None
              | Some (s3, obc) =>
                  (* the parent returns from vfork: restore_vfork, then the ordinary exit path *)
                  if Nat.ltb (length (rs s3)) (length (rs s1) - 1) then None else
                  let s4 := {| rs := set_written vtop :: lastn (length (rs s1) - 1) (rs s3); ridx := ridx s1;
                               inexc := inexc s3; m := m s3; jbs := jbs s3; jpc := jpc s3; out := out s1 |} in
                  match follow (fuel_of s4) s4 PRET 0 with
                  | None => None
                  | Some (s5, v5, n5) => Some (s5, [obs0; ob_of v2 n2] ++ obc ++ [ob_of v5 n5])
                  end
              end
          end
      end
  end.
Fixpoint lrunT (s : lst) (ts : list top) : option (lst * list obs) :=
  match ts with
  | [] => Some (s, [])
  | t :: r =>
      match lstepT s t with
      | None => None
      | Some (s1, ob) => match lrunT s1 r with None => None | Some (s2, l) => Some (s2, ob ++ l) end
      end
  end.

(* ground truth: the child may do anything a program may do as long as the frames that were live at the
   vfork stay live (it must not return from the function that called vfork) and no exception is in flight
   when it execs / exits; afterwards the parent continues with its own frames (and, the memory being shared,
   with the jmp_bufs as the child left them) *)
Fixpoint rrun_floor (floor : list rframe) (st : rstk) (ops : list op) : option (rstk * list expect) :=
  match ops with
  | [] => Some (st, [])
  | o :: r =>
      match rstep st o with
      | None => None
      | Some (st1, e) =>
          if is_suffix floor (frames st1)
          then match rrun_floor floor st1 r with None => None | Some (st2, l) => Some (st2, e :: l) end
          else None
      end
  end.
Definition rstepT (st : rstk) (t : top) : option (rstk * list expect) :=
  match t with
  | TOp o => match rstep st o with Some (st', e) => Some (st', [e]) | None => None end
  | TVfork k s r child =>
      if exc st || flight st then None else
      match rstep st (Plt KFlush k s r 0) with                     (* the call of vfork *)
      | Some (st1, e1) =>
          match rstep st1 (Ret s) with                             (* its return in the child *)
          | Some (st2, e2) =>
              match rrun_floor (frames st) st2 child with
              | Some (stc, ec) =>
                  if exc stc || flight stc then None else
                  Some ({| frames := frames st; next_id := next_id stc; jbt := jbt stc;
                           flight := false; exc := false; extra := 0; stale := [] |},
                        [e1; e2] ++ ec ++ [Some (r, 1)])           (* ... and in the parent *)
              | None => None
              end
          | None => None
          end
      | None => None
      end
  end.
Fixpoint rrunT (st : rstk) (ts : list top) : option (rstk * list expect) :=
  match ts with
  | [] => Some (st, [])
  | t :: r =>
      match rstepT st t with
      | None => None
      | Some (st1, e) => match rrunT st1 r with None => None | Some (st2, l) => Some (st2, e ++ l) end
      end
  end.
Fixpoint all_ok (es : list expect) (obs : list obs) : bool :=
  match es, obs with
  | [], [] => true
  | e :: er, o :: or => ok_obs e o && all_ok er or
  | _, _ => false
  end.
Definition legal_progT (ts : list top) : bool := match rrunT rinit ts with Some _ => true | None => false end.
Definition ok_runT (ts : list top) (obs : list obs) : bool :=
  match rrunT rinit ts with Some (_, es) => all_ok es obs | None => false end.

(* what the harness prints for a program with vfork sections: one digest per line (VFORK, VCHILD, the child's
   operations, VPARENT) *)
Definition ltraceT_step (s : lst) (t : top) : list digest * option lst :=
  match t with
  | TOp o => match lstep s o with Some (s', ob) => ([digest_of s' ob], Some s') | None => ([], None) end
  | TVfork k sl r child =>
      let s1 := plthook_entry (with_m s (upd (m s) sl r)) KFlush k sl 0 in
      match rs s1 with
      | [] => ([digest_of s1 obs0], None)
      | vtop :: _ =>
          match follow (fuel_of s1) s1 PRET 0 with
          | None => ([digest_of s1 obs0], None)
          | Some (s2, v2, n2) =>
              let '(dc, fin) := ltrace s2 child in
              match fin with
              | None => (digest_of s1 obs0 :: digest_of s2 (ob_of v2 n2) :: dc, None)
              | Some s3 =>
                  if Nat.ltb (length (rs s3)) (length (rs s1) - 1)
                  then (digest_of s1 obs0 :: digest_of s2 (ob_of v2 n2) :: dc, None) else
                  let s4 := {| rs := set_written vtop :: lastn (length (rs s1) - 1) (rs s3); ridx := ridx s1;
                               inexc := inexc s3; m := m s3; jbs := jbs s3; jpc := jpc s3; out := out s1 |} in
                  match follow (fuel_of s4) s4 PRET 0 with
                  | None => (digest_of s1 obs0 :: digest_of s2 (ob_of v2 n2) :: dc, None)
                  | Some (s5, v5, n5) =>
                      (digest_of s1 obs0 :: digest_of s2 (ob_of v2 n2) :: dc ++ [digest_of s5 (ob_of v5 n5)], Some s5)
                  end
              end
          end
      end
  end.
Fixpoint ltraceT (s : lst) (ts : list top) : list digest * option lst :=
  match ts with
  | [] => ([], Some s)
  | t :: r =>
      match ltraceT_step s t with
      | (d, Some s1) => let '(l, fin) := ltraceT s1 r in (d ++ l, fin)
      | (d, None) => (d, None)
      end
  end.
Definition fcaseT := (list top * list N * list N * bool)%type.
Fixpoint nops (ts : list top) : nat :=
  match ts with [] => O | TOp _ :: r => S (nops r) | TVfork _ _ _ c :: r => (3 + length c + nops r)%nat end.
Definition fagreeT (c : fcaseT) : bool :=
  let '(ts, ds, recs, cr) := c in
  match ltraceT init ts with
  | (l, Some s) => negb cr && list_eqb digest_eqb l (decode_digests (S (nops ts)) ds)
                   && list_eqb c3_eqb (map rec_code (out s)) (decode_recs recs)
  | (l, None) => cr && list_eqb digest_eqb l (decode_digests (S (nops ts)) ds)
  end.
Definition fokT (c : fcaseT) : bool :=
  let '(ts, ds, _, cr) := c in negb cr && ok_runT ts (map obs_of_digest (decode_digests (S (nops ts)) ds)).
Definition flegalT (c : fcaseT) : bool := let '(ts, _, _, _) := c in legal_progT ts.

(* ================================================================ Part 1c: vfork and unrecorded entries
   idx (number of shadow-stack entries) and record_idx (number of RECORDED entries) differ as soon as a filter
   leaves a library call unrecorded (MCOUNT_FL_NORECORD: -N vfork, -D n, -F f ...): it is pushed all the same.
   This part models exactly that bookkeeping around vfork() - prepare_vfork / mcount_restore_vfork
   (libmcount/plthook.c, after fixes 7e6b323 and f59e4b7) - on the rstack ARRAY: the child runs on the parent's
   array, and the restore writes rstack[idx - 1].  Entries are opaque (an identity and the NORECORD flag).
   Threads: the saved state belongs to the thread that called vfork(); hooks of other threads of the parent
   process (same pid) run while the child runs and must not take it.  *)
Record vent := { v_id : N; v_norec : bool }.
Definition vent_eqb (a b : vent) : bool := (v_id a =? v_id b) && Bool.eqb (v_norec a) (v_norec b).
(* the shadow stack of one thread: the array, idx, record_idx *)
Record vth := { v_arr : N -> vent; v_idx : N; v_ridx : N }.
(* the file-level statics: vfork_parent (0 = none pending), the calling thread, the saved indices and entry *)
Record vsaved := { s_pid : N; s_thr : N; s_idx : N; s_ridx : N; s_ent : vent; s_ran : bool }.
(* s_ran (vfork_child_ran, fix after f59e4b7): set by the child's exit hook of vfork (setup_vfork), on shared memory *)
Definition vsaved0 := {| s_pid := 0; s_thr := 0; s_idx := 0; s_ridx := 0; s_ent := {| v_id := 0; v_norec := false |}; s_ran := false |}.
Definition vran (sv : vsaved) : vsaved :=
  {| s_pid := s_pid sv; s_thr := s_thr sv; s_idx := s_idx sv; s_ridx := s_ridx sv; s_ent := s_ent sv; s_ran := true |}.

Definition vpush (t : vth) (e : vent) : vth :=
  {| v_arr := fun i => if i =? v_idx t then e else v_arr t i; v_idx := v_idx t + 1;
     v_ridx := if v_norec e then v_ridx t else v_ridx t + 1 |}.
(* the exit hooks: mcount_exit_filter_record decrements record_idx for recorded entries only *)
Definition vpop (t : vth) : vth :=
  {| v_arr := v_arr t; v_idx := v_idx t - 1;
     v_ridx := if v_norec (v_arr t (v_idx t - 1)) then v_ridx t else dec (v_ridx t) |}.
(* __plthook_entry of vfork: push, then prepare_vfork *)
Definition vprepare (pid thr : N) (t : vth) (e : vent) : vth * vsaved :=
  let t1 := vpush t e in
  (t1, {| s_pid := pid; s_thr := thr; s_idx := v_idx t1; s_ridx := v_ridx t1; s_ent := e; s_ran := false |}).
(* mcount_restore_vfork, called at the start of every hook while a vfork is pending *)
Definition vrestore (pid thr : N) (t : vth) (sv : vsaved) : vth * vsaved :=
  if (0 <? s_pid sv) && (thr =? s_thr sv) && (pid =? s_pid sv) && s_ran sv
  then ({| v_arr := fun i => if i =? s_idx sv - 1 then s_ent sv else v_arr t i;
           v_idx := s_idx sv; v_ridx := s_ridx sv |}, vsaved0)
  else (t, sv).
(* code as found (before 7e6b323): keyed on the pid alone *)
Definition vrestore_legacy (pid thr : N) (t : vth) (sv : vsaved) : vth * vsaved :=
  if (0 <? s_pid sv) && (pid =? s_pid sv)
  then ({| v_arr := fun i => if i =? s_idx sv - 1 then s_ent sv else v_arr t i;
           v_idx := s_idx sv; v_ridx := s_ridx sv |}, vsaved0)
  else (t, sv).
(* seeded change C11-9: the shadow-stack index taken from the saved RECORD index *)
Definition vrestore_seeded (pid thr : N) (t : vth) (sv : vsaved) : vth * vsaved :=
  if (0 <? s_pid sv) && (thr =? s_thr sv) && (pid =? s_pid sv) && s_ran sv
  then ({| v_arr := fun i => if i =? s_ridx sv - 1 then s_ent sv else v_arr t i;
           v_idx := s_ridx sv; v_ridx := s_ridx sv |}, vsaved0)
  else (t, sv).

(* what the child does on the parent's array after its own return from vfork: pushes (recorded or not) and
   returns of ITS OWN calls - it never returns from the function that called vfork (undefined behaviour) *)
Inductive vop := VPush (e : vent) | VPop.
Fixpoint vchild (floor : N) (t : vth) (ops : list vop) : option vth :=
  match ops with
  | [] => Some t
  | VPush e :: r => vchild floor (vpush t e) r
  | VPop :: r => if floor <? v_idx t then vchild floor (vpop t) r else None
  end.
(* the whole section as the vforking thread sees it: entry hook, the child's exit of vfork and activity on the
   shared array (the child's pid differs: its hooks restore nothing), then the first hook in the parent *)
Definition vsection (restore : N -> N -> vth -> vsaved -> vth * vsaved)
                    (pid cpid thr : N) (t : vth) (e : vent) (ops : list vop) : option (vth * vsaved) :=
  let '(t1, sv) := vprepare pid thr t e in
  let '(t2, sv2) := restore cpid thr (vpop t1) (vran sv) in (* child: exit hook of vfork (setup_vfork) *)
  match vchild (v_idx t) t2 ops with
  | Some t3 => Some (restore pid thr t3 sv2)
  | None => None
  end.
Definition vth_eqb_upto (a b : vth) : bool :=
  (v_idx a =? v_idx b) && (v_ridx a =? v_ridx b) &&
  forallb (fun i => vent_eqb (v_arr a i) (v_arr b i)) (map N.of_nat (seq 0 (N.to_nat (v_idx a)))).

(* in-process scripts: what the harness does to ONE thread, and what it printed after every operation
   (idx, record_idx, the NORECORD flags bottom first) *)
Inductive vsop := SPush (e : vent) | SPops (n : N) | SVfork (e : vent) | SChild | SWake | SParent.
Fixpoint vpops (n : nat) (t : vth) : vth := match n with O => t | S k => vpops k (vpop t) end.
(* state: the pid the thread currently runs as (1 = the parent, 2 = the vfork child), its shadow stack, the statics.
   SChild: the child comes back from vfork (exit hook).  SWake: the child is gone, the parent runs again but has
   not reached vfork's exit hook yet (a signal handler comes first).  SParent: the parent's exit hook of vfork.
   Every entry hook (SPush) starts with mcount_restore_vfork. *)
Definition vs_step (st : N * vth * vsaved) (o : vsop) : N * vth * vsaved :=
  let '(pid, t, sv) := st in
  match o with
  | SPush e => let '(t1, sv1) := vrestore pid 1 t sv in (pid, vpush t1 e, sv1)
  | SPops n => (pid, vpops (N.to_nat n) t, sv)
  | SVfork e => let '(t1, sv1) := vprepare pid 1 t e in (pid, t1, sv1)
  | SChild => let '(t1, sv1) := vrestore 2 1 t (vran sv) in (2, vpop t1, sv1)
  | SWake => (1, t, sv)
  | SParent => let '(t1, sv1) := vrestore 1 1 t sv in (1, vpop t1, sv1)
  end.
Definition vshape (t : vth) : N * N * list bool :=
  (v_idx t, v_ridx t, map (fun i => v_norec (v_arr t (N.of_nat i))) (seq 0 (N.to_nat (v_idx t)))).
Fixpoint vs_run (st : N * vth * vsaved) (ops : list vsop) : list (N * N * list bool) :=
  match ops with [] => [] | o :: r => let st' := vs_step st o in vshape (snd (fst st')) :: vs_run st' r end.
Definition vth0 : vth := {| v_arr := fun _ => {| v_id := 0; v_norec := false |}; v_idx := 0; v_ridx := 0 |}.
Definition shape_eqb (a b : N * N * list bool) : bool :=
  let '(i1, r1, l1) := a in let '(i2, r2, l2) := b in (i1 =? i2) && (r1 =? r2) && list_eqb Bool.eqb l1 l2.
(* the model and libmcount agree on every step *)
Definition vagree (c : list vsop * list (N * N * list bool)) : bool := list_eqb shape_eqb (vs_run (1, vth0, vsaved0) (fst c)) (snd c).
(* ground truth, on the implementation's own output: the state after the parent's return from vfork is the
   state before the vfork call *)
Fixpoint vok_from (prev : N * N * list bool) (before : option (N * N * list bool)) (ops : list vsop)
                  (obs : list (N * N * list bool)) : bool :=
  match ops, obs with
  | o :: r, s :: sr =>
      match o with
      | SVfork _ => vok_from s (Some prev) r sr
      | SParent => match before with Some b => shape_eqb b s && vok_from s None r sr | None => false end
      | _ => vok_from s before r sr
      end
  | _, _ => true
  end.
Definition vok (c : list vsop * list (N * N * list bool)) : bool := vok_from (0, 0, []) None (fst c) (snd c).

(* ================================================================ Part 1d: the GOT slots of abandoned library calls
   A hooked library call runs through the PLT hook only while its GOT slot points to the hook.  During the call the
   dynamic linker may overwrite the slot with the resolved address (first call, lazy binding); the exit hook points
   it back (update_pltgot).  A call left by longjmp never runs its exit hook: restore_jmpbuf_rstack re-arms the slots
   of the abandoned entries (mcount_plthook_rearm, fixes 93f2adc and 23390dc).  rstack[i] = Some sym for a library
   call, None for a traced function; got sym = true when the slot points to the hook. *)
Record gst := { g_arr : N -> option N; g_idx : N; g_got : N -> bool }.
Definition g_entry (s : gst) (sym : option N) : gst :=
  {| g_arr := fun i => if i =? g_idx s then sym else g_arr s i; g_idx := g_idx s + 1;
     g_got := match sym with Some y => fun x => if x =? y then false else g_got s x | None => g_got s end |}.
Definition rearm (s : gst) (i : N) (got : N -> bool) : N -> bool :=
  match g_arr s i with Some y => fun x => if x =? y then true else got x | None => got end.
Definition g_exit (s : gst) : gst :=
  {| g_arr := g_arr s; g_idx := g_idx s - 1; g_got := rearm s (g_idx s - 1) (g_got s) |}.
Fixpoint rearm_range (s : gst) (from : N) (n : nat) (got : N -> bool) : N -> bool :=
  match n with O => got | S k => rearm_range s (from + 1) k (rearm s from got) end.
(* the exit hook of longjmp: restore_jmpbuf_rstack(count = idx at setjmp time, the setjmp entry included) walks
   the entries from `first count` up to idx, then the restored setjmp entry is popped by its own (second) exit *)
Definition g_longjmp (first : N -> N) (s : gst) (count : N) : gst :=
  {| g_arr := g_arr s; g_idx := count - 1;
     g_got := rearm_range s (first count) (N.to_nat (g_idx s - first count)) (g_got s) |}.
Definition first_fixed (count : N) : N := count - 1.        (* since 23390dc *)
Definition first_legacy (count : N) : N := count.           (* 93f2adc as found: skips the slot the setjmp entry had *)
(* every slot that does not point to the hook belongs to a call that is still on the shadow stack *)
Definition ginv (s : gst) : Prop := forall y, g_got s y = false -> exists i, i < g_idx s /\ g_arr s i = Some y.

(* ================================================================ Part 2: replay side *)
From Coq Require Import ZArith.
(* one record of a task's stream as replay classifies it (fixup_syms); an EXIT carries the depth field
   of the record *)

(* utils/fstack.c: stack_count / display_depth / longjmp_pending of the task + the two file-level statics
   (C ints: modelled in Z) *)
Record rp := { stack_count : Z; display_depth : Z; setjmp_depth : Z; setjmp_count : Z; lj_pending : bool }.
Definition rp0 := {| stack_count := 0; display_depth := 0; setjmp_depth := 0; setjmp_count := 0; lj_pending := false |}.

(* returns the new state and the depth the record is shown at (replay.c: ENTRY lines use the depth
   before fstack_update, EXIT lines the depth after it).
   fstack_update_stack_count (since fix a7444cc): the EXIT after a longjmp is the matching setjmp's; its
   depth field corrects the guess "latest setjmp" made by the LONGJMP fix-up. *)
Definition rp_step (p : rp) (e : sev) : rp * N :=
  match e with
  | SEntry k =>
      let sc := (stack_count p + 1)%Z in                          (* fstack_update_stack_count *)
      let shown := Z.to_N (display_depth p) in
      match k with
      | SNormal => ({| stack_count := sc; display_depth := (display_depth p + 1)%Z;
                       setjmp_depth := setjmp_depth p; setjmp_count := setjmp_count p;
                       lj_pending := lj_pending p |}, shown)
      | SSetjmp _ => ({| stack_count := sc; display_depth := (display_depth p + 1)%Z;
                         setjmp_depth := (display_depth p + 1)%Z; setjmp_count := sc;
                         lj_pending := lj_pending p |}, shown)
      | SLongjmp _ => ({| stack_count := setjmp_count p; display_depth := setjmp_depth p;
                          setjmp_depth := setjmp_depth p; setjmp_count := setjmp_count p;
                          lj_pending := true |}, shown)
      end
  | SExit d =>
      let diff := if lj_pending p then (stack_count p - 1 - Z.of_N d)%Z else 0%Z in
      let sc1 := (stack_count p - diff)%Z in
      let dd1 := if (diff =? 0)%Z then display_depth p else Z.max 0 (display_depth p - diff) in
      let sc2 := if (0 <? sc1)%Z then (sc1 - 1)%Z else sc1 in
      let dd2 := if (0 <? dd1)%Z then (dd1 - 1)%Z else 0%Z in
      ({| stack_count := sc2; display_depth := dd2;
          setjmp_depth := setjmp_depth p; setjmp_count := setjmp_count p; lj_pending := false |}, Z.to_N dd2)
  end.
Fixpoint rp_run (p : rp) (es : list sev) : list N :=
  match es with [] => [] | e :: r => let '(p', d) := rp_step p e in d :: rp_run p' r end.

(* ground truth: the true number of open calls, with one saved depth per jmp_buf.  The EXIT that
   follows a longjmp entry is the second return of the matching setjmp (libmcount writes it right
   after the longjmp's ENTRY), and every EXIT record carries the true depth of the call it closes. *)
Record gt := { g_depth : N; g_jb : list (N * N); g_pend : bool }.
Definition gt0 := {| g_depth := 0; g_jb := []; g_pend := false |}.
Definition gt_step (g : gt) (e : sev) : option (gt * N) :=
  match e with
  | SEntry k =>
      if g_pend g then None else
      match k with
      | SNormal => Some ({| g_depth := g_depth g + 1; g_jb := g_jb g; g_pend := false |}, g_depth g)
      | SSetjmp jb =>
          Some ({| g_depth := g_depth g + 1; g_jb := (jb, g_depth g + 1) :: g_jb g; g_pend := false |}, g_depth g)
      | SLongjmp jb =>
          match assoc jb (g_jb g) with
          | Some d => Some ({| g_depth := d; g_jb := g_jb g; g_pend := true |}, g_depth g)
          | None => None
          end
      end
  | SExit d =>
      if (0 <? g_depth g) && (d =? g_depth g - 1)
      then Some ({| g_depth := g_depth g - 1; g_jb := g_jb g; g_pend := false |}, g_depth g - 1)
      else None
  end.
Fixpoint gt_run (g : gt) (es : list sev) : option (list N) :=
  match es with
  | [] => Some []
  | e :: r => match gt_step g e with
              | None => None
              | Some (g', d) => match gt_run g' r with None => None | Some l => Some (d :: l) end
              end
  end.

(* the record stream as replay reads it *)
Definition sev_of (r : rec) : sev := match r_ty r with ENTRY => SEntry (r_kind r) | EXIT => SExit (r_depth r) end.
Definition stream_of (o : list rec) : list sev := map sev_of o.

Definition nlist_eqb := list_eqb N.eqb.
(* the depths of the ENTRY records only (what one can read off replay's output: `f() {` / `f();` lines) *)
Fixpoint entry_depths (es : list sev) (ds : list N) : list N :=
  match es, ds with
  | SEntry _ :: er, d :: dr => d :: entry_depths er dr
  | SExit _ :: er, _ :: dr => entry_depths er dr
  | _, _ => []
  end.
(* checker for a replayed stream: the depths shown are the true ones *)
Definition ok_replay (es : list sev) (shown : list N) : bool :=
  match gt_run gt0 es with Some l => nlist_eqb l shown | None => false end.
Definition agree_replay (es : list sev) (shown : list N) : bool := nlist_eqb (rp_run rp0 es) shown.
Definition ok_replay_entries (es : list sev) (shown : list N) : bool :=
  match gt_run gt0 es with Some l => nlist_eqb (entry_depths es l) shown | None => false end.
Definition agree_replay_entries (es : list sev) (shown : list N) : bool :=
  nlist_eqb (entry_depths es (rp_run rp0 es)) shown.

(* ---------------------------------------------------------------- several tasks in one trace
   setjmp_depth / setjmp_count are file-level statics of utils/fstack.c: every task (thread or process) of the
   trace reads and writes the same pair, so the "latest setjmp" guessed at a longjmp may be another task's.
   The merged stream is a list of (task, record); stack_count / display_depth / longjmp_pending are per task. *)
Record tk := { k_sc : Z; k_dd : Z; k_pend : bool }.
Definition tk0 := {| k_sc := 0; k_dd := 0; k_pend := false |}.
Record rpm := { m_task : N -> tk; m_sd : Z; m_sc : Z }.
Definition rpm0 := {| m_task := fun _ => tk0; m_sd := 0; m_sc := 0 |}.
Definition view (s : rpm) (t : N) : rp :=
  {| stack_count := k_sc (m_task s t); display_depth := k_dd (m_task s t);
     setjmp_depth := m_sd s; setjmp_count := m_sc s; lj_pending := k_pend (m_task s t) |}.
Definition rpm_step (s : rpm) (t : N) (e : sev) : rpm * N :=
  let p := fst (rp_step (view s t) e) in
  ({| m_task := fun x => if x =? t
                         then {| k_sc := stack_count p; k_dd := display_depth p; k_pend := lj_pending p |}
                         else m_task s x;
      m_sd := setjmp_depth p; m_sc := setjmp_count p |}, snd (rp_step (view s t) e)).
Fixpoint rpm_run (s : rpm) (es : list (N * sev)) : list N :=
  match es with [] => [] | (t, e) :: r => snd (rpm_step s t e) :: rpm_run (fst (rpm_step s t e)) r end.
(* ground truth: every task has its own call stack and its own jmp_bufs *)
Fixpoint gtm_run (g : N -> gt) (es : list (N * sev)) : option (list N) :=
  match es with
  | [] => Some []
  | (t, e) :: r =>
      match gt_step (g t) e with
      | None => None
      | Some (g', d) =>
          match gtm_run (fun x => if x =? t then g' else g x) r with None => None | Some l => Some (d :: l) end
      end
  end.
(* the depths of the ENTRY records of task t *)
Fixpoint entry_depths_of (t : N) (es : list (N * sev)) (ds : list N) : list N :=
  match es, ds with
  | (u, SEntry _) :: er, d :: dr => if u =? t then d :: entry_depths_of t er dr else entry_depths_of t er dr
  | (_, SExit _) :: er, _ :: dr => entry_depths_of t er dr
  | _, _ => []
  end.
(* shown: per task, the depths of its `f() {` / `f();` lines in replay's output *)
Definition ok_replay_tasks (es : list (N * sev)) (shown : list (N * list N)) : bool :=
  match gtm_run (fun _ => gt0) es with
  | Some l => forallb (fun p : N * list N => nlist_eqb (entry_depths_of (fst p) es l) (snd p)) shown
  | None => false
  end.
Definition agree_replay_tasks (es : list (N * sev)) (shown : list (N * list N)) : bool :=
  forallb (fun p : N * list N => nlist_eqb (entry_depths_of (fst p) es (rpm_run rpm0 es)) (snd p)) shown.

(* the resynchronisation restricted to a guess that was too deep (`diff > 0` instead of `diff != 0`): right for
   one task - a later setjmp of the same task is never shallower than a live older one - and wrong as soon as
   another task's shallower setjmp is the latest (refuted in ProofsReplay.v) *)
Definition rp_step_shrink_only (p : rp) (e : sev) : rp * N :=
  match e with
  | SEntry _ => rp_step p e
  | SExit d =>
      let diff0 := if lj_pending p then (stack_count p - 1 - Z.of_N d)%Z else 0%Z in
      let diff := if (0 <? diff0)%Z then diff0 else 0%Z in
      let sc1 := (stack_count p - diff)%Z in
      let dd1 := if (diff =? 0)%Z then display_depth p else Z.max 0 (display_depth p - diff) in
      let sc2 := if (0 <? sc1)%Z then (sc1 - 1)%Z else sc1 in
      let dd2 := if (0 <? dd1)%Z then (dd1 - 1)%Z else 0%Z in
      ({| stack_count := sc2; display_depth := dd2;
          setjmp_depth := setjmp_depth p; setjmp_count := setjmp_count p; lj_pending := false |}, Z.to_N dd2)
  end.
Definition rpm_step_with (step : rp -> sev -> rp * N) (s : rpm) (t : N) (e : sev) : rpm * N :=
  let p := fst (step (view s t) e) in
  ({| m_task := fun x => if x =? t
                         then {| k_sc := stack_count p; k_dd := display_depth p; k_pend := lj_pending p |}
                         else m_task s x;
      m_sd := setjmp_depth p; m_sc := setjmp_count p |}, snd (step (view s t) e)).
Fixpoint rpm_run_with (step : rp -> sev -> rp * N) (s : rpm) (es : list (N * sev)) : list N :=
  match es with
  | [] => []
  | (t, e) :: r => snd (rpm_step_with step s t e) :: rpm_run_with step (fst (rpm_step_with step s t e)) r
  end.

(* checker for the record stream the implementation wrote in-process: classify its records with the kinds
   (setjmp / longjmp and their jmp_buf) the program's operations imply, then ask the ground truth and the
   replay model: every record must be accepted at the depth it carries, and replay must show that depth *)
Definition impl_stream (ops : list op) (recs : list (N * N * N)) : option (list sev) :=
  match lrun init ops with
  | Some (s, _) =>
      if Nat.eqb (length (out s)) (length recs)
      then Some (map (fun p : rec * (N * N * N) =>
                        let '(r, (ty, d, _)) := p in if ty =? 0 then SEntry (r_kind r) else SExit d)
                     (combine (out s) recs))
      else None
  | None => None
  end.
Definition ok_stream (ops : list op) (recs : list (N * N * N)) : bool :=
  match impl_stream ops recs with
  | Some es =>
      let ds := map (fun r : N * N * N => let '(_, d, _) := r in d) recs in
      match gt_run gt0 es with
      | Some l => nlist_eqb l ds && nlist_eqb (rp_run rp0 es) ds
      | None => false
      end
  | None => true      (* different number of records: reported by agree_case as a disagreement *)
  end.
Definition fok2 (c : fcase) : bool :=
  let '(ops, _, recs, _) := c in fok c && ok_stream ops (decode_recs recs).
