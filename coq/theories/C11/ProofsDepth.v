(* C11, record side: record_idx and the depth stored in every shadow-stack entry always equal the
   entry's height, across longjmp restores and exception unwinding, for ALL operation sequences. *)
From Coq Require Import NArith List Bool Lia Arith PeanoNat.
Import ListNotations.
Require Import UV.Gen.Consts UV.C11.Model.
Local Open Scope N_scope.

Fixpoint depths_ok (l : list ent) : Prop :=
  match l with
  | [] => True
  | e :: r => e_depth e = N.of_nat (length r) /\ depths_ok r
  end.
Definition jb_ok (b : N * (N * list ent)) : Prop :=
  fst (snd b) = N.of_nat (length (snd (snd b))) /\ depths_ok (snd (snd b)).
Definition linv (s : lst) : Prop :=
  ridx s = N.of_nat (length (rs s)) /\ depths_ok (rs s) /\ Forall jb_ok (jbs s).

Lemma linv_init : linv init.
Proof. repeat split; simpl; auto. Qed.

Lemma dec_S : forall n : nat, dec (N.of_nat (S n)) = N.of_nat n.
Proof. intros n. unfold dec. destruct (0 <? N.of_nat (S n)) eqn:E; [lia|]. apply N.ltb_ge in E. lia. Qed.

Lemma flush_anc_shape : forall anc, length (fst (flush_anc anc)) = length anc /\
  (depths_ok anc -> depths_ok (fst (flush_anc anc))).
Proof.
  induction anc as [|p r IH]; simpl; [auto|].
  destruct (e_written p); [simpl; auto|].
  destruct (flush_anc r) as [r' recs] eqn:E. simpl in *. destruct IH as [IH1 IH2].
  split; [lia|]. intros [H1 H2]. split; [rewrite IH1; exact H1|auto].
Qed.

Lemma rtd_shape : forall top anc, let '(top', anc', _) := rtd top anc in
  length anc' = length anc /\ e_depth top' = e_depth top /\ (depths_ok anc -> depths_ok anc').
Proof.
  intros top anc. unfold rtd.
  destruct (e_written top) eqn:Ew.
  - repeat split; auto.
  - destruct (flush_anc anc) as [anc' pre] eqn:E. pose proof (flush_anc_shape anc) as H. rewrite E in H. simpl in H.
    destruct H as [H1 H2]. repeat split; auto.
Qed.

Lemma map_set_written_shape : forall l, length (map set_written l) = length l /\ (depths_ok l -> depths_ok (map set_written l)).
Proof.
  induction l as [|e r [IH1 IH2]]; simpl; [auto|]. split; [lia|]. intros [H1 H2]. split; [rewrite IH1; exact H1|auto].
Qed.

Lemma fix_chain_bottom_shape : forall loc v l, length (fix_chain_bottom loc v l) = length l /\
  (depths_ok l -> depths_ok (fix_chain_bottom loc v l)).
Proof.
  intros loc v. induction l as [|e r [IH1 IH2]]; simpl; [auto|].
  destruct r as [|e2 r2].
  - simpl. split; [reflexivity|]. intros [H1 _]. split; auto.
  - destruct (e_loc e2 =? loc).
    + split; [simpl in *; lia|]. intros [H1 H2]. split; [rewrite IH1; exact H1|auto].
    + split; [reflexivity|]. intros [H1 H2]. split; auto.
Qed.

Lemma pop_unwound_shape : forall fuel fa l ri o,
  ri = N.of_nat (length l) -> depths_ok l ->
  let '(l', ri', _) := pop_unwound fuel fa l ri o in ri' = N.of_nat (length l') /\ depths_ok l'.
Proof.
  induction fuel as [|f IH]; intros fa l ri o Hr Hd; simpl.
  - destruct l; auto.
  - destruct l as [|e r]; [auto|].
    destruct (fa <? e_loc e); [auto|].
    pose proof (rtd_shape (set_end e 1) r) as H. destruct (rtd (set_end e 1) r) as [[t' r'] recs].
    destruct H as [H1 [_ H3]]. destruct Hd as [Hd1 Hd2].
    apply IH; [|auto]. subst ri. simpl length. rewrite dec_S. rewrite H1. reflexivity.
Qed.

Lemma rehook_exception_linv : forall s fa, linv s -> linv (rehook_exception s fa).
Proof.
  intros s fa [H1 [H2 H3]]. unfold rehook_exception.
  pose proof (pop_unwound_shape (length (rs s)) fa (rs s) (ridx s) (out s) H1 H2) as H.
  destruct (pop_unwound _ fa (rs s) (ridx s) (out s)) as [[l ri] o]. destruct H as [Ha Hb].
  unfold linv; simpl. destruct l as [|e r].
  - repeat split; auto.
  - pose proof (fix_chain_bottom_shape (e_loc e) (m s (e_loc e)) (e :: r)) as [F1 F2].
    repeat split; [rewrite F1; exact Ha|auto|auto].
Qed.

Lemma mcount_entry_linv : forall s k loc fa, linv s -> linv (mcount_entry s k loc fa).
Proof.
  intros s k loc fa H. unfold mcount_entry.
  set (s1 := if inexc s then _ else s).
  assert (H1 : linv s1).
  { unfold s1. destruct (inexc s); [|exact H]. apply rehook_exception_linv with (fa := if fa <? loc then loc - 1 else fa) in H.
    destruct H as [A [B C]]. repeat split; simpl; auto. }
  destruct H1 as [A [B C]]. unfold linv; simpl. repeat split; auto. rewrite A. lia.
Qed.

Lemma exit_common_linv : forall b s s' v, linv s -> exit_common b s = Some (s', v) -> linv s'.
Proof.
  intros b s s' v [A [B C]] H. unfold exit_common in H. destruct (rs s) as [|top anc] eqn:E; [discriminate|].
  destruct (b && negb (e_plt top)); [discriminate|].
  pose proof (rtd_shape (set_end top 1) anc) as R. destruct (rtd (set_end top 1) anc) as [[t' anc'] recs].
  destruct R as [R1 [_ R3]]. inversion H; subst; clear H. destruct B as [B1 B2].
  unfold linv; simpl. repeat split; auto. rewrite A. simpl length. rewrite dec_S, R1. reflexivity.
Qed.

Lemma assoc_Forall : forall (P : N * (N * list ent) -> Prop) k l v, Forall P l -> assoc k l = Some v -> exists k', P (k', v).
Proof.
  intros P k. induction l as [|[k' v'] r IH]; intros v HF H; simpl in H; [discriminate|].
  inversion HF; subst. destruct (k =? k'); [inversion H; subst; eauto|eauto].
Qed.

Lemma plthook_exit_linv : forall s s' v, linv s -> plthook_exit s = Some (s', v) -> linv s'.
Proof.
  intros s s' v H Hx. unfold plthook_exit in Hx. destruct (rs s) as [|top r] eqn:E; [discriminate|].
  destruct (e_lj top).
  - destruct (assoc (e_end top) (jbs s)) as [[ri snap]|] eqn:Ea; [|discriminate].
    destruct H as [A [B C]]. destruct (assoc_Forall jb_ok _ _ _ C Ea) as [k' [J1 J2]]. simpl in J1, J2.
    eapply exit_common_linv; [|exact Hx]. pose proof (map_set_written_shape snap) as [M1 M2].
    unfold linv; simpl. repeat split; auto. rewrite M1. exact J1.
  - eapply exit_common_linv; eauto.
Qed.

Lemma plthook_push_linv : forall s kd k loc arg, linv s -> linv (plthook_push s kd k loc arg).
Proof.
  intros s kd k loc arg [A [B C]]. unfold plthook_push.
  set (e := new_ent s true k loc (kind_of kd arg)).
  assert (He : e_depth e = N.of_nat (length (rs s))) by (unfold e, new_ent; simpl; exact A).
  pose proof (rtd_shape e (rs s)) as R.
  destruct (is_flush kd).
  - destruct (rtd e (rs s)) as [[e1 anc1] recs]. destruct R as [R1 [R2 R3]].
    destruct kd; unfold linv; simpl; repeat split; auto; try (rewrite A, R1; lia); try (rewrite R1, R2; exact He).
    constructor; [|exact C]. unfold jb_ok; simpl. repeat split; auto; try (rewrite A, R1; lia). rewrite R1, R2; exact He.
  - destruct kd; unfold linv; simpl; repeat split; auto; try (rewrite A; lia).
    constructor; [|exact C]. unfold jb_ok; simpl. repeat split; auto. rewrite A; lia.
Qed.

Lemma plthook_entry_linv : forall s kd k loc arg, linv s -> linv (plthook_entry s kd k loc arg).
Proof.
  intros s kd k loc arg H. unfold plthook_entry. apply plthook_push_linv. destruct (inexc s); [|exact H].
  apply rehook_exception_linv with (fa := loc) in H. destruct H as [A [B C]]. repeat split; auto.
Qed.

Lemma follow_linv : forall fuel s v n s' v' n', linv s -> follow fuel s v n = Some (s', v', n') -> linv s'.
Proof.
  induction fuel as [|f IH]; intros s v n s' v' n' H Hf; simpl in Hf.
  - destruct (is_tramp v); [discriminate|]. inversion Hf; subst; exact H.
  - destruct (is_tramp v); [|inversion Hf; subst; exact H].
    destruct (v =? MRET).
    + destruct (mcount_exit s) as [[s1 v1]|] eqn:E; [|discriminate].
      eapply IH; [|exact Hf]. eapply exit_common_linv; eauto.
    + destruct (plthook_exit s) as [[s1 v1]|] eqn:E; [|discriminate].
      eapply IH; [|exact Hf]. eapply plthook_exit_linv; eauto.
Qed.

Lemma with_m_linv : forall s mm, linv s -> linv (with_m s mm).
Proof. intros s mm [A [B C]]. repeat split; auto. Qed.

Lemma lstep_linv : forall s o s' ob, linv s -> lstep s o = Some (s', ob) -> linv s'.
Proof.
  intros s o s' ob H Hs. destruct o; cbn [lstep] in Hs.
  - inversion Hs; subst. apply mcount_entry_linv, with_m_linv, H.
  - inversion Hs; subst. apply mcount_entry_linv, H.
  - inversion Hs; subst. apply with_m_linv, H.
  - pose proof (plthook_entry_linv (with_m s (upd (m s) s0 r)) kd k s0 arg (with_m_linv _ _ H)) as P.
    destruct kd; try (inversion Hs; subst; exact P).
    destruct (assoc arg (jpc _)) as [pc|]; [|discriminate].
      destruct (follow _ _ pc 0) as [[[s2 v] n]|] eqn:Ef; [|discriminate]. inversion Hs; subst.
      eapply follow_linv; eauto.
  - inversion Hs; subst. apply plthook_entry_linv, H.
  - destruct (follow _ s _ 0) as [[[s2 v] n]|] eqn:Ef; [|discriminate]. inversion Hs; subst. eapply follow_linv; eauto.
  - inversion Hs; subst. destruct H as [A [B C]]. repeat split; auto.
  - inversion Hs; subst. exact H.
  - inversion Hs; subst. unfold do_resume.
    assert (H1 : linv (if inexc (with_m s (upd (m s) s0 r)) then rehook_exception (with_m s (upd (m s) s0 r)) s0
                       else with_m s (upd (m s) s0 r))).
    { destruct (inexc _); [apply rehook_exception_linv|]; apply with_m_linv, H. }
    destruct H1 as [A [B C]]. repeat split; auto.
  - inversion Hs; subst. unfold do_catch. destruct (inexc s); [|exact H].
    apply rehook_exception_linv with (fa := fa) in H. destruct H as [A [B C]]. repeat split; auto.
  - inversion Hs; subst. apply with_m_linv, H.
Qed.

Lemma lrun_linv : forall ops s s' obs, linv s -> lrun s ops = Some (s', obs) -> linv s'.
Proof.
  induction ops as [|o r IH]; intros s s' obs H Hr; simpl in Hr.
  - inversion Hr; subst; exact H.
  - destruct (lstep s o) as [[s1 ob]|] eqn:E; [|discriminate].
    destruct (lrun s1 r) as [[s2 l]|] eqn:E2; [|discriminate]. inversion Hr; subst.
    eapply IH; [|exact E2]. eapply lstep_linv; eauto.
Qed.

Lemma depths_ok_nth : forall l, depths_ok l -> forall i e, nth_error (rev l) i = Some e -> e_depth e = N.of_nat i.
Proof.
  induction l as [|x r IH]; intros H i e Hn; simpl in *.
  - destruct i; discriminate.
  - destruct H as [H1 H2]. destruct (Nat.lt_ge_cases i (length (rev r))) as [Hlt|Hge].
    + rewrite nth_error_app1 in Hn by exact Hlt. eauto.
    + rewrite nth_error_app2 in Hn by exact Hge. rewrite rev_length in *.
      destruct (i - length r)%nat eqn:Ei; simpl in Hn; [|destruct n; discriminate].
      inversion Hn; subst. rewrite H1. f_equal. lia.
Qed.

(* whatever the program does (any operation sequence, legal or not): record_idx is the number of
   shadow-stack entries and the depth recorded for the i-th entry from the bottom is i *)
Theorem depth_is_height : forall ops s obs, lrun init ops = Some (s, obs) ->
  ridx s = N.of_nat (length (rs s)) /\
  forall i e, nth_error (rev (rs s)) i = Some e -> e_depth e = N.of_nat i.
Proof.
  intros ops s obs H. pose proof (lrun_linv ops init s obs linv_init H) as [A [B _]].
  split; [exact A|]. apply depths_ok_nth. exact B.
Qed.
