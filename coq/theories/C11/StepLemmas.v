(* C11: what restore / rehook / unwinding do to a shadow stack that mirrors the real stack *)
From Coq Require Import NArith List Bool Lia.
Import ListNotations.
Require Import UV.Gen.Consts UV.C11.Model UV.C11.StepBase UV.C11.ProofsDepth.
Local Open Scope N_scope.

Fixpoint first_hooked (F : list rframe) : option rframe :=
  match F with
  | [] => None
  | f :: r => match f_pend f with [] => first_hooked r | _ => Some f end
  end.

(* ---------------------------------------------------------------- one chain *)
Lemma restore_first_chain : forall slot ra pend rest mm, valid_ra ra = true -> pend <> [] ->
  restore_first_p (chain slot ra pend ++ rest) mm = upd mm slot ra.
Proof.
  induction pend as [|k r IH]; intros rest mm Hv Hne; [congruence|]. simpl.
  destruct r as [|k' r'].
  - unfold p_ip, p_loc; simpl. rewrite (valid_ra_not_tramp ra Hv). reflexivity.
  - unfold p_ip; simpl fst; simpl snd. rewrite tramp_of_is_tramp. apply IH; [exact Hv|discriminate].
Qed.

Lemma restore_all_chain : forall slot ra pend mm, valid_ra ra = true -> pend <> [] ->
  restore_all_p (chain slot ra pend) mm = upd mm slot ra.
Proof.
  induction pend as [|k r IH]; intros mm Hv Hne; [congruence|]. simpl.
  destruct r as [|k' r'].
  - unfold p_ip, p_loc; simpl. rewrite (valid_ra_not_tramp ra Hv). reflexivity.
  - unfold p_ip; simpl fst; simpl snd. rewrite tramp_of_is_tramp. apply IH; [exact Hv|discriminate].
Qed.

Lemma homog_tail : forall k r, homog (k :: r) -> homog r.
Proof. intros. exact I. Qed.

(* oldest first: the slot of a chain ends up with the trampoline of its newest entry *)
Lemma rehook_rev_chain : forall slot ra pend mm, pend <> [] ->
  rehook_all_p (rev (chain slot ra pend)) mm slot = tramp_of (hd false pend) /\
  forall a, a <> slot -> rehook_all_p (rev (chain slot ra pend)) mm a = mm a.
Proof.
  intros slot ra pend mm Hne. destruct pend as [|k r]; [congruence|]. cbn [chain rev hd].
  rewrite rehook_all_p_app. cbn [rehook_all_p p_loc p_plt fst snd]. split; [apply upd_same|].
  intros a Ha. rewrite upd_other by exact Ha. apply rehook_all_p_other.
  intros x Hx. apply in_rev in Hx. apply chain_loc in Hx. rewrite Hx. auto.
Qed.

(* ---------------------------------------------------------------- whole shadow *)
Lemma restore_first_shadow : forall F mm, Forall fvalid F ->
  restore_first_p (shadow F) mm =
  match first_hooked F with Some f => upd mm (f_slot f) (f_ra f) | None => mm end.
Proof.
  induction F as [|f r IH]; intros mm Hv; simpl; [reflexivity|]. inversion Hv as [|? ? [Hra Hh] Hr]; subst.
  unfold ents_of. destruct (f_pend f) as [|k p] eqn:E.
  - simpl. apply IH. exact Hr.
  - apply restore_first_chain; [exact Hra|discriminate].
Qed.

Lemma in_shadow_tail_ne : forall f r y, lt_all (f_slot f) r -> In y (shadow r) -> p_loc y <> f_slot f.
Proof. intros f r y H Hy. eapply shadow_loc_ne; eauto. Qed.

Lemma restore_all_shadow_exc : forall F mm, sorted F -> Forall fvalid F ->
  (forall f, In f F -> f_pend f = [] -> mm (f_slot f) = f_ra f) ->
  mem_exc (restore_all_p (shadow F) mm) F.
Proof.
  induction F as [|f r IH]; intros mm Hs Hv Hun; [constructor|].
  destruct Hs as [Hlt Hs]. inversion Hv as [|? ? [Hra Hh] Hr]; subst.
  simpl shadow. rewrite restore_all_p_app. set (m1 := restore_all_p (ents_of f) mm).
  assert (Hm1 : m1 (f_slot f) = f_ra f /\ forall a, a <> f_slot f -> m1 a = mm a).
  { unfold m1, ents_of. destruct (f_pend f) as [|k p] eqn:E.
    - simpl. split; [apply Hun; [left; reflexivity|exact E]|reflexivity].
    - rewrite restore_all_chain by (auto; discriminate). split; [apply upd_same|intros a Ha; apply upd_other; exact Ha]. }
  destruct Hm1 as [Hm1a Hm1b]. constructor.
  - unfold slot_real. rewrite restore_all_p_other; [exact Hm1a|]. intros y Hy. eapply in_shadow_tail_ne; eauto.
  - apply IH; [exact Hs|exact Hr|]. intros g Hg Hgp. rewrite Hm1b.
    + apply Hun; [right; exact Hg|exact Hgp].
    + unfold lt_all in Hlt. rewrite Forall_forall in Hlt. specialize (Hlt g Hg). lia.
Qed.

Lemma shadow_cons : forall f r, shadow (f :: r) = ents_of f ++ shadow r.
Proof. reflexivity. Qed.

Lemma rehook_all_shadow_hooked : forall F mm, sorted F -> Forall fvalid F ->
  (forall f, In f F -> f_pend f = [] -> mm (f_slot f) = f_ra f) ->
  mem_hooked (rehook_all_p (rev (shadow F)) mm) F.
Proof.
  induction F as [|f r IH]; intros mm Hs Hv Hun; [constructor|].
  destruct Hs as [Hlt Hs]. inversion Hv as [|? ? [Hra Hh] Hr]; subst.
  rewrite shadow_cons, rev_app_distr, rehook_all_p_app. set (m1 := rehook_all_p (rev (shadow r)) mm).
  assert (Hm1 : mem_hooked m1 r) by (apply IH; [exact Hs|exact Hr|intros g Hg Hp; apply Hun; [right; exact Hg|exact Hp]]).
  assert (Hm1f : m1 (f_slot f) = mm (f_slot f)).
  { apply rehook_all_p_other. intros y Hy. apply in_rev in Hy. eapply in_shadow_tail_ne; eauto. }
  assert (Hchain : forall y, In y (rev (ents_of f)) -> p_loc y = f_slot f).
  { intros y Hy. apply in_rev in Hy. unfold ents_of in Hy. apply chain_loc in Hy. exact Hy. }
  constructor.
  - unfold slot_hooked, ents_of. destruct (f_pend f) as [|k p] eqn:E.
    + simpl. rewrite Hm1f. apply Hun; [left; reflexivity|exact E].
    + destruct (rehook_rev_chain (f_slot f) (f_ra f) (k :: p) m1) as [A _]; [discriminate|]. exact A.
  - eapply mem_ext; [apply slot_hooked_ext| |exact Hm1]. intros g Hg. symmetry. apply rehook_all_p_other.
    intros y Hy. rewrite (Hchain y Hy). unfold lt_all in Hlt. rewrite Forall_forall in Hlt. specialize (Hlt g Hg). lia.
Qed.

Lemma mem_exc_unhooked : forall mm F f, mem_exc mm F -> In f F -> mm (f_slot f) = f_ra f.
Proof. intros mm F f H Hf. unfold mem_exc in H. rewrite Forall_forall in H. apply H. exact Hf. Qed.
Lemma mem_rest_unhooked : forall mm F f, mem_rest mm F -> In f F -> f_pend f = [] -> mm (f_slot f) = f_ra f.
Proof. intros mm F f H Hf Hp. unfold mem_rest in H. rewrite Forall_forall in H. specialize (H f Hf). unfold slot_either in H. rewrite Hp in H. exact H. Qed.

(* restoring the first hooked frame of a stack whose first hooked frame is hooked leaves every slot
   "hooked or real" *)
Lemma mem_top_restore_first : forall F mm, sorted F -> mem_top mm F ->
  mem_rest (match first_hooked F with Some f => upd mm (f_slot f) (f_ra f) | None => mm end) F.
Proof.
  induction F as [|f r IH]; intros mm Hs H; [constructor|]. destruct Hs as [Hlt Hs]. simpl in *.
  destruct (f_pend f) as [|k p] eqn:E; destruct H as [H1 H2].
  - specialize (IH mm Hs H2). constructor; [|exact IH].
    unfold slot_either. rewrite E. destruct (first_hooked r) as [g|] eqn:Eg; [|exact H1].
    rewrite upd_other; [exact H1|].
    assert (In g r). { clear -Eg. induction r as [|x r IH]; simpl in Eg; [discriminate|]. destruct (f_pend x); [right; auto|inversion Eg; left; reflexivity]. }
    unfold lt_all in Hlt. rewrite Forall_forall in Hlt. specialize (Hlt g H). lia.
  - constructor.
    + unfold slot_either. rewrite E. right. apply upd_same.
    + apply mem_rest_upd_below; [exact Hlt|exact H2].
Qed.

(* ---------------------------------------------------------------- unwinding *)
Lemma pop_unwound_proj : forall PS fuel fa l PL ri o,
  map proj l = PS ++ PL -> (length l <= fuel)%nat ->
  (forall x, In x PS -> p_loc x <= fa) ->
  (match PL with [] => True | y :: _ => fa < p_loc y end) ->
  let '(l', _, _) := pop_unwound fuel fa l ri o in map proj l' = PL.
Proof.
  induction PS as [|x PS IH]; intros fuel fa l PL ri o Hm Hf Hle Hgt.
  - simpl in Hm. destruct fuel as [|f]; simpl.
    + destruct l; [simpl in *; exact Hm|simpl in Hf; lia].
    + destruct l as [|e r]; [exact Hm|]. destruct PL as [|y PL']; [discriminate|].
      simpl in Hm. inversion Hm; subst. unfold p_loc in Hgt; simpl in Hgt.
      apply N.ltb_lt in Hgt. rewrite Hgt. reflexivity.
  - destruct l as [|e r]; [discriminate|]. simpl in Hm. inversion Hm as [[Hx Hr]]; subst x.
    destruct fuel as [|f]; [simpl in Hf; lia|]. simpl.
    assert (Hno : fa <? e_loc e = false).
    { apply N.ltb_ge. specialize (Hle (proj e) (or_introl eq_refl)). unfold p_loc in Hle; simpl in Hle. exact Hle. }
    rewrite Hno. pose proof (rtd_proj (set_end e 1) r) as R.
    pose proof (rtd_shape (set_end e 1) r) as Rl.
    destruct (rtd (set_end e 1) r) as [[t' r'] recs]. destruct R as [_ R2]. destruct Rl as [Rl _].
    apply IH; [rewrite R2; exact Hr| simpl in Hf; lia | intros y Hy; apply Hle; right; exact Hy | exact Hgt].
Qed.
