(* C11: vfork - the parent's shadow stack is back in step after the child has run on it *)
From Coq Require Import NArith List Bool Lia Arith.
Import ListNotations.
Require Import UV.Gen.Consts UV.C11.Model UV.C11.StepBase UV.C11.ProofsDepth UV.C11.StepLemmas UV.C11.StepFollow
  UV.C11.StepInv UV.C11.StepOps UV.C11.StepMain.
Local Open Scope N_scope.

Lemma run_floor_inv : forall ops fl st s st' es, Inv st s -> is_suffix fl (frames st) = true ->
  rrun_floor fl st ops = Some (st', es) ->
  exists s' obs, lrun s ops = Some (s', obs) /\ all_ok es obs = true /\ Inv st' s' /\ is_suffix fl (frames st') = true.
Proof.
  induction ops as [|o r IH]; intros fl st s st' es H Hsuf Hr; simpl in Hr.
  - inversion Hr; subst. exists s, []. split; [reflexivity|]. split; [reflexivity|]. split; assumption.
  - destruct (rstep st o) as [[st1 e]|] eqn:E; [|discriminate].
    destruct (is_suffix fl (frames st1)) eqn:Es; [|discriminate].
    destruct (rrun_floor fl st1 r) as [[st2 l]|] eqn:Er; [|discriminate]. inversion Hr; subst.
    destruct (step_inv st s o st1 e H E) as [s1 [ob [A [B C]]]].
    destruct (IH fl st1 s1 st' l C Es Er) as [s2 [obs [D [F [G K]]]]].
    exists s2, (ob :: obs). simpl. rewrite A, D. split; [reflexivity|]. split; [rewrite B, F; reflexivity|]. split; assumption.
Qed.

Lemma lastn_app : forall {A} (a b : list A) n, n = length b -> lastn n (a ++ b) = b.
Proof.
  intros A a b n Hn. unfold lastn. rewrite app_length. subst n.
  replace (length a + length b - length b)%nat with (length a) by lia.
  rewrite skipn_app. rewrite skipn_all. rewrite Nat.sub_diag. reflexivity.
Qed.

Lemma map_split_app : forall {A B} (f : A -> B) l x y, map f l = x ++ y ->
  exists a b, l = a ++ b /\ map f a = x /\ map f b = y.
Proof. intros. apply map_eq_app. assumption. Qed.

Lemma mem_rest_suffix : forall mm pre F, mem_rest mm (pre ++ F) -> mem_rest mm F.
Proof. intros mm pre F H. unfold mem_rest in *. apply Forall_app in H. exact (proj2 H). Qed.
Lemma shadow_app : forall a b, shadow (a ++ b) = shadow a ++ shadow b.
Proof. intros. unfold shadow. apply flat_map_app. Qed.

Theorem stepT_inv : forall st s t st' es, Inv st s -> rstepT st t = Some (st', es) ->
  exists s' obs, lstepT s t = Some (s', obs) /\ all_ok es obs = true /\ Inv st' s'.
Proof.
  intros st s t st' es H Hr. destruct t as [o|k sl r child]; cbn [rstepT lstepT] in *.
  - destruct (rstep st o) as [[st1 e]|] eqn:E; [|discriminate]. inversion Hr; subst.
    destruct (step_inv st s o st' e H E) as [s1 [ob [A [B C]]]]. exists s1, [ob]. rewrite A. split; [reflexivity|].
    split; [simpl; rewrite B; reflexivity|exact C].
  - destruct (exc st || flight st) eqn:Ef; [discriminate|]. apply orb_false_elim in Ef. destruct Ef as [He Hfl].
    destruct (rstep st (Plt KFlush k sl r 0)) as [[st1 e1]|] eqn:E1; [|discriminate].
    destruct (rstep st1 (Ret sl)) as [[st2 e2]|] eqn:E2; [|discriminate].
    destruct (rrun_floor (frames st) st2 child) as [[stc ec]|] eqn:Ec; [|discriminate].
    destruct (exc stc || flight stc) eqn:Efc; [discriminate|]. apply orb_false_elim in Efc. destruct Efc as [Hec Hflc].
    inversion Hr; subst st' es. clear Hr.
    (* 1. the call *)
    destruct (step_inv st s _ st1 e1 H E1) as [s1 [ob1 [A1 [B1 C1]]]]. cbn [lstep] in A1. inversion A1; subst s1 ob1. clear A1.
    set (s1 := plthook_entry (with_m s (upd (m s) sl r)) KFlush k sl 0) in *.
    (* what the legal call looks like on the real stack *)
    assert (Hst1 : st1 = push st sl r [true] /\ below_top (frames st) sl = true /\ valid_ra r = true).
    { cbn [rstep] in E1. rewrite He in E1. rewrite !andb_false_r in E1. cbn [negb] in E1. rewrite !andb_true_r in E1.
      destruct (below_top (frames st) sl && valid_ra r) eqn:G; [|discriminate]. apply andb_prop in G. destruct G as [G1 G2].
      inversion E1; subst. auto. }
    destruct Hst1 as [Hst1 [Hb Hv]]. subst st1.
    pose proof (below_top_lt_all _ _ (i_sorted _ _ H) Hb) as Hlt.
    assert (He1 : exc (push st sl r [true]) = false) by exact He.
    pose proof (Inv_rs_plain _ _ C1 He1) as Hrs1. cbn [frames push bump mk fresh shadow flat_map ents_of chain f_slot f_ra f_pend app] in Hrs1.
    pose proof (mem_top_plain _ _ C1 He1) as Hm1. cbn [frames push bump mk fresh mem_top f_pend f_slot] in Hm1. destruct Hm1 as [Hm1 _].
    (* 2. the return in the child *)
    destruct (step_inv _ s1 _ st2 e2 C1 E2) as [s2 [ob2 [A2 [B2 C2]]]]. cbn [lstep] in A2. rewrite Hm1 in A2. cbn [tramp_of] in A2.
    destruct (follow (fuel_of s1) s1 PRET 0) as [[[s2' v2] n2]|] eqn:Ef2; [|discriminate]. inversion A2; subst s2' ob2. clear A2.
    assert (Hst2 : frames st2 = frames st /\ e2 = Some (r, 1)).
    { cbn [rstep frames push bump mk fresh] in E2. rewrite N.eqb_refl in E2. cbn [flight push bump mk] in E2. rewrite Hfl in E2. cbn [negb orb andb] in E2.
      inversion E2; subst. split; reflexivity. }
    destruct Hst2 as [Hf2 He2]. subst e2.
    (* 3. the child *)
    assert (Hsuf2 : is_suffix (frames st) (frames st2) = true) by (rewrite Hf2; apply is_suffix_refl).
    destruct (run_floor_inv child (frames st) st2 s2 stc ec C2 Hsuf2 Ec) as [s3 [obc [A3 [B3 [C3 Hsuf3]]]]].
    rewrite A3.
    (* 4. the parent *)
    destruct (is_suffix_app _ _ Hsuf3) as [pre Hpre].
    pose proof (Inv_rs_plain _ _ C3 Hec) as Hrs3. rewrite Hpre, shadow_app in Hrs3.
    apply map_split_app in Hrs3. destruct Hrs3 as [La [Lb [HL [HLa HLb]]]].
    apply map_proj_cons in Hrs1. destruct Hrs1 as [vtop [anc1 [Hr1 [Hpv Hpa0]]]]. rewrite Hr1.
    assert (Hpa : map proj anc1 = shadow (frames st)) by exact Hpa0.
    assert (Hlen : (length (vtop :: anc1) - 1)%nat = length Lb).
    { cbn [length]. rewrite Nat.sub_succ, Nat.sub_0_r. rewrite <- (map_length proj anc1), Hpa, <- HLb, map_length. reflexivity. }
    rewrite Hlen.
    assert (Hlt3 : Nat.ltb (length (rs s3)) (length Lb) = false).
    { apply Nat.ltb_ge. rewrite HL, app_length. lia. }
    rewrite Hlt3. rewrite HL, lastn_app by reflexivity.
    set (s4 := {| rs := set_written vtop :: Lb; ridx := ridx s1; inexc := inexc s3; m := m s3; jbs := jbs s3; jpc := jpc s3; out := out s1 |}).
    assert (Hnl3 : nolj (rs s3)) by exact (i_nolj _ _ C3). rewrite HL in Hnl3. apply nolj_app in Hnl3. destruct Hnl3 as [_ HnlLb].
    assert (Hnl1 : nolj (rs s1)) by exact (i_nolj _ _ C1). rewrite Hr1 in Hnl1. inversion Hnl1 as [|? ? Hvlj _]; subst.
    destruct (follow_chain [true] sl r s4 [set_written vtop] Lb 0 (fuel_of s4)) as [s5 [F1 [F2 [F3 [F4 [F5 [F6 F7]]]]]]].
    + discriminate.
    + exact I.
    + exact Hv.
    + reflexivity.
    + cbn [map chain]. rewrite proj_set_written, Hpv. reflexivity.
    + cbn [rs s4]. constructor; [exact Hvlj|exact HnlLb].
    + cbn [inexc s4]. rewrite (i_excb _ _ C3). exact Hec.
    + rewrite HLb. destruct (shadow (frames st)) as [|y ys] eqn:Ey; [exact I|]. eapply shadow_loc_ne; [exact Hlt|]. rewrite Ey. left. reflexivity.
    + unfold fuel_of. cbn [length rs s4]. lia.
    + cbn [hd tramp_of] in F1. rewrite F1. eexists; eexists. split; [reflexivity|]. split.
      * cbn [all_ok app]. unfold ob_of. rewrite B1. cbn [ok_obs o_target o_pops] in B2. cbn [ok_obs o_target o_pops]. rewrite B2. cbn [andb].
        clear -B3. revert obc B3. induction ec as [|e er IH]; intros obc B3; destruct obc as [|o or]; simpl in *; try discriminate.
        -- rewrite !N.eqb_refl. reflexivity.
        -- apply andb_prop in B3. destruct B3 as [X Y]. rewrite X. simpl. apply IH. exact Y.
      * (* the parent is in step again *)
        pose proof (i_sorted _ _ H) as Hs. pose proof (i_valid _ _ H) as Hval.
        pose proof (mem_top_plain _ _ C3 Hec) as Hm3. apply mem_top_rest in Hm3. rewrite Hpre in Hm3. apply mem_rest_suffix in Hm3.
        constructor; cbn [frames next_id jbt flight exc extra stale].
        -- exact Hs.
        -- exact Hval.
        -- destruct (i_ids _ _ C3) as [I1 I2]. split; [rewrite Hpre in I1; apply Forall_app in I1; exact (proj2 I1)|exact I2].
        -- intros jb saved rsj Ha Hsf. cbn [jbt frames] in *.
           assert (Hsf' : is_suffix saved (frames stc) = true) by (eapply is_suffix_trans; eauto).
           destruct (i_jb _ _ C3 jb saved rsj Ha Hsf') as [ri [snap [sl0 [J1 [J2 J3]]]]].
           exists ri, snap, sl0. rewrite F6, F7. cbn [jbs jpc s4]. auto.
        -- exact F5.
        -- intros; discriminate.
        -- exact F3.
        -- exists [], (rs s5). split; [reflexivity|]. split; [rewrite F2; exact HLb|]. split; [intros e0 Hin; contradiction|reflexivity].
        -- rewrite F4, HLb. cbn [m s4]. apply mem_rest_rehook_first; assumption.
        -- reflexivity.
        -- intros; discriminate.
        -- intros; discriminate.
Qed.

Lemma all_ok_app : forall e1 o1 e2 o2, all_ok e1 o1 = true -> all_ok e2 o2 = true -> all_ok (e1 ++ e2) (o1 ++ o2) = true.
Proof.
  induction e1 as [|e er IH]; intros o1 e2 o2 H1 H2; destruct o1 as [|o or]; simpl in *; try discriminate; [exact H2|].
  apply andb_prop in H1. destruct H1 as [X Y]. rewrite X. simpl. apply IH; assumption.
Qed.

Lemma runT_inv : forall ts st s st' es, Inv st s -> rrunT st ts = Some (st', es) ->
  exists s' obs, lrunT s ts = Some (s', obs) /\ all_ok es obs = true /\ Inv st' s'.
Proof.
  induction ts as [|t r IH]; intros st s st' es H Hr; simpl in Hr.
  - inversion Hr; subst. exists s, []. split; [reflexivity|]. split; [reflexivity|exact H].
  - destruct (rstepT st t) as [[st1 e]|] eqn:E; [|discriminate].
    destruct (rrunT st1 r) as [[st2 l]|] eqn:Er; [|discriminate]. inversion Hr; subst.
    destruct (stepT_inv st s t st1 e H E) as [s1 [ob [A [B C]]]].
    destruct (IH st1 s1 st' l C Er) as [s2 [obs [D [F G]]]].
    exists s2, (ob ++ obs). simpl. rewrite A, D. split; [reflexivity|]. split; [apply all_ok_app; assumption|exact G].
Qed.

(* for every legal program in which, at any points, a vfork child runs on the parent's stack and shadow
   stack (calls, returns, tail calls, PLT calls, setjmp/longjmp, exceptions caught in the child ... until it
   execs or exits, never returning from the function that called vfork), every transfer of control through
   the trampolines - in the child and in the parent, including both returns of vfork - reaches the real
   address, and the parent's shadow stack is again the list of its live traced functions *)
Theorem vfork_in_step : forall ts, legal_progT ts = true ->
  exists s obs, lrunT init ts = Some (s, obs) /\ ok_runT ts obs = true.
Proof.
  intros ts H. unfold legal_progT in H. destruct (rrunT rinit ts) as [[st' es]|] eqn:E; [|discriminate].
  destruct (runT_inv ts rinit init st' es Inv_init E) as [s [obs [A [B _]]]].
  exists s, obs. split; [exact A|]. unfold ok_runT. rewrite E. exact B.
Qed.

Theorem vfork_parent_shadow : forall ts st' es, rrunT rinit ts = Some (st', es) ->
  exists s obs, lrunT init ts = Some (s, obs) /\
    (exc st' = false -> map proj (rs s) = shadow (frames st') /\ mem_top (m s) (frames st')).
Proof.
  intros ts st' es E. destruct (runT_inv ts rinit init st' es Inv_init E) as [s [obs [A [_ C]]]].
  exists s, obs. split; [exact A|]. intros He. split; [apply Inv_rs_plain; assumption|apply mem_top_plain; assumption].
Qed.

(* non-vacuity: main -> f -> vfork; the child calls g (which calls h and a PLT function), then execs from
   inside a nested call; the parent continues, calls g itself and returns *)
Definition sample_vfork : list top :=
  [TOp (Call 0 100 11 103); TOp (Call 1 90 12 99);
   TVfork 116 80 13 [Call 2 80 14 89; Call 3 70 15 79; Ret 70; Plt KNone 100 70 16 0; Ret 70; Ret 80;
                     Call 4 80 17 89; Plt KFlush 110 70 18 0];
   TOp (Call 2 80 19 89); TOp (Ret 80); TOp (Ret 90); TOp (Ret 100)].
Example sample_vfork_legal : legal_progT sample_vfork = true.
Proof. vm_compute. reflexivity. Qed.

(* ================================================================ vfork with unrecorded entries (Model Part 1c) *)
Lemma vchild_below : forall ops floor t t', floor <= v_idx t -> vchild floor t ops = Some t' ->
  floor <= v_idx t' /\ forall i, i < floor -> v_arr t' i = v_arr t i.
Proof.
  induction ops as [|o ops IH]; intros floor t t' Hfl H; cbn [vchild] in H.
  - inversion H; subst. split; [exact Hfl|reflexivity].
  - destruct o as [e|].
    + assert (Hfl' : floor <= v_idx (vpush t e)) by (unfold vpush; cbn; lia).
      destruct (IH _ _ _ Hfl' H) as [A B]. split; [exact A|].
      intros i Hi. rewrite (B i Hi). unfold vpush. cbn.
      destruct (i =? v_idx t) eqn:E; [apply N.eqb_eq in E; lia|reflexivity].
    + destruct (floor <? v_idx t) eqn:E; [|discriminate]. apply N.ltb_lt in E.
      assert (Hfl' : floor <= v_idx (vpop t)) by (unfold vpop; cbn; lia).
      destruct (IH _ _ _ Hfl' H) as [A B]. split; [exact A|].
      intros i Hi. rewrite (B i Hi). reflexivity.
Qed.

(* For EVERY shadow stack of the calling thread - any number of entries, any mix of recorded and unrecorded
   ones, record_idx whatever it is -, every vfork entry (recorded or not) and everything the child does on the
   shared array, the first hook the calling thread runs in the parent puts back exactly the state it had when
   it entered vfork: idx, record_idx and every entry up to and including vfork's own. *)
Theorem vfork_restore_exact : forall pid cpid thr t e ops t' sv',
  0 < pid -> cpid <> pid ->
  vsection vrestore pid cpid thr t e ops = Some (t', sv') ->
  v_idx t' = v_idx (vpush t e) /\ v_ridx t' = v_ridx (vpush t e) /\
  (forall i, i < v_idx (vpush t e) -> v_arr t' i = v_arr (vpush t e) i) /\ sv' = vsaved0.
Proof.
  intros pid cpid thr t e ops t' sv' Hpid Hc H. unfold vsection, vprepare in H.
  assert (Ec : (cpid =? pid) = false) by (apply N.eqb_neq; exact Hc).
  unfold vrestore at 1 in H. unfold vran in H. cbn [s_pid s_thr s_ran] in H. rewrite Ec, Bool.andb_false_r in H. cbn [andb] in H.
  destruct (vchild (v_idx t) (vpop (vpush t e)) ops) as [t3|] eqn:Ech; [|discriminate].
  assert (Hfl : v_idx t <= v_idx (vpop (vpush t e))) by (unfold vpop, vpush; cbn; lia).
  destruct (vchild_below _ _ _ _ Hfl Ech) as [_ Hbelow].
  unfold vrestore in H. cbn [s_pid s_thr s_idx s_ridx s_ent s_ran] in H.
  assert (E1 : (0 <? pid) = true) by (apply N.ltb_lt; exact Hpid).
  rewrite E1, !N.eqb_refl in H. cbn [andb] in H. inversion H; subst t' sv'. clear H.
  cbn [v_idx v_ridx v_arr]. repeat split.
  intros i Hi. unfold vpush in *. cbn [v_idx v_arr] in *.
  replace (v_idx t + 1 - 1) with (v_idx t) by lia.
  destruct (i =? v_idx t) eqn:E; [reflexivity|]. apply N.eqb_neq in E.
  assert (Hlt : i < v_idx t) by lia. rewrite (Hbelow i Hlt). unfold vpop. cbn. rewrite (proj2 (N.eqb_neq _ _) E). reflexivity.
Qed.

(* a hook of ANOTHER thread of the parent process, run while the child runs, leaves that thread's shadow stack
   and the saved state alone (fix 7e6b323) ... *)
Theorem vfork_other_thread_untouched : forall pid thr t sv, thr <> s_thr sv -> vrestore pid thr t sv = (t, sv).
Proof.
  intros pid thr t sv H. unfold vrestore. rewrite (proj2 (N.eqb_neq _ _) H), Bool.andb_false_r. reflexivity.
Qed.
(* a hook the calling thread runs in the parent BEFORE the child has run - a signal handler between the entry hook of
   vfork and the system call - leaves everything alone: the saved state stays for the real return *)
Theorem vfork_before_child_untouched : forall pid thr t sv, s_ran sv = false -> vrestore pid thr t sv = (t, sv).
Proof. intros pid thr t sv H. unfold vrestore. rewrite H, Bool.andb_false_r. reflexivity. Qed.
(* ... which the code as found did not: thread 2 (idx 1) takes thread 1's saved index 3 *)
Example vfork_legacy_other_thread_refuted :
  let sv := {| s_pid := 7; s_thr := 1; s_idx := 3; s_ridx := 3; s_ent := {| v_id := 9; v_norec := false |}; s_ran := true |} in
  let t2 := vpush vth0 {| v_id := 5; v_norec := false |} in
  vshape (fst (vrestore_legacy 7 2 t2 sv)) = (3, 3, [false; false; false]) /\ vshape t2 = (1, 1, [false]) /\
  vshape (fst (vrestore 7 2 t2 sv)) = (1, 1, [false]).
Proof. vm_compute. auto. Qed.

(* non-vacuity, and seeded change C11-9: main and spawn recorded, vfork itself rejected by a filter (-N vfork);
   the child makes a call and execs *)
Example vfork_unrecorded_witness :
  let t := vpush (vpush vth0 {| v_id := 1; v_norec := false |}) {| v_id := 2; v_norec := false |} in
  let e := {| v_id := 3; v_norec := true |} in
  let ops := [VPush {| v_id := 4; v_norec := false |}; VPush {| v_id := 5; v_norec := true |}] in
  option_map (fun p => vshape (fst p)) (vsection vrestore 7 8 1 t e ops) = Some (3, 2, [false; false; true]) /\
  option_map (fun p => vshape (fst p)) (vsection vrestore_seeded 7 8 1 t e ops) = Some (2, 2, [false; true]).
Proof. vm_compute. auto. Qed.
