(* C11: the statements exported to Properties_C11.v *)
From Coq Require Import NArith List Bool Lia.
Import ListNotations.
Require Import UV.Gen.Consts UV.C11.Model UV.C11.StepBase UV.C11.ProofsDepth UV.C11.ProofsReplay UV.C11.StepLemmas
  UV.C11.StepFollow UV.C11.StepInv UV.C11.StepOps UV.C11.StepMain.
Local Open Scope N_scope.

Lemma run_inv : forall ops st s st', Inv st s -> rrun st ops = Some st' ->
  exists s' obs, lrun s ops = Some (s', obs) /\ (forall i, first_bad st ops obs i = None) /\ Inv st' s'.
Proof.
  induction ops as [|o r IH]; intros st s st' H Hr; simpl in Hr.
  - inversion Hr; subst. exists s, []. split; [reflexivity|]. split; [intros i; reflexivity|exact H].
  - destruct (rstep st o) as [[st1 e]|] eqn:E; [|discriminate].
    destruct (step_inv st s o st1 e H E) as [s1 [ob [A [B C]]]].
    destruct (IH st1 s1 st' C Hr) as [s2 [obs [D [F G]]]].
    exists s2, (ob :: obs). simpl. rewrite A, D. split; [reflexivity|]. split; [|exact G].
    intros i. rewrite E, B. apply F.
Qed.

(* T1: for every legal program - any mix, order and depth of traced / untraced / PLT calls, tail calls,
   setjmp, longjmp to any live jmp_buf, throw, unwinding with cleanups and resumes, catch, rethrow -
   libmcount never aborts and every transfer of control that goes through its trampolines (returns,
   the second return of setjmp, the resume address of the unwinder) reaches the real address, after
   exactly as many exit hooks as there are traced functions sharing the frame *)
Theorem returns_reach_real_callers : forall ops, legal_prog ops = true ->
  exists s obs, lrun init ops = Some (s, obs) /\ ok_run ops obs = true.
Proof.
  intros ops H. unfold legal_prog in H. destruct (rrun rinit ops) as [st'|] eqn:E; [|discriminate].
  destruct (run_inv ops rinit init st' Inv_init E) as [s [obs [A [B _]]]].
  exists s, obs. split; [exact A|]. unfold ok_run. rewrite B. reflexivity.
Qed.

(* T2: ... and afterwards, unless an exception is still propagating, the shadow stack (parent_loc,
   parent_ip, kind - bottom to top) is exactly the list of the traced functions of the live frames of the
   real stack, the newest hooked frame's slot holds its trampoline, every other slot its trampoline or
   its real return address, and each entry's recorded depth is its height *)
Theorem shadow_is_live_hooked_frames : forall ops st', rrun rinit ops = Some st' ->
  exists s obs, lrun init ops = Some (s, obs) /\
    (exc st' = false ->
       map proj (rs s) = shadow (frames st') /\ mem_top (m s) (frames st') /\
       ridx s = N.of_nat (length (shadow (frames st'))) /\
       forall i e, nth_error (rev (rs s)) i = Some e -> e_depth e = N.of_nat i).
Proof.
  intros ops st' E. destruct (run_inv ops rinit init st' Inv_init E) as [s [obs [A [_ C]]]].
  exists s, obs. split; [exact A|]. intros He.
  pose proof (Inv_rs_plain _ _ C He) as Hp. pose proof (depth_is_height ops s obs A) as [D1 D2].
  repeat split; auto.
  - apply mem_top_plain; assumption.
  - rewrite D1, <- Hp, map_length. reflexivity.
Qed.

(* non-vacuity: a legal program with a tail call, a setjmp, a deeper longjmp back, an exception through
   two frames with a traced destructor in the cleanup pad, and the final returns *)
Definition sample_prog : list op :=
  [Call 0 100 11 103; Call 1 90 12 99; TCall 2 90 92; Plt KSetjmp 104 80 13 1; Ret 80;
   Call 3 80 14 89; Plt KNone 100 70 15 0; Ret 70; Plt KLongjmp 107 70 16 1;
   Call 4 80 17 89; Call 5 70 18 79; Throw; Unwind; Call 6 70 19 79; Ret 70; Resume 70 20; Unwind;
   Catch 89; Ret 90; Ret 100].
Example sample_prog_legal : legal_prog sample_prog = true.
Proof. vm_compute. reflexivity. Qed.

(* ---------------------------------------------------------------- what lies outside the guards *)
(* regression witness of the defect repaired by /repo 0bd540c (was: R1, a hang of the traced program): a
   cleanup pad calls _Unwind_Resume at the very slot where the frame it has just seen unwound had its
   return address.  The wrapper now drops that frame's entry first; the program is legal and in step. *)
Definition witness_resume_alias : list op :=
  [Call 0 100 11 103; Call 1 90 12 99; Call 2 80 13 89; Throw; Unwind; Resume 80 14; Unwind; Catch 99; Ret 100].
Example resume_alias_now_in_step :
  legal_prog witness_resume_alias = true /\
  exists s obs, lrun init witness_resume_alias = Some (s, obs) /\
    map o_target obs = [0; 0; 0; 0; 0; 14; 0; 0; 11] /\ ok_run witness_resume_alias obs = true /\
    map rec_code (out s) = [(0, 0, 0); (0, 1, 1); (0, 2, 2); (1, 2, 2); (1, 1, 1); (1, 0, 0)].
Proof. split; [vm_compute; reflexivity|]. eexists; eexists. vm_compute. auto. Qed.

(* regression witness of the defect repaired by /repo fix C01-9 (was: R2): a PLT function tail-calls a traced
   function which throws and catches; mcount_rstack_rehook now walks oldest-first, so the shared slot ends up
   with the trampoline of the newest entry and the chain returns through both exit hooks *)
Definition witness_mixed_chain : list op :=
  [Call 0 100 11 103; Plt KNone 100 90 12 0; TCall 1 90 92; Throw; Catch 89; Ret 90; Ret 100].
Example mixed_chain_now_in_step :
  legal_prog witness_mixed_chain = true /\
  exists s obs, lrun init witness_mixed_chain = Some (s, obs) /\
    map (fun o => (o_target o, o_pops o)) obs = [(0,0); (0,0); (0,0); (0,0); (0,0); (12, 2); (11, 1)] /\
    ok_run witness_mixed_chain obs = true.
Proof. split; [vm_compute; reflexivity|]. eexists; eexists. vm_compute. auto. Qed.

(* R3: -mfentry style frame address (the word below the slot is no frame pointer): a traced function
   entered from a cleanup pad at the slot of the frame just unwound keeps that dead frame's entry as a
   phantom tail-call parent - control still reaches the right address (19) but two exit hooks run and
   the call is recorded one level too deep *)
Definition witness_fentry_cleanup : list op :=
  [Call 0 100 11 103; Call 1 90 12 99; Call 2 80 13 89; Throw; Unwind; Call 6 80 19 0; Ret 80].
Lemma fentry_cleanup_refuted :
  exists s obs, lrun init witness_fentry_cleanup = Some (s, obs) /\
    map (fun o => (o_target o, o_pops o)) obs = [(0,0); (0,0); (0,0); (0,0); (0,0); (0,0); (19, 2)] /\
    map rec_code (out s) = [(0, 0, 0); (0, 1, 1); (0, 2, 2); (0, 3, 6); (1, 3, 6); (1, 2, 2)] /\
    legal_prog witness_fentry_cleanup = false.
Proof. eexists; eexists. vm_compute. auto. Qed.
