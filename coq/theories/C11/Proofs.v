From Coq Require Import NArith List Bool Lia.
Import ListNotations.
Require Import UV.Gen.Consts UV.C11.Model.
Local Open Scope N_scope.

Lemma placeholder : is_tramp MRET = true.
Proof. reflexivity. Qed.
