(* C11: every legal move of the program keeps shadow stack and real stack in step *)
From Coq Require Import NArith List Bool Lia.
Import ListNotations.
Require Import UV.Gen.Consts UV.C11.Model UV.C11.StepBase UV.C11.ProofsDepth UV.C11.StepLemmas UV.C11.StepFollow UV.C11.StepInv.
Local Open Scope N_scope.

Lemma jb_inv_mono : forall st s st' s',
  jb_inv st s -> jbt st' = jbt st -> jbs s' = jbs s -> jpc s' = jpc s ->
  (forall jb saved rsj, assoc jb (jbt st) = Some (saved, rsj) ->
     is_suffix saved (frames st') = true -> is_suffix saved (frames st) = true) ->
  jb_inv st' s'.
Proof.
  intros st s st' s' H E1 E2 E3 Hm jb saved rsj Ha Hs. rewrite E1 in Ha. rewrite E2, E3.
  apply (H jb saved rsj Ha). eapply Hm; eauto.
Qed.

Lemma ids_ok_gen : forall st st', ids_ok st -> next_id st <= next_id st' -> jbt st' = jbt st ->
  Forall (fun f => f_id f < next_id st') (frames st') -> ids_ok st'.
Proof.
  intros st st' [H1 H2] Hle Hj Hf. split; [exact Hf|]. intros jb saved rsj Hin. rewrite Hj in Hin.
  specialize (H2 jb saved rsj Hin). eapply Forall_impl; [|exact H2]. simpl. intros; lia.
Qed.
Lemma Forall_id_weaken : forall F n n', n <= n' -> Forall (fun f : rframe => f_id f < n) F -> Forall (fun f => f_id f < n') F.
Proof. intros F n n' Hle H. eapply Forall_impl; [|exact H]. simpl. intros; lia. Qed.

Lemma suffix_after_push : forall st jb saved rsj f F,
  ids_ok st -> assoc jb (jbt st) = Some (saved, rsj) -> f_id f = next_id st ->
  is_suffix saved (f :: F) = true -> is_suffix saved F = true.
Proof.
  intros st jb saved rsj f F [_ H2] Ha Hf Hs. eapply is_suffix_fresh; [|exact Hf|exact Hs].
  eapply H2. eapply assoc_In. exact Ha.
Qed.

Lemma base_cons_S : forall (f : rframe) F n, skipn (N.to_nat (n + 1)) (f :: F) = skipn (N.to_nat n) F.
Proof. intros. replace (N.to_nat (n + 1)) with (S (N.to_nat n)) by lia. reflexivity. Qed.
Lemma firstn_cons_S : forall (f : rframe) F n, firstn (N.to_nat (n + 1)) (f :: F) = f :: firstn (N.to_nat n) F.
Proof. intros. replace (N.to_nat (n + 1)) with (S (N.to_nat n)) by lia. reflexivity. Qed.

(* ================================================================ UCall *)
Lemma step_UCall : forall st s sl r, Inv st s -> below_top (frames st) sl = true -> valid_ra r = true ->
  Inv (push st sl r []) (with_m s (upd (m s) sl r)).
Proof.
  intros st s sl r H Hb Hv. pose proof (below_top_lt_all _ _ (i_sorted _ _ H) Hb) as Hlt.
  destruct (i_shadow _ _ H) as [S [L [S1 [S2 [S3 S4]]]]].
  constructor; simpl.
  - split; [exact Hlt|exact (i_sorted _ _ H)].
  - constructor; [|exact (i_valid _ _ H)]. split; [exact Hv|exact I].
  - eapply ids_ok_gen with (st := st); [exact (i_ids _ _ H)|simpl; lia|reflexivity|].
    simpl. constructor; [simpl; lia|]. eapply Forall_id_weaken; [|exact (proj1 (i_ids _ _ H))]. lia.
  - eapply jb_inv_mono with (st := st) (s := s); [exact (i_jb _ _ H)|reflexivity|reflexivity|reflexivity|].
    intros jb saved rsj Ha Hs. simpl in Hs. eapply suffix_after_push; [exact (i_ids _ _ H)|exact Ha| |exact Hs]. reflexivity.
  - exact (i_excb _ _ H).
  - exact (i_fl _ _ H).
  - exact (i_nolj _ _ H).
  - exists S, L. repeat split; auto.
  - pose proof (i_mem _ _ H) as Hm. destruct (exc st) eqn:Ee.
    + constructor; [unfold slot_real; simpl; apply upd_same|]. apply mem_exc_upd_below; [exact Hlt|exact Hm].
    + simpl. split; [apply upd_same|]. apply mem_top_upd_below; [exact Hlt|exact Hm].
  - exact (i_stale0 _ _ H).
  - intros He. unfold base; simpl. rewrite (i_fl _ _ H He). rewrite base_cons_S. exact (i_stale _ _ H He).
  - intros He. rewrite (i_fl _ _ H He). rewrite firstn_cons_S. constructor; [reflexivity|exact (i_extra _ _ H He)].
Qed.

(* ================================================================ Poke *)
Lemma step_Poke : forall st s sl v, Inv st s -> below_top (frames st) sl = true ->
  Inv st (with_m s (upd (m s) sl v)).
Proof.
  intros st s sl v H Hb. pose proof (below_top_lt_all _ _ (i_sorted _ _ H) Hb) as Hlt.
  destruct H. constructor; simpl; auto.
  destruct (exc st); [apply mem_exc_upd_below|apply mem_top_upd_below]; assumption.
Qed.

(* ================================================================ exceptions *)
Lemma exc_false_of_flight : forall st s, Inv st s -> flight st = false -> exc st = false.
Proof. intros st s H Hf. destruct (exc st) eqn:E; [|reflexivity]. rewrite (i_fl _ _ H E) in Hf. discriminate. Qed.

Lemma unhooked_real : forall st s f, Inv st s -> In f (frames st) -> f_pend f = [] -> m s (f_slot f) = f_ra f.
Proof.
  intros st s f H Hin Hp. pose proof (i_mem _ _ H) as Hm. destruct (exc st).
  - eapply mem_exc_unhooked; eauto.
  - eapply mem_rest_unhooked; eauto. apply mem_top_rest. exact Hm.
Qed.

Lemma Inv_throw : forall st s, Inv st s -> exc st = false ->
  Inv (mk st (frames st) true true 0 []) (do_throw s).
Proof.
  intros st s H He.
  pose proof (Inv_rs_plain _ _ H He) as Hrs.
  constructor; simpl.
  - exact (i_sorted _ _ H).
  - exact (i_valid _ _ H).
  - eapply ids_ok_gen with (st := st); [exact (i_ids _ _ H)|simpl; lia|reflexivity|exact (proj1 (i_ids _ _ H))].
  - eapply jb_inv_mono with (st := st) (s := s); [exact (i_jb _ _ H)|reflexivity|reflexivity|reflexivity|auto].
  - reflexivity.
  - reflexivity.
  - exact (i_nolj _ _ H).
  - exists [], (rs s). repeat split; auto; try (intros; discriminate); try (intros e Hin; contradiction).
  - rewrite restore_all_proj, Hrs. apply restore_all_shadow_exc; [exact (i_sorted _ _ H)|exact (i_valid _ _ H)|].
    intros f Hin Hp. eapply unhooked_real; eauto.
  - intros; discriminate.
  - intros _. constructor.
  - intros _. constructor.
Qed.

Lemma step_Throw : forall st s, Inv st s -> flight st = false ->
  Inv (mk st (frames st) true true 0 []) (do_throw s).
Proof. intros st s H Hf. apply Inv_throw; [exact H|]. eapply exc_false_of_flight; eauto. Qed.

Lemma step_Unwind : forall st s f rest, Inv st s -> frames st = f :: rest -> exc st = true -> extra st = 0 ->
  Inv (mk st rest true true 0 (match f_pend f with [] => stale st | _ => f_slot f :: stale st end)) s.
Proof.
  intros st s f rest H HF He Hx.
  pose proof (i_sorted _ _ H) as Hs. rewrite HF in Hs. destruct Hs as [Hlt Hs].
  pose proof (i_valid _ _ H) as Hv. rewrite HF in Hv. inversion Hv as [|? ? Hvf Hvr]; subst.
  destruct (i_shadow _ _ H) as [S [L [S1 [S2 [S3 S4]]]]]. rewrite HF in S2. simpl in S2.
  apply map_eq_app in S2. destruct S2 as [Lf [L' [HL [HLf HL']]]].
  pose proof (i_mem _ _ H) as Hm. rewrite He, HF in Hm. inversion Hm as [|? ? Hmf Hmr]; subst.
  constructor; simpl.
  - exact Hs.
  - exact Hvr.
  - eapply ids_ok_gen with (st := st); [exact (i_ids _ _ H)|simpl; lia|reflexivity|].
    simpl. pose proof (proj1 (i_ids _ _ H)) as Hi. rewrite HF in Hi. inversion Hi; assumption.
  - eapply jb_inv_mono with (st := st) (s := s); [exact (i_jb _ _ H)|reflexivity|reflexivity|reflexivity|].
    intros jb saved rsj Ha Hsf. simpl in Hsf. rewrite HF. apply is_suffix_cons. exact Hsf.
  - rewrite (i_excb _ _ H). exact He.
  - reflexivity.
  - exact (i_nolj _ _ H).
  - exists (S ++ Lf), L'. split; [rewrite S1, app_assoc; reflexivity|]. split; [exact HL'|]. split; [|intros; discriminate].
    intros e Hin. apply in_app_or in Hin. destruct Hin as [Hin|Hin].
    + specialize (S3 e Hin). destruct (f_pend f); [exact S3|right; exact S3].
    + assert (Hp : In (proj e) (ents_of f)) by (rewrite <- HLf; apply in_map; exact Hin).
      unfold ents_of in Hp. pose proof (chain_loc _ _ _ _ Hp) as Hloc. unfold p_loc, proj in Hloc; simpl in Hloc.
      destruct (f_pend f); [simpl in Hp; contradiction|left; symmetry; exact Hloc].
  - exact Hmr.
  - intros; discriminate.
  - intros _. unfold base; simpl. pose proof (i_stale _ _ H He) as Hst. unfold base in Hst. rewrite Hx, HF in Hst. simpl in Hst.
    assert (Hold : Forall (fun x => lt_all x rest) (stale st)).
    { eapply Forall_impl; [|exact Hst]. simpl. intros a Ha. eapply lt_all_tail; exact Ha. }
    destruct (f_pend f); [exact Hold|constructor; [exact Hlt|exact Hold]].
  - intros _. constructor.
Qed.

Lemma base_extra0 : forall st, extra st = 0 -> base st = frames st.
Proof. intros st H. unfold base. rewrite H. reflexivity. Qed.

Lemma shadow_loc_ge_top : forall f r y, sorted (f :: r) -> In y (shadow (f :: r)) -> f_slot f <= p_loc y.
Proof.
  intros f r y [Hlt _] Hin. simpl in Hin. apply in_app_or in Hin. destruct Hin as [Hin|Hin].
  - unfold ents_of in Hin. apply chain_loc in Hin. lia.
  - pose proof (shadow_loc_gt r (f_slot f) y Hlt Hin). lia.
Qed.

Lemma shadow_split_first : forall F g, sorted F -> first_hooked F = Some g ->
  exists Fa, shadow F = ents_of g ++ shadow Fa /\ lt_all (f_slot g) Fa /\ In g F /\ f_pend g <> [].
Proof.
  induction F as [|f r IH]; intros g Hs H; simpl in H; [discriminate|]. destruct Hs as [Hlt Hs].
  destruct (f_pend f) eqn:E.
  - destruct (IH g Hs H) as [Fa [A [B [C D]]]]. exists Fa. simpl. unfold ents_of at 1. rewrite E. simpl.
    repeat split; auto.
  - inversion H; subst g. exists r. simpl. repeat split; auto. rewrite E. discriminate.
Qed.

Lemma rehook_exception_spec : forall s fa F S L,
  rs s = S ++ L -> map proj L = shadow F -> sorted F -> Forall fvalid F -> nolj (rs s) ->
  (forall e, In e S -> e_loc e <= fa) -> (forall y, In y (shadow F) -> fa < p_loc y) ->
  mem_exc (m s) F ->
  map proj (rs (rehook_exception s fa)) = shadow F /\ nolj (rs (rehook_exception s fa)) /\
  mem_hooked (m (rehook_exception s fa)) F /\
  (forall a, (forall y, In y (shadow F) -> p_loc y <> a) -> m (rehook_exception s fa) a = m s a) /\
  inexc (rehook_exception s fa) = inexc s /\ jbs (rehook_exception s fa) = jbs s /\ jpc (rehook_exception s fa) = jpc s.
Proof.
  intros s fa F S L Hrs HL Hs Hv Hnl HS HF Hm. unfold rehook_exception.
  pose proof (pop_unwound_proj (map proj S) (length (rs s)) fa (rs s) (shadow F) (ridx s) (out s)) as P.
  pose proof (pop_unwound_nolj (length (rs s)) fa (rs s) (ridx s) (out s) Hnl) as Pn.
  destruct (pop_unwound (length (rs s)) fa (rs s) (ridx s) (out s)) as [[l ri] o].
  assert (Hl : map proj l = shadow F).
  { apply P.
    - rewrite Hrs, map_app, HL. reflexivity.
    - lia.
    - intros x Hin. apply in_map_iff in Hin. destruct Hin as [e [He Hin]]. subst x. unfold p_loc, proj; simpl. apply HS. exact Hin.
    - destruct (shadow F) as [|y ys] eqn:E; [exact I|]. apply HF. left. reflexivity. }
  clear P.
  set (l' := match l with [] => [] | e :: _ => fix_chain_bottom (e_loc e) (m s (e_loc e)) l end).
  assert (Hl' : map proj l' = shadow F /\ nolj l').
  { unfold l'. destruct l as [|e r]; [split; [exact Hl|constructor]|].
    pose proof (shadow_hd_first_hooked F Hs) as Hh. rewrite <- Hl in Hh. simpl map in Hh.
    destruct Hh as [g [Hg [Hg1 Hg2]]]. destruct (shadow_split_first F g Hs Hg) as [Fa [A [B [C D]]]].
    assert (Heloc : e_loc e = f_slot g) by exact Hg1.
    assert (Hval : m s (f_slot g) = f_ra g) by (eapply mem_exc_unhooked; eauto).
    rewrite Heloc, Hval.
    destruct (fix_chain_bottom_noop (f_pend g) (f_slot g) (f_ra g) (e :: r) (shadow Fa)) as [N1 N2]; [exact D|rewrite Hl; exact A| |].
    - destruct (shadow Fa) as [|y ys] eqn:E; [exact I|]. eapply shadow_loc_ne; [exact B|]. rewrite E. left. reflexivity.
    - split; [rewrite N1; exact Hl|apply N2; exact Pn]. }
  destruct Hl' as [Hl'1 Hl'2]. simpl. fold l'. repeat split; auto.
  - rewrite rehook_all_proj, Hl'1. apply rehook_all_shadow_hooked; [exact Hs|exact Hv|].
    intros f Hin Hp. eapply mem_exc_unhooked; eauto.
  - intros a Ha. rewrite rehook_all_proj, Hl'1. apply rehook_all_p_other. intros y Hy. apply in_rev in Hy. apply Ha. exact Hy.
Qed.

(* the shadow stack is re-hooked (catch, or a traced function entered while in_exception) *)
Lemma Inv_after_rehook : forall st s fa fl, Inv st s -> exc st = true -> extra st = 0 ->
  (forall x, In x (stale st) -> x <= fa) -> (forall y, In y (shadow (frames st)) -> fa < p_loc y) ->
  Inv (mk st (frames st) fl false 0 []) (with_exc (rehook_exception s fa) false).
Proof.
  intros st s fa fl H He Hx Hst Hsh.
  destruct (i_shadow _ _ H) as [S [L [S1 [S2 [S3 S4]]]]].
  pose proof (i_mem _ _ H) as Hm. rewrite He in Hm.
  destruct (rehook_exception_spec s fa (frames st) S L S1 S2 (i_sorted _ _ H) (i_valid _ _ H) (i_nolj _ _ H))
    as [R1 [R2 [R3 [R4 [R5 [R6 R7]]]]]]; [intros e Hin; apply Hst; apply S3; exact Hin|exact Hsh|exact Hm|].
  constructor; simpl.
  - exact (i_sorted _ _ H).
  - exact (i_valid _ _ H).
  - eapply ids_ok_gen with (st := st); [exact (i_ids _ _ H)|simpl; lia|reflexivity|exact (proj1 (i_ids _ _ H))].
  - eapply jb_inv_mono with (st := st) (s := s); [exact (i_jb _ _ H)|reflexivity|exact R6|exact R7|auto].
  - reflexivity.
  - intros; discriminate.
  - exact R2.
  - exists [], (rs (rehook_exception s fa)). repeat split; auto; try (intros e Hin; contradiction).
  - apply mem_hooked_top. exact R3.
  - reflexivity.
  - intros; discriminate.
  - intros; discriminate.
Qed.

Lemma step_Catch : forall st s f rest fa, Inv st s -> frames st = f :: rest -> fa + 1 = f_slot f ->
  exc st = true -> extra st = 0 -> Inv (mk st (frames st) false false 0 []) (do_catch s fa).
Proof.
  intros st s f rest fa H HF Hfa He Hx. unfold do_catch. rewrite (i_excb _ _ H), He.
  apply Inv_after_rehook; auto.
  - intros x Hin. pose proof (i_stale _ _ H He) as Hst. rewrite (base_extra0 _ Hx) in Hst. rewrite Forall_forall in Hst.
    specialize (Hst x Hin). rewrite HF in Hst. inversion Hst; subst. lia.
  - intros y Hin. rewrite HF in Hin. pose proof (i_sorted _ _ H) as Hs. rewrite HF in Hs.
    pose proof (shadow_loc_ge_top f rest y Hs Hin). lia.
Qed.

(* memory outside the live hooked slots is not touched by the re-hook *)
Lemma rehook_exception_mem_other : forall st s fa a, Inv st s -> exc st = true ->
  (forall x, In x (stale st) -> x <= fa) -> (forall y, In y (shadow (frames st)) -> fa < p_loc y) ->
  (forall y, In y (shadow (frames st)) -> p_loc y <> a) -> m (rehook_exception s fa) a = m s a.
Proof.
  intros st s fa a H He Hst Hsh Ha.
  destruct (i_shadow _ _ H) as [S [L [S1 [S2 [S3 S4]]]]].
  pose proof (i_mem _ _ H) as Hm. rewrite He in Hm.
  destruct (rehook_exception_spec s fa (frames st) S L S1 S2 (i_sorted _ _ H) (i_valid _ _ H) (i_nolj _ _ H))
    as [_ [_ [_ [R4 _]]]]; [intros e Hin; apply Hst; apply S3; exact Hin|exact Hsh|exact Hm|].
  apply R4. exact Ha.
Qed.

(* the _Unwind_Resume wrapper (after fix 0bd540c): the entries of the frames dropped so far go first *)
Lemma step_Resume : forall st s sl r, Inv st s -> flight st = true -> below_top (frames st) sl = true ->
  valid_ra r = true -> extra st = 0 -> (forall x, In x (stale st) -> x <= sl) ->
  m (do_resume (with_m s (upd (m s) sl r)) sl) sl = r /\
  Inv (mk st (frames st) true true 0 []) (do_resume (with_m s (upd (m s) sl r)) sl).
Proof.
  intros st s sl r H Hf Hb Hv Hx Hst.
  pose proof (below_top_lt_all _ _ (i_sorted _ _ H) Hb) as Hlt.
  pose proof (step_Poke st s sl r H Hb) as H0. set (s0 := with_m s (upd (m s) sl r)) in *.
  assert (Hsh : forall y, In y (shadow (frames st)) -> sl < p_loc y) by (intros y Hin; eapply shadow_loc_gt; eauto).
  assert (Hne : forall y, In y (shadow (frames st)) -> p_loc y <> sl) by (intros y Hin; specialize (Hsh y Hin); lia).
  unfold do_resume. destruct (exc st) eqn:He.
  - assert (Hi0 : inexc s0 = true) by (rewrite (i_excb _ _ H0); exact He). rewrite Hi0.
    pose proof (Inv_after_rehook st s0 sl true H0 He Hx Hst Hsh) as H1.
    set (sR := with_exc (rehook_exception s0 sl) false) in *.
    change (do_throw (rehook_exception s0 sl)) with (do_throw sR).
    pose proof (Inv_throw _ _ H1 eq_refl) as H2. split; [|exact H2].
    unfold do_throw; cbn [m]. rewrite restore_all_proj. rewrite (Inv_rs_plain _ _ H1 eq_refl). cbn [frames mk].
    rewrite restore_all_p_other by exact Hne.
    unfold sR; cbn [m with_exc]. rewrite (rehook_exception_mem_other st s0 sl sl H0 He Hst Hsh Hne).
    unfold s0; cbn [m with_m]. apply upd_same.
  - assert (Hi0 : inexc s0 = false) by (rewrite (i_excb _ _ H0); exact He). rewrite Hi0.
    pose proof (Inv_throw _ _ H0 He) as H2. split; [|exact H2].
    unfold do_throw; cbn [m]. rewrite restore_all_proj. rewrite (Inv_rs_plain _ _ H0 He).
    rewrite restore_all_p_other by exact Hne. unfold s0; cbn [m with_m]. apply upd_same.
Qed.

(* ================================================================ pushing a hooked frame *)
Lemma mem_top_ext : forall F m1 m2, (forall a, m1 a = m2 a) -> mem_top m1 F -> mem_top m2 F.
Proof.
  induction F as [|f r IH]; intros m1 m2 He H; [exact I|]. simpl in *.
  destruct (f_pend f); destruct H as [H1 H2]; (split; [rewrite <- He; exact H1|]).
  - eapply IH; eauto.
  - eapply mem_ext; [apply slot_either_ext| |exact H2]. intros; apply He.
Qed.
Lemma mem_rest_ext : forall F m1 m2, (forall a, m1 a = m2 a) -> mem_rest m1 F -> mem_rest m2 F.
Proof. intros F m1 m2 He H. eapply mem_ext; [apply slot_either_ext| |exact H]. intros; apply He. Qed.

Lemma push_mem : forall F L mm sl t e, map proj L = shadow F -> sorted F -> Forall fvalid F -> lt_all sl F ->
  mem_top mm F -> e_loc e = sl ->
  auto_restore false (e :: L) (upd mm sl t) sl = t /\
  mem_rest (auto_restore false (e :: L) (upd mm sl t)) F.
Proof.
  intros F L mm sl t e HL Hs Hv Hlt Hm He. rewrite (auto_restore_push F L e sl _ HL Hlt He). split.
  - rewrite restore_first_shadow_other by assumption. apply upd_same.
  - apply mem_top_after_push; assumption.
Qed.

Lemma Inv_push_hooked : forall st s s' b sl r e L' mm,
  Inv st s -> exc st = false -> below_top (frames st) sl = true -> valid_ra r = true ->
  rs s' = e :: L' -> proj e = (sl, r, b) -> e_lj e = false -> map proj L' = map proj (rs s) -> nolj L' ->
  mem_top mm (frames st) ->
  (forall a, m s' a = auto_restore false (e :: rs s) (upd mm sl (tramp_of b)) a) ->
  inexc s' = false -> jbs s' = jbs s -> jpc s' = jpc s ->
  Inv (push st sl r [b]) s'.
Proof.
  intros st s s' b sl r e L' mm H He Hb Hv Hrs Hpe Hlj HL' Hnl Hmem Hm Hi Hj1 Hj2.
  pose proof (below_top_lt_all _ _ (i_sorted _ _ H) Hb) as Hlt.
  pose proof (Inv_rs_plain _ _ H He) as Hplain.
  apply proj_eq in Hpe. destruct Hpe as [Pe1 [Pe2 Pe3]].
  destruct (push_mem (frames st) (rs s) mm sl (tramp_of b) e Hplain (i_sorted _ _ H) (i_valid _ _ H) Hlt Hmem Pe1) as [M1 M2].
  constructor; simpl.
  - split; [exact Hlt|exact (i_sorted _ _ H)].
  - constructor; [|exact (i_valid _ _ H)]. split; [exact Hv|exact I].
  - eapply ids_ok_gen with (st := st); [exact (i_ids _ _ H)|simpl; lia|reflexivity|].
    simpl. constructor; [simpl; lia|]. eapply Forall_id_weaken; [|exact (proj1 (i_ids _ _ H))]. lia.
  - eapply jb_inv_mono with (st := st) (s := s); [exact (i_jb _ _ H)|reflexivity|exact Hj1|exact Hj2|].
    intros jb saved rsj Ha Hs. simpl in Hs. eapply suffix_after_push; [exact (i_ids _ _ H)|exact Ha| |exact Hs]. reflexivity.
  - rewrite Hi. symmetry. exact He.
  - intros He'. rewrite He in He'. discriminate.
  - rewrite Hrs. constructor; [exact Hlj|exact Hnl].
  - exists [], (rs s'). split; [reflexivity|]. split; [|split; [intros e0 Hin; contradiction|reflexivity]].
    rewrite Hrs. simpl. unfold ents_of; simpl. rewrite HL', Hplain. unfold proj. rewrite Pe1, Pe2, Pe3. reflexivity.
  - rewrite He. simpl. split; [rewrite Hm; exact M1|]. eapply mem_rest_ext; [|exact M2]. intros a. symmetry. apply Hm.
  - intros _. exact (i_stale0 _ _ H He).
  - intros He'. rewrite He in He'. discriminate.
  - intros He'. rewrite He in He'. discriminate.
Qed.

Lemma mem_top_plain : forall st s, Inv st s -> exc st = false -> mem_top (m s) (frames st).
Proof. intros st s H He. pose proof (i_mem _ _ H) as Hm. rewrite He in Hm. exact Hm. Qed.

Lemma step_Call_plain : forall st s k sl r fa, Inv st s -> exc st = false -> below_top (frames st) sl = true ->
  valid_ra r = true -> Inv (push st sl r [false]) (mcount_entry (with_m s (upd (m s) sl r)) k sl fa).
Proof.
  intros st s k sl r fa H He Hb Hv.
  assert (Hi : inexc s = false) by (rewrite (i_excb _ _ H); exact He).
  pose proof (below_top_lt_all _ _ (i_sorted _ _ H) Hb) as Hlt.
  unfold mcount_entry. simpl inexc. rewrite Hi.
  eapply Inv_push_hooked with (s := s) (e := new_ent (with_m s (upd (m s) sl r)) false k sl SNormal) (L' := rs s)
     (mm := upd (m s) sl r); eauto.
  - unfold new_ent, proj; simpl. rewrite upd_same. reflexivity.
  - exact (i_nolj _ _ H).
  - apply mem_top_upd_below; [exact Hlt|]. apply mem_top_plain; assumption.
  - intros a. simpl. rewrite Hi. reflexivity.
Qed.

Lemma restore_first_ext : forall l m1 m2, (forall a, m1 a = m2 a) -> forall a, restore_first l m1 a = restore_first l m2 a.
Proof.
  induction l as [|e r IH]; intros m1 m2 He a; simpl; [apply He|].
  destruct (is_tramp (e_ip e)); [apply IH; exact He|]. unfold upd. destruct (a =? e_loc e); [reflexivity|apply He].
Qed.
Lemma auto_restore_ext : forall b l m1 m2, (forall a, m1 a = m2 a) -> forall a, auto_restore b l m1 a = auto_restore b l m2 a.
Proof.
  intros b l m1 m2 He a. unfold auto_restore. destruct l as [|cur [|prev rest]]; try apply He.
  destruct b; [apply He|]. destruct (e_loc cur =? e_loc prev); [apply He|]. apply restore_first_ext. exact He.
Qed.
Lemma upd_ext : forall m1 m2 x v, (forall a, m1 a = m2 a) -> forall a, upd m1 x v a = upd m2 x v a.
Proof. intros m1 m2 x v He a. unfold upd. destruct (a =? x); [reflexivity|apply He]. Qed.

Lemma step_Call_exc : forall st s k sl r fa, Inv st s -> exc st = true -> extra st = 0 ->
  below_top (frames st) sl = true -> valid_ra r = true ->
  (forall x, In x (stale st) -> x <= (if fa <? sl then sl - 1 else fa)) ->
  below_top (frames st) (if fa <? sl then sl - 1 else fa) = true ->
  Inv (bump (mk st (fresh st sl r [false] :: frames st) true false 1 []))
      (mcount_entry (with_m s (upd (m s) sl r)) k sl fa).
Proof.
  intros st s k sl r fa H He Hx Hb Hv Hst Hfa. set (fa' := if fa <? sl then sl - 1 else fa) in *.
  pose proof (step_Poke st s sl r H Hb) as H0. set (s0 := with_m s (upd (m s) sl r)) in *.
  assert (Hi0 : inexc s0 = true) by (unfold s0; simpl; rewrite (i_excb _ _ H); exact He).
  pose proof (below_top_lt_all _ _ (i_sorted _ _ H) Hfa) as Hlt'.
  pose proof (below_top_lt_all _ _ (i_sorted _ _ H) Hb) as Hlt.
  assert (H1 : Inv (mk st (frames st) true false 0 []) (with_exc (rehook_exception s0 fa') false)).
  { apply Inv_after_rehook; auto. intros y Hin. eapply shadow_loc_gt; eauto. }
  set (s1 := with_exc (rehook_exception s0 fa') false) in *.
  unfold mcount_entry. rewrite Hi0. fold fa'. fold s1.
  change (bump (mk st (fresh st sl r [false] :: frames st) true false 1 []))
    with (push (mk st (frames st) true false 0 []) sl r [false]).
  (* the value the new entry reads from its slot *)
  assert (Hsl : m s1 sl = r).
  { unfold s1; simpl. destruct (i_shadow _ _ H0) as [S [L [S1 [S2 [S3 S4]]]]].
    pose proof (i_mem _ _ H0) as Hm. rewrite He in Hm.
    destruct (rehook_exception_spec s0 fa' (frames st) S L S1 S2 (i_sorted _ _ H) (i_valid _ _ H) (i_nolj _ _ H0))
      as [_ [_ [_ [R4 _]]]]; [intros e Hin; apply Hst; apply S3; exact Hin|intros y Hin; eapply shadow_loc_gt; eauto|exact Hm|].
    rewrite R4; [unfold s0; simpl; apply upd_same|]. intros y Hin. eapply shadow_loc_ne; eauto. }
  eapply Inv_push_hooked with (s := s1) (e := new_ent s1 false k sl SNormal) (L' := rs s1) (mm := m s1); eauto.
  - unfold new_ent, proj; simpl. change (m (rehook_exception s0 fa') sl) with (m s1 sl). rewrite Hsl. reflexivity.
  - exact (i_nolj _ _ H1).
  - apply mem_top_plain; [exact H1|reflexivity].
Qed.

(* ================================================================ PLT calls (no exception in flight in libmcount's eyes) *)
Lemma plt_entry_common : forall st s k sl r kk, Inv st s -> exc st = false ->
  below_top (frames st) sl = true -> valid_ra r = true ->
  let s0 := with_m s (upd (m s) sl r) in
  let e := new_ent s0 true k sl kk in
  let m1 := auto_restore false (e :: rs s) (upd (upd (m s) sl r) sl PRET) in
  forall e1 anc1 s', rs s' = e1 :: anc1 -> proj e1 = (sl, r, true) -> e_lj e1 = false ->
    map proj anc1 = map proj (rs s) -> nolj anc1 -> m s' = m1 -> inexc s' = false -> jbs s' = jbs s -> jpc s' = jpc s ->
    Inv (push st sl r [true]) s'.
Proof.
  intros st s k sl r kk H He Hb Hv s0 e m1 e1 anc1 s' Hrs Hp Hlj Hanc Hnl Hm Hi Hj1 Hj2.
  pose proof (below_top_lt_all _ _ (i_sorted _ _ H) Hb) as Hlt.
  eapply Inv_push_hooked with (s := s) (e := e1) (L' := anc1) (mm := upd (m s) sl r); eauto.
  - apply mem_top_upd_below; [exact Hlt|]. apply mem_top_plain; assumption.
  - intros a. rewrite Hm. unfold m1. simpl tramp_of.
    (* auto_restore only looks at parent_loc / parent_ip of the entries *)
    unfold auto_restore. destruct (rs s) as [|prev rest]; [reflexivity|].
    assert (E1 : e_loc e1 = e_loc e). { apply proj_eq in Hp. destruct Hp as [P1 _]. rewrite P1. reflexivity. }
    rewrite E1. reflexivity.
Qed.

Lemma plthook_entry_noexc : forall s kd k loc arg, inexc s = false -> plthook_entry s kd k loc arg = plthook_push s kd k loc arg.
Proof. intros s kd k loc arg H. unfold plthook_entry. rewrite H. reflexivity. Qed.

(* what plthook_entry pushes, before the special handling *)
Definition plt_triple (s : lst) (k sl r : N) (kk : skd) (fl : bool) : ent * list ent * list rec :=
  let s0 := with_m s (upd (m s) sl r) in
  if fl then rtd (new_ent s0 true k sl kk) (rs s0) else (new_ent s0 true k sl kk, rs s0, []).

Lemma plt_pushed : forall s k sl r kk (fl : bool), nolj (rs s) ->
  let t := plt_triple s k sl r kk fl in
  proj (fst (fst t)) = (sl, r, true) /\ e_lj (fst (fst t)) = false /\
  map proj (snd (fst t)) = map proj (rs s) /\ nolj (snd (fst t)).
Proof.
  intros s k sl r kk fl Hnl. unfold plt_triple. set (s0 := with_m s (upd (m s) sl r)). set (e := new_ent s0 true k sl kk).
  assert (He : proj e = (sl, r, true)) by (unfold e, new_ent, proj, s0; simpl; rewrite upd_same; reflexivity).
  destruct fl.
  - pose proof (rtd_proj e (rs s0)) as R. pose proof (rtd_top_lj e (rs s0)) as Rl. pose proof (rtd_nolj e (rs s0) Hnl) as Rn.
    destruct (rtd e (rs s0)) as [[e1 anc1] recs]. destruct R as [R1 R2]. simpl.
    split; [rewrite R1; exact He|]. split; [rewrite Rl; reflexivity|]. split; [exact R2|exact Rn].
  - simpl. split; [exact He|]. split; [reflexivity|]. split; [reflexivity|exact Hnl].
Qed.

Lemma step_Plt_plain : forall st s kd k sl r arg, Inv st s -> exc st = false ->
  below_top (frames st) sl = true -> valid_ra r = true -> (kd = KNone \/ kd = KFlush) ->
  Inv (push st sl r [true]) (plthook_entry (with_m s (upd (m s) sl r)) kd k sl arg).
Proof.
  intros st s kd k sl r arg H He Hb Hv Hk.
  assert (Hi : inexc s = false) by (rewrite (i_excb _ _ H); exact He).
  pose proof (plt_pushed s k sl r (kind_of kd arg) (is_flush kd) (i_nolj _ _ H)) as P.
  rewrite plthook_entry_noexc by exact Hi. unfold plthook_push. simpl inexc. rewrite Hi.
  change (if is_flush kd then rtd (new_ent (with_m s (upd (m s) sl r)) true k sl (kind_of kd arg)) (rs (with_m s (upd (m s) sl r)))
          else (new_ent (with_m s (upd (m s) sl r)) true k sl (kind_of kd arg), rs (with_m s (upd (m s) sl r)), []))
    with (plt_triple s k sl r (kind_of kd arg) (is_flush kd)).
  destruct (plt_triple s k sl r (kind_of kd arg) (is_flush kd)) as [[e1 anc1] recs]. simpl in P.
  destruct P as [P1 [P2 [P3 P4]]].
  destruct Hk as [Hk|Hk]; subst kd; eapply plt_entry_common with (k := k) (kk := SNormal) (e1 := e1) (anc1 := anc1); eauto.
Qed.

(* ================================================================ tail calls *)
Lemma Inv_tail : forall st s s' b f rest e L',
  Inv st s -> exc st = false -> frames st = f :: rest ->
  rs s' = e :: L' -> proj e = (f_slot f, m s (f_slot f), b) -> e_lj e = false ->
  map proj L' = map proj (rs s) -> nolj L' ->
  (forall a, m s' a = auto_restore false (e :: rs s) (upd (m s) (f_slot f) (tramp_of b)) a) ->
  inexc s' = false -> jbs s' = jbs s -> jpc s' = jpc s ->
  Inv (bump (mk st (fresh st (f_slot f) (f_ra f) (b :: f_pend f) :: rest) (flight st) false (extra st) (stale st))) s'.
Proof.
  intros st s s' b f rest e L' H He HF Hrs Hpe Hlj HL' Hnl Hm Hi Hj1 Hj2.
  pose proof (i_sorted _ _ H) as Hs. rewrite HF in Hs. destruct Hs as [Hlt Hs].
  pose proof (i_valid _ _ H) as Hv. rewrite HF in Hv. inversion Hv as [|? ? [Hvra Hvh] Hvr]; subst.
  pose proof (Inv_rs_plain _ _ H He) as Hplain. rewrite HF in Hplain.
  pose proof (mem_top_plain _ _ H He) as Hmem. rewrite HF in Hmem.
  apply proj_eq in Hpe. destruct Hpe as [Pe1 [Pe2 Pe3]].
  set (sl := f_slot f) in *.
  assert (Hip : m s sl = match f_pend f with [] => f_ra f | k' :: _ => tramp_of k' end).
  { simpl in Hmem. destruct (f_pend f); destruct Hmem as [A _]; exact A. }
  assert (Hmm : m s' sl = tramp_of b /\ mem_rest (m s') rest).
  { simpl in Hmem. simpl in Hplain. unfold ents_of in Hplain. fold sl in Hplain. destruct (f_pend f) as [|k' p] eqn:Ep.
    - destruct Hmem as [_ Hmr]. simpl in Hplain.
      destruct (push_mem rest (rs s) (m s) sl (tramp_of b) e Hplain Hs Hvr Hlt Hmr Pe1) as [M1 M2].
      split; [rewrite Hm; exact M1|]. eapply mem_rest_ext; [|exact M2]. intros a; symmetry; apply Hm.
    - destruct Hmem as [_ Hmr]. simpl in Hplain. apply map_proj_cons in Hplain. destruct Hplain as [prev [r0 [Hr0 [Hpp _]]]].
      apply proj_eq in Hpp. destruct Hpp as [Pp1 _].
      assert (Hmeq : forall a, m s' a = upd (m s) sl (tramp_of b) a).
      { intros a. rewrite Hm. rewrite Hr0. unfold auto_restore. rewrite Pe1, Pp1, N.eqb_refl. reflexivity. }
      split; [rewrite Hmeq; apply upd_same|]. eapply mem_rest_ext; [intros a; symmetry; apply Hmeq|].
      apply mem_rest_upd_below; assumption. }
  destruct Hmm as [Hm1 Hm2].
  constructor; simpl.
  - split; assumption.
  - constructor; [|exact Hvr]. split; [exact Hvra|exact I].
  - eapply ids_ok_gen with (st := st); [exact (i_ids _ _ H)|simpl; lia|reflexivity|].
    simpl. constructor; [simpl; lia|]. pose proof (proj1 (i_ids _ _ H)) as Hi'. rewrite HF in Hi'. inversion Hi'; subst.
    eapply Forall_id_weaken; [|eassumption]. lia.
  - eapply jb_inv_mono with (st := st) (s := s); [exact (i_jb _ _ H)|reflexivity|exact Hj1|exact Hj2|].
    intros jb saved rsj Ha Hsf. simpl in Hsf. rewrite HF. apply is_suffix_cons.
    eapply suffix_after_push; [exact (i_ids _ _ H)|exact Ha| |exact Hsf]. reflexivity.
  - exact Hi.
  - intros; discriminate.
  - rewrite Hrs. constructor; assumption.
  - exists [], (rs s'). split; [reflexivity|]. split; [|split; [intros e0 Hin; contradiction|reflexivity]].
    rewrite Hrs. simpl. rewrite HL', Hplain. simpl. unfold ents_of at 1. fold sl.
    unfold proj. rewrite Pe1, Pe2, Pe3, Hip. reflexivity.
  - split; assumption.
  - intros _. exact (i_stale0 _ _ H He).
  - intros; discriminate.
  - intros; discriminate.
Qed.

Lemma step_TCall : forall st s k f rest fa, Inv st s -> exc st = false -> frames st = f :: rest ->
  Inv (bump (mk st (fresh st (f_slot f) (f_ra f) (false :: f_pend f) :: rest) (flight st) false (extra st) (stale st)))
      (mcount_entry s k (f_slot f) fa).
Proof.
  intros st s k f rest fa H He HF.
  assert (Hi : inexc s = false) by (rewrite (i_excb _ _ H); exact He).
  unfold mcount_entry. rewrite Hi.
  eapply Inv_tail with (s := s) (e := new_ent s false k (f_slot f) SNormal) (L' := rs s); eauto.
  - exact (i_nolj _ _ H).
  - intros a. simpl. rewrite Hi. reflexivity.
Qed.

Lemma step_TPlt : forall st s k f rest, Inv st s -> exc st = false -> frames st = f :: rest ->
  Inv (bump (mk st (fresh st (f_slot f) (f_ra f) (true :: f_pend f) :: rest) (flight st) false (extra st) (stale st)))
      (plthook_entry s KNone k (f_slot f) 0).
Proof.
  intros st s k f rest H He HF.
  assert (Hi : inexc s = false) by (rewrite (i_excb _ _ H); exact He).
  rewrite plthook_entry_noexc by exact Hi. unfold plthook_push. simpl. rewrite Hi.
  eapply Inv_tail with (s := s) (e := new_ent s true k (f_slot f) SNormal) (L' := rs s); eauto.
  - exact (i_nolj _ _ H).
Qed.

(* ================================================================ returns *)
Lemma fuel_of_ge : forall s, (S (length (rs s)) < fuel_of s)%nat.
Proof. intros s. unfold fuel_of. lia. Qed.

Lemma step_Ret : forall st s f rest, Inv st s -> frames st = f :: rest ->
  (exc st = true -> f_pend f = [] /\ 0 < extra st) ->
  exists s', follow (fuel_of s) s (m s (f_slot f)) 0 = Some (s', f_ra f, N.of_nat (length (f_pend f))) /\
     Inv (mk st rest (flight st) (exc st) (if flight st then extra st - 1 else 0) (stale st)) s'.
Proof.
  intros st s f rest H HF Hexc.
  pose proof (i_sorted _ _ H) as Hs. rewrite HF in Hs. destruct Hs as [Hlt Hs].
  pose proof (i_valid _ _ H) as Hv. rewrite HF in Hv. inversion Hv as [|? ? [Hvra Hvh] Hvr]; subst.
  assert (Hids : ids_ok (mk st rest (flight st) (exc st) (if flight st then extra st - 1 else 0) (stale st))).
  { eapply ids_ok_gen with (st := st); [exact (i_ids _ _ H)|simpl; lia|reflexivity|].
    simpl. pose proof (proj1 (i_ids _ _ H)) as Hi. rewrite HF in Hi. inversion Hi; assumption. }
  assert (Hjbmono : forall s', jbs s' = jbs s -> jpc s' = jpc s ->
            jb_inv (mk st rest (flight st) (exc st) (if flight st then extra st - 1 else 0) (stale st)) s').
  { intros s' E1 E2. eapply jb_inv_mono with (st := st) (s := s); [exact (i_jb _ _ H)|reflexivity|exact E1|exact E2|].
    intros jb saved rsj Ha Hsf. simpl in Hsf. rewrite HF. apply is_suffix_cons. exact Hsf. }
  destruct (f_pend f) as [|k p] eqn:Ep.
  - (* not traced: the slot holds the real address *)
    assert (Hra : m s (f_slot f) = f_ra f) by (eapply unhooked_real; [exact H|rewrite HF; left; reflexivity|exact Ep]).
    exists s. split.
    { rewrite Hra. unfold fuel_of. cbn [follow]. rewrite (valid_ra_not_tramp _ Hvra). reflexivity. }
    destruct (i_shadow _ _ H) as [SS [L [S1 [S2 [S3 S4]]]]].
    assert (Hsh : shadow (frames st) = shadow rest) by (rewrite HF; simpl; unfold ents_of; rewrite Ep; reflexivity).
    pose proof (i_mem _ _ H) as Hm.
    constructor; simpl.
    + exact Hs.
    + exact Hvr.
    + exact Hids.
    + apply Hjbmono; reflexivity.
    + exact (i_excb _ _ H).
    + exact (i_fl _ _ H).
    + exact (i_nolj _ _ H).
    + exists SS, L. rewrite <- Hsh. repeat split; auto.
    + destruct (exc st); rewrite HF in Hm.
      * inversion Hm; assumption.
      * simpl in Hm. rewrite Ep in Hm. destruct Hm as [_ Hm]. exact Hm.
    + exact (i_stale0 _ _ H).
    + intros He. destruct (Hexc He) as [_ Hpos]. rewrite (i_fl _ _ H He). pose proof (i_stale _ _ H He) as Hst.
      unfold base in *; simpl. rewrite HF in Hst.
      replace (N.to_nat (extra st)) with (S (N.to_nat (extra st - 1))) in Hst by lia. exact Hst.
    + intros He. destruct (Hexc He) as [_ Hpos]. rewrite (i_fl _ _ H He). pose proof (i_extra _ _ H He) as Hex.
      rewrite HF in Hex. replace (N.to_nat (extra st)) with (S (N.to_nat (extra st - 1))) in Hex by lia.
      simpl in Hex. inversion Hex; assumption.
  - (* traced: one exit hook per function sharing the frame *)
    assert (He : exc st = false). { destruct (exc st) eqn:E; [|reflexivity]. destruct (Hexc eq_refl) as [X _]. discriminate. }
    pose proof (Inv_rs_plain _ _ H He) as Hplain. rewrite HF in Hplain. simpl in Hplain. unfold ents_of in Hplain. rewrite Ep in Hplain.
    apply map_eq_app in Hplain. destruct Hplain as [Lf [L' [HL [HLf HL']]]].
    pose proof (mem_top_plain _ _ H He) as Hmem. rewrite HF in Hmem. simpl in Hmem. rewrite Ep in Hmem. destruct Hmem as [Hm1 Hm2].
    assert (Hi : inexc s = false) by (rewrite (i_excb _ _ H); exact He).
    destruct (follow_chain (k :: p) (f_slot f) (f_ra f) s Lf L' 0 (fuel_of s)) as [s' [F1 [F2 [F3 [F4 [F5 [F6 F7]]]]]]];
      [discriminate|exact Hvh|exact Hvra|exact HL|exact HLf|exact (i_nolj _ _ H)|exact Hi| | |].
    + rewrite HL'. destruct (shadow rest) as [|y ys] eqn:E; [exact I|]. eapply shadow_loc_ne; [exact Hlt|]. rewrite E. left. reflexivity.
    + pose proof (fuel_of_ge s) as Hf. assert (length (k :: p) <= length (rs s))%nat.
      { rewrite HL, app_length. rewrite <- (map_length proj Lf), HLf, chain_length. lia. }
      lia.
    + exists s'. split; [rewrite Hm1; simpl hd in F1; rewrite F1; reflexivity|].
      constructor; simpl.
      * exact Hs.
      * exact Hvr.
      * exact Hids.
      * apply Hjbmono; assumption.
      * rewrite F5. symmetry. exact He.
      * exact (i_fl _ _ H).
      * exact F3.
      * exists [], (rs s'). split; [reflexivity|]. split; [rewrite F2; exact HL'|]. split; [intros e Hin; contradiction|reflexivity].
      * rewrite He. rewrite F4, HL'. apply mem_rest_rehook_first; assumption.
      * exact (i_stale0 _ _ H).
      * intros He'. rewrite He in He'. discriminate.
      * intros He'. rewrite He in He'. discriminate.
Qed.

(* ================================================================ setjmp *)
Lemma Inv_add_jb : forall st s arg saved rsj ri snap sl pc,
  Inv st s -> Forall (fun f => f_id f < next_id st) saved ->
  map proj snap = (sl, rsj, true) :: shadow saved -> valid_ra rsj = true -> lt_all sl saved -> nolj snap -> pc = PRET ->
  Inv {| frames := frames st; next_id := next_id st; jbt := (arg, (saved, rsj)) :: jbt st;
         flight := flight st; exc := exc st; extra := extra st; stale := stale st |}
      {| rs := rs s; ridx := ridx s; inexc := inexc s; m := m s; jbs := (arg, (ri, snap)) :: jbs s;
         jpc := (arg, pc) :: jpc s; out := out s |}.
Proof.
  intros st s arg saved rsj ri snap sl pc H Hid Hsnap Hv Hlt Hnl Hpc. subst pc.
  constructor; simpl.
  - exact (i_sorted _ _ H).
  - exact (i_valid _ _ H).
  - destruct (i_ids _ _ H) as [I1 I2]. split; [exact I1|]. simpl. intros jb sv r [Hin|Hin]; [inversion Hin; subst; exact Hid|eauto].
  - intros jb sv r Ha Hsf. simpl in *. destruct (jb =? arg) eqn:E.
    + inversion Ha; subst sv r. exists ri, snap, sl. repeat split; auto.
    + apply (i_jb _ _ H); assumption.
  - exact (i_excb _ _ H).
  - exact (i_fl _ _ H).
  - exact (i_nolj _ _ H).
  - exact (i_shadow _ _ H).
  - exact (i_mem _ _ H).
  - exact (i_stale0 _ _ H).
  - exact (i_stale _ _ H).
  - exact (i_extra _ _ H).
Qed.

Lemma step_Setjmp : forall st s k sl r arg, Inv st s -> exc st = false -> flight st = false ->
  below_top (frames st) sl = true -> valid_ra r = true ->
  let s1 := plthook_entry (with_m s (upd (m s) sl r)) KSetjmp k sl arg in
  let st1 := push st sl r [true] in
  Inv {| frames := frames st1; next_id := next_id st1; jbt := (arg, (frames st, r)) :: jbt st;
         flight := false; exc := false; extra := 0; stale := [] |}
      {| rs := rs s1; ridx := ridx s1; inexc := inexc s1; m := m s1; jbs := jbs s1;
         jpc := (arg, m s1 sl) :: jpc s1; out := out s1 |}.
Proof.
  intros st s k sl r arg H He Hfl Hb Hv s1 st1.
  assert (Hi : inexc s = false) by (rewrite (i_excb _ _ H); exact He).
  pose proof (below_top_lt_all _ _ (i_sorted _ _ H) Hb) as Hlt.
  pose proof (plt_pushed s k sl r (SSetjmp arg) false (i_nolj _ _ H)) as P. unfold plt_triple in P. simpl in P.
  destruct P as [P1 [P2 [P3 P4]]].
  set (e := new_ent (with_m s (upd (m s) sl r)) true k sl (SSetjmp arg)) in *.
  set (m1 := auto_restore false (e :: rs s) (upd (upd (m s) sl r) sl PRET)).
  (* the state without the jmp_buf bookkeeping *)
  set (s0 := {| rs := e :: rs s; ridx := ridx s + 1; inexc := false; m := m1; jbs := jbs s; jpc := jpc s; out := out s ++ [] |}).
  assert (H0 : Inv st1 s0).
  { unfold st1. eapply plt_entry_common with (k := k) (kk := SSetjmp arg) (e1 := e) (anc1 := rs s) (s' := s0); eauto. }
  assert (Hpc : m1 sl = PRET).
  { pose proof (Inv_rs_plain _ _ H He) as Hplain.
    destruct (push_mem (frames st) (rs s) (upd (m s) sl r) sl PRET e Hplain (i_sorted _ _ H) (i_valid _ _ H) Hlt) as [M1 _]; auto.
    apply mem_top_upd_below; [exact Hlt|]. apply mem_top_plain; assumption. }
  assert (Hst0 : stale st = []) by exact (i_stale0 _ _ H He).
  assert (Heq : {| rs := rs s1; ridx := ridx s1; inexc := inexc s1; m := m s1; jbs := jbs s1;
                   jpc := (arg, m s1 sl) :: jpc s1; out := out s1 |} =
                {| rs := rs s0; ridx := ridx s0; inexc := inexc s0; m := m s0;
                   jbs := (arg, (ridx s + 1, e :: rs s)) :: jbs s0; jpc := (arg, m1 sl) :: jpc s0; out := out s0 |}).
  { unfold s1. rewrite plthook_entry_noexc by exact Hi. unfold plthook_push, s0. cbn [is_flush kind_of rs ridx inexc m jbs jpc out with_m]. rewrite Hi. reflexivity. }
  assert (Hste : {| frames := frames st1; next_id := next_id st1; jbt := (arg, (frames st, r)) :: jbt st;
                    flight := false; exc := false; extra := 0; stale := [] |} =
                 {| frames := frames st1; next_id := next_id st1; jbt := (arg, (frames st, r)) :: jbt st1;
                    flight := flight st1; exc := exc st1; extra := extra st1; stale := stale st1 |}).
  { unfold st1, push, bump, mk. cbn [frames next_id jbt flight exc extra stale]. rewrite Hfl, He, Hst0. reflexivity. }
  rewrite Heq, Hste.
  apply Inv_add_jb with (sl := sl); auto.
  - unfold st1, push, bump, mk; cbn [next_id]. eapply Forall_id_weaken; [|exact (proj1 (i_ids _ _ H))]. lia.
  - simpl. rewrite P1. f_equal. rewrite (Inv_rs_plain _ _ H He). reflexivity.
  - constructor; [reflexivity|exact (i_nolj _ _ H)].
Qed.

(* ================================================================ longjmp *)
Lemma sorted_app_r : forall a b, sorted (a ++ b) -> sorted b.
Proof. induction a as [|x a IH]; intros b H; [exact H|]. simpl in H. destruct H as [_ H]. auto. Qed.

Lemma step_Longjmp : forall st s k sl r arg saved rsj, Inv st s -> exc st = false ->
  below_top (frames st) sl = true -> valid_ra r = true ->
  assoc arg (jbt st) = Some (saved, rsj) -> is_suffix saved (frames st) = true ->
  let s1 := plthook_entry (with_m s (upd (m s) sl r)) KLongjmp k sl arg in
  exists s2, assoc arg (jpc s1) = Some PRET /\ follow (fuel_of s1) s1 PRET 0 = Some (s2, rsj, 1) /\
     Inv (mk st saved false false 0 []) s2.
Proof.
  intros st s k sl r arg saved rsj H He Hb Hv Ha Hsuf s1.
  assert (Hi : inexc s = false) by (rewrite (i_excb _ _ H); exact He).
  pose proof (below_top_lt_all _ _ (i_sorted _ _ H) Hb) as Hlt.
  destruct (i_jb _ _ H arg saved rsj Ha Hsuf) as [ri [snap [sl0 [J1 [J2 [J3 [J4 [J5 J6]]]]]]]].
  pose proof (plt_pushed s k sl r (SLongjmp arg) true (i_nolj _ _ H)) as P. unfold plt_triple in P.
  set (e := new_ent (with_m s (upd (m s) sl r)) true k sl (SLongjmp arg)) in *.
  set (m1 := auto_restore false (e :: rs s) (upd (upd (m s) sl r) sl PRET)).
  destruct (rtd e (rs (with_m s (upd (m s) sl r)))) as [[e1 anc1] recs] eqn:Ertd. simpl in P.
  destruct P as [P1 [P2 [P3 P4]]].
  assert (Hs1 : s1 = {| rs := set_end (set_lj e1 true) arg :: anc1; ridx := ridx s + 1; inexc := false; m := m1;
                        jbs := jbs s; jpc := jpc s; out := out s ++ recs |}).
  { unfold s1. rewrite plthook_entry_noexc by exact Hi. unfold plthook_push. cbn [is_flush kind_of rs ridx inexc m jbs jpc out with_m]. fold e. rewrite Hi.
    change (rs (with_m s (upd (m s) sl r))) with (rs s) in Ertd. rewrite Ertd. reflexivity. }
  (* the memory after the entry hook: every live slot is "hooked or real" *)
  assert (Hm1 : mem_rest m1 (frames st)).
  { pose proof (Inv_rs_plain _ _ H He) as Hplain.
    destruct (push_mem (frames st) (rs s) (upd (m s) sl r) sl PRET e Hplain (i_sorted _ _ H) (i_valid _ _ H) Hlt) as [_ M2]; auto.
    apply mem_top_upd_below; [exact Hlt|]. apply mem_top_plain; assumption. }
  destruct (is_suffix_app _ _ Hsuf) as [pre Hpre].
  assert (Hsorted : sorted saved) by (eapply sorted_app_r; rewrite <- Hpre; exact (i_sorted _ _ H)).
  assert (Hvalid : Forall fvalid saved).
  { pose proof (i_valid _ _ H) as Hv'. rewrite Hpre in Hv'. apply Forall_app in Hv'. exact (proj2 Hv'). }
  assert (Hm1s : mem_rest m1 saved).
  { unfold mem_rest in *. rewrite Hpre in Hm1. apply Forall_app in Hm1. exact (proj2 Hm1). }
  (* the snapshot *)
  apply map_proj_cons in J3. destruct J3 as [esj [srest [Hsnap [Hpe Hprest]]]]. subst snap.
  apply proj_eq in Hpe. destruct Hpe as [Q1 [Q2 Q3]].
  set (srest' := {| rs := map set_written (esj :: srest); ridx := ri; inexc := inexc s1; m := m s1;
                    jbs := jbs s1; jpc := jpc s1; out := out s1 |}).
  destruct (exit_common_top true srest' (set_written esj) (map set_written srest)) as [s2 [X1 [X2 [X3 [X4 [X5 [X6 X7]]]]]]];
    [reflexivity|intros _; exact Q3|].
  exists s2. split; [rewrite Hs1; simpl; exact J2|]. split.
  - unfold fuel_of. cbn [follow]. change (is_tramp PRET) with true. change (PRET =? MRET) with false. cbv iota.
    assert (Hpx : plthook_exit s1 = Some (s2, rsj)).
    { unfold plthook_exit. rewrite Hs1 at 1. cbn [rs]. cbn [e_lj set_end set_lj]. cbn [e_end set_end].
      assert (HJ : assoc arg (jbs s1) = Some (ri, esj :: srest)) by (rewrite Hs1; exact J1). rewrite HJ.
      change (exit_common true srest' = Some (s2, rsj)). rewrite X1. simpl. rewrite Q2. reflexivity. }
    rewrite Hpx. cbn [follow]. destruct (length (rs s1) + _)%nat; cbn [follow]; rewrite (valid_ra_not_tramp _ J4); reflexivity.
  - assert (Hm2 : m s2 = match shadow saved with [] => m1 | y :: _ => upd m1 (p_loc y) (tramp_of (p_plt y)) end).
    { rewrite X4. unfold srest'. cbn [inexc m]. rewrite Hs1. cbn [inexc m].
      rewrite <- Hprest. destruct srest as [|p ps]; [reflexivity|]. simpl.
      assert (Hne : e_loc esj =? e_loc p = false).
      { apply N.eqb_neq. rewrite Q1. assert (Hin : In (proj p) (shadow saved)) by (rewrite <- Hprest; left; reflexivity).
        pose proof (shadow_loc_gt saved sl0 (proj p) J5 Hin) as Hgt. unfold p_loc, proj in Hgt; simpl in Hgt. lia. }
      rewrite Hne. reflexivity. }
    constructor; simpl.
    + exact Hsorted.
    + exact Hvalid.
    + eapply ids_ok_gen with (st := st); [exact (i_ids _ _ H)|simpl; lia|reflexivity|].
      simpl. pose proof (proj1 (i_ids _ _ H)) as Hid. rewrite Hpre in Hid. apply Forall_app in Hid. exact (proj2 Hid).
    + eapply jb_inv_mono with (st := st) (s := s); [exact (i_jb _ _ H)|reflexivity| | |].
      * rewrite X6. unfold srest'. simpl. rewrite Hs1. reflexivity.
      * rewrite X7. unfold srest'. simpl. rewrite Hs1. reflexivity.
      * intros jb sv rj Hjb Hsf. simpl in Hsf. eapply is_suffix_trans; eauto.
    + rewrite X5. unfold srest'. simpl. rewrite Hs1. reflexivity.
    + intros; discriminate.
    + apply X3. pose proof (map_set_written_shape srest) as _. unfold nolj in *. inversion J6; subst.
      clear -H3. induction srest as [|x xs IH]; simpl; constructor; inversion H3; subst; auto.
    + exists [], (rs s2). split; [reflexivity|]. split; [|split; [intros e0 Hin; contradiction|reflexivity]].
      rewrite X2, map_proj_set_written. exact Hprest.
    + rewrite Hm2. apply mem_rest_rehook_first; assumption.
    + reflexivity.
    + intros; discriminate.
    + intros; discriminate.
Qed.

(* ================================================================ library call from a landing pad *)
Lemma step_Plt_exc : forall st s kd k sl r arg, Inv st s -> exc st = true -> extra st = 0 ->
  below_top (frames st) sl = true -> valid_ra r = true -> (kd = KNone \/ kd = KFlush) ->
  (forall x, In x (stale st) -> x <= sl) ->
  Inv (bump (mk st (fresh st sl r [true] :: frames st) true false 1 []))
      (plthook_entry (with_m s (upd (m s) sl r)) kd k sl arg).
Proof.
  intros st s kd k sl r arg H He Hx Hb Hv Hk Hst.
  pose proof (step_Poke st s sl r H Hb) as H0. set (s0 := with_m s (upd (m s) sl r)) in *.
  assert (Hi0 : inexc s0 = true) by (unfold s0; simpl; rewrite (i_excb _ _ H); exact He).
  pose proof (below_top_lt_all _ _ (i_sorted _ _ H) Hb) as Hlt.
  assert (Hsh : forall y, In y (shadow (frames st)) -> sl < p_loc y) by (intros y Hin; eapply shadow_loc_gt; eauto).
  assert (Hne : forall y, In y (shadow (frames st)) -> p_loc y <> sl) by (intros y Hin; specialize (Hsh y Hin); lia).
  pose proof (Inv_after_rehook st s0 sl true H0 He Hx Hst Hsh) as H1.
  set (s1 := with_exc (rehook_exception s0 sl) false) in *.
  unfold plthook_entry. rewrite Hi0. fold s1.
  change (bump (mk st (fresh st sl r [true] :: frames st) true false 1 []))
    with (push (mk st (frames st) true false 0 []) sl r [true]).
  assert (Hsl : m s1 sl = r).
  { unfold s1; cbn [m with_exc]. rewrite (rehook_exception_mem_other st s0 sl sl H0 He Hst Hsh Hne). unfold s0; cbn [m with_m]. apply upd_same. }
  set (e := new_ent s1 true k sl (kind_of kd arg)).
  assert (Hpe : proj e = (sl, r, true)) by (unfold e, new_ent, proj; cbn [e_loc e_ip e_plt]; rewrite Hsl; reflexivity).
  unfold plthook_push. fold e. change (inexc s1) with false.
  (* the pushed entry after the optional flush *)
  assert (Hfl : exists e1 anc1 recs, (if is_flush kd then rtd e (rs s1) else (e, rs s1, [])) = (e1, anc1, recs) /\
            proj e1 = (sl, r, true) /\ e_lj e1 = false /\ map proj anc1 = map proj (rs s1) /\ nolj anc1).
  { destruct (is_flush kd).
    - pose proof (rtd_proj e (rs s1)) as R. pose proof (rtd_top_lj e (rs s1)) as Rl. pose proof (rtd_nolj e (rs s1) (i_nolj _ _ H1)) as Rn.
      destruct (rtd e (rs s1)) as [[e1 anc1] recs]. destruct R as [R1 R2]. exists e1, anc1, recs.
      split; [reflexivity|]. split; [rewrite R1; exact Hpe|]. split; [rewrite Rl; reflexivity|]. split; [exact R2|exact Rn].
    - exists e, (rs s1), []. split; [reflexivity|]. split; [exact Hpe|]. split; [reflexivity|]. split; [reflexivity|exact (i_nolj _ _ H1)]. }
  destruct Hfl as [e1 [anc1 [recs [E [P1 [P2 [P3 P4]]]]]]]. rewrite E.
  assert (Eloc : e_loc e1 = e_loc e).
  { apply proj_eq in P1. destruct P1 as [A _]. apply proj_eq in Hpe. destruct Hpe as [B _]. rewrite A, B. reflexivity. }
  destruct Hk as [Hk|Hk]; subst kd;
    (eapply Inv_push_hooked with (s := s1) (e := e1) (L' := anc1) (mm := m s1); eauto;
     [apply mem_top_plain; [exact H1|reflexivity]
     |intros a; cbn [m]; unfold auto_restore; destruct (rs s1) as [|prev rest]; [reflexivity|]; rewrite Eloc; reflexivity]).
Qed.
