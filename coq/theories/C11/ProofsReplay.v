(* C11, replay side: the depth fix-up of utils/fstack.c for setjmp/longjmp (after fix a7444cc). *)
From Coq Require Import NArith ZArith List Bool Lia.
Import ListNotations.
Require Import UV.Gen.Consts UV.C11.Model.
Local Open Scope N_scope.

Lemma nlist_eqb_refl : forall l, nlist_eqb l l = true.
Proof. induction l as [|x l IH]; simpl; [reflexivity|]. unfold nlist_eqb in *. simpl. rewrite N.eqb_refl, IH. reflexivity. Qed.

(* the relation between replay's state and the ground truth *)
Definition rel (p : rp) (g : gt) : Prop :=
  lj_pending p = g_pend g /\ stack_count p = display_depth p /\ setjmp_depth p = setjmp_count p /\
  (g_pend g = false -> display_depth p = Z.of_N (g_depth g)).

Lemma replay_depth_gen : forall es p g l, rel p g -> gt_run g es = Some l -> rp_run p es = l.
Proof.
  induction es as [|e es IH]; intros p g l [Hp [Hsd [Hsj Hd]]] Hrun; cbn [gt_run rp_run] in *.
  - inversion Hrun. reflexivity.
  - destruct e as [k|d].
    + unfold gt_step in Hrun. destruct (g_pend g) eqn:Egp; [discriminate|]. specialize (Hd eq_refl).
      destruct k as [|jb|jb]; unfold rp_step.
      * destruct (gt_run _ es) as [l'|] eqn:Er; [|discriminate]. inversion Hrun; subst l. clear Hrun.
        f_equal; [rewrite Hd; apply N2Z.id|]. eapply IH; [|exact Er].
        repeat split; cbn; intros; try lia; try assumption.
      * destruct (gt_run _ es) as [l'|] eqn:Er; [|discriminate]. inversion Hrun; subst l. clear Hrun.
        f_equal; [rewrite Hd; apply N2Z.id|]. eapply IH; [|exact Er].
        repeat split; cbn; intros; try lia; try assumption.
      * destruct (assoc jb (g_jb g)) as [dj|] eqn:Ea; [|discriminate].
        destruct (gt_run _ es) as [l'|] eqn:Er; [|discriminate]. inversion Hrun; subst l. clear Hrun.
        f_equal; [rewrite Hd; apply N2Z.id|]. eapply IH; [|exact Er].
        repeat split; cbn; intros; try lia; try assumption; try discriminate.
    + unfold gt_step in Hrun. destruct ((0 <? g_depth g) && (d =? g_depth g - 1)) eqn:Eg; [|discriminate].
      apply andb_prop in Eg. destruct Eg as [Epos Ed]. apply N.ltb_lt in Epos. apply N.eqb_eq in Ed.
      destruct (gt_run _ es) as [l'|] eqn:Er; [|discriminate]. inversion Hrun; subst l. clear Hrun.
      unfold rp_step. cbv zeta.
      (* the value of display_depth after the resynchronisation and the decrement is d *)
      assert (Hdd : (let diff := if lj_pending p then (stack_count p - 1 - Z.of_N d)%Z else 0%Z in
                     let dd1 := if (diff =? 0)%Z then display_depth p else Z.max 0 (display_depth p - diff) in
                     let sc1 := (stack_count p - diff)%Z in
                     dd1 = Z.of_N d + 1 /\ sc1 = Z.of_N d + 1)%Z).
      { cbv zeta. destruct (lj_pending p) eqn:Elp.
        - destruct (stack_count p - 1 - Z.of_N d =? 0)%Z eqn:Ez; [apply Z.eqb_eq in Ez|apply Z.eqb_neq in Ez]; lia.
        - assert (Hgp : g_pend g = false) by congruence. specialize (Hd Hgp). cbn. lia. }
      cbv zeta in Hdd. destruct Hdd as [H1 H2]. rewrite H1, H2.
      assert (E1 : (0 <? Z.of_N d + 1)%Z = true) by (apply Z.ltb_lt; lia). rewrite E1.
      replace (Z.of_N d + 1 - 1)%Z with (Z.of_N d) by lia.
      f_equal; [rewrite N2Z.id; lia|]. eapply IH; [|exact Er].
      repeat split; cbn; intros; try lia; try assumption.
Qed.

(* for EVERY faithful record stream - any number of jmp_bufs, longjmp to any of them, nested to any
   depth - replay shows every record at its true depth *)
Theorem replay_depth_all_streams : forall es l, gt_run gt0 es = Some l -> rp_run rp0 es = l.
Proof. intros es l H. eapply replay_depth_gen; [|exact H]. repeat split; cbn; auto. Qed.

Corollary replay_checker_accepts : forall es, gt_run gt0 es <> None -> ok_replay es (rp_run rp0 es) = true.
Proof.
  intros es H. unfold ok_replay. destruct (gt_run gt0 es) as [l|] eqn:E; [|congruence].
  rewrite (replay_depth_all_streams es l E). apply nlist_eqb_refl.
Qed.

(* non-vacuity, and the regression witness of the defect repaired by a7444cc:
   main(){ a(){ setjmp(jb1); b(){ setjmp(jb2); c(){ longjmp(jb1) }}} ... } *)
Definition witness_old_jmpbuf : list sev :=
  [SEntry SNormal;                  (* main   depth 0 *)
   SEntry SNormal;                  (* a      depth 1 *)
   SEntry (SSetjmp 1); SExit 2;     (* setjmp(jb1) depth 2 *)
   SEntry SNormal;                  (* b      depth 2 *)
   SEntry (SSetjmp 2); SExit 3;     (* setjmp(jb2) depth 3 *)
   SEntry SNormal;                  (* c      depth 3 *)
   SEntry (SLongjmp 1); SExit 2;    (* longjmp(jb1): back in a *)
   SEntry SNormal; SExit 2;         (* leaf called by a: true depth 2 *)
   SExit 1; SExit 0].               (* a, main *)

Example replay_older_jmpbuf_now_right :
  gt_run gt0 witness_old_jmpbuf = Some [0; 1; 2; 2; 2; 3; 3; 3; 4; 2; 2; 2; 1; 0] /\
  rp_run rp0 witness_old_jmpbuf = [0; 1; 2; 2; 2; 3; 3; 3; 4; 2; 2; 2; 1; 0] /\
  ok_replay witness_old_jmpbuf (rp_run rp0 witness_old_jmpbuf) = true.
Proof. vm_compute. auto. Qed.

(* ================================================================ several tasks sharing the two statics *)
(* one step: whatever the statics hold - they need only be equal to each other, which every writer ensures -
   the record is shown at its true depth and the relation is kept *)
Lemma rp_step_rel : forall p g e g' d, rel p g -> gt_step g e = Some (g', d) ->
  snd (rp_step p e) = d /\ rel (fst (rp_step p e)) g'.
Proof.
  intros p g e g' d [Hp [Hsd [Hsj Hd]]] Hstep. destruct e as [k|dx].
  - unfold gt_step in Hstep. destruct (g_pend g) eqn:Egp; [discriminate|]. specialize (Hd eq_refl).
    destruct k as [|jb|jb]; unfold rp_step.
    + inversion Hstep; subst. cbn [fst snd]. split; [rewrite Hd; apply N2Z.id|].
      repeat split; cbn; intros; try lia; try assumption.
    + inversion Hstep; subst. cbn [fst snd]. split; [rewrite Hd; apply N2Z.id|].
      repeat split; cbn; intros; try lia; try assumption.
    + destruct (assoc jb (g_jb g)) as [dj|] eqn:Ea; [|discriminate]. inversion Hstep; subst. cbn [fst snd].
      split; [rewrite Hd; apply N2Z.id|].
      repeat split; cbn; intros; try lia; try assumption; try discriminate.
  - unfold gt_step in Hstep. destruct ((0 <? g_depth g) && (dx =? g_depth g - 1)) eqn:Eg; [|discriminate].
    apply andb_prop in Eg. destruct Eg as [Epos Ed]. apply N.ltb_lt in Epos. apply N.eqb_eq in Ed.
    inversion Hstep; subst g' d. clear Hstep.
    unfold rp_step. cbv zeta.
    assert (Hdd : (let diff := if lj_pending p then (stack_count p - 1 - Z.of_N dx)%Z else 0%Z in
                   let dd1 := if (diff =? 0)%Z then display_depth p else Z.max 0 (display_depth p - diff) in
                   let sc1 := (stack_count p - diff)%Z in
                   dd1 = Z.of_N dx + 1 /\ sc1 = Z.of_N dx + 1)%Z).
    { cbv zeta. destruct (lj_pending p) eqn:Elp.
      - destruct (stack_count p - 1 - Z.of_N dx =? 0)%Z eqn:Ez; [apply Z.eqb_eq in Ez|apply Z.eqb_neq in Ez]; lia.
      - assert (Hgp : g_pend g = false) by congruence. specialize (Hd Hgp). cbn. lia. }
    cbv zeta in Hdd. destruct Hdd as [H1 H2]. rewrite H1, H2.
    assert (E1 : (0 <? Z.of_N dx + 1)%Z = true) by (apply Z.ltb_lt; lia). rewrite E1.
    replace (Z.of_N dx + 1 - 1)%Z with (Z.of_N dx) by lia. cbn [fst snd].
    split; [rewrite N2Z.id; lia|].
    repeat split; cbn; intros; try lia; try assumption.
Qed.

(* the part of rel that concerns the task only *)
Definition trel (k : tk) (g : gt) : Prop :=
  k_pend k = g_pend g /\ k_sc k = k_dd k /\ (g_pend g = false -> k_dd k = Z.of_N (g_depth g)).
Lemma rel_view : forall s t g, rel (view s t) g <-> (trel (m_task s t) g /\ m_sd s = m_sc s).
Proof. intros s t g. unfold rel, trel, view. cbn. tauto. Qed.

Definition minv (s : rpm) (g : N -> gt) : Prop := m_sd s = m_sc s /\ forall t, trel (m_task s t) (g t).

Lemma rpm_step_inv : forall s g t e g' d, minv s g -> gt_step (g t) e = Some (g', d) ->
  snd (rpm_step s t e) = d /\ minv (fst (rpm_step s t e)) (fun x => if x =? t then g' else g x).
Proof.
  intros s g t e g' d [Hst Hall] Hstep.
  assert (Hrel : rel (view s t) (g t)) by (apply rel_view; split; [apply Hall|exact Hst]).
  destruct (rp_step_rel _ _ _ _ _ Hrel Hstep) as [Hd Hrel'].
  unfold rpm_step. cbn [fst snd]. split; [exact Hd|].
  destruct Hrel' as [R1 [R2 [R3 R4]]].
  split; cbn [m_sd m_sc m_task]; [exact R3|].
  intro u. destruct (u =? t) eqn:Eu.
  - unfold trel. cbn. repeat split; assumption.
  - apply Hall.
Qed.

Lemma replay_tasks_gen : forall es s g l, minv s g -> gtm_run g es = Some l -> rpm_run s es = l.
Proof.
  induction es as [|[t e] es IH]; intros s g l Hinv Hrun; cbn [gtm_run rpm_run] in *.
  - inversion Hrun. reflexivity.
  - destruct (gt_step (g t) e) as [[g' d]|] eqn:Es; [|discriminate].
    destruct (gtm_run _ es) as [l'|] eqn:Er; [|discriminate]. inversion Hrun; subst l. clear Hrun.
    destruct (rpm_step_inv _ _ _ _ _ _ Hinv Es) as [Hd Hinv'].
    f_equal; [exact Hd|]. eapply IH; [exact Hinv'|exact Er].
Qed.

(* for EVERY merged stream of any number of tasks in which every task's own records are faithful, replay shows
   every record at its true depth - although the "latest setjmp" it guesses at a longjmp may be another task's *)
Theorem replay_depth_all_tasks : forall es l, gtm_run (fun _ => gt0) es = Some l -> rpm_run rpm0 es = l.
Proof.
  intros es l H. eapply replay_tasks_gen; [|exact H].
  split; [reflexivity|]. intro t. unfold trel. cbn. repeat split; auto.
Qed.

(* non-vacuity: task 1 sets its jmp_buf at depth 4, task 2 then calls setjmp at depth 2, task 1 jumps: the guess
   is task 2's depth (too shallow by 2) and the EXIT record of task 1's setjmp puts it right.  With the
   resynchronisation restricted to guesses that are too deep the calls after the jump are misplaced. *)
Definition witness_cross_task : list (N * sev) :=
  [(1, SEntry SNormal); (1, SEntry SNormal); (1, SEntry SNormal); (1, SEntry SNormal);   (* thread_a a1 a2 a3 *)
   (1, SEntry (SSetjmp 1)); (1, SExit 4);                                                 (* setjmp depth 4 *)
   (2, SEntry SNormal); (2, SEntry SNormal);                                              (* thread_b b1 *)
   (2, SEntry (SSetjmp 2)); (2, SExit 2);                                                 (* setjmp depth 2 *)
   (2, SExit 1); (2, SExit 0);
   (1, SEntry SNormal); (1, SEntry SNormal);                                              (* a_mid a_leaf *)
   (1, SEntry (SLongjmp 1)); (1, SExit 4);                                                (* longjmp; setjmp returns again *)
   (1, SEntry SNormal); (1, SExit 4);                                                     (* after_jump: true depth 4 *)
   (1, SExit 3); (1, SExit 2); (1, SExit 1); (1, SExit 0)].
Example replay_cross_task_right :
  gtm_run (fun _ => gt0) witness_cross_task = Some [0; 1; 2; 3; 4; 4; 0; 1; 2; 2; 1; 0; 4; 5; 6; 4; 4; 4; 3; 2; 1; 0] /\
  rpm_run rpm0 witness_cross_task = [0; 1; 2; 3; 4; 4; 0; 1; 2; 2; 1; 0; 4; 5; 6; 4; 4; 4; 3; 2; 1; 0] /\
  rpm_run_with rp_step_shrink_only rpm0 witness_cross_task
    = [0; 1; 2; 3; 4; 4; 0; 1; 2; 2; 1; 0; 4; 5; 6; 2; 2; 2; 1; 0; 0; 0].
Proof. vm_compute. auto. Qed.
