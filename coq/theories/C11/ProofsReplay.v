(* C11, replay side: the depth fix-up of utils/fstack.c for setjmp/longjmp. *)
From Coq Require Import NArith List Bool Lia.
Import ListNotations.
Require Import UV.Gen.Consts UV.C11.Model.
Local Open Scope N_scope.

Lemma nlist_eqb_refl : forall l, nlist_eqb l l = true.
Proof. induction l as [|x l IH]; simpl; [reflexivity|]. unfold nlist_eqb in *. simpl. rewrite N.eqb_refl, IH. reflexivity. Qed.

Lemma nlist_eqb_eq : forall a b, nlist_eqb a b = true -> a = b.
Proof.
  unfold nlist_eqb. induction a as [|x a IH]; destruct b as [|y b]; simpl; intros H; try discriminate; [reflexivity|].
  apply andb_prop in H. destruct H as [H1 H2]. apply N.eqb_eq in H1. subst. f_equal. auto.
Qed.

(* the relation between replay's state and the ground truth, given the jmp_buf of the latest setjmp *)
Definition rel (last : option N) (p : rp) (g : gt) : Prop :=
  display_depth p = g_depth g /\
  match last with Some j => assoc j (g_jb g) = Some (setjmp_depth p) | None => True end.

Lemma dec_pos : forall n, 0 < n -> dec n = n - 1.
Proof. intros n H. unfold dec. destruct (0 <? n) eqn:E; [reflexivity|]. apply N.ltb_ge in E. lia. Qed.

Lemma replay_depth_gen : forall es last p g l,
  latest_only last es = true -> rel last p g -> gt_run g es = Some l -> rp_run p es = l.
Proof.
  induction es as [|e es IH]; intros last p g l Hlat [Hd Hj] Hrun;
    cbn [gt_run gt_step rp_run rp_step latest_only] in *.
  - inversion Hrun. reflexivity.
  - destruct e as [k|].
    + destruct k as [|jb|jb]; cbn [gt_run gt_step rp_run rp_step latest_only] in *.
      * destruct (gt_run _ es) as [l'|] eqn:Er; [|discriminate]. inversion Hrun; subst l. clear Hrun.
        f_equal; [exact Hd|]. eapply IH; [exact Hlat| |exact Er]. split; simpl; [lia|exact Hj].
      * destruct (gt_run _ es) as [l'|] eqn:Er; [|discriminate]. inversion Hrun; subst l. clear Hrun.
        f_equal; [exact Hd|]. eapply IH; [exact Hlat| |exact Er]. split; cbn [display_depth g_depth g_jb setjmp_depth assoc]; [lia|].
        rewrite N.eqb_refl. rewrite Hd. reflexivity.
      * destruct last as [j|]; [|discriminate Hlat]. apply andb_prop in Hlat. destruct Hlat as [Hjj Hlat].
        apply N.eqb_eq in Hjj. subst j. rewrite Hj in Hrun.
        destruct (gt_run _ es) as [l'|] eqn:Er; [|discriminate]. inversion Hrun; subst l. clear Hrun.
        f_equal; [exact Hd|]. eapply IH; [exact Hlat| |exact Er]. split; simpl; [reflexivity|exact Hj].
    + unfold gt_step in Hrun; unfold rp_step. destruct (0 <? g_depth g) eqn:Epos; [|discriminate Hrun]. apply N.ltb_lt in Epos.
      destruct (gt_run _ es) as [l'|] eqn:Er; [|discriminate]. inversion Hrun; subst l. clear Hrun.
      f_equal; [rewrite Hd; apply dec_pos; exact Epos|].
      eapply IH; [exact Hlat| |exact Er]. split; simpl; [rewrite Hd; apply dec_pos; exact Epos|exact Hj].
Qed.

(* for every record stream in which each longjmp goes to the jmp_buf of the most recent setjmp, replay
   shows every record at its true depth *)
Theorem replay_depth_latest : forall es l,
  latest_only None es = true -> gt_run gt0 es = Some l -> rp_run rp0 es = l.
Proof. intros es l H1 H2. eapply replay_depth_gen; [exact H1| |exact H2]. split; simpl; auto. Qed.

Corollary replay_checker_accepts : forall es,
  latest_only None es = true -> gt_run gt0 es <> None -> ok_replay es (rp_run rp0 es) = true.
Proof.
  intros es H1 H2. unfold ok_replay. destruct (gt_run gt0 es) as [l|] eqn:E; [|congruence].
  rewrite (replay_depth_latest es l H1 E). apply nlist_eqb_refl.
Qed.

(* the guard is necessary: main(){ a(){ setjmp(jb1); b(){ setjmp(jb2); c(){ longjmp(jb1) }}} ... } -
   the calls made after the jump are shown one level too deep (witness reproduced with the real
   `uftrace replay`, see props/c11.py E2E_WITNESS_OLD_JMPBUF) *)
Definition witness_old_jmpbuf : list sev :=
  [SEntry SNormal;                  (* main   depth 0 *)
   SEntry SNormal;                  (* a      depth 1 *)
   SEntry (SSetjmp 1); SExit;       (* setjmp(jb1) depth 2 *)
   SEntry SNormal;                  (* b      depth 2 *)
   SEntry (SSetjmp 2); SExit;       (* setjmp(jb2) depth 3 *)
   SEntry SNormal;                  (* c      depth 3 *)
   SEntry (SLongjmp 1); SExit;      (* longjmp(jb1): back in a *)
   SEntry SNormal; SExit;           (* leaf called by a: true depth 2 *)
   SExit; SExit].                   (* a, main *)

Lemma replay_depth_refuted_witness :
  gt_run gt0 witness_old_jmpbuf = Some [0; 1; 2; 2; 2; 3; 3; 3; 4; 2; 2; 2; 1; 0] /\
  rp_run rp0 witness_old_jmpbuf = [0; 1; 2; 2; 2; 3; 3; 3; 4; 3; 3; 3; 2; 1] /\
  ok_replay witness_old_jmpbuf (rp_run rp0 witness_old_jmpbuf) = false.
Proof. vm_compute. auto. Qed.

Example replay_nonvacuous :
  latest_only None [SEntry SNormal; SEntry (SSetjmp 1); SExit; SEntry SNormal; SEntry (SLongjmp 1); SExit; SExit] = true
  /\ gt_run gt0 [SEntry SNormal; SEntry (SSetjmp 1); SExit; SEntry SNormal; SEntry (SLongjmp 1); SExit; SExit]
     = Some [0; 1; 1; 1; 2; 1; 0].
Proof. vm_compute. auto. Qed.
