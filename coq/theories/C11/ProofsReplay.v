(* C11, replay side: the depth fix-up of utils/fstack.c for setjmp/longjmp (after fix a7444cc). *)
From Coq Require Import NArith ZArith List Bool Lia.
Import ListNotations.
Require Import UV.Gen.Consts UV.C11.Model.
Local Open Scope N_scope.

Lemma nlist_eqb_refl : forall l, nlist_eqb l l = true.
Proof. induction l as [|x l IH]; simpl; [reflexivity|]. unfold nlist_eqb in *. simpl. rewrite N.eqb_refl, IH. reflexivity. Qed.

(* the relation between replay's state and the ground truth *)
Definition rel (p : rp) (g : gt) : Prop :=
  lj_pending p = g_pend g /\ stack_count p = display_depth p /\ setjmp_depth p = setjmp_count p /\
  (g_pend g = false -> display_depth p = Z.of_N (g_depth g)).

Lemma replay_depth_gen : forall es p g l, rel p g -> gt_run g es = Some l -> rp_run p es = l.
Proof.
  induction es as [|e es IH]; intros p g l [Hp [Hsd [Hsj Hd]]] Hrun; cbn [gt_run rp_run] in *.
  - inversion Hrun. reflexivity.
  - destruct e as [k|d].
    + unfold gt_step in Hrun. destruct (g_pend g) eqn:Egp; [discriminate|]. specialize (Hd eq_refl).
      destruct k as [|jb|jb]; unfold rp_step.
      * destruct (gt_run _ es) as [l'|] eqn:Er; [|discriminate]. inversion Hrun; subst l. clear Hrun.
        f_equal; [rewrite Hd; apply N2Z.id|]. eapply IH; [|exact Er].
        repeat split; cbn; intros; try lia; try assumption.
      * destruct (gt_run _ es) as [l'|] eqn:Er; [|discriminate]. inversion Hrun; subst l. clear Hrun.
        f_equal; [rewrite Hd; apply N2Z.id|]. eapply IH; [|exact Er].
        repeat split; cbn; intros; try lia; try assumption.
      * destruct (assoc jb (g_jb g)) as [dj|] eqn:Ea; [|discriminate].
        destruct (gt_run _ es) as [l'|] eqn:Er; [|discriminate]. inversion Hrun; subst l. clear Hrun.
        f_equal; [rewrite Hd; apply N2Z.id|]. eapply IH; [|exact Er].
        repeat split; cbn; intros; try lia; try assumption; try discriminate.
    + unfold gt_step in Hrun. destruct ((0 <? g_depth g) && (d =? g_depth g - 1)) eqn:Eg; [|discriminate].
      apply andb_prop in Eg. destruct Eg as [Epos Ed]. apply N.ltb_lt in Epos. apply N.eqb_eq in Ed.
      destruct (gt_run _ es) as [l'|] eqn:Er; [|discriminate]. inversion Hrun; subst l. clear Hrun.
      unfold rp_step. cbv zeta.
      (* the value of display_depth after the resynchronisation and the decrement is d *)
      assert (Hdd : (let diff := if lj_pending p then (stack_count p - 1 - Z.of_N d)%Z else 0%Z in
                     let dd1 := if (diff =? 0)%Z then display_depth p else Z.max 0 (display_depth p - diff) in
                     let sc1 := (stack_count p - diff)%Z in
                     dd1 = Z.of_N d + 1 /\ sc1 = Z.of_N d + 1)%Z).
      { cbv zeta. destruct (lj_pending p) eqn:Elp.
        - destruct (stack_count p - 1 - Z.of_N d =? 0)%Z eqn:Ez; [apply Z.eqb_eq in Ez|apply Z.eqb_neq in Ez]; lia.
        - assert (Hgp : g_pend g = false) by congruence. specialize (Hd Hgp). cbn. lia. }
      cbv zeta in Hdd. destruct Hdd as [H1 H2]. rewrite H1, H2.
      assert (E1 : (0 <? Z.of_N d + 1)%Z = true) by (apply Z.ltb_lt; lia). rewrite E1.
      replace (Z.of_N d + 1 - 1)%Z with (Z.of_N d) by lia.
      f_equal; [rewrite N2Z.id; lia|]. eapply IH; [|exact Er].
      repeat split; cbn; intros; try lia; try assumption.
Qed.

(* for EVERY faithful record stream - any number of jmp_bufs, longjmp to any of them, nested to any
   depth - replay shows every record at its true depth *)
Theorem replay_depth_all_streams : forall es l, gt_run gt0 es = Some l -> rp_run rp0 es = l.
Proof. intros es l H. eapply replay_depth_gen; [|exact H]. repeat split; cbn; auto. Qed.

Corollary replay_checker_accepts : forall es, gt_run gt0 es <> None -> ok_replay es (rp_run rp0 es) = true.
Proof.
  intros es H. unfold ok_replay. destruct (gt_run gt0 es) as [l|] eqn:E; [|congruence].
  rewrite (replay_depth_all_streams es l E). apply nlist_eqb_refl.
Qed.

(* non-vacuity, and the regression witness of the defect repaired by a7444cc:
   main(){ a(){ setjmp(jb1); b(){ setjmp(jb2); c(){ longjmp(jb1) }}} ... } *)
Definition witness_old_jmpbuf : list sev :=
  [SEntry SNormal;                  (* main   depth 0 *)
   SEntry SNormal;                  (* a      depth 1 *)
   SEntry (SSetjmp 1); SExit 2;     (* setjmp(jb1) depth 2 *)
   SEntry SNormal;                  (* b      depth 2 *)
   SEntry (SSetjmp 2); SExit 3;     (* setjmp(jb2) depth 3 *)
   SEntry SNormal;                  (* c      depth 3 *)
   SEntry (SLongjmp 1); SExit 2;    (* longjmp(jb1): back in a *)
   SEntry SNormal; SExit 2;         (* leaf called by a: true depth 2 *)
   SExit 1; SExit 0].               (* a, main *)

Example replay_older_jmpbuf_now_right :
  gt_run gt0 witness_old_jmpbuf = Some [0; 1; 2; 2; 2; 3; 3; 3; 4; 2; 2; 2; 1; 0] /\
  rp_run rp0 witness_old_jmpbuf = [0; 1; 2; 2; 2; 3; 3; 3; 4; 2; 2; 2; 1; 0] /\
  ok_replay witness_old_jmpbuf (rp_run rp0 witness_old_jmpbuf) = true.
Proof. vm_compute. auto. Qed.
