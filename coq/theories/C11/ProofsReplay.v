(* C11, replay side: the depth fix-up of utils/fstack.c for setjmp/longjmp (after fix a7444cc). *)
From Coq Require Import NArith ZArith List Bool Lia.
Import ListNotations.
Require Import UV.Gen.Consts UV.C11.Model.
Local Open Scope N_scope.

Lemma nlist_eqb_refl : forall l, nlist_eqb l l = true.
Proof. induction l as [|x l IH]; simpl; [reflexivity|]. unfold nlist_eqb in *. simpl. rewrite N.eqb_refl, IH. reflexivity. Qed.

(* the relation between replay's state and the ground truth *)
Definition rel (p : rp) (g : gt) : Prop :=
  lj_pending p = g_pend g /\ stack_count p = display_depth p /\ setjmp_depth p = setjmp_count p /\
  (g_pend g = false -> display_depth p = Z.of_N (g_depth g)).

Lemma replay_depth_gen : forall es p g l, rel p g -> gt_run g es = Some l -> rp_run p es = l.
Proof.
  induction es as [|e es IH]; intros p g l [Hp [Hsd [Hsj Hd]]] Hrun; cbn [gt_run rp_run] in *.
  - inversion Hrun. reflexivity.
  - destruct e as [k|d].
    + unfold gt_step in Hrun. destruct (g_pend g) eqn:Egp; [discriminate|]. specialize (Hd eq_refl).
      destruct k as [|jb|jb]; unfold rp_step.
      * destruct (gt_run _ es) as [l'|] eqn:Er; [|discriminate]. inversion Hrun; subst l. clear Hrun.
        f_equal; [rewrite Hd; apply N2Z.id|]. eapply IH; [|exact Er].
        repeat split; cbn; intros; try lia; try assumption.
      * destruct (gt_run _ es) as [l'|] eqn:Er; [|discriminate]. inversion Hrun; subst l. clear Hrun.
        f_equal; [rewrite Hd; apply N2Z.id|]. eapply IH; [|exact Er].
        repeat split; cbn; intros; try lia; try assumption.
      * destruct (assoc jb (g_jb g)) as [dj|] eqn:Ea; [|discriminate].
        destruct (gt_run _ es) as [l'|] eqn:Er; [|discriminate]. inversion Hrun; subst l. clear Hrun.
        f_equal; [rewrite Hd; apply N2Z.id|]. eapply IH; [|exact Er].
        repeat split; cbn; intros; try lia; try assumption; try discriminate.
    + unfold gt_step in Hrun. destruct ((0 <? g_depth g) && (d =? g_depth g - 1)) eqn:Eg; [|discriminate].
      apply andb_prop in Eg. destruct Eg as [Epos Ed]. apply N.ltb_lt in Epos. apply N.eqb_eq in Ed.
      destruct (gt_run _ es) as [l'|] eqn:Er; [|discriminate]. inversion Hrun; subst l. clear Hrun.
      unfold rp_step. cbv zeta.
      (* the value of display_depth after the resynchronisation and the decrement is d *)
      assert (Hdd : (let diff := if lj_pending p then (stack_count p - 1 - Z.of_N d)%Z else 0%Z in
                     let dd1 := if (diff =? 0)%Z then display_depth p else Z.max 0 (display_depth p - diff) in
                     let sc1 := (stack_count p - diff)%Z in
                     dd1 = Z.of_N d + 1 /\ sc1 = Z.of_N d + 1)%Z).
      { cbv zeta. destruct (lj_pending p) eqn:Elp.
        - destruct (stack_count p - 1 - Z.of_N d =? 0)%Z eqn:Ez; [apply Z.eqb_eq in Ez|apply Z.eqb_neq in Ez]; lia.
        - assert (Hgp : g_pend g = false) by congruence. specialize (Hd Hgp). cbn. lia. }
      cbv zeta in Hdd. destruct Hdd as [H1 H2]. rewrite H1, H2.
      assert (E1 : (0 <? Z.of_N d + 1)%Z = true) by (apply Z.ltb_lt; lia). rewrite E1.
      replace (Z.of_N d + 1 - 1)%Z with (Z.of_N d) by lia.
      f_equal; [rewrite N2Z.id; lia|]. eapply IH; [|exact Er].
      repeat split; cbn; intros; try lia; try assumption.
Qed.

(* for EVERY faithful record stream - any number of jmp_bufs, longjmp to any of them, nested to any
   depth - replay shows every record at its true depth *)
Theorem replay_depth_all_streams : forall es l, gt_run gt0 es = Some l -> rp_run rp0 es = l.
Proof. intros es l H. eapply replay_depth_gen; [|exact H]. repeat split; cbn; auto. Qed.

Corollary replay_checker_accepts : forall es, gt_run gt0 es <> None -> ok_replay es (rp_run rp0 es) = true.
Proof.
  intros es H. unfold ok_replay. destruct (gt_run gt0 es) as [l|] eqn:E; [|congruence].
  rewrite (replay_depth_all_streams es l E). apply nlist_eqb_refl.
Qed.

(* non-vacuity, and the regression witness of the defect repaired by a7444cc:
   main(){ a(){ setjmp(jb1); b(){ setjmp(jb2); c(){ longjmp(jb1) }}} ... } *)
Definition witness_old_jmpbuf : list sev :=
  [SEntry SNormal;                  (* main   depth 0 *)
   SEntry SNormal;                  (* a      depth 1 *)
   SEntry (SSetjmp 1); SExit 2;     (* setjmp(jb1) depth 2 *)
   SEntry SNormal;                  (* b      depth 2 *)
   SEntry (SSetjmp 2); SExit 3;     (* setjmp(jb2) depth 3 *)
   SEntry SNormal;                  (* c      depth 3 *)
   SEntry (SLongjmp 1); SExit 2;    (* longjmp(jb1): back in a *)
   SEntry SNormal; SExit 2;         (* leaf called by a: true depth 2 *)
   SExit 1; SExit 0].               (* a, main *)

Example replay_older_jmpbuf_now_right :
  gt_run gt0 witness_old_jmpbuf = Some [0; 1; 2; 2; 2; 3; 3; 3; 4; 2; 2; 2; 1; 0] /\
  rp_run rp0 witness_old_jmpbuf = [0; 1; 2; 2; 2; 3; 3; 3; 4; 2; 2; 2; 1; 0] /\
  ok_replay witness_old_jmpbuf (rp_run rp0 witness_old_jmpbuf) = true.
Proof. vm_compute. auto. Qed.

(* ================================================================ several tasks sharing the two statics *)
(* one step: whatever the statics hold - they need only be equal to each other, which every writer ensures -
   the record is shown at its true depth and the relation is kept *)
Lemma rp_step_rel : forall p g e g' d, rel p g -> gt_step g e = Some (g', d) ->
  snd (rp_step p e) = d /\ rel (fst (rp_step p e)) g'.
Proof.
  intros p g e g' d [Hp [Hsd [Hsj Hd]]] Hstep. destruct e as [k|dx].
  - unfold gt_step in Hstep. destruct (g_pend g) eqn:Egp; [discriminate|]. specialize (Hd eq_refl).
    destruct k as [|jb|jb]; unfold rp_step.
    + inversion Hstep; subst. cbn [fst snd]. split; [rewrite Hd; apply N2Z.id|].
      repeat split; cbn; intros; try lia; try assumption.
    + inversion Hstep; subst. cbn [fst snd]. split; [rewrite Hd; apply N2Z.id|].
      repeat split; cbn; intros; try lia; try assumption.
    + destruct (assoc jb (g_jb g)) as [dj|] eqn:Ea; [|discriminate]. inversion Hstep; subst. cbn [fst snd].
      split; [rewrite Hd; apply N2Z.id|].
      repeat split; cbn; intros; try lia; try assumption; try discriminate.
  - unfold gt_step in Hstep. destruct ((0 <? g_depth g) && (dx =? g_depth g - 1)) eqn:Eg; [|discriminate].
    apply andb_prop in Eg. destruct Eg as [Epos Ed]. apply N.ltb_lt in Epos. apply N.eqb_eq in Ed.
    inversion Hstep; subst g' d. clear Hstep.
    unfold rp_step. cbv zeta.
    assert (Hdd : (let diff := if lj_pending p then (stack_count p - 1 - Z.of_N dx)%Z else 0%Z in
                   let dd1 := if (diff =? 0)%Z then display_depth p else Z.max 0 (display_depth p - diff) in
                   let sc1 := (stack_count p - diff)%Z in
                   dd1 = Z.of_N dx + 1 /\ sc1 = Z.of_N dx + 1)%Z).
    { cbv zeta. destruct (lj_pending p) eqn:Elp.
      - destruct (stack_count p - 1 - Z.of_N dx =? 0)%Z eqn:Ez; [apply Z.eqb_eq in Ez|apply Z.eqb_neq in Ez]; lia.
      - assert (Hgp : g_pend g = false) by congruence. specialize (Hd Hgp). cbn. lia. }
    cbv zeta in Hdd. destruct Hdd as [H1 H2]. rewrite H1, H2.
    assert (E1 : (0 <? Z.of_N dx + 1)%Z = true) by (apply Z.ltb_lt; lia). rewrite E1.
    replace (Z.of_N dx + 1 - 1)%Z with (Z.of_N dx) by lia. cbn [fst snd].
    split; [rewrite N2Z.id; lia|].
    repeat split; cbn; intros; try lia; try assumption.
Qed.

(* the part of rel that concerns the task only *)
Definition trel (k : tk) (g : gt) : Prop :=
  k_pend k = g_pend g /\ k_sc k = k_dd k /\ (g_pend g = false -> k_dd k = Z.of_N (g_depth g)).
Lemma rel_view : forall s t g, rel (view s t) g <-> (trel (m_task s t) g /\ m_sd s = m_sc s).
Proof. intros s t g. unfold rel, trel, view. cbn. tauto. Qed.

Definition minv (s : rpm) (g : N -> gt) : Prop := m_sd s = m_sc s /\ forall t, trel (m_task s t) (g t).

Lemma rpm_step_inv : forall s g t e g' d, minv s g -> gt_step (g t) e = Some (g', d) ->
  snd (rpm_step s t e) = d /\ minv (fst (rpm_step s t e)) (fun x => if x =? t then g' else g x).
Proof.
  intros s g t e g' d [Hst Hall] Hstep.
  assert (Hrel : rel (view s t) (g t)) by (apply rel_view; split; [apply Hall|exact Hst]).
  destruct (rp_step_rel _ _ _ _ _ Hrel Hstep) as [Hd Hrel'].
  unfold rpm_step. cbn [fst snd]. split; [exact Hd|].
  destruct Hrel' as [R1 [R2 [R3 R4]]].
  split; cbn [m_sd m_sc m_task]; [exact R3|].
  intro u. destruct (u =? t) eqn:Eu.
  - unfold trel. cbn. repeat split; assumption.
  - apply Hall.
Qed.

Lemma replay_tasks_gen : forall es s g l, minv s g -> gtm_run g es = Some l -> rpm_run s es = l.
Proof.
  induction es as [|[t e] es IH]; intros s g l Hinv Hrun; cbn [gtm_run rpm_run] in *.
  - inversion Hrun. reflexivity.
  - destruct (gt_step (g t) e) as [[g' d]|] eqn:Es; [|discriminate].
    destruct (gtm_run _ es) as [l'|] eqn:Er; [|discriminate]. inversion Hrun; subst l. clear Hrun.
    destruct (rpm_step_inv _ _ _ _ _ _ Hinv Es) as [Hd Hinv'].
    f_equal; [exact Hd|]. eapply IH; [exact Hinv'|exact Er].
Qed.

(* for EVERY merged stream of any number of tasks in which every task's own records are faithful, replay shows
   every record at its true depth - although the "latest setjmp" it guesses at a longjmp may be another task's *)
Theorem replay_depth_all_tasks : forall es l, gtm_run (fun _ => gt0) es = Some l -> rpm_run rpm0 es = l.
Proof.
  intros es l H. eapply replay_tasks_gen; [|exact H].
  split; [reflexivity|]. intro t. unfold trel. cbn. repeat split; auto.
Qed.

(* non-vacuity: task 1 sets its jmp_buf at depth 4, task 2 then calls setjmp at depth 2, task 1 jumps: the guess
   is task 2's depth (too shallow by 2) and the EXIT record of task 1's setjmp puts it right.  With the
   resynchronisation restricted to guesses that are too deep the calls after the jump are misplaced. *)
Definition witness_cross_task : list (N * sev) :=
  [(1, SEntry SNormal); (1, SEntry SNormal); (1, SEntry SNormal); (1, SEntry SNormal);   (* thread_a a1 a2 a3 *)
   (1, SEntry (SSetjmp 1)); (1, SExit 4);                                                 (* setjmp depth 4 *)
   (2, SEntry SNormal); (2, SEntry SNormal);                                              (* thread_b b1 *)
   (2, SEntry (SSetjmp 2)); (2, SExit 2);                                                 (* setjmp depth 2 *)
   (2, SExit 1); (2, SExit 0);
   (1, SEntry SNormal); (1, SEntry SNormal);                                              (* a_mid a_leaf *)
   (1, SEntry (SLongjmp 1)); (1, SExit 4);                                                (* longjmp; setjmp returns again *)
   (1, SEntry SNormal); (1, SExit 4);                                                     (* after_jump: true depth 4 *)
   (1, SExit 3); (1, SExit 2); (1, SExit 1); (1, SExit 0)].
Example replay_cross_task_right :
  gtm_run (fun _ => gt0) witness_cross_task = Some [0; 1; 2; 3; 4; 4; 0; 1; 2; 2; 1; 0; 4; 5; 6; 4; 4; 4; 3; 2; 1; 0] /\
  rpm_run rpm0 witness_cross_task = [0; 1; 2; 3; 4; 4; 0; 1; 2; 2; 1; 0; 4; 5; 6; 4; 4; 4; 3; 2; 1; 0] /\
  rpm_run_with rp_step_shrink_only rpm0 witness_cross_task
    = [0; 1; 2; 3; 4; 4; 0; 1; 2; 2; 1; 0; 4; 5; 6; 2; 2; 2; 1; 0; 0; 0].
Proof. vm_compute. auto. Qed.

(* ================================================================ GOT slots of abandoned library calls (Model Part 1d) *)
Lemma rearm_range_false : forall s n from got y, rearm_range s from n got y = false ->
  got y = false /\ forall i, from <= i < from + N.of_nat n -> g_arr s i <> Some y.
Proof.
  intros s n. induction n as [|k IH]; intros from got y H; cbn [rearm_range] in H.
  - split; [exact H|]. intros i Hi. lia.
  - destruct (IH _ _ _ H) as [H1 H2]. unfold rearm in H1.
    assert (Hgot : got y = false /\ g_arr s from <> Some y).
    { destruct (g_arr s from) as [y'|] eqn:E.
      - destruct (y =? y') eqn:Ey; [discriminate|]. split; [exact H1|]. intro C. inversion C; subst. rewrite N.eqb_refl in Ey. discriminate.
      - split; [exact H1|discriminate]. }
    destruct Hgot as [G1 G2]. split; [exact G1|]. intros i Hi.
    destruct (N.eq_dec i from) as [->|Hne]; [exact G2|]. apply H2. lia.
Qed.

Lemma g_entry_inv : forall s sym, ginv s -> ginv (g_entry s sym).
Proof.
  intros s sym H y Hy. unfold g_entry in *. cbn [g_got g_idx g_arr] in *.
  assert (Hc : (sym = Some y) \/ g_got s y = false).
  { destruct sym as [y'|]; [|right; exact Hy]. destruct (y =? y') eqn:E; [left; apply N.eqb_eq in E; subst; reflexivity|right; exact Hy]. }
  destruct Hc as [->|Hc].
  - exists (g_idx s). split; [lia|]. rewrite N.eqb_refl. reflexivity.
  - destruct (H y Hc) as [i [Hi Ha]]. exists i. split; [lia|].
    destruct (i =? g_idx s) eqn:E; [apply N.eqb_eq in E; lia|exact Ha].
Qed.

Lemma g_exit_inv : forall s, 0 < g_idx s -> ginv s -> ginv (g_exit s).
Proof.
  intros s Hpos H y Hy. unfold g_exit in *. cbn [g_got g_idx g_arr] in *.
  destruct (rearm_range_false s 1 (g_idx s - 1) (g_got s) y) as [H1 H2]; [cbn [rearm_range]; exact Hy|].
  destruct (H y H1) as [i [Hi Ha]]. exists i. split; [|exact Ha].
  destruct (N.eq_dec i (g_idx s - 1)) as [->|Hne]; [|lia].
  exfalso. apply (H2 (g_idx s - 1)); [lia|exact Ha].
Qed.

(* after a longjmp every GOT slot of an abandoned library call - the entries from the slot the setjmp entry had up to
   the longjmp itself - points to the hook again ... *)
Lemma rearm_range_true : forall s n from got i y, from <= i < from + N.of_nat n -> g_arr s i = Some y ->
  rearm_range s from n got y = true.
Proof.
  intros s n. induction n as [|k IH]; intros from got i y Hi Ha; [lia|]. cbn [rearm_range].
  destruct (N.eq_dec i from) as [->|Hne].
  - destruct (rearm_range s (from + 1) k (rearm s from got) y) eqn:E; [reflexivity|].
    destruct (rearm_range_false _ _ _ _ _ E) as [E1 _]. unfold rearm in E1. rewrite Ha, N.eqb_refl in E1. discriminate.
  - apply (IH (from + 1) _ i y); [lia|exact Ha].
Qed.
Theorem longjmp_rearms_abandoned : forall s count i y, 0 < count -> count <= g_idx s ->
  count - 1 <= i < g_idx s -> g_arr s i = Some y -> g_got (g_longjmp first_fixed s count) y = true.
Proof.
  intros s count i y Hc Hle Hi Ha. unfold g_longjmp, first_fixed. cbn [g_got].
  apply (rearm_range_true s _ (count - 1) _ i y); [|exact Ha]. rewrite N2Nat.id. lia.
Qed.
(* ... and no slot is left pointing past the hook without a live call that will put it back *)
Theorem longjmp_keeps_got_invariant : forall s count, 0 < count -> count <= g_idx s -> ginv s ->
  ginv (g_longjmp first_fixed s count).
Proof.
  intros s count Hc Hle H y Hy. unfold g_longjmp, first_fixed in *. cbn [g_got g_idx g_arr] in *.
  destruct (rearm_range_false _ _ _ _ _ Hy) as [H1 H2]. rewrite N2Nat.id in H2.
  destruct (H y H1) as [i [Hi Ha]]. exists i. split; [|exact Ha].
  destruct (N.lt_ge_cases i (count - 1)) as [Hlt|Hge]; [exact Hlt|].
  exfalso. apply (H2 i); [lia|exact Ha].
Qed.

(* non-vacuity and the code as found: main, sorted, [setjmp popped] qsort (first call: slot resolved), cmp, longjmp *)
Definition witness_first_libcall : gst :=
  g_entry (g_entry (g_entry (g_entry (g_entry {| g_arr := fun _ => None; g_idx := 0; g_got := fun _ => true |} None) None)
                            (Some 1)) None) (Some 2).
Example first_libcall_left_by_longjmp :
  g_got witness_first_libcall 1 = false /\
  g_got (g_longjmp first_fixed witness_first_libcall 3) 1 = true /\
  g_got (g_longjmp first_legacy witness_first_libcall 3) 1 = false /\
  g_idx (g_longjmp first_fixed witness_first_libcall 3) = 2.
Proof. vm_compute. auto. Qed.
