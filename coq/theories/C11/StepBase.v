(* C11: basic facts about the model's functions, phrased on the projection (parent_loc, parent_ip, kind)
   of the shadow stack. *)
From Coq Require Import NArith List Bool Lia.
Import ListNotations.
Require Import UV.Gen.Consts UV.C11.Model.
Local Open Scope N_scope.

Definition pent := (N * val * bool)%type.
Definition proj (e : ent) : pent := (e_loc e, e_ip e, e_plt e).
Definition p_loc (x : pent) : N := fst (fst x).
Definition p_ip (x : pent) : val := snd (fst x).
Definition p_plt (x : pent) : bool := snd x.

(* ---------------------------------------------------------------- memory *)
Lemma upd_same : forall mm a v, upd mm a v a = v.
Proof. intros. unfold upd. rewrite N.eqb_refl. reflexivity. Qed.
Lemma upd_other : forall mm a v x, x <> a -> upd mm a v x = mm x.
Proof. intros mm a v x H. unfold upd. destruct (x =? a) eqn:E; [apply N.eqb_eq in E; contradiction|reflexivity]. Qed.

Lemma tramp_of_is_tramp : forall b, is_tramp (tramp_of b) = true.
Proof. destruct b; reflexivity. Qed.
Lemma valid_ra_not_tramp : forall r, valid_ra r = true -> is_tramp r = false.
Proof.
  intros r H. unfold valid_ra in H. apply andb_prop in H. destruct H as [_ H]. apply N.ltb_lt in H.
  unfold is_tramp, MRET, PRET. destruct (r =? 4294967297) eqn:E1; [apply N.eqb_eq in E1; lia|].
  destruct (r =? 4294967298) eqn:E2; [apply N.eqb_eq in E2; lia|]. reflexivity.
Qed.
Lemma tramp_of_inj_MRET : forall b, (tramp_of b =? MRET) = negb b.
Proof. destruct b; reflexivity. Qed.

(* ---------------------------------------------------------------- projections of the helpers *)
Lemma proj_set_written : forall e, proj (set_written e) = proj e. Proof. reflexivity. Qed.
Lemma proj_set_end : forall e t, proj (set_end e t) = proj e. Proof. reflexivity. Qed.
Lemma proj_set_lj : forall e b, proj (set_lj e b) = proj e. Proof. reflexivity. Qed.

Lemma map_proj_set_written : forall l, map proj (map set_written l) = map proj l.
Proof. induction l as [|e r IH]; simpl; [reflexivity|]. rewrite IH. reflexivity. Qed.

Lemma flush_anc_proj : forall anc, map proj (fst (flush_anc anc)) = map proj anc.
Proof.
  induction anc as [|p r IH]; simpl; [reflexivity|].
  destruct (e_written p); [reflexivity|].
  destruct (flush_anc r) as [r' recs]. simpl in *. rewrite IH. reflexivity.
Qed.

Lemma rtd_proj : forall top anc, let '(top', anc', _) := rtd top anc in
  proj top' = proj top /\ map proj anc' = map proj anc.
Proof.
  intros top anc. unfold rtd. destruct (e_written top).
  - split; reflexivity.
  - pose proof (flush_anc_proj anc) as H. destruct (flush_anc anc) as [anc' pre]. simpl in H. split; [reflexivity|exact H].
Qed.

(* functions that only look at the projection *)
Fixpoint restore_all_p (l : list pent) (mm : mem) : mem :=
  match l with
  | [] => mm
  | x :: r => restore_all_p r (if is_tramp (p_ip x) then mm else upd mm (p_loc x) (p_ip x))
  end.
Fixpoint rehook_all_p (l : list pent) (mm : mem) : mem :=
  match l with
  | [] => mm
  | x :: r => rehook_all_p r (upd mm (p_loc x) (tramp_of (p_plt x)))
  end.
Fixpoint restore_first_p (l : list pent) (mm : mem) : mem :=
  match l with
  | [] => mm
  | x :: r => if is_tramp (p_ip x) then restore_first_p r mm else upd mm (p_loc x) (p_ip x)
  end.

Lemma restore_all_proj : forall l mm, restore_all l mm = restore_all_p (map proj l) mm.
Proof. induction l as [|e r IH]; intros mm; simpl; [reflexivity|]. rewrite IH. reflexivity. Qed.
Lemma rehook_from_proj : forall l mm, rehook_from l mm = rehook_all_p (map proj l) mm.
Proof. induction l as [|e r IH]; intros mm; simpl; [reflexivity|]. rewrite IH. reflexivity. Qed.
Lemma rehook_all_proj : forall l mm, rehook_all l mm = rehook_all_p (rev (map proj l)) mm.
Proof. intros. unfold rehook_all. rewrite rehook_from_proj, map_rev. reflexivity. Qed.
Lemma restore_first_proj : forall l mm, restore_first l mm = restore_first_p (map proj l) mm.
Proof. induction l as [|e r IH]; intros mm; simpl; [reflexivity|]. unfold p_ip, p_loc; simpl. rewrite IH. reflexivity. Qed.

Lemma restore_all_p_app : forall a b mm, restore_all_p (a ++ b) mm = restore_all_p b (restore_all_p a mm).
Proof. induction a as [|x a IH]; intros b mm; simpl; [reflexivity|]. apply IH. Qed.
Lemma rehook_all_p_app : forall a b mm, rehook_all_p (a ++ b) mm = rehook_all_p b (rehook_all_p a mm).
Proof. induction a as [|x a IH]; intros b mm; simpl; [reflexivity|]. apply IH. Qed.

Lemma restore_all_p_other : forall l mm a, (forall x, In x l -> p_loc x <> a) -> restore_all_p l mm a = mm a.
Proof.
  induction l as [|x r IH]; intros mm a H; simpl; [reflexivity|].
  rewrite IH by (intros y Hy; apply H; right; exact Hy).
  destruct (is_tramp (p_ip x)); [reflexivity|]. apply upd_other. intro E. apply (H x); [left; reflexivity|auto].
Qed.
Lemma rehook_all_p_other : forall l mm a, (forall x, In x l -> p_loc x <> a) -> rehook_all_p l mm a = mm a.
Proof.
  induction l as [|x r IH]; intros mm a H; simpl; [reflexivity|].
  rewrite IH by (intros y Hy; apply H; right; exact Hy).
  apply upd_other. intro E. apply (H x); [left; reflexivity|auto].
Qed.

(* ---------------------------------------------------------------- the shadow of the real stack *)
Fixpoint chain (slot : N) (ra : val) (pend : list bool) : list pent :=
  match pend with
  | [] => []
  | k :: rest => (slot, match rest with [] => ra | k' :: _ => tramp_of k' end, k) :: chain slot ra rest
  end.
Definition ents_of (f : rframe) : list pent := chain (f_slot f) (f_ra f) (f_pend f).
Definition shadow (F : list rframe) : list pent := flat_map ents_of F.

Lemma chain_loc : forall slot ra pend x, In x (chain slot ra pend) -> p_loc x = slot.
Proof.
  induction pend as [|k r IH]; intros x H; simpl in H; [contradiction|].
  destruct H as [H|H]; [subst; reflexivity|auto].
Qed.
Lemma chain_length : forall slot ra pend, length (chain slot ra pend) = length pend.
Proof. induction pend; simpl; auto. Qed.

(* (chains may mix PLT and mcount entries since mcount_rstack_rehook walks oldest-first, /repo fix C01-9) *)
Definition homog (pend : list bool) : Prop := True.
Definition fvalid (f : rframe) : Prop := valid_ra (f_ra f) = true /\ homog (f_pend f).

Definition lt_all (x : N) (F : list rframe) : Prop := Forall (fun g => x < f_slot g) F.
Fixpoint sorted (F : list rframe) : Prop :=
  match F with [] => True | f :: r => lt_all (f_slot f) r /\ sorted r end.

Lemma below_top_lt_all : forall F x, sorted F -> below_top F x = true -> lt_all x F.
Proof.
  intros F x Hs Hb. destruct F as [|f r]; [constructor|]. simpl in Hb. apply N.ltb_lt in Hb.
  destruct Hs as [H1 _]. constructor; [exact Hb|]. unfold lt_all in *. eapply Forall_impl; [|exact H1].
  simpl. intros g Hg. lia.
Qed.
Lemma lt_all_below_top : forall F x, lt_all x F -> below_top F x = true.
Proof. intros F x H. destruct F as [|f r]; [reflexivity|]. inversion H; subst. simpl. apply N.ltb_lt. assumption. Qed.

Lemma shadow_loc_gt : forall F x y, lt_all x F -> In y (shadow F) -> x < p_loc y.
Proof.
  induction F as [|f r IH]; intros x y H Hy; simpl in Hy; [contradiction|].
  inversion H; subst. apply in_app_or in Hy. destruct Hy as [Hy|Hy].
  - apply chain_loc in Hy. rewrite Hy. assumption.
  - eapply IH; eauto.
Qed.
Lemma shadow_loc_ne : forall F x y, lt_all x F -> In y (shadow F) -> p_loc y <> x.
Proof. intros F x y H Hy. pose proof (shadow_loc_gt F x y H Hy). lia. Qed.

(* ---------------------------------------------------------------- memory shapes *)
Definition slot_hooked (mm : mem) (f : rframe) : Prop :=
  match f_pend f with [] => mm (f_slot f) = f_ra f | k :: _ => mm (f_slot f) = tramp_of k end.
Definition slot_either (mm : mem) (f : rframe) : Prop :=
  match f_pend f with [] => mm (f_slot f) = f_ra f | k :: _ => mm (f_slot f) = tramp_of k \/ mm (f_slot f) = f_ra f end.
Definition slot_real (mm : mem) (f : rframe) : Prop := mm (f_slot f) = f_ra f.

Definition mem_hooked mm F := Forall (slot_hooked mm) F.
Definition mem_rest mm F := Forall (slot_either mm) F.
Definition mem_exc mm F := Forall (slot_real mm) F.
Fixpoint mem_top (mm : mem) (F : list rframe) : Prop :=
  match F with
  | [] => True
  | f :: r => match f_pend f with
              | [] => mm (f_slot f) = f_ra f /\ mem_top mm r
              | k :: _ => mm (f_slot f) = tramp_of k /\ mem_rest mm r
              end
  end.

Lemma slot_hooked_either : forall mm f, slot_hooked mm f -> slot_either mm f.
Proof. unfold slot_hooked, slot_either. intros mm f. destruct (f_pend f); auto. Qed.
Lemma slot_real_either : forall mm f, slot_real mm f -> slot_either mm f.
Proof. unfold slot_real, slot_either. intros mm f. destruct (f_pend f); auto. Qed.
Lemma mem_hooked_rest : forall mm F, mem_hooked mm F -> mem_rest mm F.
Proof. intros. eapply Forall_impl; [|eassumption]. apply slot_hooked_either. Qed.
Lemma mem_exc_rest : forall mm F, mem_exc mm F -> mem_rest mm F.
Proof. intros. eapply Forall_impl; [|eassumption]. apply slot_real_either. Qed.
Lemma mem_top_rest : forall mm F, mem_top mm F -> mem_rest mm F.
Proof.
  induction F as [|f r IH]; intros H; [constructor|]. simpl in H. unfold mem_rest.
  destruct (f_pend f) eqn:E; destruct H as [H1 H2]; constructor.
  - unfold slot_either; rewrite E; auto.
  - apply IH; exact H2.
  - unfold slot_either; rewrite E; auto.
  - exact H2.
Qed.
Lemma mem_hooked_top : forall mm F, mem_hooked mm F -> mem_top mm F.
Proof.
  induction F as [|f r IH]; intros H; [exact I|]. inversion H; subst. simpl. unfold slot_hooked in *.
  destruct (f_pend f); split; auto. apply mem_hooked_rest. assumption.
Qed.

(* a write below every live slot does not disturb them *)
Lemma Forall_upd_below : forall (P : mem -> rframe -> Prop) mm F a v,
  (forall mm1 mm2 f, mm1 (f_slot f) = mm2 (f_slot f) -> P mm1 f -> P mm2 f) ->
  lt_all a F -> Forall (P mm) F -> Forall (P (upd mm a v)) F.
Proof.
  intros P mm F a v Hext Hlt H. induction H as [|f r Hf Hr IH]; [constructor|].
  inversion Hlt; subst. constructor; [|auto].
  eapply Hext; [|exact Hf]. symmetry. apply upd_other. lia.
Qed.
Lemma slot_hooked_ext : forall mm1 mm2 f, mm1 (f_slot f) = mm2 (f_slot f) -> slot_hooked mm1 f -> slot_hooked mm2 f.
Proof. unfold slot_hooked. intros mm1 mm2 f E. destruct (f_pend f); rewrite E; auto. Qed.
Lemma slot_either_ext : forall mm1 mm2 f, mm1 (f_slot f) = mm2 (f_slot f) -> slot_either mm1 f -> slot_either mm2 f.
Proof. unfold slot_either. intros mm1 mm2 f E. destruct (f_pend f); rewrite E; auto. Qed.
Lemma slot_real_ext : forall mm1 mm2 f, mm1 (f_slot f) = mm2 (f_slot f) -> slot_real mm1 f -> slot_real mm2 f.
Proof. unfold slot_real. intros mm1 mm2 f E. rewrite E; auto. Qed.

Lemma mem_rest_upd_below : forall mm F a v, lt_all a F -> mem_rest mm F -> mem_rest (upd mm a v) F.
Proof. intros. apply Forall_upd_below; auto. apply slot_either_ext. Qed.
Lemma mem_exc_upd_below : forall mm F a v, lt_all a F -> mem_exc mm F -> mem_exc (upd mm a v) F.
Proof. intros. apply Forall_upd_below; auto. apply slot_real_ext. Qed.
Lemma mem_top_upd_below : forall mm F a v, lt_all a F -> mem_top mm F -> mem_top (upd mm a v) F.
Proof.
  induction F as [|f r IH]; intros a v Hlt H; [exact I|]. inversion Hlt as [|? ? Hx Hy]; subst. simpl in *.
  destruct (f_pend f); destruct H as [Ha Hb]; (split; [rewrite upd_other by lia; exact Ha|]).
  - apply IH; assumption.
  - apply mem_rest_upd_below; assumption.
Qed.

Lemma mem_ext : forall (P : mem -> rframe -> Prop) mm1 mm2 F,
  (forall mm1 mm2 f, mm1 (f_slot f) = mm2 (f_slot f) -> P mm1 f -> P mm2 f) ->
  (forall f, In f F -> mm1 (f_slot f) = mm2 (f_slot f)) -> Forall (P mm1) F -> Forall (P mm2) F.
Proof.
  intros P mm1 mm2 F Hext Heq H. induction H as [|f r Hf Hr IH]; [constructor|].
  constructor; [eapply Hext; [apply Heq; left; reflexivity|exact Hf]|]. apply IH. intros g Hg. apply Heq. right. exact Hg.
Qed.
