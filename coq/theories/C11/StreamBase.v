(* C11: the record stream written by the model is a faithful stream for the replay ground truth -
   basic facts about record_trace_data *)
From Coq Require Import NArith List Bool Lia Arith.
Import ListNotations.
Require Import UV.Gen.Consts UV.C11.Model UV.C11.ProofsDepth.
Local Open Scope N_scope.

(* ground truth run that also returns the final state *)
Fixpoint gt_exec (g : gt) (es : list sev) : option (gt * list N) :=
  match es with
  | [] => Some (g, [])
  | e :: r => match gt_step g e with
              | None => None
              | Some (g', d) => match gt_exec g' r with None => None | Some (g'', l) => Some (g'', d :: l) end
              end
  end.
Lemma gt_exec_run : forall es g g' l, gt_exec g es = Some (g', l) -> gt_run g es = Some l.
Proof.
  induction es as [|e r IH]; intros g g' l H; simpl in *; [inversion H; reflexivity|].
  destruct (gt_step g e) as [[g1 d]|]; [|discriminate].
  destruct (gt_exec g1 r) as [[g2 l2]|] eqn:E; [|discriminate]. inversion H; subst. rewrite (IH _ _ _ E). reflexivity.
Qed.
Lemma gt_exec_app : forall a b g g1 l1 g2 l2, gt_exec g a = Some (g1, l1) -> gt_exec g1 b = Some (g2, l2) ->
  gt_exec g (a ++ b) = Some (g2, l1 ++ l2).
Proof.
  induction a as [|e r IH]; intros b g g1 l1 g2 l2 Ha Hb; simpl in *; [inversion Ha; subst; exact Hb|].
  destruct (gt_step g e) as [[g' d]|]; [|discriminate].
  destruct (gt_exec g' r) as [[g'' l'']|] eqn:E; [|discriminate]. inversion Ha; subst.
  rewrite (IH b g' g1 l'' g2 l2 E Hb). reflexivity.
Qed.

(* shape of the written flags on the shadow stack (top first) *)
Definition allw (l : list ent) : Prop := Forall (fun e => e_written e = true) l.
Fixpoint dclosed (l : list ent) : Prop :=
  match l with [] => True | e :: r => (e_written e = true -> allw r) /\ dclosed r end.
Fixpoint wcount (l : list ent) : nat :=
  match l with [] => O | e :: r => ((if e_written e then 1 else 0) + wcount r)%nat end.
Definition nolk (l : list ent) : Prop := Forall (fun e => forall a, e_kind e <> SLongjmp a) l.
Definition is_sj (a : N) (e : ent) : bool := match e_kind e with SSetjmp b => a =? b | _ => false end.
(* height of the topmost entry that is an unwritten setjmp(a) *)
Fixpoint tusj (a : N) (l : list ent) : option nat :=
  match l with
  | [] => None
  | e :: r => if negb (e_written e) && is_sj a e then Some (length r) else tusj a r
  end.

Lemma allw_wcount : forall l, allw l -> wcount l = length l.
Proof. induction l as [|e r IH]; intros H; simpl; [reflexivity|]. inversion H; subst. rewrite H2, IH by assumption. reflexivity. Qed.
Lemma allw_dclosed : forall l, allw l -> dclosed l.
Proof. induction l as [|e r IH]; intros H; simpl; [exact I|]. inversion H; subst. split; auto. Qed.
Lemma allw_tusj : forall a l, allw l -> tusj a l = None.
Proof. induction l as [|e r IH]; intros H; simpl; [reflexivity|]. inversion H; subst. rewrite H2. simpl. auto. Qed.

Lemma stream_app : forall a b, stream_of (a ++ b) = stream_of a ++ stream_of b.
Proof. intros. unfold stream_of. apply map_app. Qed.

(* ---------------------------------------------------------------- flushing the unwritten ancestors *)
Lemma flush_anc_feed : forall anc g, dclosed anc -> depths_ok anc -> nolk anc ->
  g_pend g = false -> g_depth g = N.of_nat (wcount anc) ->
  exists g', gt_exec g (stream_of (snd (flush_anc anc))) = Some (g', map r_depth (snd (flush_anc anc))) /\
    g_pend g' = false /\ g_depth g' = N.of_nat (length anc) /\ allw (fst (flush_anc anc)) /\
    (forall a, assoc a (g_jb g') = match tusj a anc with Some h => Some (N.of_nat (S h)) | None => assoc a (g_jb g) end).
Proof.
  induction anc as [|p r IH]; intros g Hdc Hd Hk Hp Hg.
  - simpl. exists g. repeat split; auto. constructor.
  - simpl in Hdc, Hd, Hg. destruct Hdc as [Hdc1 Hdc2]. destruct Hd as [Hd1 Hd2]. inversion Hk as [|? ? Hk1 Hk2]; subst.
    cbn [flush_anc]. destruct (e_written p) eqn:Ew.
    + specialize (Hdc1 eq_refl). exists g. rewrite (allw_wcount r Hdc1) in Hg. cbn [fst snd stream_of map].
      split; [reflexivity|]. split; [exact Hp|]. split; [rewrite Hg; reflexivity|]. split; [constructor; assumption|].
      intros a. cbn [tusj]. rewrite Ew. cbn [negb andb]. rewrite (allw_tusj a r Hdc1). reflexivity.
    + cbn [Nat.add] in Hg. destruct (IH g Hdc2 Hd2 Hk2 Hp Hg) as [g1 [E1 [P1 [D1 [W1 J1]]]]].
      destruct (flush_anc r) as [r' recs] eqn:Ef. cbn [fst snd] in *.
      (* the ENTRY record of p *)
      assert (Hstep : exists g2, gt_step g1 (SEntry (e_kind p)) = Some (g2, e_depth p) /\ g_pend g2 = false /\
                g_depth g2 = N.of_nat (S (length r)) /\
                (forall a, assoc a (g_jb g2) = if is_sj a p then Some (N.of_nat (S (length r))) else assoc a (g_jb g1))).
      { unfold gt_step. rewrite P1. unfold is_sj. destruct (e_kind p) as [|jb|jb] eqn:Ek.
        - eexists. split; [rewrite D1, Hd1; reflexivity|]. cbn [g_pend g_depth g_jb]. repeat split; auto. lia.
        - eexists. split; [rewrite D1, Hd1; reflexivity|]. cbn [g_pend g_depth g_jb assoc]. repeat split; auto; [lia|].
          intros a. destruct (a =? jb); [f_equal; lia|reflexivity].
        - exfalso. apply (Hk1 jb). reflexivity. }
      destruct Hstep as [g2 [S1 [S2 [S3 S4]]]].
      exists g2. split.
      * rewrite stream_app, map_app. eapply gt_exec_app; [exact E1|]. cbn [stream_of map gt_exec]. unfold sev_of. cbn [entry_rec r_ty r_kind r_depth].
        rewrite S1. reflexivity.
      * split; [exact S2|]. split; [exact S3|]. split; [constructor; [reflexivity|exact W1]|].
        intros a. rewrite S4. cbn [tusj]. rewrite Ew. cbn [negb andb]. destruct (is_sj a p); [reflexivity|]. apply J1.
Qed.

(* record_trace_data = flush of (top :: ancestors) followed by the EXIT record when end_time is set *)
Lemma rtd_flush : forall top anc, exists t' a',
  fst (flush_anc (top :: anc)) = t' :: a' /\
  rtd top anc = (t', a', snd (flush_anc (top :: anc)) ++ (if e_end t' =? 0 then [] else [exit_rec t'])) /\
  e_end t' = e_end top /\ e_depth t' = e_depth top /\ e_kind t' = e_kind top.
Proof.
  intros top anc. unfold rtd. cbn [flush_anc]. destruct (e_written top) eqn:Ew.
  - exists top, anc. cbn [fst snd]. rewrite app_nil_l. repeat split; reflexivity.
  - destruct (flush_anc anc) as [anc' pre]. exists (set_written top), anc'. cbn [fst snd].
    rewrite <- app_assoc. repeat split; reflexivity.
Qed.

Lemma flush_anc_keep : forall anc, length (fst (flush_anc anc)) = length anc /\
  (depths_ok anc -> depths_ok (fst (flush_anc anc))) /\ (nolk anc -> nolk (fst (flush_anc anc))).
Proof.
  induction anc as [|p r IH]; cbn [flush_anc].
  - cbn [fst]. split; [reflexivity|]. split; intros H; exact H.
  - destruct IH as [IH1 [IH2 IH3]]. destruct (e_written p).
    + cbn [fst]. split; [reflexivity|]. split; intros H; exact H.
    + destruct (flush_anc r) as [r' recs]. cbn [fst] in *. split; [cbn [length]; rewrite IH1; reflexivity|]. split.
      * intros H. destruct H as [H1 H2]. split; [cbn [set_written e_depth]; rewrite IH1; exact H1|auto].
      * intros H. inversion H; subst. constructor; [assumption|apply IH3; assumption].
Qed.

Lemma rtd_feed : forall top anc g, dclosed (top :: anc) -> depths_ok (top :: anc) -> nolk (top :: anc) ->
  g_pend g = false -> g_depth g = N.of_nat (wcount (top :: anc)) ->
  exists t' a' recs g', rtd top anc = (t', a', recs) /\
    gt_exec g (stream_of recs) = Some (g', map r_depth recs) /\ g_pend g' = false /\
    g_depth g' = (if e_end top =? 0 then N.of_nat (S (length anc)) else N.of_nat (length anc)) /\
    allw (t' :: a') /\ length a' = length anc /\ depths_ok a' /\ nolk a' /\
    (forall a, assoc a (g_jb g') =
       match tusj a (top :: anc) with Some h => Some (N.of_nat (S h)) | None => assoc a (g_jb g) end).
Proof.
  intros top anc g Hdc Hd Hk Hp Hg.
  destruct (rtd_flush top anc) as [t' [a' [F1 [F2 [F3 [F4 F5]]]]]].
  destruct (flush_anc_feed (top :: anc) g Hdc Hd Hk Hp Hg) as [g1 [E1 [P1 [D1 [W1 J1]]]]].
  destruct (flush_anc_keep (top :: anc)) as [K1 [K2 K3]]. rewrite F1 in *.
  assert (La : length a' = length anc) by (simpl in K1; lia).
  specialize (K2 Hd). specialize (K3 Hk). destruct K2 as [K2a K2b]. inversion K3 as [|? ? K3a K3b]; subst.
  destruct (e_end t' =? 0) eqn:Ee.
  - exists t', a'. eexists. exists g1. split; [exact F2|]. rewrite app_nil_r. rewrite <- F3, Ee. repeat split; auto. 
  - (* the EXIT record *)
    assert (Hx : gt_step g1 (SExit (e_depth t')) = Some ({| g_depth := g_depth g1 - 1; g_jb := g_jb g1; g_pend := false |}, g_depth g1 - 1)).
    { unfold gt_step. rewrite D1. cbn [length].
      assert (E1' : (0 <? N.of_nat (S (length anc))) = true) by (apply N.ltb_lt; lia).
      assert (E2' : (e_depth t' =? N.of_nat (S (length anc)) - 1) = true).
      { apply N.eqb_eq. rewrite F4. destruct Hd as [Hd1 _]. rewrite Hd1. lia. }
      rewrite E1', E2'. reflexivity. }
    exists t', a'. eexists. eexists. split; [exact F2|]. rewrite <- F3, Ee. split.
    + rewrite stream_app, map_app. eapply gt_exec_app; [exact E1|]. cbn [stream_of map gt_exec]. unfold sev_of. cbn [exit_rec r_ty r_depth].
      rewrite Hx. cbn [map r_depth exit_rec]. f_equal. f_equal. f_equal. rewrite D1, F4. destruct Hd as [Hd1 _]. rewrite Hd1. cbn [length]. lia.
    + cbn [g_pend g_depth g_jb]. repeat split; auto. rewrite D1. cbn [length]. lia.
Qed.
