(* C11: the invariant "shadow stack and real stack are in step" and its preservation *)
From Coq Require Import NArith List Bool Lia.
Import ListNotations.
Require Import UV.Gen.Consts UV.C11.Model UV.C11.StepBase UV.C11.ProofsDepth UV.C11.StepLemmas UV.C11.StepFollow.
Local Open Scope N_scope.

(* ---------------------------------------------------------------- frames, suffixes, ids *)
Lemma bools_eqb_eq : forall a b, bools_eqb a b = true -> a = b.
Proof.
  induction a as [|x a IH]; destruct b as [|y b]; simpl; intros H; try discriminate; [reflexivity|].
  apply andb_prop in H. destruct H as [H1 H2]. apply eqb_prop in H1. subst. f_equal. auto.
Qed.
Lemma bools_eqb_refl : forall a, bools_eqb a a = true.
Proof. induction a as [|x a IH]; simpl; [reflexivity|]. rewrite eqb_reflx, IH. reflexivity. Qed.
Lemma frame_eqb_eq : forall x y, frame_eqb x y = true -> x = y.
Proof.
  intros [i1 s1 r1 p1] [i2 s2 r2 p2] H. unfold frame_eqb in H. simpl in H.
  apply andb_prop in H. destruct H as [H Hp]. apply andb_prop in H. destruct H as [H Hr].
  apply andb_prop in H. destruct H as [Hi Hs].
  apply N.eqb_eq in Hi. apply N.eqb_eq in Hs. apply N.eqb_eq in Hr. apply bools_eqb_eq in Hp. subst. reflexivity.
Qed.
Lemma frame_eqb_refl : forall x, frame_eqb x x = true.
Proof. intros x. unfold frame_eqb. rewrite !N.eqb_refl, bools_eqb_refl. reflexivity. Qed.
Lemma frames_eqb_eq : forall a b, frames_eqb a b = true -> a = b.
Proof.
  induction a as [|x a IH]; destruct b as [|y b]; simpl; intros H; try discriminate; [reflexivity|].
  apply andb_prop in H. destruct H as [H1 H2]. apply frame_eqb_eq in H1. subst. f_equal. auto.
Qed.
Lemma frames_eqb_refl : forall a, frames_eqb a a = true.
Proof. induction a as [|x a IH]; simpl; [reflexivity|]. rewrite frame_eqb_refl, IH. reflexivity. Qed.

Lemma is_suffix_app : forall cur saved, is_suffix saved cur = true -> exists pre, cur = pre ++ saved.
Proof.
  induction cur as [|c cur IH]; intros saved H.
  - simpl in H. rewrite orb_false_r in H. apply frames_eqb_eq in H. subst. exists []. reflexivity.
  - simpl in H. apply orb_prop in H. destruct H as [H|H].
    + apply frames_eqb_eq in H. subst. exists []. reflexivity.
    + destruct (IH saved H) as [pre Hp]. exists (c :: pre). simpl. rewrite Hp. reflexivity.
Qed.
Lemma is_suffix_of_app : forall pre saved, is_suffix saved (pre ++ saved) = true.
Proof.
  induction pre as [|c pre IH]; intros saved; simpl.
  - destruct saved; simpl; [reflexivity|]. rewrite frame_eqb_refl, frames_eqb_refl. reflexivity.
  - rewrite IH. apply orb_true_r.
Qed.
Lemma is_suffix_refl : forall F, is_suffix F F = true.
Proof. intros F. apply (is_suffix_of_app [] F). Qed.
Lemma is_suffix_cons : forall saved f F, is_suffix saved F = true -> is_suffix saved (f :: F) = true.
Proof. intros. simpl. rewrite H. apply orb_true_r. Qed.
Lemma is_suffix_trans : forall a b c, is_suffix a b = true -> is_suffix b c = true -> is_suffix a c = true.
Proof.
  intros a b c H1 H2. apply is_suffix_app in H1. apply is_suffix_app in H2. destruct H1 as [p1 E1]. destruct H2 as [p2 E2].
  subst. rewrite app_assoc. apply is_suffix_of_app.
Qed.
Lemma is_suffix_fresh : forall saved f F n, Forall (fun g => f_id g < n) saved -> f_id f = n ->
  is_suffix saved (f :: F) = true -> is_suffix saved F = true.
Proof.
  intros saved f F n Hid Hf H. simpl in H. apply orb_prop in H. destruct H as [H|H]; [|exact H].
  apply frames_eqb_eq in H. subst saved. inversion Hid; subst. lia.
Qed.

Lemma assoc_In : forall {A} k (l : list (N * A)) v, assoc k l = Some v -> In (k, v) l.
Proof.
  intros A k. induction l as [|[k' v'] r IH]; intros v H; simpl in H; [discriminate|].
  destruct (k =? k') eqn:E; [apply N.eqb_eq in E; inversion H; subst; left; reflexivity|right; auto].
Qed.

(* ---------------------------------------------------------------- the invariant *)
Definition jb_inv (st : rstk) (s : lst) : Prop :=
  forall jb saved rsj, assoc jb (jbt st) = Some (saved, rsj) -> is_suffix saved (frames st) = true ->
    exists ri snap sl, assoc jb (jbs s) = Some (ri, snap) /\ assoc jb (jpc s) = Some PRET /\
      map proj snap = (sl, rsj, true) :: shadow saved /\ valid_ra rsj = true /\ lt_all sl saved /\ nolj snap.
Definition ids_ok (st : rstk) : Prop :=
  Forall (fun f => f_id f < next_id st) (frames st) /\
  forall jb saved rsj, In (jb, (saved, rsj)) (jbt st) -> Forall (fun f => f_id f < next_id st) saved.

Definition base (st : rstk) : list rframe := skipn (N.to_nat (extra st)) (frames st).

Record Inv (st : rstk) (s : lst) : Prop := {
  i_sorted : sorted (frames st);
  i_valid : Forall fvalid (frames st);
  i_ids : ids_ok st;
  i_jb : jb_inv st s;
  i_excb : inexc s = exc st;
  i_fl : exc st = true -> flight st = true;
  i_nolj : nolj (rs s);
  i_shadow : exists S L, rs s = S ++ L /\ map proj L = shadow (frames st) /\
               (forall e, In e S -> In (e_loc e) (stale st)) /\ (exc st = false -> S = []);
  i_mem : if exc st then mem_exc (m s) (frames st) else mem_top (m s) (frames st);
  i_stale0 : exc st = false -> stale st = [];
  i_stale : exc st = true -> Forall (fun x => lt_all x (base st)) (stale st);
  i_extra : exc st = true -> Forall (fun f => f_pend f = []) (firstn (N.to_nat (extra st)) (frames st))
}.

Lemma Inv_init : Inv rinit init.
Proof.
  constructor.
  - exact I.
  - constructor.
  - split; [constructor|]. intros jb saved rsj H. contradiction.
  - intros jb saved rsj H. discriminate.
  - reflexivity.
  - discriminate.
  - constructor.
  - exists [], []. repeat split; auto.
  - exact I.
  - reflexivity.
  - discriminate.
  - discriminate.
Qed.

(* rs when no exception is in flight *)
Lemma Inv_rs_plain : forall st s, Inv st s -> exc st = false -> map proj (rs s) = shadow (frames st).
Proof.
  intros st s H He. destruct (i_shadow _ _ H) as [S [L [H1 [H2 [_ H4]]]]]. rewrite (H4 He) in H1. simpl in H1. rewrite H1. exact H2.
Qed.

(* ---------------------------------------------------------------- small facts used by several steps *)
Lemma lt_all_tail : forall x f F, lt_all x (f :: F) -> lt_all x F.
Proof. intros x f F H. inversion H; assumption. Qed.
Lemma sorted_lt_all_trans : forall x f F, x < f_slot f -> sorted (f :: F) -> lt_all x (f :: F).
Proof.
  intros x f F Hx [Hlt _]. constructor; [exact Hx|]. unfold lt_all in *. eapply Forall_impl; [|exact Hlt]. simpl. intros; lia.
Qed.

Lemma first_hooked_In : forall F g, first_hooked F = Some g -> In g F /\ f_pend g <> [].
Proof.
  induction F as [|f r IH]; intros g H; simpl in H; [discriminate|].
  destruct (f_pend f) eqn:E.
  - destruct (IH g H) as [A B]. split; [right; exact A|exact B].
  - inversion H; subst. split; [left; reflexivity|rewrite E; discriminate].
Qed.

Lemma auto_restore_push : forall F L e s mm, map proj L = shadow F -> lt_all s F -> e_loc e = s ->
  auto_restore false (e :: L) mm = restore_first_p (shadow F) mm.
Proof.
  intros F L e s mm HL Hlt He. destruct L as [|prev rest].
  - simpl in HL. rewrite <- HL. reflexivity.
  - unfold auto_restore. assert (Hne : e_loc e =? e_loc prev = false).
    { apply N.eqb_neq. rewrite He. assert (Hin : In (proj prev) (shadow F)) by (rewrite <- HL; left; reflexivity).
      pose proof (shadow_loc_gt F s (proj prev) Hlt Hin) as Hgt. unfold p_loc, proj in Hgt; simpl in Hgt. lia. }
    rewrite Hne. rewrite restore_first_proj. rewrite HL. reflexivity.
Qed.

Lemma restore_first_shadow_other : forall F mm a, Forall fvalid F -> lt_all a F ->
  restore_first_p (shadow F) mm a = mm a.
Proof.
  intros F mm a Hv Hlt. rewrite restore_first_shadow by exact Hv. destruct (first_hooked F) as [g|] eqn:E; [|reflexivity].
  apply first_hooked_In in E. destruct E as [E _]. unfold lt_all in Hlt. rewrite Forall_forall in Hlt. specialize (Hlt g E).
  apply upd_other. lia.
Qed.

(* after a push of a hooked frame at a fresh slot below everything *)
Lemma mem_top_after_push : forall F mm s, sorted F -> Forall fvalid F -> lt_all s F -> mem_top mm F ->
  forall t, mem_rest (restore_first_p (shadow F) (upd mm s t)) F.
Proof.
  intros F mm s Hs Hv Hlt Hm t. rewrite restore_first_shadow by exact Hv.
  apply mem_top_restore_first; [exact Hs|]. apply mem_top_upd_below; assumption.
Qed.

Lemma shadow_hd_first_hooked : forall F, sorted F ->
  match shadow F with
  | [] => first_hooked F = None
  | y :: _ => exists g, first_hooked F = Some g /\ p_loc y = f_slot g /\ p_plt y = hd false (f_pend g)
  end.
Proof.
  induction F as [|f r IH]; intros Hs; simpl; [reflexivity|]. destruct Hs as [_ Hs]. specialize (IH Hs).
  unfold ents_of. destruct (f_pend f) as [|k p] eqn:E; simpl.
  - exact IH.
  - exists f. rewrite E. repeat split; reflexivity.
Qed.

(* re-hooking the first hooked frame turns "hooked or real" into the normal shape *)
Lemma mem_rest_rehook_first : forall F mm, sorted F -> mem_rest mm F ->
  mem_top (match shadow F with [] => mm | y :: _ => upd mm (p_loc y) (tramp_of (p_plt y)) end) F.
Proof.
  induction F as [|f r IH]; intros mm Hs H; [exact I|]. destruct Hs as [Hlt Hs]. inversion H as [|? ? Hf Hr]; subst.
  simpl shadow. unfold ents_of. destruct (f_pend f) as [|k p] eqn:E.
  - simpl app. specialize (IH mm Hs Hr). simpl. rewrite E. unfold slot_either in Hf. rewrite E in Hf.
    split; [|exact IH]. destruct (shadow r) as [|y ys] eqn:Es; [exact Hf|].
    rewrite upd_other; [exact Hf|]. assert (Hin : In y (shadow r)) by (rewrite Es; left; reflexivity).
    pose proof (shadow_loc_gt r (f_slot f) y Hlt Hin). lia.
  - simpl. rewrite E. unfold p_loc, p_plt; simpl. split; [apply upd_same|]. apply mem_rest_upd_below; assumption.
Qed.

Lemma nolj_app : forall a b, nolj (a ++ b) -> nolj a /\ nolj b.
Proof. intros a b H. unfold nolj in *. apply Forall_app in H. exact H. Qed.

Lemma rtd_top_lj : forall top anc, let '(top', _, _) := rtd top anc in e_lj top' = e_lj top.
Proof. intros top anc. unfold rtd. destruct (e_written top); [reflexivity|]. destruct (flush_anc anc). reflexivity. Qed.

Lemma pop_unwound_nolj : forall fuel fa l ri o, nolj l -> let '(l', _, _) := pop_unwound fuel fa l ri o in nolj l'.
Proof.
  induction fuel as [|f IH]; intros fa l ri o H; simpl.
  - destruct l; exact H.
  - destruct l as [|e r]; [exact H|]. destruct (fa <? e_loc e); [exact H|].
    inversion H; subst. pose proof (rtd_nolj (set_end e 1) r H3) as R.
    destruct (rtd (set_end e 1) r) as [[t' r'] recs]. apply IH. exact R.
Qed.
