(* C11 - corollary: a program that has left every frame (by returns, longjmp, unwinding, in any mix) leaves the
   shadow stack empty and record_idx at zero: nothing an abandoned frame pushed stays behind. *)
From Coq Require Import NArith List Bool.
Import ListNotations.
Require Import UV.C11.Model UV.C11.StepBase UV.C11.Proofs.
Local Open Scope N_scope.

Theorem all_frames_left_shadow_empty : forall ops st', rrun rinit ops = Some st' ->
  exc st' = false -> frames st' = [] ->
  exists s obs, lrun init ops = Some (s, obs) /\ rs s = [] /\ ridx s = 0.
Proof.
  intros ops st' R E F. destruct (shadow_is_live_hooked_frames ops st' R) as (s & obs & L & H).
  destruct (H E) as (Hs & _ & Hi & _). rewrite F in Hs, Hi. cbn in Hs, Hi.
  exists s, obs. split; [exact L|]. split; [|exact Hi].
  destruct (rs s); [reflexivity|discriminate].
Qed.

(* non-vacuity: the sample program (setjmp/longjmp, throw/catch through cleanup pads) ends with every frame left *)
Example sample_leaves_every_frame :
  match rrun rinit sample_prog with Some st => (exc st, frames st) | None => (true, []) end = (false, []) /\
  (10 < length sample_prog)%nat.
Proof. vm_compute. split; [reflexivity|]. repeat constructor. Qed.
