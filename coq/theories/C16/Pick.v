(* C16 - the directory-name search of recv_trace_dir_name always finds a free name (pigeonhole): the model's
   bound of 2n+2 candidates is never reached, i.e. [mkdir_name true] is total. *)
From Coq Require Import String Ascii.
From Coq Require Import NArith ZArith List Bool Arith Lia.
From Coq Require Import ZifyBool ZifyN ZifyNat.
Import ListNotations.
Require Import UV.Gen.Consts UV.C16.Model UV.C16.Proofs UV.C16.Frame UV.C16.Dirs.
Local Open Scope N_scope.
Ltac Zify.zify_post_hook ::= Z.div_mod_to_equations.

(* ------------------------------------------------------------------ "%d" is injective *)
Definition val (l : bytes) : N := fold_left (fun a b => a * 10 + (b - 48)) l 0.
Lemma val_fold : forall l a, fold_left (fun a b => a * 10 + (b - 48)) l a = a * 10 ^ N.of_nat (length l) + val l.
Proof.
  induction l as [|x l IH]; intros a.
  - unfold val. cbn [fold_left length]. change (N.of_nat 0) with 0. rewrite N.pow_0_r. lia.
  - cbn [fold_left length]. rewrite IH.
    assert (V : val (x :: l) = (0 * 10 + (x - 48)) * 10 ^ N.of_nat (length l) + val l)
      by (unfold val at 1; cbn [fold_left]; apply IH).
    rewrite V, Nat2N.inj_succ, N.pow_succ_r'. ring.
Qed.
Lemma val_cons x l : val (x :: l) = (x - 48) * 10 ^ N.of_nat (length l) + val l.
Proof. unfold val at 1. cbn [fold_left]. rewrite val_fold. ring. Qed.

Lemma dec_digits_val : forall f n acc, n < 10 ^ N.of_nat f ->
  val (dec_digits f n acc) = n * 10 ^ N.of_nat (length acc) + val acc.
Proof.
  induction f as [|f IH]; intros n acc H.
  - change (N.of_nat 0) with 0 in H. rewrite N.pow_0_r in H. assert (n = 0) by lia. subst. cbn [dec_digits].
    rewrite N.mul_0_l. reflexivity.
  - cbn [dec_digits]. rewrite Nat2N.inj_succ, N.pow_succ_r' in H.
    assert (V : val ((48 + n mod 10) :: acc) = (n mod 10) * 10 ^ N.of_nat (length acc) + val acc).
    { rewrite val_cons. replace (48 + n mod 10 - 48) with (n mod 10) by lia. reflexivity. }
    destruct (n / 10 =? 0) eqn:E.
    + rewrite V. apply N.eqb_eq in E. assert (n mod 10 = n) by lia. congruence.
    + rewrite IH by lia. rewrite V. cbn [length]. rewrite Nat2N.inj_succ, N.pow_succ_r'.
      set (p := 10 ^ N.of_nat (length acc)). assert (n = 10 * (n / 10) + n mod 10) by lia. nia.
Qed.
Lemma dec_inj i j : i < 10 ^ 20 -> j < 10 ^ 20 -> dec i = dec j -> i = j.
Proof.
  intros Hi Hj E. apply (f_equal val) in E. unfold dec in E.
  rewrite !dec_digits_val in E by assumption. cbn in E. lia.
Qed.

Lemma cand_name_inj d i j : i < 10 ^ 20 -> j < 10 ^ 20 -> cand_name d i = cand_name d j -> i = j.
Proof.
  intros Hi Hj. unfold cand_name. destruct (i =? 0) eqn:Ei; destruct (j =? 0) eqn:Ej; intros E.
  - lia.
  - exfalso. apply (f_equal (@length _)) in E. rewrite !app_length in E. cbn in E. lia.
  - exfalso. apply (f_equal (@length _)) in E. rewrite !app_length in E. cbn in E. lia.
  - apply app_inv_head in E. apply app_inv_head in E. apply dec_inj; assumption.
Qed.

(* ------------------------------------------------------------------ pigeonhole *)
Lemma filter_eq_le1 (x : bytes) (L : list bytes) : NoDup L ->
  (length (filter (fun c => list_eqb x c) L) <= 1)%nat.
Proof.
  induction L as [|c L IH]; intros ND; [cbn; lia|]. inversion ND as [|? ? NI ND']; subst. cbn [filter].
  destruct (list_eqb_spec x c) as [->|N].
  - cbn [length]. assert (Z : filter (fun c0 => list_eqb c c0) L = []).
    { clear -NI. induction L as [|y L IH]; [reflexivity|]. cbn [filter].
      destruct (list_eqb_spec c y) as [->|]; [exfalso; apply NI; left; reflexivity|].
      apply IH. intros H. apply NI. right. exact H. }
    rewrite Z. cbn. lia.
  - apply IH. exact ND'.
Qed.
Lemma filter_old_le1 (x : bytes) (L : list bytes) : NoDup L ->
  (length (filter (fun c => list_eqb x (old_of c)) L) <= 1)%nat.
Proof.
  intros ND. assert (M : NoDup (map old_of L)).
  { clear -ND. induction ND as [|c L NI ND IH]; [constructor|]. cbn [map]. constructor; [|exact IH].
    intros H. apply in_map_iff in H. destruct H as [y [E I]]. apply old_of_inj in E. subst. contradiction. }
  assert (E : length (filter (fun c => list_eqb x (old_of c)) L) = length (filter (fun c => list_eqb x c) (map old_of L))).
  { clear. induction L as [|c L IH]; [reflexivity|]. cbn [map filter]. destruct (list_eqb x (old_of c)); cbn [length]; rewrite IH; reflexivity. }
  rewrite E. apply filter_eq_le1. exact M.
Qed.
Lemma filter_or_le {A} (p q : A -> bool) (L : list A) :
  (length (filter (fun c => p c || q c) L) <= length (filter p L) + length (filter q L))%nat.
Proof.
  induction L as [|c L IH]; [cbn; lia|]. cbn [filter]. destruct (p c); destruct (q c); cbn [orb length]; lia.
Qed.

Lemma in_use_count (L : list bytes) : NoDup L -> forall cl,
  (length (filter (fun c => in_use c cl) L) <= 2 * length cl)%nat.
Proof.
  intros ND. induction cl as [|e cl IH]; cbn [length].
  - assert (Z : filter (fun c => in_use c []) L = []) by (clear; induction L; [reflexivity|exact IHL]). rewrite Z. cbn. lia.
  - assert (E : forall c, in_use c (e :: cl) = (list_eqb (snd e) c || list_eqb (snd e) (old_of c)) || in_use c cl) by reflexivity.
    rewrite (filter_ext _ _ E).
    pose proof (filter_or_le (fun c => list_eqb (snd e) c || list_eqb (snd e) (old_of c)) (fun c => in_use c cl) L) as H1.
    pose proof (filter_or_le (fun c => list_eqb (snd e) c) (fun c => list_eqb (snd e) (old_of c)) L) as H2.
    pose proof (filter_eq_le1 (snd e) L ND). pose proof (filter_old_le1 (snd e) L ND). lia.
Qed.

Definition cands (d : bytes) (i : N) (n : nat) : list bytes := map (fun j => cand_name d (i + N.of_nat j)) (seq 0 n).

Lemma pick_none : forall fuel d i cl, pick_name fuel d i cl = None ->
  forallb (fun c => in_use c cl) (cands d i fuel) = true.
Proof.
  induction fuel as [|f IH]; intros d i cl H; [reflexivity|]. cbn [pick_name] in H.
  destruct (in_use (cand_name d i) cl) eqn:E; [|discriminate].
  unfold cands. cbn [seq map forallb]. replace (i + N.of_nat 0) with i by lia. rewrite E. cbn [andb].
  specialize (IH d (i + 1) cl H). unfold cands in IH. rewrite <- seq_shift, map_map.
  erewrite map_ext; [exact IH|]. intros j. cbn. f_equal. lia.
Qed.

Lemma map_nodup_in {A B} (f : A -> B) (l : list A) :
  (forall a b, In a l -> In b l -> f a = f b -> a = b) -> NoDup l -> NoDup (map f l).
Proof.
  intros Inj ND. induction ND as [|x l NI ND IH]; [constructor|]. cbn [map]. constructor.
  - intros H. apply in_map_iff in H. destruct H as [y [E I]]. apply NI.
    rewrite <- (Inj y x); [exact I|right; exact I|left; reflexivity|exact E].
  - apply IH. intros a b Ia Ib. apply Inj; right; assumption.
Qed.

Lemma cands_nodup d n : N.of_nat n < 10 ^ 20 -> NoDup (cands d 0 n).
Proof.
  intros B. unfold cands. apply map_nodup_in; [|apply seq_NoDup].
  intros a b Ia Ib E. apply in_seq in Ia. apply in_seq in Ib.
  apply cand_name_inj in E; lia.
Qed.

(* recv_trace_dir_name always finds a name (with fewer than 10^19 connected clients ...) *)
Theorem mkdir_name_total d cl : N.of_nat (length cl) < 1000000 -> mkdir_name true d cl <> None.
Proof.
  intros B H. unfold mkdir_name in H. apply pick_none in H.
  set (n := (2 * length cl + 2)%nat) in *.
  assert (ND : NoDup (cands (norm d) 0 n)).
  { apply cands_nodup. subst n. change (10 ^ 20) with 100000000000000000000. lia. }
  pose proof (in_use_count (cands (norm d) 0 n) ND cl) as C.
  assert (All : filter (fun c => in_use c cl) (cands (norm d) 0 n) = cands (norm d) 0 n).
  { clear -H. induction (cands (norm d) 0 n) as [|c L IH]; [reflexivity|]. cbn [forallb] in H. apply andb_true_iff in H.
    destruct H as [H1 H2]. cbn [filter]. rewrite H1, IH by exact H2. reflexivity. }
  rewrite All in C. unfold cands in C. rewrite map_length, seq_length in C. subst n. lia.
Qed.
