(* C16 - compact byte-string literals for the generated case files (not used by any theorem):
   [ub n ws] = the first n bytes of the big-endian 6-byte groups ws. *)
From Coq Require Import Uint63 NArith ZArith List.
Import ListNotations.
Local Open Scope uint63_scope.
Definition byte_at (w : int) (sh : int) : N := Z.to_N (Uint63.to_Z ((w >> sh) land 255)).
Definition word6 (w : int) : list N :=
  [byte_at w 40; byte_at w 32; byte_at w 24; byte_at w 16; byte_at w 8; byte_at w 0].
Definition ub (n : N) (ws : list int) : list N := firstn (N.to_nat n) (flat_map word6 ws).
