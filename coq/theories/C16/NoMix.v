(* C16 - "several clients sending at once do not mix their data", for the code with the directory-name rule of
   recv_trace_dir_name (fx = true): NO hypothesis on the names the clients announce, on the interleaving, or on
   the clients following the protocol. *)
From Coq Require Import String Ascii.
From Coq Require Import NArith ZArith List Bool Arith Lia.
Import ListNotations.
Require Import UV.Gen.Consts UV.C16.Model UV.C16.Proofs UV.C16.Frame UV.C16.Dirs UV.C16.Pick.
Local Open Scope N_scope.

(* ghost: for every connection with an open session - the directory it was given, what that directory held
   right after create_directory (fresh_dir, or the old content when the rotation was impossible), and the
   data/metadata messages the connection has sent since *)
Definition ghost := N -> option (bytes * dirent * list msg).
Definition g_set (k : N) (v : option (bytes * dirent * list msg)) (g : ghost) : ghost :=
  fun x => if x =? k then v else g x.
Definition base_of (c : bytes) (f : fsys) : dirent := match create_directory c f c with Some b => b | None => [] end.

Definition gstep (k : N) (m : msg) (s : server) (g : ghost) : ghost :=
  match m with
  | MDir d => match mkdir_name true d (clients s) with
              | Some c => g_set k (Some (c, base_of c (fs s), [])) g
              | None => g
              end
  | MEnd => g_set k None g
  | _ => match g k with
         | Some (c, b, body) => g_set k (Some (c, b, body ++ [m])) g
         | None => g
         end
  end.
Fixpoint grun (evs : list (N * msg)) (s : server) (g : ghost) : option (server * ghost) :=
  match evs with
  | [] => Some (s, g)
  | (k, m) :: r => match apply true k (action_of m) s with
                   | None => None
                   | Some s' => grun r s' (gstep k m s g)
                   end
  end.
Lemma grun_run : forall evs s g, match grun evs s g with Some (s', _) => run true evs s = Some s' | None => run true evs s = None end.
Proof.
  induction evs as [|[k m] r IH]; intros s g; [reflexivity|]. cbn [grun run].
  destruct (apply true k (action_of m) s) as [s'|]; [apply IH|reflexivity].
Qed.

(* the invariant: directories of different table entries are different, and every open session's directory holds
   its base plus exactly the session's own messages *)
Definition owned (s : server) (g : ghost) : Prop :=
  NoDup (map snd (clients s)) /\
  forall k c b body, g k = Some (c, b, body) ->
    find_client k (clients s) = Some c /\ fs s c = Some (fold_left (fun es m => local_write m es) body b).

Lemma find_client_in k c cl : find_client k cl = Some c -> In (k, c) cl.
Proof.
  induction cl as [|[j d] cl IH]; [discriminate|]. cbn [find_client]. destruct (j =? k) eqn:E.
  - apply N.eqb_eq in E. intros H. injection H as ->. subst. left. reflexivity.
  - intros H. right. apply IH. exact H.
Qed.
Lemma nodup_snd_same (cl : list (N * bytes)) i j c : NoDup (map snd cl) -> In (i, c) cl -> In (j, c) cl -> i = j.
Proof.
  induction cl as [|[h d] cl IH]; intros ND I J; [destruct I|]. cbn [map snd] in ND.
  inversion ND as [|? ? NI ND']; subst.
  destruct I as [I|I]; destruct J as [J|J].
  - congruence.
  - injection I as -> ->. exfalso. apply NI. apply (in_map snd) in J. exact J.
  - injection J as -> ->. exfalso. apply NI. apply (in_map snd) in I. exact I.
  - apply IH; assumption.
Qed.
Lemma del_client_incl k cl e : In e (del_client k cl) -> In e cl.
Proof.
  induction cl as [|[j d] cl IH]; [intros []|]. cbn [del_client]. destruct (j =? k).
  - intros H. right. exact H.
  - intros [H|H]; [left; exact H|right; apply IH; exact H].
Qed.
Lemma del_client_nodup k cl : NoDup (map snd cl) -> NoDup (map snd (del_client k cl)).
Proof.
  induction cl as [|[j d] cl IH]; intros ND; [constructor|]. cbn [del_client]. cbn [map snd] in ND.
  inversion ND as [|? ? NI ND']; subst. destruct (j =? k); [exact ND'|].
  cbn [map snd]. constructor; [|apply IH; exact ND'].
  intros H. apply NI. apply in_map_iff in H. destruct H as [e [E I]]. apply in_map_iff. exists e. split; [exact E|].
  apply (del_client_incl k). exact I.
Qed.

Lemma in_use_false cand cl e : in_use cand cl = false -> In e cl -> snd e <> cand /\ snd e <> old_of cand.
Proof.
  unfold in_use. intros H I. rewrite <- not_true_iff_false in H. split; intros E; apply H; apply existsb_exists;
    exists e; (split; [exact I|]); rewrite E, list_eqb_refl; [reflexivity|apply orb_true_r].
Qed.
Lemma pick_name_free : forall fuel d i cl c, pick_name fuel d i cl = Some c -> in_use c cl = false.
Proof.
  induction fuel as [|f IH]; intros d i cl c H; [discriminate|]. cbn [pick_name] in H.
  destruct (in_use (cand_name d i) cl) eqn:E; [apply (IH _ _ _ _ H)|]. injection H as <-. exact E.
Qed.

Lemma target_body m : is_body m = true -> exists f x, target m = Some (f, x) /\ action_of m = AAppend f x.
Proof. destruct m; cbn; try discriminate; intros _; eauto. Qed.

(* one step keeps the invariant *)
Lemma owned_step k m s g s' : owned s g -> apply true k (action_of m) s = Some s' -> owned s' (gstep k m s g).
Proof.
  intros [ND OW] A. destruct (is_body m) eqn:B.
  - (* data / metadata of k *)
    destruct (target_body m B) as [f [x [T Ac]]]. rewrite Ac in A. cbn [apply] in A.
    destruct (find_client k (clients s)) as [ck|] eqn:F; [|discriminate].
    destruct (fs s ck) as [files|] eqn:D; [|discriminate]. injection A as <-.
    assert (GS : gstep k m s g = match g k with Some (c, b, body) => g_set k (Some (c, b, body ++ [m])) g | None => g end)
      by (destruct m; try discriminate B; reflexivity).
    rewrite GS. split; [exact ND|]. cbn [clients fs].
    assert (Other : forall j c b body, j <> k -> g j = Some (c, b, body) ->
              find_client j (clients s) = Some c /\ fs_set ck (Some (dappend f x files)) (fs s) c =
              Some (fold_left (fun es m0 => local_write m0 es) body b)).
    { intros j c b body Nj G. destruct (OW j c b body G) as [Fj Dj]. split; [exact Fj|].
      rewrite fs_set_other; [exact Dj|]. intros ->. apply Nj.
      apply (nodup_snd_same (clients s) j k ck ND); apply find_client_in; assumption. }
    destruct (g k) as [[[c0 b0] body0]|] eqn:Gk.
    + intros j c b body. unfold g_set. destruct (j =? k) eqn:E.
      * apply N.eqb_eq in E. subst j. intros H. injection H as <- <- <-.
        destruct (OW k c0 b0 body0 Gk) as [Fk Dk]. rewrite Fk in F. injection F as <-.
        split; [exact Fk|]. rewrite fs_set_same, fold_left_app. cbn [fold_left]. rewrite local_write_target, T.
        rewrite D in Dk. injection Dk as <-. reflexivity.
      * apply N.eqb_neq in E. apply Other. exact E.
    + intros j c b body G. apply Other; [|exact G]. intros ->. congruence.
  - destruct m; try discriminate B; cbn [action_of apply gstep] in *.
    + (* MDir *)
      destruct (mkdir_name true name (clients s)) as [c|] eqn:MK; [|discriminate]. injection A as <-.
      cbn [clients fs]. assert (Fr := pick_name_free _ _ _ _ _ MK).
      split.
      * cbn [map snd]. constructor; [|exact ND]. intros H. apply in_map_iff in H. destruct H as [e [E I]].
        destruct (in_use_false c (clients s) e Fr I) as [Q _]. contradiction.
      * intros j cj b body. unfold g_set. destruct (j =? k) eqn:E.
        -- apply N.eqb_eq in E. subst j. intros H. injection H as <- <- <-. cbn [clients fs find_client]. rewrite N.eqb_refl.
           split; [reflexivity|]. cbn [fold_left]. unfold base_of.
           destruct (create_directory c (fs s) c) eqn:CD; [reflexivity|]. exfalso. apply (create_directory_present c (fs s) CD).
        -- intros G. destruct (OW j cj b body G) as [Fj Dj]. cbn [clients fs find_client]. apply N.eqb_neq in E.
           destruct (k =? j) eqn:E2; [apply N.eqb_eq in E2; congruence|]. split; [exact Fj|].
           destruct (in_use_false c (clients s) (j, cj) Fr (find_client_in j cj _ Fj)) as [Q1 Q2]. cbn [snd] in Q1, Q2.
           rewrite create_directory_elsewhere by assumption. exact Dj.
    + (* MEnd *)
      injection A as <-. split; [apply del_client_nodup; exact ND|]. cbn [clients fs].
      intros j c b body. unfold g_set. destruct (j =? k) eqn:E; [discriminate|]. apply N.eqb_neq in E.
      intros G. destruct (OW j c b body G) as [Fj Dj]. rewrite find_client_del_other by exact E. auto.
Qed.

Lemma owned_grun : forall evs s g s' g', owned s g -> grun evs s g = Some (s', g') -> owned s' g'.
Proof.
  induction evs as [|[k m] r IH]; intros s g s' g' O R.
  - cbn in R. injection R as <- <-. exact O.
  - cbn [grun] in R. destruct (apply true k (action_of m) s) as [s1|] eqn:A; [|discriminate].
    apply (IH s1 (gstep k m s g) s' g'); [|exact R]. apply (owned_step k m s g s1 O A).
Qed.

Definition ghost0 : ghost := fun _ => None.

(* NO MIXING: after ANY sequence of events (any names, any interleaving), every open session's directory is what
   create_directory left there plus exactly the session's own messages, in order *)
Theorem no_mixing evs s g : grun evs server0 ghost0 = Some (s, g) ->
  forall k c b body, g k = Some (c, b, body) ->
    find_client k (clients s) = Some c /\ fs s c = Some (fold_left (fun es m => local_write m es) body b).
Proof.
  intros R. assert (O : owned server0 ghost0) by (split; [constructor|intros k c b body H; discriminate H]).
  destruct (owned_grun evs server0 ghost0 s g O R) as [_ OW]. exact OW.
Qed.

(* the base is the fresh directory whenever the name was free or could be rotated *)
Lemma base_fresh c f : f c = None -> base_of c f = fresh_dir.
Proof. intros H. unfold base_of. rewrite (create_directory_absent c f H). reflexivity. Qed.

(* the scenario that mixed the data of two clients in the code as found: now two directories *)
Example same_dirname_separated :
  match grun evs_same server0 ghost0 with
  | Some (s, _) =>
      fs s ud = Some [(n_default_opts, []); (dat_name 11, [65; 66]); (n_task, [97])] /\
      fs s (cand_name ud 1) = Some [(n_default_opts, []); (dat_name 22, [67]); (n_task, [98])] /\
      fs s (old_of ud) = None
  | None => False
  end.
Proof. vm_compute. repeat split; reflexivity. Qed.

(* ------------------------------------------------------------------ protocol-following clients never kill the server *)
(* every connection: SEND_DIR_NAME (ANY name) first, then data/metadata, SEND_END last *)
Fixpoint proto (open : list N) (evs : list (N * msg)) : bool :=
  match evs with
  | [] => true
  | (j, MDir _) :: r => negb (memb j open) && proto (j :: open) r
  | (j, MEnd) :: r => memb j open && proto (List.remove N.eq_dec j open) r
  | (j, _) :: r => memb j open && proto open r
  end.

Lemma del_client_length k cl : (length (del_client k cl) <= length cl)%nat.
Proof.
  induction cl as [|[j d] cl IH]; [cbn; lia|]. cbn [del_client]. destruct (j =? k); cbn [length]; lia.
Qed.

Lemma survive_fixed : forall evs s g open, owned s g -> (forall j, In j open -> g j <> None) ->
  N.of_nat (length (clients s) + length evs) < 1000000 -> proto open evs = true -> grun evs s g <> None.
Proof.
  induction evs as [|[j m] r IH]; intros s g open O G B P; [cbn; discriminate|].
  cbn [grun]. cbn [length] in B.
  assert (Step : forall s1 open1, apply true j (action_of m) s = Some s1 ->
            (forall i, In i open1 -> gstep j m s g i <> None) ->
            (length (clients s1) <= S (length (clients s)))%nat -> proto open1 r = true ->
            match apply true j (action_of m) s with Some s' => grun r s' (gstep j m s g) | None => None end <> None).
  { intros s1 open1 A G1 L P1. rewrite A. apply (IH s1 (gstep j m s g) open1); auto.
    - apply (owned_step j m s g s1 O A).
    - lia. }
  destruct (is_body m) eqn:Bd.
  - assert (Pj : memb j open = true /\ proto open r = true).
    { destruct m; try discriminate Bd; cbn [proto] in P; apply andb_true_iff in P; exact P. }
    destruct Pj as [Mj Pr]. apply memb_In in Mj.
    destruct (g j) as [[[c b] body]|] eqn:Gj; [|exfalso; apply (G j Mj Gj)].
    destruct O as [ND OW]. destruct (OW j c b body Gj) as [Fj Dj].
    pose proof (apply_body true j c m s _ Bd Fj Dj) as A.
    apply (Step _ open A); [|cbn [clients]; lia|exact Pr].
    intros i Ii. assert (GS : gstep j m s g = g_set j (Some (c, b, body ++ [m])) g)
      by (destruct m; try discriminate Bd; cbn [gstep]; rewrite Gj; reflexivity).
    rewrite GS. unfold g_set. destruct (i =? j); [discriminate|apply G; exact Ii].
  - destruct m; try discriminate Bd; cbn [proto] in P; apply andb_true_iff in P; destruct P as [P1 P2].
    + (* MDir *)
      destruct (mkdir_name true name (clients s)) as [c|] eqn:MK.
      * assert (A : apply true j (action_of (MDir name)) s =
                    Some {| clients := (j, c) :: clients s; fs := create_directory c (fs s) |})
          by (cbn [action_of apply]; rewrite MK; reflexivity).
        apply (Step _ (j :: open) A); [|cbn [clients length]; lia|exact P2].
        cbn [gstep]. rewrite MK. intros i [<-|Ii]; unfold g_set; [rewrite N.eqb_refl; discriminate|].
        destruct (i =? j); [discriminate|apply G; exact Ii].
      * exfalso. apply (mkdir_name_total name (clients s)); [lia|exact MK].
    + (* MEnd *)
      assert (A : apply true j (action_of MEnd) s = Some {| clients := del_client j (clients s); fs := fs s |}) by reflexivity.
      apply (Step _ (List.remove N.eq_dec j open) A); [| |exact P2].
      * cbn [gstep]. intros i Ii. apply in_remove in Ii. destruct Ii as [Ii Nij]. unfold g_set.
        destruct (i =? j) eqn:E; [apply N.eqb_eq in E; contradiction|apply G; exact Ii].
      * cbn [clients]. pose proof (del_client_length j (clients s)). lia.
Qed.

(* for the code with the directory-name rule: clients that follow the protocol - with ANY directory names, the same
   ones included - never make `uftrace recv` exit, for every interleaving (fewer than a million messages) *)
Theorem sessions_survive_fixed evs : N.of_nat (length evs) < 1000000 -> proto [] evs = true -> run true evs server0 <> None.
Proof.
  intros B P H. pose proof (grun_run evs server0 ghost0) as GR.
  destruct (grun evs server0 ghost0) as [[s g]|] eqn:E; [congruence|].
  apply (survive_fixed evs server0 ghost0 []); auto;
    try (split; [constructor|intros k c b body Hk; discriminate Hk]); try (intros j []).
Qed.

Example proto_nonvacuous : proto [] evs_same = true /\ run true evs_same server0 <> None.
Proof. split; [vm_compute; reflexivity|vm_compute; discriminate]. Qed.

(* ------------------------------------------------------------------ raw names *)
(* two live clients never share a directory - whatever RAW names they announce (the table holds normalised names:
   spellings of one directory have one key) *)
Theorem live_dirs_distinct evs s g : grun evs server0 ghost0 = Some (s, g) -> NoDup (map snd (clients s)).
Proof.
  intros R. assert (O : owned server0 ghost0) by (split; [constructor|intros k c b body H; discriminate H]).
  destruct (owned_grun evs server0 ghost0 s g O R) as [ND _]. exact ND.
Qed.

Definition n_sess : bytes := str "sess".
Definition str_sess := str "sess".
Definition str_dot_sess := str "./sess".
Definition str_sess_slash := str "sess/".
Definition str_a_up_sess := str "a/../sess".
Definition str_dd_sess := str ".//sess//".
Definition str_x_up_sess := str "./x/./../sess".
Definition str_up_x := str "../x".
Definition str_abs_up := str "/a/../../b".
Definition str_abs_up_norm := str "/../b".
Example aliases_one_key :
  map norm [str_sess; str_dot_sess; str_sess_slash; str_a_up_sess; str_dd_sess; str_x_up_sess] =
  [n_sess; n_sess; n_sess; n_sess; n_sess; n_sess] /\
  norm [] = [46] /\ norm str_up_x = str_up_x /\ norm str_abs_up = str_abs_up_norm.
Proof. vm_compute. repeat split; reflexivity. Qed.

(* two clients connected at once that announce different spellings of one directory get two directories.
   (The code as found kept the raw strings apart in its table while the file system identified them: that defect is
   outside a model whose directories are keyed by name; it is witnessed on the real code by the tie.) *)
Definition evs_alias : list (N * msg) :=
  [(1, MDir (str "sess")); (1, MData 11 [65]); (2, MDir (str "./sess/")); (1, MData 11 [66]); (2, MData 22 [67]);
   (1, MEnd); (2, MEnd)].
Example aliases_separated :
  match grun evs_alias server0 ghost0 with
  | Some (s, _) => fs s n_sess = Some [(n_default_opts, []); (dat_name 11, [65; 66])] /\
                   fs s (cand_name n_sess 1) = Some [(n_default_opts, []); (dat_name 22, [67])]
  | None => False
  end.
Proof. vm_compute. repeat split; reflexivity. Qed.
