(* C16 - proofs about the transport loops and the message framing (Model.v). *)
From Coq Require Import String Ascii.
From Coq Require Import NArith ZArith List Bool Arith Lia.
From Coq Require Import ZifyBool ZifyN ZifyNat.
Import ListNotations.
Require Import UV.Gen.Consts UV.C16.Model.
Local Open Scope N_scope.
Ltac Zify.zify_post_hook ::= Z.div_mod_to_equations.

(* ------------------------------------------------------------------ list helpers *)
Lemma firstn_app_exact {A} (a b : list A) : firstn (length a) (a ++ b) = a.
Proof. rewrite firstn_app, Nat.sub_diag, firstn_all. cbn. apply app_nil_r. Qed.
Lemma skipn_app_exact {A} (a b : list A) : skipn (length a) (a ++ b) = b.
Proof. rewrite skipn_app, Nat.sub_diag, skipn_all. reflexivity. Qed.

(* ------------------------------------------------------------------ read_all *)
Lemma good_cons e t : good (e :: t) = true -> good_ev e = true /\ good t = true.
Proof. cbn. intros H. apply andb_true_iff in H. exact H. Qed.

Lemma read_all_0 t : read_all t 0 = Some ([], t).
Proof. destruct t; reflexivity. Qed.

Lemma read_all_data c t n : c <> [] -> n <> 0%nat ->
  read_all (RData c :: t) n =
  if (length c <=? n)%nat
  then match read_all t (n - length c) with Some (r, t'') => Some (c ++ r, t'') | None => None end
  else Some (firstn n c, RData (skipn n c) :: t).
Proof. destruct c; [congruence|]. destruct n; [congruence|]. reflexivity. Qed.

Lemma read_all_intr t n : n <> 0%nat -> read_all (RIntr :: t) n = read_all t n.
Proof. destruct n; [congruence|]. reflexivity. Qed.

(* read_all returns exactly the first n bytes of the stream, whatever the segmentation *)
Lemma read_all_spec : forall t n, good t = true -> (n <= length (bytes_of t))%nat ->
  exists t', read_all t n = Some (firstn n (bytes_of t), t') /\
             bytes_of t' = skipn n (bytes_of t) /\ good t' = true.
Proof.
  induction t as [|e t IH]; intros n G L.
  - cbn in L. assert (n = 0)%nat by lia. subst. exists []. cbn. auto.
  - destruct n as [|m].
    { exists (e :: t). rewrite read_all_0. cbn [firstn skipn]. auto. }
    apply good_cons in G. destruct G as [Ge Gt].
    destruct e as [c| |]; cbn in Ge; try discriminate.
    + assert (Hc : c <> []) by (destruct c; [discriminate|congruence]).
      cbn [bytes_of] in *. rewrite read_all_data by (assumption || discriminate).
      destruct (length c <=? S m)%nat eqn:E.
      * apply Nat.leb_le in E.
        destruct (IH (S m - length c)%nat) as [t' [R [B G']]]; auto.
        { rewrite app_length in L. lia. }
        rewrite R. exists t'. split; [|split]; auto.
        -- f_equal. f_equal. rewrite firstn_app. rewrite (firstn_all2 c) by lia. reflexivity.
        -- rewrite skipn_app. rewrite (skipn_all2 c) by lia. cbn. exact B.
      * apply Nat.leb_gt in E. exists (RData (skipn (S m) c) :: t). split; [|split].
        -- f_equal. f_equal. rewrite firstn_app. replace (S m - length c)%nat with 0%nat by lia.
           cbn [firstn]. rewrite app_nil_r. reflexivity.
        -- cbn [bytes_of]. rewrite skipn_app. replace (S m - length c)%nat with 0%nat by lia. reflexivity.
        -- change (good_ev (RData (skipn (S m) c)) && good t = true). rewrite Gt, andb_true_r.
           cbn [good_ev]. destruct (skipn (S m) c) eqn:K; [|reflexivity].
           apply (f_equal (@length _)) in K. rewrite skipn_length in K. cbn in K. lia.
    + cbn [bytes_of] in *. rewrite read_all_intr by discriminate. apply IH; auto.
Qed.

Lemma read_all_app t a b : good t = true -> bytes_of t = a ++ b ->
  exists t', read_all t (length a) = Some (a, t') /\ bytes_of t' = b /\ good t' = true.
Proof.
  intros G B. destruct (read_all_spec t (length a) G) as [t' [R [B' G']]].
  { rewrite B, app_length. lia. }
  exists t'. rewrite R, B', B. rewrite firstn_app_exact, skipn_app_exact. auto.
Qed.

(* a stream that ends inside the request makes read_all fail (the caller then exits) *)
Lemma read_all_short : forall t n, (length (bytes_of t) < n)%nat -> read_all t n = None.
Proof.
  induction t as [|e t IH]; intros n L.
  - destruct n; [cbn in L; lia|reflexivity].
  - destruct n as [|m]; [lia|].
    destruct e as [c| |]; cbn [bytes_of] in L.
    + destruct c as [|b c]; [reflexivity|].
      rewrite read_all_data by discriminate.
      rewrite app_length in L.
      destruct (length (b :: c) <=? S m)%nat eqn:E.
      * apply Nat.leb_le in E. rewrite IH by lia. reflexivity.
      * apply Nat.leb_gt in E. lia.
    + rewrite read_all_intr by discriminate. apply IH. exact L.
    + reflexivity.
Qed.

(* ------------------------------------------------------------------ writev_all / write_all *)
Definition prefix_of (p x : bytes) : Prop := exists rest, x = p ++ rest.

Lemma total_cons v rest : total (v :: rest) = (length v + total rest)%nat.
Proof. unfold total. cbn [concat]. apply app_length. Qed.

Lemma advance_spec : forall iov ret, (ret < total iov)%nat ->
  exists iov', advance ret iov = Some iov' /\ concat iov' = skipn ret (concat iov).
Proof.
  induction iov as [|v rest IH]; intros ret L.
  - cbn in L. lia.
  - rewrite total_cons in L. cbn [advance concat].
    destruct (length v <? ret)%nat eqn:E.
    + apply Nat.ltb_lt in E. destruct (IH (ret - length v)%nat) as [iov' [A C]]; [lia|].
      exists iov'. split; [exact A|]. rewrite C, skipn_app. rewrite (skipn_all2 v) by lia. reflexivity.
    + apply Nat.ltb_ge in E. exists (skipn ret v :: rest). split; [reflexivity|].
      cbn [concat]. rewrite skipn_app. replace (ret - length v)%nat with 0%nat by lia. reflexivity.
Qed.

(* whatever the sequence of short counts / EINTR / errors: the bytes put on the wire are a prefix of
   the concatenation of the iovecs, the loop never walks past the array, and when it returns 0
   exactly the concatenation has been written *)
Lemma writev_loop_spec : forall sched iov frags,
  let w := writev_loop sched iov (total iov) frags in
  exists em, w_frags w = frags ++ em /\ prefix_of (concat em) (concat iov) /\
             (w_status w = WDone -> concat em = concat iov) /\ w_status w <> WCrash.
Proof.
  induction sched as [|e s IH]; intros iov frags w; subst w.
  - destruct (total iov) eqn:T; cbn [writev_loop w_frags w_status].
    + exists []. rewrite app_nil_r. unfold total in T. apply length_zero_iff_nil in T. rewrite T.
      repeat split; try congruence. exists []. reflexivity.
    + exists []. rewrite app_nil_r. repeat split; try congruence. exists (concat iov). reflexivity.
  - destruct (total iov) eqn:T.
    { cbn [writev_loop w_frags w_status]. exists []. rewrite app_nil_r.
      unfold total in T. apply length_zero_iff_nil in T. rewrite T.
      repeat split; try congruence. exists []. reflexivity. }
    rewrite <- T. destruct e as [k| |].
    + rewrite T. cbn [writev_loop]. rewrite <- T.
      set (ret := Nat.min k (total iov)).
      destruct (total iov - ret =? 0)%nat eqn:Z.
      * apply Nat.eqb_eq in Z. cbn [w_frags w_status].
        assert (ret = total iov) by lia.
        exists [firstn ret (concat iov)]. cbn [concat]. rewrite app_nil_r.
        assert (F : firstn ret (concat iov) = concat iov) by (apply firstn_all2; unfold total in *; lia).
        rewrite F. repeat split; try congruence. exists []. rewrite app_nil_r. reflexivity.
      * apply Nat.eqb_neq in Z.
        destruct (advance_spec iov ret) as [iov' [A C]]; [lia|]. rewrite A.
        assert (T' : (total iov - ret)%nat = total iov').
        { unfold total. rewrite C, skipn_length. reflexivity. }
        rewrite T'. destruct (IH iov' (frags ++ [firstn ret (concat iov)])) as [em [F [P [D NC]]]].
        exists (firstn ret (concat iov) :: em). rewrite F. rewrite <- app_assoc. cbn [app concat].
        repeat split; auto.
        -- destruct P as [rest P]. exists rest. rewrite <- app_assoc, <- P, C. symmetry. apply firstn_skipn.
        -- intros Dn. rewrite (D Dn), C. apply firstn_skipn.
    + rewrite T. cbn [writev_loop]. rewrite <- T. apply IH.
    + rewrite T. cbn [writev_loop w_frags w_status]. exists []. rewrite app_nil_r.
      repeat split; try congruence. exists (concat iov). reflexivity.
Qed.

Lemma writev_all_spec sched iov :
  let w := writev_all sched iov in
  prefix_of (concat (w_frags w)) (concat iov) /\
  (w_status w = WDone -> concat (w_frags w) = concat iov) /\ w_status w <> WCrash.
Proof.
  cbn zeta. unfold writev_all. destruct (writev_loop_spec sched iov []) as [em [F [P [D NC]]]].
  cbn [app] in F. rewrite F. auto.
Qed.

Lemma write_loop_spec : forall sched buf frags,
  let w := write_loop sched buf frags in
  exists em, w_frags w = frags ++ em /\ prefix_of (concat em) buf /\
             (w_status w = WDone -> concat em = buf) /\ w_status w <> WCrash.
Proof.
  induction sched as [|e s IH]; intros buf frags w; subst w.
  - destruct buf as [|b buf]; cbn [write_loop w_frags w_status]; exists []; rewrite app_nil_r;
      repeat split; try congruence; eexists; reflexivity.
  - destruct buf as [|b buf].
    { cbn [write_loop w_frags w_status]. exists []. rewrite app_nil_r.
      repeat split; try congruence. exists []. reflexivity. }
    remember (b :: buf) as bb eqn:Ebb.
    destruct e as [k| |].
    + assert (W : write_loop (WAccept k :: s) bb frags =
                  write_loop s (skipn (Nat.min k (length bb)) bb) (frags ++ [firstn (Nat.min k (length bb)) bb])).
      { subst bb. reflexivity. }
      rewrite W. set (ret := Nat.min k (length bb)).
      destruct (IH (skipn ret bb) (frags ++ [firstn ret bb])) as [em [F [P [D NC]]]].
      exists (firstn ret bb :: em). rewrite F, <- app_assoc. cbn [app concat].
      repeat split; auto.
      * destruct P as [rest P]. exists rest. rewrite <- app_assoc, <- P. symmetry. apply firstn_skipn.
      * intros Dn. rewrite (D Dn). apply firstn_skipn.
    + assert (W : write_loop (WIntr :: s) bb frags = write_loop s bb frags) by (subst bb; reflexivity).
      rewrite W. apply IH.
    + assert (W : write_loop (WErr :: s) bb frags = {| w_status := WFail; w_frags := frags; w_rest := s |})
        by (subst bb; reflexivity).
      rewrite W. cbn [w_frags w_status]. exists []. rewrite app_nil_r.
      repeat split; try congruence. exists bb. reflexivity.
Qed.

Lemma send_msg_spec sched m :
  let w := send_msg sched m in
  prefix_of (concat (w_frags w)) (enc m) /\
  (w_status w = WDone -> concat (w_frags w) = enc m) /\ w_status w <> WCrash.
Proof.
  cbn zeta.
  assert (V : forall iov, iov = iov_of m ->
              prefix_of (concat (w_frags (writev_all sched iov))) (enc m) /\
              (w_status (writev_all sched iov) = WDone -> concat (w_frags (writev_all sched iov)) = enc m) /\
              w_status (writev_all sched iov) <> WCrash).
  { intros iov ->. apply writev_all_spec. }
  destruct m; try (apply V; reflexivity).
  unfold send_msg, write_all.
  destruct (write_loop_spec sched (enc MEnd) []) as [em [F [P [D NC]]]]. cbn [app] in F. rewrite F. auto.
Qed.

(* a writer that sends messages one after the other puts a prefix of the concatenated encodings on
   the wire - all of it when every call returned 0 - for EVERY schedule of short counts *)
Lemma send_all_spec : forall ms sched,
  let '(st, fr) := send_all sched ms in
  prefix_of (concat fr) (concat (map enc ms)) /\
  (st = WDone -> concat fr = concat (map enc ms)) /\ st <> WCrash.
Proof.
  induction ms as [|m r IH]; intros sched.
  - cbn. repeat split; try congruence. exists []. reflexivity.
  - cbn [send_all map concat].
    destruct (send_msg_spec sched m) as [P [D NC]].
    destruct (w_status (send_msg sched m)) eqn:S.
    + specialize (IH (w_rest (send_msg sched m))).
      destruct (send_all (w_rest (send_msg sched m)) r) as [st fr].
      destruct IH as [P' [D' NC']]. rewrite concat_app, (D eq_refl).
      repeat split; auto.
      * destruct P' as [rest P']. exists rest. rewrite <- app_assoc, <- P'. reflexivity.
      * intros Dn. rewrite (D' Dn). reflexivity.
    + repeat split; try congruence. destruct P as [rest P]. exists (rest ++ concat (map enc r)).
      rewrite P, <- app_assoc. reflexivity.
    + repeat split; try congruence. destruct P as [rest P]. exists (rest ++ concat (map enc r)).
      rewrite P, <- app_assoc. reflexivity.
    + congruence.
Qed.

(* progress: without errors and with enough accepted bytes the loop completes *)
Fixpoint capacity (sched : list wev) : nat :=
  match sched with
  | [] => 0
  | WAccept k :: s => k + capacity s
  | _ :: s => capacity s
  end.
Definition no_werr (sched : list wev) : bool :=
  forallb (fun e => match e with WErr => false | _ => true end) sched.

Lemma writev_loop_progress : forall sched iov frags, no_werr sched = true ->
  (total iov <= capacity sched)%nat -> w_status (writev_loop sched iov (total iov) frags) = WDone.
Proof.
  induction sched as [|e s IH]; intros iov frags NE C.
  - cbn in C. assert (T : total iov = 0%nat) by lia. rewrite T. reflexivity.
  - destruct (total iov) eqn:T; [reflexivity|]. rewrite <- T.
    cbn in NE. apply andb_true_iff in NE. destruct NE as [Ne NE].
    destruct e as [k| |]; try discriminate Ne.
    + rewrite T. cbn [writev_loop]. rewrite <- T. cbn [capacity] in C.
      set (ret := Nat.min k (total iov)).
      destruct (total iov - ret =? 0)%nat eqn:Z; [reflexivity|].
      apply Nat.eqb_neq in Z. destruct (advance_spec iov ret) as [iov' [A Cc]]; [lia|]. rewrite A.
      assert (T' : (total iov - ret)%nat = total iov').
      { unfold total. rewrite Cc, skipn_length. reflexivity. }
      rewrite T'. apply IH; auto. lia.
    + rewrite T. cbn [writev_loop]. rewrite <- T. apply IH; auto. cbn [capacity] in C. lia.
Qed.

(* ------------------------------------------------------------------ numbers *)
Lemma dec_be16 n : dec_be (be16 n) = n mod 65536.
Proof. unfold dec_be, be16. cbn [fold_left]. lia. Qed.
Lemma dec_be32 n : dec_be (be32 n) = n mod 4294967296.
Proof. unfold dec_be, be32. cbn [fold_left]. lia. Qed.

Lemma rev_range_length off len l : length (rev_range off len l) = length l.
Proof.
  unfold rev_range. rewrite !app_length, rev_length, !firstn_length, !skipn_length. lia.
Qed.
Lemma swap_hdr_length h : length (swap_hdr h) = length h.
Proof. unfold swap_hdr. rewrite !rev_range_length. reflexivity. Qed.

(* the receiver's ntoh* undo the sender's hton* field by field *)
Lemma swap_hdr_invol h : length h = HDR -> swap_hdr (swap_hdr h) = h.
Proof.
  intros H. change (length h = 40%nat) in H.
  do 40 (destruct h as [|? h]; [discriminate H|]).
  destruct h; [|discriminate H]. reflexivity.
Qed.
