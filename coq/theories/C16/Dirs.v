(* C16 - directories: network recording == local recording; clients with independent directory
   names are isolated; the two ways in which the code as it is breaks the property. *)
From Coq Require Import String Ascii.
From Coq Require Import NArith ZArith List Bool Arith Lia.
From Coq Require Import ZifyBool ZifyN ZifyNat.
Import ListNotations.
Require Import UV.Gen.Consts UV.C16.Model UV.C16.Proofs UV.C16.Frame.
Local Open Scope N_scope.

(* ------------------------------------------------------------------ names *)
Lemma list_eqb_refl a : list_eqb a a = true.
Proof. induction a as [|x a IH]; [reflexivity|]. cbn. rewrite N.eqb_refl, IH. reflexivity. Qed.
Lemma list_eqb_eq : forall a b, list_eqb a b = true -> a = b.
Proof.
  induction a as [|x a IH]; destruct b as [|y b]; cbn; intros H; try discriminate; [reflexivity|].
  apply andb_true_iff in H. destruct H as [H1 H2]. apply N.eqb_eq in H1. subst. f_equal. apply IH. exact H2.
Qed.
Lemma list_eqb_neq a b : a <> b -> list_eqb a b = false.
Proof. intros H. destruct (list_eqb a b) eqn:E; [|reflexivity]. apply list_eqb_eq in E. contradiction. Qed.

Lemma fs_set_same d v fs : fs_set d v fs d = v.
Proof. unfold fs_set. rewrite list_eqb_refl. reflexivity. Qed.
Lemma fs_set_other d v fs x : x <> d -> fs_set d v fs x = fs x.
Proof. intros H. unfold fs_set. rewrite list_eqb_neq by exact H. reflexivity. Qed.

Lemma old_of_neq d : d <> old_of d.
Proof.
  unfold old_of. intros H. apply (f_equal (@length _)) in H. rewrite app_length in H. cbn in H. lia.
Qed.
Lemma old_of_inj a b : old_of a = old_of b -> a = b.
Proof. unfold old_of. apply app_inv_tail. Qed.

(* ------------------------------------------------------------------ runs *)
Lemma run_app fx : forall a b s, run fx (a ++ b) s = match run fx a s with Some s' => run fx b s' | None => None end.
Proof.
  induction a as [|[k m] a IH]; intros b s; [reflexivity|]. cbn [app run].
  destruct (apply fx k (action_of m) s); [apply IH|reflexivity].
Qed.

Definition is_body (m : msg) : bool := match m with MDir _ | MEnd => false | _ => true end.

Lemma apply_body fx k d m s files : is_body m = true -> find_client k (clients s) = Some d -> fs s d = Some files ->
  apply fx k (action_of m) s = Some {| clients := clients s; fs := fs_set d (Some (local_write m files)) (fs s) |}.
Proof.
  intros B F D. destruct m; cbn [is_body] in B; try discriminate B;
    cbn [action_of apply local_write]; rewrite F, D; reflexivity.
Qed.

Lemma run_body fx k d : forall body s files, forallb is_body body = true ->
  find_client k (clients s) = Some d -> fs s d = Some files ->
  exists s', run fx (map (pair k) body) s = Some s' /\ clients s' = clients s /\
             fs s' d = Some (fold_left (fun es m => local_write m es) body files) /\
             (forall x, x <> d -> fs s' x = fs s x).
Proof.
  induction body as [|m r IH]; intros s files B F D.
  - exists s. cbn. auto.
  - cbn [forallb] in B. apply andb_true_iff in B. destruct B as [Bm Br].
    cbn [map run]. rewrite (apply_body fx k d m s files Bm F D).
    destruct (IH {| clients := clients s; fs := fs_set d (Some (local_write m files)) (fs s) |} (local_write m files) Br)
      as [s' [R [C [Fd Fo]]]]; cbn [clients fs]; auto using fs_set_same.
    exists s'. cbn [fold_left]. repeat split; auto.
    intros x Hx. rewrite (Fo x Hx). cbn [fs]. apply fs_set_other. exact Hx.
Qed.

(* NETWORK == LOCAL on the level of messages: a session MDir d; body; MEnd handled by the server leaves in
   directory d exactly what the recorder writes locally for the same buffers and files (default.opts
   aside, which create_directory makes on both sides), touches no other directory except for the
   rotation done by create_directory, and leaves the client list as it was. *)
Lemma same_as_local fx k d body s :
  forallb is_body body = true -> mkdir_name fx d (clients s) = Some d ->
  create_directory d (fs s) d = Some fresh_dir ->
  exists s', run fx (map (pair k) (MDir d :: body ++ [MEnd])) s = Some s' /\
             fs s' d = Some (local_dir body) /\ clients s' = clients s /\
             (forall x, x <> d -> fs s' x = create_directory d (fs s) x).
Proof.
  intros B MK C. cbn [map]. rewrite map_app. cbn [run action_of apply]. rewrite MK.
  rewrite run_app.
  destruct (run_body fx k d body {| clients := (k, d) :: clients s; fs := create_directory d (fs s) |} fresh_dir B)
    as [s1 [R [Cl [Fd Fo]]]]; cbn [clients fs find_client]; try rewrite N.eqb_refl; auto.
  rewrite R. cbn [map run action_of apply]. eexists. split; [reflexivity|]. cbn [fs clients].
  rewrite Cl. cbn [clients del_client]. rewrite N.eqb_refl. auto.
Qed.

Lemma create_directory_absent d fs : fs d = None -> create_directory d fs d = Some fresh_dir.
Proof. intros H. unfold create_directory. rewrite H. apply fs_set_same. Qed.

(* ------------------------------------------------------------------ sender + transport + receiver *)
Lemma stream_of_own k ms : stream_of k (map (pair k) ms) = concat (map enc ms).
Proof.
  induction ms as [|m r IH]; [reflexivity|]. cbn [map]. rewrite stream_of_cons_same. cbn [concat]. rewrite IH. reflexivity.
Qed.
Lemma stream_of_foreign k k' ms : k' <> k -> stream_of k' (map (pair k) ms) = [].
Proof.
  intros H. induction ms as [|m r IH]; [reflexivity|]. cbn [map]. rewrite stream_of_cons_other by exact H. exact IH.
Qed.
Lemma map_fst_pair (k : N) (ms : list msg) : map (@fst N msg) (map (pair k) ms) = repeat k (length ms).
Proof. induction ms as [|m r IH]; [reflexivity|]. cbn. rewrite IH. reflexivity. Qed.

(* END TO END in the model: the recorder sends a session under ANY schedule of short writes / EINTR
   (all calls succeeding), the stream reaches the receiver in ANY segmentation, and the directory the
   receiver ends up with is the directory local recording writes. *)
Lemma network_equals_local fx k d body sched fr t s :
  forallb wf_msg (MDir d :: body ++ [MEnd]) = true -> forallb is_body body = true ->
  fs s d = None -> mkdir_name fx d (clients s) = Some d ->
  send_all sched (MDir d :: body ++ [MEnd]) = (WDone, fr) ->
  good t = true -> bytes_of t = concat fr ->
  exists s' tm', serve fx (repeat k (length body + 2)) (tm_set k t (fun _ => [])) s = Some (s', tm') /\
                 fs s' d = Some (local_dir body) /\ (forall x, x <> d -> fs s' x = fs s x).
Proof.
  intros W B A MK S G Bt.
  set (ms := MDir d :: body ++ [MEnd]) in *.
  assert (Hs := send_all_spec ms sched). rewrite S in Hs. destruct Hs as [_ [Hd _]]. specialize (Hd eq_refl).
  destruct (same_as_local fx k d body s B MK (create_directory_absent d (fs s) A)) as [s' [R [Fd [Cl Fo]]]].
  fold ms in R.
  assert (RT := serve_roundtrip fx (map (pair k) ms) (tm_set k t (fun _ => [])) s (fun _ => [])).
  rewrite R, map_fst_pair in RT.
  destruct RT as [tm' [Sv _]].
  - clear -W. induction ms as [|m r IH]; [reflexivity|]. cbn [map forallb snd] in *.
    apply andb_true_iff in W. destruct W as [W1 W2]. rewrite W1, IH by exact W2. reflexivity.
  - intros k'. unfold tm_set. destruct (k' =? k); [exact G|reflexivity].
  - intros k'. unfold tm_set. destruct (k' =? k) eqn:E.
    + apply N.eqb_eq in E. subst k'. rewrite stream_of_own, app_nil_r, Bt, Hd. reflexivity.
    + apply N.eqb_neq in E. rewrite stream_of_foreign by exact E. reflexivity.
  - exists s', tm'. replace (length body + 2)%nat with (length ms).
    + split; [exact Sv|]. split; [exact Fd|]. intros x Hx. rewrite (Fo x Hx). unfold create_directory. rewrite A.
      apply fs_set_other. exact Hx.
    + subst ms. cbn [length]. rewrite app_length. cbn. lia.
Qed.

(* ------------------------------------------------------------------ isolation of clients *)
Definition indep (a b : bytes) : Prop := a <> b /\ a <> old_of b /\ b <> old_of a.

Definition mine (k : N) (cl : list (N * bytes)) : list (N * bytes) := filter (fun e => fst e =? k) cl.

Lemma find_client_mine k cl :
  find_client k cl = match mine k cl with [] => None | e :: _ => Some (snd e) end.
Proof.
  induction cl as [|[j d] cl IH]; [reflexivity|]. cbn [find_client mine filter fst].
  destruct (j =? k); [reflexivity|]. exact IH.
Qed.
Lemma mine_del_same k cl : mine k (del_client k cl) = tl (mine k cl).
Proof.
  induction cl as [|[j d] cl IH]; [reflexivity|]. cbn [del_client mine filter fst].
  destruct (j =? k) eqn:E; [reflexivity|]. cbn [filter fst]. rewrite E. exact IH.
Qed.
Lemma mine_del_other k j cl : j <> k -> mine k (del_client j cl) = mine k cl.
Proof.
  intros H. induction cl as [|[i d] cl IH]; [reflexivity|]. cbn [del_client mine filter fst].
  destruct (i =? j) eqn:E.
  - apply N.eqb_eq in E. subst i. destruct (j =? k) eqn:E2; [apply N.eqb_eq in E2; contradiction|reflexivity].
  - cbn [filter fst]. destruct (i =? k); [f_equal|]; exact IH.
Qed.

(* the values create_directory leaves at d and d.old are a function of the values found there *)
Lemma create_directory_at d f1 f2 :
  f1 d = f2 d -> f1 (old_of d) = f2 (old_of d) ->
  create_directory d f1 d = create_directory d f2 d /\
  create_directory d f1 (old_of d) = create_directory d f2 (old_of d).
Proof.
  intros H1 H2. unfold create_directory. rewrite <- H1, <- H2.
  assert (N2 : old_of d <> d) by (apply not_eq_sym, old_of_neq).
  assert (K : forall v w g1 g2, fs_set d v (fs_set (old_of d) w g1) d = fs_set d v (fs_set (old_of d) w g2) d /\
                                 fs_set d v (fs_set (old_of d) w g1) (old_of d) = fs_set d v (fs_set (old_of d) w g2) (old_of d)).
  { intros v w g1 g2. rewrite !fs_set_same. rewrite !(fs_set_other d) by exact N2. rewrite !fs_set_same. split; reflexivity. }
  destruct (f1 d) as [files|] eqn:E1.
  - destruct (can_remove files); [|split; congruence].
    destruct (f1 (old_of d)) as [ofiles|] eqn:E2.
    + destruct (can_remove ofiles); [apply K|split; congruence].
    + apply K.
  - rewrite !fs_set_same. rewrite !(fs_set_other d) by exact N2. split; congruence.
Qed.
(* ... and it touches nothing but d and d.old *)
Lemma create_directory_elsewhere d f x : x <> d -> x <> old_of d -> create_directory d f x = f x.
Proof.
  intros H1 H2. unfold create_directory.
  destruct (f d) as [files|].
  - destruct (can_remove files); [|reflexivity].
    destruct (f (old_of d)) as [ofiles|].
    + destruct (can_remove ofiles); [|reflexivity]. rewrite !fs_set_other by assumption. reflexivity.
    + rewrite !fs_set_other by assumption. reflexivity.
  - rewrite fs_set_other by assumption. reflexivity.
Qed.

Section Isolation.
  Variable dirs : N -> bytes.            (* the directory name each connection announces *)
  Variable k : N.                        (* the client we look at *)
  Let dk := dirs k.

  Definition ev_ok (e : N * msg) : Prop :=
    (forall x, snd e = MDir x -> x = dirs (fst e)) /\ (fst e <> k -> indep (dirs (fst e)) dk).
  Definition inv (s : server) : Prop := Forall (fun e => snd e = dirs (fst e)) (clients s).
  Definition rel (s1 s2 : server) : Prop :=
    mine k (clients s1) = mine k (clients s2) /\ fs s1 dk = fs s2 dk /\ fs s1 (old_of dk) = fs s2 (old_of dk).

  Lemma inv_find s j d : inv s -> find_client j (clients s) = Some d -> d = dirs j.
  Proof.
    unfold inv. induction (clients s) as [|[i x] cl IH]; cbn [find_client]; intros I F; [discriminate|].
    inversion I as [|? ? Hx Hr]; subst. destruct (i =? j) eqn:E.
    - apply N.eqb_eq in E. subst. cbn in Hx. congruence.
    - apply IH; assumption.
  Qed.
  Lemma inv_del s j : inv s -> Forall (fun e => snd e = dirs (fst e)) (del_client j (clients s)).
  Proof.
    unfold inv. induction (clients s) as [|[i x] cl IH]; cbn [del_client]; intros I; [constructor|].
    inversion I as [|? ? Hx Hr]; subst. destruct (i =? j); [exact Hr|]. constructor; [exact Hx|apply IH; exact Hr].
  Qed.

  (* a step of ANOTHER client leaves everything client k can observe unchanged *)
  Lemma step_other j m s1 s1' s2 : j <> k -> ev_ok (j, m) -> inv s1 -> rel s1 s2 ->
    apply false j (action_of m) s1 = Some s1' -> inv s1' /\ rel s1' s2.
  Proof.
    intros Hj [Hd Hi] I [Rm [Rd Ro]] A. cbn [fst snd] in *. destruct (Hi Hj) as [I1 [I2 I3]].
    assert (Mk : forall x, mine k ((j, x) :: clients s1) = mine k (clients s1)).
    { intros x. cbn [mine filter fst]. destruct (j =? k) eqn:E; [apply N.eqb_eq in E; contradiction|reflexivity]. }
    destruct m; cbn [action_of apply] in A.
    - (* MDir *) injection A as <-. rewrite (Hd name eq_refl) in *. split.
      + constructor; [reflexivity|exact I].
      + unfold rel. cbn [clients fs]. rewrite Mk. split; [exact Rm|].
        assert (Q1 : dk <> dirs j) by congruence.
        assert (Q2 : old_of dk <> dirs j) by congruence.
        assert (Q3 : old_of dk <> old_of (dirs j)) by (intros E; apply old_of_inj in E; congruence).
        rewrite !create_directory_elsewhere by assumption. auto.
    - destruct (find_client j (clients s1)) as [dd|] eqn:F; [|discriminate].
      rewrite (inv_find s1 j dd I F) in *. destruct (fs s1 (dirs j)); [|discriminate]. injection A as <-.
      split; [exact I|]. unfold rel. cbn [clients fs]. rewrite !fs_set_other by congruence. auto.
    - destruct (find_client j (clients s1)) as [dd|] eqn:F; [|discriminate].
      rewrite (inv_find s1 j dd I F) in *. destruct (fs s1 (dirs j)); [|discriminate]. injection A as <-.
      split; [exact I|]. unfold rel. cbn [clients fs]. rewrite !fs_set_other by congruence. auto.
    - destruct (find_client j (clients s1)) as [dd|] eqn:F; [|discriminate].
      rewrite (inv_find s1 j dd I F) in *. destruct (fs s1 (dirs j)); [|discriminate]. injection A as <-.
      split; [exact I|]. unfold rel. cbn [clients fs]. rewrite !fs_set_other by congruence. auto.
    - destruct (find_client j (clients s1)) as [dd|] eqn:F; [|discriminate].
      rewrite (inv_find s1 j dd I F) in *. destruct (fs s1 (dirs j)); [|discriminate]. injection A as <-.
      split; [exact I|]. unfold rel. cbn [clients fs]. rewrite !fs_set_other by congruence. auto.
    - destruct (find_client j (clients s1)) as [dd|] eqn:F; [|discriminate].
      rewrite (inv_find s1 j dd I F) in *. destruct (fs s1 (dirs j)); [|discriminate]. injection A as <-.
      split; [exact I|]. unfold rel. cbn [clients fs]. rewrite !fs_set_other by congruence. auto.
    - (* MEnd *) injection A as <-. split; [apply inv_del; exact I|].
      unfold rel. cbn [clients fs]. rewrite mine_del_other by exact Hj. auto.
  Qed.

  (* a step of client k itself depends only on what client k can observe *)
  Lemma step_own m s1 s1' s2 : ev_ok (k, m) -> inv s1 -> rel s1 s2 ->
    apply false k (action_of m) s1 = Some s1' ->
    exists s2', apply false k (action_of m) s2 = Some s2' /\ inv s1' /\ rel s1' s2'.
  Proof.
    intros [Hd _] I [Rm [Rd Ro]] A. cbn [fst snd] in *.
    assert (F12 : find_client k (clients s1) = find_client k (clients s2)) by (rewrite !find_client_mine, Rm; reflexivity).
    assert (App : forall f data, apply false k (AAppend f data) s1 = Some s1' ->
              exists s2', apply false k (AAppend f data) s2 = Some s2' /\ inv s1' /\ rel s1' s2').
    { intros f data A'. cbn [apply] in *. rewrite <- F12.
      destruct (find_client k (clients s1)) as [dd|] eqn:F; [|discriminate].
      rewrite (inv_find s1 k dd I F) in *. fold dk in A' |- *. rewrite <- Rd.
      destruct (fs s1 dk) as [files|]; [|discriminate]. injection A' as <-.
      eexists. split; [reflexivity|]. split; [exact I|]. unfold rel. cbn [clients fs].
      rewrite !fs_set_same. rewrite !fs_set_other by (apply not_eq_sym, old_of_neq). auto. }
    destruct m; cbn [action_of] in *; try (apply App; exact A).
    - (* MDir *) cbn [apply] in *. injection A as <-. rewrite (Hd name eq_refl). fold dk.
      eexists. split; [reflexivity|]. split; [constructor; [reflexivity|exact I]|].
      unfold rel. cbn [clients fs mine filter fst]. rewrite N.eqb_refl. fold (mine k (clients s1)) (mine k (clients s2)).
      rewrite Rm. destruct (create_directory_at dk (fs s1) (fs s2) Rd Ro) as [C1 C2]. auto.
    - (* MEnd *) cbn [apply] in *. injection A as <-. eexists. split; [reflexivity|].
      split; [apply inv_del; exact I|]. unfold rel. cbn [clients fs]. rewrite !mine_del_same, Rm. auto.
  Qed.

  Definition own (evs : list (N * msg)) : list (N * msg) := filter (fun e => fst e =? k) evs.

  (* ISOLATION: whatever the interleaving with other clients (whose directory names are independent
     of k's), the state client k can observe after the whole run is the state after k's own messages *)
  Lemma isolated : forall evs s1 s2 s1', Forall ev_ok evs -> inv s1 -> rel s1 s2 ->
    run false evs s1 = Some s1' -> exists s2', run false (own evs) s2 = Some s2' /\ rel s1' s2'.
  Proof.
    induction evs as [|[j m] r IH]; intros s1 s2 s1' E I R Rn.
    - cbn in Rn. injection Rn as <-. exists s2. split; [reflexivity|exact R].
    - inversion E as [|? ? Ejm Er]; subst. cbn [run] in Rn.
      destruct (apply false j (action_of m) s1) as [s1a|] eqn:A; [|discriminate].
      cbn [own filter fst]. destruct (j =? k) eqn:Ejk.
      + apply N.eqb_eq in Ejk. subst j.
        destruct (step_own m s1 s1a s2 Ejm I R A) as [s2a [A2 [I' R']]].
        cbn [run]. rewrite A2. apply (IH s1a s2a s1' Er I' R' Rn).
      + apply N.eqb_neq in Ejk.
        destruct (step_other j m s1 s1a s2 Ejk Ejm I R A) as [I' R'].
        apply (IH s1a s2 s1' Er I' R' Rn).
  Qed.
End Isolation.

Definition server0 : server := {| clients := []; fs := fs_empty |}.

Theorem clients_isolated dirs k evs s' :
  Forall (ev_ok dirs k) evs -> run false evs server0 = Some s' ->
  exists s'', run false (own k evs) server0 = Some s'' /\
              fs s' (dirs k) = fs s'' (dirs k) /\ fs s' (old_of (dirs k)) = fs s'' (old_of (dirs k)).
Proof.
  intros E R. destruct (isolated dirs k evs server0 server0 s' E) as [s'' [R' [_ [H1 H2]]]]; auto.
  - constructor.
  - repeat split.
  - exists s''. auto.
Qed.

(* ------------------------------------------------------------------ the code as it is: two refutations *)
(* (1) two clients that are connected at the same time and announce the SAME directory name - e.g. the
   default "uftrace.data" from two machines: the second SEND_DIR_NAME rotates the first client's
   directory away and from then on both clients append to the same files. *)
Definition ud : bytes := str "uftrace.data".
Definition evs_same : list (N * msg) :=
  [(1, MDir ud); (1, MData 11 [65]); (2, MDir ud); (1, MData 11 [66]); (2, MData 22 [67]);
   (1, MMeta n_task [97]); (2, MMeta n_task [98]); (1, MEnd); (2, MEnd)].
Definition dir_after (evs : list (N * msg)) (d : bytes) : option dirent :=
  match run false evs server0 with Some s => fs s d | None => None end.

Lemma same_dirname_mixes :
  forallb (fun e => wf_msg (snd e)) evs_same = true /\
  (* what client 2 gets when it is alone *)
  dir_after (own 2 evs_same) ud = Some [(n_default_opts, []); (dat_name 22, [67]); (n_task, [98])] /\
  (* what is in "its" directory after the interleaved run: client 1's second buffer and task file too *)
  dir_after evs_same ud = Some [(n_default_opts, []); (dat_name 11, [66]); (dat_name 22, [67]); (n_task, [97; 98])] /\
  (* and client 1's recording is torn: its first buffer went to uftrace.data.old *)
  dir_after evs_same (old_of ud) = Some [(n_default_opts, []); (dat_name 11, [65])].
Proof. vm_compute. repeat split; reflexivity. Qed.

(* (2) two writer threads of ONE recorder share the socket without a lock: when writev returns a short
   count in one thread, the other thread's message goes in between; the receiver then reads garbage as
   the next header and exits ("invalid message").  Sequentially (either order) all is well. *)
Fixpoint interleave (pick : list bool) (a b : list bytes) : list bytes :=
  match pick with
  | [] => a ++ b
  | true :: p => match a with x :: a' => x :: interleave p a' b | [] => b end
  | false :: p => match b with y :: b' => y :: interleave p a b' | [] => a end
  end.
Definition m_t1 : msg := MData 11 [1; 2; 3; 4].
Definition m_t2 : msg := MData 22 [9].
Definition frags_t1 : list bytes := w_frags (send_msg [WAccept 8; WAccept 100] m_t1).   (* short count = header *)
Definition frags_t2 : list bytes := w_frags (send_msg [WAccept 100] m_t2).
Definition after_stream (b : bytes) : option (option dirent) :=
  match serve_stream false (S (length b)) 1 (segment [] b) server0 with
  | Some s => Some (fs s ud)
  | None => None
  end.

Lemma shared_socket_breaks_framing :
  wf_msg m_t1 = true /\ wf_msg m_t2 = true /\
  w_status (send_msg [WAccept 8; WAccept 100] m_t1) = WDone /\ w_status (send_msg [WAccept 100] m_t2) = WDone /\
  (* one writer after the other: both buffers arrive *)
  after_stream (enc (MDir ud) ++ enc m_t1 ++ enc m_t2 ++ enc MEnd)
    = Some (Some [(n_default_opts, []); (dat_name 11, [1; 2; 3; 4]); (dat_name 22, [9])]) /\
  (* thread 2's writev lands between the two writev calls of thread 1: the server dies *)
  after_stream (enc (MDir ud) ++ concat (interleave [true; false] frags_t1 frags_t2) ++ enc MEnd) = None.
Proof. vm_compute. repeat split; reflexivity. Qed.

(* non-vacuity of the hypotheses of [clients_isolated] *)
Definition dirs2 (k : N) : bytes := if k =? 1 then str "a.data" else str "b.data".
Definition evs2 : list (N * msg) :=
  [(1, MDir (str "a.data")); (2, MDir (str "b.data")); (1, MData 5 [1]); (2, MData 6 [2]); (1, MEnd); (2, MEnd)].
Example isolation_nonvacuous : Forall (ev_ok dirs2 1) evs2 /\ run false evs2 server0 <> None.
Proof.
  split.
  - unfold evs2. repeat apply Forall_cons; try apply Forall_nil; unfold ev_ok; cbn [fst snd]; split; intros; try discriminate; try congruence;
      try (match goal with H : MDir _ = MDir _ |- _ => injection H as <-; reflexivity end);
      try (unfold indep; vm_compute; repeat split; discriminate).
  - vm_compute. discriminate.
Qed.

(* ------------------------------------------------------------------ many tasks: order across files *)
(* what a message appends, and to which file *)
Definition target (m : msg) : option (bytes * bytes) :=
  match m with
  | MData t d => Some (dat_name t, d)
  | MKernel c d => Some (kernel_name c, d)
  | MPerf c d => Some (perf_name c, d)
  | MMeta f d => Some (f, d)
  | MInfo h i => Some (n_info, h ++ i)
  | _ => None
  end.
Lemma local_write_target m es :
  local_write m es = match target m with Some (f, x) => dappend f x es | None => es end.
Proof. destruct m; reflexivity. Qed.

(* the pieces written to file f, in order *)
Fixpoint written (f : bytes) (body : list msg) : list bytes :=
  match body with
  | [] => []
  | m :: r => match target m with
              | Some (g, x) => if list_eqb f g then x :: written f r else written f r
              | None => written f r
              end
  end.

Lemma list_eqb_spec a b : reflect (a = b) (list_eqb a b).
Proof.
  destruct (list_eqb a b) eqn:E; constructor.
  - apply list_eqb_eq. exact E.
  - intros ->. rewrite list_eqb_refl in E. discriminate.
Qed.

Lemma flookup_dappend f g x es :
  flookup f (dappend g x es) =
  if list_eqb f g then Some (match flookup g es with Some c => c ++ x | None => x end) else flookup f es.
Proof.
  induction es as [|[h c] es IH]; cbn [dappend flookup].
  - destruct (list_eqb_spec f g); reflexivity.
  - destruct (list_eqb_spec g h) as [->|Ngh]; cbn [flookup].
    + destruct (list_eqb_spec f h); reflexivity.
    + destruct (list_eqb_spec f h) as [->|Nfh].
      * destruct (list_eqb_spec h g); [congruence|reflexivity].
      * exact IH.
Qed.

Definition extend (o : option bytes) (ps : list bytes) : option bytes :=
  match o, ps with
  | None, [] => None
  | None, _ => Some (concat ps)
  | Some c, _ => Some (c ++ concat ps)
  end.

Lemma flookup_fold f : forall body es,
  flookup f (fold_left (fun es m => local_write m es) body es) = extend (flookup f es) (written f body).
Proof.
  induction body as [|m r IH]; intros es; cbn [fold_left written].
  - unfold extend. destruct (flookup f es); [rewrite app_nil_r|]; reflexivity.
  - rewrite IH, local_write_target. destruct (target m) as [[g x]|]; [|reflexivity].
    rewrite flookup_dappend. destruct (list_eqb_spec f g) as [->|N]; [|reflexivity].
    unfold extend. cbn [concat]. destruct (flookup g es) as [c|].
    + rewrite <- app_assoc. reflexivity.
    + destruct (written g r); cbn [concat]; [rewrite app_nil_r|]; reflexivity.
Qed.

(* the content of every file depends only on the pieces written to THAT file, in their order: buffers of
   different tasks (and metadata files) may be sent/written in any relative order *)
Lemma files_independent body1 body2 :
  (forall f, written f body1 = written f body2) ->
  forall f, flookup f (local_dir body1) = flookup f (local_dir body2).
Proof. intros H f. unfold local_dir. rewrite !flookup_fold, H. reflexivity. Qed.

Example files_independent_ex :
  let b1 := [MData 1 [1]; MData 2 [2]; MData 1 [3]] in
  let b2 := [MData 2 [2]; MData 1 [1]; MData 1 [3]] in
  (forall f, written f b1 = written f b2) /\ local_dir b1 <> local_dir b2.
Proof.
  cbn zeta. split.
  - intros f. cbn [written target]. destruct (list_eqb_spec f (dat_name 1)) as [->|N1].
    + change (list_eqb (dat_name 1) (dat_name 2)) with false. reflexivity.
    + destruct (list_eqb f (dat_name 2)); reflexivity.
  - vm_compute. discriminate.
Qed.

(* ------------------------------------------------------------------ well-formed sessions never kill the server *)
Lemma create_directory_present d f : create_directory d f d <> None.
Proof.
  unfold create_directory. destruct (f d) as [files|] eqn:E.
  - destruct (can_remove files).
    + destruct (f (old_of d)) as [ofiles|].
      * destruct (can_remove ofiles); [rewrite fs_set_same; discriminate|congruence].
      * rewrite fs_set_same. discriminate.
    + congruence.
  - rewrite fs_set_same. discriminate.
Qed.

Lemma find_client_del_other i j cl : i <> j -> find_client i (del_client j cl) = find_client i cl.
Proof.
  intros H. induction cl as [|[s d] cl IH]; [reflexivity|]. cbn [del_client find_client].
  destruct (s =? j) eqn:E.
  - apply N.eqb_eq in E. subst s. destruct (j =? i) eqn:E2; [apply N.eqb_eq in E2; congruence|reflexivity].
  - cbn [find_client]. destruct (s =? i); [reflexivity|exact IH].
Qed.

Section Survive.
  Variable dirs : N -> bytes.
  Variable P : N -> Prop.                         (* the connections of the run *)
  Hypothesis pair_indep : forall i j, P i -> P j -> i <> j -> indep (dirs i) (dirs j).

  Definition memb (j : N) (l : list N) : bool := existsb (N.eqb j) l.
  Lemma memb_In j l : memb j l = true <-> In j l.
  Proof.
    unfold memb. rewrite existsb_exists. split.
    - intros [x [I E]]. apply N.eqb_eq in E. subst. exact I.
    - intros I. exists j. split; [exact I|apply N.eqb_refl].
  Qed.

  (* every connection: SEND_DIR_NAME (its own name) first, then data/metadata, SEND_END last *)
  Fixpoint sessions (open : list N) (evs : list (N * msg)) : bool :=
    match evs with
    | [] => true
    | (j, MDir x) :: r => list_eqb x (dirs j) && negb (memb j open) && sessions (j :: open) r
    | (j, MEnd) :: r => memb j open && sessions (List.remove N.eq_dec j open) r
    | (j, _) :: r => memb j open && sessions open r
    end.

  Definition alive (open : list N) (s : server) : Prop :=
    forall j, In j open -> find_client j (clients s) = Some (dirs j) /\ fs s (dirs j) <> None.

  Lemma step_body j m open s : is_body m = true -> In j open -> alive open s ->
    exists s', apply false j (action_of m) s = Some s' /\ alive open s'.
  Proof.
    intros B I A. destruct (A j I) as [F D]. destruct (fs s (dirs j)) as [files|] eqn:E; [|congruence].
    rewrite (apply_body false j (dirs j) m s files B F E). eexists. split; [reflexivity|].
    intros i Ii. destruct (A i Ii) as [Fi Di]. cbn [clients fs]. split; [exact Fi|].
    unfold fs_set. destruct (list_eqb (dirs i) (dirs j)); [discriminate|exact Di].
  Qed.

  Lemma survive : forall evs open s, (forall e, In e evs -> P (fst e)) -> (forall j, In j open -> P j) ->
    sessions open evs = true -> alive open s -> run false evs s <> None.
  Proof.
    induction evs as [|[j m] r IH]; intros open s PE PO W A; [cbn; discriminate|].
    assert (Pj : P j) by (apply (PE (j, m)); left; reflexivity).
    assert (PEr : forall e, In e r -> P (fst e)) by (intros e I; apply PE; right; exact I).
    assert (Body : is_body m = true -> memb j open = true -> sessions open r = true -> run false ((j, m) :: r) s <> None).
    { intros B M Wr. apply memb_In in M. destruct (step_body j m open s B M A) as [s' [Ap A']].
      cbn [run]. rewrite Ap. apply (IH open s' PEr PO Wr A'). }
    destruct m; cbn [sessions] in W;
      try (apply andb_true_iff in W; destruct W as [W1 W2]; apply Body; [reflexivity|exact W1|exact W2]).
    - (* MDir *)
      apply andb_true_iff in W. destruct W as [W12 W3]. apply andb_true_iff in W12. destruct W12 as [W1 W2].
      apply list_eqb_eq in W1. subst name. cbn [run action_of apply].
      apply (IH (j :: open) _ PEr); [intros i [<-|I]; auto|exact W3|].
      intros i [<-|I]; cbn [clients fs find_client].
      + rewrite N.eqb_refl. split; [reflexivity|apply create_directory_present].
      + assert (Nij : j <> i).
        { intros ->. apply negb_true_iff in W2. apply memb_In in I. congruence. }
        destruct (j =? i) eqn:E; [apply N.eqb_eq in E; contradiction|].
        destruct (A i I) as [Fi Di]. split; [exact Fi|].
        destruct (pair_indep i j (PO i I) Pj (not_eq_sym Nij)) as [Q1 [Q2 Q3]].
        rewrite create_directory_elsewhere by assumption. exact Di.
    - (* MEnd *)
      apply andb_true_iff in W. destruct W as [W1 W2]. cbn [run action_of apply].
      apply (IH (List.remove N.eq_dec j open) _ PEr); [|exact W2|].
      + intros i I. apply in_remove in I. apply PO. apply I.
      + intros i I. apply in_remove in I. destruct I as [I Nij]. destruct (A i I) as [Fi Di].
        cbn [clients fs]. split; [|exact Di]. rewrite find_client_del_other by exact Nij. exact Fi.
  Qed.
End Survive.

Theorem sessions_survive dirs evs :
  (forall i j, In i (map fst evs) -> In j (map fst evs) -> i <> j -> indep (dirs i) (dirs j)) ->
  sessions dirs [] evs = true -> run false evs server0 <> None.
Proof.
  intros PI W. apply (survive dirs (fun i => In i (map fst evs)) PI evs [] server0); auto.
  - intros e I. apply in_map. exact I.
  - intros j [].
  - intros j [].
Qed.

Example sessions_nonvacuous : sessions dirs2 [] evs2 = true.
Proof. vm_compute. reflexivity. Qed.

(* ------------------------------------------------------------------ connection reset, descriptor re-used *)
Lemma serve_w_in fx : forall order rest tm s,
  serve_w fx (map WIn order ++ rest) tm s =
  match serve fx order tm s with Some (s1, tm1) => serve_w fx rest tm1 s1 | None => None end.
Proof.
  induction order as [|k r IH]; intros rest tm s; [reflexivity|]. cbn [map app serve_w serve].
  destruct (handle_client_sock fx (tm k)) as [|a t']; [reflexivity|].
  destruct (apply fx k a s) as [s'|]; [apply IH|reflexivity].
Qed.

Lemma forallb_wf_pair (k : N) (ms : list msg) :
  forallb wf_msg ms = true -> forallb (fun e : N * msg => wf_msg (snd e)) (map (pair k) ms) = true.
Proof.
  induction ms as [|m r IH]; [reflexivity|]. cbn [map forallb snd]. intros W.
  apply andb_true_iff in W. destruct W as [W1 W2]. rewrite W1, IH by exact W2. reflexivity.
Qed.

(* A client announces d1, sends body1 (and possibly the beginning [junk] of something more) and its
   connection is RESET: the hang-up removes its entry from the client table.  The next connection is accepted
   on the SAME descriptor number k and records into d2.  Whatever the segmentations: d2 ends up as the local
   recording of the second client, d1 holds exactly what the first one had completely sent, and the client
   table is as before. *)
Lemma reset_then_reuse fx k d1 body1 junk d2 body2 t1 t2 s :
  forallb wf_msg (MDir d1 :: body1) = true -> forallb wf_msg (MDir d2 :: body2 ++ [MEnd]) = true ->
  forallb is_body body1 = true -> forallb is_body body2 = true ->
  fs s d1 = None -> fs s d2 = None -> d1 <> d2 -> d1 <> old_of d2 ->
  mkdir_name fx d1 (clients s) = Some d1 -> mkdir_name fx d2 (clients s) = Some d2 ->
  good t1 = true -> bytes_of t1 = concat (map enc (MDir d1 :: body1)) ++ junk ->
  good t2 = true -> bytes_of t2 = concat (map enc (MDir d2 :: body2 ++ [MEnd])) ->
  exists s' tm',
    serve_w fx (map WIn (repeat k (S (length body1))) ++ [WHup k; WNew k t2] ++ map WIn (repeat k (length body2 + 2)))
            (tm_set k t1 (fun _ => [])) s = Some (s', tm') /\
    fs s' d1 = Some (local_dir body1) /\ fs s' d2 = Some (local_dir body2) /\ clients s' = clients s.
Proof.
  intros W1 W2 B1 B2 A1 A2 N12 N1o MK1 MK2 G1 Bt1 G2 Bt2.
  (* abstract run of the first session, with the hang-up acting as recv_trace_end *)
  destruct (same_as_local fx k d1 body1 s B1 MK1 (create_directory_absent d1 (fs s) A1)) as [s1 [R1 [F1 [C1 O1]]]].
  change (MDir d1 :: body1 ++ [MEnd]) with ((MDir d1 :: body1) ++ [MEnd]) in R1.
  rewrite map_app, run_app in R1.
  destruct (run fx (map (pair k) (MDir d1 :: body1)) s) as [sA|] eqn:RA; [|discriminate].
  cbn [map run action_of] in R1. destruct (apply fx k AEnd sA) as [s1'|] eqn:Hup; [|discriminate].
  injection R1 as ->.
  (* concrete: first session *)
  rewrite serve_w_in.
  assert (RT1 := serve_roundtrip fx (map (pair k) (MDir d1 :: body1)) (tm_set k t1 (fun _ => [])) s
                                 (fun x => if x =? k then junk else [])).
  rewrite RA, map_fst_pair in RT1. cbn [length] in RT1.
  destruct RT1 as [tmA [SvA TA]].
  { apply forallb_wf_pair. exact W1. }
  { intros k'. unfold tm_set. destruct (k' =? k); [exact G1|reflexivity]. }
  { intros k'. unfold tm_set. destruct (k' =? k) eqn:E.
    - apply N.eqb_eq in E. subst k'. rewrite stream_of_own. exact Bt1.
    - apply N.eqb_neq in E. rewrite stream_of_foreign by exact E. reflexivity. }
  rewrite SvA. cbn [app serve_w]. rewrite Hup.
  (* second session *)
  set (tmB := tm_set k t2 (tm_set k [] tmA)).
  assert (A2' : fs s1 d2 = None).
  { rewrite O1 by congruence. unfold create_directory. rewrite A1. rewrite fs_set_other by congruence. exact A2. }
  assert (MK2' : mkdir_name fx d2 (clients s1) = Some d2) by (rewrite C1; exact MK2).
  destruct (same_as_local fx k d2 body2 s1 B2 MK2' (create_directory_absent d2 (fs s1) A2')) as [s2 [R2 [F2 [C2 O2]]]].
  assert (RT2 := serve_roundtrip fx (map (pair k) (MDir d2 :: body2 ++ [MEnd])) tmB s1 (fun _ => [])).
  rewrite R2, map_fst_pair in RT2.
  destruct RT2 as [tm2 [Sv2 _]].
  { apply forallb_wf_pair. exact W2. }
  { intros k'. unfold tmB, tm_set. destruct (k' =? k); [exact G2|]. apply TA. }
  { intros k'. unfold tmB, tm_set. destruct (k' =? k) eqn:E.
    - apply N.eqb_eq in E. subst k'. rewrite stream_of_own, app_nil_r. exact Bt2.
    - rewrite stream_of_foreign by (apply N.eqb_neq; exact E). destruct (TA k') as [_ Tb]. rewrite Tb, E. reflexivity. }
  exists s2, tm2. split.
  - cbn [serve_w]. fold tmB.
    rewrite <- (app_nil_r (map WIn (repeat k (length body2 + 2)))), serve_w_in.
    replace (length body2 + 2)%nat with (length (MDir d2 :: body2 ++ [MEnd])) by (cbn [length]; rewrite app_length; cbn; lia).
    rewrite Sv2. reflexivity.
  - split; [|split; [exact F2|congruence]].
    rewrite O2 by exact N12. rewrite create_directory_elsewhere by assumption. exact F1.
Qed.
