(* C16 - several senders on one connection (the writer threads of `uftrace record --host`, each sending the buffers
   of the tasks it serves): when messages are ATOMIC on the wire (send_iov holds send_lock around writev_all), every
   interleaving of whole messages stores the same file contents. *)
From Coq Require Import String Ascii.
From Coq Require Import NArith ZArith List Bool Arith Lia.
Import ListNotations.
Require Import UV.Gen.Consts UV.C16.Model UV.C16.Proofs UV.C16.Frame UV.C16.Dirs.
Local Open Scope N_scope.

Definition senders := nat -> list msg.          (* what each sender still has to send, in its own order *)
Definition upd (s : senders) (i : nat) (l : list msg) : senders := fun j => if Nat.eqb j i then l else s j.

(* m is an interleaving of the senders' sequences at MESSAGE granularity *)
Inductive merge : senders -> list msg -> Prop :=
| merge_done s : (forall i, s i = []) -> merge s []
| merge_step s i x l m : s i = x :: l -> merge (upd s i l) m -> merge s (x :: m).

(* every file is written by one sender only (a task's buffers are handed to one writer at a time, in order) *)
Definition owned_by (owner : bytes -> nat) (s : senders) : Prop :=
  forall i x f d, In x (s i) -> target x = Some (f, d) -> owner f = i.

Lemma owned_upd owner s i x l : s i = x :: l -> owned_by owner s -> owned_by owner (upd s i l).
Proof.
  intros E O j y f d I T. unfold upd in I. destruct (Nat.eqb j i) eqn:J.
  - apply Nat.eqb_eq in J. subst j. apply (O i y f d); [rewrite E; right; exact I|exact T].
  - apply (O j y f d I T).
Qed.

Lemma merge_written owner : forall s m, merge s m -> owned_by owner s ->
  forall f, written f m = written f (s (owner f)).
Proof.
  induction 1 as [s Z|s i x l m E M IH]; intros O f.
  - rewrite Z. reflexivity.
  - specialize (IH (owned_upd owner s i x l E O) f). cbn [written].
    destruct (target x) as [[g d]|] eqn:T.
    + assert (Og : owner g = i) by (apply (O i x g d); [rewrite E; left; reflexivity|exact T]).
      destruct (list_eqb_spec f g) as [->|N].
      * rewrite Og, E. cbn [written]. rewrite T, list_eqb_refl. f_equal.
        rewrite IH, Og. unfold upd. rewrite Nat.eqb_refl. reflexivity.
      * rewrite IH. unfold upd. destruct (Nat.eqb (owner f) i) eqn:J; [|reflexivity].
        apply Nat.eqb_eq in J. rewrite J, E. cbn [written]. rewrite T.
        destruct (list_eqb_spec f g); [contradiction|reflexivity].
    + rewrite IH. unfold upd. destruct (Nat.eqb (owner f) i) eqn:J; [|reflexivity].
      apply Nat.eqb_eq in J. rewrite J, E. cbn [written]. rewrite T. reflexivity.
Qed.

(* ANY two interleavings of whole messages of the same senders give the same content for every file *)
Theorem merges_same_files owner s m1 m2 : owned_by owner s -> merge s m1 -> merge s m2 ->
  forall f, flookup f (local_dir m1) = flookup f (local_dir m2).
Proof.
  intros O M1 M2 f. unfold local_dir. rewrite !flookup_fold.
  rewrite (merge_written owner s m1 M1 O f), (merge_written owner s m2 M2 O f). reflexivity.
Qed.

(* non-vacuity: two writer threads, two tasks; two different interleavings *)
Definition s_ex : senders := fun i => match i with
  | 0%nat => [MData 11 [1]; MData 11 [2]] | 1%nat => [MData 22 [3]; MData 22 [4]] | _ => [] end.
Definition owner_ex (f : bytes) : nat := if list_eqb f (dat_name 11) then 0%nat else 1%nat.
Example merge_ex :
  owned_by owner_ex s_ex /\
  merge s_ex [MData 11 [1]; MData 22 [3]; MData 22 [4]; MData 11 [2]] /\
  merge s_ex [MData 22 [3]; MData 11 [1]; MData 11 [2]; MData 22 [4]].
Proof.
  split; [|split].
  - intros i x f d I T. destruct i as [|[|i]]; cbn in I; repeat (destruct I as [<-|I]; [cbn in T; injection T as <- <-; reflexivity|]); destruct I.
  - eapply (merge_step _ 0%nat); [reflexivity|]. eapply (merge_step _ 1%nat); [reflexivity|].
    eapply (merge_step _ 1%nat); [reflexivity|]. eapply (merge_step _ 0%nat); [reflexivity|].
    apply merge_done. intros [|[|i]]; reflexivity.
  - eapply (merge_step _ 1%nat); [reflexivity|]. eapply (merge_step _ 0%nat); [reflexivity|].
    eapply (merge_step _ 0%nat); [reflexivity|]. eapply (merge_step _ 1%nat); [reflexivity|].
    apply merge_done. intros [|[|i]]; reflexivity.
Qed.
