(* C16 - the same FILE SET: the metadata the recorder sends is a function of its local directory, and the
   directory the receiver ends up with has, for every file name, the content of the local directory. *)
From Coq Require Import String Ascii.
From Coq Require Import NArith ZArith List Bool Arith Lia.
Import ListNotations.
Require Import UV.Gen.Consts UV.C16.Model UV.C16.Proofs UV.C16.Frame UV.C16.Dirs.
Local Open Scope N_scope.

(* ------------------------------------------------------------------ names *)
Lemma last4_app p s : length s = 4%nat -> last4 (p ++ s) = s.
Proof.
  intros H. unfold last4. rewrite app_length, H. replace (length p + 4 - 4)%nat with (length p) by lia.
  apply skipn_app_exact.
Qed.

Lemma has_suffix4_last suf n : has_suffix4 suf n = true -> last4 n = suf.
Proof. unfold has_suffix4. intros H. apply andb_true_iff in H. apply list_eqb_eq. apply H. Qed.

(* the five kinds are pairwise exclusive *)
Lemma suffix_excl a b n : list_eqb a b = false -> has_suffix4 a n = true -> has_suffix4 b n = false.
Proof.
  intros D H. destruct (has_suffix4 b n) eqn:E; [|reflexivity].
  apply has_suffix4_last in H. apply has_suffix4_last in E. rewrite H in E. subst b.
  rewrite list_eqb_refl in D. discriminate.
Qed.

(* a data file name (<tid>.dat, kernel-cpuN.dat, perf-cpuN.dat) is never a metadata name *)
Lemma sent_name_dat p : sent_name (p ++ str ".dat") = false.
Proof.
  assert (L4 : last4 (p ++ str ".dat") = str ".dat") by (apply last4_app; reflexivity).
  unfold sent_name, is_map_name, is_sym_name, is_dbg_name, has_suffix4. rewrite L4.
  change (list_eqb (str ".dat") (str ".map")) with false.
  change (list_eqb (str ".dat") (str ".sym")) with false.
  change (list_eqb (str ".dat") (str ".dbg")) with false.
  rewrite !andb_false_r. cbn [orb].
  destruct (list_eqb_spec n_task (p ++ str ".dat")) as [E|_].
  { apply (f_equal last4) in E. rewrite L4 in E. vm_compute in E. discriminate. }
  destruct (list_eqb_spec n_info (p ++ str ".dat")) as [E|_]; [|reflexivity].
  apply (f_equal last4) in E. rewrite L4 in E. vm_compute in E. discriminate.
Qed.

Lemma data_target_not_sent m f x : is_data m = true -> target m = Some (f, x) -> sent_name f = false.
Proof.
  destruct m; cbn [is_data target]; intros D T; try discriminate; injection T as <- <-.
  - apply sent_name_dat.
  - unfold kernel_name. rewrite app_assoc. apply sent_name_dat.
  - unfold perf_name. rewrite app_assoc. apply sent_name_dat.
Qed.

(* ------------------------------------------------------------------ written *)
Lemma written_app f a b : written f (a ++ b) = written f a ++ written f b.
Proof.
  induction a as [|m r IH]; [reflexivity|]. cbn [app written]. destruct (target m) as [[g x]|]; [|exact IH].
  destruct (list_eqb f g); [cbn [app]; f_equal|]; exact IH.
Qed.

Definition named (f : bytes) (X : dirent) : list bytes := map snd (filter (fun e => list_eqb f (fst e)) X).

Lemma written_files f X : written f (map msg_of_file X) = named f X.
Proof.
  induction X as [|[g c] X IH]; [reflexivity|]. cbn [map written msg_of_file target fst snd named filter].
  destruct (list_eqb f g); [cbn [map snd]; f_equal|]; exact IH.
Qed.
Lemma written_info f X : (forall e, In e X -> fst e = n_info) -> written f (map msg_of_info X) = named f X.
Proof.
  induction X as [|[g c] X IH]; intros H; [reflexivity|].
  assert (Hg : g = n_info) by (apply (H (g, c)); left; reflexivity). subst g.
  cbn [map written msg_of_info target fst snd named filter]. rewrite firstn_skipn.
  destruct (list_eqb f n_info); [cbn [map snd]; f_equal|]; apply IH; intros e I; apply H; right; exact I.
Qed.

Lemma named_sel f p L : named f (sel p L) = if p f then named f L else [].
Proof.
  unfold named, sel. induction L as [|[g c] L IH]; [destruct (p f); reflexivity|].
  change (filter (fun e => p (fst e)) ((g, c) :: L))
    with (if p g then (g, c) :: filter (fun e => p (fst e)) L else filter (fun e => p (fst e)) L).
  change (filter (fun e => list_eqb f (fst e)) ((g, c) :: L))
    with (if list_eqb f g then (g, c) :: filter (fun e => list_eqb f (fst e)) L else filter (fun e => list_eqb f (fst e)) L).
  destruct (list_eqb_spec f g) as [->|N].
  - destruct (p g) eqn:P.
    + change (filter (fun e => list_eqb g (fst e)) ((g, c) :: filter (fun e => p (fst e)) L))
        with (if list_eqb g g then (g, c) :: filter (fun e => list_eqb g (fst e)) (filter (fun e => p (fst e)) L)
              else filter (fun e => list_eqb g (fst e)) (filter (fun e => p (fst e)) L)).
      rewrite list_eqb_refl. cbn [map snd]. rewrite IH. reflexivity.
    + rewrite IH. reflexivity.
  - destruct (p g) eqn:P; [|exact IH].
    change (filter (fun e => list_eqb f (fst e)) ((g, c) :: filter (fun e => p (fst e)) L))
      with (if list_eqb f g then (g, c) :: filter (fun e => list_eqb f (fst e)) (filter (fun e => p (fst e)) L)
            else filter (fun e => list_eqb f (fst e)) (filter (fun e => p (fst e)) L)).
    destruct (list_eqb_spec f g); [contradiction|exact IH].
Qed.

Lemma named_nodup f L : NoDup (map fst L) ->
  named f L = match flookup f L with Some c => [c] | None => [] end.
Proof.
  unfold named. induction L as [|[g c] L IH]; intros ND; [reflexivity|].
  inversion ND as [|? ? NI ND']; subst. cbn [filter fst flookup]. destruct (list_eqb_spec f g) as [->|N].
  - cbn [map snd]. f_equal. rewrite IH by exact ND'.
    destruct (flookup g L) as [c'|] eqn:E; [|reflexivity]. exfalso. apply NI.
    clear -E. induction L as [|[h d] L IH]; [discriminate|]. cbn [flookup] in E. cbn [map fst].
    destruct (list_eqb_spec g h) as [->|]; [left; reflexivity|right; apply IH; exact E].
  - apply IH. exact ND'.
Qed.

Lemma flookup_in f c L : flookup f L = Some c -> In f (map fst L).
Proof.
  induction L as [|[h d] L IH]; [discriminate|]. cbn [flookup map fst]. destruct (list_eqb_spec f h) as [->|].
  - left. reflexivity.
  - intros E. right. apply IH. exact E.
Qed.

(* every file of the local directory that has one of the five kinds is sent EXACTLY ONCE, whole *)
Lemma written_meta f L : NoDup (map fst L) -> sent_name f = true ->
  written f (meta_msgs L) = match flookup f L with Some c => [c] | None => [] end.
Proof.
  intros ND S. unfold meta_msgs. rewrite !written_app, !written_files.
  rewrite written_info by (intros e I; apply filter_In in I; destruct I as [_ I]; symmetry; apply list_eqb_eq; exact I).
  rewrite !named_sel, (named_nodup f L ND).
  set (F := match flookup f L with Some c => [c] | None => [] end).
  unfold sent_name in S.
  destruct (list_eqb_spec n_task f) as [<-|Nt].
  { change (is_map_name n_task) with false. change (is_sym_name n_task) with false.
    change (is_dbg_name n_task) with false. change (list_eqb n_info n_task) with false. rewrite !app_nil_r. reflexivity. }
  destruct (list_eqb_spec n_info f) as [<-|Ni].
  { change (is_map_name n_info) with false. change (is_sym_name n_info) with false.
    change (is_dbg_name n_info) with false. reflexivity. }
  cbn [orb] in S. rewrite orb_false_r in S. cbn [app].
  destruct (is_map_name f) eqn:M.
  { unfold is_map_name in M. apply andb_true_iff in M. destruct M as [_ M].
    unfold is_sym_name, is_dbg_name. rewrite (suffix_excl (str ".map") (str ".sym") f eq_refl M), (suffix_excl (str ".map") (str ".dbg") f eq_refl M).
    rewrite !app_nil_r. reflexivity. }
  destruct (is_sym_name f) eqn:Sy.
  { unfold is_sym_name in Sy. unfold is_dbg_name. rewrite (suffix_excl (str ".sym") (str ".dbg") f eq_refl Sy). rewrite !app_nil_r. reflexivity. }
  cbn [orb] in S. rewrite S. rewrite app_nil_r. reflexivity.
Qed.

Lemma written_meta_other f L : sent_name f = false -> (forall e, In e L -> sent_name (fst e) = true) ->
  written f (meta_msgs L) = [].
Proof.
  intros S A. unfold meta_msgs. rewrite !written_app, !written_files.
  rewrite written_info by (intros e I; apply filter_In in I; destruct I as [_ I]; symmetry; apply list_eqb_eq; exact I).
  rewrite !named_sel. unfold sent_name in S.
  apply orb_false_iff in S. destruct S as [S S5]. apply orb_false_iff in S. destruct S as [S S4].
  apply orb_false_iff in S. destruct S as [S S3]. apply orb_false_iff in S. destruct S as [S1 S2].
  rewrite S1, S2, S3, S4, S5. reflexivity.
Qed.

Lemma written_data_sent f data : forallb is_data data = true -> sent_name f = true -> written f data = [].
Proof.
  induction data as [|m r IH]; intros D S; [reflexivity|]. cbn [forallb] in D. apply andb_true_iff in D. destruct D as [Dm Dr].
  cbn [written]. destruct (target m) as [[g x]|] eqn:T; [|apply IH; assumption].
  destruct (list_eqb_spec f g) as [->|]; [|apply IH; assumption].
  rewrite (data_target_not_sent m g x Dm T) in S. discriminate.
Qed.

(* SAME FILE SET (local side): the directory written from the trace data and the metadata files L has, for
   EVERY name, the content of the local directory: the file of L if L has one, otherwise what the trace data
   (and create_directory) made.  Nothing is lost, duplicated or invented - for whatever kinds of metadata
   files (.sym, .dbg, maps, task, info) the options of the run have produced. *)
Lemma same_file_set_local L data :
  NoDup (map fst L) -> (forall e, In e L -> sent_name (fst e) = true) -> forallb is_data data = true ->
  forall f, flookup f (local_dir (data ++ meta_msgs L)) =
            match flookup f L with Some c => Some c | None => flookup f (local_dir data) end.
Proof.
  intros ND A D f. unfold local_dir. rewrite !flookup_fold, written_app.
  destruct (flookup f L) as [c|] eqn:E.
  - assert (S : sent_name f = true).
    { apply flookup_in in E. apply in_map_iff in E. destruct E as [e [<- I]]. apply A. exact I. }
    rewrite (written_data_sent f data D S), (written_meta f L ND S), E. cbn [app].
    assert (Fr : flookup f fresh_dir = None).
    { unfold fresh_dir. cbn [flookup]. destruct (list_eqb_spec f n_default_opts) as [->|]; [|reflexivity].
      vm_compute in S. discriminate. }
    rewrite Fr. cbn [extend concat]. rewrite app_nil_r. reflexivity.
  - assert (W : written f (meta_msgs L) = []).
    { destruct (sent_name f) eqn:S.
      - rewrite (written_meta f L ND S), E. reflexivity.
      - apply written_meta_other; assumption. }
    rewrite W, app_nil_r. reflexivity.
Qed.

Lemma meta_msgs_body L : forallb is_body (meta_msgs L) = true.
Proof.
  unfold meta_msgs. rewrite !forallb_app.
  assert (F : forall X, forallb is_body (map msg_of_file X) = true) by (induction X; [reflexivity|exact IHX]).
  assert (I : forall X, forallb is_body (map msg_of_info X) = true) by (induction X; [reflexivity|exact IHX]).
  rewrite !F, I. reflexivity.
Qed.
Lemma data_body data : forallb is_data data = true -> forallb is_body data = true.
Proof.
  induction data as [|m r IH]; [reflexivity|]. cbn [forallb]. intros D. apply andb_true_iff in D. destruct D as [Dm Dr].
  rewrite IH by exact Dr. destruct m; try discriminate Dm; reflexivity.
Qed.

(* SAME FILE SET (network): after the session  MDir d; trace data; metadata of L; MEnd  the receiver's
   directory d has, for every name, exactly the local directory's file *)
Lemma same_file_set fx k d L data s :
  NoDup (map fst L) -> (forall e, In e L -> sent_name (fst e) = true) -> forallb is_data data = true ->
  mkdir_name fx d (clients s) = Some d -> create_directory d (fs s) d = Some fresh_dir ->
  exists s' R, run fx (map (pair k) (MDir d :: (data ++ meta_msgs L) ++ [MEnd])) s = Some s' /\ fs s' d = Some R /\
    forall f, flookup f R = match flookup f L with Some c => Some c | None => flookup f (local_dir data) end.
Proof.
  intros ND A D MK C.
  destruct (same_as_local fx k d (data ++ meta_msgs L) s) as [s' [R [F _]]]; [|exact MK|exact C|].
  - rewrite forallb_app, (data_body data D), meta_msgs_body. reflexivity.
  - exists s', (local_dir (data ++ meta_msgs L)). split; [exact R|]. split; [exact F|].
    apply same_file_set_local; assumption.
Qed.

(* non-vacuity: a directory with every kind of metadata file, including debug files *)
Definition str_libc_dbg := str "libc.so.6.dbg".
Definition str_libc_sym := str "libc.so.6.sym".
Definition str_p_dbg := str "p.dbg".
Definition str_p_sym := str "p.sym".
Definition str_sid_map := str "sid-abc.map".
Definition L_ex : dirent :=
  [(n_info, [1; 2; 3]); (str_libc_dbg, [4]); (str_libc_sym, [5]); (str_p_dbg, [6]); (str_p_sym, [7]);
   (str_sid_map, [8]); (n_task, [9])].
Example same_file_set_ex :
  NoDup (map fst L_ex) /\ forallb (fun e => sent_name (fst e)) L_ex = true /\
  map target (meta_msgs L_ex) =
    [Some (n_task, [9]); Some (str_sid_map, [8]); Some (str_libc_sym, [5]); Some (str_p_sym, [7]);
     Some (str_libc_dbg, [4]); Some (str_p_dbg, [6]); Some (n_info, [1; 2; 3])].
Proof.
  split; [|split; vm_compute; reflexivity].
  repeat constructor; cbn; intros H; repeat (destruct H as [H|H]; [vm_compute in H; discriminate|]); exact H.
Qed.

(* ------------------------------------------------------------------ a file sent in several pieces *)
Section Chunked.
  Variable chunk : bytes -> list bytes.
  Hypothesis chunk_nonempty : forall c, chunk c <> [].          (* even an empty file gets a message: it is created *)
  Hypothesis chunk_concat : forall c, concat (chunk c) = c.     (* the payloads of a file's messages are the file *)

  Definition namedc (f : bytes) (X : dirent) : list bytes :=
    flat_map (fun e => chunk (snd e)) (filter (fun e => list_eqb f (fst e)) X).

  Lemma written_map_meta f g ps : written f (map (MMeta g) ps) = if list_eqb f g then ps else [].
  Proof.
    induction ps as [|p ps IH]; [destruct (list_eqb f g); reflexivity|]. cbn [map written target].
    destruct (list_eqb f g) eqn:E; [f_equal|]; rewrite IH, ?E; reflexivity.
  Qed.
  Lemma written_files_c f X : written f (flat_map (msgs_of_file chunk) X) = namedc f X.
  Proof.
    unfold namedc. induction X as [|[g c] X IH]; [reflexivity|]. cbn [flat_map filter fst].
    rewrite written_app. unfold msgs_of_file at 1. cbn [fst snd]. rewrite written_map_meta, IH.
    destruct (list_eqb f g); reflexivity.
  Qed.
  Lemma namedc_sel f p L : namedc f (sel p L) = if p f then namedc f L else [].
  Proof.
    unfold namedc. assert (H := named_sel f p L). unfold named in H.
    assert (E : filter (fun e => list_eqb f (fst e)) (sel p L) =
                if p f then filter (fun e => list_eqb f (fst e)) L else []).
    { unfold sel. clear H. induction L as [|[g c] L IH]; [destruct (p f); reflexivity|].
      change (filter (fun e => p (fst e)) ((g, c) :: L))
        with (if p g then (g, c) :: filter (fun e => p (fst e)) L else filter (fun e => p (fst e)) L).
      change (filter (fun e => list_eqb f (fst e)) ((g, c) :: L))
        with (if list_eqb f g then (g, c) :: filter (fun e => list_eqb f (fst e)) L else filter (fun e => list_eqb f (fst e)) L).
      destruct (list_eqb_spec f g) as [->|N].
      - destruct (p g) eqn:P; [|exact IH].
        change (filter (fun e => list_eqb g (fst e)) ((g, c) :: filter (fun e => p (fst e)) L))
          with (if list_eqb g g then (g, c) :: filter (fun e => list_eqb g (fst e)) (filter (fun e => p (fst e)) L)
                else filter (fun e => list_eqb g (fst e)) (filter (fun e => p (fst e)) L)).
        rewrite list_eqb_refl, IH. reflexivity.
      - destruct (p g) eqn:P; [|exact IH].
        change (filter (fun e => list_eqb f (fst e)) ((g, c) :: filter (fun e => p (fst e)) L))
          with (if list_eqb f g then (g, c) :: filter (fun e => list_eqb f (fst e)) (filter (fun e => p (fst e)) L)
                else filter (fun e => list_eqb f (fst e)) (filter (fun e => p (fst e)) L)).
        destruct (list_eqb_spec f g); [contradiction|exact IH]. }
    rewrite E. destruct (p f); reflexivity.
  Qed.
  Lemma namedc_nodup f L : NoDup (map fst L) ->
    namedc f L = match flookup f L with Some c => chunk c | None => [] end.
  Proof.
    intros ND. unfold namedc. assert (H := named_nodup f L ND). unfold named in H.
    destruct (flookup f L) as [c|].
    - destruct (filter (fun e => list_eqb f (fst e)) L) as [|[g c'] [|? ?]]; try discriminate H.
      cbn [map snd] in H. injection H as ->. cbn [flat_map snd]. apply app_nil_r.
    - destruct (filter (fun e => list_eqb f (fst e)) L); [reflexivity|discriminate H].
  Qed.

  (* every metadata file: the payloads of its messages, in order, are its pieces - nothing else is sent under its name *)
  Lemma written_meta_c f L : NoDup (map fst L) -> sent_name f = true ->
    written f (meta_msgs_c chunk L) =
    match flookup f L with Some c => (if list_eqb n_info f then [c] else chunk c) | None => [] end.
  Proof.
    intros ND S. unfold meta_msgs_c. rewrite !written_app, !written_files_c.
    rewrite written_info by (intros e I; apply filter_In in I; destruct I as [_ I]; symmetry; apply list_eqb_eq; exact I).
    rewrite !namedc_sel, named_sel, (namedc_nodup f L ND), (named_nodup f L ND).
    unfold sent_name in S.
    destruct (list_eqb_spec n_task f) as [<-|Nt].
    { change (is_map_name n_task) with false. change (is_sym_name n_task) with false.
      change (is_dbg_name n_task) with false. change (list_eqb n_info n_task) with false. rewrite !app_nil_r. reflexivity. }
    destruct (list_eqb_spec n_info f) as [<-|Ni].
    { change (is_map_name n_info) with false. change (is_sym_name n_info) with false.
      change (is_dbg_name n_info) with false. reflexivity. }
    cbn [orb] in S. rewrite orb_false_r in S. cbn [app].
    destruct (is_map_name f) eqn:M.
    { unfold is_map_name in M. apply andb_true_iff in M. destruct M as [_ M].
      unfold is_sym_name, is_dbg_name.
      rewrite (suffix_excl (str ".map") (str ".sym") f eq_refl M), (suffix_excl (str ".map") (str ".dbg") f eq_refl M).
      rewrite !app_nil_r. reflexivity. }
    destruct (is_sym_name f) eqn:Sy.
    { unfold is_sym_name in Sy. unfold is_dbg_name. rewrite (suffix_excl (str ".sym") (str ".dbg") f eq_refl Sy).
      rewrite !app_nil_r. reflexivity. }
    cbn [orb] in S. rewrite S. rewrite app_nil_r. reflexivity.
  Qed.
  Lemma written_meta_other_c f L : sent_name f = false -> written f (meta_msgs_c chunk L) = [].
  Proof.
    intros S. unfold meta_msgs_c. rewrite !written_app, !written_files_c.
    rewrite written_info by (intros e I; apply filter_In in I; destruct I as [_ I]; symmetry; apply list_eqb_eq; exact I).
    rewrite !namedc_sel, named_sel. unfold sent_name in S.
    apply orb_false_iff in S. destruct S as [S S5]. apply orb_false_iff in S. destruct S as [S S4].
    apply orb_false_iff in S. destruct S as [S S3]. apply orb_false_iff in S. destruct S as [S1 S2].
    rewrite S1, S2, S3, S4, S5. reflexivity.
  Qed.

  Lemma same_file_set_local_c L data :
    NoDup (map fst L) -> (forall e, In e L -> sent_name (fst e) = true) -> forallb is_data data = true ->
    forall f, flookup f (local_dir (data ++ meta_msgs_c chunk L)) =
              match flookup f L with Some c => Some c | None => flookup f (local_dir data) end.
  Proof.
    intros ND A D f. unfold local_dir. rewrite !flookup_fold, written_app.
    destruct (flookup f L) as [c|] eqn:E.
    - assert (S : sent_name f = true).
      { apply flookup_in in E. apply in_map_iff in E. destruct E as [e [<- I]]. apply A. exact I. }
      rewrite (written_data_sent f data D S), (written_meta_c f L ND S), E. cbn [app].
      assert (Fr : flookup f fresh_dir = None).
      { unfold fresh_dir. cbn [flookup]. destruct (list_eqb_spec f n_default_opts) as [->|]; [|reflexivity].
        vm_compute in S. discriminate. }
      rewrite Fr. destruct (list_eqb n_info f).
      + cbn [extend concat]. rewrite app_nil_r. reflexivity.
      + unfold extend. destruct (chunk c) eqn:C; [exfalso; apply (chunk_nonempty c C)|]. rewrite <- C, chunk_concat. reflexivity.
    - assert (W : written f (meta_msgs_c chunk L) = []).
      { destruct (sent_name f) eqn:S.
        - rewrite (written_meta_c f L ND S), E. reflexivity.
        - apply written_meta_other_c; assumption. }
      rewrite W, app_nil_r. reflexivity.
  Qed.

  Lemma meta_msgs_c_body L : forallb is_body (meta_msgs_c chunk L) = true.
  Proof.
    unfold meta_msgs_c. rewrite !forallb_app.
    assert (F : forall X, forallb is_body (flat_map (msgs_of_file chunk) X) = true).
    { induction X as [|e X IH]; [reflexivity|]. cbn [flat_map]. rewrite forallb_app, IH, andb_true_r.
      unfold msgs_of_file. induction (chunk (snd e)); [reflexivity|assumption]. }
    assert (I : forall X, forallb is_body (map msg_of_info X) = true) by (induction X; [reflexivity|exact IHX]).
    rewrite !F, I. reflexivity.
  Qed.

  (* SAME FILE SET for ANY way of cutting a file into messages: as long as every file gets at least one message and
     the payloads of its messages add up to the file, the receiver's directory has exactly the local files *)
  Lemma same_file_set_c fx k d L data s :
    NoDup (map fst L) -> (forall e, In e L -> sent_name (fst e) = true) -> forallb is_data data = true ->
    mkdir_name fx d (clients s) = Some d -> create_directory d (fs s) d = Some fresh_dir ->
    exists s' R, run fx (map (pair k) (MDir d :: (data ++ meta_msgs_c chunk L) ++ [MEnd])) s = Some s' /\ fs s' d = Some R /\
      forall f, flookup f R = match flookup f L with Some c => Some c | None => flookup f (local_dir data) end.
  Proof.
    intros ND A D MK C.
    destruct (same_as_local fx k d (data ++ meta_msgs_c chunk L) s) as [s' [R [F _]]]; [|exact MK|exact C|].
    - rewrite forallb_app, (data_body data D), meta_msgs_c_body. reflexivity.
    - exists s', (local_dir (data ++ meta_msgs_c chunk L)). split; [exact R|]. split; [exact F|].
      apply same_file_set_local_c; assumption.
  Qed.
End Chunked.

(* the code's chunking (one message per file) and fixed-size pieces both qualify *)
Lemma whole_ok : (forall c, whole c <> []) /\ (forall c, concat (whole c) = c).
Proof. split; intros c; [discriminate|apply app_nil_r]. Qed.
Lemma pieces_ok fuel n : (forall c, pieces fuel n c <> []) /\ (forall c, concat (pieces fuel n c) = c).
Proof.
  split; induction fuel as [|f IH]; intros c; cbn [pieces]; try discriminate; try apply app_nil_r.
  - destruct (length c <=? n)%nat; discriminate.
  - destruct (length c <=? n)%nat; [apply app_nil_r|]. cbn [concat]. rewrite IH. apply firstn_skipn.
Qed.
Lemma meta_msgs_whole L : meta_msgs_c whole L = meta_msgs L.
Proof.
  unfold meta_msgs_c, meta_msgs.
  assert (E : forall X, flat_map (msgs_of_file whole) X = map msg_of_file X).
  { induction X as [|e X IH]; [reflexivity|]. cbn [flat_map map]. rewrite IH. reflexivity. }
  rewrite !E. reflexivity.
Qed.

(* the slip of a sender that cuts files into 64 KiB pieces but computes the last piece as len mod 64 KiB (for a
   4-byte piece size here): a file of exactly 2 pieces loses its last piece - [chunk_concat] is the hypothesis it breaks *)
Definition bad_pieces (n : nat) (c : bytes) : list bytes :=
  (fix go (fuel : nat) (c : bytes) : list bytes :=
     match fuel with
     | O => [c]
     | S f => if (n <? length c)%nat then firstn n c :: go f (skipn n c) else [firstn (length c mod n) c]
     end) (length c) c.
Example bad_pieces_loses_data :
  concat (bad_pieces 4 [1; 2; 3; 4; 5; 6; 7]) = [1; 2; 3; 4; 5; 6; 7] /\
  concat (bad_pieces 4 [1; 2; 3; 4; 5; 6; 7; 8]) = [1; 2; 3; 4] /\ concat (bad_pieces 4 [1; 2; 3; 4]) = [].
Proof. vm_compute. repeat split; reflexivity. Qed.

(* ------------------------------------------------------------------ the receiver is NAME-AGNOSTIC *)
(* for every list of (name, content) metadata messages - names of ANY shape: leading dots (".prog-wrapped.sym"),
   several dots, "..x", blanks, long - with pairwise different names, the received directory holds exactly those
   names with those contents (beside default.opts).  The receiver never inspects a file name. *)
Lemma metadata_any_names fx k d L s :
  NoDup (map fst L) -> (forall e, In e L -> fst e <> n_default_opts) ->
  mkdir_name fx d (clients s) = Some d -> create_directory d (fs s) d = Some fresh_dir ->
  exists s' R, run fx (map (pair k) (MDir d :: map msg_of_file L ++ [MEnd])) s = Some s' /\ fs s' d = Some R /\
    forall f, flookup f R = if list_eqb f n_default_opts then Some [] else flookup f L.
Proof.
  intros ND A MK C.
  destruct (same_as_local fx k d (map msg_of_file L) s) as [s' [R [F _]]]; [|exact MK|exact C|].
  - clear. induction L as [|e L IH]; [reflexivity|exact IH].
  - exists s', (local_dir (map msg_of_file L)). split; [exact R|]. split; [exact F|].
    intros f. unfold local_dir. rewrite flookup_fold, written_files, (named_nodup f L ND).
    unfold fresh_dir. cbn [flookup]. destruct (list_eqb_spec f n_default_opts) as [->|N].
    + assert (Z : flookup n_default_opts L = None).
      { destruct (flookup n_default_opts L) as [c|] eqn:E; [|reflexivity]. exfalso.
        apply flookup_in in E. apply in_map_iff in E. destruct E as [e [E I]]. apply (A e I E). }
      rewrite Z. reflexivity.
    + destruct (flookup f L) as [c|]; [|reflexivity]. cbn [extend concat]. rewrite app_nil_r. reflexivity.
Qed.

Definition L_dots : dirent :=
  [(str ".prog-wrapped.sym", [1]); (str ".libx.so.sym", [2]); (str "..x.dbg", [3]); (str "....sym", [4]); (str ".uftrace.log", [5])].
Example metadata_any_names_ex :
  NoDup (map fst L_dots) /\ forallb (fun e => negb (list_eqb (fst e) n_default_opts)) L_dots = true /\
  forallb (fun e => wf_msg (msg_of_file e)) L_dots = true.
Proof.
  split; [|split; vm_compute; reflexivity].
  repeat constructor; cbn; intros H; repeat (destruct H as [H|H]; [vm_compute in H; discriminate|]); exact H.
Qed.
