(* C16 - read_all composes: two requests of n1 and n2 bytes deliver, together, exactly what one request of n1 + n2
   bytes delivers and leave the same rest, for every segmentation of the stream. *)
From Coq Require Import NArith List Bool Arith Lia.
Import ListNotations.
Require Import UV.Gen.Consts UV.C16.Model UV.C16.Proofs.

Lemma firstn_add {A} (l : list A) a b : firstn a l ++ firstn b (skipn a l) = firstn (a + b) l.
Proof.
  revert l. induction a as [|a IH]; intro l; [reflexivity|].
  destruct l as [|x l]; [cbn; rewrite firstn_nil; reflexivity|]. cbn [firstn skipn Nat.add app]. f_equal. apply IH.
Qed.
Lemma skipn_add {A} (l : list A) a b : skipn b (skipn a l) = skipn (a + b) l.
Proof.
  revert l. induction a as [|a IH]; intro l; [reflexivity|].
  destruct l as [|x l]; [cbn; rewrite skipn_nil; reflexivity|]. cbn [skipn Nat.add]. apply IH.
Qed.

Theorem read_all_composes t n1 n2 : good t = true -> n1 + n2 <= length (bytes_of t) ->
  exists b1 t1 b2 t2 t12,
    read_all t n1 = Some (b1, t1) /\ read_all t1 n2 = Some (b2, t2) /\
    read_all t (n1 + n2) = Some (b1 ++ b2, t12) /\ bytes_of t2 = bytes_of t12.
Proof.
  intros G L.
  destruct (read_all_spec t n1 G ltac:(lia)) as (t1 & R1 & B1 & G1).
  assert (L2 : n2 <= length (bytes_of t1)) by (rewrite B1, skipn_length; lia).
  destruct (read_all_spec t1 n2 G1 L2) as (t2 & R2 & B2 & _).
  destruct (read_all_spec t (n1 + n2) G L) as (t12 & R12 & B12 & _).
  exists (firstn n1 (bytes_of t)), t1, (firstn n2 (bytes_of t1)), t2, t12.
  repeat split; try assumption.
  - rewrite B1, firstn_add. exact R12.
  - rewrite B2, B1, B12. apply skipn_add.
Qed.
